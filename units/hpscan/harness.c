/* unit hpscan - reclaim side of hazard_pointer and hazard_eras (C01 reclaim side, C02, C17).
 * Contracts, ghost state, std stubs and harnesses only; all xenium function bodies come from lowered.h. */
#include <stdint.h>
#include <stddef.h>
static void mon_load(void* addr, uint64_t v, int o);
static void mon_store(void* addr, uint64_t v, int o);
static void mon_cas(void* addr, uint64_t e, uint64_t d, _Bool ok, int o);
static void mon_rmw(void* addr, uint64_t oldv, uint64_t newv, int o);
static void mon_fence(int o);
#define XV_ON_LOAD(addr, val, order) mon_load((void*)(addr), (uint64_t)(val), (order))
#define XV_ON_STORE(addr, val, order) mon_store((void*)(addr), (uint64_t)(val), (order))
#define XV_ON_CAS(addr, e, d, ok, order) mon_cas((void*)(addr), (uint64_t)(e), (uint64_t)(d), (ok), (order))
#define XV_ON_RMW(addr, oldv, newv, order) mon_rmw((void*)(addr), (uint64_t)(oldv), (uint64_t)(newv), (order))
#define XV_ON_FENCE(order) mon_fence(order)
#include "xv.h"
int xv_threw; uint64_t xv_clock, xv_rmw_old; _Bool xv_cas_ok;

#ifndef XV_E
#define XV_E 3       /* entries in the global thread block list */
#endif
#ifndef XV_K
#define XV_K 3       /* slots per control block */
#endif
#ifndef XV_L
#define XV_L 3       /* nodes in the thread's retire list */
#endif
#ifndef XV_LA
#define XV_LA 2      /* nodes in the global abandoned list */
#endif
#ifndef XV_A
#define XV_A 2
#endif
#ifndef XV_B
#define XV_B 100
#endif
#ifndef XV_BS
#define XV_BS 2      /* max slots of a dynamic block */
#endif
#define XV_NB 2      /* max number of chained dynamic blocks (of entry 0) */
#ifdef XV_DYNAMIC
#define VCAP (XV_E * XV_K + XV_NB * XV_BS)
#else
#define VCAP (XV_E * XV_K)
#endif
#define NN (XV_L + XV_LA + 1)
#define MARK_BIT ((uintptr_t)1 << 63)

enum { ES_free = 0, ES_inactive = 1, ES_active = 2 };
struct node { struct node* next; uint64_t construction_era, retirement_era;
              /* ghost */ uintptr_t addr; unsigned deleted; int deleter; };
struct slot { uintptr_t value; uint64_t guard_cnt; };
struct hpblock { struct hpblock* next; size_t size; };
struct tcb { struct tcb* next_entry; int state; struct slot pointers[XV_K]; size_t total_number_of_hps; struct hpblock* hp_block; };   /* HE: the array member `eras` is renamed to pointers by the unit */
struct tbl { struct tcb* head; struct node* abandoned_retired_nodes; };
struct tbl_iter { struct tcb* ptr; };
struct td { struct node* retire_list; size_t number_of_retired_nodes; struct slot* hint; struct tcb* control_block; };
#ifdef XV_ABS_VEC
/* ABSTRACT vector (scan-level runs): the abstraction function maps a concrete std::vector to the SET of its elements; here the set is
 * represented by "which slot cells contributed which word".  Iterators are tags.  The contracts that justify it: run *_gather (real
 * gather text appends exactly the non-link words of the entry), std::sort / std::unique+erase keep the set and make the vector sorted,
 * run *_reclaim (real reclaim_nodes text decides by the set, requires sortedness). */
struct vec { uintptr_t tag[3]; _Bool in[XV_E][XV_K]; uintptr_t val[XV_E][XV_K]; _Bool sorted, uniq_pending; uintptr_t data[1]; unsigned char n; };
#else
struct vec { uintptr_t data[VCAP + 1]; unsigned char n; };   /* n <= VCAP < 256 */
#endif
struct guard { struct node* ptr; struct slot* hp; };
static const struct tbl_iter xv_no_iter = {0};
static struct tbl_iter XV_MAKE_ITER(struct tcb* p) { struct tbl_iter it; it.ptr = p; return it; }

/* every node and every entry is an object of its own (not an array element): cbmc then resolves each pointer to a small set of
 * objects with constant offsets and keeps the formula small */
struct node nd0, nd1, nd2, nd3, nd4, nd5, nd6, nd7, nd8, nd9; struct tcb te0, te1, te2, te3, te4;
static struct node* NODE(unsigned i) { struct node* r = (struct node*)0;
  if (i == 0) r = &nd0; if (i == 1) r = &nd1; if (i == 2) r = &nd2; if (i == 3) r = &nd3; if (i == 4) r = &nd4; if (i == 5) r = &nd5; if (i == 6) r = &nd6; if (i == 7) r = &nd7; if (i == 8) r = &nd8; if (i == 9) r = &nd9; return r; }
static struct tcb* ENTRY(unsigned k) { struct tcb* r = (struct tcb*)0; if (k == 0) r = &te0; if (k == 1) r = &te1; if (k == 2) r = &te2; if (k == 3) r = &te3; if (k == 4) r = &te4; return r; }
struct dynblk { struct hpblock h; struct slot s[XV_BS]; } db0, db1;
static struct dynblk* DBLK(unsigned b) { return b == 0 ? &db0 : &db1; }
#define npool(j) (*NODE(j))
#define epool(k) (*ENTRY(k))
struct tbl global_thread_block_list; struct td local_thread_data;
size_t number_of_active_hps; uint64_t era_clock;
#define number_of_active_hes number_of_active_hps

/* ---- marked_ptr<void*, 1> contract (unit mp): the mark is the top bit ---- */
#define MP_mark(v) ((uintptr_t)(v) >> 63)
#define MP_get(v) ((uintptr_t)(v) & ~MARK_BIT)

/* ---- std::vector / algorithms: stubs that implement exactly the standard contracts ---- */
_Bool g_model_overflow; unsigned g_search_unsorted;
typedef const uintptr_t* cit;
#ifdef XV_ABS_VEC
struct vec* g_absvec;
static void VEC_init_f(struct vec* v) { for (unsigned k = 0; k < XV_E; k++) for (unsigned i = 0; i < XV_K; i++) { v->in[k][i] = 0; v->val[k][i] = nondet_uptr(); } v->sorted = 0; v->uniq_pending = 0; v->n = 0; g_absvec = v; }
#define VEC_init(v) VEC_init_f(&(v))
#define VEC_reserve(v, n) ((void)(n))
#define VEC_push_back(v, x) (g_model_overflow = 1)         /* element-wise access is not representable in the abstract model */
#define VEC_begin(v) (&(v).tag[0])
#define VEC_end(v) (&(v).tag[1])
static _Bool abs_full_range(cit b, cit e) { return g_absvec && b == &g_absvec->tag[0] && e == &g_absvec->tag[1]; }
static void STD_sort(uintptr_t* b, uintptr_t* e) { if (abs_full_range(b, e) && !g_absvec->uniq_pending) g_absvec->sorted = 1; else g_model_overflow = 1; }   /* sorted permutation: same set, sorted */
static uintptr_t* STD_unique(uintptr_t* b, uintptr_t* e) { if (abs_full_range(b, e)) { g_absvec->uniq_pending = 1; return &g_absvec->tag[2]; } g_model_overflow = 1; return b; }  /* same set; tail garbage until erased */
static void vec_erase(struct vec* v, cit f, cit l) { if (f == &v->tag[2] && l == &v->tag[1] && v->uniq_pending) v->uniq_pending = 0; else g_model_overflow = 1; }
#define VEC_erase(v, f, l) vec_erase(&(v), (f), (l))
#define STD_binary_search(b, e, k) (g_model_overflow = 1, nondet_bool())
#define STD_lower_bound(b, e, k) (g_model_overflow = 1, (cit)(b))
#define VEC_IS_SORTED(v) ((v)->sorted && !(v)->uniq_pending)
#else
static void VEC_init_f(struct vec* v) { v->n = 0; for (unsigned i = 0; i <= VCAP; i++) v->data[i] = nondet_uptr(); }
#define VEC_init(v) VEC_init_f(&(v))
#define VEC_reserve(v, n) ((void)(n))
static void vec_push_back(struct vec* v, uintptr_t x) { if (v->n >= VCAP) { g_model_overflow = 1; return; } v->data[v->n] = x; v->n++; }
#define VEC_push_back(v, x) vec_push_back(&(v), (x))
#define VEC_begin(v) (&(v).data[0])
#define VEC_end(v) (&(v).data[(v).n])
/* all stubs turn the iterator pair into (base pointer, length) once and then work with integer indices */
static _Bool range_sorted(cit b, unsigned char n) { for (unsigned i = 0; i + 1 < VCAP; i++) if (i + 1 < n && b[i] > b[i + 1]) return 0; return 1; }
/* std::sort: the result is THE sorted permutation of the input (unique as a sequence of values).  Encoded with a permutation witness
 * and its inverse instead of a sorting network: same contract; the assumptions are always satisfiable, so no behaviour is excluded */
static void STD_sort(uintptr_t* b, uintptr_t* e) {
  unsigned char n = (unsigned char)(e - b); uintptr_t in[VCAP]; unsigned char perm[VCAP], inv[VCAP];
  for (unsigned i = 0; i < VCAP; i++) { in[i] = b[i]; perm[i] = nondet_uchar(); inv[i] = nondet_uchar(); }
  for (unsigned i = 0; i < VCAP; i++) if (i < n) {
    XV_ASSUME(perm[i] < n && inv[i] < n && inv[perm[i]] == i && perm[inv[i]] == i);
    b[i] = in[perm[i]];
  }
  for (unsigned i = 0; i + 1 < VCAP; i++) if (i + 1 < n) XV_ASSUME(b[i] <= b[i + 1]);
}
static _Bool xv_binary_search(cit b, cit e, uintptr_t key) {   /* sorted range: result <=> key in [b,e); otherwise unspecified */
  unsigned char n = (unsigned char)(e - b);
  if (!range_sorted(b, n)) { g_search_unsorted++; return nondet_bool(); }
  _Bool found = 0; for (unsigned i = 0; i < VCAP; i++) if (i < n && b[i] == key) found = 1;
  return found;
}
#define STD_binary_search(b, e, k) xv_binary_search((b), (e), (k)->addr)
static cit STD_lower_bound(cit b, cit e, uint64_t key) {       /* sorted range: first element >= key, or e */
  unsigned char n = (unsigned char)(e - b);
  if (!range_sorted(b, n)) { g_search_unsorted++; unsigned char k = nondet_uchar(); XV_ASSUME(k <= n); return b + k; }
  unsigned char r = n; for (unsigned i = VCAP; i-- > 0;) if (i < n && b[i] >= key) r = i;
  return b + r;
}
static uintptr_t* STD_unique(uintptr_t* b, uintptr_t* e) {     /* removes consecutive duplicates, returns the new end; the tail is unspecified */
  unsigned char n = (unsigned char)(e - b); unsigned char w = 0;
  for (unsigned i = 0; i < VCAP; i++) if (i < n && (w == 0 || b[w - 1] != b[i])) { b[w] = b[i]; w++; }
  for (unsigned i = 0; i < VCAP; i++) if (i >= w && i < n) b[i] = nondet_uptr();
  return b + w;
}
static void vec_erase(struct vec* v, cit first, cit last) { if (last != &v->data[v->n]) { g_model_overflow = 1; return; } v->n = (unsigned char)(first - &v->data[0]); }
#define VEC_erase(v, f, l) vec_erase(&(v), (f), (l))

#define VEC_IS_SORTED(v) range_sorted(&(v)->data[0], (v)->n)
#endif
/* ---- ghost event record of a scan ---- */
uint64_t g_last_slot_clock, g_acq_fence_clock; /* last slot read; last acquire-or-stronger fence */
uint64_t g_fence_clock, g_first_slot_clock, g_adopt_clock, g_first_state_clock, g_head_clock; int g_head_order;
unsigned g_slot_reads[XV_E][XV_K], g_state_reads[XV_E]; _Bool g_seen_active[XV_E], g_link_seen;
uintptr_t g_val[XV_E][XV_K]; _Bool g_counted[XV_E][XV_K];
unsigned g_bslot_reads[XV_NB][XV_BS], g_hpblock_loads; int g_hpblock_order; uintptr_t g_bval[XV_NB][XV_BS]; _Bool g_bcounted[XV_NB][XV_BS];           /* HP: non-link words / HE: eras read from slots of entries that were active when last looked at */
unsigned g_era_add_n; int g_era_add_o; extern uint64_t t_seq, t_era_seq;
unsigned g_state_store_n, g_ab_cas_ok_n, g_ab_store_n, g_ab_xchg_n, g_cnt_sub_n; int g_state_store_k, g_state_store_o, g_state_store_v, g_ab_cas_o; uint64_t g_cnt_sub_v;
struct node *g_ab_cas_d, *g_ab_cas_e;
static void mon_load_blocks(void* addr, uint64_t v, int o);
static void mon_load(void* addr, uint64_t v, int o) {
#ifdef XV_DYNAMIC
  mon_load_blocks(addr, v, o);
#endif
  if (addr == (void*)&global_thread_block_list.head) { g_head_clock = xv_clock; g_head_order = o; }
  for (unsigned k = 0; k < XV_E; k++) {
    if (addr == (void*)&epool(k).state) { g_state_reads[k]++; g_seen_active[k] = ((int)v == ES_active); if (!g_first_state_clock) g_first_state_clock = xv_clock; }
    for (unsigned i = 0; i < XV_K; i++) if (addr == (void*)&epool(k).pointers[i].value) {
      g_slot_reads[k][i]++; if (!g_first_slot_clock) g_first_slot_clock = xv_clock; g_last_slot_clock = xv_clock;
      if (g_seen_active[k] && MP_mark(v) == 0) {
        g_counted[k][i] = 1;
#ifdef XV_HE
        g_val[k][i] = (uintptr_t)(MP_get(v) >> 1);
#else
        g_val[k][i] = MP_get(v);
#endif
      }
    }
  }
}
static void mon_load_blocks(void* addr, uint64_t v, int o) {
  for (unsigned k = 0; k < XV_E; k++) if (addr == (void*)&epool(k).hp_block) { g_hpblock_loads++; g_hpblock_order = o; }
  for (unsigned b = 0; b < XV_NB; b++) for (unsigned i = 0; i < XV_BS; i++) if (addr == (void*)&DBLK(b)->s[i].value) {
    g_bslot_reads[b][i]++; if (!g_first_slot_clock) g_first_slot_clock = xv_clock; g_last_slot_clock = xv_clock;
    if (g_seen_active[0] && MP_mark(v) == 0) { g_bcounted[b][i] = 1;
#ifdef XV_HE
      g_bval[b][i] = (uintptr_t)(MP_get(v) >> 1);
#else
      g_bval[b][i] = MP_get(v);
#endif
    }
  }
}
static void mon_fence(int o) { if (o == mo_seq_cst && !g_fence_clock) g_fence_clock = xv_clock; if (XV_IS_ACQUIRE(o)) g_acq_fence_clock = xv_clock; }
static void mon_store(void* addr, uint64_t v, int o) {
  for (unsigned k = 0; k < XV_E; k++) if (addr == (void*)&epool(k).state) { g_state_store_n++; g_state_store_k = k; g_state_store_o = o; g_state_store_v = (int)v; }
  if (addr == (void*)&global_thread_block_list.abandoned_retired_nodes) g_ab_store_n++;
}
static void mon_cas(void* addr, uint64_t e, uint64_t d, _Bool ok, int o) {
  if (addr == (void*)&global_thread_block_list.abandoned_retired_nodes && ok) { g_ab_cas_ok_n++; g_ab_cas_d = (struct node*)d; g_ab_cas_e = (struct node*)e; g_ab_cas_o = o; }
}
static void mon_rmw(void* addr, uint64_t oldv, uint64_t newv, int o) {
  if (addr == (void*)&global_thread_block_list.abandoned_retired_nodes) { g_ab_xchg_n++; if (!g_adopt_clock) g_adopt_clock = xv_clock; }
  if (addr == (void*)&number_of_active_hps) { g_cnt_sub_n++; g_cnt_sub_v = oldv - newv; }
  if (addr == (void*)&era_clock) { g_era_add_n++; g_era_add_o = o; t_era_seq = ++t_seq; }
}
static _Bool gath_contains(uintptr_t w) { for (unsigned k = 0; k < XV_E; k++) for (unsigned i = 0; i < XV_K; i++) if (g_counted[k][i] && g_val[k][i] == w) return 1;
  for (unsigned b = 0; b < XV_NB; b++) for (unsigned i = 0; i < XV_BS; i++) if (g_bcounted[b][i] && g_bval[b][i] == w) return 1; return 0; }
static _Bool gath_in_interval(uint64_t lo, uint64_t hi) { for (unsigned k = 0; k < XV_E; k++) for (unsigned i = 0; i < XV_K; i++) if (g_counted[k][i] && g_val[k][i] >= lo && g_val[k][i] <= hi) return 1;
  for (unsigned b = 0; b < XV_NB; b++) for (unsigned i = 0; i < XV_BS; i++) if (g_bcounted[b][i] && g_bval[b][i] >= lo && g_bval[b][i] <= hi) return 1; return 0; }

/* a nondeterministic node pointer as a choice between constant-index addresses (keeps cbmc's dereferencing field-sensitive) */
static struct node* nondet_node(void) { unsigned k = nondet_uint(); return k < NN ? NODE(k) : (struct node*)0; }
/* ---- contract stub of the virtual delete_self (unit rlist) + the reclaim-side C01 obligation ---- */
_Bool g_double_delete; unsigned g_deletes; uint64_t g_first_delete_clock;
/* delete_self runs CLIENT code (the node's destructor / deleter).  Client code may use guard_ptrs of the same reclaimer (a node that retires its children does):
   if the thread has no control block at that moment, a new record is registered for it.  Inside ~thread_data that record would never be released (ghost flag) */
_Bool g_in_dtor, g_dtor_had_record, g_deleter_ran_without_record;
static _Bool thread_has_record(void);
static void n_delete_self(struct node* n) {
  if (g_in_dtor && g_dtor_had_record && !thread_has_record()) g_deleter_ran_without_record = 1;
#ifdef XV_HE
  XV_OBL("hescan.spares_protected_interval", !gath_in_interval(n->construction_era, n->retirement_era));
#else
  XV_OBL("hpscan.spares_protected", !gath_contains(n->addr));
#endif
  if (n->deleted != 0) g_double_delete = 1;
  n->deleted++; g_deletes++; if (!g_first_delete_clock) g_first_delete_clock = xv_clock + 1;
  n->next = nondet_node();     /* freed memory */
}
#define N_delete_self(n) n_delete_self(&(n))

/* ---- glue between lowered functions (by-reference arguments, overloads resolved per scheme) ---- */
#define TE_is_active_dflt(self) te_is_active((self), XV_IS_ACTIVE_DEFAULT_ORDER)
#define TE_is_active(e, o) te_is_active(&(e), (o))
#define XV_ITER_NE(a, b) it_ne(&(a), &(b))
#define XV_ITER_INC(a) it_inc(&(a))
#define XV_ITER_DEREF(a) (*it_deref(&(a)))
#define TBL_begin(t) tbl_begin(&(t))
#define TBL_end(t) tbl_end(&(t))
#define TBL_adopt_abandoned_retired_nodes(t) tbl_adopt_abandoned_retired_nodes(&(t))
#define TBL_abandon_retired_nodes(t, n) tbl_abandon_retired_nodes(&(t), (n))
#define TBL_release_entry(t, e) tbl_release_entry(&(t), (e))
#define HP_try_get_object(s, r) hp_try_get_object(&(s), &(r))
#define HP_TCB_begin(t) hp_tcb_begin(&(t))
#define HP_TCB_end(t) hp_tcb_end(&(t))
static size_t hp_dyn_number_of_hps(const struct tcb* self); static size_t he_dyn_number_of_hes(const struct tcb* self);   /* defined later in lowered.h */
struct vec; static void hp_dyn_tcb_gather(const struct tcb* self, struct vec* v); static void he_dyn_tcb_gather(const struct tcb* self, struct vec* v);
static void hp_tcb_abandon(struct tcb* self); static void he_tcb_abandon(struct tcb* self);
#ifdef XV_DYNAMIC
#define HP_TCB_number_of_hps(t) hp_dyn_number_of_hps(&(t))
#define HE_TCB_number_of_hes(t) he_dyn_number_of_hes(&(t))
#else
#define HP_TCB_number_of_hps(t) hp_tcb_number_of_hps(&(t))
#define HE_TCB_number_of_hes(t) he_tcb_number_of_hes(&(t))
#endif
/* stubs for the slot-list side of initialize / block allocation (units hp, he; C18) */
struct hpblock g_newblock; unsigned g_newblock_n, g_initblock_n; size_t g_newblock_size;
static struct hpblock* XV_NEW_BLOCK(size_t n) { g_newblock_n++; g_newblock_size = n; g_newblock.size = n; g_newblock.next = (struct hpblock*)0; return &g_newblock; }
#define XV_MAX(a, b) ((a) > (b) ? (a) : (b))
static struct slot* xv_init_block(struct tcb* t) { g_initblock_n++; return &t->pointers[0]; }
#define XV_INIT_BLOCK(t) xv_init_block(&(t))
#define XV_INIT_BLOCK_M(self, blk) (g_initblock_n++, (struct slot*)0)
#define HP_BLK_begin(b) hp_blk_begin(&(b))
#define HP_BLK_end(b) hp_blk_end(&(b))
#define HP_BLK_next_block(b) hp_blk_next_block(&(b))
#define HP_TCB_next_block(t) hp_tcb_next_block(&(t))
#define HP_DYN_GATHER_BLK(b, v) hp_dyn_gather_blk(&(b), (v))
#define HP_DYN_GATHER_TCB(b, v) hp_dyn_gather_tcb(&(b), (v))
#define HE_BLK_begin(b) he_blk_begin(&(b))
#define HE_BLK_end(b) he_blk_end(&(b))
#define HE_BLK_next_block(b) he_blk_next_block(&(b))
#define HE_TCB_next_block(t) he_tcb_next_block(&(t))
#define HE_DYN_GATHER_BLK(b, v) he_dyn_gather_blk(&(b), (v))
#define HE_DYN_GATHER_TCB(b, v) he_dyn_gather_tcb(&(b), (v))
#define HE_try_get_era(s, r) he_try_get_era(&(s), &(r))
#define HE_TCB_begin(t) he_tcb_begin(&(t))
#define HE_TCB_end(t) he_tcb_end(&(t))
#ifdef XV_ABS_VEC
/* contract stub of <tcb>::gather_protected_pointers / gather_protected_eras (proved for the real text by run *_gather): reads every slot
 * of this entry exactly once and adds exactly the non-link words (HE: the eras they encode) to the vector */
static void abs_gather(const struct tcb* e, struct vec* v) {
  for (unsigned k = 0; k < XV_E; k++) if (e == ENTRY(k)) for (unsigned i = 0; i < XV_K; i++) {
    uintptr_t w = A_LOAD(ENTRY(k)->pointers[i].value, mo_relaxed);
    if (MP_mark(w) == 0) { v->in[k][i] = 1;
#ifdef XV_HE
      v->val[k][i] = MP_get(w) >> 1;
#else
      v->val[k][i] = MP_get(w);
#endif
    }
  }
}
#define TCB_gather(e, v) abs_gather(&(e), &(v))
#elif defined(XV_HE) && defined(XV_DYNAMIC)
#define TCB_gather(e, v) he_dyn_tcb_gather(&(e), &(v))
#elif defined(XV_HE)
#define TCB_gather(e, v) he_tcb_gather(&(e), &(v))
#elif defined(XV_DYNAMIC)
#define TCB_gather(e, v) hp_dyn_tcb_gather(&(e), &(v))
#else
#define TCB_gather(e, v) hp_tcb_gather(&(e), &(v))
#endif
#ifdef XV_HE
#define TCB_abandon(e) he_tcb_abandon(&(e))
#else
#define TCB_abandon(e) hp_tcb_abandon(&(e))
#endif
#define AS_number_of_active_hazard_pointers() hp_number_of_active_hazard_pointers()
#define AS_number_of_active_hazard_eras() he_number_of_active_hazard_eras()

/* retire trigger: stubs of the guard-side callees (units hp / he) and of scan */
unsigned t_reset_n, t_setdel_n, t_scan_n, t_add_n; int t_setdel_d; uint64_t t_seq, t_reset_seq, t_setdel_seq, t_add_seq, t_scan_seq, t_era_seq; struct node* t_setdel_on; size_t t_count_at_scan;
static void gp_reset(struct guard* g) { t_reset_n++; t_reset_seq = ++t_seq; g->ptr = (struct node*)0; g->hp = (struct slot*)0; }
#define GP_get(p) (p)
static void n_set_deleter(struct node* n, int d) { t_setdel_n++; t_setdel_seq = ++t_seq; t_setdel_d = d; t_setdel_on = n; n->deleter = d; }
#define N_set_deleter(n, d) n_set_deleter(&(n), (d))
static void td_scan_stub(struct td* t) { t_scan_n++; t_scan_seq = ++t_seq; t_count_at_scan = t->number_of_retired_nodes; }
#define TD_scan(t) td_scan_stub(&(t))

/* reclaim_nodes as called from scan: the real text, or (XV_STUB_RECLAIM) its contract, which run *_reclaim proves for the real text:
 * requires a sorted vector; every node of the list is deleted iff the vector does not protect it (HP: contains its address,
 * HE: contains an era in [construction_era, retirement_era]), otherwise it is added to the retire list; nothing else changes */
static _Bool vec_protects(const struct vec* v, const struct node* n);
static void n_delete_self(struct node* n);
unsigned g_reclaim_unsorted;
static void reclaim_nodes_stub(struct td* t, struct node* list, const struct vec* v) {
  if (!VEC_IS_SORTED(v)) g_reclaim_unsorted++;
  for (unsigned s = 0; s < NN; s++) if (list) {
    struct node* cur = list; list = list->next;
    if (vec_protects(v, cur)) { cur->next = t->retire_list; t->retire_list = cur; t->number_of_retired_nodes++; } else n_delete_self(cur);
  }
}
#if defined(XV_STUB_RECLAIM) || defined(XV_ABS_VEC)
#define HP_RECLAIM_NODES(t, l, v) reclaim_nodes_stub((t), (l), (v))
#define HE_RECLAIM_NODES(t, l, v) reclaim_nodes_stub((t), (l), (v))
#else
#define HP_RECLAIM_NODES(t, l, v) hp_reclaim_nodes((t), (l), (v))
#define HE_RECLAIM_NODES(t, l, v) he_reclaim_nodes((t), (l), (v))
#endif
#define HP_TD_add_retired_node(t, p) hp_add_retired_node(&(t), (p))
#define HE_TD_add_retired_node(t, p) he_add_retired_node(&(t), (p))
#include "lowered.h"

#ifdef XV_ABS_VEC
static _Bool vec_protects(const struct vec* v, const struct node* n) {
  for (unsigned k = 0; k < XV_E; k++) for (unsigned i = 0; i < XV_K; i++) if (v->in[k][i]) {
#ifdef XV_HE
    if (n->construction_era <= v->val[k][i] && v->val[k][i] <= n->retirement_era) return 1;
#else
    if (v->val[k][i] == n->addr) return 1;
#endif
  }
  return 0;
}
#else
static _Bool vec_protects(const struct vec* v, const struct node* n) {
  for (unsigned i = 0; i < VCAP; i++) if (i < v->n) {
#ifdef XV_HE
    if (n->construction_era <= v->data[i] && v->data[i] <= n->retirement_era) return 1;
#else
    if (v->data[i] == n->addr) return 1;
#endif
  }
  return 0;
}
#endif
/* =============================== state =============================== */
/* inputs (in_*): list of in_ne entries epool(0..ne-1) (WLOG in pool order: entry addresses are never compared), their states and slot
 * words; the thread's retire list npool(0..nl-1) (in this order), the global abandoned list npool(L..L+na-1); node address words */
unsigned in_ne, in_nl, in_na, in_xl; int in_state[XV_E]; uintptr_t in_slot[XV_E][XV_K]; uintptr_t in_addr[NN]; uint64_t in_cera[NN], in_rera[NN]; unsigned in_cb;
unsigned in_nb, in_bsize[XV_NB]; uintptr_t in_bslot[XV_NB][XV_BS];   /* dynamic strategy: entry 0 has in_nb chained blocks of in_bsize[b] slots */
static struct node* own(unsigned i) { return NODE(i); }
static struct node* adopted(unsigned i) { return NODE(XV_L + i); }
#define OUTSIDE (NODE(XV_L + XV_LA))
static _Bool is_own(unsigned j) { return j < in_nl; }
static _Bool is_adopted(unsigned j) { return j >= XV_L && j < XV_L + in_na; }
static void reset_ghost(void) {
  g_last_slot_clock = g_acq_fence_clock = 0;
  g_fence_clock = g_first_slot_clock = g_adopt_clock = g_first_state_clock = g_head_clock = g_first_delete_clock = 0; g_head_order = -1; g_link_seen = 0;
  for (unsigned k = 0; k < XV_E; k++) { g_state_reads[k] = 0; g_seen_active[k] = 0; for (unsigned i = 0; i < XV_K; i++) { g_slot_reads[k][i] = 0; g_counted[k][i] = 0; g_val[k][i] = 0; } }
  for (unsigned b = 0; b < XV_NB; b++) for (unsigned i = 0; i < XV_BS; i++) { g_bslot_reads[b][i] = 0; g_bcounted[b][i] = 0; g_bval[b][i] = 0; }
  g_hpblock_loads = 0; g_hpblock_order = -1;
  g_state_store_n = g_ab_cas_ok_n = g_ab_store_n = g_ab_xchg_n = g_cnt_sub_n = g_era_add_n = 0; g_double_delete = 0; g_deletes = 0; g_search_unsorted = 0; g_reclaim_unsorted = 0; g_model_overflow = 0;
  t_reset_n = t_setdel_n = t_scan_n = t_add_n = 0; t_seq = 0; xv_clock = 0;
}
static void havoc_state(void) {
  in_xl = XV_L;   /* told to the native replay: adopted node i has index in_xl + i */
  in_ne = nondet_uint(); in_nl = nondet_uint(); in_na = nondet_uint(); XV_ASSUME(in_ne <= XV_E && in_nl <= XV_L && in_na <= XV_LA);
  for (unsigned k = 0; k < XV_E; k++) {
    in_state[k] = nondet_int(); XV_ASSUME(in_state[k] >= ES_free && in_state[k] <= ES_active);
    epool(k).state = in_state[k]; epool(k).next_entry = (k + 1 < in_ne) ? ENTRY(k + 1) : (struct tcb*)0;
    for (unsigned i = 0; i < XV_K; i++) { in_slot[k][i] = nondet_uptr(); epool(k).pointers[i].value = in_slot[k][i]; epool(k).pointers[i].guard_cnt = nondet_u64(); }
  }
  for (unsigned k = 0; k < XV_E; k++) { epool(k).hp_block = (struct hpblock*)0; epool(k).total_number_of_hps = XV_K; }
  in_nb = 0;
#ifdef XV_DYNAMIC
  in_nb = nondet_uint(); XV_ASSUME(in_nb <= XV_NB);
  for (unsigned b = 0; b < XV_NB; b++) {
    in_bsize[b] = nondet_uint(); XV_ASSUME(in_bsize[b] >= 1 && in_bsize[b] <= XV_BS);
    DBLK(b)->h.size = in_bsize[b]; DBLK(b)->h.next = (b + 1 < in_nb && b + 1 < XV_NB) ? &DBLK(b + 1)->h : (struct hpblock*)0;
    for (unsigned i = 0; i < XV_BS; i++) { in_bslot[b][i] = nondet_uptr(); DBLK(b)->s[i].value = in_bslot[b][i]; DBLK(b)->s[i].guard_cnt = nondet_u64(); }
  }
  if (in_nb) { epool(0).hp_block = &db0.h; }
#endif
  global_thread_block_list.head = in_ne ? ENTRY(0) : (struct tcb*)0;
  for (unsigned j = 0; j < NN; j++) {
    in_addr[j] = nondet_uptr(); XV_ASSUME(in_addr[j] != 0 && (in_addr[j] & MARK_BIT) == 0);
    for (unsigned i = 0; i < j; i++) XV_ASSUME(in_addr[i] != in_addr[j]);
    in_cera[j] = nondet_u64(); in_rera[j] = nondet_u64(); XV_ASSUME(in_cera[j] >= 1 && in_cera[j] <= in_rera[j] && in_rera[j] < ((uint64_t)1 << 62));
    npool(j).addr = in_addr[j]; npool(j).construction_era = in_cera[j]; npool(j).retirement_era = in_rera[j];
    npool(j).deleted = 0; npool(j).deleter = nondet_int();
    npool(j).next = nondet_node();
  }
  for (unsigned i = 0; i < XV_L; i++) if (i < in_nl) npool(i).next = (i + 1 < in_nl) ? NODE(i + 1) : (struct node*)0;
  for (unsigned i = 0; i < XV_LA; i++) if (i < in_na) npool(XV_L + i).next = (i + 1 < in_na) ? NODE(XV_L + i + 1) : (struct node*)0;
  global_thread_block_list.abandoned_retired_nodes = in_na ? adopted(0) : (struct node*)0;
  local_thread_data.retire_list = in_nl ? own(0) : (struct node*)0;
  local_thread_data.number_of_retired_nodes = in_nl;                 /* invariant: counter == length of the retire list */
  in_cb = nondet_uint(); local_thread_data.control_block = (struct tcb*)0; for (unsigned k = 0; k < XV_E; k++) if (k == in_cb && k < in_ne) local_thread_data.control_block = ENTRY(k);
  if (in_cb < in_ne) XV_ASSUME(in_state[in_cb] == ES_active);       /* the own control block is active */
  local_thread_data.hint = (struct slot*)0;
  number_of_active_hps = nondet_size(); era_clock = nondet_u64();
  reset_ghost();
}
/* specification: is node j protected in the initial (SEQ: stable) state? */
static _Bool hp_protected(unsigned j) {
  for (unsigned k = 0; k < XV_E; k++) for (unsigned i = 0; i < XV_K; i++)
    if (k < in_ne && in_state[k] == ES_active && MP_mark(in_slot[k][i]) == 0 && MP_get(in_slot[k][i]) == in_addr[j]) return 1;
  for (unsigned b = 0; b < XV_NB; b++) for (unsigned i = 0; i < XV_BS; i++)
    if (in_ne >= 1 && in_state[0] == ES_active && b < in_nb && i < in_bsize[b] && MP_mark(in_bslot[b][i]) == 0 && MP_get(in_bslot[b][i]) == in_addr[j]) return 1;
  return 0;
}
static _Bool he_protected(unsigned j) {
  for (unsigned k = 0; k < XV_E; k++) for (unsigned i = 0; i < XV_K; i++)
    if (k < in_ne && in_state[k] == ES_active && MP_mark(in_slot[k][i]) == 0) { uint64_t e = MP_get(in_slot[k][i]) >> 1; if (in_cera[j] <= e && e <= in_rera[j]) return 1; }
  for (unsigned b = 0; b < XV_NB; b++) for (unsigned i = 0; i < XV_BS; i++)
    if (in_ne >= 1 && in_state[0] == ES_active && b < in_nb && i < in_bsize[b] && MP_mark(in_bslot[b][i]) == 0) { uint64_t e = MP_get(in_bslot[b][i]) >> 1; if (in_cera[j] <= e && e <= in_rera[j]) return 1; }
  return 0;
}
static unsigned occ(struct node* p, struct node* x) { unsigned c = 0; for (unsigned s = 0; s < NN + 1; s++) if (p) { if (p == x) c++; p = p->next; } return c; }
static unsigned chain_len(struct node* p, _Bool* wf) { unsigned c = 0; for (unsigned s = 0; s < NN + 1; s++) if (p) { c++; p = p->next; } *wf = (p == 0); return c; }

/* the part of the scan contract shared by SEQ scan and dtor: checked for an arbitrary node j and an arbitrary slot (k,i) */
#ifdef XV_HE
#define PROTECTED(j) he_protected(j)
#define OBL_SPARES "hescan.spares_protected_interval"
#define OBL_CONSERVE "hescan.conserve"
#define OBL_DYN "hescan.gather.dynamic_all_blocks"
#define SCAN(t) he_scan(t)
#define DTOR(t) he_td_dtor(t)
#else
#define PROTECTED(j) hp_protected(j)
#define OBL_SPARES "hpscan.spares_protected"
#define OBL_CONSERVE "hpscan.conserve"
#define OBL_DYN "hpscan.gather.dynamic_all_blocks"
#define SCAN(t) hp_scan(t)
#define DTOR(t) hp_td_dtor(t)
#endif
static void check_order_obligations(void) {
  XV_OBL("hpscan.fence_first", g_fence_clock != 0 && (g_first_slot_clock == 0 || g_fence_clock < g_first_slot_clock));
  XV_OBL("hpscan.adopt_before_gather", g_ab_xchg_n <= 1 && (g_adopt_clock == 0 || g_first_slot_clock == 0 || g_adopt_clock < g_first_slot_clock));
  XV_OBL("hpscan.fence_first", g_first_delete_clock == 0 || g_first_slot_clock == 0 || g_first_slot_clock < g_first_delete_clock);
  /* sync: an acquire(-or-stronger) fence lies between the last slot that was read and the first object that is deleted: it pairs with the release store by which a guard
     gives its slot up, so the deletion happens after that thread's last access to the object */
  XV_OBL("hpscan.fence_first", g_first_delete_clock == 0 || g_last_slot_clock == 0 || (g_acq_fence_clock >= g_last_slot_clock && g_acq_fence_clock < g_first_delete_clock));
  XV_OBL("hpscan.search_sorted", g_search_unsorted == 0 && g_reclaim_unsorted == 0);
  XV_MODEL_ASSERT("vector capacity", !g_model_overflow);
}
static void check_gather_complete(void) {
  unsigned k = nondet_uint(), i = nondet_uint(); if (!(k < in_ne && i < XV_K)) return;
  /* every slot of an entry that was seen active was read (after that look) */
  XV_OBL("hpscan.gather.all_slots", g_state_reads[k] >= 1 && (!g_seen_active[k] || g_slot_reads[k][i] >= 1) && XV_IS_ACQUIRE(g_head_order));
}

struct vec in_vec;
/* =============================== scan =============================== */
void h_scan(void) {
  havoc_state();
  struct tcb* cb0 = local_thread_data.control_block;
  SCAN(&local_thread_data);
  check_order_obligations(); check_gather_complete();
  _Bool wf; unsigned len = chain_len(local_thread_data.retire_list, &wf);
  XV_OBL(OBL_CONSERVE, wf && local_thread_data.number_of_retired_nodes == len && !g_double_delete);
  XV_OBL(OBL_CONSERVE, global_thread_block_list.abandoned_retired_nodes == 0 && local_thread_data.control_block == cb0 && g_state_store_n == 0);
  /* every node of the pool (explicit loop: constant indices keep the formula simple) */
  for (unsigned j = 0; j < NN; j++) {
    unsigned o = occ(local_thread_data.retire_list, NODE(j)); _Bool prot = PROTECTED(j);
    if (is_own(j) || is_adopted(j)) {
      XV_OBL(OBL_CONSERVE, (npool(j).deleted == 1 && o == 0) || (npool(j).deleted == 0 && o == 1));
      if (prot) { XV_OBL(OBL_SPARES, npool(j).deleted == 0 && o == 1); if (is_own(j)) XV_CANARY("scan.own_spared"); else XV_CANARY("scan.adopted_spared");
#ifdef XV_DYNAMIC
        { unsigned nb0 = in_nb; in_nb = 0; _Bool without_blocks = PROTECTED(j); in_nb = nb0 ? 1 : 0; _Bool first_only = PROTECTED(j); in_nb = nb0;
          if (!without_blocks) XV_CANARY("scan.protected_by_dynamic_block");          /* protected ONLY by a slot of a dynamic block */
          if (!first_only) XV_CANARY("scan.protected_by_second_block"); }            /* ... ONLY by a slot of the second chained block */
#endif
      }
      else { XV_OBL("hpscan.skips_inactive", npool(j).deleted == 1 && o == 0); if (is_own(j)) XV_CANARY("scan.own_deleted"); else XV_CANARY("scan.adopted_deleted"); }
      /* C17: a word/era in a NON-active entry that would protect this node does not keep it alive */
      for (unsigned k = 0; k < XV_E; k++) for (unsigned i = 0; i < XV_K; i++)
        if (k < in_ne && in_state[k] != ES_active && MP_mark(in_slot[k][i]) == 0 && !prot
#ifdef XV_HE
            && in_cera[j] <= (MP_get(in_slot[k][i]) >> 1) && (MP_get(in_slot[k][i]) >> 1) <= in_rera[j]
#else
            && MP_get(in_slot[k][i]) == in_addr[j]
#endif
           ) XV_CANARY("scan.inactive_entry_ignored");
    } else {
      XV_OBL(OBL_CONSERVE, npool(j).deleted == 0 && o == 0);
      if (j == NN - 1) XV_CANARY("scan.outside");
    }
  }
  if (in_ne == XV_E && in_nl == XV_L && in_na == XV_LA && len == XV_L + XV_LA) XV_CANARY("scan.full_all_spared");
  if (in_ne == 0 && in_nl == XV_L) XV_CANARY("scan.no_entries");
}
#ifdef XV_INT
_Bool env_on;
void xv_env(void) {          /* other threads: any slot word, any entry state, at any time */
  if (!env_on) return;
  for (unsigned k = 0; k < XV_E; k++) {
    if (nondet_bool()) { epool(k).state = nondet_int(); XV_ASSUME(epool(k).state >= ES_free && epool(k).state <= ES_active); }
    for (unsigned i = 0; i < XV_K; i++) if (nondet_bool()) epool(k).pointers[i].value = nondet_uptr();
  }
}
#endif
void h_scan_int(void) {
#ifdef XV_INT
  havoc_state();
  env_on = 1;
  SCAN(&local_thread_data);
  env_on = 0;
  check_order_obligations(); check_gather_complete();
  _Bool wf; unsigned len = chain_len(local_thread_data.retire_list, &wf);
  XV_OBL(OBL_CONSERVE, wf && local_thread_data.number_of_retired_nodes == len && !g_double_delete);
  for (unsigned j = 0; j < NN; j++) {
    unsigned o = occ(local_thread_data.retire_list, NODE(j));
    if (is_own(j) || is_adopted(j)) {
      XV_OBL(OBL_CONSERVE, (npool(j).deleted == 1 && o == 0) || (npool(j).deleted == 0 && o == 1));
      /* what was read decides: deleted => not among the words read from entries seen active (checked at every delete_self);
       * kept => it is among them (nothing else keeps a node: C17) */
#ifdef XV_HE
      if (npool(j).deleted == 0) XV_OBL("hpscan.skips_inactive", gath_in_interval(in_cera[j], in_rera[j]));
#else
      if (npool(j).deleted == 0) XV_OBL("hpscan.skips_inactive", gath_contains(in_addr[j]));
#endif
      if (npool(j).deleted) XV_CANARY("scan_int.deleted"); else XV_CANARY("scan_int.spared");
    } else XV_OBL(OBL_CONSERVE, npool(j).deleted == 0 && o == 0);
  }
#endif
}

/* =============================== gather (one control block) =============================== */
#ifndef XV_ABS_VEC
#ifdef XV_HE
#define GATHER_REAL(e, v) he_tcb_gather((e), (v))
#define WORD_OF(w) (MP_get(w) >> 1)
#else
#define GATHER_REAL(e, v) hp_tcb_gather((e), (v))
#define WORD_OF(w) MP_get(w)
#endif
void h_gather(void) {
  /* any entry, any slot words, a vector with an arbitrary prefix of n0 elements and room for K more */
  havoc_state(); XV_ASSUME(in_ne >= 1);
  unsigned k = nondet_uint(); XV_ASSUME(k < in_ne);
  in_vec.n = nondet_uchar(); XV_ASSUME(in_vec.n + XV_K <= VCAP);
  for (unsigned i = 0; i <= VCAP; i++) in_vec.data[i] = nondet_uptr();
  struct vec v0 = in_vec; unsigned char n0 = in_vec.n;
  g_seen_active[k] = 1;                       /* so that the monitor records what is read */
  GATHER_REAL(ENTRY(k), &in_vec);
  unsigned cnt = 0; for (unsigned i = 0; i < XV_K; i++) if (MP_mark(in_slot[k][i]) == 0) cnt++;
  XV_OBL("hpscan.gather.exact", in_vec.n == n0 + cnt && !g_model_overflow);
  { unsigned p = nondet_uint(); XV_ASSUME(p < n0); XV_OBL("hpscan.gather.exact", in_vec.data[p] == v0.data[p]); }                 /* prefix untouched */
  { unsigned i = nondet_uint(); XV_ASSUME(i < XV_K);                                                                               /* every non-link word is appended, in slot order */
    unsigned before = 0; for (unsigned q = 0; q < XV_K; q++) if (q < i && MP_mark(in_slot[k][q]) == 0) before++;
    if (MP_mark(in_slot[k][i]) == 0) { XV_OBL("hpscan.gather.exact", in_vec.data[n0 + before] == WORD_OF(in_slot[k][i])); XV_CANARY("gather.value"); } else XV_CANARY("gather.link");
    XV_OBL("hpscan.gather.all_slots", g_slot_reads[k][i] == 1); }
  { unsigned o = nondet_uint(), i = nondet_uint(); XV_ASSUME(o < XV_E && o != k && i < XV_K); XV_OBL("hpscan.gather.exact", g_slot_reads[o][i] == 0 && g_state_store_n == 0); }
  if (cnt == XV_K && n0 > 0) XV_CANARY("gather.full");
}
#endif

/* =============================== dynamic strategy: gather over the in-object array and the chained blocks =============================== */
#if defined(XV_DYNAMIC) && !defined(XV_ABS_VEC)
#ifdef XV_HE
#define GATHER_DYN_REAL(e, v) he_dyn_tcb_gather((e), (v))
#else
#define GATHER_DYN_REAL(e, v) hp_dyn_tcb_gather((e), (v))
#endif
void h_gather_dyn(void) {
  havoc_state(); XV_ASSUME(in_ne >= 1);
  in_vec.n = nondet_uchar(); XV_ASSUME(in_vec.n <= XV_K * (XV_E - 1));        /* an arbitrary prefix, room for every slot */
  for (unsigned i = 0; i <= VCAP; i++) in_vec.data[i] = nondet_uptr();
  struct vec v0 = in_vec; unsigned char n0 = in_vec.n;
  g_seen_active[0] = 1;
  GATHER_DYN_REAL(ENTRY(0), &in_vec);
  /* the expected sequence: in-object slots, then the slots of block 0, then of block 1 (as far as the chain and the sizes go) */
  uintptr_t w[XV_K + XV_NB * XV_BS]; _Bool live[XV_K + XV_NB * XV_BS]; unsigned reads[XV_K + XV_NB * XV_BS];
  for (unsigned i = 0; i < XV_K; i++) { w[i] = in_slot[0][i]; live[i] = 1; reads[i] = g_slot_reads[0][i]; }
  for (unsigned b = 0; b < XV_NB; b++) for (unsigned i = 0; i < XV_BS; i++) { unsigned c = XV_K + b * XV_BS + i; w[c] = in_bslot[b][i]; live[c] = (b < in_nb && i < in_bsize[b]); reads[c] = g_bslot_reads[b][i]; }
  unsigned pos = 0;
  for (unsigned c = 0; c < XV_K + XV_NB * XV_BS; c++) {
    XV_OBL(OBL_DYN, reads[c] == (live[c] ? 1 : 0));                                   /* every slot of the array and of every chained block exactly once, nothing else */
    if (live[c] && MP_mark(w[c]) == 0) { XV_OBL(OBL_DYN, in_vec.data[n0 + pos] == WORD_OF(w[c])); pos++; }    /* non-link words appended in order */
  }
  XV_OBL(OBL_DYN, in_vec.n == n0 + pos && !g_model_overflow);
  for (unsigned p = 0; p < VCAP; p++) if (p < n0) XV_OBL(OBL_DYN, in_vec.data[p] == v0.data[p]);
  /* the walk follows hp_block (acquire) and next until null; nothing is written */
  XV_OBL(OBL_DYN, g_hpblock_loads == 1 && XV_IS_ACQUIRE(g_hpblock_order) && g_state_store_n == 0);
  for (unsigned b = 0; b < XV_NB; b++) { XV_OBL(OBL_DYN, DBLK(b)->h.size == in_bsize[b] && DBLK(b)->h.next == ((b + 1 < in_nb) ? &DBLK(b + 1)->h : (struct hpblock*)0));
    for (unsigned i = 0; i < XV_BS; i++) XV_OBL(OBL_DYN, DBLK(b)->s[i].value == in_bslot[b][i]); }
  for (unsigned i = 0; i < XV_K; i++) XV_OBL(OBL_DYN, epool(0).pointers[i].value == in_slot[0][i]);
  XV_OBL(OBL_DYN, epool(0).hp_block == (in_nb ? &db0.h : (struct hpblock*)0));
  for (unsigned k = 1; k < XV_E; k++) for (unsigned i = 0; i < XV_K; i++) XV_OBL(OBL_DYN, g_slot_reads[k][i] == 0);
  if (in_nb == 0) XV_CANARY("gather_dyn.no_block");
  if (in_nb == 2 && in_bsize[0] == XV_BS && in_bsize[1] == 1 && pos == XV_K + XV_BS + 1) XV_CANARY("gather_dyn.two_blocks_all_values");
  if (in_nb == 1 && in_bsize[0] == 1) XV_CANARY("gather_dyn.one_small_block");
}
#endif

/* =============================== reclaim_nodes =============================== */
#ifndef XV_ABS_VEC
#ifdef XV_HE
#define RECLAIM_REAL(t, l, v) he_reclaim_nodes((t), (l), (v))
#else
#define RECLAIM_REAL(t, l, v) hp_reclaim_nodes((t), (l), (v))
#endif
void h_reclaim(void) {
  /* retire list = own(0..nl-1) (kept by an earlier call), list to process = adopted(0..na-1), vector: any sorted content */
  havoc_state();
  in_vec.n = nondet_uchar(); XV_ASSUME(in_vec.n <= VCAP);
  for (unsigned i = 0; i <= VCAP; i++) in_vec.data[i] = nondet_uptr();
  XV_ASSUME(range_sorted(&in_vec.data[0], in_vec.n));
  struct vec v0 = in_vec;
  _Bool prot[NN]; struct node* nx0[NN]; for (unsigned j = 0; j < NN; j++) { prot[j] = vec_protects(&in_vec, NODE(j)); nx0[j] = npool(j).next; }
  RECLAIM_REAL(&local_thread_data, in_na ? adopted(0) : (struct node*)0, &in_vec);
  _Bool wf; unsigned len = chain_len(local_thread_data.retire_list, &wf);
  XV_OBL(OBL_CONSERVE, wf && local_thread_data.number_of_retired_nodes == len && !g_double_delete && g_search_unsorted == 0);
  for (unsigned j = 0; j < NN; j++) {
    unsigned o = occ(local_thread_data.retire_list, NODE(j));
    if (is_adopted(j)) {
      XV_OBL(OBL_SPARES, !prot[j] || (npool(j).deleted == 0 && o == 1));
      XV_OBL("hpscan.skips_inactive", prot[j] || (npool(j).deleted == 1 && o == 0));
      if (prot[j]) XV_CANARY("reclaim.spared"); else XV_CANARY("reclaim.deleted");
    } else if (is_own(j)) XV_OBL(OBL_CONSERVE, npool(j).deleted == 0 && o == 1 && npool(j).next == nx0[j]);
    else XV_OBL(OBL_CONSERVE, npool(j).deleted == 0 && o == 0 && npool(j).next == nx0[j]);
  }
  { unsigned i = nondet_uint(); XV_ASSUME(i <= VCAP); XV_OBL(OBL_CONSERVE, in_vec.n == v0.n && in_vec.data[i] == v0.data[i]); }   /* the vector is only read */
  if (in_vec.n == VCAP && in_na == XV_LA && in_nl == XV_L) XV_CANARY("reclaim.full");
  if (in_vec.n == 0 && in_na) XV_CANARY("reclaim.empty_vector");
}
#endif

/* =============================== ~thread_data =============================== */
static _Bool thread_has_record(void) { return local_thread_data.control_block != 0; }
void h_dtor(void) {
  havoc_state();
  size_t cnt0 = number_of_active_hps; _Bool had_cb = local_thread_data.control_block != 0; _Bool had_list = in_nl != 0;
  g_in_dtor = 1; g_dtor_had_record = had_cb; g_deleter_ran_without_record = 0;
  DTOR(&local_thread_data);
  g_in_dtor = 0;
  /* C17: the record is given back only after the last client deleter has run: a deleter that uses a guard_ptr (a node retiring its children) would otherwise
     register a fresh record for the exiting thread that nobody ever releases - one leaked record per thread generation */
  XV_OBL("hpscan.dtor.releases_record", !g_deleter_ran_without_record);
  XV_OBL("hpscan.search_sorted", g_search_unsorted == 0 && g_reclaim_unsorted == 0); XV_MODEL_ASSERT("vector capacity", !g_model_overflow);
  struct node* ab = global_thread_block_list.abandoned_retired_nodes;
  _Bool wf; unsigned len = chain_len(ab, &wf);
  XV_OBL("hpscan.dtor.hands_over_all", local_thread_data.retire_list == 0 && local_thread_data.control_block == 0 && wf && !g_double_delete);
  if (had_list) { /* the destructor may reclaim or hand over; whatever it deletes must come from a proper scan */
    XV_OBL("hpscan.fence_first", (g_deletes == 0 && g_first_slot_clock == 0) || (g_fence_clock != 0 && (g_first_slot_clock == 0 || g_fence_clock < g_first_slot_clock)));
    XV_OBL("hpscan.adopt_before_gather", g_ab_xchg_n <= 1 && (g_adopt_clock == 0 || g_first_slot_clock == 0 || g_adopt_clock < g_first_slot_clock)); }
  for (unsigned j = 0; j < NN; j++) {
    unsigned o = occ(ab, NODE(j));
    if (had_list) {
      if (is_own(j) || is_adopted(j)) {
        _Bool prot = PROTECTED(j);
        XV_OBL("hpscan.dtor.hands_over_all", (npool(j).deleted == 1 && o == 0) || (npool(j).deleted == 0 && o == 1));
        XV_OBL(OBL_SPARES, !prot || npool(j).deleted == 0);
        if (npool(j).deleted == 0) { XV_OBL("hpscan.dtor.hands_over_all", g_ab_cas_ok_n == 1 && XV_IS_RELEASE(g_ab_cas_o)); XV_CANARY("dtor.handed_over"); } else XV_CANARY("dtor.deleted");
      } else XV_OBL("hpscan.dtor.hands_over_all", npool(j).deleted == 0 && o == 0);
    } else {
      /* nothing retired: nothing scanned, the global abandoned list is left alone */
      XV_OBL("hpscan.dtor.hands_over_all", g_deletes == 0 && g_ab_xchg_n == 0 && g_ab_cas_ok_n == 0 && (is_adopted(j) ? o == 1 : o == 0) && len == in_na);
      if (j == 0) XV_CANARY("dtor.nothing_retired");
    }
  }
  /* C17: the record is released for reuse (release store making it free), the active-slot count is given back */
  if (had_cb) {
    XV_OBL("hpscan.dtor.releases_record", g_state_store_n == 1 && g_state_store_k == (int)in_cb && g_state_store_v == ES_free && XV_IS_RELEASE(g_state_store_o));
    XV_OBL("hpscan.dtor.releases_record", g_cnt_sub_n == 1 && number_of_active_hps == cnt0 - XV_K);
    for (unsigned k = 0; k < XV_E; k++) XV_OBL("hpscan.dtor.releases_record", epool(k).state == (k == in_cb ? ES_free : in_state[k]));
    XV_CANARY("dtor.released");
  } else { XV_OBL("hpscan.dtor.releases_record", g_state_store_n == 0 && g_cnt_sub_n == 0 && number_of_active_hps == cnt0); XV_CANARY("dtor.no_record"); }
}

/* =============================== active-slot counter =============================== */
unsigned g_cnt_add_n; uint64_t g_cnt_add_v;
void h_balance(void) {
  havoc_state(); XV_ASSUME(in_ne >= 1);
  unsigned k = nondet_uint(); XV_ASSUME(k < in_ne); struct tcb* r = ENTRY(k);
  size_t T = nondet_size(); XV_ASSUME(T >= XV_K && T < ((size_t)1 << 40));
#ifndef XV_DYNAMIC
  XV_ASSUME(T == XV_K);
#endif
  r->total_number_of_hps = T; r->hp_block = (struct hpblock*)0; r->state = ES_active;
  size_t c0 = number_of_active_hps; struct slot* hint = (struct slot*)0; struct hpblock* b0 = r->hp_block;
#ifdef XV_HE
  he_tcb_initialize(r, &hint);
#else
  hp_tcb_initialize(r, &hint);
#endif
  XV_OBL("hpscan.active_hps.balanced", number_of_active_hps == c0 + T && g_initblock_n == 1 && r->total_number_of_hps == T);
  size_t grown = 0;
#ifdef XV_DYNAMIC
  if (nondet_bool()) {
#ifdef XV_HE
    he_allocate_new_block(r);
#else
    hp_allocate_new_block(r);
#endif
    grown = (T / 2 > XV_K) ? T / 2 : XV_K;
    XV_OBL("hpscan.active_hps.balanced", r->total_number_of_hps == T + grown && number_of_active_hps == c0 + T + grown);
    XV_OBL("hpscan.active_hps.balanced", g_newblock_n == 1 && g_newblock_size == grown && r->hp_block == &g_newblock && g_newblock.next == b0);
    XV_CANARY("balance.grown");
  } else XV_CANARY("balance.plain");
#else
  XV_CANARY("balance.plain");
#endif
  TCB_abandon(*r);
  XV_OBL("hpscan.active_hps.balanced", number_of_active_hps == c0);
  XV_OBL("hpscan.active_hps.balanced", r->state == ES_free);
  XV_OBL("hpscan.active_hps.balanced", r->total_number_of_hps == T + grown);
}

/* =============================== retire trigger (guard_ptr::reclaim) =============================== */
void h_trigger(void) {
  havoc_state();
  XV_ASSUME(in_nl < XV_L);                      /* shape: room for one more node */
  struct guard g; g.ptr = OUTSIDE; g.hp = (struct slot*)0; int d = nondet_int();
  local_thread_data.number_of_retired_nodes = nondet_size(); XV_ASSUME(local_thread_data.number_of_retired_nodes < ((size_t)1 << 60));
  number_of_active_hps = nondet_size(); XV_ASSUME(number_of_active_hps < ((size_t)1 << 32));
  size_t c0 = local_thread_data.number_of_retired_nodes; struct node* l0 = local_thread_data.retire_list; uint64_t clock0 = era_clock;
  size_t threshold = XV_A * number_of_active_hps + XV_B;
#ifdef XV_HE
  he_guard_reclaim(&g, d);
  XV_OBL("hpscan.retire.once_then_trigger", OUTSIDE->retirement_era == clock0 && era_clock == clock0 + 1 && g_era_add_n == 1 && XV_IS_RELEASE(g_era_add_o) && (t_scan_n == 0 || t_era_seq < t_scan_seq));
#else
  hp_guard_reclaim(&g, d);
#endif
  XV_OBL("hpscan.retire.once_then_trigger", t_reset_n == 1 && t_setdel_n == 1 && t_setdel_on == OUTSIDE && t_setdel_d == d && OUTSIDE->deleter == d);
  XV_OBL("hpscan.retire.once_then_trigger", local_thread_data.retire_list == OUTSIDE && OUTSIDE->next == l0 && local_thread_data.number_of_retired_nodes == c0 + 1 && OUTSIDE->deleted == 0);
  XV_OBL("hpscan.retire.once_then_trigger", t_scan_n == (c0 + 1 >= threshold ? 1 : 0) && (t_scan_n == 0 || (t_count_at_scan == c0 + 1 && t_setdel_seq < t_scan_seq)));
  if (t_scan_n) XV_CANARY("trigger.scan"); else XV_CANARY("trigger.no_scan");
}
