// native replay for hpscan.* / hescan.*: builds the state cbmc found on the REAL hazard_pointer (default) or hazard_eras (-DREPLAY_HE)
// reclaimer internals (-fno-access-control): in_ne control blocks in the global thread_block_list with states in_state[k] and slot
// words in_slot[k][i]; a thread_data with a retire list of in_nl nodes; in_na nodes in the global abandoned list; then calls the real
// thread_data::scan() and checks: protected => kept exactly once, not protected => deleted exactly once.
// A slot word without the mark bit that equals in_addr[j] becomes a pointer to the real node j, any other word a pointer to an
// unrelated object, a word with the mark bit a link.  exit 0 = holds, 1 = violation reproduced, 2 = cannot represent.
#include <cstdio>
#include <cstdlib>
#include <cstring>
#include <cstdint>
#include <map>
#include <string>
#include <vector>
#ifdef REPLAY_HE
#include <xenium/reclamation/hazard_eras.hpp>
using R = xenium::reclamation::hazard_eras<>::with<xenium::policy::allocation_strategy<xenium::reclamation::he_allocation::static_strategy<3>>>;
using base_node = xenium::reclamation::detail::deletable_object_with_eras;
#else
#include <xenium/reclamation/hazard_pointer.hpp>
using R = xenium::reclamation::hazard_pointer<>::with<xenium::policy::allocation_strategy<xenium::reclamation::hp_allocation::static_strategy<3>>>;
using base_node = xenium::reclamation::detail::deletable_object;
#endif
static const unsigned K = 3;
static std::map<std::string, unsigned long long> args;
static std::string norm(const std::string& k) { std::string r; for (size_t i = 0; i < k.size(); ++i) { if (k[i] == 'l' && i > 0 && isdigit((unsigned char)k[i - 1]) && i + 1 < k.size() && k[i + 1] == ']') continue; r += k[i]; } return r; }
static unsigned long long get(const std::string& k, unsigned long long d) { auto it = args.find(k); return it == args.end() ? d : it->second; }
static std::map<const void*, int> deleted;
struct N : base_node { void delete_self() override { deleted[this]++; } };
static int bad = 0;
#define CHECK(c, ...) do { if (!(c)) { printf("VIOLATION: " __VA_ARGS__); printf("\n"); bad++; } } while (0)

int main(int argc, char** argv) {
  for (int i = 1; i < argc; ++i) { char* eq = strchr(argv[i], '='); if (!eq) continue; args[norm(std::string(argv[i], eq - argv[i]))] = strtoull(eq + 1, 0, 0); }
  unsigned ne = get("in_ne", 2), nl = get("in_nl", 2), na = get("in_na", 1);
  const unsigned L = 8, LA = 8;
  if (ne > 5 || nl > L || na > LA) { printf("cannot represent\n"); return 2; }
  const uint64_t MARK = uint64_t(1) << 63;
  // nodes: own 0..nl-1, adopted: harness index XV_L+i.  The harness shape (XV_L) is not passed: adopted node i has harness index nl_max+i
  // where nl_max is the smallest index whose address is given beyond the own nodes; we accept in_addr[j] for j < 16 and let the caller
  // pass in_xl (XV_L) if it differs from nl.
  unsigned XL = get("in_xl", 3);
  std::vector<N> nodes(XL + na + 1);
  auto haddr = [&](unsigned j) { return get("in_addr[" + std::to_string(j) + "]", 0x1000 + 16 * j); };
  static char unrelated[64];
  // control blocks
  auto& list = R::global_thread_block_list;
  std::vector<R::thread_control_block*> cbs(ne);
  for (unsigned k = ne; k-- > 0;) cbs[k] = list.acquire_entry();
  using mp = xenium::marked_ptr<void*, 1>;
  for (unsigned k = 0; k < ne; ++k) {
    unsigned st = get("in_state[" + std::to_string(k) + "]", 2);
    cbs[k]->state.store(static_cast<decltype(cbs[k]->state.load())>(st), std::memory_order_relaxed);
    for (unsigned i = 0; i < K; ++i) {
      uint64_t w = get("in_slot[" + std::to_string(k) + "][" + std::to_string(i) + "]", MARK);
#ifdef REPLAY_HE
      auto& cell = cbs[k]->eras[i].value;
      if (w & MARK) cell.store(mp(nullptr, 1)); else cell.store(mp(reinterpret_cast<void**>(w & ~MARK)));
#else
      auto& cell = cbs[k]->pointers[i].value;
      if (w & MARK) cell.store(mp(nullptr, 1));
      else { void* target = unrelated + (i + K * k) % 60; for (unsigned j = 0; j < nodes.size(); ++j) if ((w & ~MARK) == haddr(j)) target = static_cast<base_node*>(&nodes[j]); cell.store(mp(reinterpret_cast<void**>(target))); }
#endif
    }
  }
#ifdef REPLAY_HE
  for (unsigned j = 0; j < nodes.size(); ++j) { nodes[j].construction_era = get("in_cera[" + std::to_string(j) + "]", 5); nodes[j].retirement_era = get("in_rera[" + std::to_string(j) + "]", 7); }
#endif
  auto is_own = [&](unsigned j) { return j < nl; }; auto is_ad = [&](unsigned j) { return j >= XL && j < XL + na; };
  R::thread_data td;
  for (unsigned i = nl; i-- > 0;) { nodes[i].next = td.retire_list; td.retire_list = &nodes[i]; }
  td.number_of_retired_nodes = nl;
  base_node* ab = nullptr; for (unsigned i = na; i-- > 0;) { nodes[XL + i].next = ab; ab = &nodes[XL + i]; }
  list.abandoned_retired_nodes.store(ab);
  // natively recomputed "protected"
  std::vector<bool> prot(nodes.size(), false);
  for (unsigned j = 0; j < nodes.size(); ++j) for (unsigned k = 0; k < ne; ++k) for (unsigned i = 0; i < K; ++i) {
    if (unsigned(cbs[k]->state.load()) != 2) continue;
#ifdef REPLAY_HE
    auto v = cbs[k]->eras[i].value.load(); if (v.mark()) continue; uint64_t e = reinterpret_cast<uint64_t>(v.get()) >> 1;
    if (nodes[j].construction_era <= e && e <= nodes[j].retirement_era) prot[j] = true;
#else
    auto v = cbs[k]->pointers[i].value.load(); if (v.mark()) continue;
    if (reinterpret_cast<void*>(v.get()) == static_cast<base_node*>(&nodes[j])) prot[j] = true;
#endif
  }
  td.scan();
  std::map<const void*, int> occ; unsigned len = 0;
  for (auto* p = td.retire_list; p && len <= nodes.size(); p = p->next) { occ[p]++; len++; }
  CHECK(len == td.number_of_retired_nodes, "retire list has %u nodes, counter says %zu", len, td.number_of_retired_nodes);
  for (unsigned j = 0; j < nodes.size(); ++j) {
    int d = deleted[static_cast<base_node*>(&nodes[j])], o = occ[static_cast<base_node*>(&nodes[j])];
    if (is_own(j) || is_ad(j)) {
      if (prot[j]) CHECK(d == 0 && o == 1, "node %u is protected but deleted %d times / %d times in the retire list", j, d, o);
      else CHECK(d == 1 && o == 0, "node %u is not protected by an active entry but deleted %d times / %d times in the retire list", j, d, o);
    } else CHECK(d == 0 && o == 0, "node %u outside both lists touched", j);
  }
  CHECK(list.abandoned_retired_nodes.load() == nullptr, "abandoned list not taken over");
  td.retire_list = nullptr; td.control_block = nullptr;     // nothing for the destructor to do
  printf("%s (ne=%u nl=%u na=%u)\n", bad ? "violations found" : "all checks hold", ne, nl, na);
  return bad ? 1 : 0;
}
