import re
from xvlib import lower as L
HPI = 'xenium/reclamation/impl/hazard_pointer.hpp'
HPH = 'xenium/reclamation/hazard_pointer.hpp'
HEI = 'xenium/reclamation/impl/hazard_eras.hpp'
HEH = 'xenium/reclamation/hazard_eras.hpp'
TBL = 'xenium/reclamation/detail/thread_block_list.hpp'
PORT = 'xenium/detail/port.hpp'

def for_each_rule(text, lw):
    """unit-local rule: `std::for_each(FIRST, LAST, [captures](const auto& X) { BODY });`  ->  the loop that is the standard's
    definition of for_each: { auto xv_first = FIRST; auto xv_last = LAST; for (; xv_first != xv_last; ++xv_first) { const auto& X = *xv_first; BODY } }
    with the iterator operators !=, ++, * written as XV_ITER_NE / XV_ITER_INC / XV_ITER_DEREF (these call the lowered REAL
    iterator operators of thread_block_list)."""
    while True:
        m = re.search(r'std::for_each\s*\(', text)
        if not m: return text
        i = m.end() - 1; j = L.match_brace(text, i, '(', ')')
        inner = text[i + 1:j]
        # split the three arguments at top-level commas
        args = []; d = 0; cur = ''
        for ch in inner:
            if ch in '([{': d += 1
            if ch in ')]}': d -= 1
            if ch == ',' and d == 0 and len(args) < 2: args.append(cur.strip()); cur = ''
            else: cur += ch
        args.append(cur.strip())
        if len(args) != 3: raise L.ExtractError('for_each: expected 3 arguments')
        lm = re.match(r'\[[^\]]*\]\s*\(\s*const auto&\s*(\w+)\s*\)\s*\{(.*)\}\s*$', args[2], re.S)
        if not lm: raise L.ExtractError('for_each: third argument is not a one-parameter lambda taking const auto&')
        k = j + 1
        while text[k].isspace(): k += 1
        if text[k] != ';': raise L.ExtractError('for_each: not a statement')
        new = ('{ auto xv_first = %s; auto xv_last = %s;\n for (; XV_ITER_NE(xv_first, xv_last); XV_ITER_INC(xv_first)) {\n const auto& %s = XV_ITER_DEREF(xv_first);\n%s\n } }'
               % (args[0], args[1], lm.group(1), lm.group(2)))
        text = text[:m.start()] + new + text[k + 1:]
        lw.fire('for_each')

CONSTEXPR = (r'\bconstexpr auto\b', 'const auto', 'constexpr_auto')
VECDECL = (r'std::vector<[^;]*>\s+(\w+);', r'struct vec \1; VEC_init(\1);', 'vector_decl')
NS = (r'\bdetail::', '', 'ns')
ITER = dict(methods_common={'begin': {'global_thread_block_list': 'TBL_begin', '*': 'VEC_begin'}, 'end': {'global_thread_block_list': 'TBL_end', '*': 'VEC_end'}})
TBLM = ['head', 'abandoned_retired_nodes']
ES = [(r'entry_state::', 'ES_', 'entry_state')]

def td_common(**kw):
    d = dict(members=['retire_list', 'number_of_retired_nodes', 'control_block', 'hint'])
    d.update(kw); return d

def scan_spec(id, file, vecname, gather, c_name, reclaim_c, extra_subst=(), extra_methods=None, must=None):
    methods = {'begin': {'global_thread_block_list': 'TBL_begin', '*': 'VEC_begin'}, 'end': {'global_thread_block_list': 'TBL_end', '*': 'VEC_end'},
               'reserve': 'VEC_reserve', 'adopt_abandoned_retired_nodes': 'TBL_adopt_abandoned_retired_nodes', 'is_active': 'TE_is_active', gather: 'TCB_gather',
               'erase': 'VEC_erase'}
    if extra_methods: methods.update(extra_methods)
    return td_common(id=id, file=file, sig=r'void scan\(\)', c_sig='static void %s(struct td* self)' % c_name, py_pre=for_each_rule,
                     pre_subst=[CONSTEXPR, VECDECL], subst=[(r'allocation_strategy::', 'AS_', 'alloc_strategy')] + list(extra_subst), methods=methods,
                     calls={'std::sort': 'STD_sort', 'std::unique': 'STD_unique'}, self_calls={'reclaim_nodes': reclaim_c},
                     post_subst=[(r'(%s\(self, [^;]*), %s\);' % (reclaim_c, vecname), r'\1, &%s);' % vecname, 'vec_by_ref')],
                     must_fire=must)

def unw(e, k, l, la, p):
    return ['%s_scan.1:%d' % (p, e + 2), '%s_gather_range.0:%d' % (p, k + 2), '%s_reclaim_nodes.0:%d' % (p, l + la + 2), 'tbl_abandon_retired_nodes.0:%d' % (l + la + 2),
            'tbl_abandon_retired_nodes.1:2']
HPU = unw(2, 2, 2, 1, 'hp')
UNIT = dict(
  title='hazard_pointer / hazard_eras reclaim side: add_retired_node, scan, gather, reclaim_nodes, ~thread_data, retire trigger (C01 reclaim side, C02, C17)',
  properties=['C01', 'C02', 'C17'],
  drops='templates; a control block is struct tcb = entry part + K slot words (+ total_number_of_hps / hp_block for the dynamic strategy; a dynamic block is a header struct '
        'immediately followed by its slots, the template gather over T is lowered once for T = control block and once for T = block); marked_ptr<void*,1> slot words are uintptr_t with the mark()/get() contract '
        'of unit mp; node addresses are ghost words (distinct, non-null, mark bit clear), so ordering/equality of pointers is that of arbitrary words; nodes '
        'and entries are separate objects, WLOG linked in pool order (addresses of nodes/entries are never compared by the code except through the ghost words); '
        'std::for_each is rewritten to the loop that defines it (unit-local rule for_each_rule; the loop uses the real lowered iterator operators). '
        'MODULAR STRUCTURE: (1) runs *_gather and *_reclaim verify the real text of gather_protected_* / try_get_* and of reclaim_nodes against a CONCRETE '
        'std::vector model (bounded array, begin/end are element pointers; std::binary_search / std::lower_bound stubs implement their standard contracts and '
        'return an arbitrary result on an unsorted range); (2) runs *_scan / *_scan_int / *_dtor verify the real text of scan / ~thread_data / the for_each '
        'loop / is_active / iterator / adopt / abandon / release_entry with gather and reclaim_nodes replaced by the contracts proved in (1) and an ABSTRACT '
        'vector: the abstraction function maps a vector to the SET of its elements (represented per contributing slot cell), iterators are tags, std::sort '
        'keeps the set and makes it sorted, std::unique+erase keep the set (a unique without erase leaves the vector unusable); (3) runs *_whole run '
        'everything real in one piece on a small shape as a cross-check of the composition. delete_self is the contract stub of unit rlist.',
  assumptions=['std::sort yields the sorted permutation; std::binary_search(b,e,k) <=> k in [b,e) for a sorted range; std::lower_bound = first element >= key of a sorted range; '
               'std::unique removes consecutive duplicates and returns the new end; vector::erase(last,end) truncates; vector::reserve/push_back do not throw',
               'marked_ptr<void*,1>: mark() = top bit, get() = word without the top bit (unit mp)',
               'delete_self contract (unit rlist: deletes exactly this node with its own deleter)',
               'dynamic strategy: the layout "slots start at this + 1" of a dynamic block is the one established by allocate_new_hazard_pointer_block / _eras_block (header immediately followed by the slots)'],
  consts=[dict(name='XV_IS_ACTIVE_DEFAULT_ORDER', file=TBL, regex=r'bool is_active\(std::memory_order memory_order = (std::memory_order_\w+)\) const', subst=[(r'std::memory_order_', 'mo_')]),
          dict(name='XV_ITER_DEFAULT_PTR', file=TBL, regex=r'class iterator \{\s*T\* ptr = (\w+);', subst=[(r'nullptr', '0')])],
  sources=[
    # ---- thread_block_list pieces used by the scans (their own contracts: unit tbl) ----
    dict(id='is_active', file=TBL, sig=r'bool is_active\(std::memory_order memory_order = std::memory_order_relaxed\) const',
         c_sig='static _Bool te_is_active(const struct tcb* self, int memory_order)', subst=ES, members=['state'], must_fire={'A_LOAD': 1}),
    dict(id='entry_abandon', file=TBL, sig=r'void abandon\(\)', which=0, c_sig='static void te_abandon(struct tcb* self)',
         subst=ES, members=['state'], self_calls={'is_active': 'TE_is_active_dflt'}, must_fire={'A_STORE': 1}),
    dict(id='iter_inc', file=TBL, sig=r'iterator& operator\+\+\(\)', c_sig='static struct tbl_iter* it_inc(struct tbl_iter* self)',
         members=['ptr'], post_subst=[(r'return \(\*self\);', 'return self;', 'return_this')], must_fire={'subst:return_this': 1}),
    dict(id='iter_ne', file=TBL, sig=r'bool operator!=\(const iterator& rhs\) const', c_sig='static _Bool it_ne(const struct tbl_iter* self, const struct tbl_iter* rhs)',
         members=['ptr'], subst=[(r'\brhs\.', 'rhs->', 'rhs_ref')], must_fire={'subst:rhs_ref': 1}),
    dict(id='iter_deref', file=TBL, sig=r'T& operator\*\(\) const', c_sig='static struct tcb* it_deref(const struct tbl_iter* self)',
         members=['ptr'], post_subst=[(r'return \*self->ptr;', 'return self->ptr;', 'return_ref')], must_fire={'subst:return_ref': 1}),
    dict(id='begin', file=TBL, sig=r'iterator begin\(\)', c_sig='static struct tbl_iter tbl_begin(struct tbl* self)', members=['head'], dflt='xv_no_iter',
         post_subst=[(r'iterator\{(.*)\};', r'XV_MAKE_ITER(\1);', 'make_iter')], must_fire={'A_LOAD': 1, 'subst:make_iter': 1}),
    dict(id='end', file=TBL, sig=r'iterator end\(\)', c_sig='static struct tbl_iter tbl_end(struct tbl* self)', dflt='xv_no_iter',
         post_subst=[(r'iterator\{\};', r'XV_MAKE_ITER(XV_ITER_DEFAULT_PTR);', 'make_iter')], must_fire={'subst:make_iter': 1}),
    dict(id='release_entry', file=TBL, sig=r'void release_entry\(T\* entry\)', c_sig='static void tbl_release_entry(struct tbl* self, struct tcb* entry)',
         methods={'abandon': 'TCB_abandon'}, must_fire={'method:abandon': 1}),
    dict(id='abandon_retired_nodes', file=TBL, sig=r'void abandon_retired_nodes\(DeletableObject\* obj\)',
         c_sig='static void tbl_abandon_retired_nodes(struct tbl* self, struct node* obj)', members=['abandoned_retired_nodes'],
         must_fire={'A_LOAD': 1, 'A_CASW': 1}),
    dict(id='adopt_abandoned_retired_nodes', file=TBL, sig=r'DeletableObject\* adopt_abandoned_retired_nodes\(\)',
         c_sig='static struct node* tbl_adopt_abandoned_retired_nodes(struct tbl* self)', members=['abandoned_retired_nodes'], must_fire={'A_LOAD': 1, 'A_XCHG': 1}),
    # ---- hazard_pointer ----
    dict(id='hp_active_hps', file=HPH, sig=r'static size_t number_of_active_hazard_pointers\(\)', c_sig='static size_t hp_number_of_active_hazard_pointers(void)', must_fire={'A_LOAD': 1}),
    dict(id='hp_threshold', file=HPH, sig=r'static size_t retired_nodes_threshold\(\)', c_sig='static size_t hp_retired_nodes_threshold(void)',
         subst=[(r'\bA\b', 'XV_A', 'A'), (r'\bB\b', 'XV_B', 'B')], calls={'number_of_active_hazard_pointers': 'hp_number_of_active_hazard_pointers'}, must_fire={'subst:A': 1, 'subst:B': 1}),
    dict(id='hp_try_get_object', file=HPI, sig=r'bool try_get_object\(detail::deletable_object\*& result\) const',
         c_sig='static _Bool hp_try_get_object(const struct slot* self, uintptr_t* result_p)', pre_subst=[CONSTEXPR],
         subst=[(r'\bresult\b', '(*result_p)', 'result_ref')], types={'detail::deletable_object*': 'uintptr_t'}, methods={'mark': 'MP_mark', 'get': 'MP_get'}, members=['value'],
         must_fire={'A_LOAD': 1, 'method:mark': 1, 'method:get': 1, 'subst:result_ref': 1}),
    dict(id='hp_gather_range', file=HPI, sig=r'static void gather_protected_pointers\(std::vector<const detail::deletable_object\*>& protected_ptrs,\s*const hazard_pointer\* begin,\s*const hazard_pointer\* end\)',
         c_sig='static void hp_gather_range(struct vec* protected_ptrs_p, const struct slot* begin, const struct slot* end)',
         subst=[(r'detail::deletable_object\*', 'uintptr_t', 'obj_word'), (r'\bprotected_ptrs\b', '(*protected_ptrs_p)', 'vec_ref')],
         methods={'try_get_object': 'HP_try_get_object', 'push_back': 'VEC_push_back'}, must_fire={'method:try_get_object': 1, 'method:push_back': 1}),
    dict(id='hp_tcb_begin', file=HPI, sig=r'const hazard_pointer\* begin\(\) const', which=0, c_sig='static const struct slot* hp_tcb_begin(const struct tcb* self)', members=['pointers'], must_fire={'member:pointers': 1}),
    dict(id='hp_tcb_end', file=HPI, sig=r'const hazard_pointer\* end\(\) const', which=0, c_sig='static const struct slot* hp_tcb_end(const struct tcb* self)', members=['pointers'],
         subst=[(r'Strategy::K', 'XV_K', 'K')], must_fire={'member:pointers': 1, 'subst:K': 1}),
    dict(id='hp_tcb_gather', file=HPI, sig=r'void gather_protected_pointers\(std::vector<const detail::deletable_object\*>& protected_ptrs\) const', which=0,
         c_sig='static void hp_tcb_gather(const struct tcb* self, struct vec* protected_ptrs_p)', subst=[(r'\bbase::', '', 'base')],
         methods={'begin': 'HP_TCB_begin', 'end': 'HP_TCB_end'}, calls={'gather_protected_pointers': 'hp_gather_range'},
         post_subst=[(r'hp_gather_range\(protected_ptrs,', 'hp_gather_range(protected_ptrs_p,', 'vec_ref')], must_fire={'call:gather_protected_pointers': 1, 'subst:vec_ref': 1}),
    dict(id='hp_number_of_hps', file=HPI, sig=r'constexpr size_t number_of_hps\(\) const', c_sig='static size_t hp_tcb_number_of_hps(const struct tcb* self)',
         subst=[(r'Strategy::K', 'XV_K', 'K')], must_fire={'subst:K': 1}),
    dict(id='hp_tcb_abandon', file=HPI, sig=r'void abandon\(\)', which=0, c_sig='static void hp_tcb_abandon(struct tcb* self)',
         subst=[(r'Strategy::number_of_active_hps', 'number_of_active_hps', 'counter'), (r'Strategy::K\b', 'XV_K', 'K'), (r'\bself\(\)\.', 'self->', 'self_fn'),
                (r'detail::thread_block_list<Derived>::entry::abandon\(\)', 'te_abandon(self)', 'base_abandon')],
         methods={'number_of_hps': 'HP_TCB_number_of_hps'}, must_fire={'A_FSUB': 1, 'subst:base_abandon': 1, 'method:number_of_hps': 1}),
    td_common(id='hp_add_retired_node', file=HPI, sig=r'std::size_t add_retired_node\(detail::deletable_object\* p\)', c_sig='static size_t hp_add_retired_node(struct td* self, struct node* p)',
              must_fire={'member:retire_list': 2, 'member:number_of_retired_nodes': 1}),
    td_common(id='hp_reclaim_nodes', file=HPI, sig=r'void reclaim_nodes\(detail::deletable_object\* list,\s*const std::vector<const detail::deletable_object\*>& protected_pointers\)',
              c_sig='static void hp_reclaim_nodes(struct td* self, struct node* list, const struct vec* protected_pointers_p)',
              subst=[(r'\bprotected_pointers\b', '(*protected_pointers_p)', 'vec_ref')], methods={'begin': 'VEC_begin', 'end': 'VEC_end', 'delete_self': 'N_delete_self'},
              calls={'std::binary_search': 'STD_binary_search'}, self_calls={'add_retired_node': 'hp_add_retired_node'},
              must_fire={'call:std::binary_search': 1, 'method:delete_self': 1, 'self_call:add_retired_node': 1}),
    scan_spec('hp_scan', HPI, 'protected_pointers', 'gather_protected_pointers', 'hp_scan', 'HP_RECLAIM_NODES',
              must={'for_each': 1, 'call:std::sort': 1, 'self_call:reclaim_nodes': 2, 'subst:vec_by_ref': 2, 'method:adopt_abandoned_retired_nodes': 1,
                    'method:is_active': 1, 'method:gather_protected_pointers': 1, 'subst:vector_decl': 1, 'reference': 1}),
    td_common(id='hp_dtor', file=HPI, sig=r'~thread_data\(\)', c_sig='static void hp_td_dtor(struct td* self)',
              methods={'abandon_retired_nodes': 'TBL_abandon_retired_nodes', 'release_entry': 'TBL_release_entry'}, self_calls={'scan': 'hp_scan'},
              must_fire={'self_call:scan': 1, 'method:abandon_retired_nodes': 1, 'method:release_entry': 1}),
    dict(id='hp_reclaim', file=HPI, sig=r'void hazard_pointer<Traits>::guard_ptr<T, MarkedPtr>::reclaim\(Deleter d\) noexcept',
         c_sig='static void hp_guard_reclaim(struct guard* self, int d)', subst=[(r'allocation_strategy::', 'hp_', 'alloc_strategy')],
         methods={'get': 'GP_get', 'set_deleter': 'N_set_deleter', 'add_retired_node': 'HP_TD_add_retired_node', 'scan': 'TD_scan'}, self_calls={'reset': 'gp_reset'},
         must_fire={'method:add_retired_node': 1, 'method:scan': 1, 'method:set_deleter': 1, 'self_call:reset': 1}),
    # ---- hazard_eras ----
    dict(id='he_active_hes', file=HEH, sig=r'static size_t number_of_active_hazard_eras\(\)', c_sig='static size_t he_number_of_active_hazard_eras(void)', must_fire={'A_LOAD': 1}),
    dict(id='he_threshold', file=HEH, sig=r'static size_t retired_nodes_threshold\(\)', c_sig='static size_t he_retired_nodes_threshold(void)',
         subst=[(r'\bA\b', 'XV_A', 'A'), (r'\bB\b', 'XV_B', 'B')], calls={'number_of_active_hazard_eras': 'he_number_of_active_hazard_eras'}, must_fire={'subst:A': 1, 'subst:B': 1}),
    dict(id='he_try_get_era', file=HEI, sig=r'bool try_get_era\(era_t& result\) const',
         c_sig='static _Bool he_try_get_era(const struct slot* self, uint64_t* result_p)', pre_subst=[CONSTEXPR],
         subst=[(r'\bresult\b', '(*result_p)', 'result_ref')], types={'era_t': 'uint64_t'}, methods={'mark': 'MP_mark', 'get': 'MP_get'}, members=['value'],
         must_fire={'A_LOAD': 1, 'method:mark': 1, 'method:get': 1, 'subst:result_ref': 1}),
    dict(id='he_gather_range', file=HEI, sig=r'static void\s+gather_protected_eras\(std::vector<era_t>& protected_eras, const hazard_era\* begin, const hazard_era\* end\)',
         c_sig='static void he_gather_range(struct vec* protected_eras_p, const struct slot* begin, const struct slot* end)',
         subst=[(r'\bera_t\b', 'uint64_t', 'era_t'), (r'\bprotected_eras\b', '(*protected_eras_p)', 'vec_ref')],
         methods={'try_get_era': 'HE_try_get_era', 'push_back': 'VEC_push_back'}, must_fire={'method:try_get_era': 1, 'method:push_back': 1}),
    dict(id='he_tcb_begin', file=HEI, sig=r'const hazard_era\* begin\(\) const', which=0, c_sig='static const struct slot* he_tcb_begin(const struct tcb* self)', members=['eras'],
         post_subst=[(r'self->eras', 'self->pointers', 'eras_member')], must_fire={'member:eras': 1}),
    dict(id='he_tcb_end', file=HEI, sig=r'const hazard_era\* end\(\) const', which=0, c_sig='static const struct slot* he_tcb_end(const struct tcb* self)', members=['eras'],
         subst=[(r'Strategy::K', 'XV_K', 'K')], post_subst=[(r'self->eras', 'self->pointers', 'eras_member')], must_fire={'member:eras': 1, 'subst:K': 1}),
    dict(id='he_tcb_gather', file=HEI, sig=r'void gather_protected_eras\(std::vector<era_t>& protected_eras\) const', which=0,
         c_sig='static void he_tcb_gather(const struct tcb* self, struct vec* protected_eras_p)', subst=[(r'\bbase::', '', 'base')],
         methods={'begin': 'HE_TCB_begin', 'end': 'HE_TCB_end'}, calls={'gather_protected_eras': 'he_gather_range'},
         post_subst=[(r'he_gather_range\(protected_eras,', 'he_gather_range(protected_eras_p,', 'vec_ref')], must_fire={'call:gather_protected_eras': 1, 'subst:vec_ref': 1}),
    dict(id='he_number_of_hes', file=HEI, sig=r'constexpr size_t number_of_hes\(\) const', c_sig='static size_t he_tcb_number_of_hes(const struct tcb* self)',
         subst=[(r'Strategy::K', 'XV_K', 'K')], must_fire={'subst:K': 1}),
    dict(id='he_tcb_abandon', file=HEI, sig=r'void abandon\(\)', which=0, c_sig='static void he_tcb_abandon(struct tcb* self)',
         subst=[(r'Strategy::number_of_active_hes', 'number_of_active_hes', 'counter'), (r'Strategy::K\b', 'XV_K', 'K'), (r'\bself\(\)\.', 'self->', 'self_fn'),
                (r'detail::thread_block_list<Derived, detail::deletable_object_with_eras>::entry::abandon\(\)', 'te_abandon(self)', 'base_abandon')],
         methods={'number_of_hes': 'HE_TCB_number_of_hes'}, must_fire={'A_FSUB': 1, 'subst:base_abandon': 1, 'method:number_of_hes': 1}),
    td_common(id='he_add_retired_node', file=HEI, sig=r'std::size_t add_retired_node\(detail::deletable_object_with_eras\* p\)', c_sig='static size_t he_add_retired_node(struct td* self, struct node* p)',
              must_fire={'member:retire_list': 2, 'member:number_of_retired_nodes': 1}),
    td_common(id='he_reclaim_nodes', file=HEI, sig=r'void reclaim_nodes\(detail::deletable_object_with_eras\* list, const std::vector<era_t>& protected_eras\)',
              c_sig='static void he_reclaim_nodes(struct td* self, struct node* list, const struct vec* protected_eras_p)',
              subst=[(r'\bprotected_eras\b', '(*protected_eras_p)', 'vec_ref')], methods={'begin': 'VEC_begin', 'end': 'VEC_end', 'delete_self': 'N_delete_self'},
              calls={'std::lower_bound': 'STD_lower_bound'}, self_calls={'add_retired_node': 'he_add_retired_node'},
              must_fire={'call:std::lower_bound': 1, 'method:delete_self': 1, 'self_call:add_retired_node': 1}),
    scan_spec('he_scan', HEI, 'protected_eras', 'gather_protected_eras', 'he_scan', 'HE_RECLAIM_NODES',
              must={'for_each': 1, 'call:std::sort': 1, 'call:std::unique': 1, 'method:erase': 1, 'self_call:reclaim_nodes': 2, 'subst:vec_by_ref': 2, 'method:adopt_abandoned_retired_nodes': 1,
                    'method:is_active': 1, 'method:gather_protected_eras': 1, 'subst:vector_decl': 1, 'reference': 1}),
    td_common(id='he_dtor', file=HEI, sig=r'~thread_data\(\)', c_sig='static void he_td_dtor(struct td* self)',
              methods={'abandon_retired_nodes': 'TBL_abandon_retired_nodes', 'release_entry': 'TBL_release_entry'}, self_calls={'scan': 'he_scan'},
              must_fire={'self_call:scan': 1, 'method:abandon_retired_nodes': 1, 'method:release_entry': 1}),
    dict(id='he_reclaim', file=HEI, sig=r'void hazard_eras<Traits>::guard_ptr<T, MarkedPtr>::reclaim\(Deleter d\) noexcept',
         c_sig='static void he_guard_reclaim(struct guard* self, int d)', subst=[(r'allocation_strategy::', 'he_', 'alloc_strategy'), (r'local_thread_data\(\)', 'local_thread_data', 'tls_fn')],
         methods={'get': 'GP_get', 'set_deleter': 'N_set_deleter', 'add_retired_node': 'HE_TD_add_retired_node', 'scan': 'TD_scan'}, self_calls={'reset': 'gp_reset'},
         must_fire={'method:add_retired_node': 1, 'method:scan': 1, 'method:set_deleter': 1, 'self_call:reset': 1, 'A_FADD': 1, 'subst:tls_fn': 2}),
    # ---- active-slot counter: initialize / abandon / growth of a record (static and dynamic strategy) ----
    dict(id='hp_dyn_number_of_hps', file=HPI, sig=r'\] size_t number_of_hps\(\) const', c_sig='static size_t hp_dyn_number_of_hps(const struct tcb* self)',
         members=['total_number_of_hps'], must_fire={'member:total_number_of_hps': 1}),
    dict(id='hp_initialize', file=HPI, sig=r'void initialize\(hint& hint\)', which=0, c_sig='static void hp_tcb_initialize(struct tcb* self, struct slot** hint_p)',
         subst=[(r'Strategy::number_of_active_hps', 'number_of_active_hps', 'counter'), (r'Strategy::K\b', 'XV_K', 'K'), (r'\bself\(\)\.', 'self->', 'self_fn'), (r'\bself\(\)', '(*self)', 'self_fn2'), (r'\bhint\b', '(*hint_p)', 'hint_ref')],
         methods={'number_of_hps': 'HP_TCB_number_of_hps'}, calls={'initialize_block': 'XV_INIT_BLOCK'}, must_fire={'A_FADD': 1, 'method:number_of_hps': 1, 'call:initialize_block': 1}),
    dict(id='hp_allocate_block', file=HPI, sig=r'hazard_pointer\* allocate_new_hazard_pointer_block\(\)', c_sig='static struct slot* hp_allocate_new_block(struct tcb* self)',
         pre_subst=[(r'(?:const\s+)?(?:std::)?size_t buffer_size = [^;]*;\s*void\*\s*(?:const\s+)?buffer = [^;]*;\s*(?:const\s+)?auto\s*\*?\s*(?:const\s+)?block = ::new \(buffer\) hazard_pointer_block\(hps\);', 'auto block = XV_NEW_BLOCK(hps);', 'new_block')],
         subst=[(r'Strategy::number_of_active_hps', 'number_of_active_hps', 'counter'), (r'Strategy::K', 'XV_K', 'K')], calls={'std::max': 'XV_MAX'},
         methods={'initialize_block': 'XV_INIT_BLOCK_M'}, members=['total_number_of_hps', 'hp_block'],
         must_fire={'subst:new_block': 1, 'A_FADD': 1, 'A_LOAD': 1, 'A_STORE': 1, 'call:std::max': 1}),
    dict(id='he_dyn_number_of_hes', file=HEI, sig=r'\] size_t number_of_hes\(\) const', c_sig='static size_t he_dyn_number_of_hes(const struct tcb* self)',
         members=['total_number_of_hes'], post_subst=[(r'total_number_of_hes', 'total_number_of_hps', 'member_alias')], must_fire={'member:total_number_of_hes': 1}),
    dict(id='he_initialize', file=HEI, sig=r'void initialize\(hint& hint\)', which=0, c_sig='static void he_tcb_initialize(struct tcb* self, struct slot** hint_p)',
         subst=[(r'Strategy::number_of_active_hes', 'number_of_active_hes', 'counter'), (r'Strategy::K\b', 'XV_K', 'K'), (r'\bself\(\)\.', 'self->', 'self_fn'), (r'\bself\(\)', '(*self)', 'self_fn2'), (r'\bhint\b', '(*hint_p)', 'hint_ref')],
         methods={'number_of_hes': 'HE_TCB_number_of_hes'}, calls={'initialize_block': 'XV_INIT_BLOCK'}, must_fire={'A_FADD': 1, 'method:number_of_hes': 1, 'call:initialize_block': 1}),
    dict(id='he_allocate_block', file=HEI, sig=r'hazard_era\* allocate_new_hazard_eras_block\(\)', c_sig='static struct slot* he_allocate_new_block(struct tcb* self)',
         pre_subst=[(r'(?:const\s+)?(?:std::)?size_t buffer_size = [^;]*;\s*void\*\s*(?:const\s+)?buffer = [^;]*;\s*(?:const\s+)?auto\s*\*?\s*(?:const\s+)?block = ::new \(buffer\) hazard_eras_block\(hes\);', 'auto block = XV_NEW_BLOCK(hes);', 'new_block')],
         subst=[(r'Strategy::number_of_active_hes', 'number_of_active_hes', 'counter'), (r'Strategy::K', 'XV_K', 'K')], calls={'std::max': 'XV_MAX'},
         methods={'initialize_block': 'XV_INIT_BLOCK_M'}, members=['total_number_of_hes', 'he_block'],
         post_subst=[(r'total_number_of_hes', 'total_number_of_hps', 'member_alias'), (r'he_block', 'hp_block', 'member_alias2')],
         must_fire={'subst:new_block': 1, 'A_FADD': 1, 'A_LOAD': 1, 'A_STORE': 1, 'call:std::max': 1}),
    # ---- dynamic strategy: gather over the in-object array and the chained blocks (the template is lowered once per block type) ----
    dict(id='hp_blk_begin', file=HPI, sig=r'const hazard_pointer\* begin\(\) const', which=1, c_sig='static const struct slot* hp_blk_begin(const struct hpblock* self)',
         types={'const hazard_pointer*': 'const struct slot*'}, must_fire={'cast': 1}),
    dict(id='hp_blk_end', file=HPI, sig=r'const hazard_pointer\* end\(\) const', which=1, c_sig='static const struct slot* hp_blk_end(const struct hpblock* self)',
         self_calls={'begin': 'hp_blk_begin'}, members=['size'], must_fire={'self_call:begin': 1, 'member:size': 1}),
    dict(id='hp_blk_next_block', file=HPI, sig=r'const hazard_pointer_block\* next_block\(\) const', which=0, c_sig='static const struct hpblock* hp_blk_next_block(const struct hpblock* self)',
         members=['next'], must_fire={'member:next': 1}),
    dict(id='hp_tcb_next_block', file=HPI, sig=r'const hazard_pointer_block\* next_block\(\) const', which=1, c_sig='static const struct hpblock* hp_tcb_next_block(const struct tcb* self)',
         members=['hp_block'], must_fire={'A_LOAD': 1}),
    dict(id='hp_dyn_gather_blk', file=HPI, sig=r'template <typename T>\s*static void gather_protected_pointers\(const T& block,\s*std::vector<const detail::deletable_object\*>& protected_ptrs\)',
         c_sig='static void hp_dyn_gather_blk(const struct hpblock* block_p, struct vec* protected_ptrs)',
         subst=[(r'base::gather_protected_pointers\(', 'hp_gather_range(', 'base_gather'), (r'\bblock\b', '(*block_p)', 'block_ref')],
         methods={'begin': 'HP_BLK_begin', 'end': 'HP_BLK_end', 'next_block': 'HP_BLK_next_block'}, calls={'gather_protected_pointers': 'HP_DYN_GATHER_BLK'},
         must_fire={'subst:base_gather': 1, 'subst:block_ref': 3, 'call:gather_protected_pointers': 1, 'method:next_block': 1}),
    dict(id='hp_dyn_gather_tcb', file=HPI, sig=r'template <typename T>\s*static void gather_protected_pointers\(const T& block,\s*std::vector<const detail::deletable_object\*>& protected_ptrs\)',
         c_sig='static void hp_dyn_gather_tcb(const struct tcb* block_p, struct vec* protected_ptrs)',
         subst=[(r'base::gather_protected_pointers\(', 'hp_gather_range(', 'base_gather'), (r'\bblock\b', '(*block_p)', 'block_ref')],
         methods={'begin': {'(*block_p)': 'HP_TCB_begin', '*': 'HP_BLK_begin'}, 'end': {'(*block_p)': 'HP_TCB_end', '*': 'HP_BLK_end'}, 'next_block': {'(*block_p)': 'HP_TCB_next_block', '*': 'HP_BLK_next_block'}}, calls={'gather_protected_pointers': 'HP_DYN_GATHER_BLK'},
         must_fire={'subst:base_gather': 1, 'subst:block_ref': 3, 'call:gather_protected_pointers': 1, 'method:next_block': 1}),
    dict(id='hp_dyn_tcb_gather', file=HPI, sig=r'void gather_protected_pointers\(std::vector<const detail::deletable_object\*>& protected_ptrs\) const', which=1,
         c_sig='static void hp_dyn_tcb_gather(const struct tcb* self, struct vec* protected_ptrs)', subst=[(r'base::gather_protected_pointers\(', 'hp_gather_range(', 'base_gather')],
         methods={'begin': 'HP_TCB_begin', 'end': 'HP_TCB_end'}, calls={'gather_protected_pointers': 'HP_DYN_GATHER_TCB'},
         must_fire={'call:gather_protected_pointers': 1}),
    dict(id='he_blk_begin', file=HEI, sig=r'const hazard_era\* begin\(\) const', which=1, c_sig='static const struct slot* he_blk_begin(const struct hpblock* self)',
         types={'const hazard_era*': 'const struct slot*'}, must_fire={'cast': 1}),
    dict(id='he_blk_end', file=HEI, sig=r'const hazard_era\* end\(\) const', which=1, c_sig='static const struct slot* he_blk_end(const struct hpblock* self)',
         self_calls={'begin': 'he_blk_begin'}, members=['size'], must_fire={'self_call:begin': 1, 'member:size': 1}),
    dict(id='he_blk_next_block', file=HEI, sig=r'const hazard_eras_block\* next_block\(\) const', which=0, c_sig='static const struct hpblock* he_blk_next_block(const struct hpblock* self)',
         members=['next'], must_fire={'member:next': 1}),
    dict(id='he_tcb_next_block', file=HEI, sig=r'const hazard_eras_block\* next_block\(\) const', which=1, c_sig='static const struct hpblock* he_tcb_next_block(const struct tcb* self)',
         members=['he_block'], post_subst=[(r'he_block', 'hp_block', 'member_alias2')], must_fire={'A_LOAD': 1}),
    dict(id='he_dyn_gather_blk', file=HEI, sig=r'template <typename T>\s*static void gather_protected_eras\(const T& block, std::vector<era_t>& protected_eras\)',
         c_sig='static void he_dyn_gather_blk(const struct hpblock* block_p, struct vec* protected_eras)',
         subst=[(r'base::gather_protected_eras\(', 'he_gather_range(', 'base_gather'), (r'\bblock\b', '(*block_p)', 'block_ref')],
         methods={'begin': 'HE_BLK_begin', 'end': 'HE_BLK_end', 'next_block': 'HE_BLK_next_block'}, calls={'gather_protected_eras': 'HE_DYN_GATHER_BLK'},
         must_fire={'subst:base_gather': 1, 'subst:block_ref': 3, 'call:gather_protected_eras': 1, 'method:next_block': 1}),
    dict(id='he_dyn_gather_tcb', file=HEI, sig=r'template <typename T>\s*static void gather_protected_eras\(const T& block, std::vector<era_t>& protected_eras\)',
         c_sig='static void he_dyn_gather_tcb(const struct tcb* block_p, struct vec* protected_eras)',
         subst=[(r'base::gather_protected_eras\(', 'he_gather_range(', 'base_gather'), (r'\bblock\b', '(*block_p)', 'block_ref')],
         methods={'begin': {'(*block_p)': 'HE_TCB_begin', '*': 'HE_BLK_begin'}, 'end': {'(*block_p)': 'HE_TCB_end', '*': 'HE_BLK_end'}, 'next_block': {'(*block_p)': 'HE_TCB_next_block', '*': 'HE_BLK_next_block'}}, calls={'gather_protected_eras': 'HE_DYN_GATHER_BLK'},
         must_fire={'subst:base_gather': 1, 'subst:block_ref': 3, 'call:gather_protected_eras': 1, 'method:next_block': 1}),
    dict(id='he_dyn_tcb_gather', file=HEI, sig=r'void gather_protected_eras\(std::vector<era_t>& protected_eras\) const', which=1,
         c_sig='static void he_dyn_tcb_gather(const struct tcb* self, struct vec* protected_eras)', subst=[(r'base::gather_protected_eras\(', 'he_gather_range(', 'base_gather')],
         methods={'begin': 'HE_TCB_begin', 'end': 'HE_TCB_end'}, calls={'gather_protected_eras': 'HE_DYN_GATHER_TCB'},
         must_fire={'call:gather_protected_eras': 1}),
  ],
  runs=[
    # reclaim_nodes (real text) against an arbitrary sorted vector: the contract used as a stub in the *_scan / *_dtor runs below
    dict(id='hp_reclaim', entry='h_reclaim', defs=dict(XV_E=3, XV_K=3, XV_L=1, XV_LA=3), unwindset=['hp_reclaim_nodes.0:5'], cls='shape-complete', timeout=900,
         note='vector of 0..9 arbitrary sorted words, list of 0..3 nodes, 0..1 nodes already kept'),
    dict(id='he_reclaim', entry='h_reclaim', defs=dict(XV_HE=1, XV_E=3, XV_K=3, XV_L=1, XV_LA=3), unwindset=['he_reclaim_nodes.0:5'], cls='shape-complete', timeout=900),
    dict(id='hp_gather', entry='h_gather', defs=dict(XV_E=3, XV_K=3), unwindset=['hp_gather_range.0:5'], cls='shape-complete', note='one control block of 3 slots, vector prefix 0..6'),
    dict(id='he_gather', entry='h_gather', defs=dict(XV_HE=1, XV_E=3, XV_K=3), unwindset=['he_gather_range.0:5'], cls='shape-complete'),
    dict(id='hp_gather_5', entry='h_gather', tiers=['thorough'], defs=dict(XV_E=3, XV_K=5), unwindset=['hp_gather_range.0:7'], cls='shape-complete'),
    dict(id='he_gather_5', entry='h_gather', tiers=['thorough'], defs=dict(XV_HE=1, XV_E=3, XV_K=5), unwindset=['he_gather_range.0:7'], cls='shape-complete'),
    dict(id='hp_gather_dyn', entry='h_gather_dyn', defs=dict(XV_DYNAMIC=1, XV_E=2, XV_K=2), unwindset=['hp_gather_range.0:4'], unwind=12, cls='shape-complete',
         note='dynamic strategy: in-object array of 2 slots + 0..2 chained blocks of 1..2 slots, arbitrary contents, vector prefix 0..2; both instantiations of the gather template'),
    dict(id='hp_gather_dyn_k1', entry='h_gather_dyn', defs=dict(XV_DYNAMIC=1, XV_E=2, XV_K=1), unwindset=['hp_gather_range.0:4'], unwind=12, cls='shape-complete'),
    dict(id='he_gather_dyn', entry='h_gather_dyn', defs=dict(XV_HE=1, XV_DYNAMIC=1, XV_E=2, XV_K=2), unwindset=['he_gather_range.0:4'], unwind=12, cls='shape-complete'),
    dict(id='he_gather_dyn_k1', entry='h_gather_dyn', defs=dict(XV_HE=1, XV_DYNAMIC=1, XV_E=2, XV_K=1), unwindset=['he_gather_range.0:4'], unwind=12, cls='shape-complete'),
    dict(id='hp_gather_dyn_3', entry='h_gather_dyn', tiers=['thorough'], defs=dict(XV_DYNAMIC=1, XV_E=2, XV_K=2, XV_BS=3), unwindset=['hp_gather_range.0:5'], unwind=12, cls='shape-complete', note='blocks of 1..3 slots'),
    dict(id='he_gather_dyn_3', entry='h_gather_dyn', tiers=['thorough'], defs=dict(XV_HE=1, XV_DYNAMIC=1, XV_E=2, XV_K=2, XV_BS=3), unwindset=['he_gather_range.0:5'], unwind=12, cls='shape-complete'),
    # scan with the dynamic strategy, everything real in one piece (entry 0 owns 0..2 chained blocks)
    dict(id='hp_scan_dyn', entry='h_scan', tiers=['quick'], defs=dict(XV_DYNAMIC=1, XV_BS=1, XV_E=2, XV_K=1, XV_L=1, XV_LA=1), unwindset=unw(2, 2, 1, 1, 'hp'), unwind=12, cls='shape-complete', timeout=900,
         note='2 entries with 1 in-object slot; entry 0 has 0..2 chained dynamic blocks of 1 slot; 0..1 retired + 0..1 abandoned nodes'),
    dict(id='hp_scan_dyn_l2', entry='h_scan', tiers=['thorough'], defs=dict(XV_DYNAMIC=1, XV_BS=1, XV_E=2, XV_K=1, XV_L=2, XV_LA=1), unwindset=unw(2, 2, 2, 1, 'hp'), unwind=12, cls='shape-complete', timeout=3000),
    dict(id='hp_scan_dyn_2', entry='h_scan', tiers=['thorough'], defs=dict(XV_DYNAMIC=1, XV_BS=2, XV_E=2, XV_K=1, XV_L=2, XV_LA=1), unwindset=unw(2, 2, 2, 1, 'hp'), unwind=12, cls='shape-complete', timeout=3000,
         note='blocks of 1..2 slots'),
    dict(id='he_scan_dyn', entry='h_scan', tiers=['thorough'], defs=dict(XV_HE=1, XV_DYNAMIC=1, XV_BS=1, XV_E=2, XV_K=1, XV_L=1, XV_LA=1), unwindset=unw(2, 2, 1, 1, 'he'), unwind=12, cls='shape-complete', timeout=3000),
    dict(id='hp_reclaim_5', entry='h_reclaim', tiers=['thorough'], defs=dict(XV_E=3, XV_K=3, XV_L=2, XV_LA=5), unwindset=['hp_reclaim_nodes.0:7'], cls='shape-complete', timeout=3000),
    dict(id='he_reclaim_5', entry='h_reclaim', tiers=['thorough'], defs=dict(XV_HE=1, XV_E=3, XV_K=3, XV_L=2, XV_LA=5), unwindset=['he_reclaim_nodes.0:7'], cls='shape-complete', timeout=3000),
    # scan / ~thread_data: real text of scan, for_each loop, iterator, is_active, gather, try_get_*, adopt/abandon, release_entry, abandon; reclaim_nodes by contract
    dict(id='hp_scan', entry='h_scan', defs=dict(XV_ABS_VEC=1, XV_E=3, XV_K=3, XV_L=3, XV_LA=2), unwindset=unw(3, 3, 3, 2, 'hp'), cls='shape-complete', timeout=900,
         note='SEQ: <=3 entries x 3 slots (every state / slot word), 0..3 retired + 0..2 abandoned nodes'),
    dict(id='hp_scan_int', entry='h_scan_int', mode='INT', tiers=['quick'], defs=dict(XV_ABS_VEC=1, XV_E=2, XV_K=3, XV_L=2, XV_LA=1), unwindset=unw(2, 3, 2, 1, 'hp'), cls='shape-complete', timeout=900,
         note='INT: other threads rewrite any slot word and any entry state between any two atomic accesses of the scan'),
    dict(id='hp_dtor', entry='h_dtor', defs=dict(XV_ABS_VEC=1, XV_E=3, XV_K=3, XV_L=3, XV_LA=2), unwindset=unw(3, 3, 3, 2, 'hp'), cls='shape-complete', timeout=900),
    dict(id='hp_balance', entry='h_balance', defs=dict(XV_DYNAMIC=1), cls='unbounded', note='dynamic strategy: a record with any total slot count K <= T < 2^40; initialize, one growth step, abandon'),
    dict(id='hp_balance_static', entry='h_balance', cls='unbounded', note='static strategy'),
    dict(id='he_balance', entry='h_balance', defs=dict(XV_HE=1, XV_DYNAMIC=1), cls='unbounded'),
    dict(id='hp_trigger', entry='h_trigger', cls='unbounded', note='all counter values < 2^60 / active-slot counts < 2^32; A, B as compiled (defaults 2, 100)'),
    dict(id='he_scan', entry='h_scan', defs=dict(XV_HE=1, XV_ABS_VEC=1, XV_E=3, XV_K=3, XV_L=3, XV_LA=2), unwindset=unw(3, 3, 3, 2, 'he'), cls='shape-complete', timeout=900),
    dict(id='he_scan_int', entry='h_scan_int', mode='INT', tiers=['quick'], defs=dict(XV_HE=1, XV_ABS_VEC=1, XV_E=2, XV_K=3, XV_L=2, XV_LA=1), unwindset=unw(2, 3, 2, 1, 'he'), cls='shape-complete', timeout=900),
    dict(id='hp_scan_int_3', entry='h_scan_int', mode='INT', tiers=['thorough'], defs=dict(XV_ABS_VEC=1, XV_E=3, XV_K=3, XV_L=3, XV_LA=2), unwindset=unw(3, 3, 3, 2, 'hp'), cls='shape-complete', timeout=3000),
    dict(id='he_scan_int_3', entry='h_scan_int', mode='INT', tiers=['thorough'], defs=dict(XV_HE=1, XV_ABS_VEC=1, XV_E=3, XV_K=3, XV_L=3, XV_LA=2), unwindset=unw(3, 3, 3, 2, 'he'), cls='shape-complete', timeout=3000),
    dict(id='he_dtor', entry='h_dtor', tiers=['quick'], defs=dict(XV_HE=1, XV_ABS_VEC=1, XV_E=2, XV_K=3, XV_L=2, XV_LA=1), unwindset=unw(2, 3, 2, 1, 'he'), cls='shape-complete', timeout=900),
    dict(id='he_dtor_3', entry='h_dtor', tiers=['thorough'], defs=dict(XV_HE=1, XV_ABS_VEC=1, XV_E=3, XV_K=3, XV_L=3, XV_LA=2), unwindset=unw(3, 3, 3, 2, 'he'), cls='shape-complete', timeout=3000),
    dict(id='he_trigger', entry='h_trigger', defs=dict(XV_HE=1), cls='unbounded'),
    # everything real in one piece (no stub for reclaim_nodes): cross-check of the composition, small shape
    dict(id='hp_scan_whole', entry='h_scan', defs=dict(XV_E=2, XV_K=2, XV_L=2, XV_LA=1), unwindset=unw(2, 2, 2, 1, 'hp'), cls='shape-complete', timeout=3000),
    dict(id='hp_dtor_whole', entry='h_dtor', defs=dict(XV_E=2, XV_K=2, XV_L=2, XV_LA=1), unwindset=unw(2, 2, 2, 1, 'hp'), cls='shape-complete', timeout=3000),
    dict(id='he_scan_whole', entry='h_scan', tiers=['thorough'], defs=dict(XV_HE=1, XV_E=2, XV_K=2, XV_L=1, XV_LA=1), unwindset=unw(2, 2, 1, 1, 'he'), cls='shape-complete', timeout=3000,
         note='smaller than the HP cross-check: the concrete std::unique model makes the SAT problem much harder'),
  ],
  obligations={
    'hpscan.fence_first': dict(deciding=True, text='scan: a seq_cst fence precedes the first slot read, and every delete_self comes after the slot reads (C01 reclaim side)'),
    'hpscan.adopt_before_gather': dict(deciding=True, text='scan: the abandoned nodes are taken over (one exchange) before the first slot is read, so every node that may be deleted was retired before the gathering started'),
    'hpscan.gather.all_slots': dict(deciding=True, text='scan reads the state of every entry of the list (head loaded with acquire) and, for every entry seen active, every one of its K slots'),
    'hpscan.gather.exact': dict(deciding=True, text='gather_protected_pointers / gather_protected_eras of a control block appends exactly the non-link slot words (HE: the eras they encode), in slot order, reading each slot once and leaving the rest of the vector alone'),
    'hpscan.gather.dynamic_all_blocks': dict(deciding=True, text='HP dynamic strategy: gather_protected_pointers reads every slot of the in-object array AND of every chained dynamic block exactly once (hp_block loaded with acquire, the walk follows next until null, slots beyond a block\'s size and unchained blocks are not read), appends the non-link words in that order, leaves the vector prefix alone and writes nothing'),
    'hescan.gather.dynamic_all_blocks': dict(deciding=True, text='HE dynamic strategy: the same for gather_protected_eras (the eras encoded in the non-link words)'),
    'hpscan.search_sorted': dict(deciding=True, text='std::binary_search / std::lower_bound are only called on a sorted range (their precondition): the vector is sorted (HE: and truncated after unique) between gathering and reclaim_nodes'),
    'hpscan.spares_protected': dict(deciding=True, text='HP: delete_self(n) only if n is not among the non-link slot words read from entries that were active when looked at; a node whose address is in such a slot stays in the retire list exactly once (C01 reclaim side)'),
    'hescan.spares_protected_interval': dict(deciding=True, text='HE: delete_self(n) only if no era read from a slot of an entry seen active lies in [construction_era, retirement_era]; otherwise the node stays in the retire list exactly once (C01 reclaim side)'),
    'hpscan.skips_inactive': dict(deciding=True, text='a node is kept ONLY because of a slot word / era read from an ACTIVE entry: words in free or inactive entries never keep a node alive (C17: an exited thread does not prevent reclamation)'),
    'hpscan.conserve': dict(deciding=True, text='HP scan / reclaim_nodes: every node of the retire list and of the adopted list is afterwards deleted exactly once or in the retire list exactly once; the list is a null-terminated chain, number_of_retired_nodes is its length; other nodes untouched (C02)'),
    'hescan.conserve': dict(deciding=True, text='HE scan / reclaim_nodes: same conservation statement (C02)'),
    'hpscan.dtor.hands_over_all': dict(deciding=True, text='~thread_data (HP and HE): every retired/adopted node is deleted exactly once or handed to the global abandoned list exactly once (release CAS), the thread keeps nothing; with an empty retire list nothing is scanned (C02)'),
    'hpscan.dtor.releases_record': dict(deciding=True, text='~thread_data releases the control block: its state becomes free by a release store, the active-slot counter is reduced by K, no other record changes (C17)'),
    'hpscan.active_hps.balanced': dict(deciding=True, text='number_of_active_hps / _hes: initialize() adds exactly the record\'s current number of slots (incl. dynamic blocks), a growth step adds exactly what it adds to the record, abandon() subtracts exactly the current number: the counter equals the sum over active records and returns to its old value after initialize..abandon'),
    'hpscan.retire.once_then_trigger': dict(deciding=True, text='guard_ptr::reclaim: guard reset, deleter stored, (HE: retirement_era = era_clock++ with release), node pushed exactly once, scan called iff the new count >= A*active+B and then after all of that'),
  },
  replays={'hpscan.spares_protected': dict(src='replay_scan.cpp'), 'hpscan.skips_inactive': dict(src='replay_scan.cpp'), 'hpscan.conserve': dict(src='replay_scan.cpp'),
           'hescan.spares_protected_interval': dict(src='replay_scan.cpp', cxxflags=['-DREPLAY_HE']), 'hescan.conserve': dict(src='replay_scan.cpp', cxxflags=['-DREPLAY_HE'])},
  canaries=['gather.value', 'gather.link', 'gather.full', 'reclaim.spared', 'reclaim.deleted', 'reclaim.full', 'reclaim.empty_vector',
            'scan.own_spared', 'scan.adopted_spared', 'scan.own_deleted', 'scan.adopted_deleted', 'scan.inactive_entry_ignored', 'scan.outside', 'scan.full_all_spared', 'scan.no_entries',
            'scan_int.deleted', 'scan_int.spared', 'dtor.handed_over', 'dtor.deleted', 'dtor.nothing_retired', 'dtor.released', 'dtor.no_record', 'trigger.scan', 'trigger.no_scan', 'balance.grown', 'balance.plain', 'gather_dyn.no_block', 'gather_dyn.two_blocks_all_values', 'gather_dyn.one_small_block',
            'scan.protected_by_dynamic_block', 'scan.protected_by_second_block'],
)
