IMPL = 'xenium/reclamation/impl/hazard_pointer.hpp'
BASE = 'xenium/reclamation/detail/guard_ptr.hpp'
GP = r'hazard_pointer<Traits>::guard_ptr<T, MarkedPtr>::'

# ---- unit-local mechanical rules -------------------------------------------------------------------------------
# a C++ reference parameter becomes a C pointer: "p." -> "p->", "&p" -> "p"
def ref(name): return [(r'&%s\b' % name, name, 'ref_addr_' + name), (r'\b%s\.' % name, name + '->', 'ref_' + name)]
# "lhs = <call that may throw>;"  -> XV_TRY_ASSIGN(lhs, call): in C++ the assignment does not happen when the callee throws
TRY_ASSIGN = (r'\b(hp) = (local_thread_data\.alloc_hazard_pointer\(\));', r'XV_TRY_ASSIGN(\1, \2);', 'try_assign')
RET_SELF = (r'return \(\*self\);', 'return self;', 'ret_self')

G = dict(file=IMPL, members=['hp'],
         methods={'get': 'MP_get', 'reset': 'MP_reset', 'set_object': 'HP_set_object',
                  'alloc_hazard_pointer': 'TD_alloc_hazard_pointer', 'release_hazard_pointer': 'TD_release_hazard_pointer',
                  'add_retired_node': 'TD_add_retired_node', 'scan': 'TD_scan', 'set_deleter': 'OBJ_set_deleter'},
         self_calls={'reset': 'g_reset', 'swap': 'g_swap'}, may_throw=['TD_alloc_hazard_pointer'])
S = dict(file=IMPL, members=['value'], methods={'mark': 'SV_mark', 'get': 'SV_get'},
         types={'void**': 'uintptr_t', 'hazard_pointer*': 'struct hp_slot*', 'detail::deletable_object*': 'uintptr_t'},
         self_calls={'is_link': 'hp_is_link'})
CBM = {'get_link': 'HP_get_link', 'set_link': 'HP_set_link', 'number_of_hps': 'CB_number_of_hps', 'need_more_hps': 'CB_need_more_hps'}
SELF = (r'\bself\(\)', '(*self)', 'self()')
HINT = (r'\bhint\b', '(*hint_p)', 'hint_ref')
K = (r'\bStrategy::K\b', 'XV_K', 'Strategy::K')


# ---- runs: every K is its own run (shape-complete: loops over the K slots are unwound completely, unwinding assertions on) ----
def kruns(rid, entry, mode='SEQ', extra=None, cls='shape-complete', note=''):
    out = []
    for k in (1, 2, 3, 5, 8):
        d = {'XV_K': k}; d.update(extra or {})
        out.append(dict(id='%s_k%d' % (rid, k), entry=entry, mode=mode, defs=d, unwind=k + 2, cls=cls, solver=['--sat-solver', 'cadical'],
                        tiers=['thorough'] if k == 8 else ['quick', 'thorough'], timeout=3000 if k == 8 else 600, note=note or 'K=%d slots; loops over slots unwound K+1 times with unwinding assertions' % k))
    return out
RUNS = [dict(id='slot', entry='h_slot', defs={'XV_K': 3}, unwind=5, cls='unbounded', note='slot word operations are loop-free; K only sizes the monitor arrays')]
RUNS += kruns('init', 'h_init') + kruns('alloc', 'h_alloc') + kruns('gops', 'h_gops') + [r for r in kruns('acq', 'h_acq', note='SEQ view of acquire/acquire_if_equal (retry loop cut); the extra SEQ obligation does not depend on K') if r['defs']['XV_K'] in (2, 3)] + kruns('acq_int', 'h_acq', mode='INT', note='INT: source cell rewritten arbitrarily before every atomic access; retry loop cut by invariant ACQ')
for k in (1, 2):
    for (nb, bs, bnew, tiers) in ((2, 2, 3, ['quick', 'thorough']), (3, 3, 6, ['thorough'])):
        RUNS.append(dict(id='dyn_k%d_b%d' % (k, nb), entry='h_dyn', defs={'XV_K': k, 'XV_DYN': 1, 'XV_NB': nb, 'XV_BS': bs, 'XV_BNEW': bnew}, unwind=k + (nb + 1) * bnew + 3,
                         cls='shape-complete', solver=['--sat-solver', 'cadical'], tiers=tiers, timeout=3000 if nb == 3 else 600,
                         note='dynamic strategy, K=%d, 0..%d left-over blocks of 1..%d slots each with arbitrary contents; the new block has at most %d slots' % (k, nb, bs, bnew)))
OBL = {
  'hp.dynamic.initialize.relinks_all': dict(deciding=True, text='dynamic strategy: initialize on an arbitrary left-over record chains every slot of the in-object array and of EVERY dynamic block exactly once (array, newest block, ..., oldest block), null-terminated; the active-hp counter grows by the total'),
  'hp.dynamic.alloc.distinct': dict(deciding=True, text='dynamic strategy: after initialize, N successive allocations (N = all slots) return pairwise distinct slots without growing'),
  'hp.dynamic.need_more.never_throws': dict(deciding=True, text='dynamic strategy: with every slot held the next allocation does not throw: a new block of max(K, total/2) slots is created, chained, put in front of the block list; old slots untouched'),
  'hp.slot.roundtrip': dict(deciding=True, text='set_object(o): not a link, try_get_object yields o; set_link(l): is_link, get_link()==l, try_get_object fails and leaves result untouched; no other slot written'),
  'hp.sync.orders': dict(deciding=True, text='sync precondition: set_object stores release-or-stronger and is followed by a seq_cst fence; set_link stores release-or-stronger; the validating load of acquire uses the caller\'s order'),
  'hp.initialize.all_free': dict(deciding=True, text='initialize_block from arbitrary slot contents yields the chain 0->1->...->K-1->null: Inv_K with all K slots free'),
  'hp.alloc.k_available': dict(deciding=True, text='chain non-empty => alloc returns the head slot, unlinked, nothing else changed, Inv_K kept; a new thread gets K distinct slots from K successive allocations; a guard operation throws only if it needs a slot for a non-null pointer and none is free'),
  'hp.alloc.exhausted_throws': dict(deciding=True, text='chain empty => bad_hazard_pointer_alloc, no slot, hint or guard changed'),
  'hp.release.returns_slot': dict(deciding=True, text='release puts the slot at the head of the chain with the link tag (Inv_K, one more free slot), nulls the handle; releasing a null handle changes nothing'),
  'hp.guard_ops.preserve_inv': dict(deciding=True, text='Inv_K and the guard invariant GI (non-null pointer => own slot holds it) after every operation on every exit, slots of other guards untouched'),
}
OBL.update({
  'hp.guard_ops.empty_holds_no_slot': dict(deciding=True, text='GI2: a guard whose get() is null holds no slot after any operation (given it held before) - needed for "K simultaneously protecting guards"'),
  'hp.ctor.protects': dict(deciding=True, text='guard_ptr(p) / copy construction: value p; non-null => the head slot of the chain is taken and publishes p.get(); null => no slot taken, nothing changed'),
  'hp.copy.shares': dict(deciding=True, text='copy construction / copy assignment: both guards hold the same value, the source and its slot are unchanged, and the copy publishes the object in a slot of its own'),
  'hp.move.empties_source': dict(deciding=True, text='move construction / move assignment: the target takes over value and slot, the source is empty and holds no slot, no slot word changes'),
  'hp.self_assign.noop': dict(deciding=True, text='self copy-/move-assignment changes nothing and returns *this'),
  'hp.reset.releases': dict(deciding=True, text='reset / destructor: guard empty, no slot; other guard untouched'),
  'hp.reset.idempotent': dict(deciding=True, text='a second reset changes nothing'),
  'hp.swap.exchanges': dict(deciding=True, text='swap exchanges value and slot of the two guards, no slot word changes; self swap is a no-op'),
  'hp.reclaim.retires_and_resets': dict(deciding=True, text='reclaim(d): set_deleter(d) and add_retired_node exactly once on the formerly guarded object, guard reset (slot returned), scan iff the threshold is reached'),
})
OBL.update({
  'hp.acquire.snapshot': dict(deciding=True, text='[INT] the guard\'s value after acquire is the value returned by the last load of the source during the call'),
  'hp.acquire.validated': dict(deciding=True, text='[INT] on return with a non-null pointer: store(slot,obj) precedes a seq_cst fence which precedes the load of the source that returned obj, and the slot was not stored to afterwards (or the guard already protected obj and nothing was written)'),
  'hp.acquire_if_equal.iff': dict(deciding=True, text='[INT] acquire_if_equal returns true exactly when the last loaded value equals expected (then the guard holds it); false leaves the guard empty with its slot returned'),
})
CANARIES = ['acq.throw', 'aie.throw', 'acq.kept', 'acq.protect_new', 'acq.marked_null', 'acq.null', 'aie.true', 'aie.true_null', 'aie.false_first', 'aie.false_changed', 'aie.false_changed_released', 'aie.false_mark_only_changed',
  'gops.ctor_throw', 'gops.copy_ctor_throw', 'gops.copy_assign_throw', 'gops.ctor_protect', 'gops.ctor_null', 'gops.copy_ctor_protect', 'gops.copy_ctor_empty',
  'gops.move_ctor_held', 'gops.move_ctor_empty', 'gops.copy_assign_reuse', 'gops.copy_assign_alloc', 'gops.copy_assign_from_empty', 'gops.copy_assign_both_empty',
  'gops.self_copy', 'gops.self_move', 'gops.move_assign_releases', 'gops.move_assign_plain', 'gops.reset_held', 'gops.dtor_held', 'gops.reset_empty', 'gops.reset_twice',
  'gops.swap_both', 'gops.swap_one', 'gops.reclaim_scan', 'gops.reclaim',
  'slot.object', 'slot.link', 'slot.link_null', 'init.block', 'init.k_allocs', 'alloc.from_chain', 'alloc.chain_not_in_index_order', 'alloc.first_of_thread', 'alloc.exhausted',
            'release.held', 'release.null_uninit', 'release.null']

UNIT = dict(
  title='hazard_pointer: slots, static/dynamic slot allocation, guard_ptr operations (C18, C15 guard part, C01 protect side)',
  properties=['C18', 'C15', 'C01'],
  drops='templates (T, MarkedPtr, Traits, Strategy; Strategy::K is the shape XV_K); the guard\'s MarkedPtr is a 64-bit word with get() = word & an '
        'arbitrary pointer mask (marked_ptr algebra: other unit); the slot word marked_ptr<void*,1> is the instance with the mark in bit 63; '
        'concurrent_ptr<T>::load forwards to the atomic cell; thread_local local_thread_data is one global struct; C++ references are pointers; '
        'exceptions are the xv_threw flag (an assignment from a throwing call is not performed: XV_TRY_ASSIGN); the implicit conversion void** -> marked_ptr<void*,1> in set_object is made explicit; '
        'reinterpret_cast between hazard_pointer* and the slot word goes through an explicit injective address map (slot i of the universe at the concrete canonical address XV_BASE + 8*i) instead of cbmc\'s '
        'native pointer/integer conversion (the code only compares, tags and untags these words); dynamic strategy: operator new / placement new of hazard_pointer_block are a pre-declared buffer with the slots behind the header; '
        'the basic_hp_thread_control_block member functions are lowered twice (Derived = static / dynamic control block), initialize_block three times (T = static cb, dynamic cb, hazard_pointer_block)',
  assumptions=['stub thread_block_list::acquire_entry: returns a control block with ARBITRARY slot contents (fresh or adopted)',
               'stub add_retired_node / scan / set_deleter / retired_nodes_threshold (retire side: other unit); scan does not write the calling thread\'s own slots',
               'pointer parts of all marked pointers are canonical addresses (bits 63..48 clear) - the precondition of marked_ptr<void*,1>::make_ptr',
               'rely (INT): other threads write the source concurrent_ptr arbitrarily (pointer and/or mark) but never this thread\'s control block, hint or guards',
               'model artifact: the 64-bit event clock and the 32-bit event counters of the monitors do not wrap (assumed after the loop havoc of acquire)',
               'the ghost owner set abstracts all live guards other than the two operands as "held by some other protecting guard"; their slots are checked to be untouched',
               'remark (not an obligation): thread_data::release_hazard_pointer calls control_block->release_hazard_pointer(...) also when control_block is null (reset/destruction of an empty guard on a thread that never allocated): a member call through a null pointer, harmless in practice because hp is null then'],
  sources=[
    # ---------------- guard_ptr ----------------
    dict(G, id='g_ctor', sig=GP + r'guard_ptr\(const MarkedPtr& p\)', ctor=True,
         c_sig='static void g_ctor(struct guard* self, mptr p)', subst=[TRY_ASSIGN],
         must_fire={'ctor_init': 2, 'subst:try_assign': 1, 'may_throw': 1, 'method:set_object': 1, 'method:get': 2}),
    dict(G, id='g_copy_ctor', sig=GP + r'guard_ptr\(const guard_ptr& p\)', ctor=True,
         c_sig='static void g_copy_ctor(struct guard* self, const struct guard* p)', post_subst=ref('p'),
         must_fire={'ctor_init': 1, 'subst:ref_p': 1}),
    dict(G, id='g_move_ctor', sig=GP + r'guard_ptr\(guard_ptr&& p\) noexcept', ctor=True,
         c_sig='static void g_move_ctor(struct guard* self, struct guard* p)', post_subst=ref('p'),
         must_fire={'ctor_init': 2, 'subst:ref_p': 4, 'method:reset': 1}),
    dict(G, id='g_copy_assign', sig=r'auto ' + GP + r'operator=\(const guard_ptr& p\) -> guard_ptr&',
         c_sig='static struct guard* g_copy_assign(struct guard* self, const struct guard* p)', subst=[TRY_ASSIGN],
         post_subst=ref('p') + [RET_SELF]),
    dict(G, id='g_move_assign', sig=r'auto ' + GP + r'operator=\(guard_ptr&& p\) noexcept -> guard_ptr&',
         c_sig='static struct guard* g_move_assign(struct guard* self, struct guard* p)', post_subst=ref('p') + [RET_SELF],
         must_fire={'self_call:reset': 1, 'method:reset': 1, 'subst:ret_self': 2}),
    dict(G, id='g_acquire', sig=r'void ' + GP + r'acquire\(const concurrent_ptr<T>& p, std::memory_order order\)',
         c_sig='static void g_acquire(struct guard* self, mptr* p, int order)', pre_subst=[(r'\bp\.load\b', 'p->load', 'src_ref')],
         subst=[TRY_ASSIGN], cut_loops={0: 'ACQ'},
         must_fire={'A_LOAD': 2, 'cut_loop': 1, 'method:set_object': 1, 'self_call:reset': 1, 'subst:try_assign': 1, 'may_throw': 1}),
    dict(G, id='g_acquire_if_equal', sig=r'bool ' + GP + r'acquire_if_equal\(const concurrent_ptr<T>& p,\s*const MarkedPtr& expected,\s*std::memory_order order\)',
         c_sig='static _Bool g_acquire_if_equal(struct guard* self, mptr* p, mptr expected, int order)',
         pre_subst=[(r'\bp\.load\b', 'p->load', 'src_ref')], subst=[TRY_ASSIGN],
         must_fire={'A_LOAD': 2, 'method:set_object': 1, 'self_call:reset': 2, 'subst:try_assign': 1, 'may_throw': 1}),
    dict(G, id='g_reset', sig=r'void ' + GP + r'reset\(\) noexcept', c_sig='static void g_reset(struct guard* self)',
         must_fire={'method:release_hazard_pointer': 1, 'method:reset': 1}),
    dict(G, id='g_do_swap', sig=r'void ' + GP + r'do_swap\(guard_ptr& g\) noexcept', c_sig='static void g_do_swap(struct guard* self, struct guard* g)',
         calls={'std::swap': 'XV_SWAP'}, post_subst=ref('g'), must_fire={'call:std::swap': 1}),
    dict(G, id='g_reclaim', sig=r'void ' + GP + r'reclaim\(Deleter d\) noexcept', c_sig='static void g_reclaim(struct guard* self, uintptr_t d)',
         deref={'p': 'OBJ'}, calls={'allocation_strategy::retired_nodes_threshold': 'AS_retired_nodes_threshold'},
         must_fire={'self_call:reset': 1, 'method:set_deleter': 1, 'method:add_retired_node': 1, 'method:scan': 1}),
    dict(id='g_dtor', file=BASE, sig=r'~guard_ptr\(\)', c_sig='static void g_dtor(struct guard* self)',
         pre_subst=[(r'\bself\(\)\.', '', 'crtp_self')], self_calls={'reset': 'g_reset'}, must_fire={'self_call:reset': 1}),
    dict(id='g_swap', file=BASE, sig=r'void swap\(Derived& g\) noexcept', c_sig='static void g_swap(struct guard* self, struct guard* g)',
         # CRTP dispatch: self().do_swap(g) is the DERIVED class' do_swap (the hazard pointer slot is exchanged too); an unqualified do_swap(g) in the base
         # class is the base's empty dummy (source g_base_do_swap) - the lowering keeps the two apart
         pre_subst=[(r'\bself\(\)\.do_swap\(', 'XV_DERIVED_do_swap(self, ', 'crtp_self')], members=['ptr'], calls={'std::swap': 'XV_SWAP'}, self_calls={'do_swap': 'g_base_do_swap'},
         post_subst=ref('g'), must_fire={'call:std::swap': 1, 'subst:crtp_self': 1}),
    dict(id='g_base_do_swap', file=BASE, sig=r'void do_swap\(Derived&\s*\w*\) noexcept', c_sig='static void g_base_do_swap(struct guard* self, struct guard* g)', must_fire={}),
    # ---------------- hazard_pointer slot ----------------
    dict(S, id='hp_set_object', sig=r'void set_object\(detail::deletable_object\* obj\)', c_sig='static void hp_set_object(struct hp_slot* self, uintptr_t obj)',
         pre_subst=[(r'value\.store\((reinterpret_cast<void\*\*>\(obj\)),', r'value.store(SV_make(\1, 0),', 'implicit_marked_ptr')],
         must_fire={'A_STORE': 1, 'subst:implicit_marked_ptr': 1}),
    dict(S, id='hp_try_get_object', sig=r'bool try_get_object\(detail::deletable_object\*& result\) const',
         c_sig='static _Bool hp_try_get_object(struct hp_slot* self, uintptr_t* result_p)',
         pre_subst=[(r'\bconstexpr auto\b', 'const auto', 'constexpr_local')], subst=[(r'\bresult\b', '(*result_p)', 'result_ref')],
         must_fire={'A_LOAD': 1, 'method:mark': 1, 'method:get': 1}),
    dict(S, id='hp_set_link', sig=r'void set_link\(hazard_pointer\* link\)', c_sig='static void hp_set_link(struct hp_slot* self, struct hp_slot* link)',
         types={'void**': 'xv_p2w'},
         pre_subst=[(r'marked_ptr<void\*, 1>\(', 'SV_make(', 'marked_ptr_ctor')], must_fire={'A_STORE': 1, 'subst:marked_ptr_ctor': 1}),
    dict(S, id='hp_get_link', sig=r'hazard_pointer\* get_link\(\) const', c_sig='static struct hp_slot* hp_get_link(struct hp_slot* self)',
         types={'hazard_pointer*': 'xv_w2p'},
         must_fire={'A_LOAD': 1, 'method:get': 1, 'self_call:is_link': 1}),
    dict(S, id='hp_is_link', sig=r'bool is_link\(\) const', c_sig='static _Bool hp_is_link(struct hp_slot* self)', self_calls={},
         must_fire={'A_LOAD': 1, 'method:mark': 1}),
    # ---------------- basic_hp_thread_control_block / static strategy ----------------
    dict(id='cb_begin', file=IMPL, sig=r'(?<!const )hazard_pointer\* begin\(\)', c_sig='static struct hp_slot* cb_begin(struct cb* self)', members=['pointers']),
    dict(id='cb_end', file=IMPL, sig=r'(?<!const )hazard_pointer\* end\(\)', c_sig='static struct hp_slot* cb_end(struct cb* self)', members=['pointers'],
         pre_subst=[K], must_fire={'subst:Strategy::K': 1}),
    dict(id='cb_number_of_hps', file=IMPL, sig=r'constexpr size_t number_of_hps\(\) const', c_sig='static size_t cb_number_of_hps(struct cb* self)',
         pre_subst=[K], must_fire={'subst:Strategy::K': 1}),
    dict(id='cb_initialize_next_block', file=IMPL, sig=r'constexpr hazard_pointer\* initialize_next_block\(\) const',
         c_sig='static struct hp_slot* cb_initialize_next_block(struct cb* self)'),
    dict(id='cb_need_more_hps', file=IMPL, sig=r'hazard_pointer\* need_more_hps\(\)', which=0, c_sig='static struct hp_slot* cb_need_more_hps(struct cb* self)',
         must_fire={'throw': 1}),
    dict(id='cb_initialize_block', file=IMPL, sig=r'static hazard_pointer\* initialize_block\(T& block\)',
         c_sig='static struct hp_slot* cb_initialize_block(struct cb* block)', pre_subst=ref('block'),
         methods={'begin': 'CB_begin', 'end': 'CB_end', 'initialize_next_block': 'CB_initialize_next_block', 'set_link': 'HP_set_link'},
         must_fire={'method:set_link': 2, 'method:begin': 1, 'method:end': 1, 'method:initialize_next_block': 1}),
    dict(id='cb_initialize', file=IMPL, sig=r'void initialize\(hint& hint\)', c_sig='static void cb_initialize(struct cb* self, struct hp_slot** hint_p)',
         pre_subst=[SELF, K, (r'\bStrategy::number_of_active_hps\b', 'xv_number_of_active_hps', 'active_hps')], subst=[HINT], methods=CBM,
         calls={'initialize_block': 'CB_initialize_block'}, must_fire={'A_FADD': 1, 'call:initialize_block': 1, 'subst:hint_ref': 1}),
    dict(id='cb_alloc_hazard_pointer', file=IMPL, sig=r'hazard_pointer\* alloc_hazard_pointer\(hint& hint\)',
         c_sig='static struct hp_slot* cb_alloc_hazard_pointer(struct cb* self, struct hp_slot** hint_p)',
         pre_subst=[SELF], subst=[HINT], methods=CBM, may_throw=['CB_need_more_hps'],
         must_fire={'method:get_link': 1, 'method:need_more_hps': 1, 'may_throw': 1, 'subst:hint_ref': 2}),
    dict(id='cb_release_hazard_pointer', file=IMPL, sig=r'void release_hazard_pointer\(hazard_pointer\*& hp, hint& hint\)',
         c_sig='static void cb_release_hazard_pointer(struct cb* self, struct hp_slot** hp_p, struct hp_slot** hint_p)',
         subst=[HINT, (r'\bhp\b', '(*hp_p)', 'hp_ref')], methods=CBM, must_fire={'method:set_link': 1, 'subst:hint_ref': 2, 'subst:hp_ref': 4}),
    # ---------------- thread_data ----------------
    dict(id='td_alloc_hazard_pointer', file=IMPL, sig=r'HP alloc_hazard_pointer\(\)', c_sig='static struct hp_slot* td_alloc_hazard_pointer(struct thread_data* self)',
         members=['control_block', 'hint'], methods={'alloc_hazard_pointer': 'CB_alloc_hazard_pointer'}, self_calls={'ensure_has_control_block': 'td_ensure_has_control_block'},
         must_fire={'method:alloc_hazard_pointer': 1, 'self_call:ensure_has_control_block': 1}),
    dict(id='td_release_hazard_pointer', file=IMPL, sig=r'void release_hazard_pointer\(HP& hp\)',
         c_sig='static void td_release_hazard_pointer(struct thread_data* self, struct hp_slot** hp_p)',
         members=['control_block', 'hint'], subst=[(r'\bhp\b', '(*hp_p)', 'hp_ref')], methods={'release_hazard_pointer': 'CB_release_hazard_pointer'},
         must_fire={'method:release_hazard_pointer': 1}),
    dict(id='td_ensure_has_control_block', file=IMPL, sig=r'void ensure_has_control_block\(\)', c_sig='static void td_ensure_has_control_block(struct thread_data* self)',
         members=['control_block', 'hint'], methods={'acquire_entry': 'TBL_acquire_entry', 'initialize': 'CB_initialize'},
         must_fire={'method:acquire_entry': 1, 'method:initialize': 1}),
    # ---------------- dynamic strategy: the same basic_hp_thread_control_block text instantiated for Derived = dynamic_hp_thread_control_block ----------------
    dict(id='dcb_begin', file=IMPL, sig=r'(?<!const )hazard_pointer\* begin\(\)', c_sig='static struct hp_slot* dcb_begin(struct dcb* self)', members=['pointers']),
    dict(id='dcb_end', file=IMPL, sig=r'(?<!const )hazard_pointer\* end\(\)', c_sig='static struct hp_slot* dcb_end(struct dcb* self)', members=['pointers'],
         pre_subst=[K], must_fire={'subst:Strategy::K': 1}),
    dict(id='blk_begin', file=IMPL, sig=r'(?<!const )hazard_pointer\* begin\(\)', which=1, c_sig='static struct hp_slot* blk_begin(struct hpblock_hdr* self)',
         types={'hazard_pointer*': 'struct hp_slot*'}, must_fire={'cast': 1}),
    dict(id='blk_end', file=IMPL, sig=r'(?<!const )hazard_pointer\* end\(\)', which=1, c_sig='static struct hp_slot* blk_end(struct hpblock_hdr* self)',
         members=['size'], self_calls={'begin': 'blk_begin'}, must_fire={'self_call:begin': 1, 'member:size': 1}),
    dict(id='blk_initialize_next_block', file=IMPL, sig=r'hazard_pointer\* initialize_next_block\(\)', which=1,
         c_sig='static struct hp_slot* blk_initialize_next_block(struct hpblock_hdr* self)', members=['next'], methods={'begin': 'BLK_begin', 'end': 'BLK_end'},
         pre_subst=[(r'base::initialize_block\(\*(\w+)\)', r'blk_initialize_block(\1)', 'base_initialize_block')], must_fire={'member:next': 2}),
    dict(id='dcb_initialize_next_block', file=IMPL, sig=r'hazard_pointer\* initialize_next_block\(\)', which=2,
         c_sig='static struct hp_slot* dcb_initialize_next_block(struct dcb* self)', members=['hp_block'],
         pre_subst=[(r'base::initialize_block\(\*(\w+)\)', r'blk_initialize_block(\1)', 'base_initialize_block')], must_fire={'subst:base_initialize_block': 1, 'A_LOAD': 1}),
    dict(id='dcb_number_of_hps', file=IMPL, sig=r'(?<!constexpr )size_t number_of_hps\(\) const', c_sig='static size_t dcb_number_of_hps(struct dcb* self)',
         members=['total_number_of_hps'], must_fire={'member:total_number_of_hps': 1}),
    dict(id='dcb_need_more_hps', file=IMPL, sig=r'hazard_pointer\* need_more_hps\(\)', which=1, c_sig='static struct hp_slot* dcb_need_more_hps(struct dcb* self)',
         self_calls={'allocate_new_hazard_pointer_block': 'dcb_allocate_new_hazard_pointer_block'}, must_fire={'self_call:allocate_new_hazard_pointer_block': 1}),
    dict(id='blk_initialize_block', file=IMPL, sig=r'static hazard_pointer\* initialize_block\(T& block\)',
         c_sig='static struct hp_slot* blk_initialize_block(struct hpblock_hdr* block)', pre_subst=ref('block'),
         methods={'begin': 'BLK_begin', 'end': 'BLK_end', 'initialize_next_block': 'BLK_initialize_next_block', 'set_link': 'HP_set_link'},
         must_fire={'method:set_link': 2, 'method:begin': 1, 'method:end': 1, 'method:initialize_next_block': 1}),
    dict(id='dcb_initialize_block', file=IMPL, sig=r'static hazard_pointer\* initialize_block\(T& block\)',
         c_sig='static struct hp_slot* dcb_initialize_block(struct dcb* block)', pre_subst=ref('block'),
         methods={'begin': 'DCB_begin', 'end': 'DCB_end', 'initialize_next_block': 'DCB_initialize_next_block', 'set_link': 'HP_set_link'},
         must_fire={'method:set_link': 2, 'method:begin': 1, 'method:end': 1, 'method:initialize_next_block': 1}),
    dict(id='dcb_initialize', file=IMPL, sig=r'void initialize\(hint& hint\)', c_sig='static void dcb_initialize(struct dcb* self, struct hp_slot** hint_p)',
         pre_subst=[SELF, K, (r'\bStrategy::number_of_active_hps\b', 'xv_number_of_active_hps', 'active_hps')], subst=[HINT],
         methods={'number_of_hps': 'DCB_number_of_hps'}, calls={'initialize_block': 'DCB_initialize_block'},
         must_fire={'A_FADD': 1, 'call:initialize_block': 1, 'subst:hint_ref': 1}),
    dict(id='dcb_alloc_hazard_pointer', file=IMPL, sig=r'hazard_pointer\* alloc_hazard_pointer\(hint& hint\)',
         c_sig='static struct hp_slot* dcb_alloc_hazard_pointer(struct dcb* self, struct hp_slot** hint_p)',
         pre_subst=[SELF], subst=[HINT], methods={'get_link': 'HP_get_link', 'need_more_hps': 'DCB_need_more_hps'}, may_throw=['DCB_need_more_hps'],
         must_fire={'method:get_link': 1, 'method:need_more_hps': 1, 'may_throw': 1, 'subst:hint_ref': 2}),
    dict(id='dcb_allocate_new_hazard_pointer_block', file=IMPL, sig=r'hazard_pointer\* allocate_new_hazard_pointer_block\(\)',
         c_sig='static struct hp_slot* dcb_allocate_new_hazard_pointer_block(struct dcb* self)', members=['total_number_of_hps', 'hp_block'],
         pre_subst=[K, (r'\bStrategy::number_of_active_hps\b', 'xv_number_of_active_hps', 'active_hps'),
                    (r'hazard_pointer_block::operator new\(', 'XV_BLOCK_NEW(', 'block_operator_new'),
                    (r'::new \((\w+)\) hazard_pointer_block\(', r'XV_BLOCK_CTOR(\1, ', 'placement_new'),
                    (r'sizeof\(hazard_pointer_block\)', 'sizeof(struct hpblock_hdr)', 'sizeof_block'), (r'sizeof\(hazard_pointer\)', 'sizeof(struct hp_slot)', 'sizeof_slot'),
                    (r'this->initialize_block\(\*block\)', 'blk_initialize_block(block)', 'static_initialize_block'), (r'\bvoid\* buffer\b', 'struct hpblock_hdr* buffer', 'buffer_type')],
         calls={'std::max': 'XV_MAX'},
         must_fire={'A_FADD': 1, 'A_LOAD': 1, 'A_STORE': 1, 'subst:block_operator_new': 1, 'subst:placement_new': 1, 'subst:static_initialize_block': 1, 'call:std::max': 1}),
  ],
  runs=RUNS,
  obligations=OBL,
  loop_obligation={'ACQ': 'hp.guard_ops.preserve_inv'},
  replays={o: dict(src='replay_guard.cpp') for o in (
      'hp.guard_ops.empty_holds_no_slot', 'hp.alloc.k_available', 'hp.alloc.exhausted_throws', 'hp.guard_ops.preserve_inv', 'hp.ctor.protects', 'hp.copy.shares',
      'hp.move.empties_source', 'hp.self_assign.noop', 'hp.reset.releases', 'hp.reset.idempotent', 'hp.swap.exchanges', 'hp.release.returns_slot',
      'hp.reclaim.retires_and_resets', 'hp.acquire.snapshot', 'hp.acquire_if_equal.iff')},
  canaries=CANARIES,
)
