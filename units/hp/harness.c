/* unit hp - hazard_pointer: slot word, static slot free list, guard_ptr operations (C18, C15 guard part, C01 protect side).
 * Only declarations, stubs, ghost state, invariants and harnesses here; every function body under contract is in lowered.h */
#include <stdint.h>
#include <stddef.h>
static void mon_store(void* addr, uint64_t v, int o);
static void mon_load(void* addr, uint64_t v, int o);
static void mon_fence(int o);
#define XV_ON_STORE(addr, val, order) mon_store((void*)(addr), (uint64_t)(val), (order))
#define XV_ON_LOAD(addr, val, order) mon_load((void*)(addr), (uint64_t)(val), (order))
#define XV_ON_FENCE(order) mon_fence(order)
#include "xv.h"
int xv_threw; uint64_t xv_clock, xv_rmw_old; _Bool xv_cas_ok;
#define XV_EXC_bad_hazard_pointer_alloc 7
#ifndef XV_K
#define XV_K 3
#endif
#define TSAN_MEMORY_ORDER(tsan_order, normal_order) normal_order   /* detail/port.hpp, non-TSan build */

/* ---------------- types ---------------- */
typedef uintptr_t mptr;                                   /* MarkedPtr / concurrent_ptr cell: one word */
struct hp_slot { uintptr_t value; };                       /* std::atomic<marked_ptr<void*,1>> value */
struct cb { struct hp_slot pointers[XV_K]; };              /* static_hp_thread_control_block: hazard_pointer pointers[Strategy::K] */
struct thread_data { struct cb* control_block; struct hp_slot* hint; };
struct guard { mptr ptr; struct hp_slot* hp; };
struct thread_data local_thread_data; struct cb the_cb; int global_thread_block_list;
size_t xv_number_of_active_hps;
/* ---- dynamic strategy: dynamic_hp_thread_control_block and its hazard_pointer_block list ---- */
#ifndef XV_NB
#define XV_NB 3        /* max number of left-over dynamic blocks */
#endif
#ifndef XV_BS
#define XV_BS 3        /* max size of a left-over block */
#endif
#ifndef XV_BNEW
#define XV_BNEW 6
#endif
#define XV_BNEW_DOC      /* slot capacity reserved behind every block header (the block created by allocate_new_hazard_pointer_block has at most 6 slots in this shape) */
struct hpblock_hdr { struct hpblock_hdr* next; size_t size; };                  /* hazard_pointer_block; its slots follow the header (begin() = this + 1) */
struct hpblock { struct hpblock_hdr h; struct hp_slot slots[XV_BNEW]; };
struct dcb { struct hp_slot pointers[XV_K]; size_t total_number_of_hps; struct hpblock_hdr* hp_block; };
struct dcb the_dcb; struct hpblock dyn_blk[XV_NB + 1];                          /* dyn_blk[XV_NB] is what operator new hands out */
int mon_blk_order = -1;       /* order of the store that publishes a new dynamic block to the scanning threads */
static void mon_blk_store(void* addr, int o) { if (addr == (void*)&the_dcb.hp_block) mon_blk_order = o; }

/* ---------------- marked_ptr stubs (algebra proved in the marked_ptr unit) ---------------- */
uintptr_t mp_ptrmask;                                      /* pointer_mask of the guard's MarkedPtr: arbitrary */
#define MP_get(x) ((x) & mp_ptrmask)
#define MP_reset(x) ((x) = 0)
#define CANON(x) ((MP_get(x) >> 48) == 0)                  /* pointer part is a canonical address */
#define SV_BIT ((uintptr_t)1 << 63)                        /* marked_ptr<void*,1,16>: the mark is the top bit */
static uintptr_t SV_make(uintptr_t p, uintptr_t m) { XV_XASSERT((p & SV_BIT) == 0); return p | ((m & 1) << 63); }
#define SV_get(v) ((v) & ~SV_BIT)
#define SV_mark(v) ((uintptr_t)((v) >> 63))

/* ---------------- glue for the lowered text ---------------- */
static void g_ctor(struct guard*, mptr); static void g_reset(struct guard*); static void g_do_swap(struct guard*, struct guard*); static void g_swap(struct guard* self, struct guard* g);
#define XV_DERIVED_do_swap(self, g) g_do_swap((self), (g))      /* self().do_swap(g): static dispatch to hazard_pointer::guard_ptr::do_swap */
static void hp_set_object(struct hp_slot*, uintptr_t); static void hp_set_link(struct hp_slot*, struct hp_slot*);
static struct hp_slot* hp_get_link(struct hp_slot*); static _Bool hp_is_link(struct hp_slot*);
static struct hp_slot* cb_begin(struct cb*); static struct hp_slot* cb_end(struct cb*); static size_t cb_number_of_hps(struct cb*);
static struct hp_slot* cb_initialize_next_block(struct cb*); static struct hp_slot* cb_need_more_hps(struct cb*);
static struct hp_slot* cb_initialize_block(struct cb*); static void cb_initialize(struct cb*, struct hp_slot**);
static struct hp_slot* cb_alloc_hazard_pointer(struct cb*, struct hp_slot**);
static void cb_release_hazard_pointer(struct cb*, struct hp_slot**, struct hp_slot**);
static struct hp_slot* td_alloc_hazard_pointer(struct thread_data*); static void td_release_hazard_pointer(struct thread_data*, struct hp_slot**);
static void td_ensure_has_control_block(struct thread_data*);
#define HP_set_object(s, o) hp_set_object(&(s), (o))
#define HP_set_link(s, l) hp_set_link(&(s), (l))
#define HP_get_link(s) hp_get_link(&(s))
#define CB_begin(b) cb_begin(&(b))
#define CB_end(b) cb_end(&(b))
#define CB_number_of_hps(b) cb_number_of_hps(&(b))
#define CB_initialize_next_block(b) cb_initialize_next_block(&(b))
#define CB_need_more_hps(b) cb_need_more_hps(&(b))
#define CB_initialize_block(b) cb_initialize_block(&(b))
#define CB_initialize(b, hint) cb_initialize(&(b), &(hint))
#define CB_alloc_hazard_pointer(b, hint) cb_alloc_hazard_pointer(&(b), &(hint))
#define CB_release_hazard_pointer(b, hp, hint) cb_release_hazard_pointer(&(b), &(hp), &(hint))
#define TD_alloc_hazard_pointer(td) td_alloc_hazard_pointer(&(td))
#define TD_release_hazard_pointer(td, hp) td_release_hazard_pointer(&(td), &(hp))
/* dynamic instantiation */
static struct hp_slot* dcb_begin(struct dcb*); static struct hp_slot* dcb_end(struct dcb*); static struct hp_slot* blk_begin(struct hpblock_hdr*); static struct hp_slot* blk_end(struct hpblock_hdr*);
static struct hp_slot* blk_initialize_next_block(struct hpblock_hdr*); static struct hp_slot* dcb_initialize_next_block(struct dcb*); static size_t dcb_number_of_hps(struct dcb*);
static struct hp_slot* dcb_need_more_hps(struct dcb*); static struct hp_slot* blk_initialize_block(struct hpblock_hdr*); static struct hp_slot* dcb_initialize_block(struct dcb*);
static struct hp_slot* dcb_allocate_new_hazard_pointer_block(struct dcb*);
#define DCB_begin(b) dcb_begin(&(b))
#define DCB_end(b) dcb_end(&(b))
#define BLK_begin(b) blk_begin(&(b))
#define BLK_end(b) blk_end(&(b))
#define DCB_initialize_next_block(b) dcb_initialize_next_block(&(b))
#define BLK_initialize_next_block(b) blk_initialize_next_block(&(b))
#define DCB_number_of_hps(b) dcb_number_of_hps(&(b))
#define DCB_need_more_hps(b) dcb_need_more_hps(&(b))
#define DCB_initialize_block(b) dcb_initialize_block(&(b))
#define XV_MAX(a, b) ((a) > (b) ? (a) : (b))
size_t gh_new_bytes; unsigned gh_new_calls;
#define XV_BLOCK_NEW(n) (gh_new_bytes = (n), gh_new_calls++, &dyn_blk[XV_NB].h)          /* hazard_pointer_block::operator new: a fresh, suitably sized buffer */
static struct hpblock_hdr* XV_BLOCK_CTOR(struct hpblock_hdr* buf, size_t size) {            /* hazard_pointer_block(size): next = nullptr (default member initialiser), size(size) */
  XV_MODEL_ASSERT("shape: the new block fits the reserved capacity", size <= XV_BNEW); buf->next = 0; buf->size = size; return buf; }
#define XV_TRY_ASSIGN(lhs, call) do { struct hp_slot* xv_t = (call); if (!xv_threw) lhs = xv_t; } while (0)
#define XV_SWAP(a, b) do { __typeof__(a) xv_s = (a); (a) = (b); (b) = xv_s; } while (0)
#define XV_INIT_base(self, p) (self)->ptr = (p)
#define XV_INIT_hp(self, ...) (self)->hp = (struct hp_slot*)(__VA_ARGS__ + 0)
#define XV_INIT_guard_ptr(self, p) g_ctor((self), (p))

/* ---------------- stubs of callees outside this unit ---------------- */
unsigned gh_acquire_entry_calls;
static struct cb* tbl_acquire_entry(void) {                /* thread_block_list::acquire_entry: a fresh or an adopted block - arbitrary slot contents */
  for (unsigned i = 0; i < XV_K; i++) the_cb.pointers[i].value = nondet_uptr();
  gh_acquire_entry_calls++; return &the_cb;
}
#define TBL_acquire_entry(list) tbl_acquire_entry()
struct obj_ghost { int unused; } xv_obj;
uintptr_t gh_deleter_obj, gh_deleter, gh_retired_obj; unsigned gh_set_deleter_calls, gh_retire_calls, gh_scan_calls;
size_t gh_retired_count, gh_threshold; _Bool gh_retired_while_holding;
struct guard* gh_reclaiming;
#define OBJ(p) (gh_deleter_obj = (p), &xv_obj)
#define OBJ_set_deleter(o, d) (gh_deleter = (d), gh_set_deleter_calls++, (void)(o))
static size_t td_add_retired_node(uintptr_t p) { gh_retired_obj = p; gh_retire_calls++; return gh_retired_count; }
#define TD_add_retired_node(td, p) td_add_retired_node(p)
#define AS_retired_nodes_threshold() gh_threshold
#define TD_scan(td) ((void)gh_scan_calls++)

/* ---------------- monitors: per slot the last store and the first seq_cst fence after it; the loads of the source ---------------- */
uint64_t mon_st_clock[XV_K], mon_fence_clock[XV_K]; uintptr_t mon_st_val[XV_K]; int mon_st_order[XV_K]; unsigned mon_st_count[XV_K]; _Bool mon_fenced[XV_K];
mptr* mon_src; uint64_t mon_ld_clock; mptr mon_ld_val; int mon_ld_order; unsigned mon_ld_count; unsigned mon_weak_fence;
static void mon_blk_store(void* addr, int o);
static void mon_store(void* addr, uint64_t v, int o) {
  mon_blk_store(addr, o);
  for (unsigned i = 0; i < XV_K; i++) if (addr == (void*)&the_cb.pointers[i].value) {
    mon_st_clock[i] = xv_clock; mon_st_val[i] = v; mon_st_order[i] = o; mon_st_count[i]++; mon_fenced[i] = 0; }
}
static void mon_fence(int o) {
  if (o != mo_seq_cst) { mon_weak_fence++; return; }
  for (unsigned i = 0; i < XV_K; i++) if (!mon_fenced[i]) { mon_fenced[i] = 1; mon_fence_clock[i] = xv_clock; }
}
static void mon_load(void* addr, uint64_t v, int o) {
  if (addr == (void*)mon_src) { mon_ld_clock = xv_clock; mon_ld_val = v; mon_ld_order = o; mon_ld_count++; }
}
static void mon_reset(void) {
  for (unsigned i = 0; i < XV_K; i++) { mon_st_count[i] = 0; mon_fenced[i] = 0; mon_st_clock[i] = 0; mon_fence_clock[i] = 0; mon_st_val[i] = 0; mon_st_order[i] = 0; }
  mon_ld_count = 0; mon_ld_clock = 0; mon_ld_val = 0; mon_ld_order = 0; mon_weak_fence = 0;
}

/* ---------------- ghost owner set and the representation invariant Inv_K ---------------- */
enum { OW_FREE = 0, OW_A = 1, OW_B = 2, OW_OTHER = 3 };
unsigned char gh_owner[XV_K], gh_rank[XV_K], gh_pred[XV_K], pre_rank[XV_K], pre_pred[XV_K]; unsigned pre_head;            /* who holds slot i: nobody (on the chain), guard A, guard B, some other live (protecting) guard */
uintptr_t pre_val[XV_K]; unsigned char pre_owner[XV_K]; struct hp_slot* pre_hint; struct cb* pre_cb;
struct guard gA, gB, a0, b0;
#define SLOT(i) (&the_cb.pointers[i])
#define CL(x) ((x) < XV_K ? (x) : 0u)      /* clamp an index that is known (assumed/checked) to be < K: keeps the bounds check quiet without a division */
static unsigned slot_index(const struct hp_slot* s) { for (unsigned i = 0; i < XV_K; i++) if (s == SLOT(i)) return i; return XV_K; }
#ifdef XV_DYN
#define XV_NALL (XV_K + (XV_NB + 1) * XV_BNEW)
static struct hp_slot* ALLSLOT(unsigned n) {
  if (n < XV_K) return &the_dcb.pointers[n];
  n -= XV_K;
  for (unsigned b = 0; b <= XV_NB; b++) { if (n < XV_BNEW) return &dyn_blk[b].slots[n]; n -= XV_BNEW; }
  return 0;
}
#else
#define XV_NALL XV_K
#define ALLSLOT(n) (&the_cb.pointers[(n) < XV_K ? (n) : 0u])
#endif
static unsigned slot_index_all(const struct hp_slot* s) { for (unsigned i = 0; i < XV_NALL; i++) if (s == ALLSLOT(i)) return i; return XV_NALL; }
/* address model of the slot array: slot i lives at xv_base + 8*i (xv_base arbitrary, 8-aligned, canonical, non-null).  reinterpret_cast between
 * hazard_pointer* and the slot word is lowered to these two maps (cbmc's native pointer<->integer conversion made the K=8 formulas intractable). */
uintptr_t xv_base;
#define XV_BASE ((uintptr_t)0x00007f3a10002040)   /* a concrete canonical address: the code under contract only compares, tags and untags these words */
#define SLOTW(i) (xv_base + 8 * (uintptr_t)(i))
static unsigned word_index(uintptr_t w) { uintptr_t d = w - xv_base; return ((d & 7) == 0 && (d >> 3) < XV_K) ? (unsigned)(d >> 3) : XV_K; }
static unsigned word_index_all(uintptr_t w) { uintptr_t d = w - xv_base; return ((d & 7) == 0 && (d >> 3) < XV_NALL) ? (unsigned)(d >> 3) : XV_NALL; }
static uintptr_t xv_p2w(const struct hp_slot* p) {
  if (p == 0) return 0;
  unsigned i = slot_index_all(p); __CPROVER_assert(i < XV_NALL, "hazard_pointer* converted to a word is a slot of the block"); return SLOTW(i);
}
static struct hp_slot* xv_w2p(uintptr_t w) {
  if (w == 0) return 0;
  unsigned i = word_index_all(w); __CPROVER_assert(i < XV_NALL, "word converted to hazard_pointer* is the address of a slot of the block"); return ALLSLOT(i);
}
/* guard invariant GI: a non-null pointer is published in the guard's slot */
static _Bool gi_ok(const struct guard* g) {
  if (MP_get(g->ptr) == 0) return 1;
  return g->hp != 0 && slot_index(g->hp) < XV_K && g->hp->value == MP_get(g->ptr);
}
/* GI2: a guard that protects nothing holds no slot */
static _Bool gi2_ok(const struct guard* g) { return MP_get(g->ptr) != 0 || g->hp == 0; }
static unsigned free_count(void) { unsigned n = 0; for (unsigned i = 0; i < XV_K; i++) if (gh_owner[i] == OW_FREE) n++; return n; }
/* Inv_K, stated locally with ghost witnesses (no walking, no counting): gh_rank[i] = position of free slot i on the chain, gh_pred[i] = its predecessor.
 *   hint = null iff no slot is free, else hint is a free slot of rank 0;
 *   a free slot i carries the link tag, rank < K, and links to null or to a free slot of rank+1      (=> the chain from hint is inside the block,
 *     duplicate-free, visits only free slots and is null-terminated within K steps);
 *   a free slot other than hint has a free predecessor of rank-1 that links to it                      (=> by induction on the rank every free slot
 *     is reached from hint: exactly the slots that are not held are on the chain);
 *   held slots carry no link tag, A/B own exactly the slot their hp names, other live guards protect something. */
static _Bool inv_ok(const struct guard* A, const struct guard* B, _Bool relaxA) {
  if (local_thread_data.control_block == 0)        /* thread has not allocated yet */
    return local_thread_data.hint == 0 && A->hp == 0 && B->hp == 0 && gi_ok(A) && gi_ok(B);
  if (local_thread_data.control_block != &the_cb) return 0;
  unsigned h = slot_index(local_thread_data.hint);
  if (local_thread_data.hint != 0 && (h >= XV_K || gh_owner[h] != OW_FREE || gh_rank[h] != 0)) return 0;
  for (unsigned i = 0; i < XV_K; i++) {
    uintptr_t v = SLOT(i)->value;
    if ((gh_owner[i] == OW_A) != (A->hp == SLOT(i)) || (gh_owner[i] == OW_B) != (B->hp == SLOT(i))) return 0;
    if (gh_owner[i] == OW_FREE) {
      if (local_thread_data.hint == 0 || SV_mark(v) == 0 || gh_rank[i] >= XV_K) return 0;
      if (SV_get(v) != 0) { unsigned t = word_index(SV_get(v)); if (t >= XV_K || gh_owner[t] != OW_FREE || gh_rank[t] != gh_rank[i] + 1) return 0; }
      if (i != h) { unsigned p = gh_pred[i]; if (p >= XV_K || gh_owner[p] != OW_FREE || SV_get(SLOT(p)->value) != SLOTW(i) || gh_rank[p] + 1 != gh_rank[i]) return 0; }
    } else {
      if (!(relaxA && gh_owner[i] == OW_A) && SV_mark(v) != 0) return 0;        /* relaxA: between alloc and set_object */
      if (gh_owner[i] == OW_OTHER && v == 0) return 0;                            /* other live guards protect something */
    }
  }
  if (A->hp != 0 && slot_index(A->hp) >= XV_K) return 0;
  if (B->hp != 0 && (slot_index(B->hp) >= XV_K || B->hp == A->hp)) return 0;
  return (relaxA || gi_ok(A)) && gi_ok(B);
}
/* after an operation: the owner map is recomputed from the guards; slots held by other guards must be untouched */
static _Bool derive_owner(const struct guard* A, const struct guard* B) {
  _Bool ok = 1;
  for (unsigned i = 0; i < XV_K; i++) {
    unsigned char o = OW_FREE;
    if (pre_owner[i] == OW_OTHER) { o = OW_OTHER; if (SLOT(i)->value != pre_val[i]) ok = 0; }
    if (A->hp == SLOT(i)) { if (o != OW_FREE) ok = 0; o = OW_A; }
    if (B->hp == SLOT(i)) { if (o != OW_FREE) ok = 0; o = OW_B; }
    gh_owner[i] = o;
  }
  /* witnesses: an operation allocates and/or releases at most one slot, always at the head: ranks shift by one, the old head's predecessor is the new head */
  int delta = 0; for (unsigned i = 0; i < XV_K; i++) { if (pre_owner[i] != OW_FREE && gh_owner[i] == OW_FREE) delta++; if (pre_owner[i] == OW_FREE && gh_owner[i] != OW_FREE) delta--; }
  unsigned nh = slot_index(local_thread_data.hint);
  for (unsigned i = 0; i < XV_K; i++) {
    gh_rank[i] = pre_owner[i] == OW_FREE ? (unsigned char)(pre_rank[i] + delta) : 0;
    gh_pred[i] = (pre_owner[i] == OW_FREE && i != pre_head) ? pre_pred[i] : (unsigned char)nh;
  }
  return ok;
}
static _Bool slots_unchanged(void) {
  for (unsigned i = 0; i < XV_K; i++) if (SLOT(i)->value != pre_val[i]) return 0;
  return local_thread_data.hint == pre_hint && local_thread_data.control_block == pre_cb;
}
/* all slots except slot j unchanged */
static _Bool slots_unchanged_except(const struct hp_slot* s) {
  for (unsigned i = 0; i < XV_K; i++) if (SLOT(i) != s && SLOT(i)->value != pre_val[i]) return 0;
  return 1;
}
static _Bool owners_unchanged_except(const struct hp_slot* s) { for (unsigned i = 0; i < XV_K; i++) if (SLOT(i) != s && gh_owner[i] != pre_owner[i]) return 0; return 1; }
static _Bool same_guard(const struct guard* x, const struct guard* y) { return x->ptr == y->ptr && x->hp == y->hp; }

/* ---------------- builder: an arbitrary state satisfying Inv_K (arbitrary chain order, arbitrary subset held) ---------------- */
unsigned in_k, in_harness; uint64_t in_ranks; unsigned in_nfree, in_a_idx, in_b_idx, in_op; _Bool in_uninit;       /* in_ranks: nibble i = rank of slot i on the chain, 15 = held */
mptr in_a_ptr, in_b_ptr, in_val, in_expected, in_src; uintptr_t in_mask; int in_order;
static void build_state(_Bool with_a, _Bool with_b) {
  in_k = XV_K; in_a_idx = nondet_uint(); in_b_idx = nondet_uint(); in_uninit = nondet_bool();
  in_a_ptr = nondet_uptr(); in_b_ptr = nondet_uptr(); in_mask = nondet_uptr(); mp_ptrmask = in_mask;
  xv_base = XV_BASE;
  XV_ASSUME(in_a_idx <= XV_K && in_b_idx <= XV_K && (in_a_idx == XV_K || in_a_idx != in_b_idx));
  if (!with_a) XV_ASSUME(in_a_idx == XV_K);
  if (!with_b) XV_ASSUME(in_b_idx == XV_K);
  XV_ASSUME(CANON(in_a_ptr) && CANON(in_b_ptr));
  xv_threw = 0; xv_clock = nondet_u64(); XV_ASSUME(xv_clock < ((uint64_t)1 << 62)); xv_number_of_active_hps = nondet_size();
  unsigned head = nondet_uint(); uint64_t ranks = 0; in_nfree = 0;
  if (in_uninit) {
    XV_ASSUME(in_a_idx == XV_K && in_b_idx == XV_K);
    local_thread_data.control_block = 0; local_thread_data.hint = 0; head = 0; in_nfree = XV_K;
    for (unsigned i = 0; i < XV_K; i++) { the_cb.pointers[i].value = nondet_uptr(); gh_owner[i] = OW_FREE; gh_rank[i] = (unsigned char)i; gh_pred[i] = (unsigned char)(i - 1); }   /* prophecy: initialize_block chains them in index order */
  } else {
    local_thread_data.control_block = &the_cb;
    for (unsigned i = 0; i < XV_K; i++) {       /* arbitrary subset held, arbitrary chain order through the free ones */
      if (i == in_a_idx) gh_owner[i] = OW_A; else if (i == in_b_idx) gh_owner[i] = OW_B; else gh_owner[i] = nondet_bool() ? OW_FREE : OW_OTHER;
      gh_rank[i] = nondet_uchar(); gh_pred[i] = nondet_uchar();
    }
    XV_ASSUME(head <= XV_K); if (head < XV_K) XV_ASSUME(gh_owner[CL(head)] == OW_FREE && gh_rank[CL(head)] == 0);
    local_thread_data.hint = head < XV_K ? SLOT(CL(head)) : 0;
    for (unsigned i = 0; i < XV_K; i++) {
      if (gh_owner[i] == OW_FREE) {
        unsigned nx = nondet_uint(), p = gh_pred[i]; in_nfree++;
        XV_ASSUME(head < XV_K && gh_rank[i] < XV_K && nx <= XV_K);
        if (nx < XV_K) XV_ASSUME(gh_owner[CL(nx)] == OW_FREE && gh_rank[CL(nx)] == gh_rank[i] + 1 && gh_pred[CL(nx)] == i);
        if (i != head) XV_ASSUME(p < XV_K && gh_owner[CL(p)] == OW_FREE && gh_rank[CL(p)] + 1 == gh_rank[i]);
        SLOT(i)->value = (nx < XV_K ? SLOTW(CL(nx)) : 0) | SV_BIT;
      } else {
        uintptr_t o = nondet_uptr(); XV_ASSUME((o >> 48) == 0 && (gh_owner[i] != OW_OTHER || o != 0)); SLOT(i)->value = o; gh_rank[i] = 15;
      }
    }
    for (unsigned i = 0; i < XV_K; i++) if (gh_owner[i] == OW_FREE && i != head) XV_ASSUME(SV_get(SLOT(CL(gh_pred[i]))->value) == SLOTW(i));
  }
  pre_head = head;
  for (unsigned i = 0; i < XV_K; i++) ranks |= (uint64_t)(gh_rank[i] & 15) << (4 * i);
  in_ranks = ranks;
  gA.ptr = in_a_ptr; gA.hp = in_a_idx < XV_K ? SLOT(CL(in_a_idx)) : 0;
  gB.ptr = in_b_ptr; gB.hp = in_b_idx < XV_K ? SLOT(CL(in_b_idx)) : 0;
  if (!with_a) gA.ptr = 0;
  if (!with_b) gB.ptr = 0;
  XV_ASSUME(gi_ok(&gA) && gi_ok(&gB));
  for (unsigned i = 0; i < XV_K; i++) { pre_val[i] = SLOT(i)->value; pre_owner[i] = gh_owner[i]; pre_rank[i] = gh_rank[i]; pre_pred[i] = gh_pred[i]; }
  pre_hint = local_thread_data.hint; pre_cb = local_thread_data.control_block; a0 = gA; b0 = gB;
  gh_acquire_entry_calls = 0; gh_set_deleter_calls = 0; gh_retire_calls = 0; gh_scan_calls = 0;
  gh_retired_count = nondet_size(); gh_threshold = nondet_size(); gh_deleter = nondet_uptr(); gh_deleter_obj = nondet_uptr(); gh_retired_obj = nondet_uptr();
  mon_reset();
  XV_MODEL_ASSERT("builder establishes Inv_K", inv_ok(&gA, &gB, 0));
}
#define NFREE_PRE (in_nfree)

/* ---------------- loop cut of acquire's retry loop ---------------- */
mptr* acq_src; _Bool env_on;
_Bool acq_captured; mptr acq_p2_entry; struct hp_slot* acq_hp_entry;
static _Bool acq_capture(struct guard* self, mptr p2) {      /* old() values for the loop invariant: captured at its first evaluation (the base case) */
  if (!acq_captured) { acq_captured = 1; acq_p2_entry = p2; acq_hp_entry = self->hp; } return 1; }
static _Bool acq_loop_inv(struct guard* self, mptr p2, int order) {
  if (self != &gA || self->ptr != a0.ptr || p2 != mon_ld_val || !CANON(p2)) return 0;
  if (mon_ld_clock > xv_clock || mon_ld_count < 1 || (mon_ld_count >= 2 && mon_ld_order != order) || mon_weak_fence != 0) return 0;
  for (unsigned i = 0; i < XV_K; i++) {
    if (mon_st_count[i] && !XV_IS_RELEASE(mon_st_order[i])) return 0;
    if (SLOT(i) != self->hp && !in_uninit && (mon_st_count[i] != 0 || SLOT(i)->value != pre_val[i])) return 0;   /* frame: only the own slot is written */
  }
  /* the slot handle is loop-invariant; before the first iteration the state is the entry state (old()), afterwards set_object has used the handle */
  if (self->hp != acq_hp_entry || (mon_ld_count == 1 ? p2 != acq_p2_entry : self->hp == 0)) return 0;
  if (!(self->hp == a0.hp || (a0.hp == 0 && self->hp == pre_hint && pre_hint != 0) || (a0.hp == 0 && pre_cb == 0 && self->hp == SLOT(0)))) return 0;
  return derive_owner(&gA, &gB) && inv_ok(&gA, &gB, 1);
}
#ifdef XV_INT
#define XV_HAVOC_SRC *acq_src = nondet_uptr()      /* rewritten by xv_env() before the next access anyway */
#define SRC_STABLE 1
#else
#define XV_HAVOC_SRC ((void)0)                     /* no interference: nobody writes the source */
#define SRC_STABLE (*acq_src == in_src && mon_ld_val == in_src)
#endif
#define XV_INV_ACQ (acq_capture(self, p2) && !xv_threw && SRC_STABLE && acq_loop_inv(self, p2, order))
#define XV_HAVOC_ACQ p1 = nondet_uptr(); p2 = nondet_uptr(); self->ptr = nondet_uptr(); /* pinned again by the invariant */ \
  xv_clock = nondet_u64(); XV_HAVOC_SRC; \
  mon_ld_clock = nondet_u64(); mon_ld_val = nondet_uptr(); mon_ld_order = nondet_int(); mon_ld_count = nondet_uint(); \
  { unsigned hv = slot_index(self->hp); if (hv < XV_K) { /* the loop body writes only the guard's own slot (set_object) */ \
      the_cb.pointers[hv].value = nondet_uptr(); mon_st_clock[hv] = nondet_u64(); mon_fence_clock[hv] = nondet_u64(); \
      mon_st_val[hv] = nondet_uptr(); mon_st_order[hv] = nondet_int(); mon_st_count[hv] = nondet_uint(); mon_fenced[hv] = nondet_bool(); XV_ASSUME(mon_st_count[hv] < (1u << 30)); } } \
  XV_ASSUME(xv_clock < ((uint64_t)1 << 62) && mon_ld_count < (1u << 30))   /* model artifact: the event clock and the event counters of the monitors do not wrap */

#ifdef XV_INT
void xv_env(void) { if (env_on) { mptr v = nondet_uptr(); XV_ASSUME(CANON(v)); *acq_src = v; } }   /* rely: other threads store anything into the source cell */
#endif

#include "lowered.h"

/* =================================================== harnesses =================================================== */
#define THREW_BAD_ALLOC (xv_threw == XV_EXC_bad_hazard_pointer_alloc)
#if XV_K >= 2
#define XV_CANARY2(n) XV_CANARY(n)      /* situations that need two held slots */
#else
#define XV_CANARY2(n) ((void)0)
#endif

/* ---- slot word: set_object / try_get_object / set_link / get_link / is_link ---- */
void h_slot(void) {
  unsigned j = nondet_uint(), m = nondet_uint(); XV_ASSUME(j < XV_K && m <= XV_K);
  for (unsigned i = 0; i < XV_K; i++) { SLOT(i)->value = nondet_uptr(); pre_val[i] = SLOT(i)->value; }
  xv_clock = nondet_u64(); XV_ASSUME(xv_clock < ((uint64_t)1 << 62)); xv_threw = 0; mon_reset();
  xv_base = XV_BASE;
  uintptr_t res0 = nondet_uptr(), res = res0;
  if (nondet_bool()) {
    uintptr_t obj = nondet_uptr(); XV_ASSUME((obj >> 48) == 0);
    hp_set_object(SLOT(j), obj);
    XV_OBL("hp.slot.roundtrip", !hp_is_link(SLOT(j)) && hp_try_get_object(SLOT(j), &res) && res == obj);
    XV_OBL("hp.slot.roundtrip", slots_unchanged_except(SLOT(j)) && !xv_threw);
    XV_OBL("hp.sync.orders", mon_st_count[j] == 1 && mon_st_val[j] == obj && XV_IS_RELEASE(mon_st_order[j]));
    XV_OBL("hp.sync.orders", mon_fenced[j] && mon_fence_clock[j] > mon_st_clock[j] && mon_weak_fence == 0);
    XV_CANARY("slot.object");
  } else {
    struct hp_slot* l = m < XV_K ? SLOT(m) : 0;
    hp_set_link(SLOT(j), l);
    XV_OBL("hp.slot.roundtrip", hp_is_link(SLOT(j)) && hp_get_link(SLOT(j)) == l);
    XV_OBL("hp.slot.roundtrip", !hp_try_get_object(SLOT(j), &res) && res == res0);
    XV_OBL("hp.slot.roundtrip", slots_unchanged_except(SLOT(j)) && !xv_threw);
    XV_OBL("hp.sync.orders", mon_st_count[j] == 1 && XV_IS_RELEASE(mon_st_order[j]));
    if (l) XV_CANARY("slot.link"); else XV_CANARY("slot.link_null");
  }
}

/* ---- initialize_block from arbitrary contents; K successive allocations of a new thread; the K+1st throws ---- */
void h_init(void) {
  build_state(0, 0); XV_ASSUME(in_uninit);
  if (nondet_bool()) {
    struct hp_slot* b = cb_initialize_block(&the_cb);
    local_thread_data.control_block = &the_cb; local_thread_data.hint = b;
    XV_OBL("hp.initialize.all_free", b == SLOT(0) && derive_owner(&gA, &gB) && inv_ok(&gA, &gB, 0) && free_count() == XV_K);
    for (unsigned i = 0; i < XV_K; i++)
      XV_OBL("hp.initialize.all_free", SLOT(i)->value == (((i + 1 < XV_K) ? SLOTW(i + 1) : 0) | SV_BIT));
    XV_CANARY("init.block");
  } else {
    size_t act0 = xv_number_of_active_hps;
    struct hp_slot* r[XV_K + 1];
    for (unsigned n = 0; n < XV_K; n++) {
      r[n] = td_alloc_hazard_pointer(&local_thread_data);
      XV_OBL("hp.alloc.k_available", !xv_threw && r[n] != 0 && slot_index(r[n]) < XV_K);
      for (unsigned l = 0; l < n; l++) XV_OBL("hp.alloc.k_available", r[l] != r[n]);
    }
    XV_OBL("hp.alloc.k_available", local_thread_data.hint == 0 && gh_acquire_entry_calls == 1 && xv_number_of_active_hps == act0 + XV_K);
    XV_CANARY("init.k_allocs");
    r[XV_K] = td_alloc_hazard_pointer(&local_thread_data);
    XV_OBL("hp.alloc.exhausted_throws", THREW_BAD_ALLOC && local_thread_data.hint == 0 && gh_acquire_entry_calls == 1);
  }
}

/* ---- thread_data::alloc_hazard_pointer / release_hazard_pointer from an arbitrary Inv_K state ---- */
void h_alloc(void) {
  build_state(1, 0); in_op = nondet_uint();
  if (in_op == 0) {
    XV_ASSUME(a0.hp == 0 && a0.ptr == 0);
    struct hp_slot* r = td_alloc_hazard_pointer(&local_thread_data);
    if (in_uninit || pre_hint != 0) {
      XV_OBL("hp.alloc.k_available", !xv_threw && r != 0 && slot_index(r) < XV_K);
      if (!in_uninit) {
        XV_OBL("hp.alloc.k_available", r == pre_hint && slots_unchanged_except(0) && gh_acquire_entry_calls == 0);
        XV_OBL("hp.alloc.k_available", local_thread_data.hint == xv_w2p(SV_get(pre_val[CL(slot_index(r))])));
        XV_CANARY("alloc.from_chain");
        if (SV_get(pre_val[CL(slot_index(r))]) != 0 && word_index(SV_get(pre_val[CL(slot_index(r))])) < slot_index(r)) XV_CANARY2("alloc.chain_not_in_index_order");   /* the builder really permutes */
      } else {
        XV_OBL("hp.alloc.k_available", r == SLOT(0) && gh_acquire_entry_calls == 1 && local_thread_data.control_block == &the_cb);
        XV_CANARY("alloc.first_of_thread");
      }
      uintptr_t obj = nondet_uptr(); XV_ASSUME((obj >> 48) == 0 && MP_get(obj) == obj);
      gA.hp = r; gA.ptr = obj; hp_set_object(r, obj);       /* what every caller does next */
      XV_OBL("hp.guard_ops.preserve_inv", derive_owner(&gA, &gB) && inv_ok(&gA, &gB, 0) && owners_unchanged_except(r));
    } else {
      XV_OBL("hp.alloc.exhausted_throws", THREW_BAD_ALLOC && r == 0 && slots_unchanged());
      XV_OBL("hp.guard_ops.preserve_inv", derive_owner(&gA, &gB) && inv_ok(&gA, &gB, 0));
      XV_CANARY("alloc.exhausted");
    }
  } else {
    td_release_hazard_pointer(&local_thread_data, &gA.hp);
    if (a0.hp != 0) {
      XV_OBL("hp.release.returns_slot", gA.hp == 0 && local_thread_data.hint == a0.hp && a0.hp->value == (xv_p2w(pre_hint) | SV_BIT));
      XV_OBL("hp.release.returns_slot", slots_unchanged_except(a0.hp) && !xv_threw && local_thread_data.control_block == pre_cb);
      gA.ptr = 0;
      XV_OBL("hp.release.returns_slot", derive_owner(&gA, &gB) && inv_ok(&gA, &gB, 0) && owners_unchanged_except(a0.hp) && gh_owner[CL(slot_index(a0.hp))] == OW_FREE);
      XV_CANARY("release.held");
    } else {
      XV_OBL("hp.release.returns_slot", gA.hp == 0 && slots_unchanged() && !xv_threw);
      if (in_uninit) XV_CANARY("release.null_uninit"); else XV_CANARY("release.null");
    }
  }
}

/* ---- all guard_ptr operations (no interference) from an arbitrary Inv_K state with two guards A, B and any number of other guards ---- */
enum { OP_CTOR, OP_COPY_CTOR, OP_MOVE_CTOR, OP_COPY_ASSIGN, OP_COPY_ASSIGN_SELF, OP_MOVE_ASSIGN, OP_MOVE_ASSIGN_SELF, OP_RESET, OP_RESET_TWICE,
       OP_SWAP, OP_SWAP_SELF, OP_RECLAIM, OP_DTOR, OP_COUNT };
static _Bool returned_to_chain(const struct hp_slot* s) {      /* s was released: head of the chain, linked to the old head */
  return local_thread_data.hint == s && s->value == (xv_p2w(pre_hint) | SV_BIT) && slots_unchanged_except(s);
}
void h_gops(void) {
  build_state(1, 1); in_harness = 1; in_op = nondet_uint(); in_val = nondet_uptr(); XV_ASSUME(in_op < OP_COUNT && CANON(in_val));
  _Bool fresh_a = in_op <= OP_MOVE_CTOR;                       /* constructors: A is raw storage */
  if (fresh_a) { XV_ASSUME(in_a_idx == XV_K); gA.ptr = nondet_uptr(); unsigned g = nondet_uint(); gA.hp = g < XV_K ? SLOT(g) : 0; a0.ptr = 0; a0.hp = 0; }
  _Bool pre_gi2 = gi2_ok(&a0) && gi2_ok(&b0);
  _Bool avail = in_uninit || pre_hint != 0;
  _Bool needs_slot = 0; struct guard* ret = &gA; uintptr_t d = nondet_uptr();
  struct hp_slot* head = in_uninit ? SLOT(0) : pre_hint;       /* the slot the next allocation must deliver */
  switch (in_op) {
    case OP_CTOR: needs_slot = MP_get(in_val) != 0; g_ctor(&gA, in_val); break;
    case OP_COPY_CTOR: needs_slot = MP_get(b0.ptr) != 0; g_copy_ctor(&gA, &gB); break;
    case OP_MOVE_CTOR: g_move_ctor(&gA, &gB); break;
    case OP_COPY_ASSIGN: needs_slot = MP_get(b0.ptr) != 0 && a0.hp == 0; ret = g_copy_assign(&gA, &gB); break;
    case OP_COPY_ASSIGN_SELF: ret = g_copy_assign(&gA, &gA); break;
    case OP_MOVE_ASSIGN: ret = g_move_assign(&gA, &gB); break;
    case OP_MOVE_ASSIGN_SELF: ret = g_move_assign(&gA, &gA); break;
    case OP_RESET: case OP_RESET_TWICE: g_reset(&gA); break;
    case OP_SWAP: g_swap(&gA, &gB); break;
    case OP_SWAP_SELF: g_swap(&gA, &gA); break;
    case OP_RECLAIM: XV_ASSUME(MP_get(a0.ptr) != 0); g_reclaim(&gA, d); break;
    default: g_dtor(&gA); break;
  }
  _Bool threw = xv_threw != 0;
  if (threw && fresh_a) g_dtor(&gA);          /* a throwing constructor: the base sub-object is destroyed (detail::guard_ptr::~guard_ptr -> reset) */
  /* ---- generic: Inv_K, GI, frame, exceptions ---- */
  XV_OBL("hp.guard_ops.preserve_inv", derive_owner(&gA, &gB) && inv_ok(&gA, &gB, 0));
  if (pre_gi2) XV_OBL("hp.guard_ops.empty_holds_no_slot", gi2_ok(&gA) && gi2_ok(&gB));
  if (threw) {
    XV_OBL("hp.alloc.exhausted_throws", THREW_BAD_ALLOC && slots_unchanged() && same_guard(&gB, &b0) && same_guard(&gA, &a0));
    XV_OBL("hp.alloc.k_available", needs_slot && !avail);
    if (in_op == OP_CTOR) XV_CANARY("gops.ctor_throw");
    if (in_op == OP_COPY_CTOR) XV_CANARY("gops.copy_ctor_throw");
    if (in_op == OP_COPY_ASSIGN) XV_CANARY("gops.copy_assign_throw");
    return;
  }
  XV_OBL("hp.alloc.exhausted_throws", !(needs_slot && !avail));
  switch (in_op) {
    case OP_CTOR: case OP_COPY_CTOR: {
      mptr v = in_op == OP_CTOR ? in_val : b0.ptr;
      XV_OBL("hp.ctor.protects", gA.ptr == v && same_guard(&gB, &b0));
      if (MP_get(v) != 0) { XV_OBL("hp.alloc.k_available", gA.hp == head && (in_uninit || slots_unchanged_except(gA.hp)) && gA.hp->value == MP_get(v));
        if (in_op == OP_CTOR) XV_CANARY("gops.ctor_protect"); }
      else { XV_OBL("hp.ctor.protects", gA.hp == 0 && slots_unchanged()); if (in_op == OP_CTOR) XV_CANARY("gops.ctor_null"); }
      if (in_op == OP_COPY_CTOR) {
        XV_OBL("hp.copy.shares", gA.ptr == gB.ptr && (MP_get(v) == 0 || (gA.hp != gB.hp && gA.hp->value == gB.hp->value && gB.hp->value == pre_val[CL(slot_index(gB.hp))])));
        if (MP_get(v) != 0) XV_CANARY2("gops.copy_ctor_protect"); else XV_CANARY("gops.copy_ctor_empty");
      }
      break; }
    case OP_MOVE_CTOR:
      XV_OBL("hp.move.empties_source", same_guard(&gA, &b0) && gB.ptr == 0 && gB.hp == 0 && slots_unchanged());
      if (b0.hp) XV_CANARY("gops.move_ctor_held"); else XV_CANARY("gops.move_ctor_empty");
      break;
    case OP_COPY_ASSIGN:
      XV_OBL("hp.copy.shares", ret == &gA && gA.ptr == b0.ptr && same_guard(&gB, &b0) && (b0.hp == 0 || b0.hp->value == pre_val[CL(slot_index(b0.hp))]));
      XV_OBL("hp.copy.shares", MP_get(b0.ptr) == 0 || (gA.hp != 0 && gA.hp != gB.hp && gA.hp->value == gB.hp->value));
      if (a0.hp == 0 && gA.hp != 0) XV_OBL("hp.alloc.k_available", gA.hp == head);
      if (MP_get(b0.ptr) != 0 && a0.hp != 0) XV_CANARY2("gops.copy_assign_reuse");
      if (MP_get(b0.ptr) != 0 && a0.hp == 0) XV_CANARY2("gops.copy_assign_alloc");
      if (MP_get(b0.ptr) == 0 && a0.hp != 0) XV_CANARY("gops.copy_assign_from_empty");
      if (MP_get(b0.ptr) == 0 && a0.hp == 0) XV_CANARY("gops.copy_assign_both_empty");
      break;
    case OP_COPY_ASSIGN_SELF: case OP_MOVE_ASSIGN_SELF:
      XV_OBL("hp.self_assign.noop", ret == &gA && same_guard(&gA, &a0) && same_guard(&gB, &b0) && slots_unchanged());
      if (a0.hp) { if (in_op == OP_COPY_ASSIGN_SELF) XV_CANARY("gops.self_copy"); else XV_CANARY("gops.self_move"); }
      break;
    case OP_MOVE_ASSIGN:
      XV_OBL("hp.move.empties_source", ret == &gA && same_guard(&gA, &b0) && gB.ptr == 0 && gB.hp == 0);
      if (a0.hp) { XV_OBL("hp.release.returns_slot", returned_to_chain(a0.hp)); XV_CANARY("gops.move_assign_releases"); }
      else { XV_OBL("hp.release.returns_slot", slots_unchanged()); XV_CANARY("gops.move_assign_plain"); }
      break;
    case OP_RESET: case OP_DTOR: case OP_RESET_TWICE:
      XV_OBL("hp.reset.releases", gA.ptr == 0 && gA.hp == 0 && same_guard(&gB, &b0));
      if (a0.hp) { XV_OBL("hp.release.returns_slot", returned_to_chain(a0.hp)); if (in_op == OP_RESET) XV_CANARY("gops.reset_held"); if (in_op == OP_DTOR) XV_CANARY("gops.dtor_held"); }
      else { XV_OBL("hp.release.returns_slot", slots_unchanged()); if (in_op == OP_RESET) XV_CANARY("gops.reset_empty"); }
      if (in_op == OP_RESET_TWICE) {
        uintptr_t v1[XV_K]; for (unsigned i = 0; i < XV_K; i++) v1[i] = SLOT(i)->value;
        struct hp_slot* h1 = local_thread_data.hint; struct cb* c1 = local_thread_data.control_block;
        g_reset(&gA);
        _Bool same = local_thread_data.hint == h1 && local_thread_data.control_block == c1 && gA.ptr == 0 && gA.hp == 0 && same_guard(&gB, &b0) && !xv_threw;
        for (unsigned i = 0; i < XV_K; i++) if (SLOT(i)->value != v1[i]) same = 0;
        XV_OBL("hp.reset.idempotent", same);
        if (a0.hp) XV_CANARY("gops.reset_twice");
      }
      break;
    case OP_SWAP:
      XV_OBL("hp.swap.exchanges", same_guard(&gA, &b0) && same_guard(&gB, &a0) && slots_unchanged());
      if (a0.hp && b0.hp) XV_CANARY2("gops.swap_both"); if (a0.hp && !b0.hp) XV_CANARY("gops.swap_one");
      break;
    case OP_SWAP_SELF:
      XV_OBL("hp.swap.exchanges", same_guard(&gA, &a0) && same_guard(&gB, &b0) && slots_unchanged());
      break;
    case OP_RECLAIM:
      XV_OBL("hp.reclaim.retires_and_resets", gA.ptr == 0 && gA.hp == 0 && same_guard(&gB, &b0) && returned_to_chain(a0.hp));
      XV_OBL("hp.reclaim.retires_and_resets", gh_retire_calls == 1 && gh_retired_obj == MP_get(a0.ptr) && gh_set_deleter_calls == 1 && gh_deleter_obj == MP_get(a0.ptr) && gh_deleter == d);
      XV_OBL("hp.reclaim.retires_and_resets", gh_scan_calls == (gh_retired_count >= gh_threshold ? 1u : 0u));
      if (gh_scan_calls) XV_CANARY("gops.reclaim_scan"); else XV_CANARY("gops.reclaim");
      break;
  }
}

/* ---- acquire / acquire_if_equal.  INT: other threads rewrite the source cell between any two atomic accesses; retry loop cut by XV_INV_ACQ ---- */
static _Bool validated(const struct guard* g) {     /* store(slot,obj) < seq_cst fence < the load of the source that returned the result; no later store to the slot */
  unsigned i = slot_index(g->hp); if (i >= XV_K) return 0;
  return mon_st_count[i] >= 1 && mon_st_val[i] == MP_get(g->ptr) && mon_fenced[i] && mon_st_clock[i] < mon_fence_clock[i]
      && mon_fence_clock[i] < mon_ld_clock && mon_ld_val == g->ptr && g->hp->value == MP_get(g->ptr);
}
void h_acq(void) {
  build_state(1, 1); in_harness = 2; in_op = nondet_uint(); in_expected = nondet_uptr(); in_src = nondet_uptr(); in_order = nondet_int();
  XV_ASSUME(in_op < 2 && CANON(in_expected) && CANON(in_src) && in_order >= mo_relaxed && in_order <= mo_seq_cst);
  mptr src = in_src; acq_src = &src; mon_src = &src;
  _Bool pre_gi2 = gi2_ok(&a0) && gi2_ok(&b0), avail = in_uninit || pre_hint != 0, r = 0;
  env_on = 1; acq_captured = 0;
  if (in_op == 0) g_acquire(&gA, &src, in_order); else r = g_acquire_if_equal(&gA, &src, in_expected, in_order);
  env_on = 0;
  XV_OBL("hp.guard_ops.preserve_inv", derive_owner(&gA, &gB) && inv_ok(&gA, &gB, 0) && same_guard(&gB, &b0));
  if (pre_gi2) XV_OBL("hp.guard_ops.empty_holds_no_slot", gi2_ok(&gA));
  for (unsigned i = 0; i < XV_K; i++) if (mon_st_count[i]) XV_OBL("hp.sync.orders", XV_IS_RELEASE(mon_st_order[i]) && mon_weak_fence == 0);
  if (xv_threw) {
    XV_OBL("hp.alloc.exhausted_throws", THREW_BAD_ALLOC && slots_unchanged() && same_guard(&gA, &a0));
    XV_OBL("hp.alloc.k_available", a0.hp == 0 && !avail && mon_ld_count == 1 && MP_get(mon_ld_val) != 0);
    if (in_op == 0) XV_CANARY("acq.throw"); else XV_CANARY("aie.throw");
    return;
  }
  unsigned ai = slot_index(gA.hp);
  if (in_op == 0) {
    XV_OBL("hp.acquire.snapshot", mon_ld_count >= 1 && gA.ptr == mon_ld_val);
    if (MP_get(gA.ptr) != 0) {
      _Bool kept = ai < XV_K && mon_st_count[ai] == 0 && same_guard(&gA, &a0) && mon_ld_count == 1;   /* the source still holds what the guard already protects */
      XV_OBL("hp.acquire.validated", kept || validated(&gA));
      if (kept) XV_CANARY("acq.kept"); else XV_CANARY("acq.protect_new");
    } else if (gA.ptr != 0) XV_CANARY("acq.marked_null"); else XV_CANARY("acq.null");
    if (mon_ld_count >= 2) XV_OBL("hp.sync.orders", mon_ld_order == in_order);
#ifndef XV_INT
    XV_OBL("hp.acquire.snapshot", gA.ptr == in_src && src == in_src);
#endif
  } else {
    XV_OBL("hp.acquire_if_equal.iff", mon_ld_count >= 1 && r == (mon_ld_val == in_expected));
    XV_OBL("hp.acquire_if_equal.iff", r ? gA.ptr == in_expected : (gA.ptr == 0 && gA.hp == 0));
    if (r && MP_get(gA.ptr) != 0) { XV_OBL("hp.acquire.validated", validated(&gA)); XV_OBL("hp.sync.orders", mon_ld_count == 2 && mon_ld_order == in_order); XV_CANARY("aie.true"); }
    if (r && gA.ptr == 0) XV_CANARY("aie.true_null");
    if (!r && mon_ld_count == 1) XV_CANARY("aie.false_first");
#ifdef XV_INT
    if (!r && mon_ld_count == 2) { if (a0.hp) XV_CANARY("aie.false_changed"); else XV_CANARY("aie.false_changed_released"); }
    if (!r && mon_ld_count == 2 && MP_get(mon_ld_val) == MP_get(in_expected) && MP_get(in_expected) != 0) XV_CANARY("aie.false_mark_only_changed");   /* (A,0) -> (A,1): a logical delete by another thread */
#else
    XV_OBL("hp.acquire_if_equal.iff", r == (in_src == in_expected) && src == in_src);
#endif
  }
}

/* ---- dynamic strategy: initialize on an ARBITRARY left-over record (adopted control block with up to XV_NB old blocks), then allocations ---- */
#ifdef XV_DYN
#define XV_NMAX (XV_K + XV_NB * XV_BS)
unsigned in_nb; unsigned in_sz[XV_NB];
void h_dyn(void) {
  in_nb = nondet_uint(); XV_ASSUME(in_nb <= XV_NB);
  xv_base = XV_BASE; xv_threw = 0; xv_clock = 0; mp_ptrmask = nondet_uptr(); gh_new_calls = 0;
  unsigned E[XV_NMAX + 1], N = 0; size_t total = XV_K;
  for (unsigned i = 0; i < XV_K; i++) E[N++] = i;
  for (unsigned b = 0; b < XV_NB; b++) {
    in_sz[b] = nondet_uint(); XV_ASSUME(in_sz[b] >= 1 && in_sz[b] <= XV_BS);
    dyn_blk[b].h.size = in_sz[b]; dyn_blk[b].h.next = (b + 1 < in_nb) ? &dyn_blk[b + 1].h : 0;
    if (b < in_nb) { total += in_sz[b]; for (unsigned j = 0; j < XV_BS; j++) if (j < in_sz[b]) E[N++] = XV_K + b * XV_BNEW + j; }
  }
  for (unsigned n = 0; n < XV_NALL; n++) ALLSLOT(n)->value = nondet_uptr();        /* stale links, stale object values, anything */
  uintptr_t old[XV_NALL];
  the_dcb.hp_block = in_nb ? &dyn_blk[0].h : 0; the_dcb.total_number_of_hps = total;
  dyn_blk[XV_NB].h.next = (struct hpblock_hdr*)0; dyn_blk[XV_NB].h.size = nondet_size();
  struct hp_slot* hint = 0; size_t act0 = nondet_size(); xv_number_of_active_hps = act0;
  dcb_initialize(&the_dcb, &hint);
  XV_OBL("hp.dynamic.initialize.relinks_all", hint == ALLSLOT(0) && !xv_threw && xv_number_of_active_hps == act0 + total);
  for (unsigned m = 0; m < XV_NMAX; m++) if (m < N)       /* the chain visits every slot of the in-object array and of every block exactly once, then null */
    XV_OBL("hp.dynamic.initialize.relinks_all", ALLSLOT(E[m])->value == ((m + 1 < N ? SLOTW(E[m + 1]) : 0) | SV_BIT));
  if (in_nb == XV_NB) XV_CANARY("dyn.init_max_blocks"); if (in_nb == 0) XV_CANARY("dyn.init_no_block");
  struct hp_slot* r[XV_NMAX + 1];
  for (unsigned m = 0; m < XV_NMAX; m++) if (m < N) {     /* N successive allocations: pairwise distinct slots, no new block */
    r[m] = dcb_alloc_hazard_pointer(&the_dcb, &hint);
    XV_OBL("hp.dynamic.alloc.distinct", !xv_threw && r[m] == ALLSLOT(E[m]) && gh_new_calls == 0);
    for (unsigned l = 0; l < m; l++) XV_OBL("hp.dynamic.alloc.distinct", r[l] != r[m]);
    hp_set_object(r[m], 0x1000 + 16 * m);
  }
  XV_OBL("hp.dynamic.alloc.distinct", hint == 0);
  for (unsigned n = 0; n < XV_NALL; n++) old[n] = ALLSLOT(n)->value;
  struct hpblock_hdr* old_head = the_dcb.hp_block;
  struct hp_slot* x = dcb_alloc_hazard_pointer(&the_dcb, &hint);         /* all slots held: the dynamic strategy grows instead of throwing */
  size_t hps = XV_K > total / 2 ? XV_K : total / 2;
  XV_OBL("hp.dynamic.need_more.never_throws", !xv_threw && gh_new_calls == 1 && gh_new_bytes == sizeof(struct hpblock_hdr) + hps * sizeof(struct hp_slot));
  XV_OBL("hp.dynamic.need_more.never_throws", x == &dyn_blk[XV_NB].slots[0] && the_dcb.hp_block == &dyn_blk[XV_NB].h && dyn_blk[XV_NB].h.next == old_head
         && dyn_blk[XV_NB].h.size == hps && the_dcb.total_number_of_hps == total + hps && xv_number_of_active_hps == act0 + total + hps);
  for (unsigned n = 0; n < XV_K + XV_NB * XV_BNEW; n++) XV_OBL("hp.dynamic.need_more.never_throws", ALLSLOT(n)->value == old[n]);       /* old slots untouched */
  for (unsigned j = 0; j < XV_BNEW; j++) if (j < hps)
    XV_OBL("hp.dynamic.need_more.never_throws", dyn_blk[XV_NB].slots[j].value == ((j + 1 < hps ? SLOTW(XV_K + XV_NB * XV_BNEW + j + 1) : 0) | SV_BIT));
  XV_OBL("hp.dynamic.need_more.never_throws", hint == (hps > 1 ? &dyn_blk[XV_NB].slots[1] : 0));
  XV_OBL("hp.sync.orders", XV_IS_RELEASE(mon_blk_order));       /* the initialised block is published to scanning threads by a release store (7) */
  if (hps > XV_K) XV_CANARY("dyn.grow_half"); else XV_CANARY("dyn.grow_k");
}
#endif
