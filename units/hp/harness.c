#define XV_HAVOC_ACQ p1 = 0; p2 = 0
