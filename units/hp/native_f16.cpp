// F16: a hazard_pointer guard_ptr that protects nothing can occupy a hazard slot.
//  (a) operator=(const guard_ptr&) allocates a slot although the source guard is empty;
//  (b) acquire / acquire_if_equal on a source holding (nullptr, mark != 0) allocate a slot and keep it.
// With static_strategy<K> the thread then cannot hold K protecting guards: acquiring throws bad_hazard_pointer_alloc
// although fewer than K (here: zero) guards protect anything.   exit 0 = property holds, 1 = violated
// build: g++ -std=c++17 -fno-access-control -I /repo native_f16.cpp -pthread
#include <xenium/reclamation/hazard_pointer.hpp>
#include <cstdio>
using R = xenium::reclamation::hazard_pointer<>::with<xenium::policy::allocation_strategy<xenium::reclamation::hp_allocation::static_strategy<1>>>;
struct N : R::enable_concurrent_ptr<N, 1> {};
using cp = R::concurrent_ptr<N, 1>; using gp = cp::guard_ptr; using mp = cp::marked_ptr;
int main() {
  int bad = 0;
  N* n = new N; cp p(n);
  { // (a) copy assignment from an empty guard
    gp a, b;
    a = b;
    if (a.get() == nullptr && a.hp != nullptr) { printf("(a) a = b with both empty: a protects nothing but holds a slot\n"); bad++; }
    gp c;
    try { c.acquire(p); } catch (const xenium::reclamation::bad_hazard_pointer_alloc& e) { printf("(a) K=1, zero protecting guards, acquire threw: %s\n", e.what()); bad++; }
  }
  { // (a') copy assignment empty -> empty when the K slots are legitimately in use must not need a slot
    gp c; c.acquire(p); gp a, b;
    try { a = b; } catch (const xenium::reclamation::bad_hazard_pointer_alloc& e) { printf("(a') a = b with both empty threw: %s\n", e.what()); bad++; }
  }
  { // (b) acquire of a marked null pointer
    cp q(mp(nullptr, 1)); gp g;
    g.acquire(q);
    if (g.get() == nullptr && g.hp != nullptr) { printf("(b) acquire of (nullptr,1): guard protects nothing but holds a slot\n"); bad++; }
    gp c;
    try { c.acquire(p); } catch (const xenium::reclamation::bad_hazard_pointer_alloc& e) { printf("(b) K=1, zero protecting guards, acquire threw: %s\n", e.what()); bad++; }
  }
  { // (b') acquire_if_equal of a marked null pointer
    cp q(mp(nullptr, 1)); gp g;
    bool r = g.acquire_if_equal(q, mp(nullptr, 1));
    if (r && g.get() == nullptr && g.hp != nullptr) { printf("(b') acquire_if_equal of (nullptr,1): guard protects nothing but holds a slot\n"); bad++; }
  }
  { // (b'') with the slot legitimately in use, taking a snapshot of a marked null pointer must not need a slot
    cp q(mp(nullptr, 1)); gp c; c.acquire(p); gp g;
    try { g.acquire(q); } catch (const xenium::reclamation::bad_hazard_pointer_alloc& e) { printf("(b'') acquire of (nullptr,1) threw: %s\n", e.what()); bad++; }
  }
  delete n;
  printf("%d violation(s)\n", bad);
  return bad ? 1 : 0;
}
