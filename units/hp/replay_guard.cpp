// native replay for the hp.* guard/slot obligations: builds the thread state cbmc found (chain order, which slots are held and by whom)
// on the REAL xenium::reclamation::hazard_pointer<static_strategy<K>> by real operations, runs the real guard_ptr operation and re-checks
// the representation invariant Inv_K, the guard invariants GI/GI2 and the operation's postcondition on the real internals.
// exit 0 = holds, 1 = violation reproduced, 2 = cannot represent
#include <xenium/reclamation/hazard_pointer.hpp>
#include <cstdio>
#include <cstdlib>
#include <cstring>
#include <map>
#include <string>
#include <vector>
#include <memory>
static std::map<std::string, unsigned long long> args;
static unsigned long long arg(const char* k, unsigned long long d = 0) { auto it = args.find(k); return it == args.end() ? d : it->second; }
enum { OP_CTOR, OP_COPY_CTOR, OP_MOVE_CTOR, OP_COPY_ASSIGN, OP_COPY_ASSIGN_SELF, OP_MOVE_ASSIGN, OP_MOVE_ASSIGN_SELF, OP_RESET, OP_RESET_TWICE,
       OP_SWAP, OP_SWAP_SELF, OP_RECLAIM, OP_DTOR, OP_COUNT, OP_ACQUIRE = 100, OP_ACQUIRE_IF_EQUAL = 101 };
static int bad = 0;
#define CHECK(c, ...) do { if (!(c)) { printf("VIOLATED: " __VA_ARGS__); printf("\n"); bad++; } } while (0)

template <size_t K> struct world {
  using R = xenium::reclamation::hazard_pointer<>::with<xenium::policy::allocation_strategy<xenium::reclamation::hp_allocation::static_strategy<K>>>;
  struct N : R::template enable_concurrent_ptr<N, 2> { int v = 0; };
  using cp = typename R::template concurrent_ptr<N, 2>; using gp = typename cp::guard_ptr; using mp = typename cp::marked_ptr;
  using slot = typename R::thread_control_block::hazard_pointer;
  static auto& td() { return R::local_thread_data; }
  static slot* slots() { return td().control_block ? &td().control_block->pointers[0] : nullptr; }
  static int idx(slot* s) { if (!s || !slots()) return -1; long d = s - slots(); return (d >= 0 && d < (long)K) ? (int)d : -2; }
  // Inv_K on the real structure: chain from hint is inside the block, duplicate-free, link-tagged, null-terminated; exactly the slots not named by a live guard are on it
  static bool inv(const std::vector<gp*>& live, const char* when) {
    int before = bad;
    if (!td().control_block) { CHECK(td().hint == nullptr, "%s: hint set without control block", when); for (auto g : live) CHECK(g->hp == nullptr, "%s: guard holds a slot without control block", when); return bad == before; }
    std::vector<int> on(K, 0), held(K, 0);
    slot* cur = td().hint; size_t steps = 0;
    while (cur) { int i = idx(cur); if (i < 0) { CHECK(false, "%s: chain leaves the block", when); break; } if (on[i]) { CHECK(false, "%s: slot %d twice on the chain", when, i); break; }
      on[i] = 1; if (!cur->is_link()) { CHECK(false, "%s: free slot %d has no link tag", when, i); break; } cur = cur->get_link(); if (++steps > K) { CHECK(false, "%s: chain longer than K", when); break; } }
    for (auto g : live) if (g->hp) { int i = idx(g->hp); if (i < 0) { CHECK(false, "%s: guard names a slot outside the block", when); continue; } CHECK(!held[i], "%s: slot %d held by two guards", when, i); held[i]++; }
    for (size_t i = 0; i < K; i++) { CHECK(on[i] != held[i], "%s: slot %zu is %s", when, i, on[i] ? "on the chain AND held" : "neither on the chain nor held by a live guard (leaked)");
      if (held[i]) CHECK(!slots()[i].is_link(), "%s: held slot %zu carries the link tag", when, i); }
    for (auto g : live) if (g->get() != nullptr) { xenium::reclamation::detail::deletable_object* o = nullptr;
      CHECK(g->hp != nullptr && g->hp->try_get_object(o) && o == (xenium::reclamation::detail::deletable_object*)(g->get()), "%s: GI: a guard's non-null pointer is not published in its slot", when); }
    return bad == before;
  }
  static int run() {
    const bool uninit = arg("in_uninit"); const unsigned a_idx = arg("in_a_idx", K), b_idx = arg("in_b_idx", K); unsigned op = arg("in_op");
    if (arg("in_harness") == 2) op += 100;
    const unsigned long long ranks = arg("in_ranks"), mask = arg("in_mask", ~0ull);
    auto nullp = [&](unsigned long long w) { return (w & mask) == 0; }; auto markof = [&](unsigned long long w) { return (w & ~mask) ? 1u : 0u; };
    std::vector<std::unique_ptr<N>> nodes; auto node = [&]() { nodes.emplace_back(new N); return nodes.back().get(); };
    std::vector<std::unique_ptr<gp>> g(K); gp A, B; std::vector<gp*> live;
    // ---- build the state by real operations ----
    if (!uninit) {
      for (size_t i = 0; i < K; i++) { unsigned long long w = i == a_idx ? arg("in_a_ptr") : i == b_idx ? arg("in_b_ptr") : 8; g[i].reset(new gp(mp(node(), (i == a_idx || i == b_idx) ? markof(w) : 0)));
        if (idx(g[i]->hp) != (int)i) { printf("cannot represent: fresh allocation order differs\n"); return 2; } }
      std::vector<int> by_rank(K, -1); unsigned nfree = 0;
      for (size_t i = 0; i < K; i++) { unsigned r = (ranks >> (4 * i)) & 15; if (i == a_idx || i == b_idx) { if (r != 15) return 2; continue; } if (r != 15) { if (r >= K || by_rank[r] >= 0) return 2; by_rank[r] = (int)i; nfree++; } }
      for (int r = (int)nfree - 1; r >= 0; r--) { if (by_rank[r] < 0) return 2; g[by_rank[r]]->reset(); }     // released last = head of the chain
      if (a_idx < K) { A = std::move(*g[a_idx]); if (nullp(arg("in_a_ptr"))) { gp e(mp(nullptr, markof(arg("in_a_ptr")))); A = e; if (A.hp == nullptr) { printf("cannot represent: an empty guard holding a slot\n"); return 2; } } }
      if (b_idx < K) { B = std::move(*g[b_idx]); if (nullp(arg("in_b_ptr"))) { gp e(mp(nullptr, markof(arg("in_b_ptr")))); B = e; if (B.hp == nullptr) { printf("cannot represent: an empty guard holding a slot\n"); return 2; } } }
    }
    if (a_idx >= K && !nullp(arg("in_a_ptr"))) return 2; if (b_idx >= K && !nullp(arg("in_b_ptr"))) return 2;
    if (a_idx >= K) A = gp(mp(nullptr, markof(arg("in_a_ptr")))); if (b_idx >= K) B = gp(mp(nullptr, markof(arg("in_b_ptr"))));
    for (auto& x : g) if (x && x->hp) live.push_back(x.get());
    const bool fresh_a = op <= OP_MOVE_CTOR;
    std::vector<gp*> pre_live = live; if (!fresh_a) pre_live.push_back(&A); pre_live.push_back(&B);
    if (!inv(pre_live, "built state")) { printf("cannot represent: builder did not establish Inv_K\n"); return 2; }
    const bool pre_gi2 = (A.get() != nullptr || A.hp == nullptr) && (B.get() != nullptr || B.hp == nullptr);
    const bool avail = td().control_block == nullptr || td().hint != nullptr;
    slot *a_hp0 = A.hp, *b_hp0 = B.hp; mp a_p0 = A, b_p0 = B; slot* hint0 = td().hint; N* a_obj0 = A.get();
    // ---- the operation ----
    N* srcnode = node(); auto word2mp = [&](unsigned long long w, N* n) { return mp(nullp(w) ? nullptr : n, markof(w)); };
    mp val = word2mp(arg("in_val"), srcnode);
    unsigned long long sw = arg("in_src"), ew = arg("in_expected");
    mp srcv = (sw == arg("in_a_ptr") && a_idx < K && !nullp(sw)) ? a_p0 : word2mp(sw, srcnode);
    mp expv = ew == sw ? srcv : (ew == arg("in_a_ptr") ? a_p0 : word2mp(ew, node()));
    cp src(srcv);
    bool needs = false, threw = false, r = false; gp* ret = &A; alignas(gp) unsigned char raw[sizeof(gp)]; gp* NA = nullptr;
    try {
      switch (op) {
        case OP_CTOR: needs = val.get() != nullptr; NA = new (raw) gp(val); break;
        case OP_COPY_CTOR: needs = B.get() != nullptr; NA = new (raw) gp(B); break;
        case OP_MOVE_CTOR: NA = new (raw) gp(std::move(B)); break;
        case OP_COPY_ASSIGN: needs = B.get() != nullptr && A.hp == nullptr; ret = &(A = B); break;
        case OP_COPY_ASSIGN_SELF: ret = &(A = *&A); break;
        case OP_MOVE_ASSIGN: ret = &(A = std::move(B)); break;
        case OP_MOVE_ASSIGN_SELF: ret = &(A = std::move(*&A)); break;
        case OP_RESET: A.reset(); break;
        case OP_RESET_TWICE: A.reset(); A.reset(); break;
        case OP_SWAP: A.swap(B); break;
        case OP_SWAP_SELF: A.swap(A); break;
        case OP_RECLAIM: if (!A.get()) return 2; A.reclaim(); for (auto& n : nodes) if (n.get() == a_obj0) n.release(); break;
        case OP_DTOR: A.~gp(); new (&A) gp(); break;
        case OP_ACQUIRE: needs = srcv.get() != nullptr && A.hp == nullptr && !(srcv == a_p0); A.acquire(src); break;
        case OP_ACQUIRE_IF_EQUAL: needs = srcv.get() != nullptr && srcv == expv && A.hp == nullptr; r = A.acquire_if_equal(src, expv); break;
        default: return 2;
      }
    } catch (const xenium::reclamation::bad_hazard_pointer_alloc&) { threw = true; }
    gp& RA = NA ? *NA : A; live.push_back(&B); if (!(fresh_a && threw)) live.push_back(&RA);
    // ---- the obligations ----
    inv(live, "after the operation");                                                                                      // hp.guard_ops.preserve_inv
    if (pre_gi2 && !(fresh_a && threw)) CHECK((RA.get() != nullptr || RA.hp == nullptr) && (B.get() != nullptr || B.hp == nullptr), "hp.guard_ops.empty_holds_no_slot: a guard with get()==nullptr holds slot %d", idx(RA.hp));
    if (threw) { CHECK(needs && !avail, "hp.alloc.k_available: bad_hazard_pointer_alloc although %s", needs ? "a slot was free" : "the operation protects nothing");
      CHECK(td().hint == hint0 && B.hp == b_hp0 && (mp)B == b_p0 && (fresh_a || (A.hp == a_hp0 && (mp)A == a_p0)), "hp.alloc.exhausted_throws: state changed by the throwing operation"); }
    else {
      CHECK(!(needs && !avail), "hp.alloc.exhausted_throws: no exception although no slot was free");
      switch (op) {
        case OP_CTOR: CHECK((mp)RA == val && (val.get() ? RA.hp != nullptr : RA.hp == nullptr), "hp.ctor.protects"); break;
        case OP_COPY_CTOR: case OP_COPY_ASSIGN: CHECK(ret == &A && (mp)RA == b_p0 && (mp)B == b_p0 && B.hp == b_hp0 && (B.get() == nullptr || (RA.hp && RA.hp != B.hp)), "hp.copy.shares"); break;
        case OP_MOVE_CTOR: case OP_MOVE_ASSIGN: CHECK(ret == &A && (mp)RA == b_p0 && RA.hp == b_hp0 && !B && B.hp == nullptr, "hp.move.empties_source"); break;
        case OP_COPY_ASSIGN_SELF: case OP_MOVE_ASSIGN_SELF: case OP_SWAP_SELF: CHECK(ret == &A && (mp)A == a_p0 && A.hp == a_hp0 && td().hint == hint0, "hp.self_assign.noop"); break;
        case OP_RESET: case OP_RESET_TWICE: case OP_DTOR: case OP_RECLAIM: CHECK(!A && A.hp == nullptr && (a_hp0 == nullptr || td().hint == a_hp0), "hp.reset.releases / hp.release.returns_slot"); break;
        case OP_SWAP: CHECK((mp)A == b_p0 && A.hp == b_hp0 && (mp)B == a_p0 && B.hp == a_hp0, "hp.swap.exchanges"); break;
        case OP_ACQUIRE: CHECK((mp)A == srcv, "hp.acquire.snapshot"); break;
        case OP_ACQUIRE_IF_EQUAL: CHECK(r == (srcv == expv) && (r ? (mp)A == expv : (!A && A.hp == nullptr)), "hp.acquire_if_equal.iff"); break;
      }
    }
    printf("K=%zu op=%u: %d violation(s)\n", K, op, bad);
    if (NA) NA->~gp();
    A.reset(); B.reset(); for (auto& x : g) if (x) x->reset();
    return bad ? 1 : 0;
  }
};
int main(int argc, char** argv) {
  for (int i = 1; i < argc; ++i) { char* eq = strchr(argv[i], '='); if (!eq) continue; std::string k(argv[i], eq - argv[i]);
    const char* v = eq + 1; args[k] = (!strcmp(v, "TRUE") || !strcmp(v, "true")) ? 1 : (!strcmp(v, "FALSE") || !strcmp(v, "false")) ? 0 : strtoull(v, 0, 0); }
  switch (arg("in_k")) { case 1: return world<1>::run(); case 2: return world<2>::run(); case 3: return world<3>::run(); case 5: return world<5>::run(); case 8: return world<8>::run();
    default: printf("K=%llu not instantiated in the replay program\n", arg("in_k")); return 2; }
}
