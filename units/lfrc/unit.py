import re
from xvlib import lower as L

# ---------------------------------------------------------------------------------------------------------------
# unit-local mechanical rules for free_list::pop (C++ constructs the built-in rules do not know):
#  (a) `if (auto* X = E) {`            ->  `auto* X = E; if (X) {`                     (if statement with initialising declaration)
#  (b) `guard_ptr NAME;` (local object) ->  declaration + XV_LOCAL_CTOR(NAME); and every later `return E;` becomes
#      `{ RET_T xv_ret = E; XV_LOCAL_DTOR(NAME); return xv_ret; }`                      (implicit destructor at scope exit)
def raii_rule(cls, c_type, ret_type):
    def rule(s, lw):
        s, n = re.subn(r'\bif\s*\(\s*auto\s*\*\s*(\w+)\s*=\s*([^;{]*?)\)\s*\{', r'auto* \1 = \2; if (\1) {', s)
        if n: lw.fire('if_init', n)
        m = re.search(r'\b%s\s+(\w+)\s*;' % re.escape(cls), s)
        if not m: raise L.ExtractError('raii: no local %s object' % cls)
        name = m.group(1)
        head, tail = s[:m.start()], s[m.end():]
        tail, k = re.subn(r'\breturn\b([^;]*);', lambda r: '{ %s xv_ret = %s; XV_LOCAL_DTOR(%s); return xv_ret; }' % (ret_type, r.group(1).strip(), name), tail)
        lw.fire('raii_ctor'); lw.fire('raii_dtor', k)
        return head + '%s %s; XV_LOCAL_CTOR(%s);' % (c_type, name, name) + tail
    return rule
POP_RULES = raii_rule('guard_ptr', 'struct guard', 'T*')

I = 'xenium/reclamation/impl/lock_free_ref_count.hpp'
H = 'xenium/reclamation/lock_free_ref_count.hpp'
G = 'xenium/reclamation/detail/guard_ptr.hpp'
QG = r'lock_free_ref_count<Traits>::guard_ptr<T, MarkedPtr>::'
QE = r'lock_free_ref_count<Traits>::enable_concurrent_ptr<T, N, Deleter>::'

# guard_ptr members
GP = dict(methods={'reset': 'MP_reset', 'get': 'MP_get', 'ref_count': 'O_ref_count', 'refs': 'O_refs', 'decrement_refcnt': 'O_decrement_refcnt',
                   'is_destroyed': 'O_is_destroyed', 'push_to_free_list': 'O_push_to_free_list'},
          self_calls={'reset': 'lfrc_g_reset'}, deref={'this->ptr': 'GDEREF', 'q': 'GDEREF'})
def gp(**kw):
    d = dict(GP); d.update(kw); return d
P_REF = (r'\bp\b', '(*p_ref)', 'p_ref')
RET_THIS = (r'return \*this;', 'return;', 'ret_this')
# free list members
FL = dict(methods={'get': 'MP_get', 'ref_count': 'O_ref_count', 'next_free': 'O_next_free', 'push': 'TL_push', 'pop': 'TL_pop', 'add_nodes': 'FL_add_nodes'},
          calls={'local_free_list': 'XV_LOCAL_FREE_LIST'})
def fl(**kw):
    d = dict(FL); d.update(kw); return d

UNIT = dict(
  title='lock_free_ref_count: reference count word, guard_ptr operations, thread-local free list, operator new/delete (C01, C02, C15)',
  properties=['C01', 'C02', 'C15'],
  drops='templates (T, N, Traits): an object is header+payload in one struct (getHeader() arithmetic dropped; ref_count()/destroyed()/next_free() are field accessors); '
        'marked_ptr is an opaque word with get()/reset()/== (marked_ptr unit); the implicit conversion T* -> marked_ptr in next_free().store(head) is made explicit; '
        'p->~T() is the stub O_destroy; by-reference parameters are pointers; operator= returns void; CRTP self() is this; '
        'thread_local local_free_list() is one struct; Traits::thread_local_free_list_size is a symbolic size_t; ::operator new is a stub',
  assumptions=[
    'stub ~T() (O_destroy): the user destructor (arbitrary, no access to the header) followed by the real ~enable_concurrent_ptr (extracted: sets destroyed)',
    'free_list::pop: `guard = acquire_guard(head, order)` is modelled by the macro XV_ASSIGN_ACQUIRE_GUARD = temporary guard, real acquire, real move assignment, real destructor of the temporary (acquire_guard.hpp:21-25 and the C++ value semantics of the returned prvalue are not extracted); the implicit destructor of the local guard is inserted by the unit-local RAII rule; operator new uses a contract stub of free_list::pop',
    'ABA freedom of the free list (a guarded node cannot re-enter the list, hence a successful head CAS implies the next pointer read is current) is the composition lemma of Valois / Michael-Scott, not decided here',
    'stub is_destroyed()/refs(): one-line header accessors (destroyed flag; count >> 1)',
    'marked_ptr get()/reset()/==/bool as proved in the marked_ptr unit (word model)',
    'INT rely: other threads may change the guarded source and every reference count arbitrarily, except that they never remove a reference this thread holds (count(k) >= references held by this thread); memory of objects is type-stable (never returned to the system), which is what allows the fetch_add on a possibly freed object',
    'ghost clock and ghost event counters do not wrap; fewer than 2^30 references per object (the 32-bit count does not overflow)',
    'reclaim() is called at most once per object and only while the object still carries its initial (reachable) reference - the caller\'s obligation, stated as precondition of run g_reclaim',
  ],
  consts=[dict(name='XV_INC', file=H, regex=r'static constexpr unsigned RefCountInc = ([^;]+);'),
          dict(name='XV_CLAIM', file=H, regex=r'static constexpr unsigned RefCountClaimBit = ([^;]+);')],
  sources=[
    # header accessors, constructor and destructor of enable_concurrent_ptr (real text; getHeader() arithmetic is the identity on the one-struct object model)
    dict(id='hdr_refs', file=H, sig=r'unsigned refs\(\) const', c_sig='static unsigned lfrc_hdr_refs(struct obj* self)', pre_subst=[(r'getHeader\(\)', 'XV_HDR(self)', 'getHeader')], must_fire={'A_LOAD': 1, 'subst:getHeader': 1}),
    dict(id='hdr_is_destroyed', file=H, sig=r'bool is_destroyed\(\) const', c_sig='static _Bool lfrc_hdr_is_destroyed(struct obj* self)', pre_subst=[(r'getHeader\(\)', 'XV_HDR(self)', 'getHeader')], must_fire={'A_LOAD': 1, 'subst:getHeader': 1}),
    dict(id='hdr_ref_count', file=H, sig=r'std::atomic<unsigned>& ref_count\(\)', c_sig='static unsigned* lfrc_hdr_ref_count(struct obj* self)', ret_ref=True, pre_subst=[(r'getHeader\(\)', 'XV_HDR(self)', 'getHeader')], must_fire={'subst:getHeader': 1}),
    dict(id='hdr_destroyed', file=H, sig=r'std::atomic<bool>& destroyed\(\)', c_sig='static _Bool* lfrc_hdr_destroyed(struct obj* self)', ret_ref=True, pre_subst=[(r'getHeader\(\)', 'XV_HDR(self)', 'getHeader')], must_fire={'subst:getHeader': 1}),
    dict(id='hdr_next_free', file=H, sig=r'concurrent_ptr<T, N>& next_free\(\)', c_sig='static mptr* lfrc_hdr_next_free(struct obj* self)', ret_ref=True, pre_subst=[(r'getHeader\(\)', 'XV_HDR(self)', 'getHeader')], must_fire={'subst:getHeader': 1}),
    dict(id='ecp_ctor', file=H, sig=r'enable_concurrent_ptr\(\) noexcept(?=\s*\{)', c_sig='static void lfrc_ecp_ctor(struct obj* self)', self_calls={'destroyed': '*lfrc_hdr_destroyed'}, must_fire={'A_STORE': 1}),
    dict(id='ecp_dtor', file=H, sig=r'virtual ~enable_concurrent_ptr\(\) noexcept', c_sig='static void lfrc_ecp_dtor(struct obj* self)', self_calls={'destroyed': '*lfrc_hdr_destroyed', 'is_destroyed': 'lfrc_hdr_is_destroyed'}, must_fire={'A_STORE': 1}),
    dict(id='decrement_refcnt', file=I, sig=r'bool ' + QE + r'decrement_refcnt\(\)',
         c_sig='static _Bool lfrc_decrement_refcnt(struct obj* self)', self_calls={'ref_count': 'O_self_ref_count'},
         cut_loops={0: 'DEC'}, must_fire={'A_LOAD': 1, 'A_CASW': 1, 'self_call:ref_count': 2, 'cut_loop': 1}),
    # ---- guard_ptr ----
    dict(gp(), id='g_reset', file=I, sig=r'void ' + QG + r'reset\(\) noexcept',
         c_sig='static void lfrc_g_reset(struct guard* self)', pre_subst=[(r'p->~T\(\);', 'O_destroy(p);', 'dtor_call')],
         must_fire={'method:get': 1, 'method:reset': 1, 'method:decrement_refcnt': 1, 'method:is_destroyed': 1, 'method:push_to_free_list': 1, 'subst:dtor_call': 1}),
    dict(gp(ctor=True), id='g_ctor', file=I, sig=QG + r'guard_ptr\(const MarkedPtr& p\) noexcept',
         c_sig='static void lfrc_g_ctor(struct guard* self, mptr p)', must_fire={'ctor_init': 1, 'A_FADD': 1, 'method:get': 1}),
    dict(gp(ctor=True), id='g_copy_ctor', file=I, sig=QG + r'guard_ptr\(const guard_ptr& p\) noexcept',
         c_sig='static void lfrc_g_copy_ctor(struct guard* self, struct guard* p_ref)', post_subst=[P_REF], must_fire={'ctor_init': 1}),
    dict(gp(ctor=True), id='g_move_ctor', file=I, sig=QG + r'guard_ptr\(guard_ptr&& p\) noexcept',
         c_sig='static void lfrc_g_move_ctor(struct guard* self, struct guard* p_ref)', post_subst=[P_REF], must_fire={'ctor_init': 1, 'method:reset': 1}),
    dict(gp(), id='g_copy_assign', file=I, sig=QG + r'operator=\(const guard_ptr& p\) -> guard_ptr&',
         c_sig='static void lfrc_g_copy_assign(struct guard* self, struct guard* p_ref)', subst=[P_REF, RET_THIS],
         must_fire={'self_call:reset': 1, 'A_FADD': 1, 'subst:ret_this': 2}),
    dict(gp(), id='g_move_assign', file=I, sig=QG + r'operator=\(guard_ptr&& p\) noexcept -> guard_ptr&',
         c_sig='static void lfrc_g_move_assign(struct guard* self, struct guard* p_ref)', subst=[P_REF, RET_THIS],
         must_fire={'self_call:reset': 1, 'method:reset': 1, 'subst:ret_this': 2}),
    dict(gp(), id='g_acquire', file=I, sig=r'void ' + QG + r'acquire\(const concurrent_ptr<T>& p,\s*std::memory_order order\) noexcept',
         c_sig='static void lfrc_g_acquire(struct guard* self, mptr* p_ref, int order)', subst=[P_REF], cut_loops={0: 'ACQ'},
         must_fire={'A_LOAD': 2, 'A_FADD': 1, 'self_call:reset': 1, 'cut_loop': 1}),
    dict(gp(), id='g_acquire_if_equal', file=I,
         sig=r'bool ' + QG + r'acquire_if_equal\(const concurrent_ptr<T>& p,\s*const MarkedPtr& expected,\s*std::memory_order order\) noexcept',
         c_sig='static _Bool lfrc_g_acquire_if_equal(struct guard* self, mptr* p_ref, mptr expected, int order)', subst=[P_REF],
         must_fire={'A_LOAD': 2, 'A_FADD': 1, 'self_call:reset': 2}),
    dict(gp(), id='g_reclaim', file=I, sig=r'void ' + QG + r'reclaim\(Deleter\) noexcept',
         c_sig='static void lfrc_g_reclaim(struct guard* self)', must_fire={'A_FSUB': 1, 'self_call:reset': 1, 'method:refs': 1}),
    dict(gp(), id='g_dtor', file=G, sig=r'~guard_ptr\(\)', c_sig='static void lfrc_g_dtor(struct guard* self)',
         pre_subst=[(r'self\(\)\.', '', 'crtp_self')], must_fire={'self_call:reset': 1, 'subst:crtp_self': 1}),
    dict(gp(self_calls={'do_swap': 'G_do_swap'}), id='g_swap', file=G, sig=r'void swap\(Derived& g\) noexcept',
         c_sig='static void lfrc_g_swap(struct guard* self, struct guard* g_ref)', members=['ptr'],
         pre_subst=[(r'self\(\)\.', '', 'crtp_self'), (r'std::swap\(', 'XV_SWAP(', 'std_swap')], subst=[(r'\bg\b', '(*g_ref)', 'g_ref')],
         must_fire={'subst:crtp_self': 1, 'subst:std_swap': 1, 'self_call:do_swap': 1}),
    # ---- thread-local free list, free_list::push, operator new / delete ----
    dict(fl(), id='tl_push', file=I, sig=r'bool push\(T\* node\)', c_sig='static _Bool lfrc_tl_push(struct tlfl* self, struct obj* node)',
         members=['number_of_elements', 'head'], subst=[(r'\.store\(head,', '.store(MP_FROM_PTR(head),', 'implicit_marked_ptr')],
         must_fire={'A_STORE': 1, 'subst:implicit_marked_ptr': 1, 'member:number_of_elements': 2}),
    dict(fl(), id='tl_pop', file=I, sig=r'T\* pop\(\)', which=1, c_sig='static struct obj* lfrc_tl_pop(struct tlfl* self)',
         members=['number_of_elements', 'head'], must_fire={'A_LOAD': 1, 'A_FADD': 1, 'A_STORE': 1, 'method:get': 1}),
    dict(fl(), id='tl_dtor', file=I, sig=r'~thread_local_free_list\(\) noexcept', c_sig='static void lfrc_tl_dtor(struct tlfl* self)',
         members=['head'], deref={'next': 'GDEREF'},
         must_fire={'A_LOAD': 2, 'method:add_nodes': 1, 'method:get': 1}),
    dict(fl(self_calls={'add_nodes': 'FL_add_nodes_self'}), id='fl_push', file=I, sig=r'void push\(T\* node\)',
         c_sig='static void lfrc_fl_push(struct obj* node)', must_fire={'method:push': 1, 'self_call:add_nodes': 1, 'call:local_free_list': 1}),
    dict(fl(methods={'get': {'guard': 'G_get', '*': 'MP_get'}, 'ref_count': 'O_ref_count', 'next_free': 'O_next_free', 'pop': 'TL_pop', 'reset': 'MP_reset'}),
         id='fl_pop', file=I, sig=r'T\* pop\(\)', which=0, c_sig='static struct obj* lfrc_fl_pop(struct flist* self)',
         members=['head'], deref={'guard': 'GG_DEREF'}, py_pre=POP_RULES, cut_loops={0: 'FLPOP'},
         pre_subst=[(r'guard = acquire_guard\(head, (std::memory_order_\w+)\);', r'XV_ASSIGN_ACQUIRE_GUARD(guard, head, \1);', 'acquire_guard'),
                    (r'marked_ptr expected\(guard\);', 'mptr expected = MarkedPtr(guard);', 'marked_ptr_of_guard')],
         must_fire={'if_init': 1, 'raii_ctor': 1, 'raii_dtor': 2, 'subst:acquire_guard': 1, 'subst:marked_ptr_of_guard': 1, 'A_CASW': 1, 'A_FSUB': 1, 'A_STORE': 1,
                    'A_LOAD': 2, 'cut_loop': 1, 'method:pop': 1}),
    dict(fl(), id='add_nodes', file=I, sig=r'void add_nodes\(T\* first, T\* last\)',
         c_sig='static void lfrc_fl_add_nodes(struct flist* self, struct obj* first, struct obj* last)', members=['head'], cut_loops={0: 'ADDN'},
         subst=[(r'compare_exchange_weak\(old, first,', 'compare_exchange_weak(old, MP_FROM_PTR(first),', 'implicit_marked_ptr')],
         must_fire={'A_LOAD': 1, 'A_STORE': 1, 'A_CASW': 1, 'cut_loop': 1, 'subst:implicit_marked_ptr': 1}),
    dict(fl(methods={'pop': 'FL_pop'}), id='op_new', file=I, sig=r'void\* ' + QE + r'operator new\(size_t sz\)',
         c_sig='static struct obj* lfrc_op_new(size_t sz)',
         pre_subst=[(r'auto h = static_cast<header\*>\(::operator new\(sz \+ sizeof\(header\)\)\);', 'auto h = XV_RAW_NEW(sz);', 'raw_new'),
                    (r'static_cast<T\*>\(static_cast<void\*>\(h \+ 1\)\)', 'XV_OBJ_OF_HEADER(h)', 'header_to_obj'),
                    (r'sizeof\(T\)', 'XV_SIZEOF_T', 'sizeof_T')],
         must_fire={'A_STORE': 1, 'method:pop': 1, 'subst:raw_new': 1, 'subst:header_to_obj': 1}),
    dict(fl(methods={'decrement_refcnt': 'O_decrement_refcnt', 'push_to_free_list': 'O_push_to_free_list', 'ref_count': 'O_ref_count'}), id='op_delete', file=I,
         sig=r'void ' + QE + r'operator delete\(void\* p\)', c_sig='static void lfrc_op_delete(struct obj* p)', types={'T*': 'struct obj*'},
         must_fire={'method:decrement_refcnt': 1, 'method:push_to_free_list': 1, 'cast': 1}),
  ],
  runs=[
    dict(id='layout', entry='h_layout', cls='unbounded'),
    dict(id='hdr', entry='h_hdr', cls='unbounded', note='header accessors / constructor / destructor of enable_concurrent_ptr, every header word'),
    dict(id='decrement', entry='h_decrement', cls='unbounded', note='every 32-bit count word; retry loop cut by invariant DEC'),
    dict(id='decrement_int', entry='h_decrement', mode='INT', cls='unbounded', note='the count changes between the load and the CAS; weak CAS may fail spuriously'),
    dict(id='g_ctor', entry='h_g_ctor', cls='unbounded'),
    dict(id='g_copy_ctor', entry='h_g_copy_ctor', cls='unbounded'),
    dict(id='g_move_ctor', entry='h_g_move_ctor', cls='unbounded'),
    dict(id='g_copy_assign', entry='h_g_copy_assign', cls='unbounded'),
    dict(id='g_move_assign', entry='h_g_move_assign', cls='unbounded'),
    dict(id='g_swap', entry='h_g_swap', cls='unbounded'),
    dict(id='g_reset', entry='h_g_reset', cls='unbounded'),
    dict(id='g_reclaim', entry='h_g_reclaim', cls='unbounded'),
    dict(id='g_acquire', entry='h_g_acquire', cls='unbounded', note='retry loop cut by invariant ACQ'),
    dict(id='g_acquire_int', entry='h_g_acquire', mode='INT', cls='unbounded'),
    dict(id='g_aie', entry='h_g_acquire_if_equal', cls='unbounded'),
    dict(id='g_aie_int', entry='h_g_acquire_if_equal', mode='INT', cls='unbounded'),
    dict(id='tl_push', entry='h_tl_push', cls='shape-complete', note='local list of up to L=3 nodes (the functions touch only the head)'),
    dict(id='tl_pop', entry='h_tl_pop', cls='shape-complete'),
    dict(id='tl_dtor', entry='h_tl_dtor', cls='shape-complete', unwindset=['lfrc_tl_dtor.0:4']),
    dict(id='fl_push', entry='h_fl_push', cls='shape-complete'),
    dict(id='add_nodes', entry='h_add_nodes', cls='unbounded', note='retry loop cut by invariant ADDN'),
    dict(id='add_nodes_int', entry='h_add_nodes', mode='INT', cls='unbounded', note='the global head changes between the load and the CAS'),
    dict(id='fl_pop', entry='h_fl_pop', cls='shape-complete', note='global free list of up to L=3 nodes (only the head node is touched); retry loop cut by invariant FLPOP, the inner acquire loop by ACQ'),
    dict(id='fl_pop_int', entry='h_fl_pop', mode='INT', cls='shape-complete'),
    dict(id='op_new', entry='h_op_new', cls='unbounded'),
    dict(id='op_new_composed', entry='h_op_new_composed', cls='shape-complete', defs={'REAL_FLPOP': 1}, note='operator new with the real free_list::pop and thread_local_free_list::pop'),
    dict(id='op_delete', entry='h_op_delete', cls='unbounded'),
    dict(id='g_reset_composed', entry='h_g_reset_composed', cls='unbounded', defs={'REAL_DEC': 1, 'REAL_FLPUSH': 1},
         note='reset() with the real decrement_refcnt, free_list::push and thread_local_free_list::push instead of their contract stubs'),
  ],
  loop_obligation={'DEC': 'lfrc.decrement.claims_once', 'ACQ': 'lfrc.acquire.inc_then_validate', 'ADDN': 'lfrc.freelist.push_links', 'FLPOP': 'lfrc.freelist.pop_owns'},
  obligations={
    'lfrc.header.accessors': dict(deciding=True, text='refs() is the count without the claim bit, is_destroyed() the destroyed flag; ref_count()/destroyed()/next_free() name the three header fields; the constructor clears destroyed, the destructor sets it, neither touches the count or the free-list link'),
    'lfrc.layout': dict(deciding=True, text='the extracted constants give the word layout the code relies on: claim bit = LSB, count above it (RefCountClaimBit == 1, RefCountInc == 2)'),
    'lfrc.decrement.claims_once': dict(deciding=True, text='[SEQ+INT] for every 32-bit count word e replaced by the successful CAS: decrement_refcnt returns true iff the count part of e is 1 and the claim bit clear; the new word has count-1 and the claim bit set iff it was set or the call returned true (true => new word == RefCountClaimBit); exactly one CAS succeeds and nothing else is written'),
    'lfrc.decrement.holds_reference': dict(deciding=True, text='every call of decrement_refcnt made by a guard operation drops a reference this thread holds (count >= 1)'),
    'lfrc.acquire.inc_then_validate': dict(deciding=True, text="[SEQ+INT] when acquire/acquire_if_equal return a non-null guard, the fetch_add(RefCountInc) on that object precedes the last (validating) load of the source, that load returned the guard's value, and no decrement of the object follows the increment"),
    'lfrc.acquire.snapshot': dict(deciding=True, text='[SEQ+INT] after acquire the guard holds the value of the last load of the source; without interference that is the source value'),
    'lfrc.acquire_if_equal.iff': dict(deciding=True, text='[SEQ+INT] acquire_if_equal returns true iff the last snapshot equals expected; then the guard equals expected, otherwise it is empty'),
    'lfrc.guard.algebra': dict(deciding=True, text='for an arbitrary object k every guard operation changes its count by RefCountInc * ((guards on k after) - (guards on k before)) using exactly the expected increments/decrements; this thread ends up holding one reference per guard (failed acquire attempts are compensated); copy: both equal, move: source empty, self-assignment/double reset: no change'),
    'lfrc.reset.destroy_iff_claimed': dict(deciding=True, text='an object is destroyed (unless already destroyed) and then pushed to the free list exactly when a decrement by this thread returned true for it, once, with the claim bit set; never otherwise; nothing claimed is left unpushed'),
    'lfrc.reclaim.once': dict(deciding=True, text="reclaim drops the object's own (reachable) reference by exactly one fetch_sub(RefCountInc) and then the guard's reference; an empty guard does nothing"),
    'lfrc.freelist.conserve': dict(deciding=True, text='thread-local free list push/pop/destructor and free_list::push: the node goes to exactly one place (local list head, or add_nodes once), pop returns the head and unlinks it, the destructor hands the whole chain (first, last) to the global list once; other nodes and counts untouched'),
    'lfrc.freelist.push_links': dict(deciding=True, text='[SEQ+INT] free_list::add_nodes(first,last) publishes first by one successful CAS on the global head, and at that moment last->next_free holds exactly the head value the CAS replaced (the chain is linked in front of the old list, nothing lost); no other node is written'),
    'lfrc.freelist.pop_owns': dict(deciding=True, text='[SEQ+INT] free_list::pop returns a node only after a successful CAS that replaced the head, whose expected value was the guarded (increment-then-validated) node and whose desired value was read from that node\'s next_free while it was guarded; the caller then holds exactly one reference on it (the guard\'s, the guard is emptied without decrement), the claim bit is cleared exactly once and next_free is null; on every other path all references taken are given back; with an empty local and global list the result is nullptr'),
    'lfrc.new.reinit_count': dict(deciding=True, text='a node re-used from the free list gets exactly one more reference and a clear claim bit (word == RefCountInc when it was free with no stale references); a fresh node starts with RefCountInc; operator new changes nothing else'),
    'lfrc.sync.orders': dict(deciding=True, text="sync precondition: the claiming CAS is acquire-or-stronger, a decrement of an unclaimed object is release-or-stronger, acquire's fetch_add is acquire-or-stronger and the validating load uses the caller's order"),
  },
  replays={'lfrc.decrement.claims_once': dict(src='replay_decrement.cpp'), 'lfrc.guard.algebra': dict(src='replay_guard.cpp'),
           'lfrc.reset.destroy_iff_claimed': dict(src='replay_guard.cpp'), 'lfrc.reclaim.once': dict(src='replay_guard.cpp')},
  canaries=['hdr.ctor', 'hdr.dtor', 'add_nodes.chain', 'add_nodes.single', 'decrement.already_claimed', 'decrement.claimed', 'decrement.shared', 'decrement.underflow_value', 'fl_pop.after_retry', 'fl_pop.empty', 'fl_pop.node', 'fl_push.global', 'fl_push.local', 'g_acquire.fresh', 'g_acquire.mark_only', 'g_acquire.null_drop', 'g_acquire.replace', 'g_aie.changed_undone', 'g_aie.false_drop', 'g_aie.true', 'g_aie.true_null', 'g_copy_assign.gains', 'g_copy_assign.last_reference', 'g_copy_assign.same_object', 'g_copy_assign.self', 'g_copy_ctor.nonnull', 'g_ctor.mark_only', 'g_ctor.nonnull', 'g_move_assign.last_reference', 'g_move_assign.same_object', 'g_move_assign.self', 'g_move_ctor.nonnull', 'g_reclaim.empty', 'g_reclaim.last', 'g_reclaim.still_guarded', 'g_reset.destroys', 'g_reset.frees_already_destroyed', 'g_reset.mark_only', 'g_reset.shared', 'g_reset_composed.global', 'g_reset_composed.local', 'g_reset_composed.shared', 'g_swap.done', 'op_delete.freed', 'op_delete.still_guarded', 'op_new.fresh', 'op_new.reused', 'op_new_composed.fresh', 'op_new_composed.global', 'op_new_composed.local', 'op_new_composed.local_disabled', 'tl_dtor.empty', 'tl_dtor.hands_over', 'tl_pop.empty', 'tl_pop.longest', 'tl_pop.node', 'tl_push.full', 'tl_push.stored'],
)

# ---- SOLO termination (C16): three of the four functions (free_list::pop with its nested acquire loop did not finish within 20 min when its loops are kept: it stays INT-cut only and contributes no termination fact)
# ---- the functions whose retry loops are cut by invariants above, lowered once more with their ORIGINAL loops; the SEQ harness of the
#      function is run against that text (-DXV_SOLO remaps the name) with complete unwinding: the unwinding assertions are the termination obligations
import copy as _copy, re as _re2
_SOLO = {'decrement_refcnt': ('lfrc_decrement_refcnt', 'decrement_solo', 'h_decrement', ['lfrc_decrement_refcnt_solo.0:2']),
         'g_acquire': ('lfrc_g_acquire', 'g_acquire_solo', 'h_g_acquire', ['lfrc_g_acquire_solo.0:2']),
         'add_nodes': ('lfrc_fl_add_nodes', 'add_nodes_solo', 'h_add_nodes', ['lfrc_fl_add_nodes_solo.0:2'])}
for _sp in list(UNIT['sources']):
    if _sp['id'] in _SOLO:
        _c = dict(_sp); _c['id'] = _sp['id'] + '_solo'; _c.pop('cut_loops', None)
        _c['c_sig'] = _c['c_sig'].replace(_SOLO[_sp['id']][0] + '(', _SOLO[_sp['id']][0] + '_solo(')
        _c['must_fire'] = {k: v for k, v in _sp.get('must_fire', {}).items() if k != 'cut_loop'}
        UNIT['sources'].append(_c)
for _fn, (_cn, _rid, _entry, _uw) in _SOLO.items():
    UNIT['runs'].append(dict(id=_rid, entry=_entry, mode='SOLO', cls='shape-complete', defs={'XV_SOLO': 1}, unwindset=_uw, unwind_obligation='lfrc.%s.terminates' % _fn,
                             note='original retry loop, no interference: complete after one iteration (unwinding assertion = termination obligation)'))
    UNIT['obligations']['lfrc.%s.terminates' % _fn] = dict(deciding=True, text='[SOLO] without interference the retry loop of %s is left after its first iteration (weak CAS failures are interference)' % _fn)
