// native replay for lfrc.guard.algebra: objects with the count words cbmc found (in_rc0[k], in_destroyed0[k] for k < 3), guards holding
// in_self / in_src (harness word model: bits 0-1 mark, rest 1 + object index); runs the guard operations of the real
// lock_free_ref_count and checks the count of every object and destruction.  exit 0 holds / 1 violated / 2 cannot represent
#include <xenium/reclamation/lock_free_ref_count.hpp>
#include <cstdio>
#include <cstdlib>
#include <cstring>
#include <map>
#include <string>
using R = xenium::reclamation::lock_free_ref_count<>;
static int dtors[3];
struct Node : R::enable_concurrent_ptr<Node, 2> { int id; explicit Node(int i) : id(i) {} ~Node() override { dtors[id]++; } };
using cptr = R::concurrent_ptr<Node>;
using mptr = cptr::marked_ptr;
using guard = cptr::guard_ptr;
static std::map<std::string, unsigned long long> args;
static unsigned long long arr(const char* name, unsigned i) {
  for (const char* suf : {"l", "", "ul", "u"}) { std::string k = std::string(name) + "[" + std::to_string(i) + suf + "]"; if (args.count(k)) return args[k]; }
  return 0;
}
static Node* nodes[3]; static int bad = 0;
static const unsigned INC = 2, CLAIM = 1;
static mptr word(unsigned long long w) { unsigned long long k = w >> 2; return mptr(k ? nodes[(k - 1) % 3] : nullptr, w & 3); }
static int obj(mptr p) { for (int i = 0; i < 3; ++i) if (p.get() == nodes[i]) return i; return -1; }
static unsigned rc(int k) { return nodes[k]->ref_count().load(); }
static unsigned base[3];
// counts are compared relative to a state in which ga holds a and gb holds b (both constructed through the real ctor)
static void expect(const char* op, int k, long delta_refs) {
  unsigned e = base[k] + (unsigned)(delta_refs * (long)INC);
  if (rc(k) != e) { printf("VIOLATED %s: object %d count word %u, expected %u\n", op, k, rc(k), e); bad++; }
}
int main(int argc, char** argv) {
  for (int i = 1; i < argc; ++i) { char* eq = strchr(argv[i], '='); if (!eq) continue; args[std::string(argv[i], eq - argv[i])] = strtoull(eq + 1, 0, 0); }
  for (int k = 0; k < 3; ++k) nodes[k] = new Node(k);
  mptr a = word(args["in_self"]), b = word(args["in_src"]);
  // every object gets at least 2 extra references so that nothing is freed while the algebra is checked; claim bits as found
  for (int k = 0; k < 3; ++k) { unsigned w = (unsigned)arr("in_rc0", k); unsigned cnt = w / INC; if (cnt > 1000000) cnt = 1000000; nodes[k]->ref_count().store((cnt + 2) * INC + (w & CLAIM)); }
  {
    guard ga(a), gb(b);
    for (int k = 0; k < 3; ++k) base[k] = rc(k);
    { guard g(ga); for (int k = 0; k < 3; ++k) expect("copy ctor", k, obj(a) == k); if (mptr(g) != a) { printf("VIOLATED copy ctor value\n"); bad++; } }
    for (int k = 0; k < 3; ++k) expect("dtor", k, 0);
    { guard t(a); guard g(std::move(t)); for (int k = 0; k < 3; ++k) expect("move ctor", k, obj(a) == k); if (mptr(t) || mptr(g) != a) { printf("VIOLATED move ctor values\n"); bad++; } }
    { guard g(a); g = gb; for (int k = 0; k < 3; ++k) expect("copy assign", k, obj(b) == k); if (mptr(g) != b) { printf("VIOLATED copy assign value\n"); bad++; } }
    { guard g(a); guard& r = g; g = r; for (int k = 0; k < 3; ++k) expect("self copy assign", k, obj(a) == k); }
    { guard g(a), t(b); g = std::move(t); for (int k = 0; k < 3; ++k) expect("move assign", k, obj(b) == k); if (mptr(t) || mptr(g) != b) { printf("VIOLATED move assign values\n"); bad++; } }
    { guard g(a); guard& r = g; g = std::move(r); for (int k = 0; k < 3; ++k) expect("self move assign", k, obj(a) == k); }
    { guard g(a), t(b); g.swap(t); for (int k = 0; k < 3; ++k) expect("swap", k, (obj(a) == k) + (obj(b) == k)); if (mptr(g) != b || mptr(t) != a) { printf("VIOLATED swap values\n"); bad++; } }
    { guard g(a); g.reset(); g.reset(); for (int k = 0; k < 3; ++k) expect("double reset", k, 0); }
    { cptr src(b); guard g(a); g.acquire(src); for (int k = 0; k < 3; ++k) expect("acquire", k, obj(b) == k); if (mptr(g) != b) { printf("VIOLATED acquire snapshot\n"); bad++; } }
    { cptr src(b); guard g(a); bool r = g.acquire_if_equal(src, b); for (int k = 0; k < 3; ++k) expect("acquire_if_equal", k, obj(b) == k); if (!r || mptr(g) != b) { printf("VIOLATED acquire_if_equal\n"); bad++; } }
    { cptr src(b); guard g(a); mptr other(b.get(), (b.mark() + 1) & 3); bool r = g.acquire_if_equal(src, other); for (int k = 0; k < 3; ++k) expect("acquire_if_equal(different)", k, 0); if (r || mptr(g)) { printf("VIOLATED acquire_if_equal(different)\n"); bad++; } }
    for (int k = 0; k < 3; ++k) expect("end", k, 0);
  }
  // last reference: destroyed exactly once, claim bit set
  for (int k = 0; k < 3; ++k) {
    nodes[k]->ref_count().store(INC);          // one reference, unclaimed
    { guard g{mptr(nodes[k])}; g.reclaim(); }  // drops the object's own reference, then the guard's
    if (dtors[k] != 1 || rc(k) != CLAIM) { printf("VIOLATED reclaim of the last reference: object %d destroyed %d time(s), word %u\n", k, dtors[k], rc(k)); bad++; }
  }
  printf("%d violation(s)\n", bad);
  fflush(stdout); _Exit(bad ? 1 : 0);
}
