/* unit lfrc - lock_free_ref_count (C01, C02, C15 guard algebra).
 * Only declarations, contract stubs, ghost state, invariants and harness functions; function bodies come from lowered.h */
#include <stdint.h>
#include <stddef.h>
static void mon_load(void* a, uint64_t v, int o);
static void mon_store(void* a, uint64_t v, int o);
static void mon_rmw(void* a, uint64_t oldv, uint64_t newv, int o);
static void mon_cas(void* a, uint64_t e, uint64_t d, _Bool ok, int o);
#define XV_ON_LOAD(addr, val, order) mon_load((void*)(addr), (uint64_t)(val), (order))
#define XV_ON_STORE(addr, val, order) mon_store((void*)(addr), (uint64_t)(val), (order))
#define XV_ON_RMW(addr, oldv, newv, order) mon_rmw((void*)(addr), (uint64_t)(oldv), (uint64_t)(newv), (order))
#define XV_ON_CAS(addr, e, d, ok, order) mon_cas((void*)(addr), (uint64_t)(e), (uint64_t)(d), (ok), (order))
#include "xv.h"
int xv_threw; uint64_t xv_clock, xv_rmw_old; _Bool xv_cas_ok;

#ifndef NP
#define NP 3            /* objects */
#endif
#define RefCountInc ((unsigned)XV_INC)            /* static constexpr unsigned, extracted from the header */
#define RefCountClaimBit ((unsigned)XV_CLAIM)
#define CLAIMED(x) (((x) & RefCountClaimBit) != 0)
#define COUNT(x) ((x) / RefCountInc)              /* layout checked by lfrc.layout */

/* ---------------- types ---------------- */
typedef uintptr_t mptr;                            /* marked_ptr<T,N>: opaque word, 0 <=> (nullptr, 0) */
struct obj { unsigned ref_count; _Bool destroyed; mptr next_free; };     /* header (ref_count, destroyed, next_free) + T */
typedef struct obj T;
struct guard { mptr ptr; };
struct tlfl { size_t number_of_elements; struct obj* head; };           /* thread_local_free_list */
struct obj pool[NP]; struct obj fresh_obj;
struct flist { mptr head; };                                           /* free_list: concurrent_ptr<T,N> head */
struct tlfl g_tl; int global_free_list; struct flist g_fl;
size_t in_max_local;                               /* Traits::thread_local_free_list_size, symbolic */
#define max_local_elements in_max_local
#define XV_SIZEOF_T ((size_t)16)

static struct obj* mp_get(mptr w) { size_t k = (size_t)(w >> 2); if (k == 0) return 0; XV_MODEL_ASSERT("mptr.in_pool", k <= NP); return &pool[k - 1]; }
static mptr mp_from_ptr(struct obj* p) { return p ? (((mptr)(p - pool) + 1) << 2) : 0; }
#define MP_get(w) mp_get(w)
#define GDEREF(w) mp_get(w)
#define MP_FROM_PTR(p) mp_from_ptr(p)
#define MP_reset(x) ((x) = 0)
#define XV_INIT_base(self, v) ((self)->ptr = (v))
#define XV_INIT_guard_ptr(self, v) lfrc_g_ctor((self), (v))
#define XV_SWAP(a, b) do { mptr xv_t = (a); (a) = (b); (b) = xv_t; } while (0)
#define G_do_swap(self, g) ((void)0)
/* header accessors: the real one-liners of enable_concurrent_ptr (lowered.h); getHeader() is the identity on this object model */
#define XV_HDR(self) (self)
static unsigned lfrc_hdr_refs(struct obj* self); static _Bool lfrc_hdr_is_destroyed(struct obj* self);
static unsigned* lfrc_hdr_ref_count(struct obj* self); static _Bool* lfrc_hdr_destroyed(struct obj* self); static mptr* lfrc_hdr_next_free(struct obj* self);
static void lfrc_ecp_ctor(struct obj* self); static void lfrc_ecp_dtor(struct obj* self);
#define O_ref_count(o) (*lfrc_hdr_ref_count(&(o)))
#define O_self_ref_count(s) (*lfrc_hdr_ref_count(s))
#define O_next_free(o) (*lfrc_hdr_next_free(&(o)))
#define O_refs(o) lfrc_hdr_refs(&(o))
#define O_is_destroyed(o) lfrc_hdr_is_destroyed(&(o))
static mptr nondet_word(void) { mptr w = nondet_uptr(); XV_ASSUME((w >> 2) <= NP); return w; }
static int idx_of(struct obj* o) { return o ? (int)(o - pool) : -1; }

/* ---------------- ghost ---------------- */
int my_refs[NP];                 /* references this thread holds on object k (increments minus decrements it performed, plus what it started with) */
unsigned n_inc[NP], n_dec[NP], n_fsub[NP], n_destroy[NP], n_push[NP]; _Bool dec_true[NP], in_destroyed0[NP]; unsigned in_rc0[NP];
uint64_t destroy_clock[NP], push_clock[NP], last_inc_clock[NP], last_dec_clock[NP];
mptr* mon_src; unsigned mon_src_loads; mptr mon_src_last; uint64_t mon_src_last_clock; int mon_src_last_order;
unsigned n_other_rmw; int mon_last_inc_order;
_Bool dec_cas_ok_seen; unsigned dec_cas_exp, dec_cas_des; int dec_cas_order; _Bool dec_cas_last_ok; struct obj* dec_obj;
int claim_pending = -1;      /* object whose final decrement returned true and which has not been pushed to the free list yet */
unsigned n_add_nodes, n_raw_new, n_fl_pop; struct obj *add_first, *add_last, *popped;

static _Bool stub_decrement(struct obj* o);
static void stub_destroy(struct obj* o);
static void stub_push_to_free_list(struct obj* o);
static void stub_add_nodes(struct obj* a, struct obj* b);
static struct obj* stub_fl_pop(void);
static struct obj* raw_new(size_t sz);
static _Bool lfrc_decrement_refcnt(struct obj* self);
static void lfrc_fl_push(struct obj* node);
static _Bool lfrc_tl_push(struct tlfl* self, struct obj* node);
static struct obj* lfrc_tl_pop(struct tlfl* self);
static _Bool real_decrement(struct obj* o);
static void real_push_to_free_list(struct obj* o);
#ifdef REAL_DEC
#define O_decrement_refcnt(o) real_decrement(&(o))
#else
#define O_decrement_refcnt(o) stub_decrement(&(o))
#endif
#ifdef REAL_FLPUSH
#define O_push_to_free_list(o) real_push_to_free_list(&(o))     /* header: push_to_free_list() { global_free_list.push(this); } */
#else
#define O_push_to_free_list(o) stub_push_to_free_list(&(o))
#endif
#define O_destroy(p) stub_destroy(p)
#define XV_LOCAL_FREE_LIST() g_tl
#define TL_push(l, n) lfrc_tl_push(&(l), (n))
#define TL_pop(l) lfrc_tl_pop(&(l))
#define FL_add_nodes(l, a, b) stub_add_nodes((a), (b))
#define FL_add_nodes_self(s, a, b) stub_add_nodes((a), (b))
static struct obj* lfrc_fl_pop(struct flist* self);
#ifdef REAL_FLPOP
#define FL_pop(l) lfrc_fl_pop(&g_fl)
#else
#define FL_pop(l) stub_fl_pop()
#endif
#define XV_RAW_NEW(sz) raw_new(sz)
/* free_list::pop: local guard object, acquire_guard(), guard accessors (detail::guard_ptr::get / operator-> / operator MarkedPtr) */
static void lfrc_g_ctor(struct guard* self, mptr p);
static void lfrc_g_acquire(struct guard* self, mptr* p_ref, int order);
static void lfrc_g_move_assign(struct guard* self, struct guard* p_ref);
static void lfrc_g_dtor(struct guard* self);
int extra_refs[NP];          /* references held by this thread through guards other than the one an inner call works on */
#define G_get(g) mp_get((g).ptr)
#define GG_DEREF(g) mp_get((g).ptr)
#define MarkedPtr(g) ((g).ptr)
#define XV_LOCAL_CTOR(g) lfrc_g_ctor(&(g), 0)
#define XV_LOCAL_DTOR(g) lfrc_g_dtor(&(g))
#define XV_ASSIGN_ACQUIRE_GUARD(g, src, mo) do { struct guard xv_t; lfrc_g_ctor(&xv_t, 0); \
    { int xv_k = idx_of(mp_get((g).ptr)); if (xv_k >= 0) extra_refs[xv_k]++; lfrc_g_acquire(&xv_t, &(src), (mo)); if (xv_k >= 0) extra_refs[xv_k]--; } \
    lfrc_g_move_assign(&(g), &xv_t); lfrc_g_dtor(&xv_t); } while (0)
#define XV_OBJ_OF_HEADER(h) (h)

/* ---------------- environment (INT) ---------------- */
#ifdef XV_INT
int env_kind;        /* 1: source cell and all reference counts change, never below what this thread holds */
void xv_env(void);
#endif

/* ---------------- loop cuts ---------------- */
mptr nf0[NP];
unsigned in_rc; mptr in_self, in_src; _Bool in_same; unsigned in_op;
static _Bool refs_match_guard(struct guard* g);
static _Bool seq_state_initial(struct guard* g);
#ifdef XV_INT
#define XV_INV_DEC (!dec_cas_ok_seen)
#define XV_INV_ACQ (refs_match_guard(self) && claim_pending == -1)
#else
#define XV_INV_DEC (!dec_cas_ok_seen && self->ref_count == in_rc)
#define XV_INV_ACQ (refs_match_guard(self) && seq_state_initial(self) && claim_pending == -1)
#endif
#define XV_HAVOC_DEC old_refcnt = nondet_uint(); new_refcnt = nondet_uint(); dec_cas_exp = nondet_uint(); dec_cas_des = nondet_uint(); dec_cas_last_ok = nondet_bool(); \
                     dec_cas_order = nondet_int(); xv_clock = nondet_u64(); XV_ASSUME(xv_clock < ((uint64_t)1 << 60))
static void havoc_acq(struct guard* g);
/* free_list::pop */
int fl_owned = -1; _Bool fl_cleared, fl_des_matches; unsigned n_claim_clear[NP]; int fl_last_nf_obj; mptr fl_last_nf_val;
static _Bool flpop_inv(struct guard* g);
static void havoc_flpop(struct guard* g);
#define XV_INV_FLPOP (flpop_inv(&guard))
#define XV_HAVOC_FLPOP havoc_flpop(&guard) /* guard, self->head (through the environment), counts and next_free reached via O_ref_count / O_next_free, ghost state */
/* add_nodes */
mptr in_head; struct obj* addn_last; _Bool addn_cas_ok_seen, addn_cas_last_ok; mptr addn_cas_exp, addn_cas_des, addn_tail_at_cas; int addn_cas_order; unsigned addn_stores_other;
#ifdef XV_INT
#define XV_INV_ADDN (!addn_cas_ok_seen && addn_stores_other == 0)
#else
#define XV_INV_ADDN (!addn_cas_ok_seen && addn_stores_other == 0 && self->head == in_head && old == in_head)
#endif
#define XV_HAVOC_ADDN /* self->head: written only by the successful CAS, which ends the loop (in INT mode the environment rewrites it in xv_env) */ old = nondet_word(); O_next_free((*last)) = nondet_uptr(); addn_cas_last_ok = nondet_bool(); addn_cas_exp = nondet_uptr(); addn_cas_des = nondet_uptr(); \
                      addn_tail_at_cas = nondet_uptr(); addn_cas_order = nondet_int(); xv_clock = nondet_u64(); XV_ASSUME(xv_clock < ((uint64_t)1 << 60))
#define XV_HAVOC_ACQ havoc_acq(self) /* writes self->ptr, the counts reached through O_ref_count(*GDEREF(q)), and all ghost state */

#include "lowered.h"
#ifdef XV_SOLO
/* SOLO termination runs: the harnesses below call the texts that keep their original retry loops */
#define lfrc_decrement_refcnt lfrc_decrement_refcnt_solo
#define lfrc_g_acquire lfrc_g_acquire_solo
#define lfrc_fl_add_nodes lfrc_fl_add_nodes_solo
#endif

/* ================= monitors, stubs ================= */
static void mon_load(void* a, uint64_t v, int o) {
  for (unsigned k = 0; k < NP; k++) if (a == (void*)&pool[k].next_free) { fl_last_nf_obj = (int)k; fl_last_nf_val = (mptr)v; }
  if (a == (void*)mon_src) { mon_src_loads++; mon_src_last = (mptr)v; mon_src_last_clock = xv_clock; mon_src_last_order = o; }
}
static void mon_store(void* a, uint64_t v, int o) {
  for (unsigned k = 0; k < NP; k++) if (a == (void*)&pool[k].next_free && &pool[k] != addn_last) addn_stores_other++;
}
static void mon_rmw(void* a, uint64_t oldv, uint64_t newv, int o) {
  for (unsigned k = 0; k < NP; k++) if (a == (void*)&pool[k].ref_count) {
    unsigned d = (unsigned)newv - (unsigned)oldv;
    if (d == RefCountInc) { n_inc[k]++; my_refs[k]++; last_inc_clock[k] = xv_clock; mon_last_inc_order = o; }
    else if (d == 0u - RefCountInc) { n_fsub[k]++; my_refs[k]--; }
    else if (d == 0u - RefCountClaimBit) { n_claim_clear[k]++; if ((int)k == fl_owned) fl_cleared = 1; }
    else n_other_rmw++;
  }
}
static void mon_cas(void* a, uint64_t e, uint64_t d, _Bool ok, int o) {
  if (a == (void*)&g_fl.head) { addn_cas_exp = (mptr)e; addn_cas_des = (mptr)d; addn_cas_last_ok = ok; addn_cas_order = o; addn_tail_at_cas = addn_last ? addn_last->next_free : 0; if (ok) addn_cas_ok_seen = 1;
    fl_des_matches = (fl_last_nf_obj >= 0 && fl_last_nf_obj == idx_of(mp_get((mptr)e)) && fl_last_nf_val == (mptr)d); if (ok) fl_owned = idx_of(mp_get((mptr)e)); }
  if (dec_obj && a == (void*)&dec_obj->ref_count) { dec_cas_exp = (unsigned)e; dec_cas_des = (unsigned)d; dec_cas_last_ok = ok; dec_cas_order = o; if (ok) dec_cas_ok_seen = 1; }
}
/* contract of decrement_refcnt (proved by runs decrement / decrement_int): count part - 1; returns true iff the count part was 1 and the
 * claim bit clear, and then the claim bit is set */
static _Bool stub_decrement(struct obj* o) {
  XV_ENV();
  int k = idx_of(o);
  XV_OBL("lfrc.decrement.holds_reference", k >= 0 && COUNT(o->ref_count) >= 1 && my_refs[k] >= 1);
  unsigned old = o->ref_count;
  _Bool r = COUNT(old) == 1 && !CLAIMED(old);
  o->ref_count = (COUNT(old) - 1) * RefCountInc + ((CLAIMED(old) || r) ? RefCountClaimBit : 0);
  XV_OBL("lfrc.reset.destroy_iff_claimed", claim_pending == -1);
  n_dec[k]++; my_refs[k]--; if (r) { dec_true[k] = 1; claim_pending = k; } last_dec_clock[k] = ++xv_clock;
  return r;
}
static void stub_destroy(struct obj* o) {
  int k = idx_of(o);
  XV_OBL("lfrc.reset.destroy_iff_claimed", k >= 0 && claim_pending == k && !o->destroyed);
  n_destroy[k]++; destroy_clock[k] = ++xv_clock; lfrc_ecp_dtor(o);      /* p->~T() ends with the real ~enable_concurrent_ptr (lowered text) */
  XV_OBL("lfrc.reset.destroy_iff_claimed", o->destroyed);
}
static void stub_push_to_free_list(struct obj* o) {
  int k = idx_of(o);
  XV_OBL("lfrc.reset.destroy_iff_claimed", k >= 0 && claim_pending == k && CLAIMED(o->ref_count) && o->destroyed);
  n_push[k]++; push_clock[k] = ++xv_clock; claim_pending = -1;
}
/* composed runs: the real callee, plus the same ghost bookkeeping / call-site obligations as the contract stub */
static _Bool real_decrement(struct obj* o) {
  int k = idx_of(o);
  XV_OBL("lfrc.decrement.holds_reference", k >= 0 && COUNT(o->ref_count) >= 1 && my_refs[k] >= 1);
  XV_OBL("lfrc.reset.destroy_iff_claimed", claim_pending == -1);
  dec_obj = o; in_rc = o->ref_count; dec_cas_ok_seen = 0;
  _Bool r = lfrc_decrement_refcnt(o);
  n_dec[k]++; my_refs[k]--; if (r) { dec_true[k] = 1; claim_pending = k; } last_dec_clock[k] = ++xv_clock;
  return r;
}
static void real_push_to_free_list(struct obj* o) {
  int k = idx_of(o);
  XV_OBL("lfrc.reset.destroy_iff_claimed", k >= 0 && claim_pending == k && CLAIMED(o->ref_count) && o->destroyed);
  n_push[k]++; push_clock[k] = ++xv_clock; claim_pending = -1;
  lfrc_fl_push(o);
}
static void stub_add_nodes(struct obj* a, struct obj* b) { n_add_nodes++; add_first = a; add_last = b; }
unsigned in_pop_kind;
static struct obj* stub_fl_pop(void) {
  /* contract of free_list::pop as far as operator new relies on it: nullptr, or a node whose claim bit has been cleared and whose count part was incremented */
  n_fl_pop++;
  if (in_pop_kind == 0) { popped = 0; return 0; }
  unsigned k = nondet_uint(); XV_ASSUME(k < NP); XV_ASSUME(!CLAIMED(pool[k].ref_count) && COUNT(pool[k].ref_count) >= 1);
  popped = &pool[k]; return popped;
}
static struct obj* raw_new(size_t sz) { n_raw_new++; fresh_obj.ref_count = nondet_uint(); fresh_obj.destroyed = nondet_bool(); fresh_obj.next_free = nondet_uptr(); return &fresh_obj; }

static _Bool refs_match_guard(struct guard* g) {
  for (unsigned k = 0; k < NP; k++) if (my_refs[k] != (mp_get(g->ptr) == &pool[k] ? 1 : 0) + extra_refs[k]) return 0;
  return 1;
}
static _Bool seq_state_initial(struct guard* g) {
  if (g->ptr != in_self || mon_src_loads != 0) return 0;
  for (unsigned k = 0; k < NP; k++) if (pool[k].ref_count != in_rc0[k] || pool[k].destroyed != in_destroyed0[k] || n_inc[k] || n_dec[k] || n_destroy[k] || n_push[k] || dec_true[k]) return 0;
  return 1;
}
static void havoc_acq(struct guard* g) {
  g->ptr = nondet_word();
  xv_clock = nondet_u64(); XV_ASSUME(xv_clock < ((uint64_t)1 << 60));
  for (unsigned k = 0; k < NP; k++) {
    pool[k].ref_count = nondet_uint(); pool[k].destroyed = nondet_bool(); my_refs[k] = nondet_int();
    n_inc[k] = nondet_uint(); n_dec[k] = nondet_uint(); n_destroy[k] = nondet_uint(); n_push[k] = nondet_uint(); dec_true[k] = nondet_bool();
    XV_ASSUME(n_inc[k] < (1u << 30) && n_dec[k] < (1u << 30) && n_destroy[k] < (1u << 30) && n_push[k] < (1u << 30));   /* ghost counters do not wrap */
    last_inc_clock[k] = nondet_u64(); last_dec_clock[k] = nondet_u64(); destroy_clock[k] = nondet_u64(); push_clock[k] = nondet_u64();
    XV_ASSUME(last_inc_clock[k] <= xv_clock && last_dec_clock[k] <= xv_clock && destroy_clock[k] <= xv_clock && push_clock[k] <= xv_clock);
    XV_ASSUME(my_refs[k] <= 0 || COUNT(pool[k].ref_count) >= (unsigned)my_refs[k]);     /* rely */
  }
  mon_src_loads = nondet_uint(); mon_src_last = nondet_uptr(); mon_src_last_clock = nondet_u64(); mon_src_last_order = nondet_int(); XV_ASSUME(mon_src_last_clock <= xv_clock && mon_src_loads < (1u << 30));
  claim_pending = nondet_int();
#ifdef XV_INT
  *mon_src = nondet_word();
#endif
}
static _Bool flpop_inv(struct guard* g) {
  if (claim_pending != -1 || fl_owned != -1 || fl_cleared) return 0;
  for (unsigned k = 0; k < NP; k++) if (extra_refs[k] != 0 || n_claim_clear[k] != 0 || my_refs[k] != (mp_get(g->ptr) == &pool[k] ? 1 : 0)) return 0;
#ifndef XV_INT
  if (!seq_state_initial(g) || g_fl.head != in_head) return 0;
  for (unsigned k = 0; k < NP; k++) if (pool[k].next_free != nf0[k]) return 0;
#endif
  return 1;
}
static void havoc_flpop(struct guard* g) {
  havoc_acq(g);
  fl_owned = nondet_int(); fl_cleared = nondet_bool(); fl_des_matches = nondet_bool(); fl_last_nf_obj = nondet_int(); fl_last_nf_val = nondet_uptr();
  addn_cas_last_ok = nondet_bool(); addn_cas_exp = nondet_uptr(); addn_cas_des = nondet_uptr();
  for (unsigned k = 0; k < NP; k++) { n_claim_clear[k] = nondet_uint(); XV_ASSUME(n_claim_clear[k] < (1u << 30)); if (my_refs[k] <= 0) pool[k].next_free = nondet_word(); }
}
#ifdef XV_INT
void xv_env(void) {
  if (env_kind == 1) {
    if (mon_src) *mon_src = nondet_word();
    for (unsigned k = 0; k < NP; k++) {
      if (claim_pending == (int)k) { pool[k].ref_count = nondet_uint() | RefCountClaimBit; continue; }   /* claimed by this thread: only stale increments/decrements of others */
      pool[k].ref_count = nondet_uint(); if (my_refs[k] <= 0) pool[k].destroyed = nondet_bool();
      XV_ASSUME(my_refs[k] <= 0 || COUNT(pool[k].ref_count) >= (unsigned)my_refs[k]);
    }
  }
  if (env_kind == 3) g_fl.head = nondet_word();      /* add_nodes: other threads push and pop */
  if (env_kind == 4) {                                /* free_list::pop: head, counts, next_free of nodes this thread does not guard */
    g_fl.head = nondet_word();
    for (unsigned k = 0; k < NP; k++) {
      if (claim_pending == (int)k) { pool[k].ref_count = nondet_uint() | RefCountClaimBit; continue; }
      unsigned w = nondet_uint();
      if ((int)k == fl_owned) w = fl_cleared ? (w & ~RefCountClaimBit) : (w | RefCountClaimBit);     /* popped by this thread: only stale increments/decrements of others */
      else if (mp_get(g_fl.head) == &pool[k]) w |= RefCountClaimBit;                                  /* rely: a node on the free list carries the claim bit */
      pool[k].ref_count = w;
      XV_ASSUME(my_refs[k] <= 0 || COUNT(pool[k].ref_count) >= (unsigned)my_refs[k]);
      if (my_refs[k] <= 0 && (int)k != fl_owned) { pool[k].next_free = nondet_word(); pool[k].destroyed = nondet_bool(); }
    }
  }
  if (env_kind == 2) {         /* decrement_refcnt: the count of the object changes, this thread's reference stays */
    dec_obj->ref_count = nondet_uint(); XV_ASSUME(COUNT(dec_obj->ref_count) >= 1);
  }
}
#endif

/* ================= state ================= */
struct guard ga, gb;
static unsigned holders(unsigned k) { return (mp_get(ga.ptr) == &pool[k] ? 1u : 0u) + (mp_get(gb.ptr) == &pool[k] ? 1u : 0u); }
static void reset_ghost(void) {
  for (unsigned k = 0; k < NP; k++) { n_inc[k] = n_dec[k] = n_fsub[k] = n_destroy[k] = n_push[k] = 0; dec_true[k] = 0; destroy_clock[k] = push_clock[k] = last_inc_clock[k] = last_dec_clock[k] = 0; }
  mon_src = 0; mon_src_loads = 0; n_other_rmw = 0; dec_cas_ok_seen = 0; dec_cas_last_ok = 0; dec_obj = 0; fl_owned = -1; fl_cleared = 0; fl_des_matches = 0; fl_last_nf_obj = -1; for (unsigned k = 0; k < NP; k++) { extra_refs[k] = 0; n_claim_clear[k] = 0; } addn_last = 0; addn_cas_ok_seen = addn_cas_last_ok = 0; addn_stores_other = 0; claim_pending = -1; n_add_nodes = n_raw_new = n_fl_pop = 0; add_first = add_last = popped = 0; xv_clock = 1;
}
/* objects with arbitrary count words, at least as many references as guards of this thread point to them; two guards */
static void havoc_objects(_Bool use_a, _Bool use_b) {
  in_self = use_a ? nondet_word() : 0; in_src = use_b ? nondet_word() : 0; ga.ptr = in_self; gb.ptr = in_src;
  reset_ghost();
  for (unsigned k = 0; k < NP; k++) {
    in_rc0[k] = nondet_uint(); in_destroyed0[k] = nondet_bool(); pool[k].ref_count = in_rc0[k]; pool[k].destroyed = in_destroyed0[k]; pool[k].next_free = nondet_uptr();
    my_refs[k] = (int)holders(k);
    XV_ASSUME(COUNT(in_rc0[k]) >= holders(k) && COUNT(in_rc0[k]) < 0x7FFFFFF0u / RefCountInc);   /* assumption: fewer than 2^30 references per object */
  }
  in_max_local = nondet_size(); g_tl.head = 0; g_tl.number_of_elements = 0;
}
static unsigned spec_dec(unsigned old) { _Bool r = COUNT(old) == 1 && !CLAIMED(old); return (COUNT(old) - 1) * RefCountInc + ((CLAIMED(old) || r) ? RefCountClaimBit : 0); }
static _Bool spec_dec_ret(unsigned old) { return COUNT(old) == 1 && !CLAIMED(old); }
/* expected effect of one guard operation on object k: `dec` decrements first, then `inc` increments */
static void check_obj(unsigned k, unsigned dec, unsigned inc) {
  unsigned e = in_rc0[k]; _Bool claimed_now = 0;
  for (unsigned i = 0; i < 2; i++) if (i < dec) { if (spec_dec_ret(e)) claimed_now = 1; e = spec_dec(e); }
  e += inc * RefCountInc;
  XV_OBL("lfrc.guard.algebra", pool[k].ref_count == e && n_dec[k] + n_fsub[k] == dec && n_inc[k] == inc && n_other_rmw == 0);
  XV_OBL("lfrc.guard.algebra", my_refs[k] == (int)holders(k));
  XV_OBL("lfrc.reset.destroy_iff_claimed", claim_pending == -1);
  XV_OBL("lfrc.reset.destroy_iff_claimed", n_push[k] == (claimed_now ? 1u : 0u) && n_destroy[k] == ((claimed_now && !in_destroyed0[k]) ? 1u : 0u));
  XV_OBL("lfrc.reset.destroy_iff_claimed", !n_destroy[k] || destroy_clock[k] < push_clock[k]);
  XV_OBL("lfrc.reset.destroy_iff_claimed", pool[k].destroyed == (in_destroyed0[k] || claimed_now));
}
#define OBJ(w) idx_of(mp_get(w))

void h_layout(void) {
  XV_OBL("lfrc.layout", RefCountClaimBit == 1 && RefCountInc == 2);     /* LSB = claim bit, count above it (refs() shifts by 1) */
}

/* ================= decrement_refcnt: every 32-bit value ================= */
void h_decrement(void) {
  reset_ghost();
  in_rc = nondet_uint(); struct obj o; o.ref_count = in_rc; o.destroyed = nondet_bool(); o.next_free = nondet_uptr(); _Bool d0 = o.destroyed; mptr onf = o.next_free;
  dec_obj = &o;
#ifdef XV_INT
  XV_ASSUME(COUNT(in_rc) >= 1); env_kind = 2;
#endif
  _Bool r = lfrc_decrement_refcnt(&o);
#ifdef XV_INT
  env_kind = 0;
#endif
  unsigned e = dec_cas_exp;        /* the value the successful CAS replaced */
  XV_OBL("lfrc.decrement.claims_once", dec_cas_last_ok && dec_cas_ok_seen);
  XV_OBL("lfrc.decrement.claims_once", r == (COUNT(e) == 1 && !CLAIMED(e)));
  if (COUNT(e) >= 1) XV_OBL("lfrc.decrement.claims_once", dec_cas_des == spec_dec(e) && COUNT(dec_cas_des) == COUNT(e) - 1 && CLAIMED(dec_cas_des) == (CLAIMED(e) || r));
  if (r) XV_OBL("lfrc.decrement.claims_once", dec_cas_des == RefCountClaimBit);
  /* the claiming decrement acquires; dropping a reference to a live (unclaimed) object releases */
  XV_OBL("lfrc.sync.orders", r ? XV_IS_ACQUIRE(dec_cas_order) : (CLAIMED(e) || XV_IS_RELEASE(dec_cas_order)));
#ifndef XV_INT
  XV_OBL("lfrc.decrement.claims_once", e == in_rc && o.ref_count == dec_cas_des);
#endif
  XV_OBL("lfrc.decrement.claims_once", o.destroyed == d0 && o.next_free == onf);
  if (r) XV_CANARY("decrement.claimed"); else if (CLAIMED(e) && COUNT(e) == 1) XV_CANARY("decrement.already_claimed"); else if (COUNT(e) > 1) XV_CANARY("decrement.shared");
#ifndef XV_INT
  if (COUNT(e) == 0) XV_CANARY("decrement.underflow_value");
#endif
}

/* ================= guard algebra (C15): protections = count ================= */
void h_g_ctor(void) {
  havoc_objects(0, 0); mptr p = nondet_word(); in_src = p; ga.ptr = nondet_word();     /* ga: raw storage */
  lfrc_g_ctor(&ga, p);
  unsigned k = nondet_uint(); XV_ASSUME(k < NP);
  XV_OBL("lfrc.guard.algebra", ga.ptr == p);
  check_obj(k, 0, OBJ(p) == (int)k);
  if (OBJ(p) == (int)k) XV_CANARY("g_ctor.nonnull"); if (p != 0 && OBJ(p) < 0) XV_CANARY("g_ctor.mark_only");
}
void h_g_copy_ctor(void) {
  havoc_objects(0, 1); ga.ptr = nondet_word();
  lfrc_g_copy_ctor(&ga, &gb);
  unsigned k = nondet_uint(); XV_ASSUME(k < NP);
  XV_OBL("lfrc.guard.algebra", ga.ptr == in_src && gb.ptr == in_src);
  check_obj(k, 0, OBJ(in_src) == (int)k);
  if (OBJ(in_src) == (int)k) XV_CANARY("g_copy_ctor.nonnull");
}
void h_g_move_ctor(void) {
  havoc_objects(0, 1); ga.ptr = nondet_word();
  lfrc_g_move_ctor(&ga, &gb);
  unsigned k = nondet_uint(); XV_ASSUME(k < NP);
  XV_OBL("lfrc.guard.algebra", ga.ptr == in_src && gb.ptr == 0);
  check_obj(k, 0, 0);
  if (OBJ(in_src) == (int)k) XV_CANARY("g_move_ctor.nonnull");
}
void h_g_copy_assign(void) {
  havoc_objects(1, 1); in_same = nondet_bool();
  unsigned k = nondet_uint(); XV_ASSUME(k < NP);
  if (in_same) {
    lfrc_g_copy_assign(&ga, &ga);
    XV_OBL("lfrc.guard.algebra", ga.ptr == in_self); check_obj(k, 0, 0);
    XV_CANARY("g_copy_assign.self");
  } else {
    lfrc_g_copy_assign(&ga, &gb);
    XV_OBL("lfrc.guard.algebra", ga.ptr == in_src && gb.ptr == in_src);
    check_obj(k, OBJ(in_self) == (int)k, OBJ(in_src) == (int)k);
    if (OBJ(in_self) == (int)k && OBJ(in_src) == (int)k) XV_CANARY("g_copy_assign.same_object");
    if (OBJ(in_self) == (int)k && n_push[k]) XV_CANARY("g_copy_assign.last_reference");
    if (OBJ(in_self) != (int)k && OBJ(in_src) == (int)k) XV_CANARY("g_copy_assign.gains");
  }
}
void h_g_move_assign(void) {
  havoc_objects(1, 1); in_same = nondet_bool();
  unsigned k = nondet_uint(); XV_ASSUME(k < NP);
  if (in_same) {
    lfrc_g_move_assign(&ga, &ga);
    XV_OBL("lfrc.guard.algebra", ga.ptr == in_self); check_obj(k, 0, 0);
    XV_CANARY("g_move_assign.self");
  } else {
    lfrc_g_move_assign(&ga, &gb);
    XV_OBL("lfrc.guard.algebra", ga.ptr == in_src && gb.ptr == 0);
    check_obj(k, OBJ(in_self) == (int)k, 0);
    if (OBJ(in_self) == (int)k && OBJ(in_src) == (int)k) XV_CANARY("g_move_assign.same_object");
    if (OBJ(in_self) == (int)k && n_push[k]) XV_CANARY("g_move_assign.last_reference");
  }
}
void h_g_swap(void) {
  havoc_objects(1, 1);
  lfrc_g_swap(&ga, &gb);
  unsigned k = nondet_uint(); XV_ASSUME(k < NP);
  XV_OBL("lfrc.guard.algebra", ga.ptr == in_src && gb.ptr == in_self);
  check_obj(k, 0, 0);
  XV_CANARY("g_swap.done");
}
void h_g_reset(void) {
  havoc_objects(1, 1); in_op = nondet_uint(); XV_ASSUME(in_op < 2);
  if (in_op == 0) lfrc_g_reset(&ga); else lfrc_g_dtor(&ga);
  unsigned k = nondet_uint(); XV_ASSUME(k < NP);
  XV_OBL("lfrc.guard.algebra", ga.ptr == 0 && gb.ptr == in_src);
  check_obj(k, OBJ(in_self) == (int)k, 0);
  unsigned rc1 = pool[k].ref_count, d1 = n_dec[k], p1 = n_push[k], x1 = n_destroy[k];
  lfrc_g_reset(&ga);                                /* double reset is harmless */
  XV_OBL("lfrc.guard.algebra", ga.ptr == 0 && pool[k].ref_count == rc1 && n_dec[k] == d1 && n_push[k] == p1 && n_destroy[k] == x1);
  if (OBJ(in_self) == (int)k) { if (n_push[k]) { if (n_destroy[k]) XV_CANARY("g_reset.destroys"); else XV_CANARY("g_reset.frees_already_destroyed"); } else XV_CANARY("g_reset.shared"); }
  if (in_self != 0 && OBJ(in_self) < 0) XV_CANARY("g_reset.mark_only");
}
void h_g_reclaim(void) {
  havoc_objects(1, 1);
  unsigned k = nondet_uint(); XV_ASSUME(k < NP);
  /* requires: a non-empty guard's object is still reachable, i.e. it carries its initial reference besides those of the guards, and is reclaimed once */
  if (OBJ(in_self) >= 0) { XV_ASSUME(COUNT(in_rc0[OBJ(in_self)]) >= holders((unsigned)OBJ(in_self)) + 1); my_refs[OBJ(in_self)]++; }
  lfrc_g_reclaim(&ga);
  XV_OBL("lfrc.guard.algebra", ga.ptr == 0 && gb.ptr == in_src);
  /* the 'reachable' reference is dropped exactly once (fetch_sub), then the guard's own reference (reset) */
  XV_OBL("lfrc.reclaim.once", n_fsub[k] == (OBJ(in_self) == (int)k ? 1u : 0u) && n_dec[k] == (OBJ(in_self) == (int)k ? 1u : 0u));
  if (OBJ(in_self) == (int)k) {
    unsigned e = spec_dec(in_rc0[k] - RefCountInc);
    XV_OBL("lfrc.reclaim.once", pool[k].ref_count == e && my_refs[k] == (int)holders(k));
    _Bool last = spec_dec_ret(in_rc0[k] - RefCountInc);
    XV_OBL("lfrc.reset.destroy_iff_claimed", n_push[k] == (last ? 1u : 0u) && n_destroy[k] == ((last && !in_destroyed0[k]) ? 1u : 0u));
    if (last) XV_CANARY("g_reclaim.last"); else XV_CANARY("g_reclaim.still_guarded");
  } else check_obj(k, 0, 0);
  if (in_self == 0) XV_CANARY("g_reclaim.empty");
}

/* ================= acquire / acquire_if_equal ================= */
mptr src_cell;
static void check_acquired(int order) {
  unsigned k = nondet_uint(); XV_ASSUME(k < NP);
  /* guard algebra in terms of this thread's references: exactly one on the object now guarded, none elsewhere (failed attempts compensated) */
  XV_OBL("lfrc.guard.algebra", my_refs[k] == (mp_get(ga.ptr) == &pool[k] ? 1 : 0));
  XV_OBL("lfrc.reset.destroy_iff_claimed", claim_pending == -1);
  if (mp_get(ga.ptr) == &pool[k]) {
    /* fetch_add on the candidate precedes the validating load whose value is the result; no decrement in between or after */
    XV_OBL("lfrc.acquire.inc_then_validate", n_inc[k] >= 1 && last_inc_clock[k] < mon_src_last_clock && mon_src_last == ga.ptr && last_dec_clock[k] < last_inc_clock[k]);
    XV_OBL("lfrc.sync.orders", XV_IS_ACQUIRE(mon_last_inc_order) && mon_src_last_order == order);
  }
}
void h_g_acquire(void) {
  havoc_objects(1, 0);
  src_cell = nondet_word(); in_src = src_cell; mon_src = &src_cell; int order = nondet_int();
#ifdef XV_INT
  env_kind = 1;
#endif
  lfrc_g_acquire(&ga, &src_cell, order);
#ifdef XV_INT
  env_kind = 0;
#endif
  XV_OBL("lfrc.acquire.snapshot", mon_src_loads >= 1 && ga.ptr == mon_src_last);
  check_acquired(order);
#ifndef XV_INT
  unsigned k = nondet_uint(); XV_ASSUME(k < NP);
  XV_OBL("lfrc.acquire.snapshot", ga.ptr == in_src && src_cell == in_src);
  if (OBJ(in_self) == (int)k && OBJ(in_src) == (int)k) {     /* re-acquiring the object already held: dropped first, then taken again */
    unsigned e = spec_dec(in_rc0[k]) + RefCountInc;
    XV_OBL("lfrc.guard.algebra", pool[k].ref_count == e);
  } else check_obj(k, OBJ(in_self) == (int)k, OBJ(in_src) == (int)k);
#endif
  if (mp_get(ga.ptr) && !in_self) XV_CANARY("g_acquire.fresh"); if (mp_get(ga.ptr) && mp_get(in_self)) XV_CANARY("g_acquire.replace");
  if (!ga.ptr && mp_get(in_self)) XV_CANARY("g_acquire.null_drop"); if (ga.ptr && !mp_get(ga.ptr)) XV_CANARY("g_acquire.mark_only");
}
void h_g_acquire_if_equal(void) {
  havoc_objects(1, 0);
  src_cell = nondet_word(); in_src = src_cell; mon_src = &src_cell; int order = nondet_int(); mptr expected = nondet_word();
#ifdef XV_INT
  env_kind = 1;
#endif
  _Bool r = lfrc_g_acquire_if_equal(&ga, &src_cell, expected, order);
#ifdef XV_INT
  env_kind = 0;
#endif
  XV_OBL("lfrc.acquire_if_equal.iff", mon_src_loads >= 1 && r == (mon_src_last == expected));
  XV_OBL("lfrc.acquire_if_equal.iff", r ? ga.ptr == expected : ga.ptr == 0);
  check_acquired(order);
#ifndef XV_INT
  unsigned k = nondet_uint(); XV_ASSUME(k < NP);
  XV_OBL("lfrc.acquire_if_equal.iff", r == (in_src == expected) && src_cell == in_src);
  if (OBJ(in_self) == (int)k && r && OBJ(in_src) == (int)k) XV_OBL("lfrc.guard.algebra", pool[k].ref_count == spec_dec(in_rc0[k]) + RefCountInc);
  else check_obj(k, OBJ(in_self) == (int)k, r && OBJ(in_src) == (int)k);
#endif
  if (r && mp_get(ga.ptr)) XV_CANARY("g_aie.true"); if (r && !ga.ptr) XV_CANARY("g_aie.true_null"); if (!r && mp_get(in_self)) XV_CANARY("g_aie.false_drop");
#ifdef XV_INT
  if (!r && mon_src_loads == 2) XV_CANARY("g_aie.changed_undone");
#endif
}

/* ================= thread-local free list, free_list::push, operator new / delete ================= */
#ifndef L
#define L 3
#endif
unsigned in_len;
/* the thread-local list: in_len <= min(NP, L) nodes pool[0..in_len) linked in order through next_free; all carry the claim bit */
static void build_local_list(void) {
  reset_ghost();
  in_max_local = nondet_size();
  in_len = nondet_uint(); XV_ASSUME(in_len <= NP && in_len <= L);
  for (unsigned k = 0; k < NP; k++) {
    in_rc0[k] = nondet_uint(); in_destroyed0[k] = nondet_bool(); pool[k].ref_count = in_rc0[k]; pool[k].destroyed = in_destroyed0[k]; my_refs[k] = 0;
    pool[k].next_free = (k + 1 < in_len) ? mp_from_ptr(&pool[k + 1]) : (k < in_len ? 0 : nondet_uptr());
    if (k < in_len) XV_ASSUME(CLAIMED(in_rc0[k]) && COUNT(in_rc0[k]) < 0x3FFFFFF0u);
    nf0[k] = pool[k].next_free;
  }
  g_tl.head = in_len ? &pool[0] : 0; g_tl.number_of_elements = in_len;
}
void h_tl_push(void) {
  build_local_list(); XV_ASSUME(in_len < NP);
  struct obj* node = &pool[in_len];
  XV_ASSUME(CLAIMED(node->ref_count));                    /* free_list::push asserts it */
  _Bool r = lfrc_tl_push(&g_tl, node);
  unsigned k = nondet_uint(); XV_ASSUME(k < NP);
  XV_OBL("lfrc.freelist.conserve", r == (in_len < in_max_local));
  if (r) XV_OBL("lfrc.freelist.conserve", g_tl.head == node && g_tl.number_of_elements == in_len + 1 && node->next_free == mp_from_ptr(in_len ? &pool[0] : 0));
  else XV_OBL("lfrc.freelist.conserve", g_tl.head == (in_len ? &pool[0] : 0) && g_tl.number_of_elements == in_len && node->next_free == nf0[in_len]);
  XV_OBL("lfrc.freelist.conserve", pool[k].ref_count == in_rc0[k] && (k == in_len || pool[k].next_free == nf0[k]));
  if (r) XV_CANARY("tl_push.stored"); else XV_CANARY("tl_push.full");
}
void h_tl_pop(void) {
  build_local_list();
  struct obj* r = lfrc_tl_pop(&g_tl);
  unsigned k = nondet_uint(); XV_ASSUME(k < NP);
  XV_OBL("lfrc.freelist.conserve", r == (in_len ? &pool[0] : 0));
  if (r) {
    XV_OBL("lfrc.freelist.conserve", g_tl.head == (in_len > 1 ? &pool[1] : 0) && g_tl.number_of_elements == in_len - 1 && r->next_free == 0);
    /* the re-used node gets exactly one more reference and loses the claim bit */
    XV_OBL("lfrc.new.reinit_count", !CLAIMED(r->ref_count) && COUNT(r->ref_count) == COUNT(in_rc0[0]) + 1 && (in_rc0[0] != RefCountClaimBit || r->ref_count == RefCountInc));
    XV_OBL("lfrc.freelist.conserve", k == 0 || (pool[k].ref_count == in_rc0[k] && pool[k].next_free == nf0[k]));
    XV_CANARY("tl_pop.node"); if (in_len == L || in_len == NP) XV_CANARY("tl_pop.longest");
  } else { XV_OBL("lfrc.freelist.conserve", g_tl.head == 0 && g_tl.number_of_elements == 0 && pool[k].ref_count == in_rc0[k]); XV_CANARY("tl_pop.empty"); }
}
void h_tl_dtor(void) {
  build_local_list();
  lfrc_tl_dtor(&g_tl);
  unsigned k = nondet_uint(); XV_ASSUME(k < NP);
  if (in_len == 0) { XV_OBL("lfrc.freelist.conserve", n_add_nodes == 0); XV_CANARY("tl_dtor.empty"); }
  else { XV_OBL("lfrc.freelist.conserve", n_add_nodes == 1 && add_first == &pool[0] && add_last == &pool[in_len - 1]); XV_CANARY("tl_dtor.hands_over"); }
  XV_OBL("lfrc.freelist.conserve", pool[k].ref_count == in_rc0[k] && pool[k].next_free == nf0[k] && pool[k].destroyed == in_destroyed0[k]);
}
void h_fl_push(void) {
  build_local_list(); XV_ASSUME(in_len < NP);
  struct obj* node = &pool[in_len];
  XV_ASSUME(CLAIMED(node->ref_count));
  lfrc_fl_push(node);
  _Bool local = in_max_local > 0 && in_len < in_max_local;
  XV_OBL("lfrc.freelist.conserve", local ? (g_tl.head == node && g_tl.number_of_elements == in_len + 1 && n_add_nodes == 0)
                                         : (g_tl.head == (in_len ? &pool[0] : 0) && g_tl.number_of_elements == in_len && n_add_nodes == 1 && add_first == node && add_last == node));
  XV_OBL("lfrc.freelist.conserve", node->ref_count == in_rc0[in_len]);
  if (local) XV_CANARY("fl_push.local"); else XV_CANARY("fl_push.global");
}
/* free_list::add_nodes(first, last): first..last is a chain of nodes owned by the caller */
void h_add_nodes(void) {
  build_local_list(); XV_ASSUME(in_len >= 1);
  in_head = nondet_word(); g_fl.head = in_head;
  struct obj* first = &pool[0]; struct obj* last = &pool[in_len - 1]; addn_last = last;
#ifdef XV_INT
  env_kind = 3;
#endif
  lfrc_fl_add_nodes(&g_fl, first, last);
#ifdef XV_INT
  env_kind = 0;
#endif
  unsigned k = nondet_uint(); XV_ASSUME(k < NP);
  XV_OBL("lfrc.freelist.push_links", addn_cas_last_ok && addn_cas_ok_seen && addn_cas_des == mp_from_ptr(first) && addn_tail_at_cas == addn_cas_exp);
  XV_OBL("lfrc.sync.orders", XV_IS_RELEASE(addn_cas_order));
#ifndef XV_INT
  XV_OBL("lfrc.freelist.push_links", g_fl.head == mp_from_ptr(first) && last->next_free == in_head && addn_cas_exp == in_head);
#endif
  XV_OBL("lfrc.freelist.push_links", addn_stores_other == 0 && pool[k].ref_count == in_rc0[k] && (&pool[k] == last || pool[k].next_free == nf0[k]));
  if (in_len == 1) XV_CANARY("add_nodes.single"); else XV_CANARY("add_nodes.chain");
}
/* free_list::pop, global half: the thread-local list is empty; the global list holds in_len nodes pool[0..in_len) */
void h_fl_pop(void) {
  build_local_list();
  g_tl.head = 0; g_tl.number_of_elements = 0;
  in_head = in_len ? mp_from_ptr(&pool[0]) : 0; g_fl.head = in_head; in_self = 0; mon_src = &g_fl.head;
#ifdef XV_INT
  env_kind = 4;
#endif
  struct obj* r = lfrc_fl_pop(&g_fl);
#ifdef XV_INT
  env_kind = 0;
#endif
  unsigned k = nondet_uint(); XV_ASSUME(k < NP);
  XV_OBL("lfrc.freelist.pop_owns", my_refs[k] == (r == &pool[k] ? 1 : 0) && claim_pending == -1 && extra_refs[k] == 0);
  if (r) {
    int kr = idx_of(r);
    XV_OBL("lfrc.freelist.pop_owns", addn_cas_last_ok && fl_owned == kr && mp_get(addn_cas_exp) == r && fl_des_matches);
    XV_OBL("lfrc.freelist.pop_owns", n_claim_clear[kr] == 1 && !CLAIMED(r->ref_count) && COUNT(r->ref_count) >= 1 && r->next_free == 0);
    XV_OBL("lfrc.freelist.pop_owns", n_claim_clear[k] == (k == (unsigned)kr ? 1u : 0u));
  } else {
    XV_OBL("lfrc.freelist.pop_owns", mon_src_loads >= 1 && mp_get(mon_src_last) == 0 && fl_owned == -1 && n_claim_clear[k] == 0);
  }
#ifndef XV_INT
  XV_OBL("lfrc.freelist.pop_owns", r == (in_len ? &pool[0] : 0) && g_fl.head == (in_len ? nf0[0] : in_head));
  if (r) XV_OBL("lfrc.new.reinit_count", r->ref_count == in_rc0[0] + RefCountInc - RefCountClaimBit);
  if (!(r && k == 0)) XV_OBL("lfrc.freelist.conserve", pool[k].ref_count == in_rc0[k] && pool[k].next_free == nf0[k]);
  XV_OBL("lfrc.freelist.conserve", n_destroy[k] == 0 && n_push[k] == 0 && g_tl.head == 0 && n_add_nodes == 0);
#endif
  if (r) XV_CANARY("fl_pop.node"); else XV_CANARY("fl_pop.empty");
#ifdef XV_INT
  if (r && n_dec[idx_of(r)] > 0) XV_CANARY("fl_pop.after_retry");
#endif
}
void h_op_new(void) {
  havoc_objects(0, 0); in_pop_kind = nondet_uint(); XV_ASSUME(in_pop_kind < 2);
  size_t sz = XV_SIZEOF_T;                       /* requires (asserted by the function): sz == sizeof(T) */
  struct obj* r = lfrc_op_new(sz);
  XV_OBL("lfrc.new.reinit_count", r != 0 && n_fl_pop == 1);
  if (in_pop_kind == 0) { XV_OBL("lfrc.new.reinit_count", r == &fresh_obj && n_raw_new == 1 && r->ref_count == RefCountInc); XV_CANARY("op_new.fresh"); }
  else { XV_OBL("lfrc.new.reinit_count", r == popped && n_raw_new == 0 && !CLAIMED(r->ref_count) && COUNT(r->ref_count) >= 1 && r->ref_count == in_rc0[idx_of(r)]); XV_CANARY("op_new.reused"); }
}
void h_op_delete(void) {
  havoc_objects(1, 0);
  unsigned k0 = nondet_uint(); XV_ASSUME(k0 < NP);
  /* requires: the caller (delete expression, after ~T) owns one reference; the destructor has run */
  XV_ASSUME(COUNT(in_rc0[k0]) >= holders(k0) + 1 && !CLAIMED(in_rc0[k0])); my_refs[k0]++; pool[k0].destroyed = 1; in_destroyed0[k0] = 1;
  lfrc_op_delete(&pool[k0]);
  unsigned k = nondet_uint(); XV_ASSUME(k < NP);
  check_obj(k, k == k0, 0);
  XV_OBL("lfrc.reset.destroy_iff_claimed", n_destroy[k] == 0);
  if (n_push[k0]) XV_CANARY("op_delete.freed"); else XV_CANARY("op_delete.still_guarded");
}

/* composed: reset() with the real decrement_refcnt, free_list::push and thread_local_free_list::push (SEQ) */
void h_g_reset_composed(void) {
  havoc_objects(1, 1);
  lfrc_g_reset(&ga);
  unsigned k = nondet_uint(); XV_ASSUME(k < NP);
  XV_OBL("lfrc.guard.algebra", ga.ptr == 0 && gb.ptr == in_src);
  check_obj(k, OBJ(in_self) == (int)k, 0);
  int ko = OBJ(in_self);
  if (ko >= 0 && n_push[ko]) {
    _Bool local = in_max_local > 0;
    XV_OBL("lfrc.freelist.conserve", local ? (g_tl.head == &pool[ko] && g_tl.number_of_elements == 1 && n_add_nodes == 0 && pool[ko].next_free == 0)
                                           : (g_tl.head == 0 && n_add_nodes == 1 && add_first == &pool[ko] && add_last == &pool[ko]));
    if (local) XV_CANARY("g_reset_composed.local"); else XV_CANARY("g_reset_composed.global");
  } else { XV_OBL("lfrc.freelist.conserve", n_add_nodes == 0 && g_tl.head == 0); if (ko >= 0) XV_CANARY("g_reset_composed.shared"); }
}

/* composed: operator new on top of the real free_list::pop (thread-local and global half), SEQ */
unsigned in_where;
void h_op_new_composed(void) {
  build_local_list(); in_where = nondet_uint(); XV_ASSUME(in_where < 2);      /* 0: the nodes are in the thread-local list, 1: in the global list */
  if (in_where == 1) { g_tl.head = 0; g_tl.number_of_elements = 0; in_head = in_len ? mp_from_ptr(&pool[0]) : 0; } else in_head = 0;
  g_fl.head = in_head; in_self = 0; mon_src = &g_fl.head;
  struct obj* r = lfrc_op_new(XV_SIZEOF_T);
  _Bool reuse = in_len > 0 && (in_where == 1 || in_max_local > 0);
  unsigned k = nondet_uint(); XV_ASSUME(k < NP);
  if (reuse) {
    XV_OBL("lfrc.new.reinit_count", r == &pool[0] && n_raw_new == 0 && r->ref_count == in_rc0[0] + RefCountInc - RefCountClaimBit && !CLAIMED(r->ref_count) && r->next_free == 0);
    XV_OBL("lfrc.freelist.conserve", in_where == 1 ? (g_fl.head == nf0[0] && g_tl.head == 0) : (g_tl.head == (in_len > 1 ? &pool[1] : 0) && g_tl.number_of_elements == in_len - 1 && g_fl.head == in_head));
    if (in_where) XV_CANARY("op_new_composed.global"); else XV_CANARY("op_new_composed.local");
  } else {
    XV_OBL("lfrc.new.reinit_count", r == &fresh_obj && n_raw_new == 1 && r->ref_count == RefCountInc);
    XV_OBL("lfrc.freelist.conserve", g_fl.head == in_head && g_tl.number_of_elements == (in_where ? 0 : in_len));
    if (in_len > 0) XV_CANARY("op_new_composed.local_disabled"); else XV_CANARY("op_new_composed.fresh");
  }
  if (!(reuse && k == 0)) XV_OBL("lfrc.freelist.conserve", pool[k].ref_count == in_rc0[k] && pool[k].next_free == nf0[k]);
  XV_OBL("lfrc.freelist.conserve", n_destroy[k] == 0 && n_push[k] == 0 && n_add_nodes == 0 && my_refs[k] == ((reuse && in_where == 1 && k == 0) ? 1 : 0));
}

/* header accessors, constructor and destructor of enable_concurrent_ptr (real text) */
void h_hdr(void) {
  struct obj o; o.ref_count = nondet_uint(); o.destroyed = nondet_bool(); o.next_free = nondet_word();
  unsigned rc = o.ref_count; mptr nf = o.next_free; _Bool d = o.destroyed;
  XV_OBL("lfrc.header.accessors", lfrc_hdr_refs(&o) == COUNT(rc) && lfrc_hdr_is_destroyed(&o) == d);       /* refs() drops the claim bit and nothing else (layout: lfrc.layout) */
  XV_OBL("lfrc.header.accessors", lfrc_hdr_ref_count(&o) == &o.ref_count && lfrc_hdr_destroyed(&o) == &o.destroyed && lfrc_hdr_next_free(&o) == &o.next_free);
  XV_OBL("lfrc.header.accessors", o.ref_count == rc && o.next_free == nf && o.destroyed == d);
  if (nondet_bool()) { lfrc_ecp_ctor(&o); XV_OBL("lfrc.header.accessors", !o.destroyed && o.ref_count == rc && o.next_free == nf); XV_CANARY("hdr.ctor"); }
  else { XV_ASSUME(!d); lfrc_ecp_dtor(&o); XV_OBL("lfrc.header.accessors", o.destroyed && o.ref_count == rc && o.next_free == nf); XV_CANARY("hdr.dtor"); }
}
