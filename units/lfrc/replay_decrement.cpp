// native replay for lfrc.decrement.claims_once: sets the real object's count word to in_rc, calls the real decrement_refcnt
// and checks result and new word.  exit 0 holds / 1 violated / 2 cannot represent
#include <xenium/reclamation/lock_free_ref_count.hpp>
#include <cstdio>
#include <cstdlib>
#include <cstring>
#include <map>
#include <string>
using R = xenium::reclamation::lock_free_ref_count<>;
struct Node : R::enable_concurrent_ptr<Node> { int v = 0; };
int main(int argc, char** argv) {
  std::map<std::string, unsigned long long> args;
  for (int i = 1; i < argc; ++i) { char* eq = strchr(argv[i], '='); if (!eq) continue; args[std::string(argv[i], eq - argv[i])] = strtoull(eq + 1, 0, 0); }
  unsigned rc = (unsigned)args["in_rc"];
  const unsigned INC = R::RefCountInc, CLAIM = R::RefCountClaimBit;
  Node* n = new Node();
  n->ref_count().store(rc);
  bool r = n->decrement_refcnt();
  unsigned after = n->ref_count().load();
  unsigned count = rc / INC; bool claimed = (rc & CLAIM) != 0;
  bool exp_r = count == 1 && !claimed;
  int bad = 0;
  if (r != exp_r) { printf("VIOLATED: decrement_refcnt on word %u (count %u, claim %d) returned %d\n", rc, count, claimed, r); bad++; }
  if (count >= 1) {
    unsigned exp = (count - 1) * INC + ((claimed || exp_r) ? CLAIM : 0);
    if (after != exp) { printf("VIOLATED: word %u became %u, expected %u\n", rc, after, exp); bad++; }
  }
  printf("%d violation(s): word %u -> %u, returned %d\n", bad, rc, after, r);
  fflush(stdout); _Exit(bad ? 1 : 0);
}
