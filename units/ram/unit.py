F = 'xenium/ramalhete_queue.hpp'
Q = r'ramalhete_queue<T, Policies\.\.\.>::'

# rules shared by the queue member functions (push / pop / ctor / dtor)
COMMON = dict(
    members=['_head', '_tail'],
    methods={'acquire': 'G_acquire', 'reclaim': 'G_reclaim', 'get': 'MV_get',
             'has_value': 'OPT_has', 'value': 'OPT_value'},
    calls={'marked_value': 'MV_make'},
    pre_subst=[(r'\bbackoff backoff;', '', 'drop_backoff_decl'),
               (r'\bramalhete_queue::backoff retry_backoff;', '', 'drop_backoff_decl'),
               (r'\b(retry_)?backoff\(\);', 'XV_BACKOFF();', 'backoff_call'),
               (r'\bguard_ptr (\w+);', r'guard_ptr \1 = 0;', 'guard_default_ctor'),
               (r'\bnode\* new_node = new node\(raw_val\);', 'marked_ptr new_node = XV_NEW_NODE(raw_val);', 'new_node'),
               (r'\bauto n = new node\(nullptr\);', 'marked_ptr n = XV_NEW_NODE(0);', 'new_node'),
               (r'\bdelete new_node;', 'XV_DELETE_NODE(new_node);', 'delete_node'),
               (r'\bdelete n\.get\(\);', 'XV_DELETE_NODE(n);', 'delete_node')],
    subst=[(r'\btraits::', 'TR_', 'traits'), (r'\bstd::ignore\s*=', '(void)', 'ignore'), (r'\bstd::nullopt\b', 'XV_NULLOPT', 'nullopt')],
    deref={'t': 'GDEREF', 'h': 'GDEREF', 'new_node': 'GDEREF', 'n': 'GDEREF'},
    # nodes are kept as one small array per member (cheap for cbmc): node->member becomes N_member(node)
    post_subst=[(r'GDEREF\((\w+)\)->entries\[([^\]]+)\]\.value', r'N_entry(\1, \2)', 'node_entry'),
                (r'GDEREF\((\w+)\)->(\w+)', r'N_\2(\1)', 'node_member')],
)
PUSH = dict(COMMON, file=F, sig=r'void ' + Q + r'push\(value_type value\)', may_throw=['XV_NEW_NODE'],
            must_fire={'A_LOAD': 3, 'A_FADD': 1, 'A_CAS': 4, 'A_STORE': 1, 'method:acquire': 1, 'subst:new_node': 1, 'subst:delete_node': 1,
                       'subst:traits': 3, 'throw': 1, 'subst:backoff_call': 1})
POP = dict(COMMON, file=F, sig=r'auto ' + Q + r'pop\(\) -> std::optional<value_type>', dflt='XV_NULLOPT',
           must_fire={'A_LOAD': 7, 'A_FADD': 1, 'A_CAS': 1, 'A_XCHG': 1, 'method:acquire': 1, 'method:reclaim': 1, 'subst:traits': 2,
                      'subst:nullopt': 1, 'call:marked_value': 1})
NODE = dict(file=F, members=['pop_idx', 'push_idx', 'entries', 'next'], methods={'get': 'MV_get'},
            subst=[(r'\btraits::', 'TR_', 'traits'), (r'\bstd::min\b', 'XV_MIN', 'min')],
            post_subst=[(r'self->entries\[([^\]]+)\]\.value', r'N_entry(self, \1)', 'node_entry'),
                        (r'self->(\w+)', r'N_\1(self)', 'node_member')])

E_QUICK = list(range(1, 17)) + [22, 33, 64, 128, 512, 1024, 2048]
def idx_runs():
    rs = []
    for e in range(1, 2049):
        tiers = ['quick', 'thorough'] if e in E_QUICK else ['thorough']
        rs.append(dict(id='idx%d' % e, entry='h_idx', tiers=tiers, cls='unbounded', defs={'XV_E': e},
                       note='pure arithmetic for entries_per_node = %d, both tickets symbolic' % e))
    return rs
def shape_runs(rid, entry, shapes, quick, **kw):
    rs = []
    for (e, r) in shapes:
        d = {'XV_E': e, 'XV_R': r}
        d.update(kw.get('defs', {}))
        k = dict(kw); k.pop('defs', None)
        rs.append(dict(k, id='%s_e%d_r%d' % (rid, e, r), entry=entry, tiers=['quick', 'thorough'] if (e, r) in quick else ['thorough'],
                       defs=d))
    return rs

ES = [1, 2, 3, 4, 5, 8]
def per_e(rid, entry, quick_es, unwind, es=ES, **kw):
    rs = []
    for e in es:
        d = {'XV_E': e}; d.update(kw.get('defs', {}))
        k = dict(kw); k.pop('defs', None)
        rs.append(dict(k, id='%s_e%d' % (rid, e), entry=entry, tiers=['quick', 'thorough'] if e in quick_es else ['thorough'],
                       defs=d, unwindset=unwind(e)))
    return rs
def per_er(rid, entry, quick, unwind, shapes, **kw):
    rs = []
    for (e, r) in shapes:
        rs.append(dict(kw, id='%s_e%d_r%d' % (rid, e, r), entry=entry, tiers=['quick', 'thorough'] if (e, r) in quick else ['thorough'],
                       defs={'XV_E': e, 'XV_R': r}, unwindset=unwind(e, r)))
    return rs
ER = [(e, r) for e in ES for r in (0, 1, 2)]
RUNS = (
  per_e('node_ctor', 'h_node_ctor', ES, lambda e: ['ram_node_ctor.0:%d' % (e + 1)], cls='shape-complete')
  + per_e('node_dtor', 'h_node_dtor', ES, lambda e: ['ram_node_dtor.0:%d' % (e + 3 + 2)], cls='shape-complete', defs={'XV_DTOR_BOUNDED': 1, 'XV_OV': 3},
          note='pop_idx, push_idx up to 3 tickets beyond max_idx (three threads hit the full / drained node)')
  + per_e('node_dtor_any', 'h_node_dtor', ES, lambda e: ['ram_node_dtor.0:%d' % (e + 2)], cls='shape-complete', unwind_obligation='ram.node_dtor.owned_only',
          note='pop_idx, push_idx any multiples of step_size below 2^27*step_size; ~node must finish within entries_per_node iterations')
  + per_e('ctor', 'h_ctor', [1, 4], lambda e: ['ram_node_ctor.0:%d' % (e + 1)], cls='shape-complete')
  + per_e('dtor', 'h_dtor', [1, 4], lambda e: ['ram_dtor.0:5'], cls='shape-complete', note='list of 1..3 nodes plus unlisted nodes')
  + per_e('push', 'h_push', ES, lambda e: ['ram_push.0:%d' % (e + 4), 'ram_push.1:%d' % (e + 4), 'ram_node_ctor.0:%d' % (e + 1), 'ram_node_dtor.0:%d' % (e + 2)], cls='shape-complete')
  + per_er('pop', 'h_pop', ER, lambda e, r: ['ram_pop.0:%d' % (3 * e + 5), 'ram_pop.1:%d' % (r + 2)], ER, cls='shape-complete')
  + per_e('try_pop', 'h_try_pop', [4], lambda e: [], es=[4], cls='unbounded')
  + per_e('push_int', 'h_push_int', ES, lambda e: ['ram_node_ctor.0:%d' % (e + 1), 'ram_node_dtor.0:%d' % (e + 2)], mode='INT', cls='shape-complete')
  + per_er('pop_int', 'h_pop_int', ER, lambda e, r: ['ram_pop_cut.%d:%d' % (i, r + 2) for i in range(3)], ER, mode='INT', cls='shape-complete')
  + per_e('push_rollback', 'h_push_rollback', ES, lambda e: ['ram_push.0:%d' % (2 * e + 5), 'ram_push.1:%d' % (2 * e + 5), 'ram_node_ctor.0:%d' % (e + 1), 'ram_node_dtor.0:%d' % (e + 2)], mode='INT', cls='shape-complete')
)

UNIT = dict(
  title='ramalhete_queue: index map, node ctor/dtor, push, pop, try_pop, queue ctor/dtor (C04, C07)',
  properties=['C04', 'C07'],
  drops='templates (value_type/raw_type = opaque 63-bit word, marked_value = word with the mark in bit 63 as proved for marked_ptr in unit mp); '
        'guard_ptr = word (acquire = protected snapshot, reclaim = ghost retire counter); backoff objects and calls dropped; '
        'new/delete of nodes = allocation from a pool that runs the lowered real node constructor / destructor; '
        'pointer_queue_traits calls are contract stubs (proved per variant in unit pqt); entries_per_node and pop_retries are compile-time shapes',
  assumptions=['guard_ptr contract (acquire returns a protected snapshot, reclaim retires once) - proved per reclaimer in other units',
               'pointer_queue_traits contract - unit pqt',
               'ticket counters stay below 2^31 (no wrap of the 32-bit push_idx/pop_idx: needs > 10^8 failed attempts on one node)',
               'linearizability of the concurrent composition is the assumed lemma (DESIGN.md C04)'],
  consts=[
    dict(name='XV_STEP', file=F, regex=r'static constexpr unsigned step_size = ([^;]+);'),
    dict(name='XV_MAXIDX', file=F, regex=r'static constexpr unsigned max_idx = ([^;]+);'),
    # static_asserts that directly follow the two constants (none on the original tree)
    dict(name='XV_STATIC_ASSERTS', file=F, regex=r'static constexpr unsigned max_idx = [^;]+;\s*((?:static_assert\s*\((?:[^;"]|"[^"]*")*\)\s*;\s*)*)',
         subst=[(r'static_assert\s*\(((?:[^;",]|"[^"]*")*),\s*(?:"[^"]*"\s*)+\)\s*;\s*', r'(\1) && '), (r'^(.*)$', r'\1 1')]),
    dict(name='XV_PUSH_SLOT_STMT', file=F, regex=r'(idx [^;]*);\s*marked_value expected = nullptr;'),
    dict(name='XV_POP_SLOT_STMT', file=F, regex=r'(idx [^;]*);\s*auto value = h->entries\[idx\]'),
    dict(name='XV_DTOR_SLOT_EXPR', file=F, regex=r'traits::delete_value\(entries\[([^\]]+)\]'),
  ],
  sources=[
    dict(NODE, id='node_ctor', sig=r'explicit node\(raw_value_type item\)', ctor=True,
         c_sig='static void ram_node_ctor(marked_ptr self, raw_value_type item)',
         must_fire={'A_STORE': 2, 'ctor_init': 3}),
    dict(NODE, id='node_dtor', sig=r'~node\(\) override',
         c_sig='static void ram_node_dtor(marked_ptr self)',
         must_fire={'subst:traits': 1, 'method:get': 1}),
    dict(COMMON, id='ctor', file=F, sig=Q + r'ramalhete_queue\(\)',
         c_sig='static void ram_ctor(struct ramq* self)', must_fire={'subst:new_node': 1, 'A_STORE': 3}),
    dict(COMMON, id='dtor', file=F, sig=Q + r'~ramalhete_queue\(\)',
         c_sig='static void ram_dtor(struct ramq* self)', must_fire={'subst:delete_node': 1, 'A_LOAD': 2}),
    dict(PUSH, id='push', c_sig='static void ram_push(struct ramq* self, value_type value)'),
    dict(PUSH, id='push_cut', c_sig='static void ram_push_cut(struct ramq* self, value_type value)', cut_loops={0: 'PUSH'},
         must_fire=dict(PUSH['must_fire'], cut_loop=1)),
    dict(POP, id='pop', c_sig='static optval ram_pop(struct ramq* self)'),
    dict(POP, id='pop_cut', c_sig='static optval ram_pop_cut(struct ramq* self)', cut_loops={0: 'POP'},
         must_fire=dict(POP['must_fire'], cut_loop=1)),
    dict(COMMON, id='try_pop', file=F, sig=r'bool ' + Q + r'try_pop\(value_type& result\)',
         c_sig='static _Bool ram_try_pop(struct ramq* self, value_type* result_p)',
         self_calls={'pop': 'XV_POP'}, subst=COMMON['subst'] + [(r'\bresult\b', '(*result_p)', 'result_ref')],
         must_fire={'self_call:pop': 1, 'method:has_value': 1, 'method:value': 1, 'subst:result_ref': 1}),
  ],
  runs=idx_runs() + RUNS,
  obligations={
    'ram.idx.injective': dict(deciding=True, text='the ticket->entry map k -> (k*step_size) mod entries_per_node used by push, pop and ~node is injective on [0, entries_per_node) and stays in bounds'),
  },
  canaries=['idx.reached', 'idx.distinct', 'idx.config_rejected'],
)
