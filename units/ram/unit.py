F = 'xenium/ramalhete_queue.hpp'
Q = r'ramalhete_queue<T, Policies\.\.\.>::'

import re, os
from xvlib import lower as _L

def raii_nodes(text, lw):
    """unit-local rule for  `auto X = std::make_unique<node>(ARG);`  (a node owned by a local RAII object):
       = `node* X = new node(ARG);`, X.get() = X, X.release() = XV_UP_RELEASE(X) (returns the pointer, X becomes null), and the
       destructor of X - XV_UP_DTOR(X): delete the node if X is not null - at EVERY exit of the enclosing block after the declaration:
       the end of the block and every return / continue / break / exceptional exit inside it."""
    while True:
        m = re.search(r'\bauto (\w+) = std::make_unique<node>\(([^;]*)\);', text)
        if not m: return text
        x, arg = m.group(1), m.group(2)
        # the enclosing block: scan forward from the declaration to the brace that closes it
        d = 0; j = m.end()
        while True:
            c = text[j]
            if c == '{': d += 1
            elif c == '}':
                if d == 0: break
                d -= 1
            j += 1
        inner = text[m.end():j]
        inner = re.sub(r'\b%s\.get\(\)' % x, x, inner)
        # X.release() is evaluated exactly once: hoist it in front of the statement that uses it (the atomics macros evaluate arguments repeatedly)
        while True:
            r = re.search(r'\b%s\.release\(\)' % x, inner)
            if not r: break
            st = max(inner.rfind(c, 0, r.start()) for c in ';{}') + 1
            inner = inner[:st] + ' marked_ptr %s_released = XV_UP_RELEASE(%s);' % (x, x) + inner[st:r.start()] + '%s_released' % x + inner[r.end():]
        inner = re.sub(r'\b(return\b[^;]*;|continue;|break;)', lambda k: '{ XV_UP_DTOR(%s); %s }' % (x, k.group(1)), inner)
        # an allocation failure leaves X null: nothing to destroy on that exit (handled by may_throw right after the declaration)
        text = text[:m.start()] + 'node* %s = new node(%s);' % (x, arg) + inner + ' XV_UP_DTOR(%s);\n' % x + text[j:]
        lw.fire('raii_node')

def pre_rules(text, lw):
    return node_vars(raii_nodes(backoffs(ref_aliases(text, lw), lw), lw), lw)

def ref_aliases(text, lw):
    """a local reference into a node (`std::atomic<marked_value>& slot = h->entries[i].value;`) is an alias of a shared cell, not a variable of the
       loop: what is written through it is havocked with the shared cells (havoc_shared / havoc_nodes_seq).  Its name - whatever it is - is added to the
       source's havoc_exempt list (the engine's check "every identifier written in a cut loop is named in XV_HAVOC_*" reads that list after lowering)."""
    ex = lw.spec.get('havoc_exempt')
    if ex is not None:
        for m in re.finditer(r'[\w>:]\s*&\s*(\w+)\s*=\s*([^;]+);', text):
            if '->' in m.group(2) and m.group(1) not in ex: ex.append(m.group(1)); lw.fire('ref_alias')
    return text

def backoffs(text, lw):
    """unit-local rule: a local backoff object (`backoff NAME;` / `ramalhete_queue::backoff NAME;`) is dropped, its call `NAME();` becomes XV_BACKOFF();
       (whatever the object is called, wherever it is declared - also inside a helper that was split off)"""
    for n in set(re.findall(r'\b(?:ramalhete_queue::)?backoff\s+(\w+)\s*;', text)):
        text, k = re.subn(r'\b(?:ramalhete_queue::)?backoff\s+%s\s*;' % n, '', text); lw.fire('subst:drop_backoff_decl', k)
        text, k = re.subn(r'(?<![\w.>])%s\s*\(\s*\)\s*;' % n, 'XV_BACKOFF();', text); lw.fire('subst:backoff_call', k)
    return text

def post_rules(text, lw):
    """unit-local rule: nodes are kept as one small array per member.  NODE->entries[EXPR] -> N_ent(NODE, EXPR) (a `struct entry` lvalue; the index
       expression EXPR - whatever it looks like - reaches the harness through the macro, which is how the ticket -> entry map is observed);
       NODE->member -> N_member(NODE).  NODE is GDEREF(x) in the queue's functions and self in the node's own members."""
    pat = re.compile(r'(?:GDEREF\((\w+)\)|\bself)->entries\s*\[')
    out = ''; pos = 0
    while True:
        m = pat.search(text, pos)
        if not m: break
        i = m.end() - 1; j = _L.match_brace(text, i, '[', ']')
        out += text[pos:m.start()] + 'N_ent(%s, %s)' % (m.group(1) or 'self', text[i + 1:j]); pos = j + 1
        lw.fire('node_entry')
    text = out + text[pos:]
    text, k = re.subn(r'GDEREF\((\w+)\)->(\w+)', r'N_\2(\1)', text)
    if k: lw.fire('node_member', k)
    if lw.spec.get('_node_self'):
        text, k = re.subn(r'\bself->(\w+)', r'N_\1(self)', text)
        if k: lw.fire('node_member', k)
    return text

def node_vars(text, lw):
    """unit-local rule: every local that holds a node (guard_ptr x; node* x = ...; auto x = new node / _head.load) is dereferenced with GDEREF"""
    names = set()
    for m in re.finditer(r'\bguard_ptr (\w+);|\bnode\* (\w+) =|\bauto (\w+) = (?:new node\b|_head\.load\b)', text):
        names.update(x for x in m.groups() if x)
    lw.spec = dict(lw.spec, deref={n: 'GDEREF' for n in names})
    return text

# class constants: an index expression inside an atomic write (entries[idx % entries_per_node].value.exchange(..)) names them; they are not written
CONSTANT_NAMES = sorted(set(['entries_per_node', 'pop_retries', 'step_size', 'max_idx'] + re.findall(r'static constexpr unsigned (\w+) =', _L.strip_comments(_L.read_source(
    os.path.join(os.environ.get('XV_REPO', '/repo'), F))) if os.path.exists(os.path.join(os.environ.get('XV_REPO', '/repo'), F)) else '')))
# rules shared by the queue member functions (push / pop / ctor / dtor)
COMMON = dict(
    members=['_head', '_tail'],
    methods={'acquire': 'G_acquire', 'reclaim': 'G_reclaim', 'get': 'MV_get',
             'has_value': 'OPT_has', 'value': 'OPT_value'},
    calls={'marked_value': 'MV_make'},
    pre_subst=[(r'\bguard_ptr (\w+);', r'guard_ptr \1 = 0;', 'guard_default_ctor'),
               (r'\bnode\* (\w+) = new node\((\w+)\);', r'marked_ptr \1 = XV_NEW_NODE(\2);', 'new_node'),
               (r'\bauto (\w+) = new node\(nullptr\);', r'marked_ptr \1 = XV_NEW_NODE(0);', 'new_node'),
               (r'\bdelete (\w+);', r'XV_DELETE_NODE(\1);', 'delete_node'),
               (r'\bdelete (\w+)\.get\(\);', r'XV_DELETE_NODE(\1);', 'delete_node')],
    subst=[(r'\btraits::', 'TR_', 'traits'), (r'\bstd::ignore\s*=', '(void)', 'ignore'), (r'\bstd::nullopt\b', 'XV_NULLOPT', 'nullopt'),
           (r'\bmarked_(ptr|value)\b(?!\()', r'marked_\1_t', 'type_name')],
    py_pre=pre_rules,
    # nodes are kept as one small array per member (cheap for cbmc): node->member becomes N_member(node), node->entries[i] N_ent(node, i)
    py_post=post_rules,
)
PUSH = dict(COMMON, file=F, sig=r'void ' + Q + r'push\(value_type value\)', may_throw=['XV_NEW_NODE'], havoc_exempt=list(CONSTANT_NAMES),
            # (no count for the roll-back statements - push_idx store, delete - : a variant that frees the node through an RAII object has none)
            must_fire={'A_LOAD': 3, 'A_FADD': 1, 'A_CAS': 4, 'method:acquire': 1, 'subst:new_node': 1,
                       'subst:traits': 3, 'throw': 1, 'subst:backoff_call': 1})
POP = dict(COMMON, file=F, sig=r'auto ' + Q + r'pop\(\) -> std::optional<value_type>', dflt='XV_NULLOPT', havoc_exempt=list(CONSTANT_NAMES),
           must_fire={'A_LOAD': 7, 'A_FADD': 1, 'A_CAS': 1, 'A_XCHG': 1, 'method:acquire': 1, 'method:reclaim': 1, 'subst:traits': 2,
                      'subst:nullopt': 1, 'call:marked_value': 1})
NODE = dict(file=F, members=['pop_idx', 'push_idx', 'entries', 'next'], methods={'get': 'MV_get'},
            subst=[(r'\btraits::', 'TR_', 'traits'), (r'\bstd::min\b', 'XV_MIN', 'min')],
            _node_self=True, py_post=post_rules)

E_QUICK = list(range(1, 17)) + [22, 33, 64, 128, 512, 1024, 2048]
def idx_runs():
    rs = []
    for e in range(1, 2049):
        tiers = ['quick', 'thorough'] if e in E_QUICK else ['thorough']
        rs.append(dict(id='idx%d' % e, entry='h_idx', tiers=tiers, cls='unbounded', defs={'XV_E': e, 'XV_IDX': 1}, solver=['--sat-solver', 'cadical'],
                       # every loop of the real functions runs at most once here, however the loops are written: 2 is the bound for all of them; the
                       # retry loops of push / pop do not even reach their back edge (bound 1 where the loop numbers are the usual ones: cheaper)
                       unwind=2, unwindset=['idx_state.0:5'] + ['ram_%s.%d:1' % (f, i) for f in ('push', 'pop') for i in range(3)],
                       note='entries_per_node = %d, both tickets symbolic: the entry index the real push / pop / ~node use for a ticket, observed on the '
                            'lowered functions (fetch_add monitor, entries[] index macro); every loop runs at most once (the entry of the ticket is free / holds a value)' % e))
    return rs
def shape_runs(rid, entry, shapes, quick, **kw):
    rs = []
    for (e, r) in shapes:
        d = {'XV_E': e, 'XV_R': r}
        d.update(kw.get('defs', {}))
        k = dict(kw); k.pop('defs', None)
        rs.append(dict(k, id='%s_e%d_r%d' % (rid, e, r), entry=entry, tiers=['quick', 'thorough'] if (e, r) in quick else ['thorough'],
                       defs=d))
    return rs

ES = [1, 2, 3, 4, 5, 8]
CADICAL = ['--sat-solver', 'cadical']      # minisat has pathological cases on the counter arithmetic (minutes instead of seconds)
def per_e(rid, entry, quick_es, unwind, es=ES, **kw):
    rs = []
    for e in es:
        d = {'XV_E': e}; d.update(kw.get('defs', {}))
        k = dict(kw); k.pop('defs', None)
        rs.append(dict(k, id='%s_e%d' % (rid, e), entry=entry, tiers=['quick', 'thorough'] if e in quick_es else ['thorough'],
                       defs=d, unwindset=unwind(e), solver=CADICAL))
    return rs
def per_er(rid, entry, quick, unwind, shapes, **kw):
    rs = []
    for (e, r) in shapes:
        d = {'XV_E': e, 'XV_R': r}; d.update(kw.get('defs', {}))
        k = dict(kw); k.pop('defs', None)
        rs.append(dict(k, id='%s_e%d_r%d' % (rid, e, r), entry=entry, tiers=['quick', 'thorough'] if (e, r) in quick else ['thorough'],
                       defs=d, unwindset=unwind(e, r), solver=CADICAL))
    return rs
ER = [(e, r) for e in ES for r in (0, 1, 2)]
RUNS = (
  per_e('node_ctor', 'h_node_ctor', [1, 3, 8], lambda e: ['ram_node_ctor.0:%d' % (e + 1)], cls='shape-complete')
  + per_e('node_dtor', 'h_node_dtor', ES, lambda e: ['ram_node_dtor.0:%d' % (e + 3 + 2)], cls='shape-complete', defs={'XV_DTOR_BOUNDED': 1, 'XV_OV': 3},
          note='pop_idx, push_idx up to 3 tickets beyond max_idx (three threads hit the full / drained node)')
  + per_e('node_dtor_any', 'h_node_dtor', [2, 5], lambda e: ['ram_node_dtor.0:%d' % (e + 2)], cls='shape-complete', unwind_obligation='ram.node_dtor.owned_only',
          trace_defs={'XV_DTOR_BOUNDED': 1, 'XV_OV': 3},
          note='pop_idx, push_idx any multiples of step_size below 2^27*step_size; ~node must finish within entries_per_node iterations')
  + per_e('ctor', 'h_ctor', [1, 4], lambda e: ['ram_node_ctor.0:%d' % (e + 1)], cls='shape-complete')
  + per_e('dtor', 'h_dtor', [1, 4], lambda e: ['ram_dtor.0:5'], cls='shape-complete', note='list of 1..3 nodes plus unlisted nodes')
  + per_e('push', 'h_push', [1, 2, 4], lambda e: ['ram_node_ctor.0:%d' % (e + 1), 'ram_node_dtor.0:%d' % (e + 2), 'ram_push.0:%d' % (e + 3), 'ram_push.1:%d' % (e + 3)],
          cls='shape-complete', trace_defs={'XV_UNCUT': 1, 'XV_TRACE_SMALL': 1},
          note='loop cut by invariant PUSHSEQ; counters unbounded, entries_per_node is the shape (the ram_push.* bounds are only used when a counterexample is extracted on the original loop)')
  + per_er('pop', 'h_pop', [(1, 1), (2, 0), (2, 1), (4, 2)],
           lambda e, r: ['ram_pop_seq.%d:%d' % (i, r + 2) for i in range(3)] + ['ram_pop.%d:%d' % (i, max(3 * e + 4, r + 2)) for i in range(2)], ER,
           cls='shape-complete', trace_defs={'XV_UNCUT': 1, 'XV_TRACE_SMALL': 1},
           note='loop cut by invariant POPSEQ; inner retry loop unwound pop_retries+1 times')
  + per_e('push_unwound', 'h_push', [1], lambda e: ['ram_push.0:%d' % (e + 3), 'ram_push.1:%d' % (e + 3), 'ram_node_ctor.0:%d' % (e + 1), 'ram_node_dtor.0:%d' % (e + 2)],
          es=[1, 2], cls='shape-complete', defs={'XV_UNCUT': 1}, note='cross-check of the cut-loop runs: the original loop, completely unwound')
  + per_er('pop_unwound', 'h_pop', [(1, 1)], lambda e, r: ['ram_pop.%d:%d' % (i, max(3 * e + 4, r + 2)) for i in range(2)], [(1, 1), (2, 1)], cls='shape-complete',
           defs={'XV_UNCUT': 1}, note='cross-check of the cut-loop runs: the original loop, completely unwound')
  + per_e('try_pop', 'h_try_pop', [4], lambda e: [], es=[4], cls='unbounded')
  + per_e('push_int', 'h_push_int', [2], lambda e: ['ram_node_ctor.0:%d' % (e + 1), 'ram_node_dtor.0:%d' % (e + 2)], mode='INT', cls='shape-complete')
  + per_er('pop_int', 'h_pop_int', [(2, 1), (3, 0)], lambda e, r: ['ram_pop_cut.%d:%d' % (i, r + 2) for i in range(3)], ER, mode='INT', cls='shape-complete')
  + per_e('pop_race', 'h_pop_race', [1, 2], lambda e: ['ram_pop.%d:%d' % (i, e + 4) for i in range(2)] + ['ram_push.%d:%d' % (i, e + 3) for i in range(2)]
          + ['ram_node_ctor.0:%d' % (e + 1), 'ram_node_dtor.0:%d' % (e + 2)], es=[1, 2, 3], mode='INT', cls='shape-complete', defs={'XV_R': 1},
          note='end-to-end scenario on the original loops: a second consumer draws a ticket of the same node at an arbitrary moment; then a push')
  + per_e('push_rollback', 'h_push_rollback', [1], lambda e: ['ram_push.0:%d' % (e + 4), 'ram_push.1:%d' % (e + 4), 'ram_node_ctor.0:%d' % (e + 1), 'ram_node_dtor.0:%d' % (e + 2)],
          es=[1, 2, 3], mode='INT', cls='shape-complete',
          note='end-to-end scenario on the original loop: a competing producer links its node between the load of next and the CAS')
)

def extra_constants():
    """every further `static constexpr unsigned NAME = EXPR;` of the class (e.g. an index mask) becomes `#define NAME (EXPR)` - the value is
       still extracted by the engine on every run; only the LIST of names is read here"""
    try:
        src = _L.strip_comments(_L.read_source(os.path.join(os.environ.get('XV_REPO', '/repo'), F)))
    except OSError:
        return []
    out = []
    for m in re.finditer(r'static constexpr unsigned (\w+) =\s*([^;]+);', src):
        name, val = m.group(1), m.group(2)
        if name in ('step_size', 'max_idx', 'entries_per_node', 'pop_retries') or '::' in val: continue
        out.append(dict(name=name, file=F, regex=r'static constexpr unsigned %s =\s*([^;]+);' % name))
    return out

UNIT = dict(
  title='ramalhete_queue: index map, node ctor/dtor, push, pop, try_pop, queue ctor/dtor (C04, C07)',
  properties=['C04', 'C07'],
  drops='templates: value_type / raw_type / marked_value / marked_ptr / guard_ptr are opaque 16-bit words (the code only copies and compares them: data independence); '
        'marked_value keeps its mark in the top bit of the word (bit 63 of the real marked_ptr<T,1>, contract of unit mp); '
        'guard_ptr: acquire = protected snapshot, reclaim = ghost retire counter; backoff objects and calls dropped; '
        'nodes are kept as one small array per member (node->member is rewritten mechanically to N_member(node), node->entries[i] to N_ent(node, i)); '
        'idx runs: the entries of the one node are kept lazily (the entry named by the first entries[] access after the ticket was drawn, content arbitrary '
        'but free for push / a value for pop and ~node, so that the call ends in the iteration that drew the ticket), new node = std::bad_alloc; '
        'new/delete of nodes = allocation from a pool of 4 that runs the lowered real node constructor / destructor; '
        'pointer_queue_traits calls are contract stubs (proved per variant in unit pqt); entries_per_node and pop_retries are compile-time shapes; '
        'in the SEQ runs the retry loops of push/pop are cut by invariants (PUSHSEQ/POPSEQ), cross-checked by completely unwound runs for entries_per_node 1, 2',
  assumptions=['guard_ptr contract (acquire returns a protected snapshot, reclaim retires once) - proved per reclaimer in other units',
               'pointer_queue_traits contract - unit pqt',
               'ticket counters stay below 2^26 tickets per node (no wrap of the 32-bit push_idx/pop_idx: needs > 10^7 failed attempts on one node)',
               'counters far beyond the node (more than entries_per_node+4 tickets) are abstracted to "any value >= that" (a superset of the reachable multiples of step_size)',
               'INT runs rely: counters only grow, next is written once, an entry changes only null->value / null->INVALID / value->INVALID, '
               'the entry of a drawn ticket is touched only by the partner of that ticket, a node private to the thread is not touched',
               'linearizability of the concurrent composition is the assumed lemma (DESIGN.md C04)'],
  consts=[
    dict(name='XV_STEP', file=F, regex=r'static constexpr unsigned step_size =\s*([^;]+);'),
    dict(name='XV_MAXIDX', file=F, regex=r'static constexpr unsigned max_idx = ([^;]+);'),
    # static_asserts that directly follow the two constants (none on the original tree)
    dict(name='XV_STATIC_ASSERTS', file=F, regex=r'static constexpr unsigned max_idx = [^;]+;\s*(?:static constexpr [^;]+;\s*)*((?:static_assert\s*\((?:[^;"]|"[^"]*")*\)\s*;\s*)*)',
         subst=[(r'static_assert\s*\(((?:[^;",]|"[^"]*")*),\s*(?:"[^"]*"\s*)+\)\s*;\s*', r'(\1) && '), (r'^(.*)$', r'\1 1')]),
  ] + extra_constants(),
  sources=[
    dict(NODE, id='node_ctor', sig=r'explicit node\(raw_value_type item\)', ctor=True,
         c_sig='static void ram_node_ctor(marked_ptr self, raw_value_type item)',
         must_fire={'A_STORE': 2, 'ctor_init': 3}),
    dict(NODE, id='node_dtor', sig=r'~node\(\) override',
         c_sig='static void ram_node_dtor(marked_ptr self)',
         must_fire={'subst:traits': 1, 'method:get': 1}),
    dict(COMMON, id='ctor', file=F, sig=Q + r'ramalhete_queue\(\)',
         c_sig='static void ram_ctor(struct ramq* self)', must_fire={'subst:new_node': 1, 'A_STORE': 3}),
    dict(COMMON, id='dtor', file=F, sig=Q + r'~ramalhete_queue\(\)',
         c_sig='static void ram_dtor(struct ramq* self)', must_fire={'subst:delete_node': 1, 'A_LOAD': 2}),
    dict(PUSH, id='push', c_sig='static void ram_push(struct ramq* self, value_type value)'),
    dict(PUSH, id='push_seq', c_sig='static void ram_push_seq(struct ramq* self, value_type value)', cut_loops={0: 'PUSHSEQ'},
         must_fire=dict(PUSH['must_fire'], cut_loop=1)),
    dict(PUSH, id='push_cut', c_sig='static void ram_push_cut(struct ramq* self, value_type value)', cut_loops={0: 'PUSH'},
         must_fire=dict(PUSH['must_fire'], cut_loop=1)),
    dict(POP, id='pop', c_sig='static optval ram_pop(struct ramq* self)'),
    dict(POP, id='pop_seq', c_sig='static optval ram_pop_seq(struct ramq* self)', cut_loops={0: 'POPSEQ'},
         must_fire=dict(POP['must_fire'], cut_loop=1)),
    dict(POP, id='pop_cut', c_sig='static optval ram_pop_cut(struct ramq* self)', cut_loops={0: 'POP'},
         must_fire=dict(POP['must_fire'], cut_loop=1)),
    dict(COMMON, id='try_pop', file=F, sig=r'bool ' + Q + r'try_pop\(value_type& result\)',
         c_sig='static _Bool ram_try_pop(struct ramq* self, value_type* result_p)',
         self_calls={'pop': 'XV_POP'}, subst=COMMON['subst'] + [(r'\bresult\b', '(*result_p)', 'result_ref')],
         must_fire={'self_call:pop': 1, 'method:has_value': 1, 'method:value': 1, 'subst:result_ref': 1}),
  ],
  runs=idx_runs() + RUNS,
  obligations={
    'ram.sync.acquire': dict(deciding=True, text='sync precondition [INT runs]: whenever push / pop commit something on a node (entry CAS / exchange, link, head or tail swing) the guard through which they reached the node was acquired with acquire-or-stronger order, and a successor that is installed in _head / _tail was read with acquire-or-stronger order'),
    'ram.idx.injective': dict(deciding=True, text='the ticket->entry map k -> (k*step_size) mod entries_per_node used by push, pop and ~node is injective on [0, entries_per_node), stays in bounds, and max_idx = step_size*entries_per_node separates the tickets of a node from the overflow tickets'),
    'ram.node_ctor.prefilled': dict(deciding=True, text='node(item): entry of ticket 0 holds item, all other entries null, pop_idx 0, push_idx one ticket, next null'),
    'ram.node_dtor.owned_only': dict(deciding=True, text='~node, from every reachable (pop_idx, push_idx) including both beyond max_idx: destroys exactly the values of tickets in [pop, min(push, entries_per_node)) - each once - and no value that was already handed to a consumer'),
    'ram.ctor.empty': dict(deciding=True, text='constructor: one node, head = tail, no ticket handed out, all entries null'),
    'ram.dtor.each_node_once': dict(deciding=True, text='destructor: every node reachable from head is deleted exactly once (its next is read before), unlisted nodes are not touched, nothing is retired'),
    'ram.push.slot': dict(deciding=True, text='push stores the value in the entry of the first ticket >= the push ticket whose entry is free, push_idx ends one ticket behind it'),
    'ram.push.new_node': dict(deciding=True, text='push on a full node (idx >= max_idx): appends a new node whose ticket-0 entry holds the value and swings the tail to it; a tail lagging by one is first helped forward by exactly one'),
    'ram.push.frame': dict(deciding=True, text='push changes nothing else: other entries, pop_idx, head, other nodes; nothing deleted/retired'),
    'ram.push.fifo': dict(deciding=True, text='every value that was in the queue is in front of the pushed value (node order, then ticket order)'),
    'ram.push.null_rejected': dict(deciding=True, text='push(nullptr) throws invalid_argument, state unchanged, value not released'),
    'ram.push.accepts_once': dict(deciding=True, text='C07: at return the argument object has released the value, the value is in exactly one entry and was not destroyed'),
    'ram.push.rollback': dict(deciding=True, text='C07 [INT]: an iteration that does not publish the value leaves everything as it was: a new node whose link CAS failed is deleted exactly once without destroying the value, and the argument object still owns the value (traits::release not called); the value then ends up in exactly one entry'),
    'ram.push.throw_keeps_value': dict(deciding=True, text='C07 [INT]: when push exits with std::bad_alloc (allocation of a new node failed) the argument object still owns the value - nothing leaked, nothing published'),
    'ram.push.commit': dict(deciding=True, text='[INT] link CAS: on next of the guard-protected node, expected null, desired the node just allocated holding the value; tail CAS: expected = the protected node, desired = the node linked / the next read after the guard; entry CAS: entry of the ticket just drawn, expected null; push returns only after its own successful publishing CAS'),
    'ram.pop.slot': dict(deciding=True, text='pop returns the value stored in the entry of the ticket it drew, pop_idx ends one ticket behind it'),
    'ram.pop.fifo': dict(deciding=True, text='no value that was in the queue is in front of the returned one, all others stay in the queue'),
    'ram.pop.empty': dict(deciding=True, text='pop returns nullopt only if no value was in the queue'),
    'ram.pop.next_node': dict(deciding=True, text='pop on a drained node advances the head by one node along next and retires the old node exactly once'),
    'ram.pop.invalidate': dict(deciding=True, text='a free entry whose ticket pop drew (pop_retries exhausted) is exchanged to the INVALID mark, so the producer of that ticket retries elsewhere'),
    'ram.pop.frame': dict(deciding=True, text='pop changes nothing else: values stay in their entries, push_idx, next, tail, nothing allocated/deleted'),
    'ram.pop.hands_over_once': dict(deciding=True, text='C07: traits::get is called exactly once per successful pop, on the returned value; never on empty'),
    'ram.pop.commit': dict(deciding=True, text='[INT] head CAS: expected = the guard-protected node, desired = its next read after the guard, only after a ticket beyond the node; reclaim only after that CAS succeeded, once; the returned value was read/exchanged from the entry of the ticket drawn in this iteration'),
    'ram.int.ticket': dict(deciding=True, text='[INT] one ticket per iteration, drawn from the counter of the guard-protected node by fetch_add(step_size)'),
    'ram.try_pop.forwards': dict(deciding=True, text='try_pop returns true with the value iff pop has one, otherwise leaves result untouched'),
    'ram.inv.preserved': dict(deciding=True, text='the node representation invariant holds again after every operation'),
    'ram.node.live_deref': dict(deciding=True, text='every node dereferenced is allocated and not deleted'),
  },
  replays={'ram.node_dtor.owned_only': dict(src='replay_node_dtor.cpp'),
           **{o: dict(src='replay_ops.cpp', fixed={'in_op': 1}) for o in ('ram.push.slot', 'ram.push.new_node', 'ram.push.fifo', 'ram.push.frame')},
           **{o: dict(src='replay_ops.cpp', fixed={'in_op': 2}) for o in ('ram.pop.slot', 'ram.pop.fifo', 'ram.pop.empty', 'ram.pop.next_node', 'ram.pop.invalidate', 'ram.pop.frame')},
           'ram.idx.injective': dict(src='replay_idx.cpp'),
           'ram.push.throw_keeps_value': dict(src='native_push_throw_leak.cpp', no_inputs=True),
           'ram.push.rollback': dict(src='native_push_throw_leak.cpp', no_inputs=True)},
  loop_obligation={'PUSHSEQ': 'ram.push.slot', 'POPSEQ': 'ram.pop.slot', 'PUSH': 'ram.push.rollback', 'POP': 'ram.pop.commit'},
  canaries=['ctor.reached', 'dtor.one_node', 'dtor.three_nodes', 'idx.config_rejected', 'idx.distinct', 'idx.reached', 'node_ctor.reached', 'node_dtor.both_beyond_max', 'node_dtor.consumed', 'node_dtor.owned', 'node_dtor.push_beyond_max', 'pop.empty_after_drained_node', 'pop.empty_after_invalidating', 'pop.empty_untouched', 'pop.fifo_witness', 'pop.value', 'pop.value_after_invalidating', 'pop.value_next_node', 'pop.value_third_node', 'pop_int.empty', 'pop_int.value_by_exchange', 'pop_int.value_by_load', 'push.fifo_witness', 'push.helped_tail', 'push.helped_tail_new_node', 'push.new_node', 'push.null', 'push.slot', 'push.slot_after_invalidated', 'push_int.alloc_failed', 'push_int.linked', 'push_int.stored', 'rollback.helped', 'rollback.lost_race', 'rollback.no_race', 'rollback.second_alloc_failed', 'rollback.second_node', 'rollback.stored_in_winner_node', 'try_pop.false', 'try_pop.true'],
)
