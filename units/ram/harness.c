#include "xv.h"
#define XV_HAVOC_PUSH t idx value expected new_node next raw_val entries self push_idx _tail GDEREF
#define XV_HAVOC_POP h idx value expected next cnt pop_idx push_idx entries self _head GDEREF
