/* unit ram - ramalhete_queue (C04, C07).  Contracts, stubs, ghost state and harnesses only;
 * every function body under contract comes from lowered.h (extracted from /repo on each run). */
#include <stdint.h>
#include <stddef.h>
static void mon_load(void* addr, uint64_t v, int o);
static void mon_store(void* addr, uint64_t v, int o);
static void mon_rmw(void* addr, uint64_t oldv, uint64_t newv, int o);
static void mon_cas(void* addr, uint64_t e, uint64_t d, _Bool ok, int o);
#define XV_ON_LOAD(addr, val, order) mon_load((void*)(addr), (uint64_t)(val), (order))
#define XV_ON_STORE(addr, val, order) mon_store((void*)(addr), (uint64_t)(val), (order))
#define XV_ON_RMW(addr, oldv, newv, order) mon_rmw((void*)(addr), (uint64_t)(oldv), (uint64_t)(newv), (order))
#define XV_ON_CAS(addr, e, d, ok, order) mon_cas((void*)(addr), (uint64_t)(e), (uint64_t)(d), (ok), (order))
#include "xv.h"
int xv_threw; uint64_t xv_clock, xv_rmw_old; _Bool xv_cas_ok;
#define nondet_word() ((word_t)nondet_uptr())

/* ---- compile-time shapes ---- */
#ifndef XV_E
#define XV_E 4            /* entries_per_node */
#endif
#ifndef XV_R
#define XV_R 1            /* pop_retries */
#endif
#define entries_per_node XV_E
#define pop_retries XV_R
#define step_size XV_STEP      /* extracted from the header */
#define max_idx XV_MAXIDX      /* extracted from the header: step_size * entries_per_node */
#define XV_EXC_std__invalid_argument 1
#define XV_EXC_bad_alloc 2
#define XV_MIN(a, b) ((a) < (b) ? (a) : (b))
#define XV_BACKOFF() ((void)0)

/* ---- types: every pointer-like thing is a word ---- */
#ifndef XV_WORD
#define XV_WORD uint16_t       /* opaque words: only copied and compared by the code (data independence); 15 value bits + mark bit */
#endif
typedef XV_WORD word_t;
typedef word_t marked_ptr, marked_ptr_t, guard_ptr, raw_value_type, value_type, marked_value, marked_value_t;
typedef struct { _Bool has; word_t v; } optval;
#define XV_NULLOPT ((optval){0, 0})
#define OPT_has(o) ((o).has)
#define OPT_value(o) ((o).v)
/* marked_value = marked_ptr<.,1>: mark in bit 63 (contract of marked_ptr, unit mp) */
#define MARK63 ((word_t)((word_t)1 << (sizeof(word_t) * 8 - 1)))       /* the mark bit is the top bit of the word (bit 63 of the real marked_ptr<T,1>) */
#define MV_make(p, m) ((word_t)((word_t)(p) | ((m) ? MARK63 : 0)))
#define MV_get(v) ((word_t)((word_t)(v) & (word_t)~MARK63))
#define INVALID MARK63
#define IS_VALUE(w) ((w) != 0 && ((w) & MARK63) == 0)
#define IS_ENTRY_WORD(w) ((w) == 0 || (w) == INVALID || IS_VALUE(w))

/* nodes: one small array per member (a node pointer is the word NPTR(i)); struct node is only the harness' snapshot type */
#ifndef NN
#define NN 4
#endif
struct entry { marked_value value; };       /* the real `struct entry { std::atomic<marked_value> value; }` (a helper may take `const entry&`) */
unsigned a_pop_idx[NN], a_push_idx[NN]; marked_ptr a_next[NN]; struct entry a_ent[NN][XV_E];
_Bool a_live[NN]; unsigned a_retired[NN], a_deleted[NN];       /* ghost: allocated and not deleted / retire count / delete count */
/* ghost a_pend[i]: bit k = a consumer that drew ticket k of node i is still inside pop() (it will take the value or mark the entry INVALID) */
unsigned a_pend[NN];
struct node { unsigned pop_idx; marked_value ent[XV_E]; unsigned push_idx; marked_ptr next; _Bool g_live; unsigned g_retired, g_deleted, g_pend; };
struct ramq { marked_ptr _head, _tail; };
#define NPTR(i) ((word_t)(((i) + 1) << 6))

/* ---- harness inputs (named in_* for the native replays) ---- */
unsigned in_e, in_pop_t, in_push_t, in_gk, in_ki, in_kj; word_t in_val;
unsigned in_r, in_links, in_lag, in_pt0, in_qt0, in_pat0, in_pt1, in_qt1, in_pat1, in_pt2, in_qt2, in_pat2;   /* pre-state of h_push / h_pop for replay_ops.cpp */

/* ---- ghost state ---- */
unsigned g_released, g_get_count, g_del_total, g_alloc_count, g_delete_count, g_fresh, g_valdel, g_alloc_fail_from;
word_t g_get_val, g_trk_val, g_last_alloc;
_Bool g_alloc_may_fail, g_dtor_stub, mon_check; int mon_role;       /* mon_role: 1 = this thread is a producer, 2 = a consumer */

/* ---- guard_ptr contract stubs ---- */
word_t it_guard; _Bool it_acquired; uint64_t it_acq_clock;
/* sync preconditions: the loads through which a node linked by another thread's release CAS is reached are acquire-or-stronger */
int it_acq_order, it_next_order;
#define G_acquire(g, cell, order) ((g) = A_LOAD(cell, order), it_guard = (g), it_acquired = 1, it_acq_clock = xv_clock, it_acq_order = (order))
unsigned it_reclaims; word_t it_reclaimed;
#define G_reclaim(g) (g_reclaim(g), (g) = 0)

/* ---- pointer_queue_traits contract stubs (unit pqt) ---- */
#define TR_get_raw(v) (v)
#define TR_release(v) (g_released++, (v) = 0)          /* unique_ptr::release(): the argument object no longer owns */

/* ---- monitors ---- */
struct ramq* mon_q;
/* per-iteration event records (reset at the loop head by XV_HAVOC_*) */
unsigned it_idx; _Bool it_ticket_drawn;   /* counter value returned by the fetch_add of this iteration */
word_t it_next_val; _Bool it_next_loaded;
_Bool it_link_tried, it_link_ok; word_t it_link_desired;
_Bool it_entry_cas, it_entry_cas_ok, it_entry_xchg, it_entry_read; word_t it_entry_seen;
unsigned it_head_cas, it_tail_cas; _Bool it_head_cas_ok;
word_t g_raw;          /* the value being pushed (INT runs) */
#define IT_RESET it_acquired = 0; it_ticket_drawn = 0; it_next_loaded = 0; it_link_tried = 0; it_link_ok = 0; it_entry_cas = 0; \
  it_entry_cas_ok = 0; it_entry_xchg = 0; it_entry_seen = 0; it_entry_read = 0; it_head_cas = 0; it_tail_cas = 0; it_head_cas_ok = 0; it_reclaims = 0


/* ---- prototypes of everything the lowered text calls (definitions follow the include: they use the extracted constants) ---- */
static unsigned node_idx(word_t w);
static void g_reclaim(word_t g);
static optval TR_get(word_t raw);
static void TR_delete_value(word_t raw);
static marked_ptr XV_NEW_NODE(raw_value_type item);
static void XV_DELETE_NODE(marked_ptr w);
static optval stub_pop(struct ramq* self);
static _Bool is_nptr(word_t w);
static unsigned nidx(word_t w);
#define XV_POP(self) stub_pop(self)
/* a node owned by a local std::unique_ptr<node> (lowering rule raii_nodes): release() hands the pointer out and empties the owner;
 * the owner's destructor deletes the node (running the real ~node) unless it is empty */
static marked_ptr up_release_fn(marked_ptr* x) { marked_ptr p = *x; *x = 0; return p; }
#define XV_UP_RELEASE(x) up_release_fn(&(x))
#define XV_UP_DTOR(x) { if ((x) != 0) { XV_DELETE_NODE(x); (x) = 0; } }      /* no do-while: loop numbering of the function must not change */
#define N_pop_idx(g) (a_pop_idx[node_idx(g)])
#define N_push_idx(g) (a_push_idx[node_idx(g)])
#define N_next(g) (a_next[node_idx(g)])
/* node->entries[i] (lowering rule post_rules): N_ent(node, i) is the `struct entry` lvalue.  In the idx runs (XV_IDX) the index expression the
 * real text uses - whatever it looks like - is handed to the monitor mon_ent, which is how the ticket -> entry map is observed */
#ifdef XV_IDX
static struct entry* mon_ent(word_t g, unsigned i);
#define N_ent(g, i) (*mon_ent((g), (i)))
#else
#define N_ent(g, i) (a_ent[node_idx(g)][i])
#endif
#define XV_INIT_pop_idx(self, v) (N_pop_idx(self) = (v))
#define XV_INIT_push_idx(self, v) (N_push_idx(self) = (v))
#define XV_INIT_next(self, v) (N_next(self) = (v))
#ifdef XV_INT
void xv_env(void);
#endif

/* ---- loop cuts (INT runs): one arbitrary iteration from an arbitrary typed state ---- */
static void havoc_shared(_Bool rely);
/* INT: nothing is carried from one iteration to the next except: every node this thread allocated and could not link has been deleted again,
 * nothing was destroyed, and an iteration that published the value (successful entry CAS / link CAS) does not come back here */
#define XV_INV_PUSH (g_alloc_count == g_delete_count && g_valdel == 0 && g_del_total == 0 && !it_entry_cas_ok && !it_link_ok \
                     && g_released == 0 && value == g_raw /* not published => the argument object still owns the value (matters when a later `new` throws) */ \
                     && (t == 0 || (is_nptr(t) && a_live[nidx(t) % NN])))
#define XV_HAVOC_PUSH t = nondet_word(); value = nondet_word(); g_released = nondet_uint(); IT_RESET; havoc_shared(0) \
  /* writes: idx expected next new_node (declared inside); shared cells via GDEREF(t)->entries[idx].value / push_idx / next (lowered to N_ent(..).value, N_push_idx, N_next) and self->_tail */
#define XV_INV_POP ((h == 0 || (is_nptr(h) && a_live[nidx(h) % NN])) && g_get_count == 0 \
                    && (!(it_ticket_drawn && it_idx < max_idx) || (it_entry_xchg && it_entry_seen == 0)) /* a ticket without value: entry invalidated */ \
                    && (it_head_cas_ok ? (it_reclaims == 1 && it_reclaimed == it_guard) : it_reclaims == 0)  /* unlinked <=> retired, once */)
#define XV_HAVOC_POP h = nondet_word(); IT_RESET; havoc_shared(0) \
  /* writes: idx value cnt expected next pop_idx push_idx (declared inside); shared cells via GDEREF(h)->entries[idx].value / pop_idx (lowered to N_ent(..).value, N_pop_idx) and self->_head */
/* SEQ: the loops are cut by invariants that relate the current state to the pre-state snapshot (defined below) */
static _Bool inv_pushseq(word_t value);
static _Bool inv_popseq(void);
static void havoc_nodes_seq(void);
#define XV_INV_PUSHSEQ inv_pushseq(value)
#define XV_HAVOC_PUSHSEQ t = nondet_word(); value = nondet_word(); havoc_nodes_seq() \
  /* writes: idx expected next new_node (declared inside); shared cells via GDEREF(t)->entries[idx].value / push_idx / next (lowered to N_ent(..).value, N_push_idx, N_next) and self->_tail */
#define XV_INV_POPSEQ inv_popseq()
#define XV_HAVOC_POPSEQ h = nondet_word(); havoc_nodes_seq() \
  /* writes: idx value cnt expected next pop_idx push_idx (declared inside); shared cells via GDEREF(h)->entries[idx].value / pop_idx (lowered to N_ent(..).value, N_pop_idx) and self->_head */

#include "lowered.h"

/* ---- node pointers ---- */
static _Bool is_nptr(word_t w) { return w != 0 && (w & 63) == 0 && (w >> 6) <= NN; }
static unsigned nidx(word_t w) { return (unsigned)(w >> 6) - 1; }
static unsigned node_idx(word_t w) {
  _Bool ok = is_nptr(w) && a_live[nidx(w) % NN];
  XV_OBL("ram.node.live_deref", ok);        /* every node that is dereferenced is allocated and has not been deleted */
  XV_ASSUME(ok);
  return nidx(w);
}
static void g_reclaim(word_t g) { a_retired[node_idx(g)]++; it_reclaims++; it_reclaimed = g; }

static optval TR_get(word_t raw) { g_get_count++; g_get_val = raw; return (optval){1, raw}; }
static void TR_delete_value(word_t raw) {
  if (raw == 0) return;                                 /* unique_ptr<T>{nullptr}: nothing destroyed */
  g_del_total++;
  if (raw == g_trk_val) g_valdel++;
}

/* ---- harness view of a node ---- */
static struct node snap(unsigned i) {
  struct node n; n.pop_idx = a_pop_idx[i]; n.push_idx = a_push_idx[i]; n.next = a_next[i];
  for (unsigned s = 0; s < XV_E; s++) n.ent[s] = a_ent[i][s].value;
  n.g_live = a_live[i]; n.g_retired = a_retired[i]; n.g_deleted = a_deleted[i]; n.g_pend = a_pend[i];
  return n;
}
static void put(unsigned i, const struct node* n) {
  a_pop_idx[i] = n->pop_idx; a_push_idx[i] = n->push_idx; a_next[i] = n->next;
  for (unsigned s = 0; s < XV_E; s++) a_ent[i][s].value = n->ent[s];
  a_live[i] = n->g_live; a_retired[i] = n->g_retired; a_deleted[i] = n->g_deleted;
}
static void havoc_words(struct node* n) {
  n->pop_idx = nondet_uint(); n->push_idx = nondet_uint(); n->next = nondet_word();
  for (unsigned s = 0; s < XV_E; s++) n->ent[s] = nondet_word();
}
/* ---- new / delete of nodes: pool allocation running the REAL lowered constructor / destructor ---- */
static marked_ptr XV_NEW_NODE(raw_value_type item) {
#ifdef XV_IDX
  /* idx runs observe the entry of a ticket of the node itself: a push that takes the full-node path instead fails the obligation (no entry used);
   * the allocation is not modelled there (entries_per_node up to 2048) */
  xv_threw = XV_EXC_bad_alloc; return 0;
#endif
  if (g_alloc_may_fail && g_alloc_count >= g_alloc_fail_from && nondet_bool()) { xv_threw = XV_EXC_bad_alloc; return 0; }   /* std::bad_alloc */
  XV_MODEL_ASSERT("pool large enough", g_fresh < NN && !a_live[g_fresh % NN]);
  XV_ASSUME(g_fresh < NN);
  unsigned i = g_fresh++;
  struct node raw; havoc_words(&raw); raw.g_live = 1; raw.g_retired = 0; raw.g_deleted = 0;    /* uninitialised storage */
  for (unsigned c = 0; c < NN; c++) if (c == i) put(c, &raw);
  g_alloc_count++; g_last_alloc = NPTR(i);            /* private to this thread from here on */
  ram_node_ctor(NPTR(i), item);
  return NPTR(i);
}
static void XV_DELETE_NODE(marked_ptr w) {
  unsigned i = node_idx(w);
  if (!g_dtor_stub) ram_node_dtor(w);
  a_live[i] = 0; a_deleted[i]++; g_delete_count++;
}

#ifdef XV_INT
/* the entry belonging to the counter value drawn in this iteration (the slot map itself is decided by ram.idx.injective and the SEQ runs) */
#define IT_GI (nidx(it_guard) % NN)
#define IT_HAS_TICKET (it_acquired && it_ticket_drawn && it_idx < max_idx)
#define IT_ENTRY ((void*)&a_ent[IT_GI][it_idx % XV_E].value)
static void mon_load(void* addr, uint64_t v, int o) {
  if (!mon_check || !it_acquired) return;
  if (addr == (void*)&a_next[IT_GI]) { it_next_val = v; it_next_loaded = 1; it_next_order = o; }
  if (IT_HAS_TICKET && addr == IT_ENTRY) { it_entry_seen = v; it_entry_read = 1; }
}
static void mon_store(void* addr, uint64_t v, int o) { }
static void mon_rmw(void* addr, uint64_t oldv, uint64_t newv, int o) {
  if (!mon_check) return;
  if (addr == (void*)&a_push_idx[IT_GI] || addr == (void*)&a_pop_idx[IT_GI]) {
    XV_OBL("ram.int.ticket", it_acquired && !it_ticket_drawn && newv == oldv + XV_STEP);   /* one ticket per iteration, from the protected node */
    it_ticket_drawn = 1; it_idx = (unsigned)oldv;
  } else {
    /* the only other RMW is pop's exchange on the entry of its ticket */
    XV_OBL("ram.pop.commit", IT_HAS_TICKET && addr == IT_ENTRY && newv == INVALID && XV_IS_ACQUIRE(o));
    XV_OBL("ram.sync.acquire", XV_IS_ACQUIRE(it_acq_order));      /* the node whose entry is taken was reached through an acquiring guard */
    it_entry_xchg = 1; it_entry_seen = oldv; it_entry_read = 1;
  }
}
static void mon_cas(void* addr, uint64_t e, uint64_t d, _Bool ok, int o) {
  if (!mon_check) return;
  if (addr == (void*)&mon_q->_tail) {
    /* swing the tail: from the node the guard protects to the node linked behind it */
    it_tail_cas++;
    XV_OBL("ram.push.commit", it_acquired && e == it_guard && d != 0 && XV_IS_RELEASE(o)
           && ((it_link_ok && d == it_link_desired) || (!it_link_tried && it_next_loaded && d == it_next_val)));
    XV_OBL("ram.sync.acquire", XV_IS_ACQUIRE(it_acq_order) && (it_link_ok || XV_IS_ACQUIRE(it_next_order)));
  } else if (addr == (void*)&mon_q->_head) {
    it_head_cas++; it_head_cas_ok = ok;
    XV_OBL("ram.pop.commit", it_acquired && e == it_guard && it_next_loaded && d == it_next_val && d != 0 && XV_IS_RELEASE(o)
           && it_ticket_drawn && it_idx >= max_idx);
    XV_OBL("ram.sync.acquire", XV_IS_ACQUIRE(it_acq_order) && XV_IS_ACQUIRE(it_next_order));
  } else if (it_acquired && addr == (void*)&a_next[IT_GI]) {
    /* link a new node behind the protected tail node */
    XV_OBL("ram.push.commit", !it_link_tried && e == 0 && d == g_last_alloc && g_alloc_count == g_delete_count + 1 && XV_IS_RELEASE(o)
           && it_ticket_drawn && it_idx >= max_idx
           && a_ent[nidx(d) % NN][0].value == g_raw && a_next[nidx(d) % NN] == 0);
    it_link_tried = 1; it_link_ok = ok; it_link_desired = d;
  } else {
    /* store the value into the entry of the ticket just drawn */
    XV_OBL("ram.push.commit", IT_HAS_TICKET && addr == IT_ENTRY && !it_entry_cas && e == 0 && d == g_raw && XV_IS_RELEASE(o));
    XV_OBL("ram.sync.acquire", XV_IS_ACQUIRE(it_acq_order));
    it_entry_cas = 1; it_entry_cas_ok = ok;
  }
}
#else
static void mon_load(void* addr, uint64_t v, int o) { }
static void mon_store(void* addr, uint64_t v, int o) { }
#ifdef XV_IDX
/* ---- observation of the ticket -> entry map on the real functions (idx runs) ----
 * the ticket is the value returned by the fetch_add on push_idx / pop_idx of node 0 (RMW monitor); the entry is the index expression of the
 * first entries[...] access after it (N_ent hands it to mon_ent); every later entries[...] access of the call must name the same entry */
_Bool obs_on, obs_same; int obs_want, obs_cell; unsigned obs_draws, obs_uses, obs_ticket, obs_entry;
/* the entries of the node, lazily: obs_ent is the entry named by the first access after the ticket was drawn (index obs_entry, content arbitrary);
 * every other index (there must be none) gets obs_other.  Nothing depends on entries_per_node, so the runs cost the same for 1 and for 2048 entries */
struct entry obs_ent, obs_other;
static void obs_begin(int want) {
  obs_on = 1; obs_want = want; obs_cell = 0; obs_draws = 0; obs_uses = 0; obs_same = 1; obs_ticket = nondet_uint(); obs_entry = nondet_uint();
  obs_ent.value = nondet_word(); obs_other.value = nondet_word();
  XV_ASSUME(IS_ENTRY_WORD(obs_ent.value) && IS_ENTRY_WORD(obs_other.value));
  /* the state is arbitrary except that the entry the function turns to is free (push: its CAS succeeds) / holds a value (pop: it is returned;
   * ~node: it is destroyed): the call then ends in the iteration that drew the ticket */
  if (want == 1) XV_ASSUME(obs_ent.value == 0); else XV_ASSUME(IS_VALUE(obs_ent.value));
}
static void mon_rmw(void* addr, uint64_t oldv, uint64_t newv, int o) {
  if (!obs_on) return;
  int cell = addr == (void*)&a_push_idx[0] ? 1 : addr == (void*)&a_pop_idx[0] ? 2 : 0;
  if (cell) { if (obs_draws == 0) { obs_ticket = (unsigned)oldv; obs_cell = cell; } obs_draws++; }
}
static struct entry* mon_ent(word_t g, unsigned i) {
  (void)node_idx(g);
  if (!(obs_on && obs_draws)) return &obs_other;
  XV_OBL("ram.idx.injective", i < XV_E);        /* stays in bounds */
  if (obs_uses == 0) obs_entry = i;
  else if (i != obs_entry) obs_same = 0;
  if (obs_uses < 64) obs_uses++;
  return i == obs_entry ? &obs_ent : &obs_other;
}
#else
static void mon_rmw(void* addr, uint64_t oldv, uint64_t newv, int o) { }
#endif
static void mon_cas(void* addr, uint64_t e, uint64_t d, _Bool ok, int o) { }
#endif

/* ---- specification-level definitions ---- */
/* Everything below works on counter values (multiples of step_size) and on the CONSTANTS k*step_size, k < entries_per_node:
 * no multiplication or division of symbolic values (keeps the SAT instances easy). */
#define TK(k) ((unsigned)(k) * XV_STEP)                  /* counter value of ticket k - use with constant k only */
/* ticket -> entry (injective by ram.idx.injective); written as a table so that a symbolic ticket costs no divider */
static unsigned spec_slot(unsigned k) { for (unsigned c = 0; c < XV_E; c++) if (k == c) return (c * XV_STEP) % XV_E; return 0; }
static unsigned tk(unsigned k) { for (unsigned c = 0; c <= XV_E; c++) if (k == c) return TK(c); return TK(XV_E); }   /* symbolic k <= E */
#define MAXT ((unsigned)1 << 27)         /* assumption: fewer than 2^27 tickets per node (no wrap of the 32-bit counters) */
/* counter value after t tickets: small t through a table of constants (keeps the case analysis over the tickets of one node propositional) */
static unsigned tk_any(unsigned t) {
  for (unsigned c = 0; c <= XV_E + 4; c++) if (t == c) return TK(c);
  /* far beyond the node: only "counter >= max_idx" matters to the code; any such value (a superset of the multiples of step_size) */
  unsigned v = nondet_uint(); XV_ASSUME(v >= TK(XV_E + 5) && v < TK(MAXT / 2)); return v;
}
struct node s_pre[NN]; word_t s_head0, s_tail0;      /* pre-state snapshot (the cut-loop invariants refer to it) */
/* representation invariant of one node (what concurrent pushes/pops can leave behind at any instant);
 * that the counters are multiples of step_size is established by construction (havoc_node) and kept by `advanced` below */
static _Bool node_inv(const struct node* n) {
  if (n->push_idx >= TK(MAXT) || n->pop_idx >= TK(MAXT)) return 0;
  if (n->next != 0 && !(is_nptr(n->next) && n->push_idx >= max_idx)) return 0;      /* a successor is appended only to a full node */
  for (unsigned k = 0; k < XV_E; k++) {
    marked_value w = n->ent[spec_slot(k)];
    if (!IS_ENTRY_WORD(w)) return 0;
    if (TK(k) >= n->push_idx && IS_VALUE(w)) return 0;       /* values only at tickets already handed to a producer */
    if (w == INVALID && TK(k) >= n->pop_idx) return 0;       /* invalidated only by the consumer holding that ticket */
    /* every ticket handed to a consumer is resolved - value taken (it stays in the entry) or entry marked INVALID - or that consumer is still
     * inside pop(): no claimed-but-unmarked free entry is ever left behind (a later push would store into it and no pop would come back for it) */
    if (TK(k) < n->pop_idx && w == 0 && !((n->g_pend >> k) & 1)) return 0;
    if (TK(k) >= n->pop_idx && ((n->g_pend >> k) & 1)) return 0;
  }
  return 1;
}
/* pool element i := an arbitrary node satisfying the invariant; returns the snapshot */
static struct node havoc_node(unsigned i) {
  struct node n; havoc_words(&n); n.g_live = 1; n.g_retired = 0; n.g_deleted = 0;
  unsigned pt = nondet_uint(), qt = nondet_uint(); XV_ASSUME(pt < MAXT / 2 && qt < MAXT / 2);
#ifdef XV_TRACE_SMALL
  XV_ASSUME(pt <= XV_E + 4 && qt <= XV_E + 4);       /* counterexample extraction only: counters the native replay can set exactly */
#endif
  n.push_idx = tk_any(pt); n.pop_idx = tk_any(qt);            /* tickets handed out so far: any number, also far beyond entries_per_node */
  n.g_pend = nondet_uint() & ((1u << XV_E) - 1);               /* consumers of other threads that are in the middle of pop() */
  XV_ASSUME(node_inv(&n));
  put(i, &n); a_pend[i] = n.g_pend; s_pre[i] = n; return n;
}
static void dead_node(unsigned i) { struct node n; havoc_words(&n); n.g_live = 0; n.g_retired = 0; n.g_deleted = 0; n.g_pend = 0; put(i, &n); a_pend[i] = 0; s_pre[i] = n; }
/* a counter went from a to b by drawing at most m tickets */
static _Bool advanced(unsigned a, unsigned b, unsigned m) {
  for (unsigned d = 0; d <= XV_E + 3; d++) if (d <= m && b == a + TK(d)) return 1;
  return 0;
}
/* counter value of the first ticket >= the push counter whose entry is still free (max_idx if none) */
static unsigned first_free(const struct node* n, unsigned* slot) {
  for (unsigned k = 0; k < XV_E; k++) if (TK(k) >= n->push_idx && n->ent[spec_slot(k)] == 0) { *slot = spec_slot(k); return TK(k); }
  *slot = 0; return max_idx;
}
/* the entry of the ticket with counter value idx (idx < max_idx, a multiple of step_size) */
static unsigned slot_of_idx(unsigned idx, _Bool* ok) {
  for (unsigned c = 0; c < XV_E; c++) if (idx == TK(c)) { *ok = 1; return spec_slot(c); }
  *ok = 0; return 0;
}
/* entry classes of a node, 2 bits per entry index: 0 null, 1 value, 2 INVALID */
static unsigned pat_of(const struct node* n) {
  unsigned p = 0;
  for (unsigned s = 0; s < XV_E; s++) p |= (n->ent[s] == 0 ? 0u : n->ent[s] == INVALID ? 2u : 1u) << (2 * s);
  return p;
}
/* is the consumer of the ticket with counter value idx still pending? */
static _Bool pend_at(const struct node* n, unsigned idx) { for (unsigned k = 0; k < XV_E; k++) if (idx == TK(k)) return (n->g_pend >> k) & 1; return 0; }
static _Bool listed(const struct node* pre, unsigned i) {      /* node i reachable from element 0 in the pre-state (list 0 -> 1 -> 2) */
  return i == 0 || (i == 1 && pre[0].next == NPTR(1)) || (i == 2 && pre[0].next == NPTR(1) && pre[1].next == NPTR(2));
}
/* ---- SEQ loop invariants (cut loops PUSHSEQ / POPSEQ) ---- */
static void havoc_nodes_seq(void) {
  for (unsigned i = 0; i < NN; i++) {
    struct node n; havoc_words(&n); n.g_live = nondet_bool(); n.g_retired = nondet_uint(); n.g_deleted = nondet_uint(); put(i, &n);
  }
  mon_q->_head = nondet_word(); mon_q->_tail = nondet_word();
  g_released = nondet_uint(); g_get_count = nondet_uint(); g_del_total = nondet_uint(); g_alloc_count = nondet_uint(); g_delete_count = nondet_uint();
  g_valdel = nondet_uint(); g_fresh = nondet_uint(); xv_threw = nondet_int();
}
/* push, at the loop head: the value has not been placed yet; every ticket drawn so far belonged to an entry that was not free;
 * the tail was helped forward at most once; nothing else has changed */
static _Bool inv_pushseq(word_t value) {
  if (value != in_val || g_released != 0 || g_alloc_count != 0 || g_delete_count != 0 || g_valdel != 0 || g_del_total != 0 || g_get_count != 0 || xv_threw != 0) return 0;
  if (mon_q->_head != s_head0 || g_fresh != 2) return 0;
  _Bool helped = mon_q->_tail == NPTR(1);
  if (!(mon_q->_tail == NPTR(0) || (helped && s_pre[0].next == NPTR(1)))) return 0;
  for (unsigned i = 0; i < 2; i++) {
    struct node n = snap(i);
    if (!n.g_live || n.g_retired != 0 || n.g_deleted != 0 || n.pop_idx != s_pre[i].pop_idx || n.next != s_pre[i].next) return 0;
    if (!advanced(s_pre[i].push_idx, n.push_idx, XV_E + 1)) return 0;
    for (unsigned s = 0; s < XV_E; s++) if (n.ent[s] != s_pre[i].ent[s]) return 0;
    for (unsigned k = 0; k < XV_E; k++) if (TK(k) >= s_pre[i].push_idx && TK(k) < n.push_idx && s_pre[i].ent[spec_slot(k)] == 0) return 0;
  }
  unsigned p0 = a_push_idx[0], p1 = a_push_idx[1];
  if (helped) { if (p0 != s_pre[0].push_idx + XV_STEP || !(p1 == s_pre[1].push_idx || p1 <= max_idx)) return 0; }
  else { if (p1 != s_pre[1].push_idx || !(p0 == s_pre[0].push_idx || p0 <= max_idx)) return 0; }
  for (unsigned i = 2; i < NN; i++) if (a_live[i]) return 0;
  return 1;
}
/* pop, at the loop head: nothing has been handed out yet; the head has moved over drained nodes only (each retired once);
 * every ticket drawn so far belonged to an entry without a value, and such a free entry is INVALID now; nothing else has changed */
static _Bool inv_popseq(void) {
  if (g_get_count != 0 || g_alloc_count != 0 || g_delete_count != 0 || g_released != 0 || g_del_total != 0 || g_valdel != 0 || xv_threw != 0) return 0;
  if (mon_q->_tail != s_tail0 || g_fresh != 3) return 0;
  word_t hd = mon_q->_head;
  if (!(is_nptr(hd) && nidx(hd) < 3 && listed(s_pre, nidx(hd)))) return 0;
  unsigned hc = nidx(hd);
  for (unsigned i = 0; i < 3; i++) {
    struct node n = snap(i);
    if (!n.g_live || n.g_deleted != 0 || n.push_idx != s_pre[i].push_idx || n.next != s_pre[i].next) return 0;
    if (!advanced(s_pre[i].pop_idx, n.pop_idx, XV_E + 1)) return 0;
    if (i > hc && n.pop_idx != s_pre[i].pop_idx) return 0;
    if (i < hc && !(n.pop_idx > max_idx && n.g_retired == 1)) return 0;
    if (i >= hc && n.g_retired != 0) return 0;
    if (i == hc && !(n.pop_idx == s_pre[i].pop_idx || n.pop_idx <= max_idx)) return 0;
    for (unsigned k = 0; k < XV_E; k++) {
      marked_value a = s_pre[i].ent[spec_slot(k)], b = n.ent[spec_slot(k)];
      if (i <= hc && TK(k) >= s_pre[i].pop_idx && TK(k) < n.pop_idx) { if (IS_VALUE(a) || b != (a == 0 ? INVALID : a)) return 0; }
      else if (b != a) return 0;
    }
  }
  for (unsigned i = 3; i < NN; i++) if (a_live[i]) return 0;
  return 1;
}
#ifdef XV_UNCUT
#define RAM_PUSH ram_push
#define RAM_POP ram_pop
#else
#define RAM_PUSH ram_push_seq
#define RAM_POP ram_pop_seq
#endif
static void reset_ghost(void) {
  g_released = 0; g_get_count = 0; g_del_total = 0; g_alloc_count = 0; g_delete_count = 0; g_valdel = 0;
  g_get_val = nondet_word(); g_trk_val = 0; g_last_alloc = 0; g_alloc_may_fail = 0; g_alloc_fail_from = 0; g_dtor_stub = 0;
  xv_threw = 0; IT_RESET; it_guard = 0; mon_check = 0;
}

/* =========================== ram.idx.injective =========================== */
/* The map is observed on the real lowered functions, not on their text: which entry do push / pop / ~node turn to for the ticket k (counter value
 * k*step_size)?  Node 0 is the only node; everything but the counter under observation is arbitrary. */
#ifdef XV_IDX
static void idx_state(struct ramq* q) {
  for (unsigned i = 0; i < NN; i++) { a_live[i] = i == 0; a_retired[i] = 0; a_deleted[i] = 0; a_pend[i] = 0;
    a_pop_idx[i] = nondet_uint(); a_push_idx[i] = nondet_uint(); a_next[i] = nondet_word(); }       /* (entries: obs_begin) */
  q->_head = NPTR(0); q->_tail = NPTR(0); mon_q = q;
}
/* entry the real push stores to after drawing ticket k */
static unsigned idx_of_push(unsigned k) {
  struct ramq q; reset_ghost(); idx_state(&q);
  a_push_idx[0] = k * step_size;
  word_t v = nondet_word(); XV_ASSUME(v != 0 && (v & MARK63) == 0);
  obs_begin(1); ram_push(&q, v); obs_on = 0;
  /* push drew exactly this ticket, by a fetch_add on push_idx, and turned to an entry of the node (not to the full-node path) */
  XV_OBL("ram.idx.injective", xv_threw == 0 && obs_draws == 1 && obs_cell == 1 && obs_ticket == k * step_size && obs_uses > 0 && obs_same);
  XV_ASSUME(xv_threw == 0 && obs_uses > 0);
  XV_OBL("ram.idx.injective", obs_ent.value == v);      /* and that is where the value is now */
  return obs_entry;
}
static unsigned idx_of_pop(unsigned k) {
  struct ramq q; reset_ghost(); idx_state(&q);
  a_pop_idx[0] = k * step_size; XV_ASSUME(a_push_idx[0] > a_pop_idx[0]);
  obs_begin(2); optval r = ram_pop(&q); obs_on = 0;
  XV_OBL("ram.idx.injective", r.has && obs_draws == 1 && obs_cell == 2 && obs_ticket == k * step_size && obs_uses > 0 && obs_same);
  XV_ASSUME(r.has && obs_uses > 0);
  XV_OBL("ram.idx.injective", r.v == MV_get(obs_ent.value));
  return obs_entry;
}
/* entry ~node destroys when ticket k is the only ticket the queue still owns */
static unsigned idx_of_dtor(unsigned k) {
  struct ramq q; reset_ghost(); idx_state(&q);
  a_pop_idx[0] = k * step_size; a_push_idx[0] = k * step_size + step_size;
  obs_begin(0); obs_draws = 1; obs_ticket = k * step_size;
  ram_node_dtor(NPTR(0)); obs_on = 0;
  XV_OBL("ram.idx.injective", obs_uses > 0 && obs_same);
  XV_ASSUME(obs_uses > 0);
  return obs_entry;
}
#endif
void h_idx(void) {
#if !(XV_STATIC_ASSERTS) || !(XV_E > 0)
  XV_CANARY("idx.config_rejected");      /* this entries_per_node does not compile: nothing to prove */
#elif defined(XV_IDX)
  in_e = XV_E; in_ki = nondet_uint(); in_kj = nondet_uint();
  unsigned ki = in_ki, kj = in_kj;
  XV_ASSUME(ki < XV_E && kj < XV_E);
  unsigned a_push = idx_of_push(ki), b_push = idx_of_push(kj), a_pop = idx_of_pop(ki), a_dt = idx_of_dtor(ki);
  XV_OBL("ram.idx.injective", a_push < XV_E && a_pop < XV_E && a_dt < XV_E);
  XV_OBL("ram.idx.injective", a_push == a_pop && a_push == a_dt);            /* producer, consumer and destructor agree on the entry of a ticket */
  XV_OBL("ram.idx.injective", a_push == (ki * XV_STEP) % XV_E);               /* and it is the map the other harnesses use as specification */
  if (ki != kj) {
    XV_OBL("ram.idx.injective", a_push != b_push);      /* (pop and ~node use the same entry for every ticket, see above: ki is arbitrary) */
#if XV_E > 1
    XV_CANARY("idx.distinct");
#endif
  }
  XV_OBL("ram.idx.injective", ki * step_size < max_idx && max_idx / step_size == XV_E);  /* max_idx separates the tickets of one node from the overflow tickets */
  XV_CANARY("idx.reached");
#endif
}

/* =========================== node constructor =========================== */
void h_node_ctor(void) {
  reset_ghost();
  dead_node(0); a_live[0] = 1;
  raw_value_type item = nondet_word(); XV_ASSUME((item & MARK63) == 0);
  ram_node_ctor(NPTR(0), item);
  struct node n = snap(0);
  XV_OBL("ram.node_ctor.prefilled", n.ent[0] == item && n.pop_idx == 0 && n.push_idx == step_size && n.next == 0);
  for (unsigned s = 1; s < XV_E; s++) XV_OBL("ram.node_ctor.prefilled", n.ent[s] == 0);
  XV_OBL("ram.node_ctor.prefilled", spec_slot(0) == 0);      /* the pre-filled entry is the entry of ticket 0 */
  XV_OBL("ram.inv.preserved", node_inv(&n));
  if (item != 0) XV_CANARY("node_ctor.reached");
}

/* =========================== node destructor (C07) =========================== */
#ifndef XV_OV
#define XV_OV 3          /* how far beyond max_idx the counters may be (number of threads that hit the full/drained node) */
#endif
void h_node_dtor(void) {
  reset_ghost();
  in_e = XV_E;
  /* in_pop_t / in_push_t: tickets handed to consumers / producers so far (any number) */
  struct node n0; havoc_words(&n0); n0.g_live = 1; n0.g_retired = 0; n0.g_deleted = 0;
  in_pop_t = nondet_uint(); in_push_t = nondet_uint();
#ifdef XV_DTOR_BOUNDED
  XV_ASSUME(in_pop_t <= XV_E + XV_OV && in_push_t <= XV_E + XV_OV);
#else
  XV_ASSUME(in_pop_t < MAXT / 2 && in_push_t < MAXT / 2);
#endif
  n0.pop_idx = tk_any(in_pop_t); n0.push_idx = tk_any(in_push_t);
  XV_ASSUME(node_inv(&n0));
  put(0, &n0);
  in_gk = nondet_uint(); XV_ASSUME(in_gk < XV_E);
  unsigned s = spec_slot(in_gk);
  marked_value w = n0.ent[s];
  /* ~node's control flow does not depend on the values (only on null / non-null), so distinct values lose nothing: count destructions of w */
  if (IS_VALUE(w)) { g_trk_val = w; for (unsigned o = 0; o < XV_E; o++) if (o != s) XV_ASSUME(n0.ent[o] != w); }
  /* the queue owns the value of ticket gk iff the ticket was handed to a producer, not yet to a consumer, and holds a value */
  _Bool owned = in_gk >= in_pop_t && in_gk < in_push_t && IS_VALUE(w);
  ram_node_dtor(NPTR(0));
  struct node n = snap(0);
  XV_OBL("ram.node_dtor.owned_only", g_valdel == (owned ? 1u : 0u));      /* destroyed exactly once if owned, never otherwise */
  XV_OBL("ram.node_dtor.owned_only", n.ent[s] == w && n.pop_idx == n0.pop_idx && n.push_idx == n0.push_idx);
  if (owned) XV_CANARY("node_dtor.owned");
  if (!owned && IS_VALUE(w) && in_gk < in_pop_t) XV_CANARY("node_dtor.consumed");
  if (in_pop_t > XV_E && in_push_t > in_pop_t) XV_CANARY("node_dtor.both_beyond_max");
  if (in_pop_t < XV_E && in_push_t > XV_E + 1) XV_CANARY("node_dtor.push_beyond_max");
}

/* =========================== queue constructor / destructor =========================== */
void h_ctor(void) {
  reset_ghost();
  for (unsigned i = 0; i < NN; i++) dead_node(i);
  g_fresh = 0;
  struct ramq q; q._head = nondet_word(); q._tail = nondet_word();
  ram_ctor(&q);
  struct node n = snap(0);
  XV_OBL("ram.ctor.empty", g_alloc_count == 1 && q._head == NPTR(0) && q._tail == NPTR(0) && n.g_live);
  XV_OBL("ram.ctor.empty", n.pop_idx == 0 && n.push_idx == 0 && n.next == 0);
  for (unsigned s = 0; s < XV_E; s++) XV_OBL("ram.ctor.empty", n.ent[s] == 0);
  XV_OBL("ram.inv.preserved", node_inv(&n));
  XV_CANARY("ctor.reached");
}

unsigned in_len;
void h_dtor(void) {
  reset_ghost(); g_dtor_stub = 1;          /* ~node has its own contract (h_node_dtor); here: which nodes are deleted, and how often */
  for (unsigned i = 0; i < NN; i++) { havoc_node(i); a_next[i] = 0; }
  in_len = nondet_uint(); XV_ASSUME(in_len >= 1 && in_len <= 3);
  for (unsigned i = 0; i < 2; i++) if (i + 1 < in_len) a_next[i] = NPTR(i + 1);
  /* elements in_len.. : nodes that are not in the list (e.g. retired, still waiting for reclamation) */
  struct ramq q; q._head = NPTR(0); q._tail = nondet_bool() ? NPTR(in_len - 1) : NPTR(in_len >= 2 ? in_len - 2 : 0);
  ram_dtor(&q);
  for (unsigned i = 0; i < NN; i++) {
    XV_OBL("ram.dtor.each_node_once", a_deleted[i] == (i < in_len ? 1u : 0u));
    XV_OBL("ram.dtor.each_node_once", a_retired[i] == 0);
  }
  if (in_len == 3) XV_CANARY("dtor.three_nodes");
  if (in_len == 1) XV_CANARY("dtor.one_node");
}

/* =========================== push, sequential (C04 + C07) =========================== */
/* node a (now) against node b (before): everything but entry except_slot and, unless push_idx_too, push_idx/next */
static void check_node_unchanged(const struct node* a, const struct node* b, int except_slot, _Bool push_idx_too) {
  for (unsigned s = 0; s < XV_E; s++) if ((int)s != except_slot) XV_OBL("ram.push.frame", a->ent[s] == b->ent[s]);
  XV_OBL("ram.push.frame", a->pop_idx == b->pop_idx && a->g_retired == 0 && a->g_deleted == 0 && a->g_live);
  if (push_idx_too) XV_OBL("ram.push.frame", a->push_idx == b->push_idx && a->next == b->next);
}
void h_push(void) {
  reset_ghost();
  struct ramq q;
  /* element 0 = the node _tail points to; element 1 = its successor when the tail lags by one, otherwise an unrelated live node;
   * elements 2.. = free storage */
  struct node T0 = havoc_node(0), N0 = havoc_node(1);
  XV_ASSUME(T0.next == 0 || T0.next == NPTR(1));
  XV_ASSUME(N0.next == 0);
  for (unsigned i = 2; i < NN; i++) dead_node(i);
  g_fresh = 2; q._tail = NPTR(0); q._head = nondet_word(); mon_q = &q;
  word_t head0 = q._head; s_head0 = head0;
  in_e = XV_E; in_r = XV_R; in_links = T0.next != 0; in_lag = T0.next != 0;
  in_pt0 = T0.push_idx; in_qt0 = T0.pop_idx; in_pat0 = pat_of(&T0); in_pt1 = N0.push_idx; in_qt1 = N0.pop_idx; in_pat1 = pat_of(&N0);
  in_val = nondet_word(); XV_ASSUME((in_val & MARK63) == 0);
  g_trk_val = in_val;
  /* an arbitrary value already in the queue: node gn, ticket gk */
  unsigned gn = nondet_uint(), gk = nondet_uint(); XV_ASSUME(gn < 2 && gk < XV_E);
  const struct node* G0 = gn == 0 ? &T0 : &N0;
  _Bool g_in = (gn == 0 || T0.next == NPTR(1)) && tk(gk) >= G0->pop_idx && IS_VALUE(G0->ent[spec_slot(gk)]);
  RAM_PUSH(&q, in_val);
  struct node T = snap(0), N = snap(1), M = snap(2);
  if (in_val == 0) {
    XV_OBL("ram.push.null_rejected", xv_threw == XV_EXC_std__invalid_argument && g_released == 0 && g_alloc_count == 0);
    check_node_unchanged(&T, &T0, -1, 1); check_node_unchanged(&N, &N0, -1, 1);
    XV_OBL("ram.push.frame", q._tail == NPTR(0) && q._head == head0);
    XV_CANARY("push.null");
    return;
  }
  XV_OBL("ram.push.accepts_once", xv_threw == 0);
  unsigned sT, sN;
  unsigned fT = first_free(&T0, &sT), fN = first_free(&N0, &sN);      /* counter value of the first free ticket (max_idx: none) */
  unsigned pn, pidx; _Bool fresh = 0;          /* where the value must be now: node pn, ticket with counter value pidx */
  if (fT < max_idx) {                          /* A: a free ticket in the tail node */
    pn = 0; pidx = fT;
    XV_OBL("ram.push.slot", T.ent[sT] == in_val && T.push_idx == fT + XV_STEP);
    XV_OBL("ram.push.slot", fT >= T0.pop_idx || pend_at(&T0, fT));      /* a ticket no consumer has drawn yet, or whose consumer is still waiting for it */
    XV_OBL("ram.push.slot", T.next == T0.next && q._tail == NPTR(0) && g_alloc_count == 0);
    check_node_unchanged(&T, &T0, (int)sT, 0); check_node_unchanged(&N, &N0, -1, 1);
#if XV_E > 1
    if (fT > T0.push_idx) XV_CANARY("push.slot_after_invalidated");
#endif
    if (fT <= T0.push_idx) XV_CANARY("push.slot");
  } else if (T0.next == 0) {                   /* B: tail node full (or every remaining ticket invalidated), no successor: append */
    pn = 2; pidx = 0; fresh = 1;
    XV_OBL("ram.push.new_node", T.next == NPTR(2) && q._tail == NPTR(2));
    XV_OBL("ram.push.new_node", T.push_idx == (T0.push_idx > max_idx ? T0.push_idx : max_idx) + XV_STEP);
    check_node_unchanged(&T, &T0, -1, 0); check_node_unchanged(&N, &N0, -1, 1);
    XV_CANARY("push.new_node");
  } else {                                     /* C/D: the tail lags by one: help it forward, then push there */
    XV_OBL("ram.push.new_node", T.push_idx == T0.push_idx + XV_STEP && T.next == NPTR(1));
    check_node_unchanged(&T, &T0, -1, 0);
    if (fN < max_idx) {
      pn = 1; pidx = fN;
      XV_OBL("ram.push.new_node", q._tail == NPTR(1) && g_alloc_count == 0 && N.next == 0);
      XV_OBL("ram.push.slot", N.ent[sN] == in_val && N.push_idx == fN + XV_STEP);
      XV_OBL("ram.push.slot", fN >= N0.pop_idx || pend_at(&N0, fN));
      check_node_unchanged(&N, &N0, (int)sN, 0);
      XV_CANARY("push.helped_tail");
    } else {
      pn = 2; pidx = 0; fresh = 1;
      XV_OBL("ram.push.new_node", N.next == NPTR(2) && q._tail == NPTR(2));
      XV_OBL("ram.push.new_node", N.push_idx == (N0.push_idx > max_idx ? N0.push_idx : max_idx) + XV_STEP);
      check_node_unchanged(&N, &N0, -1, 0);
      XV_CANARY("push.helped_tail_new_node");
    }
  }
  if (fresh) {
    XV_OBL("ram.push.new_node", g_alloc_count == 1 && M.g_live && M.ent[0] == in_val
           && M.pop_idx == 0 && M.push_idx == XV_STEP && M.next == 0 && M.g_retired == 0 && M.g_deleted == 0);
    for (unsigned s = 1; s < XV_E; s++) XV_OBL("ram.push.new_node", M.ent[s] == 0);
    XV_OBL("ram.inv.preserved", node_inv(&M));
  } else {
    XV_OBL("ram.push.frame", !M.g_live);
  }
  XV_OBL("ram.push.frame", q._head == head0 && g_delete_count == 0 && g_get_count == 0);
  for (unsigned i = 3; i < NN; i++) XV_OBL("ram.push.frame", !a_live[i]);
  XV_OBL("ram.inv.preserved", node_inv(&T) && node_inv(&N) && advanced(T0.push_idx, T.push_idx, XV_E + 1) && advanced(N0.push_idx, N.push_idx, XV_E + 1));
  XV_OBL("ram.inv.preserved", q._tail == NPTR(pn) && (pn == 0 ? T.next : pn == 1 ? N.next : M.next) == 0);    /* the tail is the last node again */
  /* C07: the caller's object gave up ownership exactly once, and the value was not destroyed */
  XV_OBL("ram.push.accepts_once", g_released == 1 && g_valdel == 0 && g_del_total == 0);
  /* FIFO: every value that was in the queue is in front of the new one (node order, then ticket order) */
  if (g_in) {
    XV_OBL("ram.push.fifo", gn < pn || (gn == pn && tk(gk) < pidx));
    XV_CANARY("push.fifo_witness");
  }
}

/* =========================== pop, sequential (C04 + C07) =========================== */
void h_pop(void) {
  reset_ghost();
  struct ramq q;
  /* list 0 -> 1 -> 2 (a prefix of it), head = element 0; further elements not live */
  struct node pre[3];
  for (unsigned i = 0; i < 3; i++) pre[i] = havoc_node(i);
  XV_ASSUME(pre[0].next == 0 || pre[0].next == NPTR(1));
  XV_ASSUME(pre[1].next == 0 || pre[1].next == NPTR(2));
  XV_ASSUME(pre[2].next == 0);
  for (unsigned i = 3; i < NN; i++) dead_node(i);
  g_fresh = 3; q._head = NPTR(0); q._tail = nondet_word(); mon_q = &q;
  word_t tail0 = q._tail; s_tail0 = tail0;
  in_e = XV_E; in_r = XV_R; in_links = (pre[0].next != 0 ? 1u : 0u) | (pre[0].next != 0 && pre[1].next != 0 ? 2u : 0u);
  in_pt0 = pre[0].push_idx; in_qt0 = pre[0].pop_idx; in_pat0 = pat_of(&pre[0]); in_pt1 = pre[1].push_idx; in_qt1 = pre[1].pop_idx; in_pat1 = pat_of(&pre[1]);
  in_pt2 = pre[2].push_idx; in_qt2 = pre[2].pop_idx; in_pat2 = pat_of(&pre[2]);
  unsigned gn = nondet_uint(), gk = nondet_uint(); XV_ASSUME(gn < 3 && gk < XV_E);
  unsigned gidx = tk(gk);
  marked_value gw = pre[gn].ent[spec_slot(gk)];
  _Bool g_in = listed(pre, gn) && gidx >= pre[gn].pop_idx && IS_VALUE(gw);     /* (gn, gk) is an element of the abstract queue */
  optval r = RAM_POP(&q);
  struct node post[3]; for (unsigned i = 0; i < 3; i++) post[i] = snap(i);
  /* the head moves forward along the list; every node left behind is retired exactly once, no other */
  XV_OBL("ram.pop.next_node", is_nptr(q._head) && nidx(q._head) < 3 && listed(pre, nidx(q._head)));
  unsigned hp = nidx(q._head) % 3;
  for (unsigned i = 0; i < 3; i++) {
    XV_OBL("ram.pop.frame", advanced(pre[i].pop_idx, post[i].pop_idx, i <= hp ? XV_E + 1 : 0));
    XV_OBL("ram.pop.next_node", post[i].g_retired == (i < hp ? 1u : 0u) && post[i].g_deleted == 0 && post[i].g_live);
    if (i < hp) XV_OBL("ram.pop.next_node", post[i].pop_idx > max_idx);   /* left only after a ticket beyond the node was drawn */
    XV_OBL("ram.pop.frame", post[i].push_idx == pre[i].push_idx && post[i].next == pre[i].next);
    XV_OBL("ram.inv.preserved", node_inv(&post[i]));
  }
  XV_OBL("ram.pop.frame", q._tail == tail0 && g_alloc_count == 0 && g_delete_count == 0 && g_released == 0 && g_del_total == 0);
  for (unsigned i = 3; i < NN; i++) XV_OBL("ram.pop.frame", !a_live[i]);
  /* entries: values are never modified (a consumed value stays where it is); a free entry whose ticket was drawn becomes INVALID */
  for (unsigned i = 0; i < 3; i++) for (unsigned k = 0; k < XV_E; k++) {
    marked_value a = pre[i].ent[spec_slot(k)], b = post[i].ent[spec_slot(k)];
    _Bool was_drawn = i <= hp && TK(k) >= pre[i].pop_idx && TK(k) < post[i].pop_idx;
    if (was_drawn && a == 0) XV_OBL("ram.pop.invalidate", b == INVALID);
    else XV_OBL("ram.pop.frame", b == a);
  }
  unsigned ridx = post[hp].pop_idx - XV_STEP;       /* counter value of the last ticket drawn from the node that is head now */
  if (r.has) {
    _Bool rok; unsigned rs = slot_of_idx(ridx, &rok);
    XV_OBL("ram.pop.slot", post[hp].pop_idx >= XV_STEP && rok && ridx >= pre[hp].pop_idx);
    XV_OBL("ram.pop.slot", IS_VALUE(pre[hp].ent[rs]) && r.v == pre[hp].ent[rs]);
    XV_OBL("ram.pop.hands_over_once", g_get_count == 1 && g_get_val == r.v);
    if (g_in) {
      XV_OBL("ram.pop.fifo", !(gn < hp || (gn == hp && gidx < ridx)));               /* nothing that was in the queue is in front of the returned value */
      if (!(gn == hp && gidx == ridx)) XV_OBL("ram.pop.fifo", gn >= hp && gidx >= post[gn].pop_idx);   /* and everything else is still in the queue */
      XV_CANARY("pop.fifo_witness");
    }
    if (hp > 0) XV_CANARY("pop.value_next_node");
    if (hp == 2) XV_CANARY("pop.value_third_node");
#if XV_E > 1
    if (ridx > pre[hp].pop_idx) XV_CANARY("pop.value_after_invalidating");
#endif
    if (hp == 0 && ridx == pre[0].pop_idx) XV_CANARY("pop.value");
  } else {
    XV_OBL("ram.pop.empty", !g_in);                  /* 'empty' only if there was no value in the queue ... */
    for (unsigned i = 0; i < 3; i++) for (unsigned k = 0; k < XV_E; k++)     /* ... and no claimed-but-unmarked entry is left behind */
      if (i <= hp && TK(k) >= pre[i].pop_idx && TK(k) < post[i].pop_idx) XV_OBL("ram.pop.empty", post[i].ent[spec_slot(k)] != 0);
    XV_OBL("ram.pop.hands_over_once", g_get_count == 0);
    XV_OBL("ram.pop.empty", post[hp].next == 0);
    if (hp == 0 && post[0].pop_idx == pre[0].pop_idx) XV_CANARY("pop.empty_untouched");
    if (hp > 0) XV_CANARY("pop.empty_after_drained_node");
    if (post[hp].pop_idx > pre[hp].pop_idx) XV_CANARY("pop.empty_after_invalidating");
  }
}

/* =========================== try_pop =========================== */
optval stub_pop_result; unsigned stub_pop_calls;
static optval stub_pop(struct ramq* self) { stub_pop_calls++; return stub_pop_result; }
void h_try_pop(void) {
  reset_ghost();
  struct ramq q; q._head = nondet_word(); q._tail = nondet_word(); struct ramq q0 = q;
  stub_pop_result.has = nondet_bool(); stub_pop_result.v = nondet_word(); stub_pop_calls = 0;
  value_type result = nondet_word(), result0 = result;
  _Bool r = ram_try_pop(&q, &result);
  XV_OBL("ram.try_pop.forwards", stub_pop_calls == 1 && r == stub_pop_result.has && result == (r ? stub_pop_result.v : result0));
  XV_OBL("ram.try_pop.forwards", q._head == q0._head && q._tail == q0._tail);
  if (r) XV_CANARY("try_pop.true"); else XV_CANARY("try_pop.false");
}

/* =========================== INT: one iteration under arbitrary interference =========================== */
/* rely = 0: an arbitrary well-typed state (loop head).  rely = 1: a step of the other threads: counters only grow (fetch_add), a next
 * pointer is written once (null -> node), an entry changes only null -> value (its producer), null -> INVALID or value -> INVALID (its consumer);
 * head and tail may point to any live node.  A node that is private to this thread (allocated, not yet published) is never touched. */
static void havoc_shared(_Bool rely) {
  _Bool have_private = g_alloc_count > g_delete_count && !it_link_ok;
  for (unsigned i = 0; i < NN; i++) {
    if (!a_live[i]) continue;
    if (have_private && NPTR(i) == g_last_alloc) continue;
    unsigned npt = nondet_uint(), nqt = nondet_uint(); XV_ASSUME(npt < MAXT && nqt < MAXT);
    unsigned np = npt * XV_STEP, nq = nqt * XV_STEP;           /* counters are multiples of step_size */
    if (rely) XV_ASSUME(np >= a_push_idx[i] && nq >= a_pop_idx[i]);
    a_pop_idx[i] = nq; a_push_idx[i] = np;
    word_t nx = nondet_word(); XV_ASSUME(nx == 0 || (is_nptr(nx) && a_live[nidx(nx) % NN] && nidx(nx) != i));
    XV_ASSUME(!(have_private && nx == g_last_alloc));
    if (!(rely && a_next[i] != 0)) a_next[i] = nx;
    for (unsigned s = 0; s < XV_E; s++) {
      marked_value w = nondet_word(), old = a_ent[i][s].value; XV_ASSUME(IS_ENTRY_WORD(w));
      if (rely) XV_ASSUME(w == old || old == 0 || (IS_VALUE(old) && w == INVALID));
      /* the entry whose ticket this thread holds: only the partner of that ticket touches it (consumer: null -> INVALID; producer: null -> value) */
      if (rely && it_acquired && it_ticket_drawn && it_idx < max_idx && i == nidx(it_guard) % NN && s == it_idx % XV_E)
        XV_ASSUME(w == old || (old == 0 && (mon_role == 1 ? w == INVALID : IS_VALUE(w))));
      a_ent[i][s].value = w;
    }
    /* INVALID is written only by the consumer that drew the ticket: never at a ticket not yet handed to a consumer */
    for (unsigned k = 0; k < XV_E; k++) if (TK(k) >= a_pop_idx[i]) XV_ASSUME(a_ent[i][spec_slot(k)].value != INVALID);
  }
  word_t hd = nondet_word(), tl = nondet_word();
  XV_ASSUME(is_nptr(hd) && a_live[nidx(hd) % NN] && is_nptr(tl) && a_live[nidx(tl) % NN]);
  XV_ASSUME(!(have_private && (hd == g_last_alloc || tl == g_last_alloc)));
  mon_q->_head = hd; mon_q->_tail = tl;
}
#ifdef XV_INT
_Bool env_on; int env_kind; _Bool env_linked, env_b_drew; unsigned env_b_idx;
void xv_env(void) {
  if (!env_on) return;
  if (env_kind == 0) { if (nondet_bool()) havoc_shared(1); return; }
  if (env_kind == 2) {       /* one competing consumer B draws a ticket from the head node 0 (its fetch_add) at an arbitrary moment and stays inside pop() */
    if (!env_b_drew && nondet_bool()) {
      env_b_drew = 1; env_b_idx = a_pop_idx[0]; a_pop_idx[0] += XV_STEP;
      for (unsigned k = 0; k < XV_E; k++) if (env_b_idx == TK(k)) a_pend[0] |= 1u << k;
    }
    return;
  }
  /* env_kind 1: one competing producer B: draws a ticket on the full tail node 0, links its node 1 behind it, later swings the tail */
  if (!env_linked) {
    if (nondet_bool() && a_next[0] == 0 && a_push_idx[0] >= max_idx) { a_next[0] = NPTR(1); a_push_idx[0] += XV_STEP; env_linked = 1; }
  } else if (nondet_bool() && mon_q->_tail == NPTR(0)) mon_q->_tail = NPTR(1);
}
#endif
static void setup_int(struct ramq* q) {
  for (unsigned i = 0; i < NN; i++) dead_node(i);
  for (unsigned i = 0; i < 3; i++) a_live[i] = 1;
  g_fresh = 3;
  mon_q = q; havoc_shared(0);
}
void h_push_int(void) {
#ifdef XV_INT
  reset_ghost();
  struct ramq q; setup_int(&q);
  g_raw = nondet_word(); XV_ASSUME(g_raw != 0 && (g_raw & MARK63) == 0); g_trk_val = g_raw;
  env_kind = 0; env_on = 1; mon_check = 1; mon_role = 1; g_alloc_may_fail = 1;
  ram_push_cut(&q, g_raw);
  env_on = 0;
  if (xv_threw == XV_EXC_bad_alloc) {
    /* `new node` failed: push exits by exception; the value must still belong to the argument object (the caller's side destroys it) */
    XV_OBL("ram.push.throw_keeps_value", g_released == 0 && g_alloc_count == g_delete_count && g_valdel == 0 && !it_entry_cas_ok && !it_link_ok);
    XV_CANARY("push_int.alloc_failed");
    return;
  }
  /* push returns only from an iteration in which its own CAS published the value */
  XV_OBL("ram.push.commit", xv_threw == 0 && ((it_entry_cas && it_entry_cas_ok && !it_link_tried) || (it_link_tried && it_link_ok && !it_entry_cas)));
  XV_OBL("ram.push.commit", it_link_ok ? (it_tail_cas == 1 && g_alloc_count == g_delete_count + 1) : (it_tail_cas == 0 && g_alloc_count == g_delete_count));
  XV_OBL("ram.push.accepts_once", g_released >= 1 && g_valdel == 0 && g_del_total == 0);
  if (it_link_ok) XV_CANARY("push_int.linked"); else XV_CANARY("push_int.stored");
#endif
}
void h_pop_int(void) {
#ifdef XV_INT
  reset_ghost();
  struct ramq q; setup_int(&q);
  env_kind = 0; env_on = 1; mon_check = 1; mon_role = 2;
  optval r = ram_pop_cut(&q);
  env_on = 0;
  if (r.has) {
    /* the value handed out was read from (or exchanged out of) the entry of the ticket drawn in this iteration */
    XV_OBL("ram.pop.commit", IT_HAS_TICKET && it_entry_read && IS_VALUE(it_entry_seen) && r.v == it_entry_seen);
    XV_OBL("ram.pop.hands_over_once", g_get_count == 1 && g_get_val == r.v && it_head_cas == 0 && it_reclaims == 0);
    if (it_entry_xchg) XV_CANARY("pop_int.value_by_exchange"); else XV_CANARY("pop_int.value_by_load");
  } else {
    XV_OBL("ram.pop.hands_over_once", g_get_count == 0);
    /* pop reports 'empty' only from an iteration that holds no ticket of the node any more: none drawn, one beyond the node, or the entry marked INVALID */
    XV_OBL("ram.pop.invalidate", !IT_HAS_TICKET || (it_entry_xchg && it_entry_seen == 0));
    XV_CANARY("pop_int.empty");
  }
  XV_OBL("ram.pop.commit", g_alloc_count == 0 && g_delete_count == 0 && g_released == 0 && g_del_total == 0);
#endif
}

/* =========================== INT: push loses the race for linking its new node (C07 roll-back) =========================== */
void h_push_rollback(void) {
#ifdef XV_INT
  reset_ghost();
  struct ramq q;
  /* element 0: the tail node, full, no successor yet.  element 1: the node producer B is about to link (holds B's value).  elements 2, 3: free */
  struct node T0 = havoc_node(0); XV_ASSUME(T0.next == 0 && T0.push_idx >= max_idx);
  struct node N0 = havoc_node(1); XV_ASSUME(N0.next == 0);
  dead_node(2); dead_node(3);
  g_fresh = 2; q._tail = NPTR(0); q._head = nondet_word(); mon_q = &q; word_t head0 = q._head;
  in_val = nondet_word(); XV_ASSUME(in_val != 0 && (in_val & MARK63) == 0); g_trk_val = in_val; g_raw = in_val;
  env_kind = 1; env_linked = 0; env_on = 1;
  g_alloc_may_fail = 1; g_alloc_fail_from = 1;          /* the first allocation succeeds, a second one may throw std::bad_alloc */
  ram_push(&q, in_val);
  env_on = 0;
  struct node P[4]; for (unsigned i = 0; i < 4; i++) P[i] = snap(i);
  if (xv_threw == XV_EXC_bad_alloc) {
    /* push exits by exception after it had lost the race: the first node is gone, nothing destroyed, and the argument object must still own the value */
    XV_OBL("ram.push.throw_keeps_value", g_released == 0);
    XV_OBL("ram.push.rollback", g_valdel == 0 && g_del_total == 0 && g_alloc_count == 1 && g_delete_count == 1 && P[2].g_deleted == 1 && !P[2].g_live);
    for (unsigned i = 0; i < 4; i++) for (unsigned s = 0; s < XV_E; s++)
      XV_OBL("ram.push.throw_keeps_value", !(P[i].g_live && P[i].ent[s] == in_val && !((i == 0 && T0.ent[s] == in_val) || (i == 1 && N0.ent[s] == in_val))));
    XV_CANARY("rollback.second_alloc_failed");
    return;
  }
  XV_OBL("ram.push.rollback", xv_threw == 0 && g_released >= 1);
  XV_OBL("ram.push.rollback", g_valdel == 0 && g_del_total == 0);                        /* nothing destroyed */
  /* the value is in exactly one entry of a live node */
  unsigned places = 0;
  for (unsigned i = 0; i < 4; i++) for (unsigned s = 0; s < XV_E; s++) {
    _Bool was = (i == 0 && T0.ent[s] == in_val) || (i == 1 && N0.ent[s] == in_val);
    if (P[i].g_live && P[i].ent[s] == in_val && !was) places++;
  }
  XV_OBL("ram.push.rollback", places == 1);
  if (P[2].g_deleted) {
    /* lost the race: our first node was never published and has been deleted exactly once */
    XV_OBL("ram.push.rollback", env_linked && P[2].g_deleted == 1 && !P[2].g_live && P[0].next == NPTR(1) && P[1].next != NPTR(2) && q._tail != NPTR(2));
    XV_OBL("ram.push.rollback", g_delete_count == 1);
    if (g_alloc_count == 2) {
      XV_OBL("ram.push.rollback", P[3].g_live && P[3].ent[0] == in_val && P[1].next == NPTR(3) && q._tail == NPTR(3));
      XV_CANARY("rollback.second_node");
    } else {
      unsigned sN; unsigned fN = first_free(&N0, &sN);
      XV_OBL("ram.push.rollback", g_alloc_count == 1 && q._tail == NPTR(1) && fN < max_idx && P[1].ent[sN] == in_val);
      XV_CANARY("rollback.stored_in_winner_node");
    }
    XV_CANARY("rollback.lost_race");
  } else {
    XV_OBL("ram.push.rollback", g_delete_count == 0);
    if (env_linked) XV_CANARY("rollback.helped"); else XV_CANARY("rollback.no_race");
  }
  for (unsigned s = 0; s < XV_E; s++) if (T0.ent[s] != 0) XV_OBL("ram.push.rollback", P[0].ent[s] == T0.ent[s]);
  XV_OBL("ram.push.rollback", q._head == head0 && P[0].g_live && P[1].g_live && P[0].g_retired == 0 && P[1].g_retired == 0);
#endif
}

/* =========================== INT: two consumers race for the last tickets of a node (C04), then a push =========================== */
void h_pop_race(void) {
#ifdef XV_INT
  reset_ghost();
  struct ramq q;
  struct node H0 = havoc_node(0); XV_ASSUME(H0.next == 0);       /* the only node of the queue */
  for (unsigned i = 1; i < NN; i++) dead_node(i);
  g_fresh = 1; q._head = NPTR(0); q._tail = NPTR(0); mon_q = &q;
  env_kind = 2; env_b_drew = 0; env_on = 1;
  optval r = ram_pop(&q);
  env_on = 0;
  struct node H1 = snap(0);
  unsigned b_slot = 0; _Bool b_in_node = 0;
  if (env_b_drew) b_slot = slot_of_idx(env_b_idx, &b_in_node);
  /* every ticket this pop drew is resolved when it returns: the value handed out, or the (free) entry marked INVALID */
  unsigned taken = 0;
  for (unsigned k = 0; k < XV_E; k++) {
    _Bool drawn_by_us = TK(k) >= H0.pop_idx && TK(k) < H1.pop_idx && !(env_b_drew && env_b_idx == TK(k));
    marked_value a = H0.ent[spec_slot(k)], b = H1.ent[spec_slot(k)];
    if (drawn_by_us && a == 0) XV_OBL("ram.pop.invalidate", b == INVALID);
    if (drawn_by_us && IS_VALUE(a)) { XV_OBL("ram.pop.slot", r.has && r.v == a && b == a); taken++; }
  }
  XV_OBL("ram.pop.slot", taken == (r.has ? 1u : 0u));
  if (!r.has) {
    for (unsigned k = 0; k < XV_E; k++)
      if (TK(k) >= H0.pop_idx && TK(k) < H1.pop_idx && !(env_b_drew && env_b_idx == TK(k))) XV_OBL("ram.pop.empty", H1.ent[spec_slot(k)] != 0);
    if (env_b_drew && H1.pop_idx > H0.pop_idx + XV_STEP) XV_CANARY("pop_race.empty_after_losing_the_ticket");
  }
  /* B finishes: takes the value of its ticket or marks the entry */
  if (env_b_drew && b_in_node) { if (a_ent[0][b_slot].value == 0) a_ent[0][b_slot].value = INVALID; }
  a_pend[0] = H0.g_pend;
  struct node H2 = snap(0);
  XV_OBL("ram.inv.preserved", node_inv(&H2));
  /* and a push that follows does not put its value where no consumer will look again */
  in_val = nondet_word(); XV_ASSUME(in_val != 0 && (in_val & MARK63) == 0);
  for (unsigned s = 0; s < XV_E; s++) XV_ASSUME(H2.ent[s] != in_val);
  ram_push(&q, in_val);
  struct node H3 = snap(0);
  _Bool reachable = 0;
  for (unsigned k = 0; k < XV_E; k++)
    if (H3.ent[spec_slot(k)] == in_val) reachable = TK(k) >= H3.pop_idx || ((H3.g_pend >> k) & 1);
  if (a_live[1] && a_ent[1][0].value == in_val && a_pop_idx[1] == 0 && H3.next == NPTR(1)) reachable = 1;
  XV_OBL("ram.push.slot", reachable);
  if (env_b_drew) XV_CANARY("pop_race.raced"); else XV_CANARY("pop_race.alone");
#endif
}
