/* unit ram - ramalhete_queue (C04, C07).  Contracts, stubs, ghost state and harnesses only;
 * every function body under contract comes from lowered.h (extracted from /repo on each run). */
#include <stdint.h>
#include <stddef.h>
static void mon_load(void* addr, uint64_t v, int o);
static void mon_store(void* addr, uint64_t v, int o);
static void mon_rmw(void* addr, uint64_t oldv, uint64_t newv, int o);
static void mon_cas(void* addr, uint64_t e, uint64_t d, _Bool ok, int o);
#define XV_ON_LOAD(addr, val, order) mon_load((void*)(addr), (uint64_t)(val), (order))
#define XV_ON_STORE(addr, val, order) mon_store((void*)(addr), (uint64_t)(val), (order))
#define XV_ON_RMW(addr, oldv, newv, order) mon_rmw((void*)(addr), (uint64_t)(oldv), (uint64_t)(newv), (order))
#define XV_ON_CAS(addr, e, d, ok, order) mon_cas((void*)(addr), (uint64_t)(e), (uint64_t)(d), (ok), (order))
#include "xv.h"
int xv_threw; uint64_t xv_clock, xv_rmw_old; _Bool xv_cas_ok;

/* ---- compile-time shapes ---- */
#ifndef XV_E
#define XV_E 4            /* entries_per_node */
#endif
#ifndef XV_R
#define XV_R 1            /* pop_retries */
#endif
#define entries_per_node XV_E
#define pop_retries XV_R
#define step_size XV_STEP      /* extracted from the header */
#define max_idx XV_MAXIDX      /* extracted from the header: step_size * entries_per_node */
#define XV_EXC_std__invalid_argument 1
#define XV_EXC_bad_alloc 2
#define XV_MIN(a, b) ((a) < (b) ? (a) : (b))
#define XV_BACKOFF() ((void)0)

/* ---- types: every pointer-like thing is a word ---- */
typedef uintptr_t marked_ptr, guard_ptr, raw_value_type, value_type, marked_value;
typedef struct { _Bool has; uintptr_t v; } optval;
#define XV_NULLOPT ((optval){0, 0})
#define OPT_has(o) ((o).has)
#define OPT_value(o) ((o).v)
/* marked_value = marked_ptr<.,1>: mark in bit 63 (contract of marked_ptr, unit mp) */
#define MARK63 ((uintptr_t)1 << 63)
#define MV_make(p, m) ((uintptr_t)(p) | ((uintptr_t)(m) << 63))
#define MV_get(v) ((uintptr_t)(v) & ~MARK63)
#define INVALID MARK63
#define IS_VALUE(w) ((w) != 0 && ((w) & MARK63) == 0)
#define IS_ENTRY_WORD(w) ((w) == 0 || (w) == INVALID || IS_VALUE(w))

struct entry { marked_value value; };
struct node {
  unsigned pop_idx; struct entry entries[XV_E]; unsigned push_idx; marked_ptr next;
  /* ghost */ _Bool g_live; unsigned g_retired, g_deleted;
};
struct ramq { marked_ptr _head, _tail; };
#define NN 4
struct node pool[NN];
#define NPTR(i) ((uintptr_t)((i) + 1) << 6)

/* ---- ghost state ---- */
unsigned g_released, g_get_count, g_del_total, g_alloc_count, g_delete_count, g_fresh, g_valdel;
uintptr_t g_get_val, g_trk_val, g_last_alloc;
_Bool g_alloc_may_fail, g_dtor_stub;

/* ---- guard_ptr contract stubs ---- */
uintptr_t it_guard; _Bool it_acquired; uint64_t it_acq_clock;
#define G_acquire(g, cell, order) ((g) = A_LOAD(cell, order), it_guard = (g), it_acquired = 1, it_acq_clock = xv_clock)
unsigned it_reclaims; uintptr_t it_reclaimed;
#define G_reclaim(g) (g_reclaim(g), (g) = 0)

/* ---- pointer_queue_traits contract stubs (unit pqt) ---- */
#define TR_get_raw(v) (v)
#define TR_release(v) (g_released++, (v) = 0)          /* unique_ptr::release(): the argument object no longer owns */

/* ---- monitors ---- */
struct ramq* mon_q;
/* per-iteration event records (reset at the loop head by XV_HAVOC_*) */
unsigned it_idx; _Bool it_ticket_drawn;   /* counter value returned by the fetch_add of this iteration */
uintptr_t it_next_val; _Bool it_next_loaded;
_Bool it_link_tried, it_link_ok; uintptr_t it_link_desired;
_Bool it_entry_cas, it_entry_cas_ok, it_entry_xchg; uintptr_t it_entry_seen; void* it_entry_addr;
unsigned it_head_cas, it_tail_cas; _Bool it_head_cas_ok;
uintptr_t g_raw;          /* the value being pushed (INT runs) */
#define IT_RESET it_acquired = 0; it_ticket_drawn = 0; it_next_loaded = 0; it_link_tried = 0; it_link_ok = 0; it_entry_cas = 0; \
  it_entry_cas_ok = 0; it_entry_xchg = 0; it_entry_seen = 0; it_entry_addr = 0; it_head_cas = 0; it_tail_cas = 0; it_head_cas_ok = 0; it_reclaims = 0


/* ---- prototypes of everything the lowered text calls (definitions follow the include: they use the extracted constants) ---- */
static unsigned node_idx(uintptr_t w);
static void g_reclaim(uintptr_t g);
static optval TR_get(uintptr_t raw);
static void TR_delete_value(uintptr_t raw);
static marked_ptr XV_NEW_NODE(raw_value_type item);
static void XV_DELETE_NODE(marked_ptr w);
static void havoc_shared(void);
static optval stub_pop(struct ramq* self);
static _Bool is_nptr(uintptr_t w);
static unsigned nidx(uintptr_t w);
#define XV_POP(self) stub_pop(self)
/* a case split over the pool elements: cbmc then reads/writes only the field concerned of each candidate node */
#define NODE_P(i) ((i) == 0 ? &pool[0] : (i) == 1 ? &pool[1] : (i) == 2 ? &pool[2] : &pool[3])
#define GDEREF(g) NODE_P(node_idx(g))
#define XV_INIT_pop_idx(self, v) ((self)->pop_idx = (v))
#define XV_INIT_push_idx(self, v) ((self)->push_idx = (v))
#define XV_INIT_next(self, v) ((self)->next = (v))
#ifdef XV_INT
void xv_env(void);
#endif

/* ---- loop cuts (INT runs): one arbitrary iteration from an arbitrary typed state ---- */
static void havoc_shared(void);
#define XV_INV_PUSH (g_alloc_count == g_delete_count && g_valdel == 0 && g_del_total == 0 && (t == 0 || (is_nptr(t) && pool[nidx(t) % NN].g_live)))
#define XV_HAVOC_PUSH t = nondet_uptr(); value = nondet_bool() ? value : 0; IT_RESET; havoc_shared() \
  /* writes: idx expected next new_node (declared inside); shared cells via GDEREF / self: _tail next push_idx entries */
#define XV_INV_POP (h == 0 || (is_nptr(h) && pool[nidx(h) % NN].g_live))
#define XV_HAVOC_POP h = nondet_uptr(); IT_RESET; havoc_shared() \
  /* writes: idx value cnt expected next pop_idx push_idx (declared inside); shared cells via GDEREF / self: _head pop_idx entries */

#include "lowered.h"

/* ---- node pointers ---- */
static _Bool is_nptr(uintptr_t w) { return w != 0 && (w & 63) == 0 && (w >> 6) <= NN; }
static unsigned nidx(uintptr_t w) { return (unsigned)(w >> 6) - 1; }
static unsigned node_idx(uintptr_t w) {
  _Bool ok = is_nptr(w) && NODE_P(nidx(w))->g_live;
  XV_OBL("ram.node.live_deref", ok);        /* every node that is dereferenced is allocated and has not been deleted */
  XV_ASSUME(ok);
  return nidx(w);
}
static void g_reclaim(uintptr_t g) { NODE_P(node_idx(g))->g_retired++; it_reclaims++; it_reclaimed = g; }

static optval TR_get(uintptr_t raw) { g_get_count++; g_get_val = raw; return (optval){1, raw}; }
static void TR_delete_value(uintptr_t raw) {
  if (raw == 0) return;                                 /* unique_ptr<T>{nullptr}: nothing destroyed */
  g_del_total++;
  if (raw == g_trk_val) g_valdel++;
}

/* ---- new / delete of nodes: pool allocation running the REAL lowered constructor / destructor ---- */
static void havoc_words(struct node* n) {
  n->pop_idx = nondet_uint(); n->push_idx = nondet_uint(); n->next = nondet_uptr();
  for (unsigned s = 0; s < XV_E; s++) n->entries[s].value = nondet_uptr();
}
static marked_ptr XV_NEW_NODE(raw_value_type item) {
  if (g_alloc_may_fail && nondet_bool()) { xv_threw = XV_EXC_bad_alloc; return 0; }
  XV_MODEL_ASSERT("pool large enough", g_fresh < NN && !pool[g_fresh % NN].g_live);
  XV_ASSUME(g_fresh < NN);
  unsigned i = g_fresh++;
  /* one call site per pool element keeps `self` a constant pointer */
  for (unsigned c = 0; c < NN; c++) if (c == i) {
    havoc_words(&pool[c]);                            /* uninitialised storage */
    pool[c].g_live = 1; pool[c].g_retired = 0; pool[c].g_deleted = 0;
    ram_node_ctor(&pool[c], item);
  }
  g_alloc_count++; g_last_alloc = NPTR(i);
  return NPTR(i);
}
static void XV_DELETE_NODE(marked_ptr w) {
  unsigned i = node_idx(w);
  for (unsigned c = 0; c < NN; c++) if (c == i) {
    if (!g_dtor_stub) ram_node_dtor(&pool[c]);
    pool[c].g_live = 0; pool[c].g_deleted++;
  }
  g_delete_count++;
}

static _Bool in_pool(void* a) { return (char*)a >= (char*)&pool[0] && (char*)a < (char*)&pool[NN]; }
#ifdef XV_INT
/* the entry belonging to the counter value drawn in this iteration (the slot map itself is decided by ram.idx.injective and the SEQ runs) */
#define IT_HAS_TICKET (it_acquired && it_ticket_drawn && it_idx < max_idx)
#define IT_ENTRY(g) ((void*)&(g)->entries[it_idx % XV_E].value)
static void mon_load(void* addr, uint64_t v, int o) {
  if (!it_acquired) return;
  struct node* g = &pool[nidx(it_guard) % NN];
  if (addr == (void*)&g->next) { it_next_val = v; it_next_loaded = 1; }
  if (IT_HAS_TICKET && addr == IT_ENTRY(g)) { it_entry_seen = v; it_entry_addr = addr; }
}
static void mon_store(void* addr, uint64_t v, int o) { }
static void mon_rmw(void* addr, uint64_t oldv, uint64_t newv, int o) {
  struct node* g = &pool[nidx(it_guard) % NN];
  if (addr == (void*)&g->push_idx || addr == (void*)&g->pop_idx) {
    XV_OBL("ram.int.ticket", it_acquired && !it_ticket_drawn && newv == oldv + XV_STEP);   /* one ticket per iteration, from the protected node */
    it_ticket_drawn = 1; it_idx = (unsigned)oldv;
  } else {
    /* the only other RMW is pop's exchange on the entry of its ticket */
    XV_OBL("ram.pop.commit", IT_HAS_TICKET && addr == IT_ENTRY(g) && newv == INVALID && XV_IS_ACQUIRE(o));
    it_entry_xchg = 1; it_entry_seen = oldv; it_entry_addr = addr;
  }
}
static void mon_cas(void* addr, uint64_t e, uint64_t d, _Bool ok, int o) {
  struct node* g = &pool[nidx(it_guard) % NN];
  if (addr == (void*)&mon_q->_tail) {
    /* swing the tail: from the node the guard protects to the node linked behind it */
    it_tail_cas++;
    XV_OBL("ram.push.commit", it_acquired && e == it_guard && d != 0 && XV_IS_RELEASE(o)
           && ((it_link_ok && d == it_link_desired) || (!it_link_tried && it_next_loaded && d == it_next_val)));
  } else if (addr == (void*)&mon_q->_head) {
    it_head_cas++; it_head_cas_ok = ok;
    XV_OBL("ram.pop.commit", it_acquired && e == it_guard && it_next_loaded && d == it_next_val && d != 0 && XV_IS_RELEASE(o)
           && it_ticket_drawn && it_idx >= max_idx);
  } else if (in_pool(addr) && it_acquired && addr == (void*)&g->next) {
    /* link a new node behind the protected tail node */
    XV_OBL("ram.push.commit", !it_link_tried && e == 0 && d == g_last_alloc && g_alloc_count == g_delete_count + 1 && XV_IS_RELEASE(o)
           && it_ticket_drawn && it_idx >= max_idx
           && pool[nidx(d) % NN].entries[0].value == g_raw && pool[nidx(d) % NN].next == 0);
    it_link_tried = 1; it_link_ok = ok; it_link_desired = d;
  } else {
    /* store the value into the entry of the ticket just drawn */
    XV_OBL("ram.push.commit", IT_HAS_TICKET && addr == IT_ENTRY(g) && !it_entry_cas && e == 0 && d == g_raw && XV_IS_RELEASE(o));
    it_entry_cas = 1; it_entry_cas_ok = ok;
  }
}
#else
static void mon_load(void* addr, uint64_t v, int o) { }
static void mon_store(void* addr, uint64_t v, int o) { }
static void mon_rmw(void* addr, uint64_t oldv, uint64_t newv, int o) { }
static void mon_cas(void* addr, uint64_t e, uint64_t d, _Bool ok, int o) { }
#endif

/* ---- specification-level definitions ---- */
/* ticket -> entry (injective by ram.idx.injective); written as a table so that a symbolic ticket costs no divider */
static unsigned spec_slot(unsigned k) { for (unsigned c = 0; c < XV_E; c++) if (k == c) return (c * XV_STEP) % XV_E; return 0; }
#define MAXT ((unsigned)1 << 27)         /* assumption: fewer than 2^27 tickets per node (no wrap of the 32-bit counters) */
#define BAD_T 100000u
/* ticket-level view of the pre-state: push_idx = pre_pt * step_size, pop_idx = pre_qt * step_size */
unsigned pre_pt[NN], pre_qt[NN];
/* representation invariant of one node (what concurrent pushes/pops can leave behind at any instant), pt/qt = tickets handed out */
static _Bool node_inv(const struct node* n, unsigned pt, unsigned qt) {
  if (pt >= MAXT || qt >= MAXT || n->push_idx != pt * XV_STEP || n->pop_idx != qt * XV_STEP) return 0;
  if (n->next != 0 && !(is_nptr(n->next) && pt >= XV_E)) return 0;      /* a successor is appended only to a full node */
  for (unsigned k = 0; k < XV_E; k++) {
    marked_value w = n->entries[spec_slot(k)].value;
    if (!IS_ENTRY_WORD(w)) return 0;
    if (k >= pt && IS_VALUE(w)) return 0;            /* values only at tickets already handed to a producer */
    if (w == INVALID && k >= qt) return 0;           /* invalidated only by the consumer holding that ticket */
  }
  return 1;
}
static void havoc_node(unsigned i) {
  havoc_words(&pool[i]); pool[i].g_live = 1; pool[i].g_retired = 0; pool[i].g_deleted = 0;
  pre_pt[i] = nondet_uint(); pre_qt[i] = nondet_uint();
  XV_ASSUME(node_inv(&pool[i], pre_pt[i], pre_qt[i]));
}
static void dead_node(unsigned i) { havoc_words(&pool[i]); pool[i].g_live = 0; pool[i].g_retired = 0; pool[i].g_deleted = 0; }
/* number of tickets drawn from a counter by one operation (it draws at most entries_per_node + 1, the environment of the roll-back run one more) */
static unsigned drawn(unsigned pre_idx, unsigned post_idx) {
  for (unsigned d = 0; d <= XV_E + 3; d++) if (post_idx == pre_idx + d * XV_STEP) return d;
  return BAD_T;
}
/* first ticket >= the push ticket whose entry is still free (XV_E if none) */
static unsigned first_free(const struct node* n, unsigned pt) {
  for (unsigned k = 0; k < XV_E; k++) if (k >= pt && n->entries[spec_slot(k)].value == 0) return k;
  return XV_E;
}
static void reset_ghost(void) {
  g_released = 0; g_get_count = 0; g_del_total = 0; g_alloc_count = 0; g_delete_count = 0; g_valdel = 0;
  g_get_val = nondet_uptr(); g_trk_val = 0; g_last_alloc = 0; g_alloc_may_fail = 0; g_dtor_stub = 0;
  xv_threw = 0; IT_RESET; it_guard = 0;
}
unsigned in_e, in_pop_t, in_push_t, in_gk;

/* =========================== ram.idx.injective =========================== */
void h_idx(void) {
#if !(XV_STATIC_ASSERTS) || !(XV_E > 0)
  XV_CANARY("idx.config_rejected");      /* this entries_per_node does not compile: nothing to prove */
#else
  unsigned ki = nondet_uint(), kj = nondet_uint();
  XV_ASSUME(ki < XV_E && kj < XV_E);
  unsigned idx, a_push, b_push, a_pop, b_pop, a_dt, b_dt, i;
  idx = ki * step_size; XV_PUSH_SLOT_STMT; a_push = idx;
  idx = kj * step_size; XV_PUSH_SLOT_STMT; b_push = idx;
  idx = ki * step_size; XV_POP_SLOT_STMT; a_pop = idx;
  idx = kj * step_size; XV_POP_SLOT_STMT; b_pop = idx;
  i = ki * step_size; a_dt = XV_DTOR_SLOT_EXPR;
  i = kj * step_size; b_dt = XV_DTOR_SLOT_EXPR;
  XV_OBL("ram.idx.injective", a_push < XV_E && a_pop < XV_E && a_dt < XV_E);
  XV_OBL("ram.idx.injective", a_push == a_pop && a_push == a_dt);            /* producer, consumer and destructor agree on the entry of a ticket */
  XV_OBL("ram.idx.injective", a_push == (ki * XV_STEP) % XV_E);               /* and it is the map the other harnesses use as specification */
  if (ki != kj) {
    XV_OBL("ram.idx.injective", a_push != b_push && a_pop != b_pop && a_dt != b_dt);
#if XV_E > 1
    XV_CANARY("idx.distinct");
#endif
  }
  XV_OBL("ram.idx.injective", ki * step_size < max_idx && max_idx / step_size == XV_E);  /* max_idx separates the tickets of one node from the overflow tickets */
  XV_CANARY("idx.reached");
#endif
}

/* =========================== node constructor =========================== */
void h_node_ctor(void) {
  reset_ghost();
  struct node n; havoc_words(&n);
  raw_value_type item = nondet_uptr(); XV_ASSUME((item & MARK63) == 0);
  ram_node_ctor(&n, item);
  XV_OBL("ram.node_ctor.prefilled", n.entries[0].value == item && n.pop_idx == 0 && n.push_idx == step_size && n.next == 0);
  for (unsigned s = 1; s < XV_E; s++) XV_OBL("ram.node_ctor.prefilled", n.entries[s].value == 0);
  XV_OBL("ram.node_ctor.prefilled", spec_slot(0) == 0);      /* the pre-filled entry is the entry of ticket 0 */
  XV_OBL("ram.inv.preserved", node_inv(&n, 1, 0));
  if (item != 0) XV_CANARY("node_ctor.reached");
}

/* =========================== node destructor (C07) =========================== */
#ifndef XV_OV
#define XV_OV 3          /* how far beyond max_idx the counters may be (number of threads that hit the full/drained node) */
#endif
void h_node_dtor(void) {
  reset_ghost();
  in_e = XV_E;
  struct node* n = &pool[0]; havoc_node(0);
  in_pop_t = pre_qt[0]; in_push_t = pre_pt[0];
#ifdef XV_DTOR_BOUNDED
  XV_ASSUME(in_pop_t <= XV_E + XV_OV && in_push_t <= XV_E + XV_OV);
#endif
  in_gk = nondet_uint(); XV_ASSUME(in_gk < XV_E);
  unsigned s = spec_slot(in_gk);
  marked_value w = n->entries[s].value;
  /* ~node's control flow does not depend on the values (only on null / non-null), so distinct values lose nothing: count destructions of w */
  if (IS_VALUE(w)) { g_trk_val = w; for (unsigned o = 0; o < XV_E; o++) if (o != s) XV_ASSUME(n->entries[o].value != w); }
  /* the queue owns the value of ticket gk iff the ticket was handed to a producer, not yet to a consumer, and holds a value */
  _Bool owned = in_gk >= in_pop_t && in_gk < in_push_t && IS_VALUE(w);
  ram_node_dtor(n);
  XV_OBL("ram.node_dtor.owned_only", g_valdel == (owned ? 1u : 0u));      /* destroyed exactly once if owned, never otherwise */
  XV_OBL("ram.node_dtor.owned_only", n->entries[s].value == w && n->pop_idx == in_pop_t * XV_STEP && n->push_idx == in_push_t * XV_STEP);
  if (owned) XV_CANARY("node_dtor.owned");
  if (!owned && IS_VALUE(w) && in_gk < in_pop_t) XV_CANARY("node_dtor.consumed");
  if (in_pop_t > XV_E && in_push_t > in_pop_t) XV_CANARY("node_dtor.both_beyond_max");
  if (in_pop_t < XV_E && in_push_t > XV_E + 1) XV_CANARY("node_dtor.push_beyond_max");
}

/* =========================== queue constructor / destructor =========================== */
void h_ctor(void) {
  reset_ghost();
  for (unsigned i = 0; i < NN; i++) dead_node(i);
  g_fresh = 0;
  struct ramq q; q._head = nondet_uptr(); q._tail = nondet_uptr();
  ram_ctor(&q);
  XV_OBL("ram.ctor.empty", g_alloc_count == 1 && q._head == NPTR(0) && q._tail == NPTR(0) && pool[0].g_live);
  XV_OBL("ram.ctor.empty", pool[0].pop_idx == 0 && pool[0].push_idx == 0 && pool[0].next == 0);
  for (unsigned s = 0; s < XV_E; s++) XV_OBL("ram.ctor.empty", pool[0].entries[s].value == 0);
  XV_OBL("ram.inv.preserved", node_inv(&pool[0], 0, 0));
  XV_CANARY("ctor.reached");
}

unsigned in_len;
void h_dtor(void) {
  reset_ghost(); g_dtor_stub = 1;          /* ~node has its own contract (h_node_dtor); here: which nodes are deleted, and how often */
  for (unsigned i = 0; i < NN; i++) { havoc_node(i); pool[i].next = 0; }
  in_len = nondet_uint(); XV_ASSUME(in_len >= 1 && in_len <= 3);
  for (unsigned i = 0; i < 2; i++) if (i + 1 < in_len) pool[i].next = NPTR(i + 1);
  /* pool[in_len..] : nodes that are not in the list (e.g. retired, still waiting for reclamation) */
  struct ramq q; q._head = NPTR(0); q._tail = nondet_bool() ? NPTR(in_len - 1) : NPTR(in_len >= 2 ? in_len - 2 : 0);
  ram_dtor(&q);
  for (unsigned i = 0; i < NN; i++) {
    XV_OBL("ram.dtor.each_node_once", pool[i].g_deleted == (i < in_len ? 1u : 0u));
    XV_OBL("ram.dtor.each_node_once", pool[i].g_retired == 0);
  }
  if (in_len == 3) XV_CANARY("dtor.three_nodes");
  if (in_len == 1) XV_CANARY("dtor.one_node");
}

/* =========================== push, sequential (C04 + C07) =========================== */
uintptr_t in_val;
static void setup_push_state(struct ramq* q) {
  /* pool[0] = the node _tail points to; pool[1] = its successor when the tail lags by one, otherwise an unrelated live node;
   * pool[2], pool[3] = free storage */
  havoc_node(0); havoc_node(1);
  XV_ASSUME(pool[0].next == 0 || pool[0].next == NPTR(1));
  XV_ASSUME(pool[1].next == 0);
  dead_node(2); dead_node(3);
  g_fresh = 2;
  q->_tail = NPTR(0); q->_head = nondet_uptr();
  mon_q = q;
}
/* node a (now) against node b (before): everything but entry except_slot and, unless push_idx_too, push_idx/next */
static void check_node_unchanged(const struct node* a, const struct node* b, int except_slot, _Bool push_idx_too) {
  for (unsigned s = 0; s < XV_E; s++) if ((int)s != except_slot) XV_OBL("ram.push.frame", a->entries[s].value == b->entries[s].value);
  XV_OBL("ram.push.frame", a->pop_idx == b->pop_idx && a->g_retired == 0 && a->g_deleted == 0 && a->g_live);
  if (push_idx_too) XV_OBL("ram.push.frame", a->push_idx == b->push_idx && a->next == b->next);
}
void h_push(void) {
  reset_ghost();
  struct ramq q; setup_push_state(&q);
  struct node T0 = pool[0], N0 = pool[1]; uintptr_t head0 = q._head;
  unsigned ptT = pre_pt[0], ptN = pre_pt[1];
  in_val = nondet_uptr(); XV_ASSUME((in_val & MARK63) == 0);
  g_trk_val = in_val;
  /* an arbitrary value already in the queue: (gn, gk) */
  unsigned gn = nondet_uint(), gk = nondet_uint(); XV_ASSUME(gn < 2 && gk < XV_E);
  _Bool g_in = (gn == 0 || T0.next == NPTR(1)) && gk >= pre_qt[gn] && IS_VALUE(pool[gn].entries[spec_slot(gk)].value);
  ram_push(&q, in_val);
  if (in_val == 0) {
    XV_OBL("ram.push.null_rejected", xv_threw == XV_EXC_std__invalid_argument && g_released == 0 && g_alloc_count == 0);
    check_node_unchanged(&pool[0], &T0, -1, 1); check_node_unchanged(&pool[1], &N0, -1, 1);
    XV_OBL("ram.push.frame", q._tail == NPTR(0) && q._head == head0);
    XV_CANARY("push.null");
    return;
  }
  XV_OBL("ram.push.accepts_once", xv_threw == 0);
  unsigned kT = first_free(&T0, ptT), kN = first_free(&N0, ptN);
  unsigned pn, pk; _Bool fresh = 0;           /* where the value must be now */
  unsigned ptT1 = ptT, ptN1 = ptN;            /* tickets handed out afterwards */
  if (kT < XV_E) {                             /* A: a free ticket in the tail node */
    pn = 0; pk = kT; ptT1 = kT + 1;
    XV_OBL("ram.push.slot", pool[0].entries[spec_slot(kT)].value == in_val && pool[0].push_idx == (kT + 1) * XV_STEP);
    XV_OBL("ram.push.slot", pool[0].next == T0.next && q._tail == NPTR(0) && g_alloc_count == 0);
    check_node_unchanged(&pool[0], &T0, (int)spec_slot(kT), 0); check_node_unchanged(&pool[1], &N0, -1, 1);
    if (kT > ptT) XV_CANARY("push.slot_after_invalidated"); else XV_CANARY("push.slot");
  } else if (T0.next == 0) {                   /* B: tail node full (or every remaining ticket invalidated), no successor: append */
    pn = 2; pk = 0; fresh = 1; ptT1 = (ptT > XV_E ? ptT : XV_E) + 1;
    XV_OBL("ram.push.new_node", pool[0].next == NPTR(2) && q._tail == NPTR(2));
    XV_OBL("ram.push.new_node", pool[0].push_idx == ptT1 * XV_STEP);
    check_node_unchanged(&pool[0], &T0, -1, 0); check_node_unchanged(&pool[1], &N0, -1, 1);
    XV_CANARY("push.new_node");
  } else {                                     /* C/D: the tail lags by one: help it forward, then push there */
    ptT1 = ptT + 1;
    XV_OBL("ram.push.new_node", pool[0].push_idx == ptT1 * XV_STEP && pool[0].next == NPTR(1));
    check_node_unchanged(&pool[0], &T0, -1, 0);
    if (kN < XV_E) {
      pn = 1; pk = kN; ptN1 = kN + 1;
      XV_OBL("ram.push.new_node", q._tail == NPTR(1) && g_alloc_count == 0 && pool[1].next == 0);
      XV_OBL("ram.push.slot", pool[1].entries[spec_slot(kN)].value == in_val && pool[1].push_idx == (kN + 1) * XV_STEP);
      check_node_unchanged(&pool[1], &N0, (int)spec_slot(kN), 0);
      XV_CANARY("push.helped_tail");
    } else {
      pn = 2; pk = 0; fresh = 1; ptN1 = (ptN > XV_E ? ptN : XV_E) + 1;
      XV_OBL("ram.push.new_node", pool[1].next == NPTR(2) && q._tail == NPTR(2));
      XV_OBL("ram.push.new_node", pool[1].push_idx == ptN1 * XV_STEP);
      check_node_unchanged(&pool[1], &N0, -1, 0);
      XV_CANARY("push.helped_tail_new_node");
    }
  }
  if (fresh) {
    XV_OBL("ram.push.new_node", g_alloc_count == 1 && pool[2].g_live && pool[2].entries[0].value == in_val
           && pool[2].pop_idx == 0 && pool[2].push_idx == XV_STEP && pool[2].next == 0 && pool[2].g_retired == 0 && pool[2].g_deleted == 0);
    for (unsigned s = 1; s < XV_E; s++) XV_OBL("ram.push.new_node", pool[2].entries[s].value == 0);
    XV_OBL("ram.inv.preserved", node_inv(&pool[2], 1, 0));
  } else {
    XV_OBL("ram.push.frame", !pool[2].g_live);
  }
  XV_OBL("ram.push.frame", q._head == head0 && g_delete_count == 0 && !pool[3].g_live && g_get_count == 0);
  XV_OBL("ram.inv.preserved", node_inv(&pool[0], ptT1, pre_qt[0]) && node_inv(&pool[1], ptN1, pre_qt[1]) && NODE_P(node_idx(q._tail))->next == 0);
  /* C07: the caller's object gave up ownership exactly once, and the value was not destroyed */
  XV_OBL("ram.push.accepts_once", g_released == 1 && g_valdel == 0 && g_del_total == 0);
  /* FIFO: every value that was in the queue is in front of the new one (node order, then ticket order) */
  if (g_in) {
    XV_OBL("ram.push.fifo", gn < pn || (gn == pn && gk < pk));
    XV_CANARY("push.fifo_witness");
  }
}

/* =========================== pop, sequential (C04 + C07) =========================== */
static void setup_pop_state(struct ramq* q) {
  /* list pool[0] -> pool[1] -> pool[2] (a prefix of it), head = pool[0]; pool[3] not live */
  for (unsigned i = 0; i < 3; i++) havoc_node(i);
  XV_ASSUME(pool[0].next == 0 || pool[0].next == NPTR(1));
  XV_ASSUME(pool[1].next == 0 || pool[1].next == NPTR(2));
  XV_ASSUME(pool[2].next == 0);
  dead_node(3);
  g_fresh = 3;
  q->_head = NPTR(0); q->_tail = nondet_uptr();
  mon_q = q;
}
static _Bool listed(const struct node* pre, unsigned i) {      /* node i reachable from pool[0] in the pre-state */
  return i == 0 || (i == 1 && pre[0].next == NPTR(1)) || (i == 2 && pre[0].next == NPTR(1) && pre[1].next == NPTR(2));
}
void h_pop(void) {
  reset_ghost();
  struct ramq q; setup_pop_state(&q);
  struct node pre[3] = { pool[0], pool[1], pool[2] }; uintptr_t tail0 = q._tail;
  unsigned gn = nondet_uint(), gk = nondet_uint(); XV_ASSUME(gn < 3 && gk < XV_E);
  marked_value gw = pre[gn].entries[spec_slot(gk)].value;
  _Bool g_in = listed(pre, gn) && gk >= pre_qt[gn] && IS_VALUE(gw);     /* (gn, gk) is an element of the abstract queue */
  optval r = ram_pop(&q);
  /* the head moves forward along the list; every node left behind is retired exactly once, no other */
  XV_OBL("ram.pop.next_node", is_nptr(q._head) && nidx(q._head) < 3 && listed(pre, nidx(q._head)));
  unsigned hp = nidx(q._head) % 3;
  unsigned qt1[3];                              /* pop tickets handed out afterwards */
  for (unsigned i = 0; i < 3; i++) {
    unsigned d = drawn(pre[i].pop_idx, pool[i].pop_idx);
    XV_OBL("ram.pop.frame", d != BAD_T && (i <= hp || d == 0));
    qt1[i] = pre_qt[i] + d;
    XV_OBL("ram.pop.next_node", pool[i].g_retired == (i < hp ? 1u : 0u) && pool[i].g_deleted == 0 && pool[i].g_live);
    if (i < hp) XV_OBL("ram.pop.next_node", qt1[i] > XV_E);   /* left only after a ticket beyond the node was drawn */
    XV_OBL("ram.pop.frame", pool[i].push_idx == pre[i].push_idx && pool[i].next == pre[i].next);
    XV_OBL("ram.inv.preserved", node_inv(&pool[i], pre_pt[i], qt1[i]));
  }
  XV_OBL("ram.pop.frame", q._tail == tail0 && g_alloc_count == 0 && g_delete_count == 0 && !pool[3].g_live && g_released == 0 && g_del_total == 0);
  /* entries: values are never modified (a consumed value stays where it is); a free entry whose ticket was drawn becomes INVALID */
  for (unsigned i = 0; i < 3; i++) for (unsigned k = 0; k < XV_E; k++) {
    marked_value a = pre[i].entries[spec_slot(k)].value, b = pool[i].entries[spec_slot(k)].value;
    _Bool was_drawn = i <= hp && k >= pre_qt[i] && k < qt1[i];
    if (was_drawn && a == 0) XV_OBL("ram.pop.invalidate", b == INVALID);
    else XV_OBL("ram.pop.frame", b == a);
  }
  unsigned rk = qt1[hp] - 1;
  if (r.has) {
    XV_OBL("ram.pop.slot", qt1[hp] >= 1 && rk < XV_E && rk >= pre_qt[hp]);
    XV_OBL("ram.pop.slot", IS_VALUE(pre[hp].entries[spec_slot(rk)].value) && r.v == pre[hp].entries[spec_slot(rk)].value);
    XV_OBL("ram.pop.hands_over_once", g_get_count == 1 && g_get_val == r.v);
    if (g_in) {
      XV_OBL("ram.pop.fifo", !(gn < hp || (gn == hp && gk < rk)));               /* nothing that was in the queue is in front of the returned value */
      if (!(gn == hp && gk == rk)) XV_OBL("ram.pop.fifo", gk >= qt1[gn]);         /* and everything else is still in the queue */
      XV_CANARY("pop.fifo_witness");
    }
    if (hp > 0) XV_CANARY("pop.value_next_node");
    if (hp == 2) XV_CANARY("pop.value_third_node");
    if (rk > pre_qt[hp]) XV_CANARY("pop.value_after_invalidating");
    if (hp == 0 && rk == pre_qt[0]) XV_CANARY("pop.value");
  } else {
    XV_OBL("ram.pop.empty", !g_in);                  /* 'empty' only if there was no value in the queue */
    XV_OBL("ram.pop.hands_over_once", g_get_count == 0);
    XV_OBL("ram.pop.empty", pool[hp].next == 0);
    if (hp == 0 && pool[0].pop_idx == pre[0].pop_idx) XV_CANARY("pop.empty_untouched");
    if (hp > 0) XV_CANARY("pop.empty_after_drained_node");
    if (pool[hp].pop_idx > pre[hp].pop_idx) XV_CANARY("pop.empty_after_invalidating");
  }
}

/* =========================== try_pop =========================== */
optval stub_pop_result; unsigned stub_pop_calls;
static optval stub_pop(struct ramq* self) { stub_pop_calls++; return stub_pop_result; }
void h_try_pop(void) {
  reset_ghost();
  struct ramq q; q._head = nondet_uptr(); q._tail = nondet_uptr(); struct ramq q0 = q;
  stub_pop_result.has = nondet_bool(); stub_pop_result.v = nondet_uptr(); stub_pop_calls = 0;
  value_type result = nondet_uptr(), result0 = result;
  _Bool r = ram_try_pop(&q, &result);
  XV_OBL("ram.try_pop.forwards", stub_pop_calls == 1 && r == stub_pop_result.has && result == (r ? stub_pop_result.v : result0));
  XV_OBL("ram.try_pop.forwards", q._head == q0._head && q._tail == q0._tail);
  if (r) XV_CANARY("try_pop.true"); else XV_CANARY("try_pop.false");
}

/* =========================== INT: one iteration under arbitrary interference =========================== */
static void havoc_shared(void) {
  /* every shared cell gets an arbitrary well-typed value; a node that is private to this thread (allocated, not yet published) is left alone */
  _Bool have_private = g_alloc_count > g_delete_count && !it_link_ok;
  for (unsigned i = 0; i < NN; i++) {
    if (!pool[i].g_live) continue;
    if (have_private && NPTR(i) == g_last_alloc) continue;
    pool[i].pop_idx = nondet_uint(); pool[i].push_idx = nondet_uint();
    uintptr_t nx = nondet_uptr(); XV_ASSUME(nx == 0 || (is_nptr(nx) && pool[nidx(nx) % NN].g_live && nidx(nx) != i)); pool[i].next = nx;
    for (unsigned s = 0; s < XV_E; s++) { marked_value w = nondet_uptr(); XV_ASSUME(IS_ENTRY_WORD(w)); pool[i].entries[s].value = w; }
  }
  uintptr_t hd = nondet_uptr(), tl = nondet_uptr();
  XV_ASSUME(is_nptr(hd) && pool[nidx(hd) % NN].g_live && is_nptr(tl) && pool[nidx(tl) % NN].g_live);
  XV_ASSUME(!(have_private && (hd == g_last_alloc || tl == g_last_alloc)));
  mon_q->_head = hd; mon_q->_tail = tl;
}
#ifdef XV_INT
_Bool env_on; int env_kind; _Bool env_linked;
void xv_env(void) {
  if (!env_on) return;
  if (env_kind == 0) { if (nondet_bool()) havoc_shared(); return; }      /* rely: anything well-typed */
  /* env_kind 1: one competing producer B: draws a ticket on the full tail node pool[0], links its node pool[1] behind it, later swings the tail */
  if (!env_linked) {
    if (nondet_bool() && pool[0].next == 0 && pool[0].push_idx >= max_idx) { pool[0].next = NPTR(1); pool[0].push_idx += XV_STEP; env_linked = 1; }
  } else if (nondet_bool() && mon_q->_tail == NPTR(0)) mon_q->_tail = NPTR(1);
}
#endif
static void setup_int(struct ramq* q) {
  for (unsigned i = 0; i < 3; i++) { pool[i].g_live = 1; pool[i].g_retired = 0; pool[i].g_deleted = 0; }
  dead_node(3); g_fresh = 3;
  mon_q = q; havoc_shared();
}
void h_push_int(void) {
#ifdef XV_INT
  reset_ghost();
  struct ramq q; setup_int(&q);
  g_raw = nondet_uptr(); XV_ASSUME(g_raw != 0 && (g_raw & MARK63) == 0); g_trk_val = g_raw;
  env_kind = 0; env_on = 1;
  ram_push_cut(&q, g_raw);
  env_on = 0;
  /* push returns only from an iteration in which its own CAS published the value */
  XV_OBL("ram.push.commit", xv_threw == 0 && ((it_entry_cas && it_entry_cas_ok && !it_link_tried) || (it_link_tried && it_link_ok && !it_entry_cas)));
  XV_OBL("ram.push.commit", it_link_ok ? (it_tail_cas == 1 && g_alloc_count == g_delete_count + 1) : (it_tail_cas == 0 && g_alloc_count == g_delete_count));
  XV_OBL("ram.push.accepts_once", g_released >= 1 && g_valdel == 0 && g_del_total == 0);
  if (it_link_ok) XV_CANARY("push_int.linked"); else XV_CANARY("push_int.stored");
#endif
}
void h_pop_int(void) {
#ifdef XV_INT
  reset_ghost();
  struct ramq q; setup_int(&q);
  env_kind = 0; env_on = 1;
  optval r = ram_pop_cut(&q);
  env_on = 0;
  if (r.has) {
    /* the value handed out was read from (or exchanged out of) the entry of the ticket drawn in this iteration */
    XV_OBL("ram.pop.commit", IT_HAS_TICKET && it_entry_addr != 0 && IS_VALUE(it_entry_seen) && r.v == it_entry_seen);
    XV_OBL("ram.pop.hands_over_once", g_get_count == 1 && g_get_val == r.v && it_head_cas == 0 && it_reclaims == 0);
    if (it_entry_xchg) XV_CANARY("pop_int.value_by_exchange"); else XV_CANARY("pop_int.value_by_load");
  } else {
    XV_OBL("ram.pop.hands_over_once", g_get_count == 0);
    XV_CANARY("pop_int.empty");
  }
  XV_OBL("ram.pop.commit", g_alloc_count == 0 && g_delete_count == 0 && g_released == 0 && g_del_total == 0);
#endif
}

/* =========================== INT: push loses the race for linking its new node (C07 roll-back) =========================== */
void h_push_rollback(void) {
#ifdef XV_INT
  reset_ghost();
  struct ramq q;
  /* pool[0]: the tail node, no successor yet.  pool[1]: the node producer B is about to link (holds B's value).  pool[2], pool[3]: free */
  havoc_node(0); XV_ASSUME(pool[0].next == 0);
  havoc_node(1); XV_ASSUME(pool[1].next == 0);
  dead_node(2); dead_node(3);
  g_fresh = 2; q._tail = NPTR(0); q._head = nondet_uptr(); mon_q = &q; uintptr_t head0 = q._head;
  struct node T0 = pool[0], N0 = pool[1];
  in_val = nondet_uptr(); XV_ASSUME(in_val != 0 && (in_val & MARK63) == 0); g_trk_val = in_val; g_raw = in_val;
  env_kind = 1; env_linked = 0; env_on = 1;
  ram_push(&q, in_val);
  env_on = 0;
  XV_OBL("ram.push.rollback", xv_threw == 0 && g_released >= 1);
  XV_OBL("ram.push.rollback", g_valdel == 0 && g_del_total == 0);                        /* nothing destroyed */
  /* the value is in exactly one entry of a live node */
  unsigned places = 0;
  for (unsigned i = 0; i < NN; i++) for (unsigned s = 0; s < XV_E; s++) {
    _Bool was = (i == 0 && T0.entries[s].value == in_val) || (i == 1 && N0.entries[s].value == in_val);
    if (pool[i].g_live && pool[i].entries[s].value == in_val && !was) places++;
  }
  XV_OBL("ram.push.rollback", places == 1);
  if (pool[2].g_deleted) {
    /* lost the race: our first node was never published and has been deleted exactly once */
    XV_OBL("ram.push.rollback", env_linked && pool[2].g_deleted == 1 && !pool[2].g_live && pool[0].next == NPTR(1) && pool[1].next != NPTR(2) && q._tail != NPTR(2));
    XV_OBL("ram.push.rollback", g_delete_count == 1);
    if (g_alloc_count == 2) {
      XV_OBL("ram.push.rollback", pool[3].g_live && pool[3].entries[0].value == in_val && pool[1].next == NPTR(3) && q._tail == NPTR(3));
      XV_CANARY("rollback.second_node");
    } else {
      XV_OBL("ram.push.rollback", g_alloc_count == 1 && q._tail == NPTR(1) && pool[1].entries[spec_slot(first_free(&N0, pre_pt[1]) % XV_E)].value == in_val);
      XV_CANARY("rollback.stored_in_winner_node");
    }
    XV_CANARY("rollback.lost_race");
  } else {
    XV_OBL("ram.push.rollback", g_delete_count == 0);
    if (env_linked) XV_CANARY("rollback.helped"); else XV_CANARY("rollback.no_race");
  }
  for (unsigned s = 0; s < XV_E; s++) if (T0.entries[s].value != 0) XV_OBL("ram.push.rollback", pool[0].entries[s].value == T0.entries[s].value);
  XV_OBL("ram.push.rollback", q._head == head0 && pool[0].g_live && pool[1].g_live && pool[0].g_retired == 0 && pool[1].g_retired == 0);
#endif
}
