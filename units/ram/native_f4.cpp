// F4 (C04/C07): ramalhete_queue maps ticket k to entry (k*step_size) % entries_per_node with step_size = 11.
// When 11 divides entries_per_node the map is not injective: several tickets share an entry, pushed values
// overwrite nothing (CAS on a non-null entry fails -> value goes elsewhere) and pops return the same entry repeatedly.
// Public API only.   g++ -std=c++17 -I /repo native_f4.cpp -pthread [-DEPN=11]
// exit 0: FIFO holds, exit 1: violation.  (With the static_assert repair EPN=11 no longer compiles - that is the fix.)
#include <xenium/ramalhete_queue.hpp>
#include <xenium/reclamation/generic_epoch_based.hpp>
#include <cstdio>
#include <vector>
#ifndef EPN
#define EPN 11
#endif
int main() {
  xenium::ramalhete_queue<int*, xenium::policy::reclaimer<xenium::reclamation::epoch_based<>>,
                          xenium::policy::entries_per_node<EPN>, xenium::policy::pop_retries<0>> q;
  const int N = 3 * EPN + 2;
  std::vector<int> v(N);
  for (int i = 0; i < N; i++) { v[i] = i; q.push(&v[i]); }
  std::vector<int> seen(N, 0);
  int bad = 0, n = 0; int* r = nullptr;
  printf("entries_per_node=%d pushed 0..%d, popped:", EPN, N - 1);
  while (n < 4 * N && q.try_pop(r)) {
    printf(" %d", *r);
    if (*r != n) bad++;
    if (*r >= 0 && *r < N && ++seen[*r] > 1) bad++;
    n++;
  }
  printf("\n");
  if (n != N) { printf("popped %d values, pushed %d\n", n, N); bad++; }
  for (int i = 0; i < N; i++) if (seen[i] != 1) { printf("value %d returned %d times\n", i, seen[i]); bad++; break; }
  printf(bad ? "FIFO VIOLATED\n" : "FIFO ok\n");
  return bad ? 1 : 0;
}
