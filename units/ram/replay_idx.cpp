// native replay for ram.idx.injective: a sequential FIFO run of the real queue with entries_per_node = in_e
// (in_ki, in_kj: the two tickets cbmc found to collide).  exit 0: FIFO, 1: violated, 2: in_e not instantiated
#include <xenium/ramalhete_queue.hpp>
#include <xenium/reclamation/generic_epoch_based.hpp>
#include <cstdio>
#include <cstdlib>
#include <cstring>
#include <map>
#include <string>
#include <vector>
template <unsigned E> int run(unsigned ki, unsigned kj) {
  xenium::ramalhete_queue<int*, xenium::policy::reclaimer<xenium::reclamation::epoch_based<>>, xenium::policy::entries_per_node<E>,
                          xenium::policy::pop_retries<0>> q;
  const int N = 2 * E + 3;
  std::vector<int> v(N), seen(N, 0);
  for (int i = 0; i < N; i++) { v[i] = i; q.push(&v[i]); }
  int bad = 0, n = 0; int* r = nullptr;
  printf("entries_per_node=%u (tickets %u and %u share an entry): pushed 0..%d, popped:", E, ki, kj, N - 1);
  while (n < 3 * N && q.try_pop(r)) { if (n < 40) printf(" %d", *r); if (*r != n) bad = 1; if (++seen[*r] > 1) bad = 1; n++; }
  printf("%s\n", n > 40 ? " ..." : "");
  if (n != N) { printf("popped %d values, pushed %d\n", n, N); bad = 1; }
  printf(bad ? "FIFO VIOLATED\n" : "FIFO ok\n");
  return bad;
}
int main(int argc, char** argv) {
  std::map<std::string, unsigned long long> a;
  for (int i = 1; i < argc; ++i) { char* eq = strchr(argv[i], '='); if (eq) a[std::string(argv[i], eq - argv[i])] = strtoull(eq + 1, 0, 0); }
  unsigned ki = unsigned(a["in_ki"]), kj = unsigned(a["in_kj"]);
  switch (a["in_e"]) {
#define C(E) case E: return run<E>(ki, kj);
    C(1) C(2) C(3) C(4) C(5) C(6) C(7) C(8) C(9) C(10) C(11) C(12) C(13) C(14) C(15) C(16) C(22) C(33) C(44) C(55) C(64) C(66) C(77) C(88) C(99) C(110) C(121) C(128) C(512) C(1023) C(1024) C(2046) C(2048)
    default: printf("entries_per_node=%llu not instantiated in the replay program\n", a["in_e"]); return 2;
  }
}
