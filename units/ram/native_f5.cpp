// F5 (C07): ramalhete_queue::node::~node deletes the entries of tickets pop_idx..push_idx WITHOUT clamping to max_idx.
// Every producer that draws a ticket on a full node adds step_size to push_idx (push(), "This node is full"), so with two
// producers hitting the full node push_idx = max_idx + 2*step_size.  ~node then walks past ticket E-1, wraps around modulo
// entries_per_node and deletes entries a second time (values still owned by the queue) or deletes values that were
// already handed to a consumer (pop leaves the pointer in the entry).
// The second producer's only effect on the node - its fetch_add on push_idx - is replayed by hand (needs -fno-access-control);
// everything else is the public API.   g++ -std=c++17 -fno-access-control -I /repo native_f5.cpp -pthread
// exit 0: every element destroyed exactly once, exit 1: violation
#include <xenium/ramalhete_queue.hpp>
#include <xenium/reclamation/generic_epoch_based.hpp>
#include <cstdio>
#include <cstdlib>
#include <memory>
static int dtors[16];
struct Elem {
  int id;
  explicit Elem(int i) : id(i) {}
  ~Elem() { dtors[id]++; }
  // keep the storage alive so that a double delete is observable without corrupting the heap
  static void* operator new(size_t n) { return malloc(n); }
  static void operator delete(void*) {}
};
using Q = xenium::ramalhete_queue<std::unique_ptr<Elem>, xenium::policy::reclaimer<xenium::reclamation::epoch_based<>>,
                                  xenium::policy::entries_per_node<2>>;
static int scenario(bool consume) {
  for (int& d : dtors) d = 0;
  {
    Q q;
    q.push(std::make_unique<Elem>(0));
    q.push(std::make_unique<Elem>(1));                      // first node is full now (2 entries)
    Q::node* n1 = q._tail.load().get();
    n1->push_idx.fetch_add(Q::step_size);                   // producer B draws a ticket on the full node ...
    q.push(std::make_unique<Elem>(2));                      // ... producer A too, and A appends the new node (B would now see t != _tail and retry there)
    printf("  node1: pop_idx=%u push_idx=%u max_idx=%u\n", n1->pop_idx.load(), n1->push_idx.load(), Q::max_idx);
    if (consume) {                                          // variant 2: both values are consumed, the consumer owns and destroys them
      for (int i = 0; i < 2; i++) { auto v = q.pop(); if (!v || (*v)->id != i) { printf("  unexpected pop result\n"); return 2; } }
      // a consumer draws a ticket on the drained node (pop_idx = max_idx + step_size < push_idx); node1 stays head until it is unlinked
      n1->pop_idx.fetch_add(Q::step_size);
      printf("  node1 drained: pop_idx=%u push_idx=%u\n", n1->pop_idx.load(), n1->push_idx.load());
    }
  }  // ~ramalhete_queue deletes node1 and node2
  int bad = 0;
  for (int i = 0; i < 3; i++) { printf("  element %d destroyed %d time(s)\n", i, dtors[i]); if (dtors[i] != 1) bad = 1; }
  return bad;
}
int main() {
  printf("queue destroyed with 3 elements inside, two producers had hit the full node:\n");
  int a = scenario(false);
  printf("same, but elements 0 and 1 were popped (and destroyed by the consumer) before:\n");
  int b = scenario(true);
  if (a == 2 || b == 2) return 2;
  printf((a || b) ? "OWNERSHIP VIOLATED (double delete)\n" : "ok: every element destroyed exactly once\n");
  return (a || b) ? 1 : 0;
}
