// native replay for ram.node_dtor.owned_only: the real ramalhete_queue::node::~node on the (pop_idx, push_idx) state cbmc found.
// inputs: in_e = entries_per_node, in_pop_t / in_push_t = tickets handed to consumers / producers (pop_idx = in_pop_t*step_size, ...),
//         in_gk = the ticket cbmc looked at.   exit 0: every element destroyed exactly once, 1: violation, 2: configuration not instantiated
#include <xenium/ramalhete_queue.hpp>
#include <xenium/reclamation/generic_epoch_based.hpp>
#include <cstdio>
#include <cstdlib>
#include <cstring>
#include <map>
#include <memory>
#include <string>
#include <vector>
static std::vector<int> dtors;
struct Elem {
  int id;
  explicit Elem(int i) : id(i) {}
  ~Elem() { dtors[id]++; }
  static void* operator new(size_t n) { return malloc(n); }
  static void operator delete(void*) {}        // keep the storage: a double delete stays observable instead of corrupting the heap
};
template <unsigned E> int run(unsigned long long pop_t, unsigned long long push_t, unsigned gk) {
  using Q = xenium::ramalhete_queue<std::unique_ptr<Elem>, xenium::policy::reclaimer<xenium::reclamation::epoch_based<>>,
                                    xenium::policy::entries_per_node<E>>;
  const unsigned step = Q::step_size;
  unsigned stored = push_t < E ? unsigned(push_t) : E;          // tickets 0..stored-1 were handed to producers, all of them have stored a value
  dtors.assign(E, 0);
  std::vector<Elem*> e(E, nullptr);
  auto* n = new typename Q::node(nullptr);
  for (unsigned k = 0; k < stored; k++) { e[k] = new Elem(int(k)); n->entries[(k * step) % E].value.store(e[k]); }
  n->push_idx.store(unsigned(push_t * step)); n->pop_idx.store(unsigned(pop_t * step));
  unsigned consumed = pop_t < stored ? unsigned(pop_t) : stored;  // tickets 0..consumed-1 were handed to consumers: they own and destroy the values
  for (unsigned k = 0; k < consumed; k++) { std::unique_ptr<Elem> c(e[k]); }
  printf("entries_per_node=%u pop_idx=%llu*%u push_idx=%llu*%u (max_idx=%u): %u value(s) stored, %u already consumed\n", E, pop_t, step, push_t, step, Q::max_idx, stored, consumed);
  delete n;
  int bad = 0;
  for (unsigned k = 0; k < stored; k++)
    if (dtors[k] != 1) { printf("  element of ticket %u destroyed %d time(s)%s\n", k, dtors[k], k == gk ? "   <- cbmc's ticket" : ""); bad = 1; }
  printf(bad ? "OWNERSHIP VIOLATED\n" : "every element destroyed exactly once\n");
  return bad;
}
int main(int argc, char** argv) {
  std::map<std::string, unsigned long long> a;
  for (int i = 1; i < argc; ++i) { char* eq = strchr(argv[i], '='); if (eq) a[std::string(argv[i], eq - argv[i])] = strtoull(eq + 1, 0, 0); }
  unsigned long long pop_t = a["in_pop_t"], push_t = a["in_push_t"]; unsigned gk = unsigned(a["in_gk"]);
  if (pop_t > 100000 || push_t > 100000) { printf("counters too large for a native run\n"); return 2; }
  switch (a["in_e"]) {
    case 1: return run<1>(pop_t, push_t, gk); case 2: return run<2>(pop_t, push_t, gk); case 3: return run<3>(pop_t, push_t, gk);
    case 4: return run<4>(pop_t, push_t, gk); case 5: return run<5>(pop_t, push_t, gk); case 8: return run<8>(pop_t, push_t, gk);
    default: printf("entries_per_node=%llu not instantiated in the replay program\n", a["in_e"]); return 2;
  }
}
