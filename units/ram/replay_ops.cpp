// native replay for the sequential ram.push.* / ram.pop.* obligations: the real ramalhete_queue is put into the node state cbmc
// found (counters, entry pattern, list shape), one push / pop is executed and the result is compared with an abstract FIFO.
// inputs: in_e, in_r (entries_per_node, pop_retries), in_op (1 push, 2 pop), per node i = 0..2: in_pt<i> / in_qt<i> = push_idx / pop_idx
//         in_pat<i> = entry classes, 2 bits per entry index (0 null, 1 value, 2 INVALID), in_links = bit i: node i has node i+1 as next,
//         in_lag (push): 1 = tail is node 0 although node 1 is linked.
// exit 0: FIFO behaviour, 1: violation, 2: configuration not instantiated / not representable
#include <xenium/ramalhete_queue.hpp>
#include <xenium/reclamation/generic_epoch_based.hpp>
#include <cstdio>
#include <cstdlib>
#include <cstring>
#include <map>
#include <string>
#include <vector>
static std::map<std::string, unsigned long long> a;
static int vals[64];
template <unsigned E, unsigned R> int run() {
  using Q = xenium::ramalhete_queue<int*, xenium::policy::reclaimer<xenium::reclamation::epoch_based<>>,
                                    xenium::policy::entries_per_node<E>, xenium::policy::pop_retries<R>>;
  using node = typename Q::node; using mv = typename Q::marked_value;
  const unsigned step = Q::step_size;
  unsigned op = unsigned(a["in_op"]), links = unsigned(a["in_links"]);
  unsigned nn = 1 + ((links & 1) ? 1 + ((links & 2) ? 1 : 0) : 0);
  for (int i = 0; i < 64; i++) vals[i] = i;
  Q q;
  node* first = q._head.load().get();
  std::vector<node*> n(nn);
  std::vector<int> abstract;                                   // expected FIFO content: node order, then ticket order, tickets >= pop ticket
  for (unsigned i = 0; i < nn; i++) {
    n[i] = new node(nullptr);
    unsigned long long pt = a["in_pt" + std::to_string(i)], qt = a["in_qt" + std::to_string(i)], pat = a["in_pat" + std::to_string(i)];
    if (pt > 4000000000ull || qt > 4000000000ull) { printf("counter out of range\n"); return 2; }
    n[i]->push_idx.store(unsigned(pt)); n[i]->pop_idx.store(unsigned(qt));
    for (unsigned s = 0; s < E; s++) {
      unsigned c = unsigned(pat >> (2 * s)) & 3;
      n[i]->entries[s].value.store(c == 1 ? mv(&vals[16 * i + s]) : c == 2 ? mv(nullptr, 1) : mv(nullptr));
    }
    for (unsigned k = 0; k < E; k++) {                          // ticket order
      unsigned s = (k * step) % E, c = unsigned(pat >> (2 * s)) & 3;
      if (c == 1 && (unsigned long long)k * step >= qt) abstract.push_back(16 * i + s);
    }
  }
  for (unsigned i = 0; i + 1 < nn; i++) n[i]->next.store(n[i + 1]);
  q._head.store(n[0]);
  q._tail.store((op == 1 && a["in_lag"] && nn >= 2) ? n[nn - 2] : (op == 1 ? n[nn - 1] : n[0]));
  delete first;
  printf("entries_per_node=%u pop_retries=%u, %u node(s), abstract content:", E, R, nn); for (int v : abstract) printf(" %d", v); printf("\n");
  int bad = 0;
  if (op == 1) { q.push(&vals[63]); abstract.push_back(63); printf("  push(63)\n"); }
  else {
    auto r = q.pop(); printf("  pop -> %s", r ? "value " : "empty"); if (r) printf("%d", **r); printf("\n");
    if (abstract.empty() ? r.has_value() : (!r || **r != abstract.front())) { printf("  expected %s\n", abstract.empty() ? "empty" : "the first element"); bad = 1; }
    if (r && !abstract.empty()) abstract.erase(abstract.begin());
  }
  for (int v : abstract) { auto r = q.pop(); if (!r || **r != v) { printf("  drain: expected %d, got %d\n", v, r ? **r : -1); bad = 1; break; } }
  if (!bad && q.pop()) { printf("  drain: more elements than expected\n"); bad = 1; }
  printf(bad ? "FIFO VIOLATED\n" : "FIFO ok\n");
  return bad;
}
template <unsigned E> int run_r() { switch (a["in_r"]) { case 0: return run<E, 0>(); case 1: return run<E, 1>(); case 2: return run<E, 2>(); default: return 2; } }
int main(int argc, char** argv) {
  for (int i = 1; i < argc; ++i) { char* eq = strchr(argv[i], '='); if (eq) a[std::string(argv[i], eq - argv[i])] = strtoull(eq + 1, 0, 0); }
  switch (a["in_e"]) {
    case 1: return run_r<1>(); case 2: return run_r<2>(); case 3: return run_r<3>(); case 4: return run_r<4>(); case 5: return run_r<5>(); case 8: return run_r<8>();
    default: printf("entries_per_node=%llu not instantiated in the replay program\n", a["in_e"]); return 2;
  }
}
