// C07, exception path of ramalhete_queue::push (remote: needs a lost race for linking a new node followed by an allocation failure):
// push() calls traits::release(value) BEFORE the CAS that links its new node.  When that CAS fails the node is rolled back correctly,
// but the unique_ptr argument has already given up ownership; the raw pointer now lives only in the local raw_val.  If a later
// iteration needs another node and `new node` throws std::bad_alloc, push() exits by exception and the element is owned by nobody: leaked.
//
// Deterministic single-threaded replay on the real headers: the competing producer is run from inside the global operator new that
// push() calls for its node, i.e. exactly between the load of t->next and the CAS on it; the second allocation is made to fail.
//   g++ -std=c++17 -fno-access-control -I /repo native_push_throw_leak.cpp -pthread   (-fno-access-control only for sizeof(Q::node))
// exit 0: the element is still owned by somebody after the exception (caller or queue), exit 1: leaked
#include <xenium/ramalhete_queue.hpp>
#include <xenium/reclamation/generic_epoch_based.hpp>
#include <cstdio>
#include <cstdlib>
#include <memory>
#include <new>
static int live_elems = 0, dtors[8];
struct Elem { int id; explicit Elem(int i) : id(i) { live_elems++; } ~Elem() { dtors[id]++; live_elems--; } };
using Q = xenium::ramalhete_queue<std::unique_ptr<Elem>, xenium::policy::reclaimer<xenium::reclamation::epoch_based<>>,
                                  xenium::policy::entries_per_node<1>>;
static Q* q = nullptr;
static int phase = 0;   // 0 off, 1: next node-sized allocation = producer A's node -> run producer B first, 2: A's second node allocation fails
static Elem* elemB = nullptr;
void* operator new(std::size_t n) {
  if (n == sizeof(Q::node)) {
    if (phase == 1) { phase = 3; q->push(std::unique_ptr<Elem>(elemB)); phase = 2; }   // B links its node behind the full tail node
    else if (phase == 2) { phase = 0; throw std::bad_alloc(); }
  }
  void* p = std::malloc(n); if (!p) throw std::bad_alloc(); return p;
}
void operator delete(void* p) noexcept { std::free(p); }
void operator delete(void* p, std::size_t) noexcept { std::free(p); }
int main() {
  int bad = 0;
  {
    Q queue; q = &queue;
    queue.push(std::make_unique<Elem>(0));        // entries_per_node = 1: the first node is full now
    elemB = new Elem(1);
    auto a = std::make_unique<Elem>(2);
    Elem* rawA = a.get();
    phase = 1;
    try { queue.push(std::move(a)); printf("push(A) returned normally (scenario not reached)\n"); return 2; }
    catch (const std::bad_alloc&) { printf("push(A) threw std::bad_alloc\n"); }
    printf("caller's unique_ptr after the exception: %s\n", a ? "still owns A" : "empty (moved into push)");
    // drain: is A in the queue?
    bool a_in_queue = false; int n = 0;
    while (auto v = queue.pop()) { if (v->get() == rawA) a_in_queue = true; n++; }
    printf("queue held %d element(s); A %s in the queue; A destroyed %d time(s)\n", n, a_in_queue ? "was" : "was not", dtors[2]);
    if (!a && !a_in_queue && dtors[2] == 0) { printf("A is owned by nobody: LEAKED\n"); bad = 1; }
  }
  printf("elements alive after the queue is gone: %d\n", live_elems);
  return bad;
}
