// native replay for the msq.* obligations: the real michael_scott_queue with a tracked, non-trivial element type.
// inputs: in_len = number of list nodes incl. the dummy (1..3), in_lag = 1: the tail points to the node before the last one
//         (a push between its two CASes), in_op = 1 push / 2 try_pop / 3 pop / 4 destructor.
// exit 0: behaves like a FIFO queue that owns its elements, 1: violation, 2: cannot represent
#include <xenium/michael_scott_queue.hpp>
#include <xenium/reclamation/generic_epoch_based.hpp>
#include <cstdio>
#include <cstdlib>
#include <cstring>
#include <map>
#include <string>
#include <vector>
static int live = 0, payload_destroyed[16], constructed = 0, destroyed = 0;
struct Elem {
  int id;                                   // -1: moved-from
  explicit Elem(int i = -1) : id(i) { live++; constructed++; }
  Elem(Elem&& o) noexcept : id(o.id) { o.id = -1; live++; constructed++; }
  Elem& operator=(Elem&& o) noexcept { if (id >= 0) payload_destroyed[id]++; id = o.id; o.id = -1; return *this; }
  Elem(const Elem&) = delete;
  ~Elem() { if (id >= 0) payload_destroyed[id]++; live--; destroyed++; }
};
using Q = xenium::michael_scott_queue<Elem, xenium::policy::reclaimer<xenium::reclamation::epoch_based<>>>;
int main(int argc, char** argv) {
  std::map<std::string, unsigned long long> a;
  for (int i = 1; i < argc; ++i) { char* eq = strchr(argv[i], '='); if (eq) a[std::string(argv[i], eq - argv[i])] = strtoull(eq + 1, 0, 0); }
  unsigned len = unsigned(a["in_len"]), op = unsigned(a["in_op"]); bool lag = a["in_lag"] != 0;
  if (len < 1 || len > 3 || op < 1 || op > 4) { printf("cannot represent in_len=%u in_op=%u\n", len, op); return 2; }
  int bad = 0; unsigned n_in = len - 1;    // elements 0..n_in-1 are in the queue
  {
    Q q;
    for (unsigned i = 0; i < n_in; i++) q.push(Elem(int(i)));
    if (lag && len >= 2) {                  // put the tail one node back
      auto n = q._head.load(); for (unsigned i = 0; i + 2 < len; i++) n = n->_next.load();
      q._tail.store(n);
    }
    printf("list of %u node(s) (%u element(s))%s, op %u\n", len, n_in, lag && len >= 2 ? ", tail lagging by one" : "", op);
    std::vector<int> expect; for (unsigned i = 0; i < n_in; i++) expect.push_back(int(i));
    if (op == 1) { q.push(Elem(9)); expect.push_back(9); }
    if (op == 2) { Elem r; bool ok = q.try_pop(r); printf("  try_pop -> %d (id %d)\n", ok, r.id);
                   if (ok != (n_in > 0) || (ok && r.id != 0)) { printf("  expected %s\n", n_in ? "id 0" : "empty"); bad = 1; } if (ok) expect.erase(expect.begin()); }
    if (op == 3) { auto r = q.pop(); printf("  pop -> %d (id %d)\n", int(r.has_value()), r ? r->id : -1);
                   if (r.has_value() != (n_in > 0) || (r && r->id != 0)) { printf("  expected %s\n", n_in ? "id 0" : "empty"); bad = 1; } if (r) expect.erase(expect.begin()); }
    if (op != 4) {                          // drain: FIFO order of what must be left
      for (int id : expect) { auto r = q.pop(); if (!r || r->id != id) { printf("  drain: expected id %d, got %d\n", id, r ? r->id : -1); bad = 1; break; } }
      if (q.pop()) { printf("  drain: more elements than expected\n"); bad = 1; }
    }
  }                                         // ~michael_scott_queue
  for (int id = 0; id < 16; id++) if (payload_destroyed[id] > 1) { printf("  element %d destroyed %d times\n", id, payload_destroyed[id]); bad = 1; }
  for (unsigned id = 0; id < n_in; id++) if (payload_destroyed[id] != 1) { printf("  element %u destroyed %d time(s)\n", id, payload_destroyed[id]); bad = 1; }
  if (live != 0) { printf("  %d object(s) neither destroyed nor owned (constructed %d, destroyed %d)\n", live, constructed, destroyed); bad = 1; }
  printf(bad ? "VIOLATION\n" : "ok\n");
  return bad;
}
