F = 'xenium/michael_scott_queue.hpp'
Q = r'michael_scott_queue<T, Policies\.\.\.>::'
import re
def node_vars(text, lw):
    """unit-local rule: every local that holds a node (guard_ptr x; node* x = ...; auto x = new node / pop_node() / _head.load) is dereferenced with GDEREF"""
    names = set()
    for m in re.finditer(r'\bguard_ptr (\w+);|\bnode\* (\w+) =|\bauto (\w+) = (?:new node\b|pop_node\(|_head\.load\b)', text):
        names.update(x for x in m.groups() if x)
    lw.spec = dict(lw.spec, deref={n: 'GDEREF' for n in names})
    return text

COMMON = dict(
    file=F, members=['_head', '_tail'],
    methods={'acquire': 'G_acquire', 'reclaim': 'G_reclaim', 'get': 'MP_get'},
    calls={'acquire_guard': 'G_acquire_guard'},
    pre_subst=[(r'\bbackoff backoff;', '', 'drop_backoff_decl'),
               (r'\bbackoff\(\);', 'XV_BACKOFF();', 'backoff_call'),
               (r'\bguard_ptr (\w+);', r'guard_ptr \1 = 0;', 'guard_default_ctor'),
               (r'\bguard_ptr\s*\{\s*\}', '((guard_ptr)0)', 'guard_empty_temp'), (r'\bguard_ptr\s*\(\s*\)', '((guard_ptr)0)', 'guard_empty_temp'),
               (r'\bguard_ptr\s*\((\w+)\)', r'G_from_raw(\1)', 'guard_from_raw'),      # a guard built from a plain pointer: protects nothing by itself (contract stub in harness.c)
               (r'\bmarked_ptr (\w+)\((\w+)\.get\(\)\);', r'marked_ptr \1 = \2.get();', 'marked_ptr_ctor'),
               (r'\bmarked_ptr (\w+)\{\};', r'marked_ptr \1 = 0;', 'marked_ptr_ctor'),
               (r'\bnode\* (\w+) = new node\(std::move\((\w+)\)\);', r'marked_ptr \1 = XV_NEW_NODE(\2);', 'new_node'),
               (r'\bauto (\w+) = new node\(\);', r'marked_ptr \1 = XV_NEW_DUMMY();', 'new_node'),
               (r'\bdelete (\w+)\.get\(\);', r'XV_DELETE_NODE(\1);', 'delete_node'),
               (r'reinterpret_cast<T&>\((\w+)->_data\)\.~T\(\);', r'XV_DTOR_T(XV_DATA(\1));', 'dtor_T'),
               (r'reinterpret_cast<T&>\((\w+)->_data\)', r'XV_DATA(\1)', 'data_ref'),
               (r'\bdata\.~T\(\);', 'XV_DTOR_T(data);', 'dtor_T'),
               (r'\bresult = std::move\(data\);', 'XV_MOVE_ASSIGN(result, data);', 'move_T'),
               (r'\bstd::optional<T> result\(std::move\(data\)\);', 'optval result = XV_MOVE_OPT(data);', 'move_T')],
    subst=[(r'\bstd::nullopt\b', 'XV_NULLOPT', 'nullopt'), (r'\bmarked_ptr\b', 'marked_ptr_t', 'type_name')],
    py_pre=node_vars,
    post_subst=[(r'GDEREF\((\w+)\)->(\w+)', r'N_\2(\1)', 'node_member')],
)
PUSH = dict(COMMON, sig=r'void ' + Q + r'push\(T value\)', may_throw=['XV_NEW_NODE'],
            must_fire={'A_LOAD': 1, 'A_CASW': 2, 'A_CAS': 1, 'method:acquire': 1, 'subst:new_node': 1, 'subst:marked_ptr_ctor': 2, 'method:get': 3})
POPN = dict(COMMON, sig=r'auto ' + Q + r'pop_node\(\) -> guard_ptr',
            must_fire={'A_LOAD': 2, 'A_CASW': 2, 'method:acquire': 1, 'method:reclaim': 1, 'call:acquire_guard': 1, 'subst:marked_ptr_ctor': 1, 'method:get': 6})
UNIT = dict(
  title='michael_scott_queue: ctor, push, pop_node, try_pop, pop, destructor (C04, C07)',
  properties=['C04', 'C07'],
  drops='templates (T = opaque word with a ghost life-cycle state per storage cell; marked_ptr<node,0>/guard_ptr = words, get() is the identity); '
        'backoff dropped; new/delete of nodes = pool allocation running the lowered real node(T&&) constructor; '
        'placement-new / ~T / move of T are contract stubs on the ghost life cycle; nodes are kept as one small array per member',
  assumptions=['guard_ptr contract (acquire / acquire_guard return a protected snapshot, reclaim retires once) - proved per reclaimer in other units',
               'T: nothrow move constructible (static_assert in the header); move leaves the source constructed (still to be destroyed)',
               'linearizability of the concurrent composition is the assumed lemma (DESIGN.md C04)'],
  consts=[],
  sources=[
    dict(file=F, id='node_ctor', sig=r'explicit node\(T&& v\)', c_sig='static void msq_node_ctor(marked_ptr self, T v)',
         pre_subst=[(r'new \(&_data\) T\(std::move\(v\)\);', 'XV_PLACEMENT_NEW_T(XV_DATA(self), v);', 'placement_new')],
         must_fire={'subst:placement_new': 1}),
    dict(COMMON, id='ctor', sig=Q + r'michael_scott_queue\(\)', c_sig='static void msq_ctor(struct msq* self)',
         must_fire={'subst:new_node': 1, 'A_STORE': 2}),
    dict(COMMON, id='dtor', sig=Q + r'~michael_scott_queue\(\)', c_sig='static void msq_dtor(struct msq* self)',
         must_fire={'subst:delete_node': 1, 'subst:dtor_T': 1, 'A_LOAD': 2}),
    dict(PUSH, id='push', c_sig='static void msq_push(struct msq* self, T value)'),
    dict(PUSH, id='push_cut', c_sig='static void msq_push_cut(struct msq* self, T value)', cut_loops={0: 'PUSH'},
         must_fire=dict(PUSH['must_fire'], cut_loop=1)),
    dict(POPN, id='pop_node', c_sig='static guard_ptr msq_pop_node(struct msq* self)'),
    dict(POPN, id='pop_node_cut', c_sig='static guard_ptr msq_pop_node_cut(struct msq* self)', cut_loops={0: 'POP'},
         must_fire=dict(POPN['must_fire'], cut_loop=1)),
    dict(COMMON, id='try_pop', sig=r'bool ' + Q + r'try_pop\(T& result\)', c_sig='static _Bool msq_try_pop(struct msq* self, T* result_p)',
         self_calls={'pop_node': 'XV_POP_NODE'}, subst=COMMON['subst'] + [(r'\bresult\b', '(*result_p)', 'result_ref')],
         must_fire={'self_call:pop_node': 1, 'subst:data_ref': 1, 'subst:move_T': 1, 'subst:dtor_T': 1, 'reference': 1}),
    dict(COMMON, id='pop', sig=r'std::optional<T> ' + Q + r'pop\(\)', c_sig='static optval msq_pop(struct msq* self)', dflt='XV_NULLOPT',
         self_calls={'pop_node': 'XV_POP_NODE'},
         must_fire={'self_call:pop_node': 1, 'subst:data_ref': 1, 'subst:move_T': 1, 'subst:dtor_T': 1, 'reference': 1, 'subst:nullopt': 1}),
  ],
  runs=[
    dict(id='ctor', entry='h_ctor', cls='unbounded'),
    dict(id='push', entry='h_push', cls='shape-complete', unwindset=['msq_push.0:4', 'msq_push.1:4'], note='list of 1..3 nodes, tail at the last node or one behind'),
    dict(id='pop_node', entry='h_pop_node', cls='shape-complete', unwindset=['msq_pop_node.0:4', 'msq_pop_node.1:4']),
    dict(id='try_pop', entry='h_try_pop', cls='shape-complete', note='on the contract of pop_node'),
    dict(id='pop', entry='h_pop', cls='shape-complete', note='on the contract of pop_node'),
    dict(id='try_pop_e2e', entry='h_try_pop', cls='shape-complete', defs={'XV_REAL_POP_NODE': 1}, unwindset=['msq_pop_node.0:4', 'msq_pop_node.1:4'],
         note='real pop_node + try_pop together'),
    dict(id='pop_e2e', entry='h_pop', cls='shape-complete', defs={'XV_REAL_POP_NODE': 1}, unwindset=['msq_pop_node.0:4', 'msq_pop_node.1:4']),
    dict(id='dtor', entry='h_dtor', cls='shape-complete', unwindset=['msq_dtor.0:5'], note='list of 1..3 nodes plus unlisted (retired) nodes'),
    dict(id='push_int', entry='h_push_int', mode='INT', cls='shape-complete', note='one arbitrary iteration + the code behind the loop, under interference'),
    dict(id='pop_node_int', entry='h_pop_node_int', mode='INT', cls='shape-complete'),
  ],
  obligations={
    'msq.ctor.empty': dict(deciding=True, text='constructor: one dummy node without a T, head = tail = it, next null'),
    'msq.push.appends': dict(deciding=True, text='push assigns only old_last->next and the tail: the new node holds the argument, its next is null, it is linked behind the last node and the tail points to it (a lagging tail is helped first)'),
    'msq.push.frame': dict(deciding=True, text='push leaves the head, every other node and every other T untouched; nothing deleted or destroyed'),
    'msq.push.owns': dict(deciding=True, text='C07: exactly one T is constructed (in the new node) from the argument'),
    'msq.sync.acquire': dict(deciding=True, text='sync precondition [INT runs]: the guard acquisitions of _tail / _head, the acquisition of the head\'s successor and push\'s load of the tail node\'s successor are acquire-or-stronger (they are how a node linked by another thread\'s release CAS is reached); the release side is part of msq.push.commit / msq.pop.commit'),
    'msq.push.commit': dict(deciding=True, text='[INT] link CAS: on next of the guard-protected tail node, expected null, desired the own node (holding the argument, next null); help CAS: expected the protected node, desired its next read after the guard (one step); final swing: expected the node linked behind, desired the own node; exactly one successful link'),
    'msq.pop.takes_first': dict(deciding=True, text='empty <=> head->next is null (nothing changes); otherwise the value of head->next is returned, the head advances by one and the old dummy is retired exactly once'),
    'msq.pop.helps_tail': dict(deciding=True, text='a tail still pointing to the dummy is helped forward by exactly one before the head moves; otherwise the tail is untouched'),
    'msq.pop.frame': dict(deciding=True, text='pop changes nothing else: other nodes, next pointers, other values; nothing allocated or deleted'),
    'msq.pop.owns': dict(deciding=True, text='C07: a successful pop moves the value out and destroys the node\'s T exactly once; a failed pop touches no T'),
    'msq.pop.commit': dict(deciding=True, text='[INT] head CAS: expected the guard-protected head, desired its next acquired after it, head re-validated in between, tail read afterwards differs from the head; reclaim once, only after the CAS succeeded; the guard returned is that next; tail help CAS moves the tail from the head node to its next'),
    'msq.dtor.owns': dict(deciding=True, text='C07: the destructor destroys the T of every listed node except the dummy exactly once, deletes every listed node once (never one that still holds a T), touches no other node'),
    'msq.T.lifecycle': dict(deciding=True, text='C07: placement-new only into raw storage, ~T and move only on a constructed T: no T destroyed twice or constructed over a live one'),
    'msq.node.live_deref': dict(deciding=True, text='every node dereferenced is allocated and not deleted'),
  },
  replays={'msq.push.appends': dict(src='replay_msq.cpp', fixed={'in_op': 1}), 'msq.push.frame': dict(src='replay_msq.cpp', fixed={'in_op': 1}),
           'msq.pop.takes_first': dict(src='replay_msq.cpp', fixed={'in_op': 2}), 'msq.pop.helps_tail': dict(src='replay_msq.cpp', fixed={'in_op': 3}),
           'msq.pop.owns': dict(src='replay_msq.cpp', fixed={'in_op': 2}), 'msq.pop.frame': dict(src='replay_msq.cpp', fixed={'in_op': 3}),
           'msq.dtor.owns': dict(src='replay_msq.cpp', fixed={'in_op': 4}), 'msq.T.lifecycle': dict(src='replay_msq.cpp', fixed={'in_op': 4})},
  loop_obligation={'PUSH': 'msq.push.commit', 'POP': 'msq.pop.commit'},
  canaries=['ctor.reached', 'dtor.len3', 'dtor.only_dummy', 'dtor.unlisted_node', 'pop.empty', 'pop.value', 'pop_node.empty', 'pop_node.helped_tail', 'pop_node.plain', 'pop_node_int.empty', 'pop_node_int.value', 'push.helped_tail', 'push.len3', 'push.plain', 'push_int.linked'],
)
