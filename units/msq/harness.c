/* unit msq - michael_scott_queue (C04, C07).  Contracts, stubs, ghost state and harnesses only;
 * every function body under contract comes from lowered.h (extracted from /repo on each run). */
#include <stdint.h>
#include <stddef.h>
static void mon_load(void* addr, uint64_t v, int o);
static void mon_cas(void* addr, uint64_t e, uint64_t d, _Bool ok, int o);
#define XV_ON_LOAD(addr, val, order) mon_load((void*)(addr), (uint64_t)(val), (order))
#define XV_ON_CAS(addr, e, d, ok, order) mon_cas((void*)(addr), (uint64_t)(e), (uint64_t)(d), (ok), (order))
#include "xv.h"
int xv_threw; uint64_t xv_clock, xv_rmw_old; _Bool xv_cas_ok;
#define XV_EXC_bad_alloc 2
#define XV_BACKOFF() ((void)0)

/* ---- types: opaque words (only copied and compared by the code: data independence) ---- */
typedef uint16_t word_t;
#define nondet_word() ((word_t)nondet_uptr())
typedef word_t marked_ptr, marked_ptr_t, guard_ptr, T;
typedef struct { _Bool has; T v; } optval;
#define XV_NULLOPT ((optval){0, 0})
#define MP_get(p) (p)                    /* marked_ptr<node, 0>::get() / guard_ptr::get(): no mark bits */
struct msq { marked_ptr _head, _tail; };
/* nodes: one small array per member; a node pointer is the word NPTR(i) */
#define NN 4
marked_ptr a_next[NN]; T a_data[NN];
unsigned char a_dstate[NN];              /* ghost life cycle of the _data storage: 0 raw storage, 1 holds a T, 2 T destroyed */
_Bool a_live[NN]; unsigned a_retired[NN], a_deleted[NN];
#define NPTR(i) ((word_t)(((i) + 1) << 6))
#define RAW 0
#define ALIVE 1
#define DEAD 2

/* ---- harness inputs ---- */
unsigned in_len, in_lag; word_t in_val;      /* in_lag: 0/1 (unsigned so that the trace prints a number) */

/* ---- ghost ---- */
unsigned g_alloc_count, g_delete_count, g_fresh, g_ctor_T, g_dtor_T, g_moves; _Bool g_alloc_may_fail; int mon_check;       /* mon_check: 0 off, 1 push, 2 pop_node */
word_t g_last_alloc;
struct msq* mon_q;
/* per-iteration event records of the INT runs */
word_t it_guard, it_next_val, it_link_desired, it_tail_seen, it_head_seen; _Bool it_acquired, it_next_acquired, it_link_tried, it_link_ok, it_head_validated, it_tail_read; unsigned it_raw_guards;
unsigned it_tail_cas, it_head_cas, it_reclaims; _Bool it_head_cas_ok; word_t it_reclaimed, g_n, g_value;
#define IT_RESET it_acquired = 0; it_next_acquired = 0; it_link_tried = 0; it_link_ok = 0; it_head_validated = 0; it_tail_read = 0; \
  it_tail_cas = 0; it_head_cas = 0; it_reclaims = 0; it_head_cas_ok = 0

/* ---- guard_ptr contract stubs ---- */
/* sync preconditions (memory orders are data in the model): the loads through which a node published by another thread is reached are acquire-or-stronger */
_Bool sync_weak_acquire;      /* sticky: a guard acquisition of _head/_tail, the successor acquisition, or the successor load of push used an order weaker than acquire */
#define G_acquire(g, cell, order) ((g) = A_LOAD(cell, order), it_guard = (g), it_acquired = 1, it_next_acquired = 0, it_head_validated = 0, it_tail_read = 0, \
                                   sync_weak_acquire = sync_weak_acquire || !XV_IS_ACQUIRE(order))
#define G_acquire_guard(cell, order) (it_next_val = A_LOAD(cell, order), it_next_acquired = (it_acquired && (void*)&(cell) == (void*)&a_next[nidx(it_guard) % NN]), \
                                      sync_weak_acquire = sync_weak_acquire || !XV_IS_ACQUIRE(order), it_next_val)
#define G_reclaim(g) (g_reclaim(g), (g) = 0)
/* guard_ptr(p) from a raw marked_ptr: the object must already be safe from reclamation (null, or still protected by another guard of this thread) */
#define G_from_raw(p) (it_raw_guards++, (guard_ptr)(p))

/* ---- prototypes of what the lowered text calls (definitions follow the include) ---- */
static _Bool is_nptr(word_t w);
static unsigned nidx(word_t w);
static unsigned node_idx(word_t w);
static void g_reclaim(word_t g);
static marked_ptr XV_NEW_NODE(T v);
static marked_ptr XV_NEW_DUMMY(void);
static void XV_DELETE_NODE(marked_ptr w);
static void pnew_T(T* cell, T v);
static void dtor_T(T* cell);
static T move_T(T* src);
static guard_ptr stub_pop_node(struct msq* self);
static void havoc_shared(_Bool rely);
#define N__next(g) (a_next[node_idx(g)])
#define XV_DATA(g) (a_data[node_idx(g)])
#define XV_PLACEMENT_NEW_T(cell, v) pnew_T(&(cell), (v))
#define XV_DTOR_T(cell) dtor_T(&(cell))
#define XV_MOVE_ASSIGN(dst, src) ((dst) = move_T(&(src)))
#define XV_MOVE_OPT(src) ((optval){1, move_T(&(src))})
#ifdef XV_REAL_POP_NODE
#define XV_POP_NODE(self) msq_pop_node(self)
#else
#define XV_POP_NODE(self) stub_pop_node(self)
#endif
#ifdef XV_INT
void xv_env(void);
#endif
/* loop cuts (INT): nothing is carried from one iteration to the next except that this thread's node has not been linked yet (push) */
#define XV_INV_PUSH (!it_link_ok && (t == 0 || (is_nptr(t) && a_live[nidx(t) % NN])))
#define XV_HAVOC_PUSH t = nondet_word(); IT_RESET; havoc_shared(0) \
  /* writes: next null expected (declared inside); shared cells via GDEREF(t)->_next (lowered to N__next) and self->_tail */
#define XV_INV_POP (it_reclaims == 0 && (h == 0 || (is_nptr(h) && a_live[nidx(h) % NN])))
#define XV_HAVOC_POP h = nondet_word(); IT_RESET; havoc_shared(0) \
  /* writes: next t expected (declared inside); shared cells self->_tail self->_head */
static guard_ptr msq_pop_node(struct msq* self);
#include "lowered.h"

/* ---- node pointers ---- */
static _Bool is_nptr(word_t w) { return w != 0 && (w & 63) == 0 && (w >> 6) <= NN; }
static unsigned nidx(word_t w) { return (unsigned)(w >> 6) - 1; }
static unsigned node_idx(word_t w) {
  _Bool ok = is_nptr(w) && a_live[nidx(w) % NN];
  XV_OBL("msq.node.live_deref", ok);        /* every node that is dereferenced is allocated and has not been deleted */
  XV_ASSUME(ok);
  return nidx(w);
}
static void g_reclaim(word_t g) { a_retired[node_idx(g)]++; it_reclaims++; it_reclaimed = g; }
/* ---- life cycle of T objects living in node storage ---- */
static unsigned cell_idx(T* cell) { for (unsigned i = 0; i < NN; i++) if (cell == &a_data[i]) return i; return NN; }
static void pnew_T(T* cell, T v) {
  unsigned i = cell_idx(cell);
  XV_OBL("msq.T.lifecycle", i < NN && a_dstate[i % NN] == RAW);      /* placement-new only into raw storage */
  XV_ASSUME(i < NN);
  a_data[i] = v; a_dstate[i] = ALIVE; g_ctor_T++;
}
static void dtor_T(T* cell) {
  unsigned i = cell_idx(cell);
  XV_OBL("msq.T.lifecycle", i < NN && a_dstate[i % NN] == ALIVE);    /* ~T only on a constructed object, i.e. at most once */
  XV_ASSUME(i < NN);
  a_dstate[i] = DEAD; g_dtor_T++;
}
static T move_T(T* src) {
  unsigned i = cell_idx(src);
  XV_OBL("msq.T.lifecycle", i < NN && a_dstate[i % NN] == ALIVE);    /* moved out of a constructed object */
  g_moves++;
  T v = *src; *src = 0;                      /* the source stays constructed but no longer holds the payload */
  return v;
}
/* ---- new / delete of nodes ---- */
static marked_ptr alloc_node(void) {
  XV_MODEL_ASSERT("pool large enough", g_fresh < NN && !a_live[g_fresh % NN]);
  XV_ASSUME(g_fresh < NN);
  unsigned i = g_fresh++;
  a_next[i] = 0;                              /* concurrent_ptr's default constructor */
  a_data[i] = nondet_word(); a_dstate[i] = RAW; a_live[i] = 1; a_retired[i] = 0; a_deleted[i] = 0;
  g_alloc_count++; g_last_alloc = NPTR(i);
  return NPTR(i);
}
static marked_ptr XV_NEW_NODE(T v) {
  if (g_alloc_may_fail && nondet_bool()) { xv_threw = XV_EXC_bad_alloc; return 0; }
  marked_ptr p = alloc_node();
  msq_node_ctor(p, v);                        /* the real node(T&&) */
  return p;
}
static marked_ptr XV_NEW_DUMMY(void) { return alloc_node(); }      /* node() = default: _data stays raw storage */
static void XV_DELETE_NODE(marked_ptr w) {
  unsigned i = node_idx(w);
  XV_OBL("msq.dtor.owns", a_dstate[i] != ALIVE);      /* a node is deleted only after its T has been destroyed (node has no destructor for _data): no leak */
  a_live[i] = 0; a_deleted[i]++; g_delete_count++;
}

/* ---- monitors (INT runs) ---- */
#ifdef XV_INT
#define IT_GI (nidx(it_guard) % NN)
static void mon_load(void* addr, uint64_t v, int o) {
  if (!mon_check || !it_acquired) return;
  if (addr == (void*)&a_next[IT_GI]) { it_next_val = (word_t)v; if (mon_check == 1 && !XV_IS_ACQUIRE(o)) sync_weak_acquire = 1; }      /* push: next of the protected tail node */
  if (addr == (void*)&mon_q->_head && it_next_acquired) { it_head_seen = (word_t)v; it_head_validated = ((word_t)v == it_guard); }
  if (addr == (void*)&mon_q->_tail && it_next_acquired) { it_tail_seen = (word_t)v; it_tail_read = 1; }
}
static void mon_cas(void* addr, uint64_t e, uint64_t d, _Bool ok, int o) {
  if (!mon_check) return;
  if (addr == (void*)&mon_q->_head) {
    it_head_cas++; it_head_cas_ok = ok;
    /* unlink the dummy: expected = the protected head, desired = its successor acquired after it, head re-validated in between,
     * and the tail (read after that) does not point to the node being unlinked */
    XV_OBL("msq.pop.commit", it_acquired && e == it_guard && it_next_acquired && d == it_next_val && d != 0 && it_head_validated
           && it_tail_read && it_tail_seen != it_guard && XV_IS_RELEASE(o));
  } else if (addr == (void*)&mon_q->_tail) {
    it_tail_cas++;
    if (mon_check == 1) {
      /* push: help (expected = protected tail node, desired = its successor read after the guard) or the final swing to the node just linked */
      XV_OBL("msq.push.commit", it_acquired && e == it_guard && d != 0 && XV_IS_RELEASE(o)
             && (it_link_ok ? d == g_n : (!it_link_tried && d == it_next_val)));
    } else {
      /* pop_node: help the tail that still points to the head node forward by exactly one */
      XV_OBL("msq.pop.commit", it_acquired && it_next_acquired && it_head_validated && it_tail_read && e == it_tail_seen && e == it_guard
             && d == it_next_val && d != 0 && XV_IS_RELEASE(o));
    }
  } else {
    /* push: link the new node behind the protected tail node */
    XV_OBL("msq.push.commit", mon_check == 1 && it_acquired && addr == (void*)&a_next[IT_GI] && !it_link_tried && e == 0 && d == g_n && XV_IS_RELEASE(o)
           && a_next[nidx(g_n) % NN] == 0 && a_data[nidx(g_n) % NN] == g_value && a_dstate[nidx(g_n) % NN] == ALIVE);
    it_link_tried = 1; it_link_ok = ok; it_link_desired = (word_t)d;
  }
}
#else
static void mon_load(void* addr, uint64_t v, int o) { }
static void mon_cas(void* addr, uint64_t e, uint64_t d, _Bool ok, int o) { }
#endif

/* ---- state construction ---- */
struct node { marked_ptr next; T data; unsigned char dstate; _Bool live; unsigned retired, deleted; };
static struct node snap(unsigned i) { struct node n = { a_next[i], a_data[i], a_dstate[i], a_live[i], a_retired[i], a_deleted[i] }; return n; }
static _Bool same(struct node a, struct node b) {
  return a.next == b.next && a.data == b.data && a.dstate == b.dstate && a.live == b.live && a.retired == b.retired && a.deleted == b.deleted;
}
static void reset_ghost(void) {
  sync_weak_acquire = 0;
  g_alloc_count = 0; g_delete_count = 0; g_ctor_T = 0; g_dtor_T = 0; g_moves = 0; g_alloc_may_fail = 0; mon_check = 0; g_last_alloc = 0; xv_threw = 0;
  IT_RESET; it_guard = 0;
}
/* list 0 -> 1 -> ... -> len-1 (len <= 3), head = element 0 = the dummy (its T is raw storage or already destroyed),
 * every other listed node holds a T; the tail points to the last node or - a push between its two CASes - to the one before it.
 * Elements behind the list: `extra` live unlisted nodes (retired, not yet reclaimed), the rest free storage. */
static void setup_list(struct msq* q, unsigned len, _Bool lag, unsigned extra) {
  for (unsigned i = 0; i < NN; i++) {
    a_next[i] = nondet_word(); a_data[i] = nondet_word(); a_retired[i] = 0; a_deleted[i] = 0;
    if (i < len) { a_live[i] = 1; a_next[i] = (i + 1 < len) ? NPTR(i + 1) : 0; a_dstate[i] = i == 0 ? (nondet_bool() ? RAW : DEAD) : ALIVE; }
    else if (i < len + extra) { a_live[i] = 1; a_dstate[i] = nondet_bool() ? RAW : DEAD; a_retired[i] = 1; }
    else { a_live[i] = 0; a_dstate[i] = RAW; }
  }
  g_fresh = len + extra;
  q->_head = NPTR(0); q->_tail = (lag && len >= 2) ? NPTR(len - 2) : NPTR(len - 1);
  mon_q = q;
}

/* =========================== constructor =========================== */
void h_ctor(void) {
  reset_ghost();
  struct msq q; setup_list(&q, 0, 0, 0); q._head = nondet_word(); q._tail = nondet_word();
  msq_ctor(&q);
  struct node n = snap(0);
  XV_OBL("msq.ctor.empty", g_alloc_count == 1 && q._head == NPTR(0) && q._tail == NPTR(0) && n.live && n.next == 0 && n.dstate == RAW && g_ctor_T == 0);
  XV_CANARY("ctor.reached");
}

/* =========================== push (C04 + C07) =========================== */
void h_push(void) {
  reset_ghost();
  struct msq q;
  in_len = nondet_uint(); XV_ASSUME(in_len >= 1 && in_len <= 3); in_lag = nondet_bool() ? 1 : 0;
  setup_list(&q, in_len, in_lag, 0);
  struct node pre[NN]; for (unsigned i = 0; i < NN; i++) pre[i] = snap(i);
  in_val = nondet_word();
  msq_push(&q, in_val);
  struct node post[NN]; for (unsigned i = 0; i < NN; i++) post[i] = snap(i);
  unsigned m = in_len;                      /* index of the fresh node */
  XV_OBL("msq.push.appends", xv_threw == 0 && g_alloc_count == 1 && g_last_alloc == NPTR(m));
  /* the new node holds the argument, next null; it is linked behind the old last node; the tail points to it */
  for (unsigned i = 0; i < NN; i++) {
    if (i == m) XV_OBL("msq.push.appends", post[i].live && post[i].next == 0 && post[i].data == in_val && post[i].dstate == ALIVE && post[i].retired == 0 && post[i].deleted == 0);
    else if (i + 1 == m) { struct node e = pre[i]; e.next = NPTR(m); XV_OBL("msq.push.appends", same(post[i], e)); }   /* assigns only old_last->next ... */
    else XV_OBL("msq.push.frame", same(post[i], pre[i]));
  }
  XV_OBL("msq.push.appends", q._tail == NPTR(m));                                 /* ... and the tail */
  XV_OBL("msq.push.frame", q._head == NPTR(0) && g_delete_count == 0 && g_dtor_T == 0 && g_moves == 0);
  XV_OBL("msq.push.owns", g_ctor_T == 1);                                          /* C07: exactly one T constructed from the argument, none destroyed */
  if (in_lag && in_len >= 2) XV_CANARY("push.helped_tail"); else XV_CANARY("push.plain");
  if (in_len == 3) XV_CANARY("push.len3");
}

/* =========================== pop_node =========================== */
void h_pop_node(void) {
  reset_ghost();
  struct msq q;
  in_len = nondet_uint(); XV_ASSUME(in_len >= 1 && in_len <= 3); in_lag = nondet_bool() ? 1 : 0;
  setup_list(&q, in_len, in_lag, 0);
  struct node pre[NN]; for (unsigned i = 0; i < NN; i++) pre[i] = snap(i);
  word_t tail0 = q._tail;
  guard_ptr r = msq_pop_node(&q);
  struct node post[NN]; for (unsigned i = 0; i < NN; i++) post[i] = snap(i);
  if (in_len == 1) {
    /* empty <=> head->next == null: nothing changes */
    XV_OBL("msq.pop.takes_first", r == 0 && q._head == NPTR(0) && q._tail == tail0);
    for (unsigned i = 0; i < NN; i++) XV_OBL("msq.pop.frame", same(post[i], pre[i]));
    XV_CANARY("pop_node.empty");
  } else {
    /* returns head->next (it becomes the new dummy), head advanced by one, old dummy retired exactly once */
    XV_OBL("msq.pop.takes_first", r == NPTR(1) && q._head == NPTR(1));
    struct node e = pre[0]; e.retired = 1;
    XV_OBL("msq.pop.takes_first", same(post[0], e));
    for (unsigned i = 1; i < NN; i++) XV_OBL("msq.pop.frame", same(post[i], pre[i]));
    /* a tail that still pointed to the old dummy was first helped forward by exactly one; otherwise it is untouched */
    XV_OBL("msq.pop.helps_tail", q._tail == (tail0 == NPTR(0) ? NPTR(1) : tail0));
    if (tail0 == NPTR(0)) XV_CANARY("pop_node.helped_tail"); else XV_CANARY("pop_node.plain");
  }
  XV_OBL("msq.pop.frame", g_alloc_count == 0 && g_delete_count == 0 && g_dtor_T == 0 && g_ctor_T == 0 && g_moves == 0);
}

/* =========================== try_pop / pop on top of pop_node's contract (or the real pop_node with -DXV_REAL_POP_NODE) =========================== */
word_t stub_ret; unsigned stub_calls;
static guard_ptr stub_pop_node(struct msq* self) { stub_calls++; return stub_ret; }
static void setup_pop(struct msq* q) {
  in_len = nondet_uint(); XV_ASSUME(in_len >= 1 && in_len <= 3); in_lag = nondet_bool() ? 1 : 0;
  setup_list(q, in_len, in_lag, 0);
#ifndef XV_REAL_POP_NODE
  /* contract of pop_node: null, or the node that has just become the dummy, still holding its T.  (The list shape does not matter here:
   * model the state after pop_node by a live node 1 that holds a T.) */
  stub_ret = (in_len >= 2 && nondet_bool()) ? NPTR(1) : 0; stub_calls = 0;
#endif
}
static void check_pop(struct msq* q, struct node* pre, _Bool has, T got, T untouched) {
  struct node post[NN]; for (unsigned i = 0; i < NN; i++) post[i] = snap(i);
#ifdef XV_REAL_POP_NODE
  _Bool expect = in_len >= 2;
#else
  _Bool expect = stub_ret != 0;
  XV_OBL("msq.pop.takes_first", stub_calls == 1);
#endif
  XV_OBL("msq.pop.takes_first", has == expect);
  if (expect) {
    /* the value of head->next is handed out: moved out of the node, the node's T destroyed exactly once, no other T touched */
    XV_OBL("msq.pop.takes_first", got == pre[1].data);
    XV_OBL("msq.pop.owns", post[1].dstate == DEAD && g_dtor_T == 1 && g_moves == 1 && g_ctor_T == 0);
    for (unsigned i = 0; i < NN; i++) if (i != 1) XV_OBL("msq.pop.frame", post[i].data == pre[i].data && post[i].dstate == pre[i].dstate);
    XV_CANARY("pop.value");
  } else {
    XV_OBL("msq.pop.takes_first", got == untouched);
    XV_OBL("msq.pop.owns", g_dtor_T == 0 && g_moves == 0 && g_ctor_T == 0);
    for (unsigned i = 0; i < NN; i++) XV_OBL("msq.pop.frame", post[i].data == pre[i].data && post[i].dstate == pre[i].dstate);
    XV_CANARY("pop.empty");
  }
  XV_OBL("msq.pop.frame", g_alloc_count == 0 && g_delete_count == 0);
}
void h_try_pop(void) {
  reset_ghost();
  struct msq q; setup_pop(&q);
  struct node pre[NN]; for (unsigned i = 0; i < NN; i++) pre[i] = snap(i);
  T result = nondet_word(), result0 = result;
  _Bool r = msq_try_pop(&q, &result);
  check_pop(&q, pre, r, result, result0);
}
void h_pop(void) {
  reset_ghost();
  struct msq q; setup_pop(&q);
  struct node pre[NN]; for (unsigned i = 0; i < NN; i++) pre[i] = snap(i);
  optval r = msq_pop(&q);
  check_pop(&q, pre, r.has, r.has ? r.v : 0, 0);
}

/* =========================== destructor (C07) =========================== */
unsigned in_extra;
void h_dtor(void) {
  reset_ghost();
  struct msq q;
  in_len = nondet_uint(); XV_ASSUME(in_len >= 1 && in_len <= 3); in_lag = nondet_bool() ? 1 : 0;
  in_extra = nondet_uint(); XV_ASSUME(in_extra <= NN - in_len);
  setup_list(&q, in_len, in_lag, in_extra);
  struct node pre[NN]; for (unsigned i = 0; i < NN; i++) pre[i] = snap(i);
  msq_dtor(&q);
  for (unsigned i = 0; i < NN; i++) {
    struct node n = snap(i);
    if (i == 0) XV_OBL("msq.dtor.owns", n.deleted == 1 && n.dstate == pre[0].dstate);          /* the dummy: deleted, its already-consumed T not destroyed again */
    else if (i < in_len) XV_OBL("msq.dtor.owns", n.deleted == 1 && n.dstate == DEAD);           /* every value still in the list destroyed exactly once */
    else XV_OBL("msq.dtor.owns", same(n, pre[i]));                                              /* nodes outside the list are not touched */
  }
  XV_OBL("msq.dtor.owns", g_dtor_T == in_len - 1 && g_delete_count == in_len && g_ctor_T == 0 && g_moves == 0);
  if (in_len == 3) XV_CANARY("dtor.len3");
  if (in_len == 1) XV_CANARY("dtor.only_dummy");
  if (in_extra > 0) XV_CANARY("dtor.unlisted_node");
}

/* =========================== INT: one iteration under interference =========================== */
/* rely = 0: an arbitrary well-typed state.  rely = 1: a step of the other threads: a next pointer is written once (null -> node),
 * head and tail may point to any live node.  This thread's not yet linked node is never touched. */
static void havoc_shared(_Bool rely) {
  for (unsigned i = 0; i < NN; i++) {
    if (!a_live[i]) continue;
    if (g_n != 0 && !it_link_ok && NPTR(i) == g_n) continue;
    word_t nx = nondet_word(); XV_ASSUME(nx == 0 || (is_nptr(nx) && a_live[nidx(nx) % NN] && nidx(nx) != i && !(g_n != 0 && !it_link_ok && nx == g_n)));
    if (!(rely && a_next[i] != 0)) a_next[i] = nx;
  }
  word_t hd = nondet_word(), tl = nondet_word();
  XV_ASSUME(is_nptr(hd) && a_live[nidx(hd) % NN] && is_nptr(tl) && a_live[nidx(tl) % NN]);
  XV_ASSUME(!(g_n != 0 && !it_link_ok && (hd == g_n || tl == g_n)));
  mon_q->_head = hd; mon_q->_tail = tl;
}
#ifdef XV_INT
_Bool env_on;
void xv_env(void) { if (env_on && nondet_bool()) havoc_shared(1); }
#endif
void h_push_int(void) {
#ifdef XV_INT
  reset_ghost();
  struct msq q; setup_list(&q, 3, 0, 0); g_n = 0; havoc_shared(0);
  g_value = nondet_word();
  mon_check = 1; env_on = 1; g_n = NPTR(3);      /* the node push allocates first */
  msq_push_cut(&q, g_value);
  env_on = 0;
  XV_OBL("msq.push.commit", xv_threw == 0 && g_last_alloc == NPTR(3) && it_link_tried && it_link_ok && it_tail_cas == 1);
  XV_OBL("msq.sync.acquire", !sync_weak_acquire);
  XV_OBL("msq.push.owns", g_ctor_T == 1 && g_dtor_T == 0 && g_delete_count == 0);
  XV_CANARY("push_int.linked");
#endif
}
void h_pop_node_int(void) {
#ifdef XV_INT
  reset_ghost();
  struct msq q; setup_list(&q, 3, 0, 1); g_n = 0; havoc_shared(0);
  mon_check = 2; env_on = 1;
  guard_ptr r = msq_pop_node_cut(&q);
  env_on = 0;
  if (r != 0) {
    XV_OBL("msq.pop.commit", it_head_cas == 1 && it_head_cas_ok && r == it_next_val && it_reclaims == 1 && it_reclaimed == it_guard && it_tail_cas == 0);
    XV_CANARY("pop_node_int.value");
  } else {
    /* 'empty' is reported on a successor read (null) after the head was protected and re-validated */
    XV_OBL("msq.pop.commit", it_head_cas == 0 && it_reclaims == 0 && it_next_acquired && it_next_val == 0 && it_head_validated && it_tail_cas == 0);
    XV_CANARY("pop_node_int.empty");
  }
  XV_OBL("msq.pop.frame", g_alloc_count == 0 && g_delete_count == 0 && g_dtor_T == 0 && g_moves == 0);
  XV_OBL("msq.sync.acquire", !sync_weak_acquire);
#endif
}
