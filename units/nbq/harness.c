/* unit nbq - nikolaev_bounded_queue (C05 composition of two rings, C07 ownership).  Function bodies: lowered.h.
 * The two rings are the contract stub of unit scq (../scq/ring_stub.h). */
#include "xv.h"
int xv_threw; uint64_t xv_clock, xv_rmw_old; _Bool xv_cas_ok;
#ifndef CAP
#define CAP 2
#endif
#define RING_REQ_OBL "nbq.scq.requires"
size_t xv_expected_rs; unsigned short xv_ev;
#include "../scq/ring_stub.h"

/* element model: a payload word + ghost life-cycle flags.  A storage cell is raw memory until placement-new (alive=0). */
typedef struct { uint64_t v; _Bool alive; _Bool moved; } T;
unsigned g_destroyed[CAP], g_constructed[CAP], g_movedout[CAP];   /* ghost counters per storage cell */
unsigned short g_t_construct, g_t_destroy, g_t_moveout;                   /* event times of the last placement-new / ~T / move-out of a cell */
unsigned g_ext_moved;                                             /* moves out of an object that is not a storage cell (the caller's value) */
struct nbq { size_t _capacity; size_t _remap_shift; T _storage[CAP]; struct ring _allocated_queue; struct ring _free_queue;
             size_t xv_storage_words; size_t xv_ring_cap[2], xv_ring_rs[2]; int xv_ring_tag[2]; };
struct nbq* g_self;
static unsigned cell_index(T* c) { return (unsigned)(c - g_self->_storage); }
static _Bool is_cell(T* c) { return __CPROVER_same_object(c, g_self) && c >= g_self->_storage && c < g_self->_storage + CAP; }
/* placement new T(std::move(src)) into raw storage */
static void t_construct_move(T* cell, T* src) {
  XV_OBL("nbq.own.exactly_once", is_cell(cell) && !cell->alive);          /* never construct over a live element */
  XV_OBL("nbq.own.exactly_once", src->alive && !src->moved);
  cell->v = src->v; cell->alive = 1; cell->moved = 0; src->moved = 1;
  if (!is_cell(src)) g_ext_moved++;
  g_constructed[cell_index(cell)]++; g_t_construct = ++xv_ev;
}
/* x.~T() */
static void t_destroy(T* cell) {
  XV_OBL("nbq.own.exactly_once", is_cell(cell) && cell->alive);           /* never destroy raw or already destroyed storage */
  cell->alive = 0; g_destroyed[cell_index(cell)]++; g_t_destroy = ++xv_ev;
}
/* dst = std::move(src) */
static void t_move_assign(T* dst, T* src) {
  XV_OBL("nbq.own.exactly_once", src->alive && !src->moved);              /* an element is moved out at most once */
  XV_OBL("nbq.own.exactly_once", dst->alive);
  dst->v = src->v; dst->moved = 0; src->moved = 1;
  if (is_cell(src)) { g_movedout[cell_index(src)]++; g_t_moveout = ++xv_ev; } else g_ext_moved++;
}
#define XV_CONSTRUCT_MOVE(cell, src) t_construct_move(&(cell), &(src))
#define XV_DESTROY(cell) t_destroy(&(cell))
#define XV_MOVE_ASSIGN(dst, src) t_move_assign(&(dst), &(src))
#define RING_dequeue(r, out, cap, rs) ring_dequeue(&(r), &(out), (cap), (rs))
#define RING_enqueue_ff(r, v, cap, rs) ring_enqueue(&(r), (v), (cap), (rs), 0)
/* constructor: the ring members are constructed with (capacity, remap_shift, tag); only the arguments are recorded here
 * (the initial content per tag is scq.init.inv) */
#define XV_INIT__capacity(self, v) ((self)->_capacity = (v))
#define XV_INIT__remap_shift(self, v) ((self)->_remap_shift = (v))
#define XV_INIT__storage(self, n) ((self)->xv_storage_words = (n))
#define XV_INIT__allocated_queue(self, cap, rs, tag) ((self)->xv_ring_cap[0] = (cap), (self)->xv_ring_rs[0] = (rs), (self)->xv_ring_tag[0] = (tag))
#define XV_INIT__free_queue(self, cap, rs, tag) ((self)->xv_ring_cap[1] = (cap), (self)->xv_ring_rs[1] = (rs), (self)->xv_ring_tag[1] = (tag))
/* closures of try_pop: the success lambda captures `result` by reference, the empty lambda captures nothing */
#define XV_CLOSURE_0(cap) (cap)
#define XV_CLOSURE_1() 0
#define XV_CALL_SUCCESS(d) nbq_try_pop_success(successFunc, &(d))
#define XV_CALL_EMPTY() nbq_try_pop_empty()
/* ---- pop(): std::optional<value_type> = {present, value}; std::optional<T>(std::move(v)) move-constructs the value from v ---- */
struct xv_opt { _Bool present; T val; };
#define XV_NULLOPT ((struct xv_opt){0})
unsigned g_opt_moves;
static struct xv_opt xv_opt_from_moved(T* s) {
  XV_OBL("nbq.own.exactly_once", s->alive && !s->moved);                    /* an element is moved out at most once */
  struct xv_opt o; o.present = 1; o.val = (T){ .v = s->v, .alive = 1, .moved = 0, }; s->moved = 1; g_opt_moves++; return o;
}
#define XV_OPT_FROM_MOVED(x) xv_opt_from_moved(&(x))
#include "lowered.h"

/* ---------------------------------------------------------------- constructor: every requested capacity 1 .. 2^32 */
void h_ctor(void) {
  struct nbq q; g_self = &q;
  q._capacity = nondet_size(); q._remap_shift = nondet_size(); q.xv_storage_words = nondet_size();
  for (int i = 0; i < 2; i++) { q.xv_ring_cap[i] = nondet_size(); q.xv_ring_rs[i] = nondet_size(); q.xv_ring_tag[i] = nondet_int(); }
  size_t c = nondet_size(); XV_ASSUME(c >= 1 && c <= ((size_t)1 << 32));
  nbq_ctor(&q, c);
  size_t cap = nbq_capacity(&q);
  XV_OBL("nbq.ctor.capacity", cap != 0 && (cap & (cap - 1)) == 0 && cap >= c && cap - c < c);     /* smallest power of two >= c */
  unsigned lg = nondet_uint(); XV_ASSUME(lg <= 32 && cap == ((size_t)1 << lg));
  XV_OBL("nbq.ctor.capacity", q._remap_shift == (lg >= 3 ? lg - 2 : 0));                            /* = calc_remap_shift(capacity()) (scq.remap.shift) */
  XV_OBL("nbq.ctor.capacity", q.xv_storage_words == cap);
  XV_OBL("nbq.ctor.rings", q.xv_ring_cap[0] == cap && q.xv_ring_rs[0] == q._remap_shift && q.xv_ring_tag[0] == XV_TAG_empty);  /* allocated: empty */
  XV_OBL("nbq.ctor.rings", q.xv_ring_cap[1] == cap && q.xv_ring_rs[1] == q._remap_shift && q.xv_ring_tag[1] == XV_TAG_full);   /* free: all indices */
  if (cap != c) XV_CANARY("ctor.rounded"); else XV_CANARY("ctor.exact");
  if (c == 1) XV_CANARY("ctor.min");
  if (lg == 32) XV_CANARY("ctor.max");
}

/* ---------------------------------------------------------------- Inv_Q: allocated ++ free is a permutation of [0,CAP);
 * cell i is alive iff i is in the allocated ring */
unsigned in_cap, in_op; uint64_t in_v; unsigned in_na; uint64_t in_perm[CAP]; uint64_t in_cellv[CAP];
static void havoc_queue(struct nbq* q) {
  in_cap = CAP; g_self = q; q->_capacity = CAP; q->_remap_shift = nondet_size(); xv_expected_rs = q->_remap_shift; q->xv_storage_words = CAP;
  in_na = nondet_uint(); XV_ASSUME(in_na <= CAP);
  for (unsigned i = 0; i < CAP; i++) { in_perm[i] = nondet_u64(); XV_ASSUME(in_perm[i] < CAP); in_cellv[i] = nondet_u64(); }
  for (unsigned i = 0; i < CAP; i++) for (unsigned j = 0; j < i; j++) XV_ASSUME(in_perm[i] != in_perm[j]);
  havoc_ring_abs(&q->_allocated_queue); havoc_ring_abs(&q->_free_queue);
  q->_allocated_queue.a.fin = 0; q->_free_queue.a.fin = 0;            /* nothing in this class finalizes a ring */
  q->_allocated_queue.a.cnt = in_na; q->_free_queue.a.cnt = CAP - in_na;
  for (unsigned i = 0; i < CAP; i++) {
    if (i < in_na) q->_allocated_queue.a.vals[i] = in_perm[i]; else q->_free_queue.a.vals[i - in_na] = in_perm[i];
    q->_storage[i].v = in_cellv[i]; q->_storage[i].moved = nondet_bool(); q->_storage[i].alive = 0;
    g_destroyed[i] = 0; g_constructed[i] = 0; g_movedout[i] = 0;
  }
  g_ext_moved = 0; xv_ev = 0; g_t_construct = 0; g_t_destroy = 0; g_t_moveout = 0;
  for (unsigned i = 0; i < in_na; i++) { q->_storage[in_perm[i]].alive = 1; q->_storage[in_perm[i]].moved = 0; }
}
static _Bool inv_queue(struct nbq* q) {
  struct ring_abs* A = &q->_allocated_queue.a; struct ring_abs* F = &q->_free_queue.a;
  if (A->cnt + F->cnt != CAP || A->fin || F->fin) return 0;
  for (unsigned i = 0; i < CAP; i++) {                 /* every index occurs exactly once, and alive <=> allocated */
    unsigned na = 0, nf = 0;
    for (unsigned k = 0; k < CAP; k++) { if (k < A->cnt && A->vals[k] == i) na++; if (k < F->cnt && F->vals[k] == i) nf++; }
    if (na + nf != 1) return 0;
    if (q->_storage[i].alive != (na == 1)) return 0;
  }
  return q->_capacity == CAP && q->_remap_shift == xv_expected_rs;
}

void h_push(void) {
  struct nbq q; havoc_queue(&q); in_op = 0;
  T value; value.v = in_v = nondet_u64(); value.alive = 1; value.moved = 0;
  _Bool r = nbq_try_push(&q, value);
  struct ring_abs* A = &q._allocated_queue.a;
  XV_OBL("nbq.push.full_iff", r == (in_na < CAP));                     /* fails iff CAP elements are stored */
  XV_OBL("nbq.inv.preserved", inv_queue(&q));
  if (!r) {
    XV_OBL("nbq.push.full_iff", A->cnt == in_na && q._free_queue.a.cnt == 0);
    for (unsigned i = 0; i < CAP; i++) XV_OBL("nbq.push.full_iff", A->vals[i] == in_perm[i] && q._storage[i].v == in_cellv[i] && g_constructed[i] == 0 && g_destroyed[i] == 0);
    XV_OBL("nbq.push.rejected_untouched", g_ext_moved == 0);           /* the value is left with the caller: nothing was moved out of it */
    XV_CANARY("push.full");
  } else {
    unsigned e = (unsigned)in_perm[in_na];                              /* the oldest free index */
    XV_OBL("nbq.push.appends", A->cnt == in_na + 1 && A->vals[in_na] == e && q._storage[e].v == in_v && q._storage[e].alive && !q._storage[e].moved);
    for (unsigned i = 0; i < CAP; i++) {
      if (i < in_na) XV_OBL("nbq.push.appends", A->vals[i] == in_perm[i]);                      /* older elements keep their order */
      if (i > in_na) XV_OBL("nbq.push.appends", q._free_queue.a.vals[i - in_na - 1] == in_perm[i]);
      if (i != e) XV_OBL("nbq.push.appends", q._storage[i].v == in_cellv[i] && g_constructed[i] == 0);
      XV_OBL("nbq.own.exactly_once", g_constructed[i] == (i == e) && g_destroyed[i] == 0 && g_movedout[i] == 0);
    }
    XV_OBL("nbq.own.exactly_once", g_ext_moved == 1);
    /* the cell is reserved (free dequeue), then constructed, and only then published in the allocated ring */
    XV_OBL("nbq.push.publish_order", q._free_queue.t_deq < g_t_construct && g_t_construct < q._allocated_queue.t_enq && q._allocated_queue.n_enq == 1 && q._free_queue.n_deq == 1);
    XV_CANARY("push.stored"); if (in_na == CAP - 1) XV_CANARY("push.last_slot");
  }
}

void h_pop(void) {
  struct nbq q; havoc_queue(&q); in_op = 1;
  T result; result.v = nondet_u64(); result.alive = 1; result.moved = nondet_bool(); uint64_t r0 = result.v; _Bool m0 = result.moved;
  _Bool r = nbq_try_pop(&q, &result);
  struct ring_abs* A = &q._allocated_queue.a; struct ring_abs* F = &q._free_queue.a;
  XV_OBL("nbq.pop.empty_iff", r == (in_na > 0));
  XV_OBL("nbq.inv.preserved", inv_queue(&q));
  if (!r) {
    XV_OBL("nbq.pop.empty_iff", result.v == r0 && result.moved == m0 && A->cnt == 0 && F->cnt == CAP);
    for (unsigned i = 0; i < CAP; i++) XV_OBL("nbq.pop.empty_iff", F->vals[i] == in_perm[i] && g_constructed[i] == 0 && g_destroyed[i] == 0 && g_movedout[i] == 0);
    XV_CANARY("pop.empty");
  } else {
    unsigned e = (unsigned)in_perm[0];                                  /* the oldest allocated index */
    XV_OBL("nbq.pop.takes_first", result.v == in_cellv[e] && !result.moved && result.alive);
    XV_OBL("nbq.pop.takes_first", A->cnt == in_na - 1 && F->cnt == CAP - in_na + 1 && F->vals[CAP - in_na] == e);
    for (unsigned i = 0; i < CAP; i++) {
      if (i + 1 < in_na) XV_OBL("nbq.pop.takes_first", A->vals[i] == in_perm[i + 1]);
      if (i >= in_na) XV_OBL("nbq.pop.takes_first", F->vals[i - in_na] == in_perm[i]);
      if (i != e) XV_OBL("nbq.pop.takes_first", q._storage[i].v == in_cellv[i]);
      XV_OBL("nbq.own.exactly_once", g_destroyed[i] == (i == e) && g_movedout[i] == (i == e) && g_constructed[i] == 0);
    }
    /* the cell is claimed (allocated dequeue), moved out, destroyed, and only then handed back through the free ring */
    XV_OBL("nbq.pop.destroy_before_release", q._allocated_queue.t_deq < g_t_moveout && g_t_moveout < g_t_destroy && g_t_destroy < q._free_queue.t_enq && q._free_queue.n_enq == 1 && q._allocated_queue.n_deq == 1);
    XV_CANARY("pop.took"); if (in_na == CAP) XV_CANARY("pop.from_full");
  }
}

void h_dtor(void) {
  struct nbq q; havoc_queue(&q); in_op = 2;
  nbq_dtor(&q);
  for (unsigned i = 0; i < CAP; i++) {
    _Bool was_stored = 0; for (unsigned k = 0; k < CAP; k++) if (k < in_na && in_perm[k] == i) was_stored = 1;
    XV_OBL("nbq.dtor.owns", g_destroyed[i] == (was_stored ? 1 : 0) && !q._storage[i].alive && g_constructed[i] == 0 && g_movedout[i] == 0);
  }
  XV_OBL("nbq.dtor.owns", q._allocated_queue.a.cnt == 0);
  if (in_na == CAP) XV_CANARY("dtor.full"); if (in_na == 0) XV_CANARY("dtor.empty"); 
#if CAP > 1
  if (in_na > 0 && in_na < CAP) XV_CANARY("dtor.some");
#endif
}

/* pop(): the functors it passes to do_pop (extracted text) against the ones of try_pop; XV_POP_OPTIONAL_TARGET is the callee named in pop()'s body */
#define do_pop 7701
void h_pop_optional(void) {
  T c1; c1.v = nondet_u32(); c1.alive = 1; c1.moved = 0; 
  T c2 = c1, res = c1; res.v = nondet_u32();
  g_opt_moves = 0;
  XV_OBL("nbq.pop_optional.same_as_try_pop", XV_POP_OPTIONAL_TARGET == 7701);
  struct xv_opt a = nbq_pop_success(&c1);
  _Bool ok = nbq_try_pop_success(&res, &c2);
  XV_OBL("nbq.pop_optional.same_as_try_pop", ok && a.present && a.val.v == res.v && a.val.v == c2.v && a.val.alive && !a.val.moved && g_opt_moves == 1);
  XV_OBL("nbq.pop_optional.same_as_try_pop", c1.moved && c1.alive && c2.moved && c2.alive && c1.v == c2.v);      /* moved-from, not destroyed: do_pop runs ~T() on the cell afterwards */
  struct xv_opt e = nbq_pop_empty();
  XV_OBL("nbq.pop_optional.same_as_try_pop", !e.present && !nbq_try_pop_empty());
  XV_CANARY("pop_optional.reached");
}
#undef do_pop
