// native replay for unit nbq: puts the REAL nikolaev_bounded_queue into the state described by the in_* inputs
// (allocated ring = in_perm[0..in_na), free ring = in_perm[in_na..cap), cell i holds in_cellv[i]) by re-initialising its two
// real nikolaev_scq members and enqueueing the indices in that order (-fno-access-control), then runs the real
// try_push / try_pop / destructor and compares with the FIFO specification; elements are life-cycle tracked.
// exit 0 = holds, 1 = violation reproduced, 2 = cannot represent
#include <xenium/nikolaev_bounded_queue.hpp>
#include <cstdio>
#include <cstdlib>
#include <cstring>
#include <deque>
#include <map>
#include <new>
#include <set>
#include <string>
static std::map<std::string, unsigned long long> args;
static unsigned long long arg(const std::string& k, unsigned long long d = 0) { auto it = args.find(k); return it == args.end() ? d : it->second; }
static unsigned long long arr(const char* name, unsigned i) { return arg(std::string(name) + "[" + std::to_string(i) + "]"); }
static std::set<const void*> live; static int errors = 0; static int moves = 0;
struct Tracked {
  unsigned long long v; bool moved = false;
  explicit Tracked(unsigned long long x = 0) : v(x) { reg(); }
  Tracked(Tracked&& o) noexcept : v(o.v) { moves++; if (o.moved) { printf("moved from a moved-from element\n"); errors++; } o.moved = true; reg(); }
  Tracked& operator=(Tracked&& o) noexcept { moves++; if (!live.count(this)) { printf("assignment to a dead object\n"); errors++; } if (o.moved) { printf("element moved out twice\n"); errors++; } v = o.v; moved = false; o.moved = true; return *this; }
  ~Tracked() { if (!live.erase(this)) { printf("destructor on raw / already destroyed storage\n"); errors++; } }
  void reg() { if (!live.insert(this).second) { printf("constructed over a live element\n"); errors++; } }
};
using queue_t = xenium::nikolaev_bounded_queue<Tracked>;
using scq = xenium::detail::nikolaev_scq;
int main(int argc, char** argv) {
  for (int i = 1; i < argc; ++i) {
    char* eq = strchr(argv[i], '='); if (!eq) continue;
    std::string k(argv[i], eq - argv[i]), v(eq + 1);
    size_t b = k.find('['); if (b != std::string::npos) { size_t e = k.find(']'); std::string idx = k.substr(b + 1, e - b - 1); while (!idx.empty() && !isdigit(idx.back())) idx.pop_back(); k = k.substr(0, b) + "[" + idx + "]"; }
    if (v == "TRUE") args[k] = 1; else if (v == "FALSE") args[k] = 0; else if (v[0] == '{') continue; else args[k] = strtoull(v.c_str(), 0, 0);
  }
  size_t cap = arg("in_cap", 2); unsigned op = arg("in_op", 0), na = arg("in_na");
  if (na > cap || cap > 64) return 2;
  std::set<unsigned long long> seen; for (unsigned i = 0; i < cap; i++) if (arr("in_perm", i) >= cap || !seen.insert(arr("in_perm", i)).second) { printf("in_perm is not a permutation\n"); return 2; }
  alignas(queue_t) static unsigned char mem[sizeof(queue_t)];
  queue_t* q = new (mem) queue_t(cap);
  if (q->capacity() != cap) return 2;
  // re-initialise both rings empty and fill them in the requested order
  q->_allocated_queue.~scq(); new (&q->_allocated_queue) scq(cap, q->_remap_shift, scq::empty_tag{});
  q->_free_queue.~scq(); new (&q->_free_queue) scq(cap, q->_remap_shift, scq::empty_tag{});
  std::deque<unsigned long long> spec;
  for (unsigned i = 0; i < cap; i++) {
    unsigned long long idx = arr("in_perm", i);
    if (i < na) { new (&q->_storage[idx]) Tracked(arr("in_cellv", idx)); q->_allocated_queue.enqueue<false, false>(idx, cap, q->_remap_shift); spec.push_back(arr("in_cellv", idx)); }
    else q->_free_queue.enqueue<false, false>(idx, cap, q->_remap_shift);
  }
  if (op == 0) {
    unsigned long long v = arg("in_v"); Tracked val(v);
    moves = 0;
    bool r = q->try_push(std::move(val));   // try_push takes T by value: one move constructs the parameter object
    bool expect = na < cap;
    if (r != expect) { printf("try_push returned %d with %u of %zu elements stored\n", r, na, cap); errors++; }
    if (!r && moves != 1) { printf("failed try_push moved from its parameter object (%d moves, 1 expected for passing the argument)\n", moves); errors++; }
    if (r && moves != 2) { printf("successful try_push: %d moves, expected 2 (argument passing + placement new)\n", moves); errors++; }
    if (r) spec.push_back(v);
  } else if (op == 1) {
    Tracked res(777);
    bool r = q->try_pop(res);
    if (r != (na > 0)) { printf("try_pop returned %d with %u elements stored\n", r, na); errors++; }
    if (r) { if (res.v != spec.front()) { printf("try_pop delivered %llu, the oldest element is %llu\n", res.v, spec.front()); errors++; } spec.pop_front(); }
    else if (res.v != 777) { printf("failed try_pop changed result\n"); errors++; }
  }
  if (op != 2) {   // drain and compare with the specification
    Tracked res(0);
    for (size_t i = 0; i < spec.size(); i++) { if (!q->try_pop(res)) { printf("element %zu of %zu missing\n", i, spec.size()); errors++; break; } if (res.v != spec[i]) { printf("drain position %zu: got %llu, expected %llu\n", i, res.v, spec[i]); errors++; } }
    if (q->try_pop(res)) { printf("extra element %llu\n", res.v); errors++; }
    for (unsigned long long v : spec) { Tracked t(v); if (!q->try_push(std::move(t))) { printf("cannot refill\n"); errors++; } }
  }
  q->~queue_t();
  // every element that was still stored must have been destroyed by the destructor, exactly once
  if (!live.empty()) { printf("%zu element(s) still alive after the destructor (leak)\n", live.size()); errors++; }
  printf(errors ? "VIOLATION reproduced on the real nikolaev_bounded_queue\n" : "contract holds on the real nikolaev_bounded_queue\n");
  return errors ? 1 : 0;
}
