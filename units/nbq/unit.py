import re
from xvlib import lower as L
Q = 'xenium/nikolaev_bounded_queue.hpp'
S = 'xenium/detail/nikolaev_scq.hpp'
U = 'xenium/utils.hpp'

def lift_lambdas(text, lw):
    """unit-local mechanical rule: a lambda expression in argument position `[caps](params) [-> R] { body }` is replaced by
    XV_CLOSURE_<k>(caps); the lambda bodies are extracted as functions of their own (sources 'try_pop_success', 'try_pop_empty')"""
    pat = re.compile(r'(?<=[(,])\s*\[([^\[\]]*)\]\s*\(([^()]*)\)\s*(->\s*[\w:<>]+\s*)?\{')
    k = 0
    while True:
        m = pat.search(text)
        if not m: return text
        b = m.end() - 1; e = L.match_brace(text, b)
        text = text[:m.start()] + ' XV_CLOSURE_%d(%s)' % (k, m.group(1).strip()) + text[e + 1:]
        lw.fire('lambda'); k += 1

RING = dict(pre_subst=[(r'\.dequeue<false, pop_retries>\(', '.dequeue_np(', 'tpl_dequeue'),
                       (r'\.enqueue<false, false>\(', '.enqueue_ff(', 'tpl_enqueue_ff'),
                       (r'reinterpret_cast<T&>\((\w+\[\w+\])\)\.~T\(\);', r'XV_DESTROY(\1);', 'dtor_call'),
                       (r'\bdata\.~T\(\);', 'XV_DESTROY(data);', 'dtor_call_ref'),
                       (r'T& data = reinterpret_cast<T&>\((\w+\[\w+\])\);', r'T& data = \1;', 'storage_ref'),
                       (r'new \(&(\w+(?:\[\w+\])?)\) T\(std::move\((\w+)\)\);', r'XV_CONSTRUCT_MOVE(\1, \2);', 'placement_new')],      # the cell: an array element or a named reference to one,
            methods={'dequeue_np': 'RING_dequeue', 'enqueue_ff': 'RING_enqueue_ff'},
            members=['_capacity', '_remap_shift', '_storage', '_allocated_queue', '_free_queue'])
UNIT = dict(
  title='nikolaev_bounded_queue: constructor, try_push, try_pop/do_pop, destructor over two SCQ rings and a storage array (C05, C07)',
  properties=['C05', 'C07'],
  drops='templates (T = a word with ghost alive/moved flags; Policies: pop_retries only reaches the rings); the two nikolaev_scq members are '
        'replaced by the abstract FIFO-of-indices contract proved in unit scq (units/scq/scq_contract.h); std::unique_ptr<storage_t[]> is an array of CAP cells; '
        'placement new / explicit destructor call / move assignment become ghost-tracked XV_CONSTRUCT_MOVE / XV_DESTROY / XV_MOVE_ASSIGN; '
        'the lambdas passed to do_pop are lifted to functions (closure = pointer to the captured result)',
  assumptions=['stub nikolaev_scq: sequential contract of unit scq (enqueue appends / dequeue takes first / false iff empty)',
               'SEQ only: linearizability of the composition under interleaving is the lemma of C05'],
  consts=[dict(name='XV_POP_OPTIONAL_TARGET', file=Q, regex=r'::pop\(\) -> std::optional<value_type> \{\s*return (\w+)\(\s*\[\]\(auto& v\)'), dict(name='indexes_per_cacheline', file=S, regex=r'static constexpr std::size_t indexes_per_cacheline = ([^;]+);',
               subst=[(r'cacheline_size / sizeof\(index_t\)', '64 / sizeof(uint64_t)')])],
  sources=[
    dict(id='is_power_of_two', file=U, sig=r'constexpr bool is_power_of_two\(T val\)', c_sig='static _Bool is_power_of_two(uint64_t val)', must_fire={}),
    dict(id='find_last_bit_set', file=U, sig=r'constexpr unsigned find_last_bit_set\(T val\)', c_sig='static unsigned find_last_bit_set(uint64_t val)', must_fire={}),
    dict(id='next_power_of_two', file=U, sig=r'constexpr T next_power_of_two\(T val\)', c_sig='static uint64_t next_power_of_two(uint64_t val)',
         types={'T': 'uint64_t'}, must_fire={'cast': 1}),
    dict(id='calc_remap_shift', file=S, sig=r'static constexpr std::size_t calc_remap_shift\(std::size_t capacity\)',
         c_sig='static size_t calc_remap_shift(size_t capacity)', subst=[(r'utils::', '', 'utils_ns')], must_fire={'subst:utils_ns': 2}),
    dict(id='ctor', file=Q, sig=r'nikolaev_bounded_queue<T, Policies\.\.\.>::nikolaev_bounded_queue\(std::size_t capacity\)', ctor=True,
         c_sig='static void nbq_ctor(struct nbq* self, size_t capacity)',
         post_subst=[(r'utils::|detail::nikolaev_scq::', '', 'ns'), (r'\b(\w+)_tag\{\}', r'XV_TAG_\1', 'tag'),
                     (r'new storage_t\[([^\]]*)\]', r'\1', 'new_array'), (r'(?<![\w>.])(_capacity|_remap_shift)\b', r'self->\1', 'init_member')],
         must_fire={'ctor_init': 5, 'subst:ns': 4, 'subst:tag': 2, 'subst:new_array': 1, 'subst:init_member': 6}),
    dict(id='capacity', file=Q, sig=r'std::size_t capacity\(\) const noexcept', c_sig='static size_t nbq_capacity(struct nbq* self)',
         members=['_capacity'], must_fire={'member:_capacity': 1}),
    dict(RING, id='dtor', file=Q, sig=r'nikolaev_bounded_queue<T, Policies\.\.\.>::~nikolaev_bounded_queue\(\)',
         c_sig='static void nbq_dtor(struct nbq* self)',
         must_fire={'subst:tpl_dequeue': 1, 'subst:dtor_call': 1, 'method:dequeue_np': 1}),
    dict(RING, id='try_push', file=Q, sig=r'bool nikolaev_bounded_queue<T, Policies\.\.\.>::try_push\(value_type value\)',
         c_sig='static _Bool nbq_try_push(struct nbq* self, T value)',
         must_fire={'subst:tpl_dequeue': 1, 'subst:tpl_enqueue_ff': 1, 'subst:placement_new': 1, 'method:dequeue_np': 1, 'method:enqueue_ff': 1}),
    dict(id='try_pop_success', file=Q, sig=r'\[&result\]\(auto& v\)', c_sig='static _Bool nbq_try_pop_success(T* result_p, T* v_p)',
         pre_subst=[(r'(\w+) = std::move\((\w+)\);', r'XV_MOVE_ASSIGN(\1, \2);', 'move_assign')],
         subst=[(r'\bresult\b', '(*result_p)', 'result_ref'), (r'\bv\b', '(*v_p)', 'v_ref')],
         must_fire={'subst:move_assign': 1, 'subst:result_ref': 1, 'subst:v_ref': 1}),
    dict(id='try_pop_empty', file=Q, sig=r'\[\]\(\)(?=\s*\{)', c_sig='static _Bool nbq_try_pop_empty(void)', must_fire={}),
    # pop(): the std::optional flavour - its two lambdas, extracted as functions (std::optional<value_type> is a {present, value} pair; constructing it from std::move(v) is XV_OPT_FROM_MOVED)
    dict(id='pop_success', file=Q, sig=r'\[\]\(auto& v\) -> std::optional<value_type> ', c_sig='static struct xv_opt nbq_pop_success(T* v_p)',
         pre_subst=[(r'return std::move\((\w+)\);', r'return XV_OPT_FROM_MOVED(\1);', 'opt_from_moved')], subst=[(r'\bv\b', '(*v_p)', 'v_ref')], must_fire={'subst:opt_from_moved': 1, 'subst:v_ref': 1}),
    dict(id='pop_empty', file=Q, sig=r'\[\]\(\) -> std::optional<value_type> ', c_sig='static struct xv_opt nbq_pop_empty(void)', pre_subst=[(r'std::nullopt', 'XV_NULLOPT', 'nullopt')], must_fire={'subst:nullopt': 1}),
    dict(RING, id='do_pop', file=Q, sig=r'auto nikolaev_bounded_queue<T, Policies\.\.\.>::do_pop\(SuccessFunc successFunc, EmptyFunc emptyFunc\)',
         c_sig='static _Bool nbq_do_pop(struct nbq* self, T* successFunc, int emptyFunc)',
         calls={'successFunc': 'XV_CALL_SUCCESS', 'emptyFunc': 'XV_CALL_EMPTY'},
         must_fire={'subst:tpl_dequeue': 1, 'subst:tpl_enqueue_ff': 1, 'subst:dtor_call_ref': 1, 'subst:storage_ref': 1, 'reference': 1,
                    'method:dequeue_np': 1, 'method:enqueue_ff': 1, 'call:successFunc': 1, 'call:emptyFunc': 1}),
    dict(id='try_pop', file=Q, sig=r'bool nikolaev_bounded_queue<T, Policies\.\.\.>::try_pop\(value_type& result\)',
         c_sig='static _Bool nbq_try_pop(struct nbq* self, T* result_p)', py_pre=lift_lambdas,
         subst=[(r'\bresult\b', '(*result_p)', 'result_ref')], self_calls={'do_pop': 'nbq_do_pop'},
         must_fire={'lambda': 2, 'subst:result_ref': 1, 'self_call:do_pop': 1}),
  ],
  runs=[
    dict(id='pop_optional', entry='h_pop_optional', cls='unbounded', note='the functors of pop() against those of try_pop, every element value'),
    dict(id='ctor', entry='h_ctor', unwindset=['find_last_bit_set.0:66'], unwind=3, cls='unbounded',
         note='every requested capacity 1..2^32 (symbolic), composed with the real next_power_of_two / calc_remap_shift / find_last_bit_set'),
  ] + [dict(id='%s_c%d' % (op, c), entry='h_' + op, defs={'CAP': c}, unwind=c + 2, tiers=tiers, cls='shape-complete',
            note='from ANY state of Inv_Q: arbitrary permutation of the indices split anywhere between the allocated and the free ring, arbitrary cell contents')
       for op in ('push', 'pop', 'dtor') for c, tiers in ((1, ['quick', 'thorough']), (2, ['quick', 'thorough']), (4, ['quick', 'thorough']), (8, ['thorough']))],
  obligations={
    'nbq.pop_optional.same_as_try_pop': dict(deciding=True, text='pop() forwards to the same do_pop as try_pop; its success functor moves the element out of the cell exactly as try_pop does (the optional holds the value, the cell is left moved-from and alive for do_pop to destroy), its empty functor yields an empty optional'),
    'nbq.ctor.capacity': dict(deciding=True, text='capacity() is the smallest power of two >= the requested capacity (1..2^32), _remap_shift = calc_remap_shift(capacity()), storage has capacity() cells'),
    'nbq.ctor.rings': dict(deciding=True, text='allocated ring constructed empty, free ring constructed full, both with (capacity(), _remap_shift)'),
    'nbq.scq.requires': dict(deciding=True, text='every ring operation is called with (capacity(), _remap_shift), an index < capacity that is not in that ring, on a ring that is not finalized'),
    'nbq.inv.preserved': dict(deciding=True, text='allocated ++ free stays a permutation of [0,cap); a cell is alive iff its index is in the allocated ring'),
    'nbq.push.full_iff': dict(deciding=True, text='try_push fails iff cap elements are stored; then rings and cells are unchanged'),
    'nbq.push.rejected_untouched': dict(deciding=True, text='a failed try_push never moves from its argument (C07: the value stays with the caller)'),
    'nbq.push.appends': dict(deciding=True, text='successful try_push: the oldest free index is appended to the allocated ring, its cell holds the pushed value, all other cells and the order of older elements are unchanged'),
    'nbq.push.publish_order': dict(deciding=True, text='try_push: exactly one free-ring dequeue, then the placement-new, then exactly one allocated-ring enqueue (the index is published only after the element exists)'),
    'nbq.pop.destroy_before_release': dict(deciding=True, text='try_pop: allocated-ring dequeue, move-out, ~T, and only then the index goes back to the free ring (no producer can reuse the cell earlier)'),
    'nbq.pop.empty_iff': dict(deciding=True, text='try_pop fails iff no element is stored; then result, rings and cells are unchanged'),
    'nbq.pop.takes_first': dict(deciding=True, text='successful try_pop: result = value of the oldest allocated index, that index moves to the end of the free ring, other elements keep order and value'),
    'nbq.own.exactly_once': dict(deciding=True, text='C07: placement-new only into raw cells, ~T only on live cells; push constructs exactly one cell; pop moves out of and destroys exactly the popped cell'),
    'nbq.dtor.owns': dict(deciding=True, text='the destructor destroys exactly the cells whose index is in the allocated ring, each once; no live cell remains'),
  },
  replays={k: dict(src='replay_nbq.cpp') for k in ('nbq.push.full_iff', 'nbq.push.appends', 'nbq.push.rejected_untouched', 'nbq.pop.empty_iff', 'nbq.pop.takes_first', 'nbq.own.exactly_once', 'nbq.dtor.owns', 'nbq.inv.preserved')},
  canaries=['pop_optional.reached', 'ctor.rounded', 'ctor.exact', 'ctor.min', 'ctor.max', 'push.full', 'push.stored', 'push.last_slot', 'pop.empty', 'pop.took', 'pop.from_full',
            'dtor.full', 'dtor.empty', 'dtor.some'],
)
