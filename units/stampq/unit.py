import re
F = 'xenium/reclamation/impl/stamp_it.hpp'
H = 'xenium/reclamation/stamp_it.hpp'

# ---- unit-local mechanical rules ------------------------------------------------------------------------------------------
# perf counters (WITH_PERF_COUNTER undefined: INC_PERF_CNT(x) is empty, PERF_COUNTER declares an object whose inc() is empty).
# iterations.inc() stands at the top of the three big retry loops: it becomes the ghost hook XV_ITER() (counts iterations).
PERF = [(r'INC_PERF_CNT\([^;()]*\);', '', 'perf_inc'), (r'PERF_COUNTER\(iterations,[^()]*\);?', '', 'perf_decl'),
        (r'\biterations\.inc\(\);', 'XV_ITER();', 'perf_iter')]
# marked_ptr as a type name (declarations) -> the word type mptr; constructor calls marked_ptr(p, m) are handled by `calls`
TY = [(r'\bmarked_ptr\b(?!\s*\()', 'mptr', 'mptr_type'), (r'\bdeletable_object_with_stamp\b', 'struct node', 'node_type')]
def REF(name):
    """by-reference parameter `marked_ptr& name` -> pointer parameter name_p; every use that is not a member access becomes (*name_p)"""
    return (r'(?<!->)(?<![.\w])%s\b' % name, '(*%s_p)' % name, 'ref_' + name)
# calls that pass lvalues by reference: the callee's C signature takes pointers
CALLS_REF = [
  (r'\bset_mark_flag\(([^,]+),', r'sq_set_mark_flag(&(\1),', 'call_set_mark_flag'),
  (r'\bmake_clean_marked\(([^,]+),\s*([^()]+)\)', r'sq_make_clean_marked(\1, &(\2))', 'call_make_clean_marked'),
  (r'\bremove_from_prev_list\(prev, block, next\)', r'sq_remove_from_prev_list(&prev, block, &next)', 'call_remove_from_prev_list'),
  (r'\bremove_or_skip_marked_block\(next, last,', r'sq_remove_or_skip_marked_block(&next, &last,', 'call_remove_or_skip'),
  (r'\bsave_next_as_last_and_move_next_to_next_prev\(next_prev, next, last\)', r'sq_save_next_as_last(next_prev, &next, &last)', 'call_save_next'),
]
MP = {'mark': 'MP_mark', 'get': 'MP_get', 'reset': 'MP_reset'}
CALLS = {'marked_ptr': 'MP_make', 'make_marked': 'sq_make_marked', 'mark_next': 'sq_mark_next', 'remove_from_next_list': 'sq_remove_from_next_list'}
def S(**kw):
    d = dict(file=F, methods=MP, calls=CALLS, pre_subst=PERF + kw.pop('pre_subst', []))
    sub = kw.pop('subst', [])
    d.update(kw); d['subst'] = CALLS_REF + sub + TY
    return d
# INT variants: the same text lowered a second time with the retry loops cut by invariants (xv cuts loops per lowered function, so a function
# that is verified both with complete unwinding (SEQ) and with loop cuts (INT) appears twice); calls go through SQI_<name> macros, which the harness
# maps to the cut variants (or, for run remove_int, to contract stubs of the callees that have their own INT runs)
INT_CALLS = [(r'\bsq_(set_mark_flag|mark_next|remove_from_prev_list|remove_from_next_list|remove_or_skip_marked_block|update_tail_stamp|add_global2)\b', r'SQI_\1', 'int_variant_call')]
def SI(cut, **kw):
    d = S(**kw)
    d['id'] += '_i'; d['c_sig'] = d['c_sig'].replace(' sq_', ' sqi_', 1); d['cut_loops'] = cut
    d['post_subst'] = INT_CALLS + d.get('post_subst', [])
    mf = dict(d.get('must_fire', {})); mf['cut_loop'] = len(cut); d['must_fire'] = mf
    return d

QM = ['head', 'tail', 'global_retired_nodes']
def both(cut, **kw):
    return [S(**dict(kw)), SI(cut, **dict(kw))]

SET_MARK_FLAG = dict(id='set_mark_flag', sig=r'static marked_ptr set_mark_flag\(concurrent_ptr& ptr, std::memory_order order\)',
      c_sig='static mptr sq_set_mark_flag(mptr* ptr_p, int order)', subst=[(r'\bptr\b', '(*ptr_p)', 'ref_ptr')],
      must_fire={'A_LOAD': 1, 'A_CASW': 1, 'subst:ref_ptr': 2})
MARK_NEXT = dict(id='mark_next', sig=r'static bool mark_next\(marked_ptr block, size_t stamp\)',
      c_sig='static _Bool sq_mark_next(mptr block, size_t stamp)', deref={'block': 'MTCB'},
      must_fire={'A_LOAD': 2, 'A_CASW': 1, 'deref:block': 3})
REMOVE_OR_SKIP = dict(id='remove_or_skip_marked_block', sig=r'remove_or_skip_marked_block\(marked_ptr& next, marked_ptr& last, marked_ptr next_prev, stamp_t next_stamp\)',
      c_sig='static _Bool sq_remove_or_skip_marked_block(mptr* next_p, mptr* last_p, mptr next_prev, stamp_t next_stamp)', subst=[REF('next'), REF('last')],
      deref={'(*next_p)': 'MTCB', '(*last_p)': 'MTCB'}, must_fire={'A_LOAD': 2, 'A_CAS': 1, 'call:mark_next': 1, 'subst:ref_next': 8, 'subst:ref_last': 5})
RFPL = dict(id='remove_from_prev_list', sig=r'static bool remove_from_prev_list\(marked_ptr& prev, marked_ptr b, marked_ptr& next\)',
      c_sig='static _Bool sq_remove_from_prev_list(mptr* prev_p, mptr b, mptr* next_p)', subst=[REF('prev'), REF('next')],
      deref={'(*prev_p)': 'MTCB', '(*next_p)': 'MTCB', 'b': 'MTCB'},
      must_fire={'A_LOAD': 10, 'A_CAS': 1, 'call:mark_next': 1, 'subst:call_remove_or_skip': 1, 'subst:call_save_next': 1, 'subst:perf_iter': 1})
RFNL = dict(id='remove_from_next_list', sig=r'static void remove_from_next_list\(marked_ptr prev, marked_ptr removed, marked_ptr next\)',
      c_sig='static void sq_remove_from_next_list(mptr prev, mptr removed, mptr next)',
      deref={'prev': 'MTCB', 'next': 'MTCB', 'removed': 'MTCB'},
      must_fire={'A_LOAD': 10, 'A_CASW': 1, 'subst:call_remove_or_skip': 1, 'subst:call_save_next': 1, 'subst:perf_iter': 1})
UPDATE_TAIL = dict(id='update_tail_stamp', sig=r'void update_tail_stamp\(size_t stamp\)',
      c_sig='static void sq_update_tail_stamp(struct toq* self, size_t stamp)', members=QM, deref={'head': 'TCB', 'tail': 'TCB', 'last': 'MTCB'},
      must_fire={'A_LOAD': 5, 'A_CAS': 1, 'A_CASW': 1, 'call:make_marked': 1})
PUSH = dict(id='push', sig=r'void push\(thread_control_block\* block\)',
      c_sig='static void sq_push(struct toq* self, tcbp block)', members=QM, deref={'head': 'TCB', 'block': 'TCB', 'my_prev': 'MTCB'},
      must_fire={'A_LOAD': 5, 'A_STORE': 4, 'A_FADD': 1, 'A_CASW': 2, 'subst:call_make_clean_marked': 2, 'call:make_marked': 2, 'subst:perf_iter': 1})
REMOVE = dict(id='remove', sig=r'bool remove\(marked_ptr block\)',
      c_sig='static _Bool sq_remove(struct toq* self, mptr block)', members=QM, deref={'block': 'MTCB'},
      self_calls={'update_tail_stamp': 'sq_update_tail_stamp'},
      must_fire={'A_LOAD': 2, 'A_STORE': 1, 'subst:call_set_mark_flag': 2, 'subst:call_remove_from_prev_list': 1, 'call:remove_from_next_list': 1, 'self_call:update_tail_stamp': 1})
ADD2 = dict(id='add_global2', sig=r'void add_to_global_retired_nodes\(deletable_object_with_stamp\* first_chunk, deletable_object_with_stamp\* last_chunk\)',
      c_sig='static void sq_add_global2(struct toq* self, struct node* first_chunk, struct node* last_chunk)', members=QM,
      must_fire={'A_LOAD': 1, 'A_CASW': 1})
ADD1 = dict(id='add_global1', sig=r'void add_to_global_retired_nodes\(deletable_object_with_stamp\* chunk\)',
      c_sig='static void sq_add_global1(struct toq* self, struct node* chunk)', self_calls={'add_to_global_retired_nodes': 'sq_add_global2'},
      must_fire={'self_call:add_to_global_retired_nodes': 1})

# ---- the 32 annotated synchronisation points: the memory order written at each of them is extracted from the text as a constant ----
MO = r'(std::memory_order_\w+)'
def ORD(name, regex): return dict(name='ORD_' + name, file=F, regex=regex, subst=[(r'std::memory_order_', 'mo_')])
# a point is identified by its function and the cell/method it accesses (not by the exact argument text), so that edits of the arguments stay decidable
CX = r'compare_exchange_(?:weak|strong)'
IN_PUSH = r'void push\(thread_control_block\* block\).*?'
IN_REMOVE = r'bool remove\(marked_ptr block\).*?'
IN_ADD = r'void add_to_global_retired_nodes\(deletable_object_with_stamp\* first_chunk.*?'
IN_STEAL = r'steal_global_retired_nodes\(\)\s*\{.*?'
IN_HS = r'stamp_t head_stamp\(\).*?'
IN_TS = r'stamp_t tail_stamp\(\).*?'
IN_UTS = r'void update_tail_stamp\(size_t stamp\).*?'
IN_RFPL = r'remove_from_prev_list\(marked_ptr& prev.*?'
IN_RFNL = r'remove_from_next_list\(marked_ptr prev.*?'
IN_ROS = r'remove_or_skip_marked_block\(marked_ptr& next.*?'
IN_SAVE = r'static void save_next_as_last_and_move_next_to_next_prev\(.*?'
IN_MN = r'static bool mark_next\(.*?'
ANY = r'[^;]*?'
SUCC = ANY + MO + r',\s*std::memory_order_\w+\)'        # success order of a two-order compare_exchange
FAIL = ANY + r'std::memory_order_\w+,\s*' + MO + r'\)'   # failure order
SYNC = [
  ORD('1', IN_PUSH + r'block->next\.store\(' + ANY + MO + r'\)'),
  ORD('2', IN_PUSH + r'head->stamp\.fetch_add\(' + ANY + MO + r'\)'),
  ORD('3', IN_PUSH + r'block->stamp\.store\(' + ANY + MO + r'\)'),
  ORD('4', IN_PUSH + r'block->prev\.store\(' + ANY + MO + r'\)'),
  ORD('5', IN_PUSH + r'head->prev\.' + CX + r'\(' + SUCC),
  ORD('6', IN_PUSH + r'block->stamp\.store\(.*?block->stamp\.store\(' + ANY + MO + r'\)'),
  ORD('7', IN_PUSH + r'my_prev->next\.load\(' + MO + r'\)'),
  ORD('8', IN_PUSH + r'my_prev->next\.' + CX + r'\(' + SUCC),
  ORD('8f', IN_PUSH + r'my_prev->next\.' + CX + r'\(' + FAIL),
  ORD('9', IN_REMOVE + r'set_mark_flag\(block->prev, ' + MO + r'\)'),
  ORD('10', IN_ADD + r'global_retired_nodes\.' + CX + r'\(' + SUCC),
  ORD('11', IN_STEAL + r'global_retired_nodes\.(?:exchange\(' + ANY + r'|load\()' + MO + r'\)(?=\s*;)'),   # the access that takes the list
  ORD('12', IN_HS + r'->stamp\.load\(' + MO + r'\)'),
  ORD('13', IN_TS + r'->stamp\.load\(' + MO + r'\)'),
  ORD('14', IN_UTS + r'tail->next\.load\(' + MO + r'\)'),
  ORD('15', IN_UTS + r'last->prev\.load\(' + MO + r'\)'),
  ORD('16', IN_UTS + r'tail->stamp\.(?:' + CX + r'|store)\(' + ANY + MO + r'\)'),     # (a plain store here is caught by stampq.store.own_only)
  ORD('17', IN_RFPL + r'\sprev = prev->prev\.load\(' + MO + r'\)'),
  ORD('18', IN_RFPL + r'auto next_prev = next->prev\.load\(' + MO + r'\)'),
  ORD('19', IN_RFPL + r'auto next_stamp = next->stamp\.load\(' + MO + r'\)'),
  ORD('20', IN_RFPL + r'next = next->next\.load\(' + MO + r'\)'),
  ORD('21', IN_RFPL + r'next->prev\.' + CX + r'\(' + SUCC),
  ORD('22', IN_RFNL + r'auto next_prev = next->prev\.load\(' + MO + r'\)'),
  ORD('23', IN_RFNL + r'auto next_stamp = next->stamp\.load\(' + MO + r'\)'),
  ORD('24', IN_RFNL + r'next = next->next\.load\(' + MO + r'\)'),
  ORD('25', IN_RFNL + r'auto prev_next = prev->next\.load\(' + MO + r'\)'),
  ORD('26', IN_RFNL + r'\sprev = prev->prev\.load\(' + MO + r'\)'),
  ORD('27', IN_RFNL + r'prev->next\.' + CX + r'\(' + SUCC),
  ORD('28', IN_ROS + r'last->prev\.' + CX + r'\(' + SUCC),
  ORD('29', IN_ROS + r'next = next->next\.load\(' + MO + r'\)'),
  ORD('30', IN_SAVE + r'next_prev->stamp\.load\(' + MO + r'\)'),
  ORD('31', IN_MN + r'block->next\.load\(' + MO + r'\)'),
  ORD('32f', IN_MN + r'block->next\.' + CX + r'\(' + FAIL),
]

UW_SEQ = ['sq_push.0:3', 'sq_push.1:3', 'sq_set_mark_flag.0:2', 'sq_mark_next.0:2', 'sq_remove_from_prev_list.0:2', 'sq_remove_from_next_list.0:2',
          'sq_update_tail_stamp.0:2', 'sq_add_global2.0:2']
UW_MID = ['sq_push.0:3', 'sq_push.1:3', 'sq_set_mark_flag.0:2', 'sq_mark_next.0:2', 'sq_remove_from_prev_list.0:4', 'sq_remove_from_next_list.0:3',
          'sq_update_tail_stamp.0:2', 'sq_add_global2.0:2']

UNIT = dict(
  title='stamp_it::thread_order_queue: push / remove (with helping) / head_stamp / tail_stamp / update_tail_stamp / global retired-node list',
  properties=['C01', 'C16', 'C02'],
  drops='templates; thread_control_block* is an index into a pool of blocks (0 = null; the code only compares, dereferences and packs these pointers), '
        'marked_ptr<thread_control_block,18> is the word (index << MarkBits) | mark with get()/mark()/constructor/implicit conversion as in marked_ptr.hpp (bit layout: unit mp); '
        'std::atomic<marked_ptr>/atomic<stamp_t> are the plain cells of xv.h (the failure order of compare_exchange is dropped by xv.h; the two failure orders that '
        'the numbered comments rely on are checked on the text by stampq.sync.*); by-reference marked_ptr&/concurrent_ptr& parameters become pointers; '
        'WITH_PERF_COUNTER undefined (INC_PERF_CNT/PERF_COUNTER dropped, iterations.inc() becomes the ghost iteration counter XV_ITER()); '
        'deletable_object_with_stamp is struct node {next_chunk}; `new thread_control_block()` is a ghost allocator handing out zero-initialised pool blocks; '
        'roles are fixed WLOG (block 1 = tail, 2 = head, 3.. = list blocks oldest first, the last one outside); in INT runs the code\'s own assert()s are not checked '
        '(the rely is far weaker than the algorithm\'s invariant) and a null/wild block pointer reads a junk block instead of being a violation; '
        'in INT runs the environment step of xv.h is aimed at the cell about to be accessed (harness.c redefines XV_A_LOAD/STORE/RMW/CAS with the same text, XV_ENV() replaced by ENV_AT(cell)): '
        'rewriting that one cell before each access is what the thread can observe of "any cell may change at any time"; loop cuts havoc all cells; '
        'functions with retry loops are lowered twice from the same text: sq_* (loops kept, unwound completely in SEQ runs) and sqi_* (loops cut by invariants, INT runs)',
  assumptions=[
    'INT runs (mark_int, uts_int, rfpl_int, rfnl_int, remove_int, push_int, global_int) use the rely "other threads write any well-typed value into any cell at any time" '
    '(typed: head->prev unmarked, head/tail stamps free of flags, no stamp with both flags, the caller\'s own stamp only helped from pending to final): they decide the commit obligations '
    '(what every CAS expects and installs, in which order, what is stored where) for every path of one arbitrary loop iteration, NOT the functional behaviour of push/remove under concurrency',
    'linearizability / the global invariant "tail->stamp <= stamp of every block in the list" under arbitrary interleavings is the Stamp-it paper\'s argument; here it is decided for sequential '
    'executions from quiescent queues and from the enumerated mid-operation states (one stalled pusher and/or one stalled remover, not adjacent), not for all reachable concurrent states',
    'stamps do not wrap (head->stamp <= SIZE_MAX - 4*StampInc)',
    'thread_block_list (acquire_control_block) is unit tbl; marked_ptr bit layout is unit mp',
  ],
  consts=[
    dict(name='MarkBits', file=H, regex=r'static constexpr size_t MarkBits = ([^;]+);', subst=[(r'^(.*)$', r'(size_t)(\1)')]),
    dict(name='NotInList', file=H, regex=r'static constexpr stamp_t NotInList = ([^;]+);', subst=[(r'^(.*)$', r'(stamp_t)(\1)')]),
    dict(name='PendingPush', file=H, regex=r'static constexpr stamp_t PendingPush = ([^;]+);', subst=[(r'^(.*)$', r'(stamp_t)(\1)')]),
    dict(name='StampInc', file=H, regex=r'static constexpr stamp_t StampInc = ([^;]+);', subst=[(r'^(.*)$', r'(stamp_t)(\1)')]),
    dict(name='DeleteMark', file=F, regex=r'static const unsigned DeleteMark = ([^;]+);', subst=[(r'^(.*)$', r'(unsigned)(\1)')]),
    dict(name='TagInc', file=F, regex=r'static const unsigned TagInc = ([^;]+);', subst=[(r'^(.*)$', r'(unsigned)(\1)')]),
    dict(name='MarkMask', file=F, regex=r'static const unsigned MarkMask = ([^;]+);', subst=[(r'^(.*)$', r'(unsigned)(\1)')]),
  ] + SYNC,
  sources=[
    S(id='make_marked', sig=r'static marked_ptr make_marked\(thread_control_block\* p, const marked_ptr& mark\)',
      c_sig='static mptr sq_make_marked(tcbp p, mptr mark)', must_fire={'method:mark': 1, 'call:marked_ptr': 1}),
    S(id='make_clean_marked', sig=r'static marked_ptr make_clean_marked\(thread_control_block\* p, const concurrent_ptr& mark\)',
      c_sig='static mptr sq_make_clean_marked(tcbp p, mptr* mark_p)', subst=[(r'\bmark\.load\b', '(*mark_p).load', 'ref_mark')],
      must_fire={'A_LOAD': 1, 'method:mark': 1, 'call:marked_ptr': 1, 'subst:ref_mark': 1}),
    S(id='ctor', sig=r'thread_order_queue\(\)', c_sig='static void sq_ctor(struct toq* self)', members=QM, deref={'head': 'TCB', 'tail': 'TCB'},
      pre_subst=[(r'new thread_control_block\(\)', 'XV_NEW_TCB()', 'new_tcb'),
                 (r'\.store\((head|tail), ', r'.store(marked_ptr(\1), ', 'implicit_marked_ptr')],   # the implicit conversion thread_control_block* -> marked_ptr made explicit
      must_fire={'subst:new_tcb': 2, 'subst:implicit_marked_ptr': 2, 'A_STORE': 4}),
    S(id='save_next_as_last', sig=r'static void save_next_as_last_and_move_next_to_next_prev\(marked_ptr next_prev, marked_ptr& next, marked_ptr& last\)',
      c_sig='static void sq_save_next_as_last(mptr next_prev, mptr* next_p, mptr* last_p)', subst=[REF('next'), REF('last')],
      deref={'next_prev': 'MTCB', '(*next_p)': 'MTCB'}, must_fire={'A_LOAD': 2, 'A_CAS': 1, 'subst:ref_next': 3, 'subst:ref_last': 1}),
    S(id='head_stamp', sig=r'stamp_t head_stamp\(\)', c_sig='static stamp_t sq_head_stamp(struct toq* self)', members=QM, deref={'head': 'TCB', 'tail': 'TCB'}, must_fire={'A_LOAD': 1}),
    S(id='tail_stamp', sig=r'stamp_t tail_stamp\(\)', c_sig='static stamp_t sq_tail_stamp(struct toq* self)', members=QM, deref={'head': 'TCB', 'tail': 'TCB'}, must_fire={'A_LOAD': 1}),
    S(id='steal_global', sig=r'deletable_object_with_stamp\* steal_global_retired_nodes\(\)',
      c_sig='static struct node* sq_steal_global(struct toq* self)', members=QM, must_fire={'A_LOAD': 1, 'A_XCHG': 1}),
  ] + both({0: 'SMF'}, **SET_MARK_FLAG) + both({0: 'MN'}, **MARK_NEXT) + both({}, **REMOVE_OR_SKIP) + both({0: 'RFPL'}, **RFPL) + both({0: 'RFNL'}, **RFNL)
    + both({0: 'UTS'}, **UPDATE_TAIL) + both({0: 'PUSH1', 1: 'PUSH2'}, **PUSH) + both({}, **REMOVE) + both({0: 'ADDG'}, **ADD2) + both({}, **ADD1),
  runs=[
    dict(id='encoding', entry='h_encoding', cls='unbounded', note='flag / increment / mark constants and the pending-stamp arithmetic, for every stamp value'),
    dict(id='marks', entry='h_marks', cls='unbounded', note='make_marked / make_clean_marked on arbitrary words'),
    dict(id='stamps', entry='h_stamps', cls='unbounded', note='head_stamp() / tail_stamp(): one load each, nothing written'),
    dict(id='sync', entry='h_sync', cls='unbounded', note='the memory orders written at the 32 annotated synchronisation points (extracted from the text) are at least what the comments require'),
    dict(id='mark', entry='h_mark', unwindset=UW_SEQ, cls='unbounded', note='set_mark_flag / mark_next on an arbitrary cell of an arbitrary pool; SEQ: the retry loops end in their first iteration'),
    dict(id='ctor', entry='h_ctor', cls='unbounded'),
    dict(id='push', entry='h_push', unwindset=UW_SEQ, cls='shape-complete', tiers=['quick'], unwind_obligation='stampq.push.terminates',
         note='SEQ, any quiescent queue of 0..3 blocks (arbitrary stamps/tags), arbitrary leftovers in the pushed block; loops unwound completely'),
    dict(id='remove', entry='h_remove', unwindset=UW_SEQ, cls='shape-complete', tiers=['quick'], unwind_obligation='stampq.remove.terminates',
         note='SEQ, any block of any quiescent queue of 1..3 blocks; loops unwound completely'),
    dict(id='push_4', entry='h_push', unwindset=UW_SEQ, defs={'LMAX': '4u'}, cls='shape-complete', tiers=['thorough'], unwind_obligation='stampq.push.terminates', note='queues of 0..4 blocks'),
    dict(id='remove_4', entry='h_remove', unwindset=UW_SEQ, defs={'LMAX': '4u'}, cls='shape-complete', tiers=['thorough'], timeout=1800, unwind_obligation='stampq.remove.terminates', note='queues of 1..4 blocks'),
    dict(id='mid_push', entry='h_mid', unwindset=UW_MID, defs={'XV_MID_OP': 0}, flags=['--object-bits', '10'], cls='shape-complete', unwind_obligation='stampq.push.terminates',
         note='SEQ push from mid-operation states: queue of 1..3 blocks with a pending / not yet next-linked newest block and/or a block whose remover stalled after marking or half-way through unlinking'),
    dict(id='mid_remove_1', entry='h_mid', unwindset=UW_MID, defs={'XV_MID_OP': 1, 'XV_N': 1, 'LMAX': '1u'}, flags=['--object-bits', '10'], cls='shape-complete', unwind_obligation='stampq.remove.terminates',
         note='SEQ remove from mid-operation states, 1 block'),
    dict(id='mid_remove_2a', entry='h_mid', unwindset=UW_MID, defs={'XV_MID_OP': 1, 'XV_N': 2, 'LMAX': '2u', 'XV_K': 0}, flags=['--object-bits', '10'], cls='shape-complete', unwind_obligation='stampq.remove.terminates',
         note='... 2 blocks, removing the older one (helping a pending push of the newer one, resuming a stalled removal, removing next to a marked / half-unlinked block)'),
    dict(id='mid_remove_2b', entry='h_mid', unwindset=UW_MID, defs={'XV_MID_OP': 1, 'XV_N': 2, 'LMAX': '2u', 'XV_K': 1}, flags=['--object-bits', '10'], cls='shape-complete', unwind_obligation='stampq.remove.terminates',
         note='... 2 blocks, removing the newer one (helping a marked older neighbour out of the list, being last behind a half-unlinked block)'),
    dict(id='mid_remove_3', entry='h_mid', unwindset=UW_MID, defs={'XV_MID_OP': 1, 'XV_N': 3}, flags=['--object-bits', '10'], cls='shape-complete', unwind_obligation='stampq.remove.terminates',
         tiers=['thorough'], timeout=1800, note='... 3 blocks'),
    dict(id='global', entry='h_global', unwindset=UW_SEQ, cls='unbounded', note='add_to_global_retired_nodes (both overloads) / steal_global_retired_nodes, SEQ'),
    dict(id='global_int', entry='h_global_int', mode='INT', cls='unbounded', note='other threads replace the global list head at any time; CAS retry loop cut by invariant ADDG'),
    dict(id='push_int', entry='h_push_int', mode='INT', cls='unbounded', note='push under the rely "any well-typed write to any cell at any time" (own stamp: only helping); both loops cut by invariants'),
    dict(id='mark_int', entry='h_mark_int', mode='INT', cls='unbounded', timeout=300, note='set_mark_flag / mark_next under the rely; retry loops cut by invariants SMF / MN'),
    dict(id='uts_int', entry='h_uts_int', mode='INT', cls='unbounded', timeout=300, note='update_tail_stamp under the rely; CAS loop cut by invariant UTS'),
    dict(id='rfpl_int', entry='h_rfpl_int', mode='INT', cls='unbounded', timeout=300, defs={'XV_CANARY_RFPL': 1},
         note='remove_from_prev_list with its helpers (mark_next, remove_or_skip_marked_block, save_next_as_last...) from arbitrary arguments under the rely; loop cut by invariant RFPL: every CAS attempt of every path of one arbitrary iteration is checked by the monitors'),
    dict(id='rfnl_int', entry='h_rfnl_int', mode='INT', cls='unbounded', timeout=300, defs={'XV_CANARY_RFNL': 1}, note='remove_from_next_list likewise (invariant RFNL)'),
    dict(id='remove_int', entry='h_remove_int', mode='INT', cls='unbounded', timeout=300, defs={'XV_STUB_CALLEES': 1},
         note='remove itself under the rely, its five callees replaced by contract stubs (they have their own INT runs)'),
  ],
  obligations={
    'stampq.encoding.flags': dict(deciding=True, text='NotInList, PendingPush < StampInc are distinct powers of two; DeleteMark is bit 0 below TagInc; push\'s pending stamp s-(StampInc-PendingPush) has PendingPush and not NotInList, lies strictly between s-StampInc and s, and the helping increment restores s'),
    'stampq.marks.tag_inc': dict(deciding=True, text='make_marked(p, m) = (p, tag(m)+1, same delete bit); make_clean_marked(p, cell) = (p, tag(cell)+1, no delete bit), cell only read; tags always change'),
    'stampq.head_stamp.reads': dict(deciding=True, text='head_stamp() returns head->stamp by exactly one atomic load and writes nothing'),
    'stampq.tail_stamp.reads': dict(deciding=True, text='tail_stamp() returns tail->stamp by exactly one atomic load and writes nothing'),
    'stampq.sync.push': dict(deciding=True, text='sync points 1-8 of push: release stores (1,3,4,6), seq_cst fetch_add (2), acq_rel CAS (5), acquire load (7), release CAS with acquire failure order (8)'),
    'stampq.sync.remove': dict(deciding=True, text='sync points 9, 17-32 of remove and its helpers: acq_rel marking of prev (9), acquire loads (17-20, 22-26, 29-31, failure order of 32), release CASes (21, 27, 28)'),
    'stampq.sync.stamps': dict(deciding=True, text='sync points 12-16: head_stamp seq_cst, tail_stamp acquire, update_tail_stamp loads acquire, tail->stamp CAS release'),
    'stampq.sync.global': dict(deciding=True, text='sync points 10, 11: release CAS when adding to, acquire exchange when stealing the global retired-node list'),
    'stampq.set_mark_flag.marks': dict(deciding=True, text='set_mark_flag sets exactly the delete bit of the cell (pointer and tag unchanged), returns the value found, writes nothing else; no CAS when already marked'),
    'stampq.mark_next.marks': dict(deciding=True, text='mark_next(block, s) returns true iff block->stamp == s and then block->next carries the delete bit (pointer, tag unchanged); otherwise nothing is written'),
    'stampq.ctor.empty_queue': dict(deciding=True, text='the constructor allocates head and tail, links tail->next = head and head->prev = tail (unmarked), leaves head->next / tail->prev null and sets both stamps to StampInc'),
    'stampq.push.fresh_stamp': dict(deciding=True, text='push gives the block the value head->stamp had at its single seq_cst fetch_add(StampInc): greater than the stamp of every block in the list and of everything handed out before; nobody else modifies head->stamp'),
    'stampq.push.links': dict(deciding=True, text='SEQ: after push the block is the newest one (head->prev), linked in both directions without delete marks, the queue is a quiescent queue again; only head->prev/stamp, the old newest block\'s next and the block itself were written'),
    'stampq.push.publish_order': dict(deciding=True, text='[SEQ+INT] at the CAS that makes the block reachable from head: the pending stamp (fetched stamp with PendingPush) was stored with release after the fetch_add, head->prev was re-read after that store and is the expected value, prev (= that block, unmarked) and next (= head) were stored with release, the CAS is acq_rel and succeeds once; afterwards exactly one more store: the final stamp, release'),
    'stampq.push.terminates': dict(deciding=True, text='C16: push alone on a quiescent queue ends after one iteration of each loop, no CAS fails (plus complete unwinding)'),
    'stampq.remove.unlinks': dict(deciding=True, text='SEQ: after remove the block is unlinked in both directions, the rest is a quiescent queue, the block carries NotInList and both delete marks; stamps of all other blocks and of head untouched; exactly two marking and two link CASes'),
    'stampq.remove.last_iff': dict(deciding=True, text='SEQ: remove returns true iff the block was the tail-most one; then tail->stamp advances (one release CAS) to the stamp of the new tail-most block, or for an empty list to head->stamp (if more than one increment ahead) or removed stamp + StampInc; otherwise tail->stamp is not written'),
    'stampq.remove.flags_own_stamp': dict(deciding=True, text='remove writes its own stamp exactly once, after unlinking: the value just read plus NotInList'),
    'stampq.remove.terminates': dict(deciding=True, text='C16: remove alone on a quiescent queue ends after one iteration of each unlink loop, no CAS fails (plus complete unwinding)'),
    'stampq.tail_stamp.lower_bound': dict(deciding=True, text='after any SEQ operation tail_stamp() <= stamp of every block in the list < head_stamp()'),
    'stampq.update_tail.source': dict(deciding=True, text='[SEQ+INT] tail->stamp is raised only to the caller\'s guess or to the stamp just read from the block tail->next points to; to head\'s stamp only after head->prev\'s tag was renewed by a successful CAS (a push that already fetched an older stamp then fails its publishing CAS and retries)'),
    'stampq.mid.push_links': dict(deciding=True, text='SEQ from mid-operation states: push links the block at the head end (head->prev, block->prev = old newest, block->next = head, old newest\'s next unless that is marked), the prev chain from head still contains every block in stamp order and reaches tail, the next chain from tail still reaches head'),
    'stampq.mid.remove_unlinks': dict(deciding=True, text='SEQ from mid-operation states: after remove the block is out of the prev chain, which still contains every block whose removal has not begun (strictly decreasing stamps, ends at tail); no live block\'s next leads to it; it carries NotInList and both marks; other stamps unchanged except a pending stamp helped to its final value'),
    'stampq.mid.remove_last_iff': dict(deciding=True, text='SEQ from mid-operation states: remove returns true iff the block was the oldest one (counting a block already taken out of the prev list as gone); then tail->stamp ends above the removed stamp, otherwise it is untouched'),
    'stampq.mid.lower_bound': dict(deciding=True, text='SEQ from mid-operation states: afterwards tail->stamp <= (final) stamp of every block whose removal has not begun < head->stamp; tail->stamp never decreases'),
    'stampq.store.own_only': dict(deciding=True, text='[SEQ+INT] plain stores go only to the caller\'s own block (push: next, stamp, prev, stamp; remove: stamp); every other shared cell is written by CAS / fetch_add only'),
    'stampq.cas.expected_read': dict(deciding=True, text='[SEQ+INT] the expected value of every CAS on a prev / next / stamp cell is the value this thread observed last in that very cell (load, own write, or reload of a failed CAS)'),
    'stampq.cas.link_change': dict(deciding=True, text='[SEQ+INT] a CAS on a prev / next cell either sets just the delete bit, or replaces an unmarked link by an unmarked link with the tag moved on by one: a marked link is never redirected or unmarked'),
    'stampq.cas.link_release': dict(deciding=True, text='[SEQ+INT] every link-redirecting CAS is release or stronger (only the tag renewal of head->prev in update_tail_stamp may be relaxed)'),
    'stampq.cas.stamp_writes': dict(deciding=True, text='[SEQ+INT] tail->stamp is only raised (CAS expected < desired, release); a foreign block\'s stamp is only helped from pending to final (+StampInc-PendingPush); head->stamp is never CASed'),
    'stampq.global.conserve': dict(deciding=True, text='[SEQ+INT] add_to_global_retired_nodes links last_chunk to the head value it read and installs first_chunk by one successful release CAS with exactly that expected value (no store/exchange, other nodes untouched); steal_global_retired_nodes returns exactly what its single acquire exchange replaced by null, or null without writing'),
  },
  loop_obligation={'SMF': 'stampq.cas.expected_read', 'MN': 'stampq.cas.expected_read', 'UTS': 'stampq.cas.expected_read', 'RFPL': 'stampq.cas.link_change', 'RFNL': 'stampq.cas.link_change',
                   'PUSH1': 'stampq.push.publish_order', 'PUSH2': 'stampq.cas.expected_read', 'ADDG': 'stampq.global.conserve'},
  replays={k: dict(src='replay_stampq.cpp') for k in ['stampq.push.fresh_stamp', 'stampq.push.links', 'stampq.remove.unlinks', 'stampq.remove.last_iff', 'stampq.tail_stamp.lower_bound',
                                                     'stampq.update_tail.source', 'stampq.mid.push_links', 'stampq.mid.remove_unlinks', 'stampq.mid.remove_last_iff', 'stampq.mid.lower_bound']},
  canaries=['encoding.done', 'marks.clean_of_marked', 'marks.clean_of_clean', 'stamps.done', 'sync.done', 'mark.set_already', 'mark.set_new', 'mark.next_true', 'mark.next_false', 'ctor.done',
            'push.empty', 'push.full', 'remove.last_nonempty', 'remove.last_empty', 'remove.last_empty_head_stamp', 'remove.newest', 'remove.middle',
            'global.add_nonempty', 'global.add_empty', 'global.add_single', 'global.steal_some', 'global.steal_none',
            'global_int.add_done', 'global_int.add_retried', 'global_int.steal_some', 'global_int.steal_none', 'global_int.steal_raced',
            'push_int.done', 'push_int.linked_next', 'push_int.next_left_to_helpers', 'remove_int.true', 'remove_int.false',
            'mark_int.set_new', 'mark_int.set_already', 'mark_int.next_true', 'mark_int.next_false', 'uts_int.raised', 'uts_int.not_raised', 'uts_int.head_prev_bump',
            'rfpl_int.true', 'rfpl_int.false', 'rfpl_int.link_prev_cas', 'rfpl_int.mark_next_cas', 'rfpl_int.help_cas', 'rfpl_int.cas_failed',
            'mid.push_after_pending', 'mid.push_after_marked_newest', 'mid.resumed_removal', 'mid.half_unlinked', 'mid.helped_pending', 'mid.helped_marked_out', 'mid.last_behind_unlinked',
            'rfnl_int.done', 'rfnl_int.link_prev_cas', 'rfnl_int.link_next_cas', 'rfnl_int.mark_next_cas', 'rfnl_int.help_cas'],
)
