/* unit stampq - stamp_it::thread_order_queue (push / remove with helping / stamps / global retired-node list).
 * Contracts, ghost state, monitors and harnesses only; every function body comes from lowered.h (extracted from /repo on every run). */
#include <stdint.h>
#include <stddef.h>
static void mon_load(void* addr, uint64_t v, int o);
static void mon_store(void* addr, uint64_t v, int o);
static void mon_rmw(void* addr, uint64_t oldv, uint64_t newv, int o);
static void mon_cas(void* addr, uint64_t e, uint64_t d, _Bool ok, int o);
#define XV_ON_LOAD(addr, val, order) mon_load((void*)(addr), (uint64_t)(val), (order))
#define XV_ON_STORE(addr, val, order) mon_store((void*)(addr), (uint64_t)(val), (order))
#define XV_ON_RMW(addr, oldv, newv, order) mon_rmw((void*)(addr), (uint64_t)(oldv), (uint64_t)(newv), (order))
#define XV_ON_CAS(addr, e, d, ok, order) mon_cas((void*)(addr), (uint64_t)(e), (uint64_t)(d), (ok), (order))
#include "xv.h"
int xv_threw; uint64_t xv_clock, xv_rmw_old; _Bool xv_cas_ok;
#ifdef XV_INT
/* the atomic model of xv.h with the environment step aimed at the accessed cell: identical text, XV_ENV() replaced by ENV_AT(a).
 * Other threads may rewrite every cell between any two accesses of this thread; what this thread can observe of that is the value of the cell
 * it accesses next, so the environment rewrites exactly that cell right before the access (the loop cuts havoc all cells at once). */
static uint64_t env_val(void* addr, uint64_t cur);
#define ENV_AT(a) ((a) = (__typeof__(a))env_val((void*)&(a), (uint64_t)(a)))
#undef XV_A_LOAD
#undef XV_A_STORE
#undef XV_A_RMW
#undef XV_A_CAS
#define XV_A_LOAD(a, o)     (ENV_AT(a), xv_clock++, XV_ON_LOAD(&(a), (a), (o)), (a))
#define XV_A_STORE(a, v, o) (ENV_AT(a), (a) = (v), xv_clock++, XV_ON_STORE(&(a), (a), (o)), (void)0)
#define XV_A_RMW(op, a, v, o) (ENV_AT(a), xv_rmw_old = (uint64_t)(a), (a) = op((a), (v)), xv_clock++, \
    XV_ON_RMW(&(a), (__typeof__(a))xv_rmw_old, (a), (o)), (__typeof__(a))xv_rmw_old)
#define XV_A_CAS(w, a, e, d, s) (ENV_AT(a), xv_cas_ok = ((a) == *(e)) && !((w) && XV_SPURIOUS()), xv_clock++, \
    XV_ON_CAS(&(a), *(e), (d), xv_cas_ok, (s)), \
    (xv_cas_ok ? (void)((a) = (d)) : (void)(*(e) = (a))), xv_cas_ok)
#endif

/* ---- types: a thread_control_block* is an index into the pool (0 = null), a marked_ptr is (index << MarkBits) | mark ---- */
typedef uint64_t mptr;
typedef unsigned tcbp;
typedef size_t stamp_t;
struct tcb { mptr prev; mptr next; stamp_t stamp; uint64_t xv_pad; };   /* xv_pad: ghost padding, makes the block size a power of two (cheap offset -> index in the monitors) */
struct node { struct node* next_chunk; };
struct toq { tcbp head; tcbp tail; struct node* global_retired_nodes; };
#ifndef LMAX
#define LMAX 3u          /* shape: at most LMAX (1..4) blocks in the list */
#endif
#define NB (3u + LMAX)  /* tail, head, LMAX list blocks, one block outside */
#ifdef XV_INT
/* INT: the rely is much weaker than the algorithm's invariant, so pointers may lead anywhere: null / wild indices read a junk block, and the
 * code's own assert()s (which state parts of that invariant) are not checked */
#define NBX (NB + 1)
static unsigned tcb_ix(tcbp p) { return (p >= 1 && p <= NB) ? p - 1u : NB; }
#undef XV_XASSERT
#define XV_XASSERT(c) ((void)0)
#else
#define NBX NB
#define tcb_ix(p) ((tcbp)(p) - 1u)                  /* SEQ: dereferencing null (index 0) or a wild index is a bounds violation */
#endif
struct tcb pool[NBX];
#define TCB(p) (&pool[tcb_ix(p)])
#define MP_get(x) ((tcbp)((mptr)(x) >> MarkBits))
#define MP_mark(x) ((uintptr_t)((mptr)(x) & MarkMask))
#define MP_make2(p, m) ((((mptr)(p)) << MarkBits) | ((mptr)(m) & MarkMask))   /* the constructor trims the mark to MarkBits bits */
#define MP_make1(p) MP_make2(p, 0)                                              /* marked_ptr(T* p, uintptr_t mark = 0) */
#define MP_make(...) XV_PICK2(__VA_ARGS__, MP_make2, MP_make1)(__VA_ARGS__)
#define MP_reset(x) ((x) = 0)
#define MTCB(x) TCB(MP_get(x))
#define MARKED(w) ((MP_mark(w) & DeleteMark) != 0)
#define FLAGS(s) ((s) & (NotInList | PendingPush))
unsigned xv_iters;
#define XV_ITER() (xv_iters++)
unsigned alloc_n;
static tcbp xv_new_tcb(void) { tcbp p = ++alloc_n; pool[tcb_ix(p)].prev = 0; pool[tcb_ix(p)].next = 0; pool[tcb_ix(p)].stamp = 0; return p; }   /* new T(): value-initialised */
#define XV_NEW_TCB() xv_new_tcb()

/* ---- fixed roles (WLOG: the code compares block pointers only for equality and every block is havocked alike) ---- */
#define I_TAIL 1u
#define I_HEAD 2u
#define I_B0 3u          /* blocks in the list: I_B0 .. I_B0 + in_n - 1, oldest (next to tail) first */
#define I_X (I_B0 + LMAX) /* a block outside the list (the one pushed) */
#define B(i) (pool[(i) - 1u])
struct toq Q;
struct node npool[3];
static struct node* nondet_node(void) { unsigned k = nondet_uint(); return k < 3 ? &npool[k] : (struct node*)0; }

/* =========================================== monitors ===========================================
 * Every atomic access of the lowered text passes through these hooks.  They keep what this thread observed last (by load, by its own write,
 * or by the reload of a failed CAS) and assert the commit obligations at the access itself, so they are checked on every path of every run, SEQ and INT. */
enum { F_NONE = 0, F_PREV, F_NEXT, F_STAMP };
enum { OP_NONE = 0, OP_PUSH, OP_REMOVE, OP_CTOR, OP_OTHER };
int mon_op; tcbp mon_own;                             /* the operation running and the block it was called for */
static int cell_of(void* addr, unsigned* ix) {
  /* every atomic cell of the queue lives in the pool array: block index and field follow from the offset */
  if (!__CPROVER_same_object(addr, (void*)pool)) return F_NONE;
  size_t off = (size_t)__CPROVER_POINTER_OFFSET(addr);
  *ix = (unsigned)(off / sizeof(struct tcb));
  size_t fo = off % sizeof(struct tcb);
  return fo == offsetof(struct tcb, prev) ? F_PREV : fo == offsetof(struct tcb, next) ? F_NEXT : F_STAMP;
}
/* observation memory: the last four (cell, value) pairs this thread has seen - by a load, by its own write, or by the reload of a failed CAS.
 * (In the code every CAS comes at most three accesses after the read that produced its expected value.) */
void *h_a0, *h_a1, *h_a2, *h_a3; uint64_t h_v0, h_v1, h_v2, h_v3;
static void OBS_SET(void* addr, uint64_t v) { h_a3 = h_a2; h_v3 = h_v2; h_a2 = h_a1; h_v2 = h_v1; h_a1 = h_a0; h_v1 = h_v0; h_a0 = addr; h_v0 = v; }
/* at the head of the small CAS retry loops the cell was the very last thing observed (initial load, or reload of the failed CAS) */
static _Bool obs_is0(void* addr, uint64_t v) { return h_a0 == addr && h_v0 == v; }
/* the most recent observation of this cell is v */
static _Bool obs_is(void* addr, uint64_t v) {
  if (h_a0 == addr) return h_v0 == v;
  if (h_a1 == addr) return h_v1 == v;
  if (h_a2 == addr) return h_v2 == v;
  if (h_a3 == addr) return h_v3 == v;
  return 0;
}
uint64_t m_own_stamp_ld;                              /* last value loaded from the own block's stamp */
unsigned m_ls_ix, m_ls2_ix; uint64_t m_ls_val, m_ls2_val; size_t uts_guess;   /* the last two stamp loads (update_tail_stamp: last->stamp, then tail->stamp); the guess update_tail_stamp was called with */
/* head->stamp */
unsigned m_hs_rmw_n; uint64_t m_hs_old, m_hs_clk;
/* tail->stamp */
unsigned m_ts_write_n; uint64_t m_ts_new;
/* own block of push */
unsigned m_xs_store_n; uint64_t m_xs_val, m_xs_clk; int m_xs_order;
unsigned m_xp_store_n; uint64_t m_xp_val, m_xp_clk; int m_xp_order;
unsigned m_xn_store_n; uint64_t m_xn_val, m_xn_clk; int m_xn_order;
uint64_t m_hp_ld_clk;                                 /* last load of head->prev */
_Bool pub_done; uint64_t pub_hs_old, pub_clk, pub_e; unsigned pub_xs_n, pub_xp_n, pub_xn_n;   /* state at the CAS that made the block reachable from head */
unsigned m_own_stamp_store_n;                         /* remove: stores to the own stamp */
/* counters for canaries */
unsigned n_link_prev_ok, n_link_next_ok, n_mark_ok, n_help_ok, n_tail_ok, n_bump_ok, n_cas_fail;
/* global retired-node list */
struct node *g_obs, *g_cas_e, *g_cas_d, *g_xchg_old, *g_xchg_new, *g_last; unsigned g_cas_n, g_cas_ok_n, g_xchg_n, g_store_n; int g_cas_order, g_xchg_order;

static void havoc_obs(void); static mptr any_mptr(void); static void env_step(void);
#define ENV_HAVOC() do { env_step(); havoc_obs(); } while (0)
/* ---- loop cuts of the INT variants (sqi_*): invariants tie the loop-carried locals to what the thread has observed ---- */
#define XV_INV_SMF (obs_is0((void*)ptr_p, link) && MP_get(link) <= NB)
#define XV_HAVOC_SMF link = any_mptr(); ENV_HAVOC() /* writes: (*ptr_p) ptr_p */
#define XV_INV_MN (obs_is0((void*)&MTCB(block)->next, link) && MP_get(link) <= NB)
#define XV_HAVOC_MN link = any_mptr(); ENV_HAVOC() /* writes: MTCB(block)->next */
#define XV_INV_UTS (obs_is0((void*)&TCB(self->tail)->stamp, tail_stamp))
#define XV_HAVOC_UTS tail_stamp = nondet_size(); ENV_HAVOC() /* writes: TCB(self->tail)->stamp, reads stamp */
/* remove_from_prev_list / remove_from_next_list: `last` is only set together with an unmarked `next` (save_next_as_last moves next to the unmarked next_prev) */
#define XV_INV_RFPL ((MP_get(last) == 0 || !MARKED(*next_p)) && MP_get(*next_p) <= NB && MP_get(*prev_p) <= NB && MP_get(last) <= NB)
#define XV_HAVOC_RFPL (*next_p) = any_mptr(); (*prev_p) = any_mptr(); last = any_mptr(); xv_iters = nondet_uint(); ENV_HAVOC() /* writes: MTCB next_p prev_p prev next_prev */
#define XV_INV_RFNL ((MP_get(last) == 0 || !MARKED(next)) && MP_get(next) <= NB && MP_get(prev) <= NB && MP_get(last) <= NB)
#define XV_HAVOC_RFNL next = any_mptr(); prev = any_mptr(); last = any_mptr(); xv_iters = nondet_uint(); ENV_HAVOC() /* writes: MTCB prev next prev_next */
/* push, first loop: nothing published yet; next = head was stored with release before the loop */
#define XV_INV_PUSH1 (!pub_done && m_xn_store_n == 1 && MP_get(m_xn_val) == self->head && !MARKED(m_xn_val) && XV_IS_RELEASE(m_xn_order) && MP_get(head_prev) <= NB)
#define XV_HAVOC_PUSH1 head_prev = any_mptr(); my_prev = any_mptr(); stamp = nondet_size(); xv_iters = nondet_uint(); xv_clock = nondet_u64(); \
  m_hs_rmw_n = nondet_uint(); m_hs_old = nondet_u64(); m_hs_clk = nondet_u64(); m_xs_store_n = nondet_uint(); m_xs_val = nondet_u64(); m_xs_clk = nondet_u64(); m_xs_order = nondet_int(); \
  m_xp_store_n = nondet_uint(); m_xp_val = nondet_u64(); m_xp_clk = nondet_u64(); m_xp_order = nondet_int(); m_hp_ld_clk = nondet_u64(); n_cas_fail = nondet_uint(); \
  XV_ASSUME(xv_clock < (1ull << 60) && m_xs_store_n < 1000000 && m_xp_store_n < 1000000 && m_hs_rmw_n < 1000000); ENV_HAVOC(); TCB(block)->stamp = nondet_size() /* writes: prev, TCB(self->head)->stamp prev head */
/* push, second loop */
#define XV_INV_PUSH2 (obs_is0((void*)&MTCB(my_prev)->next, link) && MP_get(link) <= NB)
#define XV_HAVOC_PUSH2 link = any_mptr(); n_cas_fail = nondet_uint(); ENV_HAVOC() /* writes: MTCB(my_prev)->next */
/* add_to_global_retired_nodes */
struct node *g_first_arg, *g_last_arg;
#define XV_INV_ADDG (n == g_obs && first_chunk == g_first_arg && last_chunk == g_last_arg && g_cas_ok_n == 0 && g_store_n == 0 && g_xchg_n == 0)
#define XV_HAVOC_ADDG n = nondet_node(); last_chunk->next_chunk = nondet_node(); self->global_retired_nodes = nondet_node(); g_obs = nondet_node(); g_cas_n = nondet_uint()

static void sq_add_global2(struct toq* self, struct node* first_chunk, struct node* last_chunk);
static void sqi_add_global2(struct toq* self, struct node* first_chunk, struct node* last_chunk);
/* calls inside the INT variants */
#define SQI_add_global2 sqi_add_global2
#define SQI_mark_next sqi_mark_next
#define SQI_remove_or_skip_marked_block sqi_remove_or_skip_marked_block
#ifdef XV_STUB_CALLEES
/* run remove_int: the callees are contract stubs.  Under the INT rely their results are arbitrary well-typed values; what remove does with them is checked */
unsigned st_smf_n, st_rfpl_n, st_rfnl_n, st_uts_n; _Bool st_prev_marked, st_next_marked, st_marked_at_rfpl; int st_prev_order; _Bool st_rfpl_res; mptr st_rfpl_b, st_rfnl_b; size_t st_uts_stamp; uint64_t st_uts_clk;
static mptr st_set_mark_flag(mptr* ptr_p, int order) { if (mon_own && (void*)ptr_p == (void*)&pool[mon_own - 1u].prev) { st_prev_marked = 1; st_prev_order = order; } if (mon_own && (void*)ptr_p == (void*)&pool[mon_own - 1u].next) st_next_marked = 1; st_smf_n++; return any_mptr(); }
static _Bool st_remove_from_prev_list(mptr* prev_p, mptr b, mptr* next_p) { st_rfpl_n++; st_rfpl_b = b; st_marked_at_rfpl = st_prev_marked && st_next_marked; *prev_p = any_mptr(); *next_p = any_mptr(); st_rfpl_res = nondet_bool(); return st_rfpl_res; }
static void st_remove_from_next_list(mptr prev, mptr removed, mptr next) { st_rfnl_n++; st_rfnl_b = removed; }
static void st_update_tail_stamp(struct toq* self, size_t stamp) { st_uts_n++; st_uts_stamp = stamp; st_uts_clk = xv_clock; }
#define SQI_set_mark_flag st_set_mark_flag
#define SQI_remove_from_prev_list st_remove_from_prev_list
#define SQI_remove_from_next_list st_remove_from_next_list
#define SQI_update_tail_stamp st_update_tail_stamp
#else
#define SQI_set_mark_flag sqi_set_mark_flag
#define SQI_remove_from_prev_list sqi_remove_from_prev_list
#define SQI_remove_from_next_list sqi_remove_from_next_list
#define SQI_update_tail_stamp sqi_update_tail_stamp
#endif
#include "lowered.h"

static void mon_load(void* addr, uint64_t v, int o) {
  if (addr == (void*)&Q.global_retired_nodes) { g_obs = (struct node*)v; return; }
  OBS_SET(addr, v);
  if (addr == (void*)&B(I_HEAD).prev) m_hp_ld_clk = xv_clock;
  if (mon_own && addr == (void*)&B(mon_own).stamp) m_own_stamp_ld = v;
  { unsigned ix = 0; if (cell_of(addr, &ix) == F_STAMP) { m_ls2_ix = m_ls_ix; m_ls2_val = m_ls_val; m_ls_ix = ix; m_ls_val = v; } }
}
static void mon_store(void* addr, uint64_t v, int o) {
  if (addr == (void*)&Q.global_retired_nodes) { g_store_n++; return; }
  unsigned ix = 0; int f = cell_of(addr, &ix);
  /* plain stores only go to the caller's own block (push: next, stamp, prev, stamp; remove: stamp) - or anywhere inside the constructor */
  XV_OBL("stampq.store.own_only", mon_op == OP_CTOR || (ix + 1 == mon_own && (mon_op == OP_PUSH || (mon_op == OP_REMOVE && f == F_STAMP))));
  if (mon_op == OP_REMOVE) { XV_OBL("stampq.remove.flags_own_stamp", v == m_own_stamp_ld + NotInList && FLAGS(m_own_stamp_ld) == 0); m_own_stamp_store_n++; }   /* the stamp just read, plus NotInList */
  if (mon_op == OP_PUSH && ix + 1 == mon_own) {
    if (f == F_STAMP) { m_xs_store_n++; m_xs_val = v; m_xs_order = o; m_xs_clk = xv_clock; }
    if (f == F_PREV) { m_xp_store_n++; m_xp_val = v; m_xp_order = o; m_xp_clk = xv_clock; }
    if (f == F_NEXT) { m_xn_store_n++; m_xn_val = v; m_xn_order = o; m_xn_clk = xv_clock; }
  }
  OBS_SET(addr, v);
}
static void mon_rmw(void* addr, uint64_t oldv, uint64_t newv, int o) {
  if (addr == (void*)&Q.global_retired_nodes) { g_xchg_n++; g_xchg_old = (struct node*)oldv; g_xchg_new = (struct node*)newv; g_xchg_order = o; return; }
  /* the only read-modify-write is push's fetch_add on head->stamp: one increment, seq_cst (total order with head_stamp()) */
  XV_OBL("stampq.push.fresh_stamp", addr == (void*)&B(I_HEAD).stamp && mon_op == OP_PUSH && newv == oldv + StampInc && o == mo_seq_cst);
  m_hs_rmw_n++; m_hs_old = oldv; m_hs_clk = xv_clock;
  OBS_SET(addr, newv);
}
static void mon_cas(void* addr, uint64_t e, uint64_t d, _Bool ok, int o) {
  if (addr == (void*)&Q.global_retired_nodes) {
    g_cas_n++;
    XV_OBL("stampq.global.conserve", (struct node*)e == g_obs);                                   /* expected = the head value read */
    XV_OBL("stampq.global.conserve", g_last != 0 && g_last->next_chunk == (struct node*)e);       /* ... to which the chunk's last node is linked */
    if (ok) { g_cas_ok_n++; g_cas_e = (struct node*)e; g_cas_d = (struct node*)d; g_cas_order = o; g_obs = (struct node*)d; }
    else g_obs = Q.global_retired_nodes;
    return;
  }
  unsigned ix = 0; int f = cell_of(addr, &ix);
  /* L1: the expected value is what this thread saw in this very cell last */
  XV_OBL("stampq.cas.expected_read", obs_is(addr, e));
  if (f == F_STAMP) {
    if (ix + 1 == I_TAIL) {                           /* tail->stamp only grows, release */
      XV_OBL("stampq.cas.stamp_writes", d > e && XV_IS_RELEASE(o));
      /* the new value is the caller's guess or the stamp just read from the block tail->next points to - head's stamp (which runs ahead of the
       * blocks being inserted) only after head->prev's tag was renewed by a successful CAS, so that a push holding an older stamp must retry */
      XV_OBL("stampq.update_tail.source", d == uts_guess || (d == m_ls2_val && (m_ls2_ix + 1 != I_HEAD || n_bump_ok >= 1)));
#ifndef XV_INT
      XV_OBL("stampq.cas.stamp_writes", FLAGS(d) == 0);
#endif
      if (ok) { n_tail_ok++; m_ts_write_n++; m_ts_new = d; }
    } else {                                          /* helping: pending -> final, nothing else */
      XV_OBL("stampq.cas.stamp_writes", ix + 1 != I_HEAD && (e & PendingPush) != 0 && (e & NotInList) == 0 && d == e + (StampInc - PendingPush));
      if (ok) n_help_ok++;
    }
  } else {
    _Bool marking = !MARKED(e) && MARKED(d) && MP_get(e) == MP_get(d) && (MP_mark(e) | DeleteMark) == MP_mark(d);
    if (marking) { if (ok) n_mark_ok++; }
    else {
      /* L2: a CAS that redirects a link (or renews its tag) never touches a marked link, installs an unmarked one and moves the tag on */
      XV_OBL("stampq.cas.link_change", !MARKED(e) && !MARKED(d) && MP_mark(d) == ((MP_mark(e) + TagInc) & MarkMask));
      _Bool bump = (ix + 1 == I_HEAD && f == F_PREV && MP_get(d) == MP_get(e));                  /* update_tail_stamp renews head->prev's tag (relaxed is enough) */
      XV_OBL("stampq.cas.link_release", bump || XV_IS_RELEASE(o));
      if (ok) { if (bump) n_bump_ok++; else if (f == F_PREV) n_link_prev_ok++; else n_link_next_ok++; }
      if (mon_op == OP_PUSH && ix + 1 == I_HEAD && f == F_PREV) {
        /* publication: the CAS that makes the block reachable from head.  Before it: fetch_add, then the release store of the pending stamp
         * (= the fetched stamp with PendingPush), then head->prev re-read (= expected), then the release store of prev (= expected's block, clean),
         * next = head stored with release even earlier; the CAS itself is acq_rel; it happens once */
        XV_OBL("stampq.push.publish_order", MP_get(d) == mon_own && !pub_done);
        XV_OBL("stampq.push.publish_order", m_hs_rmw_n >= 1 && m_xs_store_n >= 1 && m_xs_clk > m_hs_clk && m_xs_val == m_hs_old - (StampInc - PendingPush) && XV_IS_RELEASE(m_xs_order));
        XV_OBL("stampq.push.publish_order", (m_xs_val & PendingPush) != 0 && (m_xs_val & NotInList) == 0);
        XV_OBL("stampq.push.publish_order", m_hp_ld_clk > m_xs_clk);
        XV_OBL("stampq.push.publish_order", m_xp_store_n >= 1 && m_xp_clk > m_xs_clk && MP_get(m_xp_val) == MP_get(e) && !MARKED(m_xp_val) && XV_IS_RELEASE(m_xp_order));
        XV_OBL("stampq.push.publish_order", m_xn_store_n >= 1 && MP_get(m_xn_val) == I_HEAD && !MARKED(m_xn_val) && XV_IS_RELEASE(m_xn_order));
        XV_OBL("stampq.push.publish_order", XV_IS_RELEASE(o) && XV_IS_ACQUIRE(o));
        if (ok) { pub_done = 1; pub_hs_old = m_hs_old; pub_clk = xv_clock; pub_e = e; pub_xs_n = m_xs_store_n; pub_xp_n = m_xp_store_n; pub_xn_n = m_xn_store_n; }
      }
    }
  }
  if (!ok) n_cas_fail++;
#ifdef XV_CANARY_RFPL     /* reachability of every kind of CAS inside the cut loop */
  if (ok && f == F_PREV && !MARKED(d)) XV_CANARY("rfpl_int.link_prev_cas");
  if (ok && f == F_NEXT && MARKED(d)) XV_CANARY("rfpl_int.mark_next_cas");
  if (ok && f == F_STAMP) XV_CANARY("rfpl_int.help_cas");
  if (!ok) XV_CANARY("rfpl_int.cas_failed");
#endif
#ifdef XV_CANARY_RFNL
  if (ok && f == F_PREV && !MARKED(d)) XV_CANARY("rfnl_int.link_prev_cas");
  if (ok && f == F_NEXT && !MARKED(d)) XV_CANARY("rfnl_int.link_next_cas");
  if (ok && f == F_NEXT && MARKED(d)) XV_CANARY("rfnl_int.mark_next_cas");
  if (ok && f == F_STAMP) XV_CANARY("rfnl_int.help_cas");
#endif
  OBS_SET(addr, ok ? d : *(uint64_t*)addr);                      /* what the thread knows afterwards: its own value, or the reload of the failed CAS */
}
static void* any_cell(void) {
  unsigned k = nondet_uint(), f = nondet_uint();
  if (k >= NBX) return (void*)0;
  return f == 0 ? (void*)&pool[k].prev : f == 1 ? (void*)&pool[k].next : (void*)&pool[k].stamp;
}
static void havoc_obs(void) { h_a0 = any_cell(); h_a1 = any_cell(); h_a2 = any_cell(); h_a3 = any_cell(); h_v0 = nondet_u64(); h_v1 = nondet_u64(); h_v2 = nondet_u64(); h_v3 = nondet_u64(); }
static void reset_monitors(void) {
  mon_op = OP_NONE; mon_own = 0; m_hs_rmw_n = 0; m_ts_write_n = 0; m_xs_store_n = m_xp_store_n = m_xn_store_n = 0; pub_done = 0; m_own_stamp_store_n = 0;
  m_hs_clk = 0; m_xs_clk = m_xp_clk = m_xn_clk = 0; m_hp_ld_clk = 0;
  n_link_prev_ok = n_link_next_ok = n_mark_ok = n_help_ok = n_tail_ok = n_bump_ok = n_cas_fail = 0;
  g_cas_n = g_cas_ok_n = g_xchg_n = g_store_n = 0; g_last = 0;
  xv_clock = 1; xv_iters = 0; xv_threw = 0; alloc_n = 0;
  havoc_obs();
}

/* =========================================== state =========================================== */
static mptr any_mptr(void) { mptr w = nondet_u64(); XV_ASSUME(MP_get(w) <= NB); return w; }
/* a stamp never carries both flags (PendingPush is set by push on a clean stamp and cleared before remove can set NotInList); head's and tail's stamps carry none */
static size_t any_stamp(void) { size_t v = nondet_size(); XV_ASSUME(FLAGS(v) != (NotInList | PendingPush)); return v; }
static void havoc_cells(void) {
  for (unsigned i = 0; i < NBX; i++) { pool[i].prev = any_mptr(); pool[i].next = any_mptr(); pool[i].stamp = any_stamp(); }
}
static void havoc_pool(void) {
  havoc_cells();
  Q.head = I_HEAD; Q.tail = I_TAIL; Q.global_retired_nodes = 0;
  reset_monitors();
}
/* ---- INT environment (rely): other threads write any well-typed value into any cell at any time, except:
 *   head->prev is never marked (head is never removed); head->stamp is free of flags and at least StampInc (it starts there and only push's fetch_add changes it);
 *   tail->stamp is free of flags; no stamp carries both flags;
 *   the stamp of the caller's own block belongs to the caller - others only help a published pending stamp to its final value */
_Bool env_on;
static void env_step(void) {
  size_t own = mon_own ? B(mon_own).stamp : 0;
  havoc_cells(); XV_ASSUME(!MARKED(B(I_HEAD).prev) && FLAGS(B(I_HEAD).stamp) == 0 && B(I_HEAD).stamp >= StampInc && FLAGS(B(I_TAIL).stamp) == 0);
  if (mon_own && (mon_op == OP_PUSH || mon_op == OP_REMOVE))
    B(mon_own).stamp = (mon_op == OP_PUSH && pub_done && (own & PendingPush) != 0 && nondet_bool()) ? own + (StampInc - PendingPush) : own;
}
#ifdef XV_INT
void xv_env(void) { }                                /* not used: the environment acts on the cell that is about to be accessed (env_val) */
static uint64_t env_val(void* addr, uint64_t cur) {
  if (!env_on) return cur;
  if (addr == (void*)&Q.global_retired_nodes) return (uint64_t)nondet_node();
  unsigned ix = 0; int f = cell_of(addr, &ix);
  if (f == F_PREV) { mptr w = any_mptr(); if (ix + 1 == I_HEAD) XV_ASSUME(!MARKED(w)); return w; }
  if (f == F_NEXT) return any_mptr();
  size_t sv = any_stamp();
  if (ix + 1 == I_HEAD) XV_ASSUME(FLAGS(sv) == 0 && sv >= StampInc);
  if (ix + 1 == I_TAIL) XV_ASSUME(FLAGS(sv) == 0);
  if (ix + 1 == mon_own && (mon_op == OP_PUSH || mon_op == OP_REMOVE))
    sv = (mon_op == OP_PUSH && pub_done && (cur & PendingPush) != 0 && nondet_bool()) ? cur + (StampInc - PendingPush) : cur;
  return sv;
}
#endif


/* =========================================== quiescent queue =========================================== */
unsigned in_mode, in_lmax, in_n, in_k; size_t in_s0, in_s1, in_s2, in_s3, in_hs, in_ts, in_xs; uint64_t in_xp, in_xn;
unsigned in_tp0, in_tp1, in_tp2, in_tp3, in_tn0, in_tn1, in_tn2, in_tn3, in_thp, in_ttn;        /* tags (marks without the delete bit) */
struct tcb snap[NBX];
#define CLEAN_TAG(t) ((t) & MarkMask & ~DeleteMark)
static size_t stamp_of(unsigned i) { return i == 0 ? in_s0 : i == 1 ? in_s1 : i == 2 ? in_s2 : in_s3; }
static unsigned ptag(unsigned i) { return i == 0 ? in_tp0 : i == 1 ? in_tp1 : i == 2 ? in_tp2 : in_tp3; }
static unsigned ntag(unsigned i) { return i == 0 ? in_tn0 : i == 1 ? in_tn1 : i == 2 ? in_tn2 : in_tn3; }
/* quiescent queue: tail <-> B0 <-> ... <-> B(n-1) <-> head, links consistent in both directions, no delete marks, arbitrary tags;
 * stamps strictly increasing from tail to head, free of flags; head->stamp above all of them; tail->stamp not above any of them */
static void build_quiescent(void) {
  in_n = nondet_uint(); XV_ASSUME(in_n <= LMAX); in_lmax = LMAX;
#ifdef XV_N
  XV_ASSUME(in_n == XV_N);
#endif
  in_s0 = nondet_size(); in_s1 = nondet_size(); in_s2 = nondet_size(); in_s3 = nondet_size(); in_hs = nondet_size(); in_ts = nondet_size();
  in_tp0 = nondet_uint(); in_tp1 = nondet_uint(); in_tp2 = nondet_uint(); in_tp3 = nondet_uint(); in_tn0 = nondet_uint(); in_tn1 = nondet_uint(); in_tn2 = nondet_uint(); in_tn3 = nondet_uint();
  in_thp = nondet_uint(); in_ttn = nondet_uint();
  XV_ASSUME(FLAGS(in_hs) == 0 && FLAGS(in_ts) == 0 && in_hs >= StampInc && in_hs <= SIZE_MAX - 4 * StampInc);
  size_t lowest = in_hs;
  for (unsigned i = LMAX; i-- > 0;) if (i < in_n) { XV_ASSUME(FLAGS(stamp_of(i)) == 0 && stamp_of(i) < lowest && stamp_of(i) >= StampInc); lowest = stamp_of(i); }
  XV_ASSUME(in_ts <= lowest);
  tcbp older = I_TAIL;
  for (unsigned i = 0; i < LMAX; i++) if (i < in_n) {
    B(I_B0 + i).stamp = stamp_of(i);
    B(I_B0 + i).prev = MP_make(older, CLEAN_TAG(ptag(i)));
    B(older).next = MP_make(I_B0 + i, CLEAN_TAG(older == I_TAIL ? in_ttn : ntag(i - 1)));
    older = I_B0 + i;
  }
  B(older).next = MP_make(I_HEAD, CLEAN_TAG(older == I_TAIL ? in_ttn : ntag(in_n - 1)));
  B(I_HEAD).prev = MP_make(older, CLEAN_TAG(in_thp));
  B(I_HEAD).stamp = in_hs; B(I_TAIL).stamp = in_ts;
  B(I_HEAD).next = 0; B(I_TAIL).prev = 0;              /* never written after construction */
}
static void take_snap(void) { for (unsigned i = 0; i < NBX; i++) snap[i] = pool[i]; }
static _Bool same(unsigned idx) { return B(idx).prev == snap[idx - 1].prev && B(idx).next == snap[idx - 1].next && B(idx).stamp == snap[idx - 1].stamp; }

/* expected contents after the operation, oldest first */
tcbp exp_seq[LMAX + 1]; unsigned exp_n;
static _Bool links_ok(void) {
  tcbp older = I_TAIL;
  for (unsigned i = 0; i < LMAX + 1; i++) if (i < exp_n) {
    tcbp b = exp_seq[i];
    if (MP_get(B(b).prev) != older || MARKED(B(b).prev)) return 0;
    if (MP_get(B(older).next) != b || MARKED(B(older).next)) return 0;
    older = b;
  }
  return MP_get(B(I_HEAD).prev) == older && !MARKED(B(I_HEAD).prev) && MP_get(B(older).next) == I_HEAD && !MARKED(B(older).next)
         && B(I_HEAD).next == 0 && B(I_TAIL).prev == 0;
}
static _Bool stamps_ok(void) {
  size_t lo = B(I_TAIL).stamp;
  if (FLAGS(lo) || FLAGS(B(I_HEAD).stamp)) return 0;
  for (unsigned i = 0; i < LMAX + 1; i++) if (i < exp_n) {
    size_t s = B(exp_seq[i]).stamp;
    if (FLAGS(s)) return 0;
    if (i == 0 ? s < lo : s <= lo) return 0;
    lo = s;
  }
  return exp_n == 0 ? lo <= B(I_HEAD).stamp : lo < B(I_HEAD).stamp;
}
/* tail_stamp() <= stamp of every block in the list < head_stamp(), through the real accessors */
static _Bool bounds_ok(void) {
  stamp_t t = sq_tail_stamp(&Q), h = sq_head_stamp(&Q);
  for (unsigned i = 0; i < LMAX + 1; i++) if (i < exp_n) { if (!(t <= B(exp_seq[i]).stamp && B(exp_seq[i]).stamp < h)) return 0; }
  return t <= h;
}

/* =========================================== step 1: encoding, pure helpers, stamps =========================================== */
static _Bool pow2(uint64_t v) { return v != 0 && (v & (v - 1)) == 0; }
void h_encoding(void) {
  /* the three flag/increment constants share the stamp word: two flag bits below the increment */
  XV_OBL("stampq.encoding.flags", pow2(NotInList) && pow2(PendingPush) && pow2(StampInc) && NotInList != PendingPush && (NotInList | PendingPush) < StampInc);
  XV_OBL("stampq.encoding.flags", DeleteMark == 1 && pow2(TagInc) && TagInc > DeleteMark && MarkMask == (((uint64_t)1 << MarkBits) - 1) && TagInc <= MarkMask && MarkBits < 32);
  size_t s = nondet_size(); XV_ASSUME(FLAGS(s) == 0 && (s & (StampInc - 1)) == 0 && s >= StampInc && s <= SIZE_MAX - StampInc);
  size_t p = s - (StampInc - PendingPush);            /* push's pending stamp for the fetched stamp s */
  XV_OBL("stampq.encoding.flags", (p & PendingPush) != 0 && (p & NotInList) == 0 && p < s && p > s - StampInc && p + (StampInc - PendingPush) == s);
  XV_OBL("stampq.encoding.flags", ((s + NotInList) & NotInList) != 0 && ((s + NotInList) & PendingPush) == 0 && s + NotInList < s + StampInc);
  XV_CANARY("encoding.done");
}
void h_marks(void) {
  havoc_pool(); mon_op = OP_OTHER;
  tcbp p = nondet_uint(); XV_ASSUME(p <= NB); mptr m = nondet_u64();
  mptr r = sq_make_marked(p, m);
  /* same delete bit, tag moved on by one (mod 2^(MarkBits-1)), new pointer */
  XV_OBL("stampq.marks.tag_inc", MP_get(r) == p && MP_mark(r) == ((MP_mark(m) + TagInc) & MarkMask) && MARKED(r) == MARKED(m) && MP_mark(r) != MP_mark(m));
  unsigned b = nondet_uint(); XV_ASSUME(b >= 1 && b <= NB); _Bool use_next = nondet_bool(); take_snap();
  mptr c0 = use_next ? B(b).next : B(b).prev;
  mptr r2 = sq_make_clean_marked(p, use_next ? &B(b).next : &B(b).prev);
  XV_OBL("stampq.marks.tag_inc", MP_get(r2) == p && !MARKED(r2) && MP_mark(r2) == ((MP_mark(c0) + TagInc) & MarkMask & ~(uintptr_t)DeleteMark) && MP_mark(r2) != (MP_mark(c0) & ~(uintptr_t)DeleteMark));
  unsigned j = nondet_uint(); XV_ASSUME(j >= 1 && j <= NB);
  XV_OBL("stampq.marks.tag_inc", same(j));
  if (MARKED(c0)) XV_CANARY("marks.clean_of_marked"); else XV_CANARY("marks.clean_of_clean");
}
void h_stamps(void) {
  havoc_pool(); mon_op = OP_OTHER; take_snap();
  uint64_t c0 = xv_clock;
  stamp_t h = sq_head_stamp(&Q);
  XV_OBL("stampq.head_stamp.reads", h == snap[I_HEAD - 1].stamp && xv_clock == c0 + 1);     /* exactly one atomic access: the load of head->stamp */
  stamp_t t = sq_tail_stamp(&Q);
  XV_OBL("stampq.tail_stamp.reads", t == snap[I_TAIL - 1].stamp && xv_clock == c0 + 2);
  unsigned j = nondet_uint(); XV_ASSUME(j >= 1 && j <= NB);
  XV_OBL("stampq.head_stamp.reads", same(j));
  XV_CANARY("stamps.done");
}
/* the 32 annotated synchronisation points: each order in the text is at least what its comment says */
void h_sync(void) {
  XV_OBL("stampq.sync.push", XV_IS_RELEASE(ORD_1) && ORD_2 == mo_seq_cst && XV_IS_RELEASE(ORD_3) && XV_IS_RELEASE(ORD_4));
  XV_OBL("stampq.sync.push", XV_IS_RELEASE(ORD_5) && XV_IS_ACQUIRE(ORD_5) && XV_IS_RELEASE(ORD_6) && XV_IS_ACQUIRE(ORD_7) && XV_IS_RELEASE(ORD_8) && XV_IS_ACQUIRE(ORD_8f));
  XV_OBL("stampq.sync.remove", XV_IS_RELEASE(ORD_9) && XV_IS_ACQUIRE(ORD_9));
  XV_OBL("stampq.sync.remove", XV_IS_ACQUIRE(ORD_17) && XV_IS_ACQUIRE(ORD_18) && XV_IS_ACQUIRE(ORD_19) && XV_IS_ACQUIRE(ORD_20) && XV_IS_RELEASE(ORD_21));
  XV_OBL("stampq.sync.remove", XV_IS_ACQUIRE(ORD_22) && XV_IS_ACQUIRE(ORD_23) && XV_IS_ACQUIRE(ORD_24) && XV_IS_ACQUIRE(ORD_25) && XV_IS_ACQUIRE(ORD_26) && XV_IS_RELEASE(ORD_27));
  XV_OBL("stampq.sync.remove", XV_IS_RELEASE(ORD_28) && XV_IS_ACQUIRE(ORD_29) && XV_IS_ACQUIRE(ORD_30) && XV_IS_ACQUIRE(ORD_31) && XV_IS_ACQUIRE(ORD_32f));
  XV_OBL("stampq.sync.stamps", ORD_12 == mo_seq_cst && XV_IS_ACQUIRE(ORD_13) && XV_IS_ACQUIRE(ORD_14) && XV_IS_ACQUIRE(ORD_15) && XV_IS_RELEASE(ORD_16));
  XV_OBL("stampq.sync.global", XV_IS_RELEASE(ORD_10) && XV_IS_ACQUIRE(ORD_11));
  XV_CANARY("sync.done");
}
/* set_mark_flag / mark_next on an arbitrary cell */
void h_mark(void) {
  havoc_pool(); mon_op = OP_OTHER;
  unsigned b = nondet_uint(); XV_ASSUME(b >= 1 && b <= NB); take_snap();
  unsigned j = nondet_uint(); XV_ASSUME(j >= 1 && j <= NB && j != b);
  if (nondet_bool()) {
    _Bool use_next = nondet_bool(); int order = nondet_bool() ? mo_acq_rel : mo_relaxed;
    mptr w0 = use_next ? B(b).next : B(b).prev;
    mptr r = sq_set_mark_flag(use_next ? &B(b).next : &B(b).prev, order);
    mptr w1 = use_next ? B(b).next : B(b).prev;
    XV_OBL("stampq.set_mark_flag.marks", r == w0 && MARKED(w1) && MP_get(w1) == MP_get(w0) && MP_mark(w1) == (MP_mark(w0) | DeleteMark));
    XV_OBL("stampq.set_mark_flag.marks", B(b).stamp == snap[b - 1].stamp && (use_next ? B(b).prev == snap[b - 1].prev : B(b).next == snap[b - 1].next) && same(j));
    XV_OBL("stampq.set_mark_flag.marks", n_mark_ok == (MARKED(w0) ? 0u : 1u));
    if (MARKED(w0)) XV_CANARY("mark.set_already"); else XV_CANARY("mark.set_new");
  } else {
    size_t s = nondet_size(); XV_ASSUME(FLAGS(s) == 0);
    _Bool r = sq_mark_next(MP_make(b, nondet_uint()), s);
    XV_OBL("stampq.mark_next.marks", r == (snap[b - 1].stamp == s));
    if (r) XV_OBL("stampq.mark_next.marks", MARKED(B(b).next) && MP_get(B(b).next) == MP_get(snap[b - 1].next) && MP_mark(B(b).next) == (MP_mark(snap[b - 1].next) | DeleteMark));
    else XV_OBL("stampq.mark_next.marks", B(b).next == snap[b - 1].next && n_mark_ok == 0);
    XV_OBL("stampq.mark_next.marks", B(b).stamp == snap[b - 1].stamp && B(b).prev == snap[b - 1].prev && same(j));
    if (r) XV_CANARY("mark.next_true"); else XV_CANARY("mark.next_false");
  }
}
/* constructor: an empty, well-formed queue */
void h_ctor(void) {
  havoc_pool(); Q.head = nondet_uint(); Q.tail = nondet_uint(); mon_op = OP_CTOR;
  sq_ctor(&Q);
  XV_OBL("stampq.ctor.empty_queue", alloc_n == 2 && Q.head != Q.tail && Q.head >= 1 && Q.head <= 2 && Q.tail >= 1 && Q.tail <= 2);
  XV_OBL("stampq.ctor.empty_queue", B(Q.tail).next == MP_make(Q.head, 0) && B(Q.head).prev == MP_make(Q.tail, 0) && B(Q.head).next == 0 && B(Q.tail).prev == 0);
  XV_OBL("stampq.ctor.empty_queue", B(Q.head).stamp == StampInc && B(Q.tail).stamp == StampInc);
  XV_CANARY("ctor.done");
}

/* =========================================== step 2: push / remove, SEQ =========================================== */
static void check_push_post(void) {
  /* after the publishing CAS: exactly one more store, the final stamp (release); prev/next of the block are not stored to again */
  XV_OBL("stampq.push.publish_order", pub_done && m_xs_store_n == pub_xs_n + 1 && m_xp_store_n == pub_xp_n && m_xn_store_n == pub_xn_n);
  XV_OBL("stampq.push.publish_order", m_xs_clk > pub_clk && m_xs_val == pub_hs_old && XV_IS_RELEASE(m_xs_order) && FLAGS(m_xs_val) == 0);
}
void h_push(void) {
  havoc_pool(); build_quiescent(); in_mode = 1;
  in_xs = B(I_X).stamp; in_xp = B(I_X).prev; in_xn = B(I_X).next;      /* the block pushed: outside, arbitrary leftovers of its previous life */
  take_snap(); mon_op = OP_PUSH; mon_own = I_X;
  tcbp newest = in_n ? I_B0 + in_n - 1 : I_TAIL;
  sq_push(&Q, I_X);
  /* fresh stamp: the value head->stamp had, which is above everything handed out before; head->stamp moved on by one increment, once */
  XV_OBL("stampq.push.fresh_stamp", B(I_X).stamp == in_hs && B(I_HEAD).stamp == in_hs + StampInc);
  XV_OBL("stampq.push.fresh_stamp", m_hs_rmw_n == 1 && m_hs_old == in_hs);
  for (unsigned i = 0; i < LMAX; i++) if (i < in_n) XV_OBL("stampq.push.fresh_stamp", B(I_X).stamp > B(I_B0 + i).stamp);
  /* linked at the head end, list well-formed */
  for (unsigned i = 0; i < LMAX; i++) exp_seq[i] = I_B0 + i;
  exp_seq[in_n] = I_X; exp_n = in_n + 1;
  XV_OBL("stampq.push.links", links_ok());
  XV_OBL("stampq.push.links", stamps_ok());
  /* frame: only head->prev, head->stamp, the old newest block's next and the block itself are written */
  unsigned j = nondet_uint(); XV_ASSUME(j >= 1 && j <= NB && j != I_X && j != I_HEAD);
  XV_OBL("stampq.push.links", B(j).prev == snap[j - 1].prev && B(j).stamp == snap[j - 1].stamp && (j == newest || B(j).next == snap[j - 1].next));
  XV_OBL("stampq.push.links", B(newest).next != snap[newest - 1].next && B(I_HEAD).prev != snap[I_HEAD - 1].prev);   /* tags moved on */
  check_push_post();
  XV_OBL("stampq.tail_stamp.lower_bound", bounds_ok() && m_ts_write_n == 0);
  XV_OBL("stampq.push.terminates", xv_iters == 1 && n_cas_fail == 0);
  if (in_n == 0) XV_CANARY("push.empty");
  if (in_n == LMAX) XV_CANARY("push.full");
}
void h_remove(void) {
  havoc_pool(); build_quiescent(); in_mode = 2;
  in_k = nondet_uint(); XV_ASSUME(in_n >= 1 && in_k < in_n);
  take_snap();
  tcbp r = I_B0 + in_k; size_t my = B(r).stamp; mon_op = OP_REMOVE; mon_own = r; uts_guess = my + StampInc;
  _Bool res = sq_remove(&Q, MP_make(r, 0));          /* remove(marked_ptr block) is called with the raw control block pointer */
  exp_n = 0; for (unsigned i = 0; i < LMAX; i++) if (i < in_n && i != in_k) exp_seq[exp_n++] = I_B0 + i;
  XV_OBL("stampq.remove.unlinks", links_ok());
  XV_OBL("stampq.remove.unlinks", stamps_ok());
  /* the removed block: flagged NotInList, both links carry the delete mark, still pointing to its former neighbours */
  XV_OBL("stampq.remove.unlinks", B(r).stamp == my + NotInList && MARKED(B(r).prev) && MARKED(B(r).next) && m_own_stamp_store_n == 1);
  XV_OBL("stampq.remove.unlinks", MP_get(B(r).prev) == MP_get(snap[r - 1].prev) && MP_get(B(r).next) == MP_get(snap[r - 1].next));
  /* frame: stamps of all other blocks and of head unchanged; blocks that were not neighbours are untouched; outside blocks untouched */
  unsigned j = nondet_uint(); XV_ASSUME(j >= 1 && j <= NB && j != r);
  if (j != I_TAIL) XV_OBL("stampq.remove.unlinks", B(j).stamp == snap[j - 1].stamp);
  if (j != MP_get(snap[r - 1].prev) && j != MP_get(snap[r - 1].next) && j != I_HEAD && j != I_TAIL) XV_OBL("stampq.remove.unlinks", same(j));
  XV_OBL("stampq.remove.unlinks", m_hs_rmw_n == 0 && n_link_prev_ok == 1 && n_link_next_ok == 1 && n_mark_ok == 2);
  /* result: true iff the block was the tail-most one */
  XV_OBL("stampq.remove.last_iff", res == (in_k == 0));
  if (res) {
    /* the tail stamp advances beyond the removed block's stamp: to the stamp of the new tail-most block, or - when the list became empty -
     * to head->stamp or to the removed stamp + StampInc (the code takes head's stamp only if it is more than one increment ahead) */
    size_t t = B(I_TAIL).stamp;
    XV_OBL("stampq.remove.last_iff", t >= my + StampInc && t >= in_ts);
    if (in_n > 1) XV_OBL("stampq.remove.last_iff", t == B(I_B0 + 1).stamp);
    else XV_OBL("stampq.remove.last_iff", t == in_hs || (t == my + StampInc && t + StampInc == in_hs));
    XV_OBL("stampq.remove.last_iff", m_ts_write_n == 1 && m_ts_new == t);
    if (in_n > 1) XV_CANARY("remove.last_nonempty"); else XV_CANARY("remove.last_empty");
    if (in_n == 1 && t == in_hs && my + StampInc < in_hs) { XV_OBL("stampq.update_tail.source", n_bump_ok == 1 && B(I_HEAD).prev != snap[I_HEAD - 1].prev); XV_CANARY("remove.last_empty_head_stamp"); }
  } else {
    XV_OBL("stampq.remove.last_iff", B(I_TAIL).stamp == in_ts && m_ts_write_n == 0);
    if (in_k == in_n - 1) XV_CANARY("remove.newest"); else XV_CANARY("remove.middle");
  }
  XV_OBL("stampq.tail_stamp.lower_bound", bounds_ok());
  XV_OBL("stampq.remove.terminates", xv_iters == 2 && n_cas_fail == 0);
}

/* =========================================== global retired-node list =========================================== */
struct node* nsnap[3];
void h_global(void) {
  havoc_pool(); mon_op = OP_OTHER;
  for (unsigned i = 0; i < 3; i++) { npool[i].next_chunk = nondet_node(); nsnap[i] = npool[i].next_chunk; }
  struct node* g0 = nondet_node(); Q.global_retired_nodes = g0; g_obs = nondet_node();
  unsigned j = nondet_uint(); XV_ASSUME(j < 3);
  unsigned op = nondet_uint();
  if (op == 0) {
    struct node* first = nondet_node(); struct node* last = nondet_node(); XV_ASSUME(first != 0 && last != 0);
    g_last = last; g_first_arg = first; g_last_arg = last;
    sq_add_global2(&Q, first, last);
    /* the whole chunk list first..last goes in front: last is linked to the old head, head becomes first, nothing else is written */
    XV_OBL("stampq.global.conserve", Q.global_retired_nodes == first && last->next_chunk == g0 && (&npool[j] == last || npool[j].next_chunk == nsnap[j]));
    XV_OBL("stampq.global.conserve", g_cas_ok_n == 1 && g_cas_e == g0 && g_cas_d == first && g_store_n == 0 && g_xchg_n == 0 && XV_IS_RELEASE(g_cas_order));
    if (g0) XV_CANARY("global.add_nonempty"); else XV_CANARY("global.add_empty");
  } else if (op == 1) {
    struct node* c = nondet_node(); XV_ASSUME(c != 0); g_last = c; g_first_arg = c; g_last_arg = c;
    sq_add_global1(&Q, c);
    XV_OBL("stampq.global.conserve", Q.global_retired_nodes == c && c->next_chunk == g0 && (&npool[j] == c || npool[j].next_chunk == nsnap[j]) && g_cas_ok_n == 1 && g_cas_d == c);
    XV_CANARY("global.add_single");
  } else {
    struct node* r = sq_steal_global(&Q);
    /* everything is taken by one exchange; the nodes themselves are not touched */
    XV_OBL("stampq.global.conserve", r == g0 && Q.global_retired_nodes == 0 && npool[j].next_chunk == nsnap[j] && g_store_n == 0 && g_cas_n == 0);
    if (g0) { XV_OBL("stampq.global.conserve", g_xchg_n == 1 && g_xchg_old == g0 && g_xchg_new == 0 && XV_IS_ACQUIRE(g_xchg_order)); XV_CANARY("global.steal_some"); }
    else { XV_OBL("stampq.global.conserve", g_xchg_n == 0); XV_CANARY("global.steal_none"); }
  }
}

/* =========================================== step 3: INT (interference) =========================================== */
static void int_start(void);
void h_global_int(void) {
#ifdef XV_INT
  havoc_pool(); mon_op = OP_OTHER;
  for (unsigned i = 0; i < 3; i++) { npool[i].next_chunk = nondet_node(); nsnap[i] = npool[i].next_chunk; }
  Q.global_retired_nodes = nondet_node(); g_obs = nondet_node();
  unsigned j = nondet_uint(); XV_ASSUME(j < 3);
  if (nondet_bool()) {
    struct node* first = nondet_node(); struct node* last = nondet_node(); XV_ASSUME(first != 0 && last != 0);
    g_last = last; g_first_arg = first; g_last_arg = last;
    env_on = 1; sqi_add_global2(&Q, first, last); env_on = 0;
    /* exactly one successful CAS; at that moment last->next_chunk was the expected value (asserted in the monitor) and the new head is first;
     * no plain store / exchange on the head; afterwards the chunk's link is not written again; other nodes untouched */
    XV_OBL("stampq.global.conserve", g_cas_ok_n == 1 && g_cas_d == first && g_store_n == 0 && g_xchg_n == 0 && XV_IS_RELEASE(g_cas_order));
    XV_OBL("stampq.global.conserve", last->next_chunk == g_cas_e && (&npool[j] == last || npool[j].next_chunk == nsnap[j]));
    XV_CANARY("global_int.add_done");
    if (g_cas_n > 1) XV_CANARY("global_int.add_retried");
  } else {
    env_on = 1; struct node* r = sq_steal_global(&Q); env_on = 0;
    /* the result is exactly what the single exchange replaced by null - or null without any write */
    XV_OBL("stampq.global.conserve", g_cas_n == 0 && g_store_n == 0 && g_xchg_n <= 1 && npool[j].next_chunk == nsnap[j]);
    if (g_xchg_n) XV_OBL("stampq.global.conserve", r == g_xchg_old && g_xchg_new == 0 && XV_IS_ACQUIRE(g_xchg_order));
    else XV_OBL("stampq.global.conserve", r == 0);
    if (r) XV_CANARY("global_int.steal_some"); else XV_CANARY("global_int.steal_none");
    if (g_xchg_n && r == 0) XV_CANARY("global_int.steal_raced");
  }
#endif
}
void h_push_int(void) {
#ifdef XV_INT
  int_start();
  mon_op = OP_PUSH; mon_own = I_X; env_on = 1;
  sqi_push(&Q, I_X);
  env_on = 0;
  check_push_post();
  /* under the ownership rely the block ends with the stamp it fetched, free of flags */
  XV_OBL("stampq.push.fresh_stamp", B(I_X).stamp == pub_hs_old && m_hs_rmw_n >= 1);
  XV_CANARY("push_int.done");
  if (n_link_next_ok) XV_CANARY("push_int.linked_next");
  if (n_link_next_ok == 0) XV_CANARY("push_int.next_left_to_helpers");
#endif
}
static void int_start(void) { havoc_pool(); XV_ASSUME(!MARKED(B(I_HEAD).prev) && FLAGS(B(I_HEAD).stamp) == 0 && B(I_HEAD).stamp >= StampInc && FLAGS(B(I_TAIL).stamp) == 0); mon_op = OP_OTHER; }
void h_mark_int(void) {
#ifdef XV_INT
  int_start();
  unsigned b = nondet_uint(); XV_ASSUME(b >= 1 && b <= NB);
  if (nondet_bool()) {
    _Bool use_next = nondet_bool(); int order = nondet_bool() ? mo_acq_rel : mo_relaxed;
    env_on = 1; mptr r = sqi_set_mark_flag(use_next ? &B(b).next : &B(b).prev, order); env_on = 0;
    /* all writes were marking CASes (monitor); the value returned is what the cell held when it was found marked or got marked */
    XV_OBL("stampq.set_mark_flag.marks", n_link_prev_ok + n_link_next_ok + n_bump_ok + n_help_ok + n_tail_ok == 0 && n_mark_ok <= 1 && (n_mark_ok == 1 || MARKED(r)));
    if (n_mark_ok) XV_CANARY("mark_int.set_new"); else XV_CANARY("mark_int.set_already");
  } else {
    size_t s = nondet_size();
    env_on = 1; _Bool r = sqi_mark_next(MP_make(b, nondet_uint()), s); env_on = 0;
    XV_OBL("stampq.mark_next.marks", n_link_prev_ok + n_link_next_ok + n_bump_ok + n_help_ok + n_tail_ok == 0 && n_mark_ok <= 1 && (r || n_mark_ok == 0));
    if (r) XV_CANARY("mark_int.next_true"); else XV_CANARY("mark_int.next_false");
  }
#endif
}
void h_uts_int(void) {
#ifdef XV_INT
  int_start();
  size_t st = nondet_size(); uts_guess = st;
  env_on = 1; sqi_update_tail_stamp(&Q, st); env_on = 0;
  XV_OBL("stampq.cas.stamp_writes", n_link_prev_ok + n_link_next_ok + n_mark_ok + n_help_ok == 0 && n_tail_ok <= 1 && n_bump_ok <= 1);
  if (n_tail_ok) XV_CANARY("uts_int.raised"); else XV_CANARY("uts_int.not_raised");
  if (n_bump_ok) XV_CANARY("uts_int.head_prev_bump");
#endif
}
void h_rfpl_int(void) {
#ifdef XV_INT
  int_start();
  mptr prev = any_mptr(), next = any_mptr(); tcbp b = nondet_uint(); XV_ASSUME(b >= 1 && b <= NB);
  env_on = 1; _Bool r = sqi_remove_from_prev_list(&prev, MP_make(b, 0), &next); env_on = 0;
  XV_OBL("stampq.cas.link_change", MP_get(prev) <= NB && MP_get(next) <= NB);
  if (r) XV_CANARY("rfpl_int.true"); else XV_CANARY("rfpl_int.false");
#endif
}
void h_rfnl_int(void) {
#ifdef XV_INT
  int_start();
  mptr prev = any_mptr(), next = any_mptr(); tcbp b = nondet_uint(); XV_ASSUME(b >= 1 && b <= NB);
  env_on = 1; sqi_remove_from_next_list(prev, MP_make(b, 0), next); env_on = 0;
  XV_CANARY("rfnl_int.done");
#endif
}
void h_remove_int(void) {
#if defined(XV_INT) && defined(XV_STUB_CALLEES)
  int_start();
  tcbp r = nondet_uint(); XV_ASSUME(r >= I_B0 && r <= NB && FLAGS(B(r).stamp) == 0);
  mon_op = OP_REMOVE; mon_own = r; env_on = 1; size_t my = B(r).stamp; st_smf_n = st_rfpl_n = st_rfnl_n = st_uts_n = 0; st_prev_marked = st_next_marked = st_marked_at_rfpl = 0;
  _Bool res = sqi_remove(&Q, MP_make(r, 0));
  env_on = 0;
  /* marks its own prev (acq_rel: sync point 9) and its own next before it starts unlinking; next list only if the prev list did not report "fully removed" */
  XV_OBL("stampq.remove.flags_own_stamp", st_marked_at_rfpl && XV_IS_RELEASE(st_prev_order) && XV_IS_ACQUIRE(st_prev_order));
  XV_OBL("stampq.remove.flags_own_stamp", st_rfpl_n == 1 && MP_get(st_rfpl_b) == r && st_rfnl_n == (st_rfpl_res ? 0u : 1u) && (st_rfnl_n == 0 || MP_get(st_rfnl_b) == r));
  XV_OBL("stampq.remove.flags_own_stamp", m_own_stamp_store_n == 1 && B(r).stamp == my + NotInList);
  /* the tail stamp is only touched by the remover that reports "was last", with its own stamp + StampInc as the guess, after the own stamp was flagged */
  XV_OBL("stampq.remove.last_iff", st_uts_n == (res ? 1u : 0u) && (!res || st_uts_stamp == my + StampInc));
  if (res) XV_CANARY("remove_int.true"); else XV_CANARY("remove_int.false");
#endif
}

/* =========================================== step 2b: mid-operation states (other threads stalled), SEQ ===========================================
 * A quiescent queue of 1..3 blocks in which up to two other threads are stalled in the middle of an operation:
 *   in_pend = 1: the pusher of the newest block P stalled right after the publishing CAS: P carries its pending stamp, its predecessor's next still says head
 *   in_pend = 2: ... stalled after storing the final stamp, before linking the predecessor's next (a lagging next link)
 *   in_d = d+1, in_dst: the remover of block d stalled   1: after marking prev   2: after marking next too   3: after unlinking d from the prev list
 *                                                       4: after unlinking d from the next list as well (NotInList not yet set)
 * The stalled blocks are not adjacent to each other.  From such a state one more thread runs push or remove to completion, alone (C16: solo termination). */
unsigned in_pend, in_d, in_dst, in_op;
#define FINAL(s) ((s) + (((s) & PendingPush) ? StampInc - PendingPush : 0))     /* the stamp a block has or - while its push is pending - is about to get */
static tcbp older_of(unsigned i) { return i == 0 ? I_TAIL : I_B0 + i - 1; }
static tcbp newer_of(unsigned i) { return i + 1 == in_n ? I_HEAD : I_B0 + i + 1; }
static void build_mid(void) {
  build_quiescent(); XV_ASSUME(in_n >= 1);
  in_pend = nondet_uint(); in_d = nondet_uint(); in_dst = nondet_uint();
  XV_ASSUME(in_pend <= 2 && in_d <= in_n && in_dst >= 1 && in_dst <= 4);
  if (in_pend) {
    tcbp p = I_B0 + in_n - 1, o = older_of(in_n - 1);
    B(o).next = MP_make(I_HEAD, MP_mark(B(o).next));                                  /* the predecessor's next was not yet moved to P */
    if (in_pend == 1) B(p).stamp = B(p).stamp - (StampInc - PendingPush);
    XV_ASSUME(in_d == 0 || in_d - 1 + 2 < in_n);                                       /* the stalled remover's block is neither P nor P's predecessor */
  }
  if (in_d) {
    unsigned d = in_d - 1; tcbp D = I_B0 + d, o = older_of(d), nw = newer_of(d);
    B(D).prev |= DeleteMark;
    if (in_dst >= 2) B(D).next |= DeleteMark;
    if (in_dst >= 3) B(nw).prev = MP_make(o, MP_mark(B(nw).prev) + TagInc);
    if (in_dst >= 4) B(o).next = MP_make(nw, MP_mark(B(o).next) + TagInc);
  }
}
/* the prev chain from head: strictly decreasing stamps, ends at tail, contains every block of `must` (bit i = list block i, bit LMAX = X), nothing of `never` */
static _Bool prev_chain_ok(unsigned must, unsigned never) {
  tcbp cur = I_HEAD; size_t last = B(I_HEAD).stamp; unsigned seen = 0;
  for (unsigned step = 0; step < LMAX + 3; step++) {
    if (cur != I_HEAD && cur != I_TAIL) { unsigned bit = 1u << (cur - I_B0);   /* bit LMAX = the pushed block X */ if (never & bit) return 0; seen |= bit; }
    if (cur == I_TAIL) return (seen & must) == must;
    tcbp p = MP_get(B(cur).prev);
    if (p < I_TAIL || p > I_X || p == I_HEAD) return 0;
    if (p != I_TAIL && !(B(p).stamp < last)) return 0;
    if (p != I_TAIL) last = B(p).stamp;
    cur = p;
  }
  return 0;
}
/* following next from tail reaches head (possibly through blocks that are being / have been removed) */
static _Bool next_chain_reaches_head(void) {
  tcbp cur = I_TAIL;
  for (unsigned step = 0; step < LMAX + 4; step++) {
    if (cur == I_HEAD) return 1;
    tcbp n = MP_get(B(cur).next);
    if (n < I_HEAD || n > I_X) return 0;
    cur = n;
  }
  return 0;
}
void h_mid(void) {
  havoc_pool(); build_mid(); in_mode = 3;
  in_op = nondet_uint(); in_k = nondet_uint(); XV_ASSUME(in_op <= 1 && in_k < in_n);
#ifdef XV_MID_OP
  XV_ASSUME(in_op == XV_MID_OP);
#endif
#ifdef XV_K
  XV_ASSUME(in_k == XV_K);
#endif
#ifdef XV_MID_PEND
  XV_ASSUME((in_pend != 0) == (XV_MID_PEND != 0));
#endif
  unsigned all = (1u << in_n) - 1, dbit = in_d ? (1u << (in_d - 1)) : 0;
  take_snap();
  if (in_op == 0) {
    in_xs = B(I_X).stamp; in_xp = B(I_X).prev; in_xn = B(I_X).next;
    mon_op = OP_PUSH; mon_own = I_X;
    tcbp newest = I_B0 + in_n - 1;
    sq_push(&Q, I_X);
    XV_OBL("stampq.push.fresh_stamp", B(I_X).stamp == in_hs && B(I_HEAD).stamp == in_hs + StampInc && m_hs_rmw_n == 1);
    XV_OBL("stampq.mid.push_links", MP_get(B(I_HEAD).prev) == I_X && !MARKED(B(I_HEAD).prev) && B(I_X).prev == MP_make(MP_get(snap[I_HEAD - 1].prev), MP_mark(B(I_X).prev)) && !MARKED(B(I_X).prev));
    XV_OBL("stampq.mid.push_links", MP_get(B(I_X).next) == I_HEAD && !MARKED(B(I_X).next) && (MP_get(B(newest).next) == I_X || MARKED(snap[newest - 1].next)));
    XV_OBL("stampq.mid.push_links", prev_chain_ok((all & ~(in_dst >= 3 ? dbit : 0)) | (1u << LMAX), in_dst >= 3 ? dbit : 0) && next_chain_reaches_head());
    check_push_post();
    for (unsigned i = 0; i < LMAX; i++) if (i < in_n) XV_OBL("stampq.mid.lower_bound", B(I_TAIL).stamp <= FINAL(B(I_B0 + i).stamp) && B(I_B0 + i).stamp < B(I_X).stamp && B(I_B0 + i).stamp == snap[I_B0 + i - 1].stamp);
    XV_OBL("stampq.mid.lower_bound", B(I_TAIL).stamp == in_ts);
    XV_OBL("stampq.push.terminates", xv_iters == 1 && n_cas_fail == 0);
#if !defined(XV_MID_OP) || XV_MID_OP == 0
    if (in_pend == 1) XV_CANARY("mid.push_after_pending");
    if (in_d && in_d == in_n && in_dst >= 2) XV_CANARY("mid.push_after_marked_newest");
#endif
  } else {
    XV_ASSUME(in_pend == 0 || in_k + 1 < in_n);            /* the pusher of the newest block is still inside push */
    tcbp r = I_B0 + in_k; size_t my = B(r).stamp; mon_op = OP_REMOVE; mon_own = r; uts_guess = my + StampInc;
    _Bool res = sq_remove(&Q, MP_make(r, 0));
    unsigned rbit = 1u << in_k, gone = rbit | (in_dst >= 3 ? dbit : 0);
    /* every block whose removal has not begun stays in the prev chain; the removed block is out of it; a block already out stays out */
    XV_OBL("stampq.mid.remove_unlinks", prev_chain_ok(all & ~rbit & ~dbit, gone) && next_chain_reaches_head());
    XV_OBL("stampq.mid.remove_unlinks", B(r).stamp == my + NotInList && MARKED(B(r).prev) && MARKED(B(r).next) && m_own_stamp_store_n == 1 && m_hs_rmw_n == 0);
    /* nobody's next still leads to the removed block, unless that somebody is itself being removed */
    for (unsigned i = 0; i < LMAX; i++) if (i < in_n && i != in_k && !(in_d && i == in_d - 1)) XV_OBL("stampq.mid.remove_unlinks", MP_get(B(I_B0 + i).next) != r);
    XV_OBL("stampq.mid.remove_unlinks", MP_get(B(I_TAIL).next) != r);
    /* stamps of the others: untouched, except that a pending stamp may have been helped to its final value */
    for (unsigned i = 0; i < LMAX; i++) if (i < in_n && i != in_k) {
      size_t s0 = snap[I_B0 + i - 1].stamp, s1 = B(I_B0 + i).stamp;
      XV_OBL("stampq.mid.remove_unlinks", s1 == s0 || (in_pend == 1 && i + 1 == in_n && s1 == s0 + (StampInc - PendingPush)));
      if (!(in_d && i == in_d - 1)) XV_OBL("stampq.mid.lower_bound", B(I_TAIL).stamp <= FINAL(s1) && s1 < B(I_HEAD).stamp);
    }
    XV_OBL("stampq.mid.lower_bound", B(I_TAIL).stamp >= in_ts && B(I_TAIL).stamp <= B(I_HEAD).stamp && B(I_HEAD).stamp == in_hs);
    /* "was last": its prev leads to tail - it was the oldest block, or the only older one had already been taken out of the prev list */
    _Bool oldest = in_k == 0 || (in_k == 1 && in_d == 1 && in_dst >= 3);
    XV_OBL("stampq.mid.remove_last_iff", res == oldest);
    if (res) XV_OBL("stampq.mid.remove_last_iff", B(I_TAIL).stamp >= my + StampInc);
    else XV_OBL("stampq.mid.remove_last_iff", B(I_TAIL).stamp == in_ts);
#if !defined(XV_MID_OP) || XV_MID_OP == 1
    if (in_d && in_d - 1 == in_k) XV_CANARY("mid.resumed_removal");
    if (in_d && in_dst == 3) XV_CANARY("mid.half_unlinked");
#if !defined(XV_N) || XV_N >= 2
#if !defined(XV_K) || XV_K + 2 == XV_N
    if (in_pend == 1 && B(I_B0 + in_n - 1).stamp != snap[I_B0 + in_n - 2].stamp) XV_CANARY("mid.helped_pending");
#endif
    if (in_d && in_d - 1 != in_k && in_dst <= 2 && !prev_chain_ok(dbit, 0)) XV_CANARY("mid.helped_marked_out");
#if !defined(XV_K) || XV_K == 1
    if (res && in_k == 1) XV_CANARY("mid.last_behind_unlinked");
#endif
#endif
#endif
  }
}
