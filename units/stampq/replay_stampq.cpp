// native replay for the SEQ obligations of unit stampq (stampq.push.*, stampq.remove.*, stampq.tail_stamp.lower_bound, stampq.mid.*,
// stampq.update_tail.source): builds the queue state cbmc found on the REAL stamp_it::thread_order_queue and runs the real push / remove.
//   in_mode 1: push(X) on a quiescent queue    2: remove(block in_k) on a quiescent queue    3: mid-operation state, in_op 0 = push, 1 = remove(in_k)
//   in_n blocks (0..3) with stamps in_s0..in_s3 (oldest first), head stamp in_hs, tail stamp in_ts, tags in_tp*/in_tn*/in_thp/in_ttn,
//   leftovers of the pushed block in_xs/in_xp/in_xn (model words: block index << 18 | mark; indices 1 tail, 2 head, 3.. list blocks, 3 + in_lmax = X),
//   mid states: in_pend (1 pending stamp, 2 lagging next), in_d (stalled remover's block + 1), in_dst (1..4 how far it got)
// exit 0 holds, 1 violation reproduced, 2 cannot represent
#include <xenium/reclamation/stamp_it.hpp>
#include <cstdio>
#include <cstdlib>
#include <cstring>
#include <map>
#include <string>
using namespace xenium::reclamation;
using tcb = stamp_it::thread_control_block;
using mp = stamp_it::thread_order_queue::marked_ptr;
static std::map<std::string, unsigned long long> args;
static const unsigned MB = 18; static const uintptr_t MM = (1u << MB) - 1;
static const size_t NotInList = stamp_it::NotInList, PendingPush = stamp_it::PendingPush, StampInc = stamp_it::StampInc;
static tcb* blk[8];    // by model index
static unsigned nblk = 7;
static mp word(unsigned long long w) { unsigned idx = unsigned(w >> MB); return mp(idx < nblk ? blk[idx] : nullptr, uintptr_t(w & MM)); }
static mp mk(tcb* p, unsigned long long tag) { return mp(p, uintptr_t(tag) & MM & ~uintptr_t(1)); }
static bool marked(mp p) { return (p.mark() & 1) != 0; }
static size_t fin(size_t s) { return s + ((s & PendingPush) ? StampInc - PendingPush : 0); }
static int bad = 0;
#define CHECK(c, ...) do { if (!(c)) { printf("VIOLATION: " __VA_ARGS__); printf("\n"); bad++; } } while (0)
int main(int argc, char** argv) {
  for (int i = 1; i < argc; ++i) { char* eq = strchr(argv[i], '='); if (!eq) continue; args[std::string(argv[i], eq - argv[i])] = strtoull(eq + 1, 0, 0); }
  unsigned mode = (unsigned)args["in_mode"], n = (unsigned)args["in_n"], k = (unsigned)args["in_k"];
  unsigned lmax = args.count("in_lmax") ? (unsigned)args["in_lmax"] : 3;
  if (mode < 1 || mode > 3 || lmax < 1 || lmax > 4 || n > lmax) return 2;
  nblk = 4 + lmax;
  stamp_it::thread_order_queue q;
  blk[0] = nullptr; blk[1] = q.tail; blk[2] = q.head;
  for (int i = 3; i < 8; ++i) blk[i] = new tcb();
  size_t st[4] = {(size_t)args["in_s0"], (size_t)args["in_s1"], (size_t)args["in_s2"], (size_t)args["in_s3"]}, hs = args["in_hs"], ts = args["in_ts"];
  unsigned long long tp[4] = {args["in_tp0"], args["in_tp1"], args["in_tp2"], args["in_tp3"]}, tn[4] = {args["in_tn0"], args["in_tn1"], args["in_tn2"], args["in_tn3"]};
  tcb* older = q.tail;
  for (unsigned i = 0; i < n; ++i) {
    tcb* b = blk[3 + i]; b->stamp.store(st[i]); b->prev.store(mk(older, tp[i]));
    older->next.store(mk(b, older == q.tail ? args["in_ttn"] : tn[i - 1])); older = b;
  }
  older->next.store(mk(q.head, older == q.tail ? args["in_ttn"] : tn[n - 1]));
  q.head->prev.store(mk(older, args["in_thp"])); q.head->stamp.store(hs); q.tail->stamp.store(ts);
  tcb* X = blk[3 + lmax];
  X->stamp.store((size_t)args["in_xs"]); X->prev.store(word(args["in_xp"])); X->next.store(word(args["in_xn"]));
  unsigned pend = 0, d = 0, dst = 0, op = mode == 1 ? 0 : 1;
  if (mode == 3) {
    pend = (unsigned)args["in_pend"]; d = (unsigned)args["in_d"]; dst = (unsigned)args["in_dst"]; op = (unsigned)args["in_op"];
    if (n < 1 || pend > 2 || d > n || (d && (dst < 1 || dst > 4))) return 2;
    auto older_of = [&](unsigned i) { return i == 0 ? q.tail : blk[3 + i - 1]; };
    auto newer_of = [&](unsigned i) { return i + 1 == n ? q.head : blk[3 + i + 1]; };
    if (pend) { tcb* o = older_of(n - 1); o->next.store(mp(q.head, o->next.load().mark())); if (pend == 1) blk[3 + n - 1]->stamp.store(st[n - 1] - (StampInc - PendingPush)); }
    if (d) { tcb* D = blk[3 + d - 1]; tcb* o = older_of(d - 1); tcb* nw = newer_of(d - 1);
      D->prev.store(mp(D->prev.load().get(), D->prev.load().mark() | 1));
      if (dst >= 2) D->next.store(mp(D->next.load().get(), D->next.load().mark() | 1));
      if (dst >= 3) nw->prev.store(mp(o, (nw->prev.load().mark() + 2) & MM));
      if (dst >= 4) o->next.store(mp(nw, (o->next.load().mark() + 2) & MM)); }
  }
  if (op == 1 && k >= n) return 2;
  // ---- run the real operation
  bool res = false; tcb* R = nullptr; size_t my = 0;
  if (op == 0) q.push(X);
  else { R = blk[3 + k]; my = R->stamp.load(); res = q.remove(R); }
  // ---- the logical contents afterwards, oldest first
  tcb* seq[5]; unsigned m = 0;
  for (unsigned i = 0; i < n; ++i) if (!(op == 1 && i == k)) seq[m++] = blk[3 + i];
  if (op == 0) seq[m++] = X;
  size_t t = q.tail_stamp(), h = q.head_stamp();
  if (mode != 3) {
    // quiescent: both directions consistent, no marks, stamps strictly increasing, tail_stamp <= all < head_stamp
    tcb* o = q.tail;
    for (unsigned i = 0; i < m; ++i) { tcb* b = seq[i];
      CHECK(b->prev.load().get() == o && !marked(b->prev.load()), "block %u: prev does not lead to its predecessor (or is marked)", i);
      CHECK(o->next.load().get() == b && !marked(o->next.load()), "predecessor of block %u: next does not lead to it (or is marked)", i);
      CHECK((b->stamp.load() & 3) == 0 && t <= b->stamp.load() && b->stamp.load() < h, "block %u: stamp %zu not in [tail stamp %zu, head stamp %zu)", i, (size_t)b->stamp.load(), t, h);
      if (i) CHECK(seq[i - 1]->stamp.load() < b->stamp.load(), "stamps not increasing at %u", i);
      o = b; }
    CHECK(q.head->prev.load().get() == o && !marked(q.head->prev.load()) && o->next.load().get() == q.head && !marked(o->next.load()), "head end not linked consistently");
    CHECK(t <= h, "tail stamp %zu above head stamp %zu", t, h);
    if (op == 0) { CHECK(X->stamp.load() == hs && h == hs + StampInc, "push: block stamp %zu / head stamp %zu, expected %zu / %zu", (size_t)X->stamp.load(), h, hs, hs + StampInc);
                   CHECK(t == ts, "push changed the tail stamp"); }
    else {
      CHECK(res == (k == 0), "remove returned %d for block %u of %u", (int)res, k, n);
      CHECK(R->stamp.load() == my + NotInList && marked(R->prev.load()) && marked(R->next.load()), "removed block not flagged NotInList / marked");
      if (res) { CHECK(t >= my + StampInc && t >= ts, "tail stamp %zu not advanced beyond the removed stamp %zu", t, my);
                 if (n > 1) CHECK(t == seq[0]->stamp.load(), "tail stamp %zu is not the stamp of the new tail-most block", t);
                 else CHECK(t == hs || (t == my + StampInc && t + StampInc == hs), "tail stamp %zu after emptying the list (head stamp %zu, removed %zu)", t, hs, my);
                 if (n == 1 && t == hs && my + StampInc < hs) CHECK(q.head->prev.load().mark() != (uintptr_t(args["in_thp"]) & MM & ~uintptr_t(1)), "tail took head's stamp without renewing head->prev's tag"); }
      else CHECK(t == ts, "tail stamp changed by a remove that was not last");
    }
  } else {
    // mid-operation states: prev chain from head, bounds, result
    unsigned dbit = d ? 1u << (d - 1) : 0, rbit = op == 1 ? 1u << k : 0, all = (1u << n) - 1;
    unsigned must = op == 0 ? ((all & ~(dst >= 3 ? dbit : 0)) | (1u << lmax)) : (all & ~rbit & ~dbit), never = rbit | (dst >= 3 ? dbit : 0), seen = 0;
    tcb* cur = q.head; size_t last = q.head->stamp.load(); bool ok = false;
    for (int step = 0; step < 8; ++step) {
      if (cur != q.head && cur != q.tail) { unsigned bit = 0; for (unsigned i = 0; i < lmax; ++i) if (cur == blk[3 + i]) bit = 1u << i; if (cur == X) bit = 1u << lmax; CHECK(bit && !(never & bit), "prev chain contains a block that must be out"); seen |= bit; }
      if (cur == q.tail) { ok = (seen & must) == must; break; }
      tcb* p = cur->prev.load().get(); if (!p || p == q.head) break;
      if (p != q.tail) { if (!(p->stamp.load() < last)) break; last = p->stamp.load(); }
      cur = p;
    }
    CHECK(ok, "prev chain from head is not (a superset of) the live blocks in stamp order ending at tail");
    for (unsigned i = 0; i < n; ++i) if (!(op == 1 && i == k) && !(d && i == d - 1))
      CHECK(t <= fin(blk[3 + i]->stamp.load()) && blk[3 + i]->stamp.load() < h, "block %u: stamp %zu not in [tail stamp %zu, head stamp %zu)", i, (size_t)blk[3 + i]->stamp.load(), t, h);
    CHECK(t >= ts && t <= h, "tail stamp %zu moved outside [%zu, %zu]", t, ts, h);
    if (op == 0) CHECK(X->stamp.load() == hs && h == hs + StampInc && q.head->prev.load().get() == X, "push from mid state: stamp/links wrong");
    else {
      bool oldest = k == 0 || (k == 1 && d == 1 && dst >= 3);
      CHECK(res == oldest, "remove returned %d, expected %d", (int)res, (int)oldest);
      CHECK(R->stamp.load() == my + NotInList, "removed block not flagged");
      if (res) CHECK(t >= my + StampInc, "tail stamp not advanced"); else CHECK(t == ts, "tail stamp changed");
      for (unsigned i = 0; i < n; ++i) if (i != k && !(d && i == d - 1)) CHECK(blk[3 + i]->next.load().get() != R, "live block %u still points to the removed block", i);
    }
  }
  printf("%s: %d violations\n", op == 0 ? "push" : "remove", bad);
  return bad ? 1 : 0;
}
