// native replay for vhm.it.erase.exact / vhm.it.erase.version_bumped: erase(iterator&) on the real class with the iterator on
// traversal rank in_rank of bucket in_cb (in_count array items, in_chain extension items, bucket version in_ver).
// 0 = holds, 1 = violation reproduced, 2 = cannot represent.
#include "replay_common.hpp"
int main(int argc, char** argv) {
  parse(argc, argv);
  unsigned cb = args["in_cb"], count = args["in_count"], chain = args["in_chain"], rank = args["in_rank"]; std::uint32_t ver = args["in_ver"];
  if (count > 3 || (chain > 0 && count != 3) || chain > 8 || cb > 255 || rank >= count + chain || ver >= (1u << 20)) { printf("shape not representable\n"); return 2; }
  M m(256); std::map<std::uint64_t, std::uint64_t> ref;
  auto order = fill(m, cb, count + chain, ref);
  { auto s = st(m, cb); for (std::uint32_t i = 0; i < ver; ++i) s = s.new_version(); bkt(m, cb).state.store(s); }
  std::uint32_t v0 = st(m, cb).version();
  int bad = 0;
  {
    auto it = m.begin();
    for (unsigned i = 0; i < rank; ++i) ++it;
    if (it == m.end() || (*it).first != order[rank]) { printf("could not position the iterator\n"); finish(2); }
    std::uint64_t victim = order[rank];
    m.erase(it);
    ref.erase(victim);
    if (it.current_bucket == &bkt(m, cb)) {
      const char* why = "";
      if (!II(m, it, &why)) { printf("after erase (iterator stays in the bucket): iterator invariant broken: %s\n", why); bad = 1; }
      // the rest of the traversal must yield exactly the elements after `rank`
      std::vector<std::uint64_t> rest; for (; it != m.end(); ++it) rest.push_back((*it).first);
      std::vector<std::uint64_t> expect(order.begin() + rank + 1, order.end());
      std::map<std::uint64_t, int> a, b; for (auto k : rest) a[k]++; for (auto k : expect) b[k]++;
      if (a != b) { printf("after erase the traversal continues with a wrong set of elements (revisit or skip)\n"); bad = 1; }
    } else if (rank + 1 != order.size()) { printf("iterator left the bucket although unvisited elements remain\n"); bad = 1; }
    it.reset();
  }
  auto s1 = st(m, cb);
  if (s1.is_locked()) { printf("bucket still locked after reset\n"); bad = 1; }
  std::uint32_t dv = (s1.version() - v0) & ((1u << 27) - 1);
  printf("erase: count=%u chain=%u rank=%u (%s): published version %u -> %u\n", count, chain, rank,
         rank >= count ? "case 1: extension item" : chain ? "case 2: array slot refilled from the list" : "case 3: array slot, no list", v0, s1.version());
  if (dv != 1 && dv != 2) { printf("version not bumped at unlock: a reader validating with the version cannot see the removal\n"); bad = 1; }
  std::map<std::uint64_t, std::uint64_t> now;
  { for (auto it = m.begin(); it != m.end(); ++it) now[(*it).first] = (*it).second; }
  if (now != ref) { printf("map content differs from the reference (expected exactly key %llu removed)\n", (unsigned long long)order[rank]); bad = 1; }
  for (auto& kv : ref) { M::accessor a; if (!m.try_get_value(kv.first, a) || *a != kv.second) { printf("try_get_value(%llu) wrong after erase\n", (unsigned long long)kv.first); bad = 1; } }
  finish(bad);
}
