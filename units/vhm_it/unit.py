import os, re
from xvlib.engine import VERIF
from xvlib import lower as XL
I = 'xenium/impl/vyukov_hash_map.hpp'
H = 'xenium/vyukov_hash_map.hpp'
T = 'xenium/impl/vyukov_hash_map_traits.hpp'
P = r'vyukov_hash_map<Key, Value, Policies\.\.\.>::'

# bucket_state algebra: the real member functions are lowered and linked in (the algebra itself is proved in unit vhm)
BSM = dict(file=I, calls={'bucket_state': 'BS_MK'},
           subst=[(r'bucket_state (\w+)\(([^;]*)\);', r'bstate_t \1 = BS_MK(\2);', 'ctor_decl'),
                  (r'(?<![\w.])(item_count|delete_marker)\(\)', r'BS_\1(value)', 'self_getter')],
           methods={'item_count': 'BS_item_count', 'delete_marker': 'BS_delete_marker'}, must_fire={})
def bs(name, sig, params='bstate_t value', ret='bstate_t'):
    return dict(BSM, id='bucket_state.' + name, sig=sig, c_sig='static %s BS_%s(%s)' % (ret, name, params))

METH = {'locked': 'BS_locked', 'clear_lock': 'BS_clear_lock', 'new_version': 'BS_new_version', 'dec_item_count': 'BS_dec_item_count',
        'set_delete_marker': 'BS_set_delete_marker', 'item_count': 'BS_item_count', 'is_locked': 'BS_is_locked', 'version': 'BS_version',
        'delete_marker': 'BS_delete_marker', 'move_to_next_bucket': 'VIT_MNB', 'buckets': 'BLK_buckets', 'acquire': 'GB_acquire',
        'reset': 'GB_reset'}
ITM = ['block', 'current_bucket', 'current_bucket_state', 'index', 'extension', 'prev']
# Rules name callees and types, never locals or the shape of a statement: arguments are passed through to macros of harness.c that take the addresses
# C++ takes implicitly (by-reference parameters), so any argument expression and any spelling of the surrounding statement lowers the same way.
LOCKB_CALL = {'lock_bucket': '*VHM_LOCK_BUCKET'}      # T& lock_bucket(h, blk&, st&) -> (*VHM_LOCK_BUCKET(self, h, blk, st)); `&lock_bucket(..)` = `&*..`
RESULT = (r'\biterator (\w+);', r'struct vit \1 = VIT_default();', 'result_decl')
BACKOFF = [(r'\bbackoff backoff;', '', 'backoff_decl'), (r'\bbackoff\(\);', 'XV_BACKOFF();', 'backoff_call')]
CMPKEY = (r'traits::template compare_key<(\w+)>\(', r'TR_COMPARE_KEY(\1, ', 'compare_key_call')
# C++ type names spelled out in declarations are typedefs of harness.c; std::atomic<T> is modelled as a plain cell of type T
TYPE_SUBST = [(r'\bstd::atomic<([^<>;]*)>', r'\1', 'atomic_type')]

def dtor_at_return(s, lw):
    """C++ runs ~iterator() on the local iterator of find() when the function returns something else (`return end();`): the local is whatever
       the RESULT rule lowered (`struct vit X = VIT_default();`), every `return e;` with e != X is preceded by vit_dtor(&X)"""
    m = re.search(r'\bstruct vit (\w+) = VIT_default\(\);', s)
    if not m: return s
    x = m.group(1)
    def rp(mm):
        if mm.group(1).strip() == x: return mm.group(0)
        lw.fire('dtor_at_return'); return '{ struct vit xv_r = %s; vit_dtor(&%s); return xv_r; }' % (mm.group(1).strip(), x)
    return s[:m.end()] + re.sub(r'\breturn\b([^;]*);', rp, s[m.end():])
def _loop_extent(t, kind, i):
    """token indices (first, last) of the loop statement starting at token i"""
    if kind == 'do':
        b1 = XL._match_fwd(t, XL._next(t, i)); p = XL._next(t, XL._next(t, b1)); return i, XL._match_fwd(t, p)
    e = XL._match_fwd(t, XL._next(t, i)); b = XL._next(t, e)
    return (i, XL._match_fwd(t, b)) if t[b] == '{' else (i, b)
def spin_cut(name):
    """unit-local Route X cut of a spin loop that is identified by what it does - the outermost loop around the locking CAS - instead of by its
       ordinal, in whichever function the text under this rule puts it: the source function itself or a helper the engine follows automatically
       (helpers are lowered with the caller's rules, this one included).  The cut itself is the engine's (Lowerer.cut_loop); in front of it the
       rule emits the entry hook XV_LOOP_ENTER_<name> (ghost snapshot the invariant refers to).  In a helper the engine does not check the havoc
       macro against the loop body, so the rule does: everything the body assigns (other than the lock word of the CAS) must be declared inside the body or be named by the macro."""
    def f(s, lw):
        t, loops = lw.find_loops(s)
        ordinal = None
        for k, (kind, i) in enumerate(loops):
            a, e = _loop_extent(t, kind, i)
            if re.search(r'\bA_CASW?\(', ''.join(t[a:e + 1])): ordinal = k; break
        if ordinal is None:
            lw.fire('cut_loop_missing:' + name); return s          # the loop is elsewhere (a followed helper gets its own pass through this rule)
        s = lw.cut_loop(s, ordinal, name)
        if lw.spec.get('_route') == 'D': return s
        s = s.replace('XV_LOOP_BASE(%s);' % name, 'XV_LOOP_ENTER_%s; XV_LOOP_BASE(%s);' % (name, name), 1)
        if '>' in lw.spec['id']:
            hz = open(os.path.join(VERIF, 'units', 'vhm_it', 'harness.c')).read()
            hv = re.search(r'#define\s+XV_HAVOC_%s\b((?:.*\\\n)*.*)' % name, hz).group(1)
            body = lw._cut_bodies[name]
            inside = set(re.findall(r'(?:__auto_type|size_t|uint\d+_t|int|unsigned|_Bool|bool|\w+_t|struct \w+\s*\*?)\s+\*?(\w+)\s*(?:=|;)', body))
            # the object of the locking CAS needs no havoc: a failed CAS does not write it, and a successful one changes the ghost set of held
            # buckets, which the invariant XV_INV_<name> forbids on a path back to the loop head (checked at LOOPSTEP)
            body = re.sub(r'\b(A_CASW?)\(\s*[^,;]+,', r'\1(xv_cas_obj,', body)
            for ident in XL.assigned_idents(body):
                if ident in inside or ident.startswith('xv_'): continue
                if not re.search(r'\b%s\b' % re.escape(ident), hv):
                    raise XL.ExtractError('loop %s (in helper %s) writes "%s" which XV_HAVOC_%s does not havoc' % (name, lw.spec['id'], ident, name))
        return s
    return f

def cst(name, ty, file=I, subst=()):
    return dict(name=name, file=file, regex=r'static constexpr std::%s %s = ([^;]+);' % (ty, name), subst=list(subst))

QT = ['quick', 'thorough']
def run(id, entry, NB, L, CB=0, tiers=QT, mode='SEQ', cls='shape-complete', unwindset=(), unwind=None, **kw):
    d = dict(id=id, entry=entry, tiers=tiers, mode=mode, cls=cls, defs={'NB': NB, 'L': L, 'CB': CB},
             unwind=unwind if unwind is not None else (3 + L + 2),
             unwindset=['vhm_lock_bucket.0:2', 'vit_move_to_next_bucket.0:2', 'vit_move_to_next_bucket:%d' % (NB + 1)] + list(unwindset))
    d.update(kw)
    return d
Q = ['quick']; TH = ['thorough']
CAD = ['--sat-solver', 'cadical']   # minisat2 (cbmc default) does not finish the final UNSAT call of some h_find shapes; cadical needs 3 s

UNIT = dict(
  title='vyukov_hash_map iterator: find/begin/++/erase(iterator&)/reset/move_to_next_bucket/lock_bucket/move (C11), trivial storage mode',
  properties=['C11'],
  drops='templates (Key = Value = 64-bit word: trivial/trivial traits specialisation, whose compare_key/deref_iterator text is lowered too); '
        'guarded_block (guard_ptr) is a plain block pointer, block::buckets() is an array of NB buckets inside the block; the hash functor is an '
        'uninterpreted value per key; backoff is a no-op; free_extension_item is a ghost free (item marked freed, its next redirected to a free-list dummy); '
        'C++ object lifetime made explicit by unit-local rules: `iterator result;` = default member initialisers (all zero), `return end();` runs '
        '~iterator() on the local `result` first, `return result;` is a plain copy (NRVO; otherwise move ctor + destruction of an end iterator, both covered '
        'by the move/reset runs); by-reference parameters become pointers; the extension chain of the bucket under test is laid out in pool order '
        '(the code never compares item addresses for order, so this is a symmetry reduction); bucket_state member functions and constants are '
        'the real text/values of the header (bucket_item_count = 3 is static-asserted against the harness array size); std::atomic<T> is a plain cell of type T, '
        'the C++ type names are typedefs of the harness; the spin loops cut in the INT runs are located by content (the loop around the locking CAS, unit-local '
        'rule spin_cut), also when the loop stands in a helper that is followed automatically, and their invariant/havoc are stated over ghost state only',
  assumptions=[
    'bucket_state algebra (locked/clear_lock/new_version/dec_item_count/set_delete_marker and the field extractors act on disjoint fields): '
    'the real text is linked in here, its algebraic contract is proved in unit vhm',
    'per-bucket representation invariant at entry (item_count <= 3, head != null => item_count == 3, delete marker 0, keys pairwise distinct, '
    'chain acyclic): established by emplace/extract/grow, proved in unit vhm',
    'SEQ runs: a bucket the iterator has to lock is not held by another thread (otherwise the lock loops spin: blocking is by design); '
    'the INT runs of lock_bucket / move_to_next_bucket drop this assumption',
    'free_extension_item / allocate_extension_item (free-list push/pop under the extension-bucket lock): proved in unit vhm',
    'composition of per-operation contracts into "a whole traversal yields every element exactly once" is the induction begin -> ++* -> end over '
    'vhm.it.traverse.once; additionally checked as a whole on small shapes by run traverse',
  ],
  consts=[
    cst('bucket_item_count', 'uint32_t', file=H),
    cst('item_counter_bits', 'size_t', subst=[(r'utils::find_last_bit_set', 'XV_FLS')]),
    cst('item_count_shift', 'size_t'), cst('delete_marker_shift', 'size_t'), cst('version_shift', 'size_t'),
    cst('lock', 'uint32_t'), cst('version_inc', 'uint32_t'), cst('item_count_inc', 'uint32_t'), cst('item_count_mask', 'uint32_t'),
  ],
  sources=[
    bs('item_count', r'std::uint32_t item_count\(\) const noexcept', ret='uint32_t'),
    bs('delete_marker', r'std::uint32_t delete_marker\(\) const noexcept', ret='uint32_t'),
    bs('version', r'std::uint32_t version\(\) const noexcept', ret='uint32_t'),
    bs('is_locked', r'bool is_locked\(\) const noexcept', ret='_Bool'),
    bs('locked', r'bucket_state locked\(\) const noexcept'),
    bs('clear_lock', r'bucket_state clear_lock\(\) const'),
    bs('new_version', r'bucket_state new_version\(\) const noexcept'),
    bs('dec_item_count', r'bucket_state dec_item_count\(\) const'),
    bs('set_delete_marker', r'bucket_state set_delete_marker\(std::uint32_t marker\) const', params='bstate_t value, uint32_t marker'),
    dict(id='traits.compare_key', file=T,
         sig=r'vyukov_hash_map_traits<Key, Value, ValueReclaimer, Reclaimer, true, true> :.*?static bool compare_key\([^)]*\)',
         c_sig='static _Bool TR_compare_key(_Bool AcquireAccessor, uint64_t* key_cell_p, uint64_t* value_cell_p, uint64_t key, uint64_t hash, struct accessor* acc_p)',
         subst=[(r'\bkey_cell\b', '(*key_cell_p)', 'ref'), (r'\bvalue_cell\b', '(*value_cell_p)', 'ref'), (r'\bacc\b', '(*acc_p)', 'ref')],
         must_fire={'A_LOAD': 2}),
    dict(id='traits.deref_iterator', file=T,
         sig=r'vyukov_hash_map_traits<Key, Value, ValueReclaimer, Reclaimer, true, true> :.*?static iterator_reference deref_iterator\([^)]*\)',
         c_sig='static struct kv TR_deref_iterator(uint64_t* k_p, uint64_t* v_p)',
         subst=[(r'\bk\b', '(*k_p)', 'ref'), (r'\bv\b', '(*v_p)', 'ref')],
         post_subst=[(r'return \{([^;]*)\};', r'return (struct kv){\1};', 'pair_init')],
         must_fire={'A_LOAD': 2, 'subst:pair_init': 1}),
    dict(id='end', file=H, sig=r'iterator end\(\)', c_sig='static struct vit vhm_end(struct vhm* self)',
         calls={'iterator': 'VIT_default'}, must_fire={'call:iterator': 1}),
    dict(id='lock_bucket', file=I, sig=P + r'lock_bucket\(hash_t hash, guarded_block& block, bucket_state& state\)',
         c_sig='static struct bkt* vhm_lock_bucket(struct vhm* self, uint64_t hash, struct blk** block_p, bstate_t* state_p)',
         subst=BACKOFF + [(r'\bblock\b', '(*block_p)', 'block_ref'), (r'(?<![\w.>])state = ', '(*state_p) = ', 'state_ref'),
],
         post_subst=[(r'return bucket;', 'return &bucket;', 'ref_return')],
         members=['data_block'], methods=METH,
         must_fire={'A_LOAD': 2, 'A_CAS': 1, 'subst:state_ref': 1, 'subst:ref_return': 1, 'subst:backoff_call': 1, 'reference': 1}),
    dict(id='lock_bucket_cut', file=I, sig=P + r'lock_bucket\(hash_t hash, guarded_block& block, bucket_state& state\)',
         c_sig='static struct bkt* vhm_lock_bucket_cut(struct vhm* self, uint64_t hash, struct blk** block_p, bstate_t* state_p)',
         subst=BACKOFF + [(r'\bblock\b', '(*block_p)', 'block_ref'), (r'(?<![\w.>])state = ', '(*state_p) = ', 'state_ref'),
],
         post_subst=[(r'return bucket;', 'return &bucket;', 'ref_return')],
         members=['data_block'], methods=METH, py_post=spin_cut('LOCKB'),
         must_fire={'A_LOAD': 2, 'A_CAS': 1, 'cut_loop': 1}),
    dict(id='reset', file=I, sig=P + r'iterator::reset\(\)', c_sig='static void vit_reset(struct vit* self)',
         members=ITM, methods=METH, calls={'bucket_state': 'BS_zero'},
         must_fire={'A_LOAD': 1, 'A_STORE': 1, 'call:bucket_state': 1, 'method:reset': 1}),
    dict(id='dtor', file=I, sig=P + r'iterator::~iterator\(\)', c_sig='static void vit_dtor(struct vit* self)',
         self_calls={'reset': 'vit_reset'}, must_fire={'self_call:reset': 1}),
    dict(id='move_to_next_bucket', file=I, sig=P + r'iterator::move_to_next_bucket\(\)',
         c_sig='static void vit_move_to_next_bucket(struct vit* self)',
         subst=BACKOFF, members=ITM, methods=METH, self_calls={'reset': 'vit_reset', 'move_to_next_bucket': 'vit_move_to_next_bucket'},
         must_fire={'A_LOAD': 1, 'A_CAS': 1, 'A_STORE': 1, 'self_call:reset': 1, 'self_call:move_to_next_bucket': 1}),
    dict(id='move_to_next_bucket_cut', file=I, sig=P + r'iterator::move_to_next_bucket\(\)',
         c_sig='static void vit_move_to_next_bucket_cut(struct vit* self)',
         subst=BACKOFF, members=ITM, methods=METH, self_calls={'reset': 'vit_reset', 'move_to_next_bucket': 'vit_move_to_next_bucket_cut'},
         py_post=spin_cut('MNB'),
         must_fire={'A_LOAD': 1, 'A_CAS': 1, 'A_STORE': 1, 'cut_loop': 1}),
    dict(id='operator++', file=I, sig=P + r'iterator::operator\+\+\(\)', c_sig='static struct vit* vit_next(struct vit* self)',
         members=ITM, methods=METH, self_calls={'move_to_next_bucket': 'vit_move_to_next_bucket'},
         post_subst=[(r'return \(\*self\);', 'return self;', 'return_this')],
         must_fire={'A_LOAD': 2, 'self_call:move_to_next_bucket': 2, 'subst:return_this': 2}),
    dict(id='operator*', file=I, sig=P + r'iterator::operator\*\(\)', c_sig='static struct kv vit_deref(struct vit* self)',
         subst=[(r'traits::deref_iterator\(', 'TR_DEREF_ITERATOR(', 'deref_call')],
         members=ITM, must_fire={'subst:deref_call': 2}),
    dict(id='move_ctor', file=I, sig=P + r'iterator::iterator\(iterator&& other\)', ctor=True,
         c_sig='static void vit_move_ctor(struct vit* self, struct vit* other_p)',
         methods=METH, calls={'bucket_state': 'BS_zero'}, post_subst=[(r'\bother\b', '(*other_p)', 'other_ref')],
         must_fire={'ctor_init': 6, 'method:reset': 1}),
    dict(id='move_assign', file=I, sig=P + r'iterator::operator=\(iterator&& other\)',
         c_sig='static struct vit* vit_move_assign(struct vit* self, struct vit* other_p)',
         members=ITM, methods=METH, calls={'bucket_state': 'BS_zero'}, self_calls={'reset': 'vit_reset'},
         post_subst=[(r'\bother\b', '(*other_p)', 'other_ref'), (r'return \(\*self\);', 'return self;', 'return_this')],
         must_fire={'method:reset': 1}),
    dict(id='begin', file=I, sig=P + r'begin\(\)', c_sig='static struct vit vhm_begin(struct vhm* self)',
         subst=[RESULT], self_calls=LOCKB_CALL, methods=METH,
         must_fire={'subst:result_decl': 1, 'self_call:lock_bucket': 1, 'method:move_to_next_bucket': 1}),
    dict(id='find', file=I, sig=P + r'find\(const key_type& key\)', c_sig='static struct vit vhm_find(struct vhm* self, uint64_t key)',
         subst=[RESULT, CMPKEY, (r'hash\{\}\(', 'XV_HASH(', 'hash_call'), (r'\baccessor (\w+);', r'struct accessor \1 = {0};', 'acc_decl')],
         self_calls=dict(LOCKB_CALL, end='vhm_end'), methods=METH, py_post=dtor_at_return,
         must_fire={'subst:result_decl': 1, 'self_call:lock_bucket': 1, 'subst:compare_key_call': 2, 'subst:hash_call': 1,
                    'dtor_at_return': 1, 'A_LOAD': 2}),
    dict(id='erase_it', file=I, sig=P + r'erase\(iterator& pos\)', c_sig='static void vhm_erase_it(struct vhm* self, struct vit* pos_p)',
         subst=[(r'\bpos\b', '(*pos_p)', 'pos_ref')], methods=METH, calls={'free_extension_item': 'XV_FREE_EXT'},
         must_fire={'A_STORE': 12, 'A_LOAD': 12, 'call:free_extension_item': 2, 'method:move_to_next_bucket': 2}),
  ],
  runs=[
    # NB = buckets in the block, L = extension items available to the bucket under test, CB = index of the bucket under test
    run('lock_bucket', 'h_lock_bucket', 2, 0, CB=1), run('lock_bucket_b0', 'h_lock_bucket', 2, 0, CB=0, tiers=TH), run('lock_bucket_NB4', 'h_lock_bucket', 4, 0, CB=2, tiers=TH),
    run('lock_bucket_int', 'h_lock_bucket_int', 2, 0, mode='INT', note='retry loop cut by invariant LOCKB (unbounded retries); the environment rewrites every bucket the caller does not hold; NB = 2 buckets'),
    run('find', 'h_find', 2, 2, CB=1, tiers=Q, solver=CAD), run('find_b0', 'h_find', 2, 2, CB=0, tiers=TH, solver=CAD), run('find_L3', 'h_find', 2, 3, CB=1, tiers=TH, solver=CAD),
    run('find_NB1', 'h_find', 1, 2, tiers=TH, solver=CAD),
    run('begin', 'h_begin', 4, 0), run('begin_NB1', 'h_begin', 1, 0, tiers=TH),
    run('next_b0', 'h_next', 2, 2, CB=0, tiers=Q), run('next_b1', 'h_next', 2, 2, CB=1, tiers=Q),
    run('next_L3_b0', 'h_next', 3, 3, CB=0, tiers=TH), run('next_L3_b1', 'h_next', 3, 3, CB=1, tiers=TH), run('next_L3_b2', 'h_next', 3, 3, CB=2, tiers=TH),
    run('deref', 'h_deref', 2, 2, CB=1),
    run('erase_b0', 'h_erase', 2, 2, CB=0, tiers=Q, trace_defs={'XV_TRACE_SMALL': 1}), run('erase_b1', 'h_erase', 2, 2, CB=1, tiers=Q, trace_defs={'XV_TRACE_SMALL': 1}),
    run('erase_L3_b0', 'h_erase', 3, 3, CB=0, tiers=TH, trace_defs={'XV_TRACE_SMALL': 1}), run('erase_L3_b1', 'h_erase', 3, 3, CB=1, tiers=TH, trace_defs={'XV_TRACE_SMALL': 1}),
    run('erase_L3_b2', 'h_erase', 3, 3, CB=2, tiers=TH, trace_defs={'XV_TRACE_SMALL': 1}),
    run('reset', 'h_reset', 2, 1, CB=1),
    run('mnb_b0', 'h_mnb', 3, 0, CB=0), run('mnb_b1', 'h_mnb', 3, 0, CB=1), run('mnb_b2', 'h_mnb', 3, 0, CB=2),
    run('mnb_NB4', 'h_mnb', 4, 0, CB=0, tiers=TH), run('mnb_NB1', 'h_mnb', 1, 0, tiers=TH),
    run('mnb_int', 'h_mnb_int', 3, 0, CB=0, mode='INT', note='lock loop cut by invariant MNB: a failed attempt leaves the set of held buckets as it was at loop entry (unbounded retries); recursion over the NB buckets unwound'),
    run('mnb_int_b1', 'h_mnb_int', 3, 0, CB=1, mode='INT', tiers=TH),
    run('move_ctor', 'h_move_ctor', 2, 1), run('move_assign', 'h_move_assign', 2, 1),
    run('traverse', 'h_traverse', 2, 1, tiers=TH, cls='bounded', unwind=12, flags=['--object-bits', '12'], note='whole begin/++/end traversal, at most 8 elements'),
  ],
  obligations={
    'vhm.it.find.position': dict(deciding=True, text='find(k): for a key present in its bucket (array slot or extension item) the returned iterator satisfies II (bucket locked with state == copy.locked(), index < item_count or *prev == extension with prev != null) and designates that key; for an absent key it equals end() and the bucket is unlocked and unchanged'),
    'vhm.it.begin.first': dict(deciding=True, text='begin(): positioned (II) on slot 0 of the first non-empty bucket, every earlier bucket unlocked and unchanged; end() with nothing locked when the map is empty'),
    'vhm.it.erase.exact': dict(deciding=True, text='erase(iterator&): the abstract map of the bucket loses exactly the current element, every other (key,value) pair is intact, exactly the unlinked extension item is freed, no element already visited is revisited and no unvisited element is skipped; other buckets untouched'),
    'vhm.it.erase.version_bumped': dict(deciding=True, text='erase(iterator&): II is preserved and the version that will be published at unlock (the iterator copy, or the bucket state if the iterator moved on) is 1 or 2 steps ahead of the version before, in all three cases'),
    'vhm.it.erase.reader_protocol': dict(deciding=True, text='[monitor] an occupied array slot is overwritten only while the delete marker names it; the marker is cleared / the item count lowered only by a store that also changes the version; every unlink of an extension item is followed by a version-changing state store before the operation ends'),
    'vhm.it.reset.unlocks': dict(deciding=True, text='reset(): the bucket state equals the iterator copy with the lock clear (release store), nothing else changes, the iterator equals end(); on end() it is a no-op'),
    'vhm.it.next_bucket.hand_over_hand': dict(deciding=True, text='move_to_next_bucket(): the next bucket is locked (CAS) before the previous one is unlocked, the previous bucket is left unlocked with the iterator copy of its state, skipped empty buckets end unlocked and unchanged, II is re-established on slot 0 of the first non-empty later bucket or end() is reached with nothing locked'),
    'vhm.it.traverse.once': dict(deciding=True, text='operator++ from II: the position advances to the successor in the order array slots 0..count-1, then the chain in link order (II kept, *prev == extension), and past the last element to slot 0 of the next non-empty bucket or end(); nothing in the map changes'),
    'vhm.it.deref.current': dict(deciding=True, text='operator*: yields the (key,value) of the element at the current position'),
    'vhm.it.exclusive': dict(deciding=True, text='[monitor] a bucket lock is only taken by a CAS from an unlocked state to exactly that state with the lock bit, and no store to a bucket state, head, key/value slot or chain link happens unless the iterator holds that bucket; the lock returned to the caller is held at return'),
    'vhm.it.move.transfers': dict(deciding=True, text='move construction / move assignment: the target takes over position and lock of the source, the source becomes end(), no bucket changes; a lock the target held before the assignment is released'),
    'vhm.it.sync.lock_orders': dict(deciding=True, text='sync precondition: every locking CAS is acquire-or-stronger, every unlocking / version-publishing state store is release-or-stronger'),
  },
  loop_obligation={'LOCKB': 'vhm.it.exclusive', 'MNB': 'vhm.it.exclusive'},
  replays={'vhm.it.find.position': dict(src='replay_find.cpp'),
           'vhm.it.erase.exact': dict(src='replay_erase.cpp'), 'vhm.it.erase.version_bumped': dict(src='replay_erase.cpp'),
           'vhm.it.move.transfers': dict(src='replay_move_assign.cpp')},
  canaries=['lock_bucket.done', 'lock_bucket_int.done', 'find.array', 'find.ext_head', 'find.ext_inner', 'find.absent_empty', 'find.absent',
            'begin.empty_map', 'begin.bucket0', 'begin.later_bucket', 'next.array', 'next.array_to_chain', 'next.chain', 'next.to_end',
            'next.to_next_bucket', 'deref.ext', 'deref.array', 'erase.case1_stays', 'erase.case1_moves_on', 'erase.case2', 'erase.case3_stays',
            'erase.case3_moves_on', 'reset.positioned', 'reset.end', 'mnb.last_bucket', 'mnb.skipped_to_end', 'mnb.adjacent', 'mnb.skipped_empty',
            'mnb_int.end', 'mnb_int.positioned', 'move_ctor.positioned', 'move_ctor.end', 'move_assign.both_positioned',
            'move_assign.end_over_positioned', 'move_assign.positioned_over_end', 'move_assign.end_over_end', 'traverse.three_or_more'],
)
for _sp in UNIT['sources']: _sp['subst'] = list(_sp.get('subst', [])) + TYPE_SUBST
