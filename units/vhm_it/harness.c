/* unit vhm_it - vyukov_hash_map iterator operations (C11), trivial storage mode.
 * Only declarations, contract stubs, ghost state, invariants and harnesses; every function body comes from lowered.h */
#include <stdint.h>
#include <stddef.h>
static void mon_store(void* addr, uint64_t v, int o);
static void mon_cas(void* addr, uint64_t e, uint64_t d, _Bool ok, int o);
#define XV_ON_STORE(addr, val, order) mon_store((void*)(addr), (uint64_t)(val), (order))
#define XV_ON_CAS(addr, e, d, ok, order) mon_cas((void*)(addr), (uint64_t)(e), (uint64_t)(d), (ok), (order))
#include "xv.h"
int xv_threw; uint64_t xv_clock, xv_rmw_old; _Bool xv_cas_ok;

#ifndef NB
#define NB 2            /* buckets in the block */
#endif
#ifndef L
#define L 2             /* extension items available to the bucket under test */
#endif
#ifndef CB
#define CB 0            /* index of the bucket under test: a per-run shape constant (a symbolic bucket index makes every bucket access a
                           symbolic-offset access into the block object, which cbmc encodes bytewise: 7x slower, same coverage by enumeration) */
#endif
#define NI 3            /* bucket_item_count, static-asserted below against the header */
#define MAXI (NI + L)
#define LP (L > 0 ? L : 1)

typedef uint32_t bstate_t;                      /* bucket_state::value */
struct ext { uint64_t key, value; struct ext* next; };
struct bkt { bstate_t state; struct ext* head; uint64_t key[NI]; uint64_t value[NI]; };
struct blk { uint32_t mask, bucket_count; struct bkt bks[NB]; };
struct vhm { struct blk* data_block; };
struct vit { struct blk* block; struct bkt* current_bucket; bstate_t current_bucket_state; uint32_t index; struct ext* extension; struct ext** prev; };
struct accessor { uint64_t v; };
struct kv { uint64_t first, second; };
/* the C++ names of these types, for text that spells a type out instead of `auto` (declarations only: `bucket_state(...)` constructor calls and
 * `iterator result;` are rewritten by the unit's rules; std::atomic<T> is T, see TYPE_SUBST in unit.py).  The engine also reads these typedefs
 * as the C types of helper signatures it follows. */
typedef bstate_t bucket_state; typedef struct bkt bucket; typedef struct ext extension_item; typedef struct blk block; typedef struct blk* guarded_block;
typedef struct vit iterator; typedef struct accessor accessor; typedef uint64_t hash_t; typedef uint64_t key_type; typedef uint64_t value_type;

/* ---- glue for the lowered text ---- */
#define XV_FLS(x) ((x) >= 4 ? 3 : (x) >= 2 ? 2 : (x) >= 1 ? 1 : 0)   /* utils::find_last_bit_set for the constant bucket_item_count (< 8) */
#define BS_MK(v) ((bstate_t)(v))
#define BS_zero() ((bstate_t)0)
#define BLK_buckets(b) ((b).bks)
#define GB_acquire(g, src, mo) ((g) = A_LOAD(src, mo))           /* guard_ptr::acquire(concurrent_ptr&, order) */
#define GB_reset(g) ((g) = 0)
#define XV_BACKOFF() ((void)0)
#define XV_INIT_block(s, v) (s)->block = (v)
#define XV_INIT_current_bucket(s, v) (s)->current_bucket = (v)
#define XV_INIT_current_bucket_state(s, v) (s)->current_bucket_state = (v)
#define XV_INIT_index(s, v) (s)->index = (v)
#define XV_INIT_extension(s, v) (s)->extension = (v)
#define XV_INIT_prev(s, v) (s)->prev = (v)
static struct vit VIT_default(void) { struct vit r; r.block = 0; r.current_bucket = 0; r.current_bucket_state = 0; r.index = 0; r.extension = 0; r.prev = 0; return r; }
static void vit_reset(struct vit* self);
static void vit_move_to_next_bucket(struct vit* self);
static void vit_move_to_next_bucket_cut(struct vit* self);
#define VIT_MNB(it) vit_move_to_next_bucket(&(it))
/* by-reference parameters: the macros take the addresses C++ takes implicitly, whatever the argument expressions are */
#define VHM_LOCK_BUCKET(self, h, blk, st) vhm_lock_bucket((self), (h), &(blk), &(st))
#define TR_COMPARE_KEY(A, kc, vc, k, h, acc) TR_compare_key((A), &(kc), &(vc), (k), (h), &(acc))
#define TR_DEREF_ITERATOR(k, v) TR_deref_iterator(&(k), &(v))
uint64_t in_hash;                                /* hash{}(key): one uninterpreted value (each harness hashes one key) */
#define XV_HASH(k) (in_hash)

/* ---- the world: one block, the extension pool of the bucket under test ---- */
struct blk G; struct vhm M; struct ext E[LP]; struct ext E_other, E_freelist;
/* ghost */
_Bool held[NB];                 /* the iterator thread holds the lock of bucket j (set by a successful CAS, cleared by an unlocking store) */
bstate_t shadow[NB];            /* last state value stored (to see transitions) */
unsigned char unlink_pending[NB];   /* modification not yet published by a version-changing state store: 0 none, 1 slot refill (key/value), 2 chain link */
 uint64_t lock_clock[NB], unlock_clock[NB]; unsigned lock_count[NB], unlock_count[NB]; bstate_t unlock_value[NB];
_Bool mon_hoh;                  /* hand-over-hand checking on (move_to_next_bucket harnesses) */
_Bool freed[LP]; unsigned free_count; int g_focus;   /* bucket that owns pool E */
static void xv_free_ext(struct ext* item);
#define XV_FREE_EXT(item) xv_free_ext(item)

/* ---- loop cuts (INT runs) ----
 * The spin loops are found by what they do (the loop around the locking CAS, rule spin_cut in unit.py), not by position, and the cut of the
 * move_to_next_bucket loop is written over ghost state only, so that it means the same whether the loop stands in move_to_next_bucket itself or in a
 * helper a maintainer moved it to (a helper is lowered with the caller's rules): invariant = "the set of buckets this thread holds is what it was when
 * the loop was entered" (snapshot taken by the entry hook the rule emits); havoc = the iterator's copy of the bucket state, through the ghost pointer
 * to the iterator under test (the only thing the loop writes that outlives an iteration; every other write is to a body-local). */
_Bool env_on;
#define XV_LOOP_ENTER_LOCKB (void)0
#define XV_INV_LOCKB (mon_nothing_held())
#define XV_HAVOC_LOCKB (*block_p) = (nondet_bool() ? &G : 0); (*state_p) = nondet_u32() /* bucket bucket_p st bucket_idx: body-local; bucket.state: written only by the CAS itself */
struct vit* g_it;               /* the iterator under test (h_mnb / h_mnb_int) */
_Bool held_at_entry[NB];
#define XV_LOOP_ENTER_MNB mon_snap_held()
#define XV_INV_MNB (mon_held_as_at_entry())
#define XV_HAVOC_MNB g_it->current_bucket_state = nondet_u32() /* st: body-local; current_bucket state: only by CAS */
static _Bool mon_nothing_held(void);
static void mon_snap_held(void);
static _Bool mon_held_as_at_entry(void);
static _Bool mon_only_held(struct bkt* b);

#include "lowered.h"
_Static_assert(bucket_item_count == NI, "harness bucket array size != bucket_item_count of the header");
_Static_assert(bucket_item_count < 8, "XV_FLS table too small");

/* ================= monitors ================= */
enum { K_NONE, K_STATE, K_HEAD, K_KEY, K_VALUE, K_NEXT, K_EKEY, K_EVALUE };
static int cell_of(void* addr, int* kind, unsigned* slot) {
  for (unsigned j = 0; j < NB; j++) {
    if (addr == (void*)&G.bks[j].state) { *kind = K_STATE; return (int)j; }
    if (addr == (void*)&G.bks[j].head) { *kind = K_HEAD; return (int)j; }
    for (unsigned s = 0; s < NI; s++) {
      if (addr == (void*)&G.bks[j].key[s]) { *kind = K_KEY; *slot = s; return (int)j; }
      if (addr == (void*)&G.bks[j].value[s]) { *kind = K_VALUE; *slot = s; return (int)j; }
    }
  }
  for (unsigned i = 0; i < L; i++) {
    if (addr == (void*)&E[i].next) { *kind = K_NEXT; *slot = i; return g_focus; }
    if (addr == (void*)&E[i].key) { *kind = K_EKEY; *slot = i; return g_focus; }
    if (addr == (void*)&E[i].value) { *kind = K_EVALUE; *slot = i; return g_focus; }
  }
  *kind = K_NONE; return -1;
}
static void mon_store(void* addr, uint64_t v, int o) {
  int kind = K_NONE; unsigned slot = 0; int j = cell_of(addr, &kind, &slot);
  XV_OBL("vhm.it.exclusive", j >= 0 && j < NB);                       /* only bucket cells are ever stored to */
  if (j < 0 || j >= NB) return;
  XV_OBL("vhm.it.exclusive", held[j]);                                /* ... and only under the bucket lock */
  if (kind == K_STATE) {
    bstate_t old = shadow[j], nw = (bstate_t)v;
    if (BS_delete_marker(old) != 0 && BS_delete_marker(nw) != BS_delete_marker(old))
      XV_OBL("vhm.it.erase.reader_protocol", BS_version(nw) != BS_version(old));
    if (BS_item_count(nw) != BS_item_count(old))
      XV_OBL("vhm.it.erase.reader_protocol", BS_version(nw) != BS_version(old));
    if (BS_version(nw) != BS_version(old)) { unlink_pending[j] = 0; XV_OBL("vhm.it.sync.lock_orders", XV_IS_RELEASE(o)); }
    if (!BS_is_locked(nw)) {
      XV_OBL("vhm.it.sync.lock_orders", XV_IS_RELEASE(o));
      if (mon_hoh && j + 1 < NB) XV_OBL("vhm.it.next_bucket.hand_over_hand", held[j + 1]);
      held[j] = 0; unlock_clock[j] = xv_clock; unlock_count[j]++; unlock_value[j] = nw;
    }
    shadow[j] = nw;
  } else if (kind == K_KEY || kind == K_VALUE) {
    if (slot < BS_item_count(shadow[j])) XV_OBL("vhm.it.erase.reader_protocol", BS_delete_marker(shadow[j]) == slot + 1);
    /* one modification step at a time: a slot refill must not start while a chain change is unpublished */
    XV_OBL("vhm.it.erase.version_bumped", unlink_pending[j] != 2);
    unlink_pending[j] = 1;
  } else if (kind == K_HEAD || kind == K_NEXT) {
    /* ... and a chain link is changed only after the previous step (slot refill under the marker, earlier unlink) was published by a
     * version bump: a reader that skipped the marked slot and then sees the new chain must find a changed version */
    XV_OBL("vhm.it.erase.version_bumped", unlink_pending[j] == 0);
    unlink_pending[j] = 2;
  }
}
static void mon_cas(void* addr, uint64_t e, uint64_t d, _Bool ok, int o) {
  int kind = K_NONE; unsigned slot = 0; int j = cell_of(addr, &kind, &slot);
  XV_OBL("vhm.it.exclusive", j >= 0 && j < NB && kind == K_STATE);    /* CAS only on bucket states */
  if (j < 0 || j >= NB || !ok) return;
  XV_OBL("vhm.it.exclusive", !BS_is_locked((bstate_t)e) && (bstate_t)d == BS_locked((bstate_t)e) && !held[j]);
  XV_OBL("vhm.it.sync.lock_orders", XV_IS_ACQUIRE(o));
  held[j] = 1; lock_clock[j] = xv_clock; lock_count[j]++; shadow[j] = (bstate_t)d;
}
static _Bool mon_nothing_held(void) { for (unsigned j = 0; j < NB; j++) if (held[j]) return 0; return 1; }
static void mon_snap_held(void) { for (unsigned j = 0; j < NB; j++) held_at_entry[j] = held[j]; }
static _Bool mon_held_as_at_entry(void) { for (unsigned j = 0; j < NB; j++) if (held[j] != held_at_entry[j]) return 0; return 1; }
static _Bool mon_only_held(struct bkt* b) { for (unsigned j = 0; j < NB; j++) if (held[j] != (b == &G.bks[j])) return 0; return 1; }
static int pool_idx(struct ext* p) { for (unsigned i = 0; i < L; i++) if (p == &E[i]) return (int)i; return -1; }
static void xv_free_ext(struct ext* item) {
  int i = pool_idx(item);
  XV_OBL("vhm.it.erase.exact", i >= 0 && !freed[i >= 0 ? i : 0]);       /* frees a live pool item, once */
  if (i < 0) return;
  /* the unlink of the item (and a slot refill in progress) must have been published by a version-changing state store BEFORE the
   * item is recycled: a reader that still holds the item re-validates the version after following item->next */
  XV_OBL("vhm.it.erase.version_bumped", g_focus >= 0 && unlink_pending[g_focus] == 0 && BS_delete_marker(shadow[g_focus]) == 0);
  freed[i] = 1; free_count++;
  item->next = &E_freelist;                                              /* free_extension_item relinks the item into its free list */
}

/* INT environment: other threads may do anything to a bucket the iterator thread does not hold */
#ifdef XV_INT
void xv_env(void) {
  if (!env_on) return;
  for (unsigned j = 0; j < NB; j++) if (!held[j]) {
    G.bks[j].state = nondet_u32(); shadow[j] = G.bks[j].state;
    G.bks[j].head = nondet_bool() ? &E_other : 0;
    for (unsigned s = 0; s < NI; s++) { G.bks[j].key[s] = nondet_u64(); G.bks[j].value[s] = nondet_u64(); }
  }
}
#endif

/* ================= specification helpers ================= */
struct view { unsigned c, m, n; _Bool ok; uint64_t k[MAXI], v[MAXI]; };   /* slots 0..c-1: array items; slots NI..NI+m-1: chain items; n = c + m */
/* abstract content of a bucket under state word st; traversal order (= rank): array slots 0..count-1, then the chain in link order */
static unsigned vslot(const struct view* w, unsigned rank) { return rank < w->c ? rank : NI + (rank - w->c); }
static _Bool vvalid(const struct view* w, unsigned slot) { return slot < NI ? slot < w->c : slot - NI < w->m; }
static int vrank(const struct view* w, unsigned slot) { return slot < NI ? (int)slot : (int)(w->c + (slot - NI)); }
static uint64_t vkey(const struct view* w, unsigned rank) { unsigned s = vslot(w, rank); return w->k[s < MAXI ? s : 0]; }
static uint64_t vval(const struct view* w, unsigned rank) { unsigned s = vslot(w, rank); return w->v[s < MAXI ? s : 0]; }
static void sp_view(struct bkt* b, bstate_t st, struct view* w) {
  unsigned c = BS_item_count(st); w->ok = 1; w->m = 0;
  for (unsigned i = 0; i < MAXI; i++) { w->k[i] = 0; w->v[i] = 0; }
  if (c > NI) { w->ok = 0; c = NI; }
  for (unsigned i = 0; i < NI; i++) if (i < c) { w->k[i] = b->key[i]; w->v[i] = b->value[i]; }
  w->c = c;
  if (b->head != 0 && c != NI) w->ok = 0;
  if (BS_delete_marker(st) != 0) w->ok = 0;
  struct ext* p = b->head;
  for (unsigned i = 0; i < L; i++) if (p != 0) {
    int x = pool_idx(p);
    if (x < 0 || freed[x]) { w->ok = 0; p = 0; }
    else { w->k[NI + i] = p->key; w->v[NI + i] = p->value; w->m = i + 1; p = p->next; }
  }
  if (p != 0) w->ok = 0;                                               /* cyclic / leaves the pool */
  w->n = w->c + w->m;
}
static _Bool sp_distinct(const struct view* w) {
  for (unsigned i = 0; i < MAXI; i++) for (unsigned j = i + 1; j < MAXI; j++) if (vvalid(w, i) && vvalid(w, j) && w->k[i] == w->k[j]) return 0;
  return 1;
}
static int sp_rank_of_key(const struct view* w, uint64_t k) { for (unsigned i = 0; i < MAXI; i++) if (vvalid(w, i) && w->k[i] == k) return vrank(w, i); return -1; }
static int bucket_idx(struct bkt* b) { for (unsigned j = 0; j < NB; j++) if (b == &G.bks[j]) return (int)j; return -1; }
static _Bool is_end(const struct vit* it) {
  return it->block == 0 && it->current_bucket == 0 && it->current_bucket_state == 0 && it->index == 0 && it->extension == 0 && it->prev == 0; }
/* position in traversal order, -1 if the iterator designates nothing */
static int sp_rank(const struct vit* it) {
  struct bkt* b = it->current_bucket; unsigned c = BS_item_count(it->current_bucket_state);
  if (it->extension == 0) return it->index < c ? (int)it->index : -1;
  struct ext* p = b->head; unsigned i = 0;
  while (p != 0 && i < L) { if (pool_idx(p) < 0) return -1; if (p == it->extension) return (int)(c + i); p = p->next; i++; }
  return -1;
}
/* iterator invariant II; `also` = a bucket another iterator of this thread legitimately holds (or -1) */
static _Bool sp_II(const struct vit* it, int also) {
  int j = bucket_idx(it->current_bucket);
  if (j < 0 || it->block != &G) return 0;
  struct bkt* b = &G.bks[j]; bstate_t st = it->current_bucket_state;
  if (BS_is_locked(st) || b->state != BS_locked(st) || !held[j]) return 0;
  for (unsigned k = 0; k < NB; k++) if ((int)k != j && (int)k != also && (held[k] || BS_is_locked(G.bks[k].state))) return 0;
  if (it->extension == 0) return it->index < BS_item_count(st);
  if (it->prev == 0) return 0;                                          /* prev is never null when extension is set */
  _Bool cell_ok = (it->prev == &b->head), in_chain = 0;
  struct ext* p = b->head; unsigned i = 0;
  while (p != 0 && i < L) { if (pool_idx(p) < 0) return 0; if (p == it->extension) in_chain = 1; if (it->prev == &p->next) cell_ok = 1; p = p->next; i++; }
  return cell_ok && in_chain && *it->prev == it->extension;
}
static _Bool bkt_same(const struct bkt* a, const struct bkt* b) {
  if (a->state != b->state || a->head != b->head) return 0;
  for (unsigned s = 0; s < NI; s++) if (a->key[s] != b->key[s] || a->value[s] != b->value[s]) return 0;
  return 1;
}
static _Bool bkt_content_same(const struct bkt* a, const struct bkt* b) {
  if (a->head != b->head) return 0;
  for (unsigned s = 0; s < NI; s++) if (a->key[s] != b->key[s] || a->value[s] != b->value[s]) return 0;
  return 1;
}
static _Bool pool_same(const struct ext* e0) { for (unsigned i = 0; i < L; i++) if (E[i].key != e0[i].key || E[i].value != e0[i].value || E[i].next != e0[i].next) return 0; return 1; }
/* the iterator left bucket `from` (-1: begin): every bucket before the target is as in g0, the target is the first later
 * non-empty bucket and is held with II on slot 0, or end() with nothing held */
static _Bool sp_moved_ok(int from, const struct blk* g0, const struct vit* it) {
  unsigned t = NB;
  for (unsigned j = 0; j < NB; j++) if ((int)j > from && t == NB && BS_item_count(g0->bks[j].state) > 0) t = j;
  for (unsigned j = 0; j < NB; j++) {
    if ((int)j == from) continue;
    if (!bkt_content_same(&G.bks[j], &g0->bks[j])) return 0;
    if (j == t) { if (!(G.bks[j].state == BS_locked(g0->bks[j].state) && held[j])) return 0; }
    else if (G.bks[j].state != g0->bks[j].state || held[j]) return 0;
  }
  if (from >= 0 && held[from]) return 0;
  if (t == NB) return is_end(it);
  return it->block == &G && it->current_bucket == &G.bks[t] && it->current_bucket_state == g0->bks[t].state && it->index == 0
         && it->extension == 0 && sp_II(it, -1);
}

/* ================= state construction ================= */
static bstate_t mk_state(unsigned count, uint32_t version) {
  XV_ASSUME(count <= NI && version < (1u << (32 - version_shift)));
  return (bstate_t)((version << version_shift) | (count << item_count_shift));
}
unsigned in_cb, in_count, in_chain, in_rank; uint32_t in_ver; _Bool in_present, in_positioned;
/* every bucket: unlocked, representation invariant; bucket `focus` owns the chain E[0..chain-1] (pool order) */
static void havoc_world(unsigned focus, unsigned count, unsigned chain, uint32_t ver) {
  G.mask = NB - 1; G.bucket_count = NB; M.data_block = &G; g_focus = (int)focus; xv_clock = nondet_u64() >> 8; xv_threw = 0;
  XV_ASSUME(focus < NB && count <= NI && chain <= L && (chain == 0 || count == NI));
  E_other.key = nondet_u64(); E_other.value = nondet_u64(); E_other.next = 0; E_freelist.key = nondet_u64(); E_freelist.value = nondet_u64(); E_freelist.next = 0;
  for (unsigned j = 0; j < NB; j++) {
    unsigned c = nondet_uint(); XV_ASSUME(c <= NI);
    G.bks[j].state = mk_state(c, nondet_u32());
    G.bks[j].head = (c == NI && nondet_bool()) ? &E_other : 0;
    for (unsigned s = 0; s < NI; s++) { G.bks[j].key[s] = nondet_u64(); G.bks[j].value[s] = nondet_u64(); }
    held[j] = 0; unlink_pending[j] = 0; lock_clock[j] = 0; unlock_clock[j] = 0; lock_count[j] = 0; unlock_count[j] = 0; unlock_value[j] = 0;
  }
  G.bks[focus].state = mk_state(count, ver);
  G.bks[focus].head = chain > 0 ? &E[0] : 0;
  for (unsigned i = 0; i < L; i++) { E[i].key = nondet_u64(); E[i].value = nondet_u64(); E[i].next = (i + 1 < chain) ? &E[i + 1] : 0; freed[i] = 0; }
  for (unsigned j = 0; j < NB; j++) shadow[j] = G.bks[j].state;
  free_count = 0; mon_hoh = 0; env_on = 0;
}
/* a positioned iterator on rank r of bucket cb (built to satisfy II; the builder is self-checked) */
static void position(struct vit* it, unsigned cb, unsigned r) {
  struct bkt* b = &G.bks[cb]; bstate_t st = b->state; unsigned c = BS_item_count(st);
  it->block = &G; it->current_bucket = b; it->current_bucket_state = st; b->state = BS_locked(st); shadow[cb] = b->state; held[cb] = 1;
  unsigned pk = nondet_uint();
  if (r < c) { it->index = r; it->extension = 0; it->prev = (pk == 0 || pk > L) ? 0 : (pk == 1 ? &b->head : &E[pk - 2].next); }
  else { it->index = nondet_u32(); it->extension = &E[r - c]; it->prev = (r == c) ? &b->head : &E[r - c - 1].next; }
}
static void snapshot_pool(struct ext* e0) { for (unsigned i = 0; i < LP; i++) e0[i] = E[i]; }

/* ================= harnesses ================= */
void h_lock_bucket(void) {
  in_cb = CB; in_count = nondet_uint(); in_ver = nondet_u32();
  havoc_world(in_cb, in_count, 0, in_ver);
  uint64_t hash = nondet_u64(); XV_ASSUME((hash & G.mask) == in_cb);
  struct blk g0 = G; struct blk* guard = nondet_bool() ? &G : 0; bstate_t st = nondet_u32();
  struct bkt* b = vhm_lock_bucket(&M, hash, &guard, &st);
  XV_OBL("vhm.it.exclusive", b == &G.bks[in_cb] && st == g0.bks[in_cb].state && G.bks[in_cb].state == BS_locked(st) && held[in_cb] && guard == &G);
  XV_OBL("vhm.it.exclusive", lock_count[in_cb] == 1 && bkt_content_same(&G.bks[in_cb], &g0.bks[in_cb]));
  for (unsigned j = 0; j < NB; j++) if (j != in_cb) XV_OBL("vhm.it.exclusive", bkt_same(&G.bks[j], &g0.bks[j]) && !held[j]);
  XV_CANARY("lock_bucket.done");
}

void h_lock_bucket_int(void) {
#ifdef XV_INT
  havoc_world(0, nondet_uint(), 0, nondet_u32());
  uint64_t hash = nondet_u64(); unsigned t = (unsigned)(hash & G.mask);
  struct blk* guard = nondet_bool() ? &G : 0; bstate_t st = nondet_u32();
  env_on = 1;
  struct bkt* b = vhm_lock_bucket_cut(&M, hash, &guard, &st);
  xv_env();                                     /* the environment keeps running after the return */
  env_on = 0;
  XV_OBL("vhm.it.exclusive", b == &G.bks[t] && held[t] && !BS_is_locked(st) && G.bks[t].state == BS_locked(st) && guard == &G);
  for (unsigned j = 0; j < NB; j++) if (j != t) XV_OBL("vhm.it.exclusive", !held[j]);
  XV_CANARY("lock_bucket_int.done");
#endif
}

void h_find(void) {
  in_count = nondet_uint(); in_chain = nondet_uint(); in_ver = nondet_u32(); in_hash = nondet_u64(); in_rank = nondet_uint(); in_present = nondet_bool();
  in_cb = CB; XV_ASSUME((in_hash & (NB - 1)) == CB);
  havoc_world(in_cb, in_count, in_chain, in_ver);
  struct bkt* b = &G.bks[in_cb];
  struct view w0; sp_view(b, b->state, &w0); XV_ASSUME(w0.ok && sp_distinct(&w0));
  uint64_t key = nondet_u64();
  XV_ASSUME(in_present ? (in_rank < w0.n && vkey(&w0, in_rank) == key) : sp_rank_of_key(&w0, key) < 0);
  struct blk g0 = G; struct ext e0[LP]; snapshot_pool(e0);
  struct vit it = vhm_find(&M, key);
  if (in_present) {
    XV_OBL("vhm.it.find.position", it.current_bucket == b && it.current_bucket_state == g0.bks[in_cb].state);
    XV_OBL("vhm.it.find.position", sp_II(&it, -1));
    XV_OBL("vhm.it.find.position", sp_rank(&it) == (int)in_rank);
    XV_OBL("vhm.it.find.position", bkt_content_same(b, &g0.bks[in_cb]) && pool_same(e0));
    if (in_rank < in_count) XV_CANARY("find.array"); else if (in_rank == in_count) XV_CANARY("find.ext_head"); else XV_CANARY("find.ext_inner");
  } else {
    XV_OBL("vhm.it.find.position", is_end(&it));
    XV_OBL("vhm.it.find.position", bkt_same(b, &g0.bks[in_cb]) && !held[in_cb] && pool_same(e0));
    XV_OBL("vhm.it.reset.unlocks", lock_count[in_cb] == 1 && unlock_count[in_cb] == 1);
    if (w0.n == 0) XV_CANARY("find.absent_empty"); else XV_CANARY("find.absent");
  }
  for (unsigned j = 0; j < NB; j++) if (j != in_cb) XV_OBL("vhm.it.find.position", bkt_same(&G.bks[j], &g0.bks[j]) && !held[j]);
}

void h_begin(void) {
  havoc_world(0, nondet_uint(), 0, nondet_u32());
  struct blk g0 = G; mon_hoh = 1;
  struct vit it = vhm_begin(&M);
  XV_OBL("vhm.it.begin.first", sp_moved_ok(-1, &g0, &it));
  if (is_end(&it)) XV_CANARY("begin.empty_map");
  else if (it.current_bucket == &G.bks[0]) XV_CANARY("begin.bucket0");
#if NB >= 2
  else XV_CANARY("begin.later_bucket");
#endif
}

void h_next(void) {
  in_cb = CB; in_count = nondet_uint(); in_chain = nondet_uint(); in_ver = nondet_u32(); in_rank = nondet_uint();
  havoc_world(in_cb, in_count, in_chain, in_ver);
  struct bkt* b = &G.bks[in_cb]; struct view w0; sp_view(b, b->state, &w0); XV_ASSUME(w0.ok);
  XV_ASSUME(in_rank < w0.n);
  struct vit it; position(&it, in_cb, in_rank);
  XV_MODEL_ASSERT("position builds II", sp_II(&it, -1) && sp_rank(&it) == (int)in_rank);
  struct blk g0 = G; struct ext e0[LP]; snapshot_pool(e0); bstate_t cbs0 = it.current_bucket_state; mon_hoh = 1;
  struct vit* r = vit_next(&it);
  XV_OBL("vhm.it.traverse.once", r == &it && pool_same(e0) && bkt_content_same(b, &g0.bks[in_cb]));
  if (in_rank + 1 < w0.n) {
    XV_OBL("vhm.it.traverse.once", sp_II(&it, -1) && it.current_bucket == b && it.current_bucket_state == cbs0 && sp_rank(&it) == (int)in_rank + 1);
    for (unsigned j = 0; j < NB; j++) XV_OBL("vhm.it.traverse.once", bkt_same(&G.bks[j], &g0.bks[j]));
    if (in_rank + 1 < in_count) XV_CANARY("next.array"); else if (in_rank + 1 == in_count) XV_CANARY("next.array_to_chain"); else XV_CANARY("next.chain");
  } else {
    XV_OBL("vhm.it.traverse.once", sp_moved_ok((int)in_cb, &g0, &it) && b->state == cbs0);
    if (is_end(&it)) XV_CANARY("next.to_end");
#if CB + 1 < NB
    else XV_CANARY("next.to_next_bucket");
#endif
  }
}

void h_deref(void) {
  in_cb = CB; in_count = nondet_uint(); in_chain = nondet_uint(); in_ver = nondet_u32(); in_rank = nondet_uint();
  havoc_world(in_cb, in_count, in_chain, in_ver);
  struct bkt* b = &G.bks[in_cb]; struct view w0; sp_view(b, b->state, &w0); XV_ASSUME(w0.ok && in_rank < w0.n);
  struct vit it; position(&it, in_cb, in_rank);
  struct kv r = vit_deref(&it);
  XV_OBL("vhm.it.deref.current", r.first == vkey(&w0, in_rank) && r.second == vval(&w0, in_rank));
  if (it.extension) XV_CANARY("deref.ext"); else XV_CANARY("deref.array");
}

void h_erase(void) {
  in_cb = CB; in_count = nondet_uint(); in_chain = nondet_uint(); in_ver = nondet_u32(); in_rank = nondet_uint();
#ifdef XV_TRACE_SMALL
  XV_ASSUME(in_ver < 1000);
#endif
  havoc_world(in_cb, in_count, in_chain, in_ver);
  struct bkt* b = &G.bks[in_cb]; struct view w0; sp_view(b, b->state, &w0); XV_ASSUME(w0.ok && sp_distinct(&w0));
  XV_ASSUME(in_rank < w0.n);
  struct vit it; position(&it, in_cb, in_rank);
  XV_MODEL_ASSERT("position builds II", sp_II(&it, -1) && sp_rank(&it) == (int)in_rank);
  struct blk g0 = G; bstate_t cbs0 = it.current_bucket_state; uint32_t v0 = BS_version(cbs0);
  uint64_t cur_key = vkey(&w0, in_rank);
  uint64_t gk = nondet_u64();                                  /* an arbitrary key: ghost index over the abstract map */
  int og = sp_rank_of_key(&w0, gk);
  struct ext* cur_ext = it.extension; struct ext* old_head = b->head;
  mon_hoh = 1;
  vhm_erase_it(&M, &it);
  _Bool stays = (it.current_bucket == b);
  bstate_t st1 = stays ? it.current_bucket_state : b->state;   /* what is / will be published for this bucket */
  struct view w1; sp_view(b, st1, &w1);
  int ng = sp_rank_of_key(&w1, gk);
  /* exact */
  XV_OBL("vhm.it.erase.exact", w1.ok && sp_distinct(&w1) && w1.n + 1 == w0.n);
  if (gk == cur_key) XV_OBL("vhm.it.erase.exact", ng < 0);
  else {
    XV_OBL("vhm.it.erase.exact", (og < 0) == (ng < 0));
    if (og >= 0 && ng >= 0) XV_OBL("vhm.it.erase.exact", vval(&w1, (unsigned)ng) == vval(&w0, (unsigned)og));
  }
  if (cur_ext != 0) XV_OBL("vhm.it.erase.exact", free_count == 1 && freed[pool_idx(cur_ext) >= 0 ? pool_idx(cur_ext) : 0]);   /* case 1: the item itself */
  else if (old_head != 0) XV_OBL("vhm.it.erase.exact", free_count == 1 && freed[0]);                                           /* case 2: the chain head that was moved into the slot */
  else XV_OBL("vhm.it.erase.exact", free_count == 0);
  /* position: nothing revisited, nothing skipped */
  if (stays) {
    int r1 = sp_rank(&it);
    XV_OBL("vhm.it.erase.exact", r1 >= 0 && r1 < (int)w1.n);
    if (gk != cur_key && og >= 0 && ng >= 0) XV_OBL("vhm.it.erase.exact", (og < (int)in_rank) == (ng < r1));
    for (unsigned j = 0; j < NB; j++) if (j != in_cb) XV_OBL("vhm.it.erase.exact", bkt_same(&G.bks[j], &g0.bks[j]) && !held[j]);
  } else {
    if (gk != cur_key && og >= 0) XV_OBL("vhm.it.erase.exact", og < (int)in_rank);
    XV_OBL("vhm.it.erase.exact", sp_moved_ok((int)in_cb, &g0, &it) && !BS_is_locked(b->state));
  }
  /* the lock stays held (no unlocking store) for as long as the iterator stays on the bucket; it is released exactly once otherwise */
  if (stays) XV_OBL("vhm.it.exclusive", held[in_cb] && unlock_count[in_cb] == 0 && BS_is_locked(b->state));
  else XV_OBL("vhm.it.exclusive", !held[in_cb] && unlock_count[in_cb] == 1);
  /* version / II */
  uint32_t dv = (BS_version(st1) - v0) & ((1u << (32 - version_shift)) - 1);
  XV_OBL("vhm.it.erase.version_bumped", dv == 1 || dv == 2);
  if (stays) XV_OBL("vhm.it.erase.version_bumped", sp_II(&it, -1));
  else XV_OBL("vhm.it.erase.version_bumped", is_end(&it) || sp_II(&it, -1));
  XV_OBL("vhm.it.erase.version_bumped", BS_item_count(st1) == BS_item_count(cbs0) - (old_head == 0 ? 1u : 0u) && BS_delete_marker(st1) == 0 && !BS_is_locked(st1));
  XV_OBL("vhm.it.erase.reader_protocol", unlink_pending[in_cb] == 0);
  if (cur_ext != 0) { if (stays) XV_CANARY("erase.case1_stays"); else XV_CANARY("erase.case1_moves_on"); }
  else if (old_head != 0) XV_CANARY("erase.case2");
  else if (stays) XV_CANARY("erase.case3_stays"); else XV_CANARY("erase.case3_moves_on");
}

void h_reset(void) {
  in_cb = CB; in_count = nondet_uint(); in_chain = nondet_uint(); in_ver = nondet_u32(); in_rank = nondet_uint(); in_positioned = nondet_bool();
  havoc_world(in_cb, in_count, in_chain, in_ver);
  struct bkt* b = &G.bks[in_cb]; struct view w0; sp_view(b, b->state, &w0); XV_ASSUME(w0.ok);
  struct vit it = VIT_default(); struct ext e0[LP]; snapshot_pool(e0);
  if (in_positioned) {
    XV_ASSUME(in_rank < w0.n); position(&it, in_cb, in_rank);
    it.current_bucket_state = mk_state(nondet_uint(), nondet_u32());      /* whatever the iterator wants to publish (erase may have changed it) */
    b->state = BS_locked(it.current_bucket_state); shadow[in_cb] = b->state;
  }
  struct blk g0 = G; bstate_t cbs0 = it.current_bucket_state;
  vit_reset(&it);
  XV_OBL("vhm.it.reset.unlocks", is_end(&it) && mon_nothing_held() && pool_same(e0));
  for (unsigned j = 0; j < NB; j++) {
    if (in_positioned && j == in_cb) XV_OBL("vhm.it.reset.unlocks", G.bks[j].state == cbs0 && !BS_is_locked(G.bks[j].state) && bkt_content_same(&G.bks[j], &g0.bks[j]) && unlock_count[j] == 1);
    else XV_OBL("vhm.it.reset.unlocks", bkt_same(&G.bks[j], &g0.bks[j]) && unlock_count[j] == 0);
  }
  if (in_positioned) XV_CANARY("reset.positioned"); else XV_CANARY("reset.end");
}

static void mnb_common(void) {
  in_cb = CB; in_count = nondet_uint(); in_ver = nondet_u32();
  havoc_world(in_cb, in_count, 0, in_ver);
  struct bkt* b = &G.bks[in_cb];
  struct vit it; it.block = &G; it.current_bucket = b; g_it = &it;
  for (unsigned j = 0; j < NB; j++) held_at_entry[j] = nondet_bool();
  it.current_bucket_state = b->state; b->state = BS_locked(b->state); shadow[in_cb] = b->state; held[in_cb] = 1;
  it.index = nondet_u32(); it.extension = nondet_bool() ? &E_other : 0; it.prev = nondet_bool() ? &b->head : 0;   /* any position: the function does not look at it */
  struct blk g0 = G; g0.bks[in_cb].state = it.current_bucket_state; bstate_t cbs0 = it.current_bucket_state;
  mon_hoh = 1;
#ifndef XV_INT
  vit_move_to_next_bucket(&it);
  XV_OBL("vhm.it.next_bucket.hand_over_hand", b->state == cbs0 && bkt_content_same(b, &g0.bks[in_cb]) && unlock_count[in_cb] == 1);
  XV_OBL("vhm.it.next_bucket.hand_over_hand", sp_moved_ok((int)in_cb, &g0, &it));
  for (unsigned j = 0; j < NB; j++) if (j > in_cb && lock_count[j] > 0)
    XV_OBL("vhm.it.next_bucket.hand_over_hand", lock_count[j] == 1 && lock_clock[j] < unlock_clock[j - 1]);
  for (unsigned j = 0; j < NB; j++) if (j < in_cb) XV_OBL("vhm.it.next_bucket.hand_over_hand", lock_count[j] == 0 && unlock_count[j] == 0);
#if CB == NB - 1
  if (is_end(&it)) XV_CANARY("mnb.last_bucket");
#else
  if (is_end(&it)) XV_CANARY("mnb.skipped_to_end");
  else if (it.current_bucket == b + 1) XV_CANARY("mnb.adjacent");
#if CB + 2 < NB
  else XV_CANARY("mnb.skipped_empty");
#endif
#endif
#else
  /* under interference: whatever the other threads did to buckets the iterator does not hold, it published its copy on the bucket it
   * left, and ends holding exactly its new bucket with II (or nothing at end()) */
  env_on = 1; vit_move_to_next_bucket_cut(&it); xv_env(); env_on = 0;
  XV_OBL("vhm.it.exclusive", !held[in_cb] && unlock_count[in_cb] == 1 && unlock_value[in_cb] == cbs0);
  if (is_end(&it)) { XV_OBL("vhm.it.exclusive", mon_nothing_held()); XV_CANARY("mnb_int.end"); }
#if CB + 1 < NB
  else {
    int j = bucket_idx(it.current_bucket);
    XV_OBL("vhm.it.exclusive", j > (int)in_cb && mon_only_held(it.current_bucket) && G.bks[j >= 0 ? j : 0].state == BS_locked(it.current_bucket_state)
                               && !BS_is_locked(it.current_bucket_state) && BS_item_count(it.current_bucket_state) > 0 && it.index == 0 && it.extension == 0);
    XV_CANARY("mnb_int.positioned");
  }
#endif
#endif
}
void h_mnb(void) { mnb_common(); }
void h_mnb_int(void) { mnb_common(); }

void h_move_ctor(void) {
  in_cb = CB; in_count = nondet_uint(); in_chain = nondet_uint(); in_ver = nondet_u32(); in_rank = nondet_uint(); in_positioned = nondet_bool();
  havoc_world(in_cb, in_count, in_chain, in_ver);
  struct bkt* b = &G.bks[in_cb]; struct view w0; sp_view(b, b->state, &w0); XV_ASSUME(w0.ok);
  struct vit other = VIT_default(), self;
  self.block = nondet_bool() ? &G : 0; self.current_bucket = nondet_bool() ? b : 0; self.current_bucket_state = nondet_u32(); self.index = nondet_u32();
  self.extension = nondet_bool() ? &E_other : 0; self.prev = nondet_bool() ? &b->head : 0;       /* raw storage */
  if (in_positioned) { XV_ASSUME(in_rank < w0.n); position(&other, in_cb, in_rank); }
  struct blk g0 = G; struct vit o0 = other; struct ext e0[LP]; snapshot_pool(e0);
  vit_move_ctor(&self, &other);
  XV_OBL("vhm.it.move.transfers", self.block == o0.block && self.current_bucket == o0.current_bucket && self.current_bucket_state == o0.current_bucket_state
                                   && self.index == o0.index && self.extension == o0.extension && self.prev == o0.prev);
  XV_OBL("vhm.it.move.transfers", is_end(&other) && pool_same(e0));
  for (unsigned j = 0; j < NB; j++) XV_OBL("vhm.it.move.transfers", bkt_same(&G.bks[j], &g0.bks[j]) && held[j] == (in_positioned && j == in_cb));
  if (in_positioned) { XV_OBL("vhm.it.move.transfers", sp_II(&self, -1)); XV_CANARY("move_ctor.positioned"); } else XV_CANARY("move_ctor.end");
}

unsigned in_cb2; _Bool in_positioned2;
void h_move_assign(void) {
  in_cb = CB; in_count = nondet_uint(); in_chain = nondet_uint(); in_ver = nondet_u32(); in_rank = nondet_uint(); in_positioned = nondet_bool();
  in_cb2 = (CB + 1) % NB; in_positioned2 = nondet_bool();
  havoc_world(in_cb, in_count, in_chain, in_ver);
  struct bkt* b = &G.bks[in_cb]; struct view w0; sp_view(b, b->state, &w0); XV_ASSUME(w0.ok);
  struct vit other = VIT_default(), self = VIT_default();
  if (in_positioned) { XV_ASSUME(in_rank < w0.n); position(&other, in_cb, in_rank); }
  if (in_positioned2) {                         /* the target holds another bucket (on an array slot) */
    XV_ASSUME(in_cb2 < NB && in_cb2 != in_cb && BS_item_count(G.bks[in_cb2].state) > 0);
    struct bkt* b2 = &G.bks[in_cb2]; self.block = &G; self.current_bucket = b2; self.current_bucket_state = b2->state; self.index = 0;
    b2->state = BS_locked(b2->state); shadow[in_cb2] = b2->state; held[in_cb2] = 1;
    XV_MODEL_ASSERT("two iterators: II", sp_II(&self, in_positioned ? (int)in_cb : -1));
  }
  struct blk g0 = G; struct vit o0 = other, s0 = self; struct ext e0[LP]; snapshot_pool(e0);
  struct vit* r = vit_move_assign(&self, &other);
  XV_OBL("vhm.it.move.transfers", r == &self && self.block == o0.block && self.current_bucket == o0.current_bucket && self.current_bucket_state == o0.current_bucket_state
                                   && self.index == o0.index && self.extension == o0.extension && self.prev == o0.prev);
  XV_OBL("vhm.it.move.transfers", is_end(&other) && pool_same(e0));
  for (unsigned j = 0; j < NB; j++) {
    if (in_positioned2 && j == in_cb2)
      XV_OBL("vhm.it.move.transfers", !held[j] && G.bks[j].state == s0.current_bucket_state && bkt_content_same(&G.bks[j], &g0.bks[j]));   /* the lock the target held is released */
    else XV_OBL("vhm.it.move.transfers", bkt_same(&G.bks[j], &g0.bks[j]) && held[j] == (in_positioned && j == in_cb));
  }
  if (in_positioned) XV_OBL("vhm.it.move.transfers", sp_II(&self, -1));
  if (in_positioned2) { if (in_positioned) XV_CANARY("move_assign.both_positioned"); else XV_CANARY("move_assign.end_over_positioned"); }
  else if (in_positioned) XV_CANARY("move_assign.positioned_over_end"); else XV_CANARY("move_assign.end_over_end");
}

/* whole traversal on a small map: every element of every bucket is yielded exactly once (bounded cross-check of the induction) */
void h_traverse(void) {
  in_cb = CB; in_count = nondet_uint(); in_chain = nondet_uint();
  havoc_world(in_cb, in_count, in_chain, nondet_u32());
  unsigned gb = nondet_uint(), gr = nondet_uint(); XV_ASSUME(gb < NB);
  struct view wg; sp_view(&G.bks[gb], G.bks[gb].state, &wg); XV_ASSUME(wg.ok);
  if (gb != in_cb) XV_ASSUME(G.bks[gb].head == 0);
  XV_ASSUME(gr < wg.n);
  unsigned total = 0; for (unsigned j = 0; j < NB; j++) { XV_ASSUME(j == in_cb || G.bks[j].head == 0); total += BS_item_count(G.bks[j].state); } total += in_chain;
  struct blk g0 = G;
  unsigned visits = 0, steps = 0;
  struct vit it = vhm_begin(&M);
  while (!is_end(&it) && steps < 3 * NB + L + 1) {
    XV_OBL("vhm.it.traverse.once", sp_II(&it, -1));
    if (it.current_bucket == &G.bks[gb] && sp_rank(&it) == (int)gr) {
      struct kv r = vit_deref(&it);
      XV_OBL("vhm.it.traverse.once", r.first == vkey(&wg, gr) && r.second == vval(&wg, gr));
      visits++;
    }
    vit_next(&it); steps++;
  }
  XV_OBL("vhm.it.traverse.once", is_end(&it) && visits == 1 && steps == total && mon_nothing_held());
  for (unsigned j = 0; j < NB; j++) XV_OBL("vhm.it.traverse.once", bkt_same(&G.bks[j], &g0.bks[j]));
  if (total >= 3) XV_CANARY("traverse.three_or_more");
}
