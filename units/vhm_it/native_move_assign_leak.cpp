// iterator::operator=(iterator&&) overwrites a positioned iterator without unlocking the bucket it holds: the lock of
// that bucket is never released (no iterator refers to it any more), every later update of the bucket spins for ever.
// Exit 0 = fine, 1 = defect shown.
#include <xenium/vyukov_hash_map.hpp>
#include <xenium/reclamation/generic_epoch_based.hpp>
#include <cstdio>
#include <unistd.h>
struct idhash { std::size_t operator()(std::uint64_t k) const { return k; } };
using M = xenium::vyukov_hash_map<std::uint64_t, std::uint64_t, xenium::policy::reclaimer<xenium::reclamation::epoch_based<>>,
                                  xenium::policy::hash<idhash>>;
static bool locked(M& m, unsigned b) { return m.data_block.load().get()->buckets()[b].state.load().is_locked(); }
int main() {
  M m(256);
  m.emplace(0, 10); m.emplace(1, 11);          // bucket 0 and bucket 1
  int bad = 0;
  {
    auto it = m.find(0);                       // holds bucket 0
    it = m.find(1);                            // now holds bucket 1 ... and bucket 0?
    printf("after `it = m.find(1)`: bucket0 locked=%d bucket1 locked=%d\n", (int)locked(m, 0), (int)locked(m, 1));
    it.reset();
  }
  printf("after reset/destruction of every iterator: bucket0 locked=%d bucket1 locked=%d\n", (int)locked(m, 0), (int)locked(m, 1));
  if (locked(m, 0) || locked(m, 1)) { printf("a bucket lock was leaked: emplace/erase/find on that bucket would now spin for ever\n"); bad = 1; }
  fflush(stdout);
  _exit(bad);   // not `return`: ~vyukov_hash_map() calls begin(), which would spin on the leaked lock of bucket 0
}
