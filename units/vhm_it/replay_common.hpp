// shared by the native replay programs of unit vhm_it: the real vyukov_hash_map<uint64,uint64> with an identity hash on 256
// buckets, so that keys congruent modulo 256 collide in one bucket and overflow into its extension list.
#include <xenium/vyukov_hash_map.hpp>
#include <xenium/reclamation/generic_epoch_based.hpp>
#include <cstdio>
#include <cstdlib>
#include <cstring>
#include <map>
#include <string>
#include <vector>
#include <unistd.h>
struct idhash { std::size_t operator()(std::uint64_t k) const { return k; } };
using M = xenium::vyukov_hash_map<std::uint64_t, std::uint64_t, xenium::policy::reclaimer<xenium::reclamation::epoch_based<>>,
                                  xenium::policy::hash<idhash>>;
static std::map<std::string, unsigned long long> args;
static void parse(int argc, char** argv) {
  for (int i = 1; i < argc; ++i) { char* eq = strchr(argv[i], '='); if (!eq) continue; std::string k(argv[i], eq - argv[i]);
    const char* v = eq + 1; args[k] = (!strcmp(v, "TRUE") || !strcmp(v, "true")) ? 1 : (!strcmp(v, "FALSE") || !strcmp(v, "false")) ? 0 : strtoull(v, 0, 0); }
}
static M::bucket& bkt(M& m, unsigned b) { return m.data_block.load().get()->buckets()[b]; }
static M::bucket_state st(M& m, unsigned b) { return bkt(m, b).state.load(); }
// fill bucket cb with `n` colliding keys; returns them in traversal order (array slots, then the extension list in link order)
static std::vector<std::uint64_t> fill(M& m, unsigned cb, unsigned n, std::map<std::uint64_t, std::uint64_t>& ref) {
  for (unsigned i = 0; i < n; ++i) { std::uint64_t k = cb + 256ull * (i + 1); m.emplace(k, 1000 + i); ref[k] = 1000 + i; }
  std::vector<std::uint64_t> order;
  auto& b = bkt(m, cb);
  for (unsigned i = 0; i < b.state.load().item_count(); ++i) order.push_back(b.key[i].load());
  for (auto* e = b.head.load(); e; e = e->next.load()) order.push_back(e->key.load());
  return order;
}
// iterator invariant II on the real objects
static bool II(M& m, M::iterator& it, const char** why) {
  if (!it.current_bucket) { *why = "not positioned"; return false; }
  auto s = it.current_bucket->state.load();
  if (!s.is_locked()) { *why = "bucket not locked"; return false; }
  if (it.current_bucket_state.is_locked() || !(s == it.current_bucket_state.locked())) { *why = "bucket state != iterator copy with the lock bit (the copy is what reset()/++ publish)"; return false; }
  if (!it.extension) { if (it.index >= it.current_bucket_state.item_count()) { *why = "index >= item_count"; return false; } return true; }
  if (!it.prev) { *why = "extension set but prev == nullptr"; return false; }
  if (it.prev->load() != it.extension) { *why = "*prev != extension"; return false; }
  return true;
}
[[noreturn]] static void finish(int rc) { fflush(stdout); _exit(rc); }   // skip ~vyukov_hash_map(): it spins if a lock was leaked
