// F2: vyukov_hash_map::find(key) leaves iterator::prev == nullptr when the key sits in an extension item;
// erase(find(key)) then stores through the null pointer.  Exit 0 = fine, 1 = defect shown (invariant broken, and
// erase() crashes when run with argument "erase").
#include <xenium/vyukov_hash_map.hpp>
#include <xenium/reclamation/generic_epoch_based.hpp>
#include <cstdio>
#include <cstring>
#include <csignal>
#include <cstdlib>
struct idhash { std::size_t operator()(std::uint64_t k) const { return k; } };
using M = xenium::vyukov_hash_map<std::uint64_t, std::uint64_t, xenium::policy::reclaimer<xenium::reclamation::epoch_based<>>,
                                  xenium::policy::hash<idhash>>;
static void on_segv(int) { const char m[] = "erase(find(k)) on an extension item: SIGSEGV (store through iterator::prev == nullptr)\n";
  (void)!write(1, m, sizeof m - 1); _exit(1); }
int main(int argc, char** argv) {
  M m(256);
  for (std::uint64_t i = 1; i <= 5; i++) m.emplace(i * 256, i);   // bucket 0: 3 array items + 2 extension items
  int bad = 0;
  for (std::uint64_t i = 1; i <= 5; i++) {
    auto it = m.find(i * 256);
    if (it == m.end()) { printf("key %lu not found\n", (unsigned long)(i * 256)); return 2; }
    if (it.extension) {
      bool ok = it.prev != nullptr && it.prev->load() == it.extension;
      printf("find(%lu): extension item, prev=%p %s\n", (unsigned long)(i * 256), (void*)it.prev, ok ? "ok" : "<-- *prev != extension");
      if (!ok) bad = 1;
    }
  }
  if (argc > 1 && !strcmp(argv[1], "erase")) {
    signal(SIGSEGV, on_segv);
    std::uint64_t k = 0;
    { auto it = m.begin(); for (; it != m.end(); ++it) if (it.extension) { k = (*it).first; break; } }
    auto it = m.find(k);
    m.erase(it);
    it.reset();
    M::accessor a;
    bool still = m.try_get_value(k, a);
    printf("erase(find(%lu)) returned, key still present: %d\n", (unsigned long)k, (int)still);
    if (still) bad = 1;
  }
  return bad;
}
