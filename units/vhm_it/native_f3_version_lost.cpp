// F3: erase(iterator&) cases 1 (extension item) and 2 (array item refilled from the extension list) store the bumped
// version into the bucket but not into iterator::current_bucket_state, which is what reset()/move_to_next_bucket()
// write back at unlock: the published version does not change, so a lock-free reader's version validation
// (try_get_value: state.version() != state2.version()) cannot see the removal.  Exit 0 = fine, 1 = defect shown.
#include <xenium/vyukov_hash_map.hpp>
#include <xenium/reclamation/generic_epoch_based.hpp>
#include <cstdio>
struct idhash { std::size_t operator()(std::uint64_t k) const { return k; } };
using M = xenium::vyukov_hash_map<std::uint64_t, std::uint64_t, xenium::policy::reclaimer<xenium::reclamation::epoch_based<>>,
                                  xenium::policy::hash<idhash>>;
static M::bucket& b0(M& m) { return m.data_block.load().get()->buckets()[0]; }
static unsigned ver(M& m) { return b0(m).state.load().version(); }
static bool locked(M& m) { return b0(m).state.load().is_locked(); }
int main() {
  M m(256);
  for (std::uint64_t i = 1; i <= 6; i++) m.emplace(i * 256, i);   // bucket 0: 3 array items + 3 extension items
  int bad = 0;
  unsigned v0 = ver(m);
  { auto it = m.begin(); m.erase(it); it.reset(); }                       // case 2: array item, refilled from the list
  unsigned v1 = ver(m);
  { auto it = m.begin(); ++it; ++it; ++it; m.erase(it); it.reset(); }     // case 1: extension item
  unsigned v2 = ver(m);
  { auto it = m.begin(); ++it; ++it; ++it; m.erase(it);                   // case 1, last extension item, then the
    /* iterator moved to the next bucket / end by itself */ it.reset(); } //         iterator leaves the bucket
  unsigned v3 = ver(m);
  { auto it = m.begin(); m.erase(it); it.reset(); }                       // case 3: array item, no list
  unsigned v4 = ver(m);
  printf("published version of bucket 0: start=%u  after case 2=%u  after case 1=%u  after case 1 (leaves bucket)=%u  after case 3=%u  locked=%d\n",
         v0, v1, v2, v3, v4, (int)locked(m));
  if (v1 == v0) { printf("case 2: version not bumped at unlock\n"); bad = 1; }
  if (v2 == v1) { printf("case 1: version not bumped at unlock\n"); bad = 1; }
  if (v3 == v2) { printf("case 1 (iterator moves on): version not bumped at unlock\n"); bad = 1; }
  if (v4 == v3) { printf("case 3: version not bumped at unlock\n"); bad = 1; }
  // while the iterator stays in the bucket, two consecutive case-1 erases publish the SAME (locked) version
  for (std::uint64_t i = 7; i <= 9; i++) m.emplace(i * 256, i);
  { auto it = m.begin(); ++it; ++it; ++it;
    unsigned a = ver(m); m.erase(it); unsigned b = ver(m); m.erase(it); unsigned c = ver(m);
    printf("two erases of extension items under one iterator: version %u -> %u -> %u\n", a, b, c);
    if (b == a || c == b) { printf("second removal is invisible to a reader that saw the first\n"); bad = 1; }
    it.reset(); }
  return bad;
}
