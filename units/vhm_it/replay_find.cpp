// native replay for vhm.it.find.position: find(key) on the real class, bucket in_cb filled with in_count array items and
// in_chain extension items, key at traversal rank in_rank (or absent).  0 = holds, 1 = violation reproduced, 2 = cannot represent.
#include "replay_common.hpp"
int main(int argc, char** argv) {
  parse(argc, argv);
  unsigned cb = args["in_cb"], count = args["in_count"], chain = args["in_chain"], rank = args["in_rank"]; bool present = args["in_present"];
  if (count > 3 || (chain > 0 && count != 3) || chain > 8 || cb > 255) { printf("shape not representable\n"); return 2; }
  M m(256); std::map<std::uint64_t, std::uint64_t> ref;
  auto order = fill(m, cb, count + chain, ref);
  if (present && rank >= order.size()) { printf("rank outside the bucket\n"); return 2; }
  std::uint64_t key = present ? order[rank] : cb + 256ull * 100;
  auto before = st(m, cb);
  int bad = 0;
  {
    auto it = m.find(key);
    if (present) {
      const char* why = "";
      if (it == m.end()) { printf("find(%llu): present key not found\n", (unsigned long long)key); finish(1); }
      if (!II(m, it, &why)) { printf("find(%llu) [rank %u, %s]: iterator invariant broken: %s\n", (unsigned long long)key, rank, it.extension ? "extension item" : "array slot", why); bad = 1; }
      else if ((*it).first != key || (*it).second != ref[key]) { printf("find(%llu) designates another element\n", (unsigned long long)key); bad = 1; }
      if (bad && it.extension && !it.prev) { printf("(erase(it) would now store through the null prev pointer)\n"); }
      if (!bad) {                                     // what the position is for: erase through it must work
        m.erase(it); it.reset(); M::accessor a;
        if (m.try_get_value(key, a)) { printf("erase(find(%llu)) did not remove the key\n", (unsigned long long)key); bad = 1; }
      } else { it.extension = nullptr; it.reset(); }
    } else {
      if (!(it == m.end())) { printf("find(absent) != end()\n"); bad = 1; }
      if (st(m, cb).is_locked() || !(st(m, cb) == before)) { printf("find(absent): bucket left locked or its state changed\n"); bad = 1; }
    }
  }
  if (st(m, cb).is_locked()) { printf("bucket still locked after the iterator is gone\n"); bad = 1; }
  printf("find: count=%u chain=%u rank=%u present=%d -> %s\n", count, chain, rank, (int)present, bad ? "VIOLATION" : "ok");
  finish(bad);
}
