// native replay for vhm.it.move.transfers (move assignment): target positioned on bucket in_cb2 (if in_positioned2), source on
// bucket in_cb (if in_positioned); after `target = std::move(source)` and reset of both, no bucket may stay locked.
#include "replay_common.hpp"
int main(int argc, char** argv) {
  parse(argc, argv);
  unsigned cb = args["in_cb"], cb2 = args["in_cb2"]; bool p1 = args["in_positioned"], p2 = args["in_positioned2"];
  if (cb > 255 || cb2 > 255 || cb == cb2) { printf("shape not representable\n"); return 2; }
  M m(256); std::map<std::uint64_t, std::uint64_t> ref;
  fill(m, cb, 2, ref); fill(m, cb2, 2, ref);
  int bad = 0;
  {
    M::iterator target, source;
    if (p2) target = m.find(cb2 + 256);
    if (p1) source = m.find(cb + 256);
    target = std::move(source);
    printf("after the move assignment: bucket %u locked=%d, bucket %u locked=%d\n", cb, (int)st(m, cb).is_locked(), cb2, (int)st(m, cb2).is_locked());
    if (p1) { const char* why = ""; if (!II(m, target, &why)) { printf("target does not hold the source's position: %s\n", why); bad = 1; } }
    if (!(source == m.end())) { printf("source is not end() after the move\n"); bad = 1; }
    target.reset(); source.reset();
  }
  if (st(m, cb).is_locked() || st(m, cb2).is_locked()) {
    printf("every iterator is reset/destroyed but bucket %u is still locked: the lock the target held was leaked\n", st(m, cb).is_locked() ? cb : cb2); bad = 1; }
  finish(bad);
}
