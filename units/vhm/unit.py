import os, re
from xvlib.engine import VERIF
exec(open(os.path.join(VERIF, 'units', 'vhm_bs', 'bs_sources.py')).read())     # IMPL, HDR, BS_CONSTS, BS_SOURCES
exec(open(os.path.join(VERIF, 'units', 'vhm', 'vhm_rules.py')).read())        # throw_checks, try_catch, raii
TRAITS = 'xenium/impl/vyukov_hash_map_traits.hpp'

BSM = {'item_count': 'BS_item_count', 'delete_marker': 'BS_delete_marker', 'version': 'BS_version', 'is_locked': 'BS_is_locked',
       'locked': 'BS_locked', 'clear_lock': 'BS_clear_lock', 'new_version': 'BS_new_version', 'inc_item_count': 'BS_inc_item_count',
       'dec_item_count': 'BS_dec_item_count', 'set_delete_marker': 'BS_set_delete_marker'}
SUB_COMMON = [(r'\bbackoff backoff;', '', 'backoff_decl'), (r'\bbackoff\(\);', 'XV_BACKOFF();', 'backoff_call'),
              (r'\bbucket_state\b', 'bstate_t', 'bstate_type')]
# ---------------------------------------------------------------------------------------------- small member functions
EBF = dict(file=IMPL, members=['lock'], subst=SUB_COMMON)
UNL = dict(file=IMPL, members=['enabled', 'state', 'locked_bucket'], methods=BSM, subst=SUB_COMMON,
           post_subst=[(r'self->locked_bucket\.', 'self->locked_bucket->', 'ref_member')])
def ref_params(*names):
    return [(r'(?<![\w.>])%s\b' % n, '(*%s_p)' % n, 'ref:' + n) for n in names]
def trait(id, sig, which, c_sig, **kw):
    d = dict(id=id, file=TRAITS, sig=sig, which=which, c_sig=c_sig)
    d.update(kw); return d
GP = [(r'typename storage_value_type::guard_ptr\(', 'GP_make(', 'guard_ptr_ctor')]
def acc_ctor_post(s, lw):
    s = lw.methods(s)
    s, n = re.subn(r'\bA_LOAD\(v,', 'A_LOAD((*v_p),', s); lw.fire('ref:v', n)
    s, n = re.subn(r'\bacquire_guard\(v,', 'ACQUIRE_GUARD((*v_p),', s); lw.fire('ref:v', n)
    # a member initialiser that reads a member initialised before it (MN: value_guard(acquire_guard(node_guard->value, order)))
    s, n = re.subn(r'\bacquire_guard\((\w+)->', r'ACQUIRE_GUARD(self->\1->', s); lw.fire('init_reads_member', n)
    return s

TRAIT_SOURCES = [
  # ---- TRIVIAL: vyukov_hash_map_traits<Key, Value, ..., true, true> (3rd specialisation) + bits::vyukov_hash_map_trivial_key
  trait('tk_compare_key', r'static bool compare_key\(', 2,
        'static _Bool tk_compare_key(_Bool AcquireAccessor, kcell_t* key_cell_p, t_vcell* value_cell_p, kkey_t key, hash_t hash, struct t_accessor* acc_p)',
        post_subst=ref_params('key_cell', 'value_cell', 'acc'), must_fire={'A_LOAD': 2, 'ref:acc': 1}),
  trait('tk_store_item', r'static void store_item\(', 2,
        'static void tk_store_item(_Bool AcquireAccessor, kcell_t* key_cell_p, t_vcell* value_cell_p, hash_t hash, kkey_t k, vval_t v, int order, struct t_accessor* acc_p)',
        post_subst=ref_params('key_cell', 'value_cell', 'acc'), must_fire={'A_STORE': 2, 'ref:acc': 1}),
  trait('tk_acc_ctor', r'accessor\(storage_value_type& v, std::memory_order order\)', 2,
        'static void tk_acc_ctor(struct t_accessor* self, t_vcell* v_p, int order)', ctor=True, py_post=acc_ctor_post,
        must_fire={'ctor_init': 1, 'A_LOAD': 1, 'ref:v': 1}),
  trait('tk_acquire', r'static accessor acquire\(storage_value_type& v, std::memory_order order\)', 2,
        'static struct t_accessor tk_acquire(t_vcell* v_p, int order)', calls={'accessor': 'TK_ACC'}, post_subst=[(r'TK_ACC\(v,', 'TK_ACC(v_p,', 'ref:v')],
        must_fire={'call:accessor': 1, 'ref:v': 1}),
  trait('tk_reclaim', r'static void reclaim\(accessor&( a)?\)', 2, 'static void tk_reclaim(struct t_accessor* a_p)', must_fire={}),
  trait('tk_reclaim_internal', r'static void reclaim_internal\(accessor&( a)?\)', 2, 'static void tk_reclaim_internal(struct t_accessor* a_p)', must_fire={}),
  trait('tk_compare_trivial_key', r'static bool compare_trivial_key\(', 0,
        'static _Bool tk_compare_trivial_key(kcell_t* key_cell_p, kkey_t key, hash_t hash)', post_subst=ref_params('key_cell'), must_fire={'A_LOAD': 1}),
  trait('tk_compare_nontrivial_key', r'static bool compare_nontrivial_key\(', 0,
        'static _Bool tk_compare_nontrivial_key(const struct t_accessor* acc_p, kkey_t key)', must_fire={}),
  trait('tk_reset', r'static void reset\(accessor&&\)', 0, 'static void tk_reset(struct t_accessor* acc_p)', must_fire={}),
  trait('tk_rehash', r'static hash_t rehash\(', 0, 'static hash_t tk_rehash(kkey_t k)',
        subst=[(r'\bHash\{\}\((\w+)\)', r'XV_HASH(\1)', 'hash_call')], must_fire={'subst:hash_call': 1}),
  # ---- NONTRIVIAL: vyukov_hash_map_traits<Key, Value, ..., false, TrivialValue> (5th specialisation) + bits::vyukov_hash_map_nontrivial_key
  trait('nk_acc_key', r'const Key& key\(\) const', 1, 'static kkey_t nk_acc_key(const struct n_accessor* self)', members=['guard'], must_fire={'member:guard': 1}),
  trait('nk_compare_key', r'static bool compare_key\(', 4,
        'static _Bool nk_compare_key(_Bool AcquireAccessor, kcell_t* key_cell_p, n_vcell* value_cell_p, kkey_t key, hash_t hash, struct n_accessor* acc_p)',
        pre_subst=GP, may_throw=['GP_make'], post_subst=ref_params('key_cell', 'value_cell', 'acc'),
        must_fire={'A_LOAD': 2, 'subst:guard_ptr_ctor': 1, 'may_throw:GP_make': 1, 'ref:acc': 2}),
  trait('nk_store_item', r'static void store_item\(', 4,
        'static void nk_store_item(_Bool AcquireAccessor, kcell_t* key_cell_p, n_vcell* value_cell_p, hash_t hash, kkey_t k, vval_t v, int order, struct n_accessor* acc_p)',
        pre_subst=[(r'typename storage_value_type::guard_ptr\(', 'GP_make_nothrow(', 'guard_ptr_ctor'), (r'\bnew node\(', 'XV_NEW_NODE(', 'new_node')],
        may_throw=['XV_NEW_NODE'], post_subst=ref_params('key_cell', 'value_cell', 'acc'),
        must_fire={'A_STORE': 2, 'subst:new_node': 1, 'may_throw:XV_NEW_NODE': 1, 'subst:guard_ptr_ctor': 1}),
  trait('nk_acc_ctor', r'accessor\(storage_value_type& v, std::memory_order order\)', 4,
        'static void nk_acc_ctor(struct n_accessor* self, n_vcell* v_p, int order)', ctor=True, py_post=acc_ctor_post,
        must_fire={'ctor_init': 1, 'ref:v': 1}),
  trait('nk_acquire', r'static accessor acquire\(storage_value_type& v, std::memory_order order\)', 4,
        'static struct n_accessor nk_acquire(n_vcell* v_p, int order)', calls={'accessor': 'NK_ACC'}, post_subst=[(r'NK_ACC\(v,', 'NK_ACC(v_p,', 'ref:v')],
        must_fire={'call:accessor': 1, 'ref:v': 1}),
  trait('nk_reclaim', r'static void reclaim\(accessor&( a)?\)', 4, 'static void nk_reclaim(struct n_accessor* a_p)',
        methods={'reclaim': 'GP_reclaim'}, post_subst=ref_params('a'), must_fire={'method:reclaim': 1}),
  trait('nk_reclaim_internal', r'static void reclaim_internal\(accessor&( a)?\)', 4, 'static void nk_reclaim_internal(struct n_accessor* a_p)',
        methods={'reclaim': 'GP_reclaim'}, post_subst=ref_params('a'), must_fire={'method:reclaim': 1, 'auto': 1}),
  trait('nk_compare_trivial_key', r'static bool compare_trivial_key\(', 1,
        'static _Bool nk_compare_trivial_key(kcell_t* key_cell_p, kkey_t key, hash_t hash)', post_subst=ref_params('key_cell'), must_fire={'A_LOAD': 1}),
  trait('nk_compare_nontrivial_key', r'static bool compare_nontrivial_key\(', 1,
        'static _Bool nk_compare_nontrivial_key(const struct n_accessor* acc_p, kkey_t key)', methods={'key': 'NK_ACC_key'},
        post_subst=ref_params('acc'), must_fire={'method:key': 1}),
  trait('nk_acc_reset', r'void reset\(\)', 3, 'static void nk_acc_reset(struct n_accessor* self)', members=['guard'],
        methods={'reset': 'GP_reset'}, must_fire={'method:reset': 1, 'member:guard': 1}),
  trait('nk_reset', r'static void reset\(Accessor&& acc\)', 0, 'static void nk_reset(struct n_accessor* acc_p)', methods={'reset': 'NK_ACC_reset'},
        post_subst=ref_params('acc'), must_fire={'method:reset': 1}),
  trait('nk_rehash', r'static hash_t rehash\(', 1, 'static hash_t nk_rehash(hash_t h)', must_fire={}),
]

# ---- the three further storage modes.  Every function is lowered under the prefix of its mode and compiled only in that mode (ifdef);
#      the functions inherited from bits::vyukov_hash_map_(non)trivial_key / _common are lowered once per mode that inherits them.
VGP = [(r'typename VReclaimer::template concurrent_ptr<Value>::guard_ptr\(', 'GP_make(', 'value_guard_ptr_ctor')]
VGP_NT = [(r'typename VReclaimer::template concurrent_ptr<Value>::guard_ptr\(', 'GP_make_nothrow(', 'value_guard_ptr_ctor')]
GP_NT = [(r'typename storage_value_type::guard_ptr\(', 'GP_make_nothrow(', 'guard_ptr_ctor')]
def mode_traits(px, W, cond, acc, vcell, ACC, keynode, bits_w):
    """px: prefix, W: index of the specialisation in the file, acc/vcell: C types, ACC: macro prefix, keynode: key lives in the node,
       bits_w: 0 = inherits vyukov_hash_map_trivial_key, 1 = vyukov_hash_map_nontrivial_key"""
    def t(id, sig, which, c_sig, **kw):
        return trait(px + '_' + id, sig, which, c_sig, ifdef=cond, **kw)
    key_t = 'kkey_t'
    L = [
      t('compare_key', r'static bool compare_key\(', W,
        'static _Bool %s_compare_key(_Bool AcquireAccessor, kcell_t* key_cell_p, %s* value_cell_p, kkey_t key, hash_t hash, %s* acc_p)' % (px, vcell, acc),
        pre_subst=GP + VGP, may_throw=['GP_make'], post_subst=ref_params('key_cell', 'value_cell', 'acc')),
      t('acc_ctor', r'accessor\(storage_value_type& v, std::memory_order order\)', W,
        'static void %s_acc_ctor(%s* self, %s* v_p, int order)' % (px, acc, vcell), ctor=True, py_post=acc_ctor_post,
        members=['node_guard'] if px == 'mn' else [], calls={'acquire_guard': 'ACQUIRE_GUARD'} if px == 'mn' else {}),
      t('acquire', r'static accessor acquire\(storage_value_type& v, std::memory_order order\)', W,
        'static %s %s_acquire(%s* v_p, int order)' % (acc, px, vcell), calls={'accessor': ACC + '_ACC'},
        post_subst=[(ACC + r'_ACC\(v,', ACC + '_ACC(v_p,', 'ref:v')]),
      t('reclaim', r'static void reclaim\(accessor&( a)?\)', W, 'static void %s_reclaim(%s* a_p)' % (px, acc),
        methods={'reclaim': 'GP_reclaim'}, post_subst=ref_params('a')),
      t('reclaim_internal', r'static void reclaim_internal\(accessor&( a)?\)', W, 'static void %s_reclaim_internal(%s* a_p)' % (px, acc),
        methods={'reclaim': 'GP_reclaim'}, post_subst=ref_params('a')),
      t('compare_trivial_key', r'static bool compare_trivial_key\(', bits_w,
        'static _Bool %s_compare_trivial_key(kcell_t* key_cell_p, kkey_t key, hash_t hash)' % px, post_subst=ref_params('key_cell')),
      t('compare_nontrivial_key', r'static bool compare_nontrivial_key\(', bits_w,
        'static _Bool %s_compare_nontrivial_key(const %s* acc_p, kkey_t key)' % (px, acc), methods={'key': ACC + '_ACC_key'}, post_subst=ref_params('acc')),
      t('reset', r'static void reset\(Accessor&& acc\)', 0, 'static void %s_reset(%s* acc_p)' % (px, acc), methods={'reset': ACC + '_ACC_reset'},
        post_subst=ref_params('acc')),
    ]
    if bits_w == 0:
        L.append(t('rehash', r'static hash_t rehash\(', 0, 'static hash_t %s_rehash(kkey_t k)' % px, subst=[(r'\bHash\{\}\((\w+)\)', r'XV_HASH(\1)', 'hash_call')]))
    else:
        L.append(t('rehash', r'static hash_t rehash\(', 1, 'static hash_t %s_rehash(hash_t h)' % px))
    return L
NEW_MODE_SOURCES = (
  mode_traits('tn', 3, 'defined(XV_TN)', 'struct n_accessor', 'n_vcell', 'TN', False, 0) + [
  trait('tn_store_item', r'static void store_item\(', 3,
        'static void tn_store_item(_Bool AcquireAccessor, kcell_t* key_cell_p, n_vcell* value_cell_p, hash_t hash, kkey_t k, vval_t v, int order, struct n_accessor* acc_p)',
        pre_subst=GP_NT + [(r'\bnew node\(', 'XV_NEW_NODE(', 'new_node')], may_throw=['XV_NEW_NODE'], post_subst=ref_params('key_cell', 'value_cell', 'acc'), ifdef='defined(XV_TN)'),
  trait('tn_acc_reset', r'void reset\(\)', 2, 'static void tn_acc_reset(struct n_accessor* self)', members=['guard'], methods={'reset': 'GP_reset'}, ifdef='defined(XV_TN)'),
  trait('tn_acc_arrow', r'Value\* operator->\(\) const noexcept', 2, 'static vval_t* tn_acc_arrow(const struct n_accessor* self)', members=['guard'], ifdef='defined(XV_TN)'),
  trait('tn_acc_deref', r'Value& operator\*\(\) const noexcept', 2, 'static vval_t* tn_acc_deref(const struct n_accessor* self)', members=['guard'], ret_ref=True, ifdef='defined(XV_TN)'),
  ] +
  mode_traits('mt', 0, 'defined(XV_MT)', 'struct mt_accessor', 't_vcell', 'MT', False, 0) + [
  trait('mt_store_item', r'static void store_item\(', 0,
        'static void mt_store_item(_Bool AcquireAccessor, kcell_t* key_cell_p, t_vcell* value_cell_p, hash_t hash, kkey_t k, vval_t v, int order, struct mt_accessor* acc_p)',
        pre_subst=GP_NT, post_subst=ref_params('key_cell', 'value_cell', 'acc'), ifdef='defined(XV_MT)'),
  trait('mt_acc_reset', r'void reset\(\)', 0, 'static void mt_acc_reset(struct mt_accessor* self)', members=['guard'], methods={'reset': 'GP_reset'}, ifdef='defined(XV_MT)'),
  trait('mt_acc_reclaim', r'void reclaim\(\)', 0, 'static void mt_acc_reclaim(struct mt_accessor* self)', members=['guard'], methods={'reclaim': 'GP_reclaim'}, ifdef='defined(XV_MT)'),
  trait('mt_acc_arrow', r'Value\* operator->\(\) const noexcept', 0, 'static struct uobj* mt_acc_arrow(const struct mt_accessor* self)', members=['guard'], methods={'get': 'UGP_get'}, ifdef='defined(XV_MT)'),
  ] +
  mode_traits('mn', 1, 'defined(XV_MN)', 'struct mn_accessor', 'n_vcell', 'MN', True, 1) + [
  trait('mn_store_item', r'static void store_item\(', 1,
        'static void mn_store_item(_Bool AcquireAccessor, kcell_t* key_cell_p, n_vcell* value_cell_p, hash_t hash, kkey_t k, vval_t v, int order, struct mn_accessor* acc_p)',
        pre_subst=GP_NT + VGP_NT + [(r'\bnew node\(', 'XV_NEW_NODE(', 'new_node')], may_throw=['XV_NEW_NODE'], post_subst=ref_params('key_cell', 'value_cell', 'acc'), ifdef='defined(XV_MN)'),
  trait('mn_acc_key', r'const Key& key\(\) const', 0, 'static kkey_t mn_acc_key(const struct mn_accessor* self)', members=['node_guard'], ifdef='defined(XV_MN)'),
  trait('mn_acc_reset', r'void reset\(\)', 1, 'static void mn_acc_reset(struct mn_accessor* self)', members=['node_guard', 'value_guard'], methods={'reset': 'GP_reset'}, ifdef='defined(XV_MN)'),
  trait('mn_acc_arrow', r'Value\* operator->\(\) const noexcept', 1, 'static struct uobj* mn_acc_arrow(const struct mn_accessor* self)', members=['value_guard'], methods={'get': 'UGP_get'}, ifdef='defined(XV_MN)'),
  trait('mn_acc_deref', r'Value& operator\*\(\) const noexcept', 1, 'static struct uobj* mn_acc_deref(const struct mn_accessor* self)', members=['value_guard'], methods={'get': 'UGP_get'}, ret_ref=True, ifdef='defined(XV_MN)'),
  ])
NK_EXTRA = [
  trait('nk_acc_arrow', r'Value\* operator->\(\) const noexcept', 3, 'static vval_t* nk_acc_arrow(const struct n_accessor* self)', members=['guard'], ifdef='defined(XV_NT)'),
  trait('nk_acc_deref', r'Value& operator\*\(\) const noexcept', 3, 'static vval_t* nk_acc_deref(const struct n_accessor* self)', members=['guard'], ret_ref=True, ifdef='defined(XV_NT)'),
]
for _t in TRAIT_SOURCES:
    if _t['id'].startswith('nk_'): _t['ifdef'] = 'defined(XV_NODE_PAIR)'
TRAIT_SOURCES = TRAIT_SOURCES + NK_EXTRA + NEW_MODE_SOURCES

# ---------------------------------------------------------------------------------------------- the map functions
MAPM = dict(BSM); MAPM.update({'buckets': 'BLK_buckets', 'acquire': 'GB_acquire', 'get': 'GB_get', 'unlock': 'UNL_unlock', 'disable': 'UNL_disable',
                               'acquire_lock': 'EB_acquire_lock', 'release_lock': 'EB_release_lock', 'reclaim': 'GB_reclaim'})
SUB_MAP = SUB_COMMON + [
  (r'\bhash\{\}\(', 'XV_HASH(', 'hash_call'),
  (r'\bunlocker unlocker\((\w+), (\w+)\);', r'struct unlocker unlocker; unl_ctor(&unlocker, &(\1), \2);', 'unlocker_decl'),
  (r'traits::template (\w+)<(\w+)>\(', r'TR_\1(\2, ', 'traits_tcall'), (r'traits::(\w+)\(', r'TR_\1(', 'traits_call'),
  (r'\bguarded_block (\w+);', r'guarded_block \1 = 0;', 'guard_decl'),
]
MAPC = {'allocate_extension_item': 'vhm_allocate_extension_item', 'free_extension_item': 'vhm_free_extension_item'}
def mapf(id, sig, c_sig, **kw):
    d = dict(id=id, file=IMPL, sig=sig, c_sig=c_sig, members=['data_block', 'resize_lock'], methods=MAPM, subst=SUB_MAP, calls=MAPC)
    for k in ('subst',):
        if k in kw: kw[k] = SUB_MAP + kw[k]
    if 'calls' in kw: c = dict(MAPC); c.update(kw['calls']); kw['calls'] = c
    d.update(kw); return d
def retry_cut(name):
    """unit-local Route X cut of a `retry:` ... `goto retry;` loop (the engine's cut_loops handles for/while/do only):
       label -> loop head (base assert, havoc, assume invariant); every backward goto -> step assert + end of path."""
    def f(s, lw):
        i = s.index('retry: ;')
        s = s[:i] + 'retry: ; XV_LOOP_BASE(%s); XV_LOOP_HAVOC(%s); XV_LOOP_ASSUME(%s);' % (name, name, name) + s[i + len('retry: ;'):]
        body = s[i:]
        s, n = re.subn(r'\bgoto retry;', '{ XV_LOOP_STEP(%s); XV_CUT_END(); }' % name, s)
        lw.fire('cut_goto', n); lw.fire('cut_loop')
        lw._cut_bodies = getattr(lw, '_cut_bodies', {}); lw._cut_bodies[name] = body
        return s
    return f
UNL_DECL = 'struct unlocker unlocker;'
def do_extract_post(s, lw):
    s = throw_checks(s, lw, '{ XV_RET; }', conds=['TR_compare_key'])
    return raii(s, lw, UNL_DECL, 'unl_dtor(&unlocker);')
def do_goe_post(s, lw):
    kw = dict(hoist_args=['XV_FACTORY'], stmts=['TR_store_item', 'vhm_grow'], conds=['TR_compare_key'])
    pre, mid, post = try_catch(s, lw, 'xv_catch1', **kw)
    s = throw_checks(pre, lw, '{ XV_RET; }', **kw) + mid + throw_checks(post, lw, '{ XV_RET; }', **kw)
    return raii(s, lw, UNL_DECL, 'unl_dtor(&unlocker);')

MAP_SOURCES = [
  dict(EBF, id='eb_acquire_lock', sig=r'void acquire_lock\(\)', c_sig='static void eb_acquire_lock(extension_bucket* self)',
       must_fire={'A_LOAD': 1, 'A_XCHG': 1, 'member:lock': 2}),
  dict(EBF, id='eb_release_lock', sig=r'void release_lock\(\)', c_sig='static void eb_release_lock(extension_bucket* self)',
       must_fire={'A_STORE': 1, 'member:lock': 1}),
  dict(UNL, id='unl_ctor', sig=r'unlocker\(bucket& locked_bucket, bucket_state state\)', ctor=True,
       c_sig='static void unl_ctor(struct unlocker* self, bucket_t* locked_bucket, bstate_t state)', members=[], must_fire={'ctor_init': 2}),
  dict(UNL, id='unl_dtor', sig=r'~unlocker\(\)', c_sig='static void unl_dtor(struct unlocker* self)', must_fire={'A_STORE': 1, 'A_LOAD': 1, 'subst:ref_member': 2}),
  dict(UNL, id='unl_unlock', sig=r'void unlock\(bucket_state new_state, std::memory_order order\)',
       c_sig='static void unl_unlock(struct unlocker* self, bstate_t new_state, int order)', must_fire={'A_STORE': 1, 'A_LOAD': 1, 'member:enabled': 2}),
  dict(UNL, id='unl_disable', sig=r'void disable\(\)', c_sig='static void unl_disable(struct unlocker* self)', must_fire={'member:enabled': 1}),
  mapf('allocate_extension_item', r'auto vyukov_hash_map<Key, Value, Policies...>::allocate_extension_item\(block\* b, hash_t hash\) -> extension_item\*',
       'static extension_item* vhm_allocate_extension_item_real(block_t* b, hash_t hash)',
       must_fire={'A_LOAD': 2, 'A_STORE': 1, 'method:acquire_lock': 1, 'method:release_lock': 2, 'reference': 1}),
  mapf('free_extension_item', r'void vyukov_hash_map<Key, Value, Policies...>::free_extension_item\(extension_item\* item\)',
       'static void vhm_free_extension_item_real(extension_item* item)',
       pre_subst=[(r'reinterpret_cast<std::uintptr_t>\(item\)', 'XV_ITEM_ADDR(item)', 'item_addr'),
                  (r'reinterpret_cast<extension_bucket\*>\(', 'XV_EB_AT(', 'eb_at')],
       must_fire={'subst:item_addr': 1, 'subst:eb_at': 1, 'A_LOAD': 1, 'A_STORE': 2, 'method:acquire_lock': 1, 'method:release_lock': 1}),
  mapf('lock_bucket', r'auto vyukov_hash_map<Key, Value, Policies...>::lock_bucket\(hash_t hash, guarded_block& block, bucket_state& state\)\s*-> bucket&',
       'static bucket_t* vhm_lock_bucket_real(struct vhm* self, hash_t hash, guarded_block* block_p, bstate_t* state_p)',
       post_subst=ref_params('block', 'state') + [(r'return bucket;', 'return &bucket;', 'ref_return')],
       must_fire={'A_LOAD': 1, 'A_CAS': 1, 'method:acquire': 1, 'subst:ref_return': 1, 'reference': 1}),
  mapf('lock_bucket_int', r'auto vyukov_hash_map<Key, Value, Policies...>::lock_bucket\(hash_t hash, guarded_block& block, bucket_state& state\)\s*-> bucket&',
       'static bucket_t* vhm_lock_bucket_int(struct vhm* self, hash_t hash, guarded_block* block_p, bstate_t* state_p)',
       post_subst=ref_params('block', 'state') + [(r'return bucket;', 'return &bucket;', 'ref_return')], cut_loops={0: 'LOCK'},
       must_fire={'A_LOAD': 1, 'A_CAS': 1, 'cut_loop': 1}),
  mapf('grow', r'void vyukov_hash_map<Key, Value, Policies...>::grow\(bucket& bucket, bucket_state state\)',
       'static void vhm_grow_real(struct vhm* self, bucket_t* bucket_p, bstate_t state)',
       self_calls={'do_grow': 'vhm_do_grow'}, post_subst=ref_params('bucket'),
       must_fire={'A_XCHG': 1, 'A_STORE': 1, 'A_LOAD': 1, 'self_call:do_grow': 1}),
  mapf('grow_int', r'void vyukov_hash_map<Key, Value, Policies...>::grow\(bucket& bucket, bucket_state state\)',
       'static void vhm_grow_int(struct vhm* self, bucket_t* bucket_p, bstate_t state)',
       self_calls={'do_grow': 'vhm_do_grow'}, post_subst=ref_params('bucket'), cut_loops={0: 'WAIT'},
       must_fire={'A_XCHG': 1, 'A_STORE': 1, 'A_LOAD': 1, 'cut_loop': 1}),
  mapf('do_grow', r'void vyukov_hash_map<Key, Value, Policies...>::do_grow\(\)', 'static void vhm_do_grow_real(struct vhm* self)',
       subst=[(r'\bblock\s*\*', 'block_t*', 'block_type'), (r'\bguarded_block (\w+)\(([^;()]*)\);', r'guarded_block \1 = \2;', 'guard_ctor')],
       self_calls={'allocate_block': 'vhm_allocate_block'},
       must_fire={'throw': 1, 'subst:traits_tcall': 2, 'call:allocate_extension_item': 1, 'A_CAS': 1, 'method:reclaim': 1, 'reference': 4}),
  mapf('do_extract', r'bool vyukov_hash_map<Key, Value, Policies...>::do_extract\(const key_type& key, accessor& result\)',
       'static _Bool vhm_do_extract_real(struct vhm* self, kkey_t key, accessor* result_p)',
       post_subst=ref_params('result'), py_post=do_extract_post,
       must_fire={'subst:unlocker_decl': 1, 'hoist_cond:TR_compare_key': 2, 'raii_exit': 5, 'A_CAS': 1, 'method:unlock': 4,
                  'method:new_version': 5, 'method:set_delete_marker': 2, 'call:free_extension_item': 2, 'A_STORE': 10, 'ref:result': 2}),
  mapf('erase', r'bool vyukov_hash_map<Key, Value, Policies...>::erase\(const key_type& key\)',
       'static _Bool vhm_erase(struct vhm* self, kkey_t key)',
       subst=[(r'\baccessor (\w+);', r'accessor \1 = XV_ACC_EMPTY;', 'acc_decl')], self_calls={'do_extract': 'vhm_do_extract'}, may_throw=['vhm_do_extract'],
       must_fire={'subst:acc_decl': 1, 'self_call:do_extract': 1, 'subst:traits_call': 1, 'may_throw:vhm_do_extract': 1}),
  mapf('extract', r'bool vyukov_hash_map<Key, Value, Policies...>::extract\(const key_type& key, accessor& acc\)',
       'static _Bool vhm_extract(struct vhm* self, kkey_t key, accessor* acc_p)',
       self_calls={'do_extract': 'vhm_do_extract'}, may_throw=['vhm_do_extract'], post_subst=ref_params('acc'),
       must_fire={'self_call:do_extract': 1, 'may_throw:vhm_do_extract': 1}),
  mapf('do_get_or_emplace', r'bool vyukov_hash_map<Key, Value, Policies...>::do_get_or_emplace\(Key&& key, Factory&& factory, Callback&& callback\)',
       'static _Bool vhm_do_get_or_emplace(struct vhm* self, _Bool AcquireAccessor, kkey_t key)',
       subst=[(r'\baccessor (\w+);', r'accessor \1 = XV_ACC_ANY;', 'acc_decl'), (r'\bretry:', 'retry: ;', 'label'), (r'\bgoto retry;', 'XV_GOTO_RETRY;', 'goto_retry')],
       self_calls={'lock_bucket': '*vhm_lock_bucket', 'grow': 'vhm_grow'}, calls={'callback': 'XV_CALLBACK', 'factory': 'XV_FACTORY'},
       py_post=do_goe_post,
       must_fire={'subst:unlocker_decl': 1, 'subst:goto_retry': 1, 'try_catch': 1, 'rethrow': 1, 'hoist_arg:XV_FACTORY': 2, 'throw_check:TR_store_item': 2,
                  'throw_check:vhm_grow': 1, 'hoist_cond:TR_compare_key': 2, 'call:callback': 4, 'method:unlock': 4, 'method:disable': 1}),
  mapf('try_get_value', r'bool vyukov_hash_map<Key, Value, Policies...>::try_get_value\(const key_type& key, accessor& result\) const',
       'static _Bool vhm_try_get_value(struct vhm* self, kkey_t key, accessor* result_p)',
       subst=[(r'\bretry:', 'retry: ;', 'label')], calls={'acquire_guard': 'ACQUIRE_GUARD'}, post_subst=ref_params('result'),
       must_fire={'A_LOAD': 7, 'subst:traits_call': 6, 'call:acquire_guard': 1, 'method:version': 8, 'method:delete_marker': 1, 'ref:result': 2}),
  mapf('try_get_value_int', r'bool vyukov_hash_map<Key, Value, Policies...>::try_get_value\(const key_type& key, accessor& result\) const',
       'static _Bool vhm_try_get_value_int(struct vhm* self, kkey_t key, accessor* result_p)',
       subst=[(r'\bretry:', 'retry: ;', 'label')], calls={'acquire_guard': 'ACQUIRE_GUARD'}, post_subst=ref_params('result'), cut_loops={1: 'CHAIN'}, py_post=retry_cut('RETRY'),
       must_fire={'A_LOAD': 7, 'cut_goto': 4, 'cut_loop': 2}),
]

def uw(L, **loops):
    """global bound for the harness/spec loops (NN + 2), exact bounds for the loops of the functions under contract"""
    d = dict(unwind=NSLOT + L + 1 + 2, unwindset=['%s:%d' % (k.replace('__', '.'), v) for k, v in loops.items()])
    return d
NSLOT = 3
MODE_DEFS = {0: {}, 1: {'XV_NT': 1}, 'tn': {'XV_TN': 1}, 'mt': {'XV_MT': 1}, 'mn': {'XV_MN': 1}}
MODE_NAME = {0: 'TRIVIAL', 1: 'NONTRIVIAL (key and value in a node)', 'tn': 'TN (trivial key, value in a node)', 'mt': 'MT (trivial key, managed_ptr value)',
             'mn': 'MN (key in a node, managed_ptr value)'}
def w_run(id, entry, L, nt, tiers, fn_loops, **kw):
    defs = {'XV_L': L}
    defs.update(MODE_DEFS[nt])
    defs.update(kw.pop('defs', {}))
    return dict(uw(L, **fn_loops), id=id, entry=entry, defs=defs, tiers=tiers, cls='shape-complete',
                note='bucket array 3 slots (from the header), extension chain <= %d, pool %d, %s storage' % (L, 4, MODE_NAME[nt]), **kw)
def ex_loops(L): return {'vhm_do_extract_real__0': 1, 'vhm_do_extract_real__1': 1, 'vhm_do_extract_real__2': 4, 'vhm_do_extract_real__3': L + 2}
def em_loops(L): return {'vhm_do_get_or_emplace__0': 4, 'vhm_do_get_or_emplace__1': L + 2, 'vhm_lock_bucket_real__0': 1}
RUNS = []
Q, T, QT = ['quick'], ['thorough'], ['quick', 'thorough']
SFX = {0: 't', 1: 'n', 'tn': 'tn', 'mt': 'mt', 'mn': 'mn'}
for L in (1, 2, 3):
    for nt in (0, 1, 'tn', 'mt', 'mn'):
        if L == 3 and nt not in (0, 1): continue        # (chains of 3 only for the two original modes: the writers' text is the same, the traits differ per item only)
        sfx = SFX[nt] + str(L)
        RUNS.append(w_run('do_extract_' + sfx, 'h_do_extract', L, nt, QT if L == (2 if nt == 0 else 1) else T, ex_loops(L)))
        RUNS.append(w_run('erase_' + sfx, 'h_erase', L, nt, QT if L == 1 else T, ex_loops(L)))
        RUNS.append(w_run('extract_' + sfx, 'h_extract', L, nt, QT if L == 1 else T, ex_loops(L)))
        RUNS.append(w_run('emplace_' + sfx, 'h_emplace', L, nt, QT if L == 1 else T, em_loops(L)))
RUNS.append(w_run('alloc', 'h_alloc', 2, 0, QT, {'vhm_allocate_extension_item_real__0': 3, 'vhm_allocate_extension_item_real__1': 3, 'eb_acquire_lock__0': 1, 'eb_acquire_lock__1': 1}))
RUNS.append(w_run('free', 'h_free', 2, 0, QT, {'eb_acquire_lock__0': 1, 'eb_acquire_lock__1': 1}))
for nt in (0, 1, 'tn', 'mt', 'mn'):
    sfx = SFX[nt]
    RUNS.append(dict(w_run('get_int_' + sfx, 'h_get_int', 1, nt, QT, {'vhm_try_get_value_int__0': 4}), mode='INT', cls='unbounded',
                     note='retry loop and extension-chain loop cut by invariants RETRY / CHAIN; environment = any writers (rely: type invariant only); %s storage' % MODE_NAME[nt]))
    for L, tiers in ((2, QT), (3, T)):
        if L == 3 and nt not in (0, 1): continue
        RUNS.append(dict(w_run('get_solo_%s%d' % (sfx, L), 'h_get_seq', L, nt, tiers, {'vhm_try_get_value__0': 1, 'vhm_try_get_value__2': 1, 'vhm_try_get_value__3': 1, 'vhm_try_get_value__5': 1, 'vhm_try_get_value__1': 4, 'vhm_try_get_value__4': L + 1}),
                         mode='SOLO', unwind_obligation='vhm.get.terminates', flags=['--object-bits', '10']))    # (a reader that does loop needs > 2^8 objects before the unwinding assertion is reached)
    RUNS.append(w_run('acc_' + sfx, 'h_acc', 1, nt, QT, {}))
RUNS.append(dict(w_run('lock_int', 'h_lock_int', 1, 0, QT, {}), mode='INT', cls='unbounded', note='spin loop cut by invariant LOCK; environment: other threads lock/unlock/modify the bucket at will'))
for L, nt, tiers in ((1, 0, QT), (1, 1, QT), (1, 'tn', T), (1, 'mt', T), (1, 'mn', T),   # (the new modes share the rehash text of T / N)
                      (2, 0, T), (2, 1, T)):
    RUNS.append(dict(w_run('do_grow_%s%d' % (SFX[nt], L), 'h_do_grow', L, nt, tiers, {}), note='one old bucket (3 slots + chain <= %d) rehashed into two new buckets; allocate_block is a stub; %s storage' % (L, MODE_NAME[nt])))
RUNS.append(dict(w_run('grow_int', 'h_grow_int', 1, 0, QT, {}), mode='INT', cls='unbounded', note='wait loop cut by invariant WAIT; environment: another thread may hold / release the resize lock and use the bucket once it is released'))
RUNS.append(w_run('grow_t', 'h_grow', 1, 0, ['quick', 'thorough'], {'vhm_grow_real__0': 1}))

UNIT = dict(
  title='vyukov_hash_map: per-bucket map refinement of emplace/extract/erase, extension items, grow, lock-free reader (C10)',
  properties=['C10'],
  # C++ type names in the signatures of helpers a maintainer may extract (followed automatically) -> the C types of model.h
  ctypes={'bucket': 'bucket_t', 'bucket_state': 'bstate_t', 'block': 'block_t', 'extension_item': 'extension_item', 'extension_bucket': 'extension_bucket',
          'guarded_block': 'guarded_block', 'hash_t': 'hash_t', 'accessor': 'accessor', 'key_type': 'kkey_t', 'Key': 'kkey_t', 'value_type': 'vval_t', 'Value': 'vval_t',
          'unlocker': 'struct unlocker'},
  drops='templates; Key/Value are opaque words compared only by ==; ALL FIVE storage modes (specialisations of vyukov_hash_map_traits) are compiled from their real text, one per run configuration: '
        'TRIVIAL (traits<.., true, true>), NONTRIVIAL (-DXV_NT, traits<.., false, *>, key cell = hash, pair node on the heap), TN (-DXV_TN, traits<.., true, false>: value in a heap node), '
        'MT (-DXV_MT, traits<Key, managed_ptr<Value,R>, .., true, true>: value cell = Value*), MN (-DXV_MN, traits<Key, managed_ptr<Value,R>, .., false, true>: node{key, concurrent_ptr<Value>}, two guards); '
        'the trait functions of the other modes are #if\'ed out of lowered.h; hash{}(key) is an uninterpreted symbolic function; guarded_block/guard_ptr are raw pointers '
        '(the reclaimer contracts are other units); backoff dropped; Factory/Callback template arguments are harness hooks (the emplace/get_or_emplace(_lazy) wrappers only build lambdas); '
        'destructor calls of the RAII local `unlocker` are made explicit by the unit-local rule raii() (before every return / exceptional exit / backward goto after its declaration), '
        'try/catch and throwing argument evaluation by try_catch()/throw_checks() in vhm_rules.py; unlocker::enabled default member initialiser is read as a constant and applied in the constructor',
  assumptions=[
    'composition across buckets, blocks and threads (global linearizability) is a lemma, not proved here: the unit proves the per-bucket sequential specification of every writer from any quiescent state, the writer guarantee, and the reader\'s validation under arbitrary interference',
    'the rely of the reader (an occupied slot changes only under a delete marker naming it; a marker is cleared / the item count shrinks only with a version bump; an unlinked extension item is not rewritten before the version moved on from the version at which it was unlinked; a moved item stays reachable at its source until the version moves) is exactly what obligation vhm.remove.version_bumped proves of every writer path; that it makes a validated read a linearizable read is the informal step',
    'bucket version counter does not wrap around during one try_get_value call (27 bits)',
    'stub allocate_block: returns null or a zeroed block with 2n buckets whose extension pool is all free and not smaller than the old one - proved for the real text by unit vhm_alloc (vhm.alloc.header / free_lists / region / aligned) for power-of-two sizeof(extension_bucket)',
    'stubs guard_ptr/acquire_guard/new node: raw pointers; constructing a guard_ptr in compare_key may throw (hazard pointer exhaustion), in store_item it is assumed not to (the fresh node would leak - outside C10); guard_ptr::reclaim of an empty guard is a null dereference (true of every xenium reclaimer)',
    'allocate/free_extension_item are contract stubs in the writer runs; the contracts are proved for the real text by runs alloc / free (extension items per extension bucket: 2 instead of 10, a shape parameter)',
    'managed_ptr modes (MT, MN): the Value objects stored under different keys are distinct, non-null objects and the object being inserted is not yet in the map (the map retires the Value object on erase: storing one object twice, or a null pointer, is a client error)',
    'MT accessor::operator* (`Value& operator*() const noexcept { return guard.get(); }`, traits.hpp:74) does not compile when instantiated (Value* returned as Value&) and is not under contract; nothing in the repository instantiates it',
    'Key/Value are 16-bit words standing for any type: the code only copies them, compares keys with == and hashes keys; hash{}(key) is an uninterpreted function (arbitrary collisions)',
    'INT mode is sequentially consistent; memory orders are checked only as far as the sync obligations vhm.sync.release / vhm.sync.acquire state',
  ],
  consts=BS_CONSTS + [dict(name='XV_UNLOCKER_ENABLED_DEFAULT', file=IMPL, regex=r'bool enabled = (\w+);'),
                      dict(name='XV_HDR_EXTENSION_ITEM_COUNT', file=HDR, regex=r'static constexpr std::uint32_t extension_item_count = ([^;]+);')],
  sources=BS_SOURCES + TRAIT_SOURCES + MAP_SOURCES,
  runs=RUNS,
  obligations={
    'vhm.extract.iff_present': dict(deciding=True, text='do_extract/extract/erase return true iff the key was in the bucket; then the key is absent afterwards, the accessor carries the value that was stored, every other key keeps its value, Inv_B holds'),
    'vhm.extract.pool': dict(deciding=True, text='a removal returns exactly the unlinked extension item to the free list of its own extension bucket; all other pool items stay where they were'),
    'vhm.emplace.iff_absent': dict(deciding=True, text='do_get_or_emplace returns true iff the key was absent; then the key maps to the value the factory produced (called exactly once), every other key keeps its value, Inv_B holds and the callback gets an accessor to the new element; otherwise nothing changes and the callback gets the existing element; an exception leaves the map unchanged'),
    'vhm.emplace.publish_order': dict(deciding=True, text='writer guarantee for insertions: at the store (or exchange) that makes a new extension item reachable from the bucket its key, value and next already have their final values (next == the pointer being replaced), the store is release-or-stronger, it happens exactly once per extension insertion, and no field of the item is written afterwards; removals and failed operations publish nothing'),
    'vhm.emplace.pool': dict(deciding=True, text='an insertion consumes exactly one free extension item iff the bucket array is full; on an exception the item is back in its free list'),
    'vhm.emplace.retry_state': dict(deciding=True, text='when no extension item is free the operation calls grow once with the locked bucket and its state, has changed nothing, and does not write the old bucket after grow released it (unlocker disabled) before retrying'),
    'vhm.alloc_ext.pops_free': dict(deciding=True, text='allocate_extension_item returns null iff every free list of the block is empty; otherwise it pops the head of the first non-empty list in probe order (hash + idx) & (count - 1), leaves every other item and list unchanged and releases the extension bucket lock'),
    'vhm.free_ext.own_bucket': dict(deciding=True, text='free_extension_item finds the extension bucket that contains the item by address arithmetic (for any base address aligned as allocate_block aligns it) and pushes the item on that free list only; lock released'),
    'vhm.lock_bucket.acquired': dict(deciding=True, text='[INT] lock_bucket returns only after its CAS changed the state of bucket hash & mask of the current block from an unlocked value st to st.locked(); it reports that bucket, that block and st; it never stores anything else'),
    'vhm.grow.conserves': dict(deciding=True, text='do_grow: an arbitrary key of the old bucket is afterwards in bucket hash & new_mask of the new block with the same value (node) and in no other bucket; absent keys stay absent; item totals agree; new buckets are well formed, each new extension item is in exactly one place; the new block is published, the old one retired once and its buckets stay locked; on bad_alloc nothing changed'),
    'vhm.grow.publish_order': dict(deciding=True, text='do_grow writes every bucket state, slot and extension item of the new block before the single release store of data_block that makes the block visible, and nothing in the new block afterwards; on bad_alloc nothing is published or written'),
    'vhm.grow.resize_lock': dict(deciding=True, text='grow takes the resize lock, releases the bucket lock before do_grow runs, calls do_grow exactly once when it got the resize lock, and the resize lock is free afterwards'),
    'vhm.get.validated': dict(deciding=True, text='[INT] try_get_value returns true only with the value it loaded from the value cell of an item whose key cell (and, NONTRIVIAL, whose node key) matched, and only if a state load made after the value load shows the version of this iteration\'s first state load and a delete marker different from that slot; extension items are reached through pointers loaded in the same iteration'),
    'vhm.get.terminates': dict(deciding=True, text='[SOLO] with a stable bucket (no interference) try_get_value returns within the shape bound: the retry loop is not re-entered, the array loop makes <= 3 and the chain loop <= chain-length iterations (unwinding assertions)'),
    'vhm.get.seq_lookup': dict(deciding=True, text='without interference try_get_value returns true with the stored value iff the key is in the bucket (a slot under a delete marker is skipped), whether or not a writer holds the lock; it writes nothing'),
    'vhm.get.absent_validated': dict(deciding=True, text='[INT] try_get_value returns false only directly after a state load that still shows the version of the iteration\'s first state load, having examined every slot occupied at that load and followed the chain to null; the accessor is untouched'),
    'vhm.sync.acquire': dict(deciding=True, text='sync precondition: the first state load of an iteration, the value loads and the head/next loads of try_get_value are acquire-or-stronger'),
    'vhm.acc.names_item': dict(deciding=True, text='traits::acquire(cell, order) loads the value cell once with that order and yields an accessor that names the item of that cell (its node / its Value object); operator->, operator* and key() give that item\'s value and key; reset empties the accessor; accessor::reclaim (managed_ptr) retires the Value object exactly once; none of this changes the map'),
    'vhm.erase.retires_only_removed': dict(deciding=True, text='erase/extract retire a heap node iff they removed an item, and then exactly the node of the removed item, once; a guard is never reclaimed empty'),
    'vhm.ops.unlock': dict(deciding=True, text='every exit (exceptional ones included) leaves the bucket lock clear and the lock is released exactly once'),
    'vhm.ops.frame': dict(deciding=True, text='an operation that does not find/insert its key changes nothing; no operation touches another bucket'),
    'vhm.remove.version_bumped': dict(deciding=True, text='writer guarantee: a removal ends with the version advanced; occupied array slots are written only while the delete marker names them; a marker is cleared and the item count shrinks only together with a version bump; a linked extension item is not written before the version moved'),
    'vhm.sync.release': dict(deciding=True, text='sync precondition: state stores that change version or item count, value stores into marked slots and head stores are release-or-stronger'),
  },
  replays={'vhm.erase.retires_only_removed': dict(src='replay_ops.cpp'), 'vhm.extract.iff_present': dict(src='replay_ops.cpp'),
           'vhm.emplace.iff_absent': dict(src='replay_ops.cpp'), 'vhm.get.terminates': dict(src='replay_ops.cpp'), 'vhm.get.seq_lookup': dict(src='replay_ops.cpp')},
  loop_obligation={'RETRY': 'vhm.get.validated', 'CHAIN': 'vhm.get.validated', 'LOCK': 'vhm.lock_bucket.acquired', 'WAIT': 'vhm.grow.resize_lock'},
  canaries=['acc.done', 'extract.threw_guard', 'alloc.all_empty', 'alloc.item', 'alloc.no_extension_buckets', 'do_grow.array_only', 'do_grow.bad_alloc', 'do_grow.with_chain', 'emplace.array', 'emplace.extension', 'emplace.factory_threw', 'emplace.first_extension', 'emplace.found_array', 'emplace.found_chain', 'emplace.grow_retry', 'emplace.grow_threw', 'emplace.new_threw_with_extension_item', 'emplace.threw_with_extension_item', 'erase.absent', 'erase.absent_collision', 'erase.removed', 'extract.absent', 'extract.absent_collision', 'extract.array_last', 'extract.array_move_last', 'extract.array_with_chain', 'extract.chain_first', 'extract.chain_later', 'extract.empty_bucket', 'extract.threw', 'extract_api.absent', 'extract_api.absent_collision', 'extract_api.removed', 'free.done', 'get_int.false', 'get_int.true_array', 'get_int.true_chain', 'get_seq.false', 'get_seq.false_collision_in_chain', 'get_seq.true_array', 'get_seq.true_chain', 'grow.done', 'grow.threw', 'grow_int.waited', 'grow_int.resized', 'lock_int.acquired'],
)
