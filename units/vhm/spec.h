/* unit vhm - specification functions and monitors; included AFTER lowered.h (uses the layout constants read from the header) */
#ifndef VHM_SPEC_H
#define VHM_SPEC_H
/* ------------------------------------------------------------------ specification functions (per-bucket abstract map) */
static kkey_t item_key(kcell_t kc, vcell_t vc) {
#ifdef XV_KEYNODE
  return NODE_KEY(vc);
#else
  return kc;
#endif
}
static vval_t item_val(vcell_t vc) {
#ifdef XV_NODE
  return NODE_VAL(vc);
#else
  return vc;
#endif
}
struct look { _Bool found; vval_t val; int pos; vcell_t cell; };   /* pos: 0..NSLOT-1 array slot, NSLOT+q chain position q */
static struct look lookup(const bucket_t* B, kkey_t k) {
  struct look r; r.found = 0; r.val = 0; r.pos = -1; r.cell = 0;
  uint32_t ic = BS_item_count(B->state);
  for (uint32_t i = 0; i < NSLOT; ++i) if (i < ic && !r.found && item_key(B->key[i], B->value[i]) == k) { r.found = 1; r.val = item_val(B->value[i]); r.pos = (int)i; r.cell = B->value[i]; }
  const extension_item* e = B->head;
  for (int q = 0; q < XV_L + 1; ++q) if (e) { if (!r.found && item_key(e->key, e->value) == k) { r.found = 1; r.val = item_val(e->value); r.pos = NSLOT + q; r.cell = e->value; } e = e->next; }
  return r;
}
static _Bool look_eq(struct look a, struct look b) { return a.found == b.found && (!a.found || (a.val == b.val && a.cell == b.cell)); }
/* chain shape: items are pool items of existing extension buckets, pairwise distinct, at most maxlen, null-terminated */
static int chain_len(const bucket_t* B, int maxlen) {     /* -1 if malformed */
  const extension_item* e = B->head; int seen[XV_L + 1]; int n = 0;
  for (int q = 0; q < XV_L + 2; ++q) {
    if (!e) return n;
    if (n >= maxlen) return -1;
    int p = pool_index(e); if (p >= POOL || p / XV_EIC >= (int)g_blk.extension_bucket_count) return -1;
    for (int j = 0; j < XV_L + 1; ++j) if (j < n && seen[j] == p) return -1;
    seen[n++] = p; e = e->next;
  }
  return -1;
}
static _Bool in_chain(const bucket_t* B, const extension_item* x) {
  const extension_item* e = B->head;
  for (int q = 0; q < XV_L + 1; ++q) if (e) { if (e == x) return 1; e = e->next; }
  return 0;
}
static _Bool in_free_list(const extension_item* x) {
  int p = pool_index(x); if (p >= POOL) return 0;
  const extension_item* e = g_eb[p / XV_EIC].head;
  for (int q = 0; q < XV_EIC; ++q) if (e) { if (e == x) return 1; e = e->next; }
  return 0;
}
/* free list of extension bucket b: only its own items, distinct, null-terminated */
static _Bool free_list_ok(int b) {
  const extension_item* e = g_eb[b].head; int seen[XV_EIC]; int n = 0;
  for (int q = 0; q < XV_EIC + 1; ++q) {
    if (!e) return g_eb[b].lock == 0;
    if (n >= XV_EIC) return 0;
    int p = pool_index(e); if (p >= POOL || p / XV_EIC != b) return 0;
    for (int j = 0; j < XV_EIC; ++j) if (j < n && seen[j] == p) return 0;
    seen[n++] = p; e = e->next;
  }
  return 0;
}
_Bool spec_ignore_retired;      /* set where "no linked node is retired" is asserted separately (vhm.erase.retires_only_removed) */
static _Bool cell_ok(kcell_t kc, vcell_t vc) {     /* storage invariant of one occupied item */
#ifdef XV_NODE
  int i = node_index(vc); if (!(i < NN && (spec_ignore_retired || node_retired[i] == 0))) return 0;       /* a live node of the map */
#endif
#ifdef XV_KEYNODE
  if (kc != XV_HASH(NODE_KEY(vc))) return 0;                                                              /* the key cell holds the hash of the node's key */
#endif
#ifdef XV_MANAGED
  { int u = uobj_index(item_val(vc)); if (!(u < NN && (spec_ignore_retired || uobj_retired[u] == 0))) return 0; }   /* a live, non-null Value object */
#endif
  return 1;
}
/* Inv_B: quiescent bucket */
static _Bool inv_B(const bucket_t* B, int maxchain) {
  uint32_t ic = BS_item_count(B->state);
  if (BS_is_locked(B->state) || BS_delete_marker(B->state) != 0 || ic > NSLOT) return 0;
  int n = chain_len(B, maxchain); if (n < 0) return 0;
  if (B->head != 0 && ic != NSLOT) return 0;
  /* storage invariant and pairwise distinct logical keys */
  kcell_t kc[NSLOT + XV_L + 1]; vcell_t vc[NSLOT + XV_L + 1]; int m = 0;
  for (uint32_t i = 0; i < NSLOT; ++i) if (i < ic) { kc[m] = B->key[i]; vc[m] = B->value[i]; m++; }
  const extension_item* e = B->head;
  for (int q = 0; q < XV_L + 1; ++q) if (e) { kc[m] = e->key; vc[m] = e->value; m++; e = e->next; }
  for (int a = 0; a < NSLOT + XV_L + 1; ++a) if (a < m) {
    if (!cell_ok(kc[a], vc[a])) return 0;
    for (int b = 0; b < NSLOT + XV_L + 1; ++b) if (b < a) {
      if (item_key(kc[a], vc[a]) == item_key(kc[b], vc[b])) return 0;
#ifdef XV_NODE
      if (vc[a] == vc[b]) return 0;
#endif
#ifdef XV_MANAGED
      if (item_val(vc[a]) == item_val(vc[b])) return 0;     /* the map owns (retires on erase) its Value objects: one object is stored once */
#endif
    }
  }
  return 1;
}

/* ------------------------------------------------------------------ monitors: the writer GUARANTEE the lock-free reader relies on.
 * Kept cheap: address classification by comparison with concrete addresses, sticky flags, no list walks. */
extern _Bool gi_on; extern unsigned gi_bucket_stores; extern bstate_t gi_bucket_stored; extern uint64_t gi_bucket_store_clock, gi_rl_load_clock, gi_rl_load_val; extern int gi_rl_load_order;
extern unsigned lk_cas_ok_count, lk_stores; extern _Bool lk_on; extern bstate_t lk_expected, lk_desired; extern int lk_order;   /* lock_bucket monitor (harness.c) */
_Bool mon_on; bstate_t mon_prev_state; uint32_t mon_version0; _Bool chain0[POOL];
_Bool mon_bad_slot_store, mon_bad_state_step, mon_bad_item_store, mon_bad_order, mon_lock_dropped;
_Bool mon_next_store_v0[POOL];
_Bool mon_unlinked_v0[POOL];         /* item p (linked at the start) was found unlinked while the bucket version was still the initial one */
_Bool mon_unlinked[POOL]; uint32_t mon_unlink_ver[POOL];
/* publication of NEW extension items (not linked at the start): the store that makes item p reachable from the bucket */
_Bool mon_published[POOL], mon_bad_publish; unsigned mon_publications; extension_item* mon_prev_head; extension_item* mon_next_shadow[POOL];     /* item p has left the chain; bucket version at the store that unlinked it */       /* item p had its `next` written while the bucket version was still the initial one */
unsigned mon_state_stores, mon_unlocks, mon_slot_stores, mon_head_stores; int mon_last_state_order;
bucket_t g_other0; bucket_t* g_other;
#define VERSION_MASK ((uint32_t)((((uint64_t)1) << (32 - version_shift)) - 1))
static void mon_state_step(bstate_t old, bstate_t new, int o) {
  /* a set delete marker is cleared or changed only together with a version bump; the item count shrinks only together with a version bump;
     the version moves forward by at most 2 per store */
  uint32_t dv = (BS_version(new) - BS_version(old)) & VERSION_MASK;
  uint32_t dm0 = BS_delete_marker(old), dm1 = BS_delete_marker(new), ic0 = BS_item_count(old), ic1 = BS_item_count(new);
  if (dm0 != 0 && dm1 != dm0 && dv == 0) mon_bad_state_step = 1;
  if (ic1 < ic0 && dv == 0) mon_bad_state_step = 1;
  if (dv > 2 || ic1 > NSLOT) mon_bad_state_step = 1;
  /* publishing stores (anything but setting a marker or a pure unlock) are release */
  if ((dv != 0 || ic1 != ic0) && !XV_IS_RELEASE(o)) mon_bad_order = 1;
}
static void mon_unlink_check(bucket_t* B) {       /* after a store to head / next */
  for (int p = 0; p < POOL; ++p) if (chain0[p] && !mon_unlinked[p] && !in_chain(B, POOL_ITEM_C(p))) {
    mon_unlinked[p] = 1; mon_unlink_ver[p] = BS_version(B->state);
    if (BS_version(B->state) == mon_version0) mon_unlinked_v0[p] = 1;
  }
}
/* item p becomes reachable through a store that replaced the pointer value `replaced`: at that moment its key, value and next are final
   (next == the pointer that was replaced, so no older item is cut off, not even for an instant), the store is release-or-stronger;
   afterwards no field of it is written by this operation */
static void mon_publish(int p, extension_item* replaced, int o) {
  for (int q = 0; q < POOL; ++q) if (q == p && !chain0[q] && !mon_published[q]) {
    mon_published[q] = 1; mon_publications++;
    if (POOL_ITEM_C(q)->next != replaced || !XV_IS_RELEASE(o)) mon_bad_publish = 1;
  }
}
/* do_grow monitor: the new block becomes visible to every other thread with the store to data_block; everything do_grow writes into
   the new block (bucket states, slots, heads, extension items) is written before that store, which is release-or-stronger */
_Bool gw_on, gw_published, gw_bad; unsigned gw_new_stores, gw_publications; int gw_publish_order;
static void mon_grow_store(void* addr, uint64_t v, int o) {
  if (addr == (void*)&g_map.data_block) { if ((block_t*)v == &g_blk2) { gw_published = 1; gw_publications++; gw_publish_order = o; } return; }
  _Bool hit = 0;
  for (int t = 0; t < 2 * NB; ++t) {
    if (addr == (void*)&g_bk2[t].state || addr == (void*)&g_bk2[t].head) hit = 1;
    for (int i = 0; i < NSLOT; ++i) if (addr == (void*)&g_bk2[t].key[i] || addr == (void*)&g_bk2[t].value[i]) hit = 1;
  }
  for (int p = 0; p < POOL; ++p) { extension_item* x = POOL2_ITEM_C(p); if (addr == (void*)&x->key || addr == (void*)&x->value || addr == (void*)&x->next) hit = 1; }
  if (hit) { gw_new_stores++; if (gw_published) gw_bad = 1; }
}
static void mon_store(void* addr, uint64_t v, int o) {
  if (gw_on) mon_grow_store(addr, v, o);
  if (lk_on) lk_stores++;
  if (gi_on && addr == (void*)&g_B->state) { gi_bucket_stores++; gi_bucket_stored = (bstate_t)v; gi_bucket_store_clock = xv_clock; }
  if (!mon_on) return;
  bucket_t* B = g_B;
  if (addr == (void*)&B->state) {
    if (!BS_is_locked(mon_prev_state)) mon_lock_dropped = 1;       /* a store to the state of a bucket we do not hold */
    mon_state_step(mon_prev_state, B->state, o);
    mon_prev_state = B->state; mon_state_stores++; mon_last_state_order = o;
    if (!BS_is_locked(B->state)) mon_unlocks++;
    return;
  }
  for (uint32_t i = 0; i < NSLOT; ++i) if (addr == (void*)&B->key[i] || addr == (void*)&B->value[i]) {
    bstate_t st = B->state;
    mon_slot_stores++;
    if (!BS_is_locked(st)) mon_bad_slot_store = 1;
    if (i < BS_item_count(st)) {     /* occupied slot: only under a delete marker naming it; value published with release */
      if (BS_delete_marker(st) != i + 1) mon_bad_slot_store = 1;
      if (addr == (void*)&B->value[i] && !XV_IS_RELEASE(o)) mon_bad_order = 1;
    }
    return;
  }
  if (addr == (void*)&B->head) {      /* linking a new item publishes it: release (unlinking stores are not constrained here) */
    mon_head_stores++; if (!BS_is_locked(B->state)) mon_bad_slot_store = 1;
    int p = pool_index(B->head); _Bool was_linked = 0; for (int q = 0; q < POOL; ++q) if (q == p && chain0[q]) was_linked = 1;
    if (B->head != 0 && !was_linked && !XV_IS_RELEASE(o)) mon_bad_order = 1;
    mon_publish(p, mon_prev_head, o); mon_prev_head = B->head;
    mon_unlink_check(B);
    return; }
  for (int p = 0; p < POOL; ++p) if (chain0[p]) {
    extension_item* x = POOL_ITEM_C(p);
    /* an item that was linked when the operation started: while it is linked only its `next` may be written (that unlinks the successor);
       once it is unlinked it is not written (recycled into the free list) before the bucket version has moved on from the version at which
       it was unlinked - a reader standing on it re-reads the version after following `next` */
    if (addr == (void*)&x->key || addr == (void*)&x->value || addr == (void*)&x->next) {
      if (!mon_unlinked[p]) { if (addr != (void*)&x->next) mon_bad_item_store = 1; else { if (BS_version(B->state) == mon_version0) mon_next_store_v0[p] = 1; mon_unlink_check(B); } }
      else if (BS_version(B->state) == mon_unlink_ver[p]) mon_bad_item_store = 1;
      if (addr == (void*)&x->next) {      /* a reachable item's next may also publish a new item */
        if (!mon_unlinked[p]) mon_publish(pool_index(x->next), mon_next_shadow[p], o);
        mon_next_shadow[p] = x->next;
      }
      return;
    }
  }
  for (int p = 0; p < POOL; ++p) if (!chain0[p]) {
    extension_item* x = POOL_ITEM_C(p);
    if (addr == (void*)&x->key || addr == (void*)&x->value || addr == (void*)&x->next) {
      if (mon_published[p]) mon_bad_publish = 1;          /* written after it became visible to the lock-free reader */
      if (addr == (void*)&x->next) mon_next_shadow[p] = x->next;
      return;
    }
  }
}
/* reader monitor (try_get_value): which cells were loaded when, in the current iteration of the retry loop */
_Bool rd_on, rd_have_state1; bstate_t rd_state1, rd_state_last; uint64_t rd_state1_clock, rd_state_last_clock; int rd_state1_order;
int rd_key_item, rd_val_item;        /* item the last key / value cell load belongs to: 0..NSLOT-1 array slot, NSLOT+p pool item p, -1 none */
uint64_t rd_key_clock, rd_val_clock, rd_key_val, rd_val, rd_ptr_clock, rd_ptr_val; int rd_val_order, rd_ptr_order; unsigned rd_slots_seen; _Bool rd_ptr_seen;
static void rd_reset(void) {
  rd_have_state1 = 0; rd_key_item = rd_val_item = -1; rd_slots_seen = 0; rd_ptr_seen = 0;
  rd_key_clock = rd_val_clock = rd_ptr_clock = rd_state1_clock = rd_state_last_clock = 0;
}
static void mon_load(void* addr, uint64_t v, int o) {
  if (gi_on && addr == (void*)&g_map.resize_lock) { gi_rl_load_clock = xv_clock; gi_rl_load_val = v; gi_rl_load_order = o; }
  if (!rd_on) return;
  bucket_t* B = g_B;
  if (addr == (void*)&B->state) {
    if (!rd_have_state1) { rd_have_state1 = 1; rd_state1 = (bstate_t)v; rd_state1_clock = xv_clock; rd_state1_order = o; }
    rd_state_last = (bstate_t)v; rd_state_last_clock = xv_clock; return;
  }
  for (int i = 0; i < NSLOT; ++i) {
    if (addr == (void*)&B->key[i]) { rd_key_item = i; rd_key_clock = xv_clock; rd_key_val = v; rd_slots_seen |= 1u << i; return; }
    if (addr == (void*)&B->value[i]) { rd_val_item = i; rd_val_clock = xv_clock; rd_val = v; rd_val_order = o; return; }
  }
  if (addr == (void*)&B->head) { rd_ptr_clock = xv_clock; rd_ptr_val = v; rd_ptr_order = o; rd_ptr_seen = 1; return; }
  for (int p = 0; p < POOL; ++p) {
    extension_item* x = POOL_ITEM_C(p);
    if (addr == (void*)&x->key) { rd_key_item = NSLOT + p; rd_key_clock = xv_clock; rd_key_val = v; return; }
    if (addr == (void*)&x->value) { rd_val_item = NSLOT + p; rd_val_clock = xv_clock; rd_val = v; rd_val_order = o; return; }
    if (addr == (void*)&x->next) { rd_ptr_clock = xv_clock; rd_ptr_val = v; rd_ptr_order = o; rd_ptr_seen = 1; return; }
  }
}
/* grow monitor: the exchange on resize_lock, the store that releases the bucket, the loads of resize_lock */
_Bool gi_on; unsigned gi_xchg_count, gi_bucket_stores; uint64_t gi_xchg_old, gi_xchg_clock, gi_bucket_store_clock, gi_rl_load_clock, gi_rl_load_val; bstate_t gi_bucket_stored; int gi_rl_load_order;
static void mon_store(void* addr, uint64_t v, int o);
static void mon_rmw(void* addr, uint64_t oldv, uint64_t newv, int o) {
  if (mon_on && addr != (void*)&g_map.resize_lock) mon_store(addr, newv, o);      /* exchange / fetch_* on a bucket cell or item field: a store for the writer monitor */
  if (gi_on && addr == (void*)&g_map.resize_lock) { gi_xchg_count++; gi_xchg_old = oldv; gi_xchg_clock = xv_clock; }
}
static void mon_cas(void* addr, uint64_t e, uint64_t d, _Bool ok, int o) {
  if (lk_on && addr == (void*)&g_B->state && ok) { lk_cas_ok_count++; lk_expected = (bstate_t)e; lk_desired = (bstate_t)d; lk_order = o; }
  if (!mon_on) return;
  if (addr == (void*)&g_B->state && ok) { mon_prev_state = (bstate_t)d; }    /* the monitor runs before the cell is written */
}
#endif
