/* unit vhm - C view of vyukov_hash_map's data, glue for the lowered text, contract stubs, monitors, state builder and
 * specification functions.  No function body of /repo is re-typed here: bodies come from lowered.h. */
#ifndef VHM_MODEL_H
#define VHM_MODEL_H
#include <stdint.h>
#include <stddef.h>
static void mon_store(void* addr, uint64_t v, int o);
static void mon_load(void* addr, uint64_t v, int o);
static void mon_cas(void* addr, uint64_t e, uint64_t d, _Bool ok, int o);
#define XV_ON_STORE(addr, val, order) mon_store((void*)(addr), (uint64_t)(val), (order))
#define XV_ON_LOAD(addr, val, order) mon_load((void*)(addr), (uint64_t)(val), (order))
#define XV_ON_CAS(addr, e, d, ok, order) mon_cas((void*)(addr), (uint64_t)(e), (uint64_t)(d), (ok), (order))
static void mon_rmw(void* addr, uint64_t oldv, uint64_t newv, int o);
#define XV_ON_RMW(addr, oldv, newv, order) mon_rmw((void*)(addr), (uint64_t)(oldv), (uint64_t)(newv), (order))
#include "xv.h"
int xv_threw; uint64_t xv_clock, xv_rmw_old; _Bool xv_cas_ok;
#include "../vhm_bs/bs_prelude.h"
#define XV_EXC_std__bad_alloc 1
#define XV_EXC_factory 2
#define XV_EXC_guard 3

/* ------------------------------------------------------------------ shapes */
#ifndef XV_MASK
#define XV_MASK 0             /* block->mask of the block under test: 0 (one bucket) or 1 (two buckets: the second one is a bystander) */
#endif
#define NB (XV_MASK + 1)
#ifndef XV_L
#define XV_L 2                /* extension chain length of the bucket under test, before the operation */
#endif
#define XV_NEB 2              /* extension buckets */
#define XV_EIC 2              /* items per extension bucket: shape parameter (header: extension_item_count = 10) */
#define POOL (XV_NEB * XV_EIC)
#define NSLOT 3               /* == bucket_item_count, checked in build_state */
_Static_assert(XV_NEB * XV_EIC == 4 && NSLOT + XV_L + 1 <= 7, "object tables below are written for POOL == 4, NN <= 7");
#define NN (NSLOT + XV_L + 1) /* heap nodes of NONTRIVIAL mode: one per possible item + the one `new node` returns */

/* ------------------------------------------------------------------ storage modes: the five specialisations of vyukov_hash_map_traits,
   each compiled from its own real text (the trait functions of the other modes are #if'ed out of lowered.h)
     (default)  T  : traits<Key, Value, .., true, true>                   key cell = key,  value cell = value
     -DXV_NT    N  : traits<Key, Value, .., false, *>                     key cell = hash, value cell -> node{pair<const Key, Value> data}
     -DXV_TN    TN : traits<Key, Value, .., true, false>                  key cell = key,  value cell -> node{Value value}
     -DXV_MT    MT : traits<Key, managed_ptr<Value,R>, .., true, true>    key cell = key,  value cell = Value* (object owned through reclaimer R)
     -DXV_MN    MN : traits<Key, managed_ptr<Value,R>, .., false, true>   key cell = hash, value cell -> node{Key key; concurrent_ptr<Value> value} */
#if defined(XV_NT) || defined(XV_MN)
#define XV_KEYNODE 1          /* the key lives in a heap node, the key cell holds its hash */
#endif
#if defined(XV_NT) || defined(XV_TN) || defined(XV_MN)
#define XV_NODE 1             /* the value cell is a concurrent_ptr to a heap node owned by the map */
#endif
#if defined(XV_MT) || defined(XV_MN)
#define XV_MANAGED 1          /* the mapped value is a pointer to a user object that the map retires on erase */
#endif
#if !defined(XV_TN) && !defined(XV_MN)
#define XV_NODE_PAIR 1        /* struct node has the layout of traits<.., false, *>::node */
#endif
#if !defined(XV_NODE) && !defined(XV_MANAGED)
#define XV_MODE_T 1
#endif

/* ------------------------------------------------------------------ types */
typedef uint64_t hash_t;      /* std::size_t */
/* Key and Value are template parameters: the code under contract only copies them, compares keys with == and hashes keys.
   A 16-bit word has far more values than the <= 8 keys one run can tell apart, so it stands for any Key/Value type. */
typedef uint16_t kkey_t;
uint16_t nondet_u16(void);
#define nondet_key() nondet_u16()
struct uobj { uint16_t payload; };      /* a Value object of the managed_ptr modes */
#ifdef XV_MANAGED
typedef struct uobj* vval_t;  /* value_type = Value* */
#else
typedef uint16_t vval_t;
#define nondet_val() nondet_u16()
#endif
#ifdef XV_KEYNODE
typedef hash_t kcell_t;       /* storage_key_type: std::atomic<hash_t> */
#define nondet_kcell() nondet_u64()
#else
typedef kkey_t kcell_t;       /* storage_key_type: std::atomic<Key> */
#define nondet_kcell() nondet_u16()
#endif
#if defined(XV_TN)
struct node { vval_t value; };                                    /* traits<..,true,false>::node */
#define NODE_VAL(n) ((n)->value)
#elif defined(XV_MN)
struct node { kkey_t key; vval_t value; };                        /* traits<Key, managed_ptr<..>, .., false, true>::node; value: concurrent_ptr<Value> */
#define NODE_KEY(n) ((n)->key)
#define NODE_VAL(n) ((n)->value)
#else
struct node { struct { kkey_t first; vval_t second; } data; };   /* traits<..,false,*>::node : std::pair<const Key, Value> data */
#define NODE_KEY(n) ((n)->data.first)
#define NODE_VAL(n) ((n)->data.second)
#endif
typedef vval_t t_vcell;       /* TRIVIAL storage_value_type: std::atomic<Value>  (MT: concurrent_ptr<Value>) */
typedef struct node* n_vcell; /* storage_value_type of the node modes: concurrent_ptr<node> */
struct t_accessor { vval_t v; };
struct n_accessor { struct node* guard; };     /* guard_ptr<node>: the reclaimer contracts are other units; here a raw pointer */
struct mt_accessor { struct uobj* guard; };    /* guard_ptr<Value> */
struct mn_accessor { struct node* node_guard; struct uobj* value_guard; };
#if defined(XV_MN)
typedef n_vcell vcell_t; typedef struct mn_accessor accessor;
#elif defined(XV_NODE)
typedef n_vcell vcell_t; typedef struct n_accessor accessor;
#elif defined(XV_MT)
typedef t_vcell vcell_t; typedef struct mt_accessor accessor;
#else
typedef t_vcell vcell_t; typedef struct t_accessor accessor;
#endif
typedef struct extension_item_s { kcell_t key; vcell_t value; struct extension_item_s* next; } extension_item;
typedef struct bucket_s { bstate_t state; extension_item* head; kcell_t key[NSLOT]; vcell_t value[NSLOT]; } bucket_t;
/* the items of an extension bucket are modelled as separate objects (cbmc keeps pointers to distinct objects precise; pointers to
   different offsets of one object degrade to symbolic offsets).  `items` only keeps sizeof(extension_bucket) right for the
   address arithmetic of free_extension_item; nothing under contract indexes it. */
typedef struct extension_bucket_s { uint32_t lock; extension_item* head; char items[XV_EIC * sizeof(extension_item)]; } extension_bucket;
typedef struct block_s { uint32_t mask, bucket_count, extension_bucket_count; extension_bucket* extension_buckets; bucket_t* bkts; } block_t;
typedef block_t* guarded_block;
struct vhm { block_t* data_block; int resize_lock; };
struct unlocker { _Bool enabled; bstate_t state; bucket_t* locked_bucket; };

/* ------------------------------------------------------------------ the objects */
struct vhm g_map; block_t g_blk; bucket_t g_bk[NB]; extension_bucket g_eb[XV_NEB];
extension_item g_it0, g_it1, g_it2, g_it3;                       /* POOL == 4: item p belongs to extension bucket p / XV_EIC, slot p % XV_EIC */
struct node g_n0, g_n1, g_n2, g_n3, g_n4, g_n5, g_n6;            /* NN <= 7 */
struct uobj g_u0, g_u1, g_u2, g_u3, g_u4, g_u5, g_u6;            /* managed_ptr modes: one Value object per possible item + the one being inserted */
uintptr_t g_eb_base;          /* address of g_eb[0]; allocate_block rounds it up to a multiple of sizeof(extension_bucket) */
bucket_t* g_B;                /* the bucket under test (= bucket hash(key) & mask) */
/* the block do_grow allocates: twice the buckets, its own extension pool (all free) */
block_t g_blk2; bucket_t g_bk2[2 * NB]; extension_bucket g_eb2[XV_NEB]; extension_item g_jt0, g_jt1, g_jt2, g_jt3;
#define POOL2_ITEM_C(p) ((p) == 0 ? &g_jt0 : (p) == 1 ? &g_jt1 : (p) == 2 ? &g_jt2 : &g_jt3)
static int pool2_index(const extension_item* x) { for (int p = 0; p < POOL; ++p) if (x == POOL2_ITEM_C(p)) return p; return POOL; }
/* pointers are always selected among concrete addresses (cheap for cbmc), never computed from a symbolic index */
#define POOL_ITEM_C(p) ((p) == 0 ? &g_it0 : (p) == 1 ? &g_it1 : (p) == 2 ? &g_it2 : &g_it3)        /* p: constant */
#define NODE_C(i) ((i) == 0 ? &g_n0 : (i) == 1 ? &g_n1 : (i) == 2 ? &g_n2 : (i) == 3 ? &g_n3 : (i) == 4 ? &g_n4 : (i) == 5 ? &g_n5 : &g_n6)
static extension_item* pool_item(unsigned p) { for (unsigned i = 0; i < POOL; ++i) if (p == i) return POOL_ITEM_C(i); return 0; }
#define POOL_ITEM(p) pool_item(p)
static int pool_index(const extension_item* x) {        /* POOL if not a pool item */
  for (int p = 0; p < POOL; ++p) if (x == POOL_ITEM_C(p)) return p;
  return POOL;
}
static struct node* node_at(unsigned i) { for (unsigned j = 0; j < NN; ++j) if (i == j) return NODE_C(j); return 0; }
static int node_index(const struct node* n) { for (int i = 0; i < NN; ++i) if (n == NODE_C(i)) return i; return NN; }
#define UOBJ_C(i) ((i) == 0 ? &g_u0 : (i) == 1 ? &g_u1 : (i) == 2 ? &g_u2 : (i) == 3 ? &g_u3 : (i) == 4 ? &g_u4 : (i) == 5 ? &g_u5 : &g_u6)
static struct uobj* uobj_at(unsigned i) { for (unsigned j = 0; j < NN; ++j) if (i == j) return UOBJ_C(j); return 0; }
static int uobj_index(const struct uobj* u) { for (int i = 0; i < NN; ++i) if (u == UOBJ_C(i)) return i; return NN; }
#ifdef XV_MANAGED
#define nondet_val() uobj_at(nondet_uint() % NN)      /* some Value object, never null (erase of a null managed_ptr is a null dereference in every reclaimer) */
#endif
#ifdef XV_NODE
#define nondet_vcell() node_at(nondet_uint() % NN)
#else
#define nondet_vcell() nondet_val()
#endif

/* ------------------------------------------------------------------ glue used by the lowered text */
uint64_t __CPROVER_uninterpreted_hash(kkey_t);
#define XV_HASH(k) __CPROVER_uninterpreted_hash(k)       /* hash{}(key): an arbitrary function of the key (collisions possible) */
#define XV_BACKOFF() ((void)0)
#define GB_acquire(g, src, o) ((g) = A_LOAD(src, o))
#define GB_get(g) (g)
#define BLK_buckets(blk) ((blk).bkts)
#define EB_acquire_lock(e) eb_acquire_lock(&(e))
#define EB_release_lock(e) eb_release_lock(&(e))
#define UNL_unlock(u, s, o) unl_unlock(&(u), (s), (o))
#define UNL_disable(u) unl_disable(&(u))
#define XV_INIT_state(self, e) ((self)->state = (e))
#define XV_INIT_locked_bucket(self, e) ((self)->locked_bucket = (e), (self)->enabled = XV_UNLOCKER_ENABLED_DEFAULT)
#define XV_INIT_v(self, e) ((self)->v = (e))
#define XV_INIT_guard(self, e) ((self)->guard = (e))
#define XV_INIT_node_guard(self, e) ((self)->node_guard = (e))
#define XV_INIT_value_guard(self, e) ((self)->value_guard = (e))
/* free_extension_item's pointer arithmetic: linear addresses over the extension bucket array */
static uintptr_t xv_item_addr(extension_item* x) {
  for (int p = 0; p < POOL; ++p) if (x == POOL_ITEM_C(p))
    return g_eb_base + (p / XV_EIC) * sizeof(extension_bucket) + offsetof(extension_bucket, items) + (p % XV_EIC) * sizeof(extension_item);
  return 0;
}
_Bool eb_at_ok = 1;
static extension_bucket* xv_eb_at(uintptr_t a) {
  uintptr_t off = a - g_eb_base;
  for (int b = 0; b < XV_NEB; ++b) if (off == b * sizeof(extension_bucket)) return &g_eb[b];
  eb_at_ok = 0; return &g_eb[0];
}
#define XV_ITEM_ADDR(p) xv_item_addr(p)
#define XV_EB_AT(a) xv_eb_at(a)

/* guard_ptr / new: stubs.  Ghost: which nodes were retired, how often; reclaim of an empty guard is a null dereference in every reclaimer */
unsigned node_retired[NN]; unsigned retire_count; struct node* last_retired; _Bool reclaim_of_null; _Bool gp_may_throw;
unsigned uobj_retired[NN]; unsigned uretire_count; struct uobj* last_uretired;        /* Value objects of the managed_ptr modes */
static struct node* gp_make(struct node* p) { if (gp_may_throw && nondet_bool()) { xv_threw = XV_EXC_guard; return 0; } return p; }
static struct uobj* ugp_make(struct uobj* p) { if (gp_may_throw && nondet_bool()) { xv_threw = XV_EXC_guard; return 0; } return p; }
#define GP_make(p) _Generic((p), struct uobj*: ugp_make, default: gp_make)(p)
#define GP_make_nothrow(p) (p)
static void gp_reclaim(struct node** g) {
  if (*g == 0) { reclaim_of_null = 1; return; }
  int i = node_index(*g); if (i < NN) { if (node_retired[i] < 2) node_retired[i]++; }
  retire_count++; last_retired = *g; *g = 0;
}
static void ugp_reclaim(struct uobj** g) {
  if (*g == 0) { reclaim_of_null = 1; return; }
  int i = uobj_index(*g); if (i < NN) { if (uobj_retired[i] < 2) uobj_retired[i]++; }
  uretire_count++; last_uretired = *g; *g = 0;
}
#define GP_reclaim(g) _Generic((g), struct uobj*: ugp_reclaim, default: gp_reclaim)(&(g))
#define ACQUIRE_GUARD(cell, o) A_LOAD(cell, o)
unsigned new_count; _Bool new_may_throw;
static struct node* xv_new_node_common(void) {
  if (new_may_throw && nondet_bool()) { xv_threw = XV_EXC_std__bad_alloc; return 0; }
  new_count++; node_retired[NN - 1] = 0; return NODE_C(NN - 1);
}
#if defined(XV_TN)
static struct node* xv_new_node(vval_t v) { struct node* n = xv_new_node_common(); if (n) { n->value = v; } return n; }
#define XV_NEW_NODE(v) xv_new_node(v)
#else
static struct node* xv_new_node(kkey_t k, vval_t v) { struct node* n = xv_new_node_common(); if (n) { NODE_KEY(n) = k; NODE_VAL(n) = v; } return n; }
#define XV_NEW_NODE(k, v) xv_new_node((k), (v))
#endif

/* traits dispatch (compile-time storage mode) */
static _Bool tk_compare_key(_Bool, kcell_t*, t_vcell*, kkey_t, hash_t, struct t_accessor*);
static _Bool nk_compare_key(_Bool, kcell_t*, n_vcell*, kkey_t, hash_t, struct n_accessor*);
static void tk_acc_ctor(struct t_accessor* self, t_vcell* v_p, int order);
static void nk_acc_ctor(struct n_accessor* self, n_vcell* v_p, int order);
static kkey_t nk_acc_key(const struct n_accessor* self);
static struct t_accessor tk_acc_make(t_vcell* v, int o) { struct t_accessor a; tk_acc_ctor(&a, v, o); return a; }   /* `accessor(v, order)` as an expression */
#ifdef XV_NODE_PAIR
static struct n_accessor nk_acc_make(n_vcell* v, int o) { struct n_accessor a; nk_acc_ctor(&a, v, o); return a; }
#endif
#define TK_ACC(v, o) tk_acc_make((v), (o))
#define NK_ACC(v, o) nk_acc_make((v), (o))
#define NK_ACC_key(a) nk_acc_key(&(a))
#define NK_ACC_reset(a) nk_acc_reset(&(a))
#define GP_reset(g) ((g) = 0)                 /* guard_ptr::reset */
/* the three further modes: `accessor(v, order)` as an expression, member calls on an accessor */
#if defined(XV_TN)
static void tn_acc_ctor(struct n_accessor* self, n_vcell* v_p, int order);
static struct n_accessor tn_acc_make(n_vcell* v, int o) { struct n_accessor a; tn_acc_ctor(&a, v, o); return a; }
#elif defined(XV_MT)
static void mt_acc_ctor(struct mt_accessor* self, t_vcell* v_p, int order);
static struct mt_accessor mt_acc_make(t_vcell* v, int o) { struct mt_accessor a; mt_acc_ctor(&a, v, o); return a; }
#elif defined(XV_MN)
static void mn_acc_ctor(struct mn_accessor* self, n_vcell* v_p, int order);
static kkey_t mn_acc_key(const struct mn_accessor* self);
static struct mn_accessor mn_acc_make(n_vcell* v, int o) { struct mn_accessor a; mn_acc_ctor(&a, v, o); return a; }
#endif
#define TN_ACC(v, o) tn_acc_make((v), (o))
#define MT_ACC(v, o) mt_acc_make((v), (o))
#define MN_ACC(v, o) mn_acc_make((v), (o))
#define TN_ACC_reset(a) tn_acc_reset(&(a))
#define MT_ACC_reset(a) mt_acc_reset(&(a))
#define MN_ACC_reset(a) mn_acc_reset(&(a))
#define MN_ACC_key(a) mn_acc_key(&(a))
#define UGP_get(g) (g)                        /* guard_ptr::get */
#if defined(XV_MN)
#define TRP(f) mn_##f
#elif defined(XV_MT)
#define TRP(f) mt_##f
#elif defined(XV_TN)
#define TRP(f) tn_##f
#elif defined(XV_NT)
#define TRP(f) nk_##f
#else
#define TRP(f) tk_##f
#endif
#define TR_compare_key(A, kc, vc, k, h, acc) TRP(compare_key)((A), &(kc), &(vc), (k), (h), &(acc))
#define TR_store_item(A, kc, vc, h, k, v, o, acc) TRP(store_item)((A), &(kc), &(vc), (h), (k), (v), (o), &(acc))
#define TR_reclaim(acc) TRP(reclaim)(&(acc))
#define TR_reclaim_internal(acc) TRP(reclaim_internal)(&(acc))
#define TR_compare_trivial_key(kc, k, h) TRP(compare_trivial_key)(&(kc), (k), (h))
#define TR_compare_nontrivial_key(acc, k) TRP(compare_nontrivial_key)(&(acc), (k))
#define TR_acquire(vc, o) TRP(acquire)(&(vc), (o))
#define TR_rehash(H, k) TRP(rehash)(k)            /* rehash<Hash>(k): Hash{}(k) (TRIVIAL) or the stored hash itself (NONTRIVIAL) */
#define TR_reset(acc) TRP(reset)(&(acc))
static accessor xv_acc_any(void) {
  accessor a;
#if defined(XV_MN)
  a.node_guard = node_at(nondet_uint()); a.value_guard = uobj_at(nondet_uint());
#elif defined(XV_NODE)
  a.guard = node_at(nondet_uint());
#elif defined(XV_MT)
  a.guard = uobj_at(nondet_uint());
#else
  a.v = nondet_val();
#endif
  return a;
}
static accessor xv_acc_empty(void) {
  accessor a;
#if defined(XV_MN)
  a.node_guard = 0; a.value_guard = 0;
#elif defined(XV_NODE) || defined(XV_MT)
  a.guard = 0;
#else
  a.v = nondet_val();      /* `value_type v;` default-initialised: indeterminate */
#endif
  return a;
}
/* what an accessor names */
#if defined(XV_MN)
#define ACC_EQ(a, b) ((a).node_guard == (b).node_guard && (a).value_guard == (b).value_guard)
#define ACC_NODE(a) ((a).node_guard)
#define ACC_NAMES(a, cell, val) ((a).node_guard == (cell) && (a).value_guard == (val))
#elif defined(XV_NODE)
#define ACC_EQ(a, b) ((a).guard == (b).guard)
#define ACC_NODE(a) ((a).guard)
#define ACC_NAMES(a, cell, val) ((a).guard == (cell) && (a).guard != 0 && NODE_VAL((a).guard) == (val))
#elif defined(XV_MT)
#define ACC_EQ(a, b) ((a).guard == (b).guard)
#define ACC_NAMES(a, cell, val) ((a).guard == (val))
#else
#define ACC_EQ(a, b) ((a).v == (b).v)
#define ACC_NAMES(a, cell, val) ((a).v == (val))
#endif
#define XV_ACC_ANY xv_acc_any()
#define XV_ACC_EMPTY xv_acc_empty()

/* callee selection */
static bucket_t* vhm_lock_bucket_real(struct vhm* self, hash_t hash, guarded_block* block_p, bstate_t* state_p);
static extension_item* vhm_allocate_extension_item_real(block_t* b, hash_t hash);
static void vhm_free_extension_item_real(extension_item* item);
static _Bool vhm_do_extract_real(struct vhm* self, kkey_t key, accessor* result_p);
static void vhm_grow_stub(struct vhm* self, bucket_t* bucket_p, bstate_t state);
static void vhm_do_grow_stub(struct vhm* self);
#define vhm_lock_bucket(self, h, blk, st) vhm_lock_bucket_real((self), (h), &(blk), &(st))
/* allocate/free_extension_item: the writers see their contracts (stubs below, proved for the real text by runs alloc / free);
   -DXV_REAL_POOL inlines the real text instead */
static extension_item* alloc_stub(block_t* b, hash_t h);
static void free_stub(extension_item* item);
#ifdef XV_REAL_POOL
#define vhm_allocate_extension_item(b, h) vhm_allocate_extension_item_real((b), (h))
#define vhm_free_extension_item(i) vhm_free_extension_item_real(i)
#else
#define vhm_allocate_extension_item(b, h) alloc_stub((b), (h))
#define vhm_free_extension_item(i) free_stub(i)
#endif
#define vhm_do_extract(self, k, acc) vhm_do_extract_real((self), (k), &(acc))
#define vhm_grow(self, bk, st) vhm_grow_stub((self), &(bk), (st))
#define vhm_do_grow(self) vhm_do_grow_stub(self)

/* contract of free_extension_item(item): item is pushed on the free list of the extension bucket that contains it; nothing else changes.
   contract of allocate_extension_item(b, hash): returns null iff every free list of b is empty, otherwise pops the head of one of the
   non-empty lists (which one depends on hash: unspecified here). */
_Bool free_stub_bad;
static void free_stub(extension_item* item) {
  /* the stores are made through the atomic model so that the writer-guarantee monitor sees the recycling of the item */
  for (int p = 0; p < POOL; ++p) if (item == POOL_ITEM_C(p)) { A_STORE(POOL_ITEM_C(p)->next, g_eb[p / XV_EIC].head, mo_release); A_STORE(g_eb[p / XV_EIC].head, POOL_ITEM_C(p), mo_relaxed); return; }
  free_stub_bad = 1;
}
static extension_item* alloc_stub(block_t* b, hash_t h) {
  unsigned pick = nondet_uint();
  if (b == &g_blk2) {
    for (unsigned e = 0; e < XV_NEB; ++e) if (e < b->extension_bucket_count && e == pick && g_eb2[e].head) { extension_item* x = g_eb2[e].head; g_eb2[e].head = x->next; return x; }
    for (unsigned e = 0; e < XV_NEB; ++e) XV_ASSUME(!(e < b->extension_bucket_count && g_eb2[e].head));
    return 0;
  }
  for (unsigned e = 0; e < XV_NEB; ++e) if (e < b->extension_bucket_count && e == pick && g_eb[e].head) {
    extension_item* x = g_eb[e].head; g_eb[e].head = x->next; return x; }
  for (unsigned e = 0; e < XV_NEB; ++e) XV_ASSUME(!(e < b->extension_bucket_count && g_eb[e].head));    /* pick was not a non-empty list: then none is */
  return 0;
}

/* allocate_block(bucket_count) (not under contract: operator new + memset + free-list construction): returns null or a zeroed block with
   that many buckets and an extension pool whose items are all free; the pool is at least as large as the old one (it doubles with the block) */
uint32_t in_ebc2; _Bool alloc_block_may_fail; unsigned alloc_block_calls; uint32_t alloc_block_arg;
static block_t* vhm_allocate_block(struct vhm* self, uint32_t n) {
  alloc_block_calls++; alloc_block_arg = n;
  if (alloc_block_may_fail && nondet_bool()) return 0;
  g_blk2.mask = n - 1; g_blk2.bucket_count = n; g_blk2.extension_bucket_count = in_ebc2; g_blk2.extension_buckets = g_eb2; g_blk2.bkts = g_bk2;
  for (int b = 0; b < 2 * NB; ++b) { g_bk2[b].state = 0; g_bk2[b].head = 0; for (int i = 0; i < NSLOT; ++i) { g_bk2[b].key[i] = 0; g_bk2[b].value[i] = 0; } }
  for (int e = 0; e < XV_NEB; ++e) { g_eb2[e].lock = 0; g_eb2[e].head = 0;
    if ((uint32_t)e < in_ebc2) for (int j = 0; j < XV_EIC; ++j) { POOL2_ITEM_C(e * XV_EIC + j)->next = g_eb2[e].head; g_eb2[e].head = POOL2_ITEM_C(e * XV_EIC + j); } }
  return &g_blk2;
}
unsigned blk_retired_count; block_t* blk_retired;
#define GB_reclaim(g) do { blk_retired_count++; blk_retired = (g); (g) = 0; } while (0)

/* Factory / Callback template arguments of do_get_or_emplace */
vval_t in_value; _Bool factory_may_throw; unsigned factory_calls, cb_count; accessor cb_acc; vcell_t* cb_cell;
static vval_t xv_factory(void) { factory_calls++; if (factory_may_throw && nondet_bool()) { xv_threw = XV_EXC_factory; return nondet_val(); } return in_value; }
#define XV_FACTORY() xv_factory()
static void xv_callback(accessor a, vcell_t* cell) { cb_count++; cb_acc = a; cb_cell = cell; }
#define XV_CALLBACK(a, cell) xv_callback((a), &(cell))

#endif
