# unit-local mechanical lowering rules for unit vhm (exec'd by unit.py).  Nothing here contains function text of /repo:
# the rules rewrite whatever text was extracted on this run, and each one counts how often it fired (must_fire).
import re
from xvlib import lower as L

def _match(s, i, op, cl):
    """s[i] == op; index of the matching cl (no string literals in lowered text)"""
    d = 0
    while i < len(s):
        if s[i] == op: d += 1
        elif s[i] == cl:
            d -= 1
            if d == 0: return i
        i += 1
    raise L.ExtractError('unbalanced %s' % op)

def _stmt_start(s, i):
    """index of the first character of the statement containing position i (after the previous ; { } or label ':' )"""
    j = i
    while j > 0 and s[j - 1] not in ';{}': j -= 1
    while True:
        while s[j].isspace(): j += 1
        # a preprocessor line (`#define x (*x_p)` of a lowered C++ reference, `#undef`) between the previous statement and this one is
        # not part of the statement: text inserted in front of the statement must not land on the directive's line
        if s[j] == '#' and '\n' in s[j:i]: j = s.index('\n', j) + 1
        else: break
    return j

# --- exceptions ---------------------------------------------------------------------------------------------------
def throw_checks(s, lw, on_throw, hoist_args=(), stmts=(), conds=()):
    """C++ exception flow made explicit on already lowered text.
       hoist_args: calls NAME() that appear as an ARGUMENT of a statement and may throw: C++ evaluates the argument (and
                   throws) before the enclosing call runs  ->  { __auto_type t = NAME(); if (xv_threw) ON; <stmt with t> }
       stmts:      NAME(...) ;   statements whose call may throw  ->  stmt; if (xv_threw) ON;
       conds:      if (NAME(...)) BLOCK  ->  { _Bool c = NAME(...); if (xv_threw) ON; if (c) BLOCK }"""
    n = [0]
    for name in hoist_args:
        pos = 0
        while True:
            m = re.compile(r'\b%s\s*\(\s*\)' % re.escape(name)).search(s, pos)
            if not m: break
            a = _stmt_start(s, m.start()); e = s.index(';', m.end())
            stmt = s[a:e + 1]
            if stmt.startswith('__auto_type xv_h'): pos = m.end(); continue
            n[0] += 1
            tmp = 'xv_h%d' % n[0]
            new = '{ __auto_type %s = %s(); if (xv_threw) %s %s }' % (tmp, name, on_throw, stmt.replace(m.group(0), tmp, 1))
            s = s[:a] + new + s[e + 1:]
            lw.fire('hoist_arg:' + name); pos = a + len(new)
    for name in stmts:
        pos = 0
        while True:
            m = re.compile(r'(?<![\w.])%s\s*\(' % re.escape(name)).search(s, pos)
            if not m: break
            a = _stmt_start(s, m.start())
            if s[a:m.start()].strip() not in ('', '{') and not re.match(r'[\w\s\*]+=\s*$', s[a:m.start()]):
                pos = m.end(); continue            # not a call statement (e.g. inside a condition): handled by conds
            e = _match(s, m.end() - 1, '(', ')')
            k = e + 1
            while s[k].isspace(): k += 1
            if s[k] != ';': pos = m.end(); continue
            ins = ' if (xv_threw) %s' % on_throw
            s = s[:k + 1] + ins + s[k + 1:]
            lw.fire('throw_check:' + name); pos = k + 1 + len(ins)
    for name in conds:
        pos = 0
        while True:
            m = re.compile(r'\bif\s*\(\s*(%s\s*\()' % re.escape(name)).search(s, pos)
            if not m: break
            p0 = s.index('(', m.start()); p1 = _match(s, p0, '(', ')')
            c0 = m.start(1); c1 = _match(s, s.index('(', c0), '(', ')')
            if s[c1 + 1:p1].strip() != '': raise L.ExtractError('cond hoist: condition is not a plain call of ' + name)
            b0 = p1 + 1
            while s[b0].isspace(): b0 += 1
            if s[b0] != '{': raise L.ExtractError('cond hoist: if without block')
            b1 = _match(s, b0, '{', '}')
            n[0] += 1
            tmp = 'xv_c%d' % n[0]
            new = '{ _Bool %s = %s; if (xv_threw) %s if (%s) %s }' % (tmp, s[c0:c1 + 1], on_throw, tmp, s[b0:b1 + 1])
            s = s[:m.start()] + new + s[b1 + 1:]
            lw.fire('hoist_cond:' + name); pos = m.start() + 1
    return s

def try_catch(s, lw, label, **kw):
    """returns (text before, lowered try/catch, text after).
       try { A } catch (...) { B }  ->  { A' } if (0) { label: ; { int xv_saved = xv_threw; xv_threw = 0; B' } }
       A': exception checks jump to label; B': `throw;` re-raises the saved exception"""
    m = re.search(r'\btry\s*\{', s)
    if not m: return (s, '', '')
    a0 = s.index('{', m.start()); a1 = _match(s, a0, '{', '}')
    mc = re.compile(r'\s*catch\s*\(\s*\.\.\.\s*\)\s*\{').match(s, a1 + 1)
    if not mc: raise L.ExtractError('try without catch (...)')
    b0 = mc.end() - 1; b1 = _match(s, b0, '{', '}')
    A = throw_checks(s[a0:a1 + 1], lw, 'goto %s;' % label, **kw)
    B, nrethrow = re.subn(r'\bthrow\s*;', '{ xv_threw = xv_saved; XV_RET; }', s[b0:b1 + 1])
    lw.fire('try_catch'); lw.fire('rethrow', nrethrow)
    return (s[:m.start()], A + '\n if (0) { %s: ; { int xv_saved = xv_threw; xv_threw = 0; %s } }' % (label, B), s[b1 + 1:])

# --- RAII ---------------------------------------------------------------------------------------------------------
def raii(s, lw, decl_marker, dtor_call):
    """C++ runs the destructor of a local on every exit from its scope.  The local is declared at function-body level, its scope
       is the rest of the function: every `return <literal>;`, every exceptional exit `XV_RET;` and every backward `goto` (which leaves
       the scope, all labels of these functions precede the declaration) that textually follows the declaration is preceded by the
       destructor call."""
    i = s.index(decl_marker)
    head, tail = s[:i + len(decl_marker)], s[i + len(decl_marker):]
    def rp(m):
        x = m.group(0)
        if x.startswith('return'):
            if not re.match(r'return\s+(true|false|0|1)\s*;$', x): raise L.ExtractError('raii: return of a non-literal: ' + x)
        lw.fire('raii_exit')
        return '{ %s %s }' % (dtor_call, x)
    tail = re.sub(r'\breturn\b[^;]*;|\bXV_RET\s*;|\bgoto\s+(?!xv_)\w+\s*;|\bXV_GOTO_RETRY\s*;', rp, tail)
    return head + tail
