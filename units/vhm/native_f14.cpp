// F14: vyukov_hash_map::try_get_value never returns when an extension item has the hash of the searched key but a different key:
// the `continue` in the `while (extension)` loop re-tests the same item for ever (impl/vyukov_hash_map.hpp, extension loop of try_get_value).
// Needs a non-trivial key (key cell = hash) and a bucket whose array is full, i.e. >= 4 keys with one hash; extension items exist only
// for maps with >= 128 buckets (bucket_to_extension_ratio).
// build: g++ -std=c++17 -g -fno-access-control -I /repo native_f14.cpp -pthread ;  run under `timeout 10`.
// exit 0: all lookups return and are right; 1: wrong answer; timeout (124): defect reproduced (hang)
#include <xenium/vyukov_hash_map.hpp>
#include <xenium/reclamation/generic_epoch_based.hpp>
#include <cstdio>
#include <string>
struct const_hash { std::size_t operator()(const std::string&) const { return 7; } };
int main() {
  using R = xenium::reclamation::epoch_based<>;
  using M = xenium::vyukov_hash_map<std::string, int, xenium::policy::reclaimer<R>, xenium::policy::hash<const_hash>>;
  M m(256);
  for (int i = 0; i < 5; ++i) m.emplace("k" + std::to_string(i), i);      // 3 in the bucket array, 2 in the extension list (k4 first, then k3)
  int bad = 0;
  for (int i = 0; i < 5; ++i) {
    M::accessor a;
    printf("try_get_value(k%d) ...", i); fflush(stdout);
    bool f = m.try_get_value("k" + std::to_string(i), a);                  // k3 sits behind k4 in the extension list: hangs
    printf(" -> %d value %d\n", f, f ? *a : -1); fflush(stdout);
    if (!f || *a != i) bad = 1;
  }
  M::accessor a;
  printf("try_get_value(absent) ..."); fflush(stdout);
  bool f = m.try_get_value("absent", a);                                   // hangs as well
  printf(" -> %d\n", f);
  if (f) bad = 1;
  return bad;
}
