/* unit vhm - vyukov_hash_map (C10): harnesses.  Types, stubs, monitors and specification functions are in model.h;
 * every function body under contract comes from lowered.h (extracted from /repo on this run). */
#include "model.h"

/* inputs (in_*: what a native replay needs to rebuild the configuration through the public API) */
kkey_t in_key, in_gk; uint32_t in_ic, in_mask, in_ebc; unsigned in_n; unsigned in_c[XV_L];
int in_kpos, in_gpos; _Bool in_collide, in_acquire; int in_nt, in_op;   /* in_op: 1 do_extract, 2 erase, 3 extract, 4 do_get_or_emplace, 5 try_get_value */

static void xv_retry_cut(void);
#define XV_GOTO_RETRY xv_retry_cut()   /* `goto retry` after grow(): cut (ends with assume(false)), see h_emplace */
static void do_grow_contract(struct vhm* self);
/* try_get_value, INT mode: both unbounded loops are cut (Route X).
 * retry loop: nothing but the caller's result accessor lives across iterations; the monitor starts a fresh iteration.
 * chain loop: the reader holds a pointer to an extension item (or null) that it loaded after this iteration's first state load. */
static void rd_reset(void); static void rd_chain_havoc(void);
extern accessor rd_res0; extern _Bool rd_have_state1; extern uint64_t rd_state1_clock, rd_ptr_clock, rd_state_last_clock; extern bstate_t rd_state1; extern _Bool rd_ptr_seen; extern uint64_t rd_ptr_val;
/* grow, INT mode: the loop that waits for the other resizer is cut; it writes nothing */
extern unsigned gi_bucket_stores, gi_xchg_count, do_grow_calls; extern uint64_t gi_xchg_old;
#define XV_HAVOC_WAIT (void)0
#define XV_INV_WAIT (gi_bucket_stores == 1 && gi_xchg_count == 1 && gi_xchg_old != 0 && do_grow_calls == 0)
/* lock_bucket, INT mode: the spin loop is cut; nothing is carried from one attempt to the next */
#define XV_HAVOC_LOCK (*block_p) = nondet_bool() ? &g_blk : 0; (*state_p) = nondet_u32() /* block, state (by-reference parameters); st, bucket_idx, bucket (a reference): declared inside */
#define XV_INV_LOCK (lk_cas_ok_count == 0 && lk_stores == 0)
extern unsigned lk_cas_ok_count, lk_stores;
#define XV_HAVOC_RETRY rd_reset(); XV_ASSUME(xv_clock < ((uint64_t)1 << 62)) /* (model: fewer than 2^62 atomic accesses in all) state, item_count, i, acc, state2, delete_marker, extension: all declared inside the retry body */
#define XV_INV_RETRY (ACC_EQ(*result_p, rd_res0))    /* (the havoc step restarts the iteration monitor: ghost only) */
#define XV_HAVOC_CHAIN extension = POOL_ITEM(nondet_uint()); state = nondet_u32(); rd_chain_havoc() /* acc, state2: declared inside; result: written only on the path that returns */
#define XV_INV_CHAIN (ACC_EQ(*result_p, rd_res0) && rd_have_state1 && BS_version(state) == BS_version(rd_state1) && rd_ptr_seen && rd_ptr_val == (uint64_t)extension \
                      && rd_state1_clock < rd_ptr_clock && rd_ptr_clock <= xv_clock && rd_state_last_clock <= xv_clock)
#undef vhm_do_grow
#define vhm_do_grow(self) do_grow_contract(self)
#include "lowered.h"
#include "spec.h"

/* ------------------------------------------------------------------ state builder: an arbitrary quiescent map state around bucket g_B */
enum { R_NONE = 0, R_CHAIN, R_FREE, R_OTHER };
int role0[POOL];
static void havoc_cells(kcell_t* kc, vcell_t* vc, int node, _Bool occupied) {
  /* node: constant.  Item number `node` owns heap node `node` (node modes) and Value object `node` (managed_ptr modes) */
#if defined(XV_NODE)
  if (occupied) {
    struct node* nd = NODE_C(node);
#ifdef XV_MANAGED
    NODE_VAL(nd) = UOBJ_C(node); uobj_retired[node] = 0;
#else
    NODE_VAL(nd) = nondet_val();
#endif
    node_retired[node] = 0; *vc = nd;
#ifdef XV_KEYNODE
    NODE_KEY(nd) = nondet_key(); *kc = XV_HASH(NODE_KEY(nd));
#else
    *kc = nondet_kcell();
#endif
  } else { *vc = node_at(nondet_uint()); *kc = nondet_kcell(); }
#elif defined(XV_MT)
  *kc = nondet_kcell();
  if (occupied) { *vc = UOBJ_C(node); uobj_retired[node] = 0; } else *vc = uobj_at(nondet_uint());
#else
  *kc = nondet_kcell(); *vc = nondet_val();
#endif
}
static void build_state(int maxchain) {
  XV_ASSUME(NSLOT == bucket_item_count);
#if defined(XV_MN)
  in_nt = 4;
#elif defined(XV_MT)
  in_nt = 3;
#elif defined(XV_TN)
  in_nt = 2;
#elif defined(XV_NT)
  in_nt = 1;
#else
  in_nt = 0;
#endif
  in_key = nondet_key(); in_gk = nondet_key();
#ifdef XV_MANAGED
  in_value = UOBJ_C(NN - 1);        /* the Value object being inserted: not yet in the map */
#else
  in_value = nondet_val();
#endif
  in_mask = nondet_u32(); in_ebc = nondet_u32(); in_ic = nondet_u32(); in_n = nondet_uint();
  XV_ASSUME(in_mask == XV_MASK && in_ebc <= XV_NEB && in_ic <= NSLOT && in_n <= (unsigned)maxchain);
  XV_ASSUME(in_n == 0 || in_ic == NSLOT);
  g_map.data_block = &g_blk; g_map.resize_lock = 0;
  g_blk.mask = XV_MASK; g_blk.bucket_count = XV_MASK + 1; g_blk.extension_bucket_count = in_ebc; g_blk.extension_buckets = g_eb; g_blk.bkts = g_bk;
  g_eb_base = nondet_uptr(); XV_ASSUME(g_eb_base % sizeof(extension_bucket) == 0 && g_eb_base < ((uintptr_t)1 << 62));
  for (int i = 0; i < NN; ++i) { node_retired[i] = nondet_bool(); uobj_retired[i] = nondet_bool(); NODE_VAL(NODE_C(i)) = nondet_val();
#ifdef XV_KEYNODE
    NODE_KEY(NODE_C(i)) = nondet_key();
#endif
  }
  uobj_retired[NN - 1] = 0; uretire_count = 0; last_uretired = 0;
  spec_ignore_retired = 0; retire_count = 0; last_retired = 0; reclaim_of_null = 0; new_count = 0; factory_calls = 0; cb_count = 0; cb_cell = 0; eb_at_ok = 1; xv_threw = 0;
  /* the bucket under test */
  hash_t h = XV_HASH(in_key);
#if XV_MASK == 0
  g_B = &g_bk[0]; g_other = 0;
#else
  if (h & 1) { g_B = &g_bk[1]; g_other = &g_bk[0]; } else { g_B = &g_bk[0]; g_other = &g_bk[1]; }
#endif
  uint32_t ver = nondet_u32(); XV_ASSUME(ver < ((uint64_t)1 << (32 - version_shift)));
  g_B->state = (in_ic << item_count_shift) | (ver << version_shift);
  for (int i = 0; i < NSLOT; ++i) havoc_cells(&g_B->key[i], &g_B->value[i], i, (uint32_t)i < in_ic);
  /* extension pool: roles, chain of g_B, free lists */
  for (int p = 0; p < POOL; ++p) {
    extension_item* x = POOL_ITEM(p);
    role0[p] = (p / XV_EIC < (int)in_ebc) ? (nondet_bool() ? R_FREE : R_OTHER) : R_NONE;
    chain0[p] = 0;
    x->next = POOL_ITEM(nondet_uint());           /* R_OTHER / R_NONE: arbitrary contents */
    havoc_cells(&x->key, &x->value, 0, 0);
  }
  g_B->head = 0;
  for (int q = XV_L - 1; q >= 0; --q) if ((unsigned)q < in_n) {
    in_c[q] = nondet_uint(); XV_ASSUME(in_c[q] < POOL && role0[in_c[q]] != R_NONE && role0[in_c[q]] != R_CHAIN);
    role0[in_c[q]] = R_CHAIN; chain0[in_c[q]] = 1;
    extension_item* x = POOL_ITEM(in_c[q]);
    havoc_cells(&x->key, &x->value, NSLOT + q, 1);
    x->next = g_B->head; g_B->head = x;
  }
  for (int b = 0; b < XV_NEB; ++b) {
    g_eb[b].lock = 0; g_eb[b].head = 0;
    _Bool rev = nondet_bool();
    for (int j = 0; j < XV_EIC; ++j) { int jj = rev ? XV_EIC - 1 - j : j; int p = b * XV_EIC + jj;
      if (role0[p] == R_FREE) { POOL_ITEM_C(p)->next = g_eb[b].head; g_eb[b].head = POOL_ITEM_C(p); } }
  }
  /* the bystander bucket: anything */
  if (g_other) {
    g_other->state = nondet_u32(); for (int i = 0; i < NSLOT; ++i) havoc_cells(&g_other->key[i], &g_other->value[i], 0, 0);
    g_other->head = POOL_ITEM(nondet_uint()); g_other0 = *g_other;
  }
  XV_ASSUME(inv_B(g_B, maxchain));
  mon_prev_state = g_B->state; mon_version0 = BS_version(g_B->state);
  mon_bad_slot_store = mon_bad_state_step = mon_bad_item_store = mon_bad_order = mon_lock_dropped = 0;
  for (int p = 0; p < POOL; ++p) { mon_next_store_v0[p] = mon_unlinked_v0[p] = mon_unlinked[p] = mon_published[p] = 0; mon_next_shadow[p] = POOL_ITEM_C(p)->next; }
  mon_bad_publish = 0; mon_publications = 0; mon_prev_head = g_B->head;
  mon_state_stores = mon_unlocks = mon_slot_stores = mon_head_stores = 0;
}
static _Bool other_unchanged(void) {
  if (!g_other) return 1;
  if (g_other->state != g_other0.state || g_other->head != g_other0.head) return 0;
  for (int i = 0; i < NSLOT; ++i) if (g_other->key[i] != g_other0.key[i] || g_other->value[i] != g_other0.value[i]) return 0;
  return 1;
}
/* pool accounting: every existing pool item is in exactly one place, and it is the expected one */
static _Bool pool_ok(const int* role) {
  for (int b = 0; b < XV_NEB; ++b) if (b < (int)g_blk.extension_bucket_count && !free_list_ok(b)) return 0;
  for (int p = 0; p < POOL; ++p) {
    extension_item* x = POOL_ITEM(p);
    if (role[p] == R_NONE) continue;
    if (in_chain(g_B, x) != (role[p] == R_CHAIN)) return 0;
    if (in_free_list(x) != (role[p] == R_FREE)) return 0;
  }
  return 1;
}
static uint32_t version_delta(bstate_t now) { return (BS_version(now) - mon_version0) & (uint32_t)((((uint64_t)1) << (32 - version_shift)) - 1); }
#define GUARANTEE_OK (!mon_bad_slot_store && !mon_bad_state_step && !mon_bad_item_store && !mon_lock_dropped)
#define PUBLISH_OK (!mon_bad_publish)

/* ------------------------------------------------------------------ do_extract / erase / extract */
struct pre { struct look k, g; bucket_t B0; int size0; };
static struct pre snapshot(void) {
  struct pre s; s.k = lookup(g_B, in_key); s.g = lookup(g_B, in_gk); s.B0 = *g_B; s.size0 = (int)in_ic + (int)in_n;
  in_kpos = s.k.pos; in_gpos = s.g.pos;
  in_collide = 0;
#ifdef XV_KEYNODE
  { hash_t h = XV_HASH(in_key);
    for (int i = 0; i < NSLOT; ++i) if ((uint32_t)i < in_ic && g_B->key[i] == h && i != s.k.pos) in_collide = 1;
    for (int p = 0; p < POOL; ++p) if (chain0[p] && POOL_ITEM(p)->key == h && !(s.k.found && s.k.cell == POOL_ITEM(p)->value)) in_collide = 1; }
#endif
  return s;
}
/* what a successful removal of in_key must leave behind */
static void check_removed(struct pre s, int expect_role_change) {
  int role[POOL]; for (int p = 0; p < POOL; ++p) role[p] = role0[p];
  struct look k1 = lookup(g_B, in_key), g1 = lookup(g_B, in_gk);
  XV_OBL("vhm.extract.iff_present", !k1.found);
  if (in_gk != in_key) XV_OBL("vhm.extract.iff_present", look_eq(g1, s.g));
  XV_OBL("vhm.extract.iff_present", inv_B(g_B, XV_L));
  XV_OBL("vhm.extract.iff_present", (int)BS_item_count(g_B->state) + chain_len(g_B, XV_L) == s.size0 - 1);
  /* the chain lost exactly one item iff there was a chain (the found item, or the first one which moved into the array); it went to its free list */
  if (in_n > 0) {
    int lost = (s.k.pos >= NSLOT) ? (int)in_c[s.k.pos - NSLOT] : (int)in_c[0];
    for (int p = 0; p < POOL; ++p) if (p == lost) { role[p] = R_FREE; XV_OBL("vhm.remove.version_bumped", !mon_next_store_v0[p]); }
  }
  /* until the version moves, only the item that holds the removed key may leave the chain: an item that is merely MOVED (first extension
     item into the freed array slot) stays reachable at its old place until readers can tell (version bump) that the bucket changed */
  for (int q = 0; q < XV_L; ++q) if ((unsigned)q < in_n && s.k.pos != NSLOT + q)
    for (int p = 0; p < POOL; ++p) if (p == (int)in_c[q]) XV_OBL("vhm.remove.version_bumped", !mon_unlinked_v0[p]);
  XV_OBL("vhm.extract.pool", pool_ok(role) && eb_at_ok);
  XV_OBL("vhm.remove.version_bumped", version_delta(g_B->state) >= 1 && version_delta(g_B->state) <= 2);
  XV_OBL("vhm.remove.version_bumped", GUARANTEE_OK);
  XV_OBL("vhm.emplace.publish_order", PUBLISH_OK && mon_publications == 0);
  XV_OBL("vhm.ops.unlock", !BS_is_locked(g_B->state) && mon_unlocks == 1);
  XV_OBL("vhm.sync.release", !mon_bad_order && XV_IS_RELEASE(mon_last_state_order));
  XV_OBL("vhm.ops.frame", other_unchanged());
}
static void check_unchanged(struct pre s) {
  XV_OBL("vhm.ops.frame", g_B->state == s.B0.state && g_B->head == s.B0.head && other_unchanged());
  for (int i = 0; i < NSLOT; ++i) XV_OBL("vhm.ops.frame", g_B->key[i] == s.B0.key[i] && g_B->value[i] == s.B0.value[i]);
  XV_OBL("vhm.ops.frame", look_eq(lookup(g_B, in_key), s.k) && look_eq(lookup(g_B, in_gk), s.g) && inv_B(g_B, XV_L));
  XV_OBL("vhm.ops.frame", pool_ok(role0) && mon_slot_stores == 0 && mon_head_stores == 0);
  for (int p = 0; p < POOL; ++p) XV_OBL("vhm.ops.frame", !mon_unlinked_v0[p]);
  XV_OBL("vhm.ops.unlock", !BS_is_locked(g_B->state) && !mon_lock_dropped);
  XV_OBL("vhm.remove.version_bumped", GUARANTEE_OK);
  XV_OBL("vhm.emplace.publish_order", PUBLISH_OK && mon_publications == 0);
}

void h_do_extract(void) {
  build_state(XV_L); in_op = 1;
  accessor res = xv_acc_any(), res0 = res;
  struct pre s = snapshot();
  gp_may_throw = 1;
  mon_on = 1; _Bool r = vhm_do_extract_real(&g_map, in_key, &res); mon_on = 0;
  if (xv_threw) {          /* only NONTRIVIAL: the guard_ptr constructed in compare_key may throw (no free hazard pointer) */
    check_unchanged(s);
#ifdef XV_NT
    XV_CANARY("extract.threw");
#endif
#if defined(XV_TN) || defined(XV_MT) || defined(XV_MN)
    XV_CANARY("extract.threw_guard");
#endif
    return;
  }
  XV_OBL("vhm.extract.iff_present", r == s.k.found);
  if (r) {
    XV_OBL("vhm.extract.iff_present", ACC_NAMES(res, s.k.cell, s.k.val));
#ifdef XV_KEYNODE
    XV_OBL("vhm.extract.iff_present", NODE_KEY(ACC_NODE(res)) == in_key);
#endif
    check_removed(s, 1);
    if (s.k.pos < NSLOT && in_n > 0) XV_CANARY("extract.array_with_chain");
    if (s.k.pos < NSLOT && in_n == 0 && s.k.pos != (int)in_ic - 1) XV_CANARY("extract.array_move_last");
    if (s.k.pos < NSLOT && in_n == 0 && s.k.pos == (int)in_ic - 1) XV_CANARY("extract.array_last");
    if (s.k.pos == NSLOT) XV_CANARY("extract.chain_first");
#if XV_L >= 2
    if (s.k.pos > NSLOT) XV_CANARY("extract.chain_later");
#endif
  } else {
    check_unchanged(s);
    if (in_ic == 0) XV_CANARY("extract.empty_bucket"); else XV_CANARY("extract.absent");
#ifdef XV_KEYNODE
    if (in_collide) XV_CANARY("extract.absent_collision");
#endif
  }
}

/* erase(key) / extract(key, acc): do_extract inlined (real text), reclaim through the real traits text */
static void check_retire(struct pre s, _Bool r, _Bool erase_api) {
  XV_OBL("vhm.erase.retires_only_removed", !reclaim_of_null);
#ifdef XV_NODE
  /* the map's own heap node of the removed item: retired exactly once by erase and by extract (whose accessor keeps it alive for the caller) */
  XV_OBL("vhm.erase.retires_only_removed", retire_count == (r ? 1u : 0u));
  if (r) XV_OBL("vhm.erase.retires_only_removed", last_retired == s.k.cell);
  if (r) XV_OBL("vhm.erase.retires_only_removed", node_retired[node_index(s.k.cell)] == 1);
#else
  XV_OBL("vhm.erase.retires_only_removed", retire_count == 0);
#endif
#ifdef XV_MANAGED
  /* the Value object (managed_ptr): erase retires it exactly once, extract hands it to the caller un-retired */
  XV_OBL("vhm.erase.retires_only_removed", uretire_count == ((r && erase_api) ? 1u : 0u));
  if (r && erase_api) XV_OBL("vhm.erase.retires_only_removed", last_uretired == s.k.val && uobj_retired[uobj_index(s.k.val)] == 1);
#else
  XV_OBL("vhm.erase.retires_only_removed", uretire_count == 0);
#endif
  /* nothing that is still linked is retired (part of inv_B) */
  XV_OBL("vhm.erase.retires_only_removed", inv_B(g_B, XV_L));
}
void h_erase(void) {
  build_state(XV_L); in_op = 2;
  struct pre s = snapshot();
  mon_on = 1; _Bool r = vhm_erase(&g_map, in_key); mon_on = 0;
  XV_OBL("vhm.extract.iff_present", r == s.k.found);
  check_retire(s, r, 1); spec_ignore_retired = 1;
  if (r) { check_removed(s, 1); XV_CANARY("erase.removed"); }
  else {
    check_unchanged(s); XV_CANARY("erase.absent");
#ifdef XV_KEYNODE
    if (in_collide) XV_CANARY("erase.absent_collision");
#endif
  }
}
void h_extract(void) {
  build_state(XV_L); in_op = 3;
  accessor acc = xv_acc_any();
  struct pre s = snapshot();
  mon_on = 1; _Bool r = vhm_extract(&g_map, in_key, &acc); mon_on = 0;
  XV_OBL("vhm.extract.iff_present", r == s.k.found);
  check_retire(s, r, 0); spec_ignore_retired = 1;
  if (r) {
    /* extract keeps the accessor usable: it still names the removed node / Value object, which carries the removed value */
    XV_OBL("vhm.extract.iff_present", ACC_NAMES(acc, s.k.cell, s.k.val));
    check_removed(s, 1); XV_CANARY("extract_api.removed");
  } else {
    check_unchanged(s); XV_CANARY("extract_api.absent");
#ifdef XV_KEYNODE
    if (in_collide) XV_CANARY("extract_api.absent_collision");
#endif
  }
}

/* ------------------------------------------------------------------ do_get_or_emplace<AcquireAccessor>(key, factory, callback)
 * = emplace (AcquireAccessor false, callback ignores the accessor) and get_or_emplace(_lazy) (true, callback moves the accessor out).
 * grow() is a contract stub: it releases the bucket (stores `state`) - proved for the real text by run grow - and may throw bad_alloc.
 * `goto retry` after grow() is cut: at the cut the operation has changed nothing, holds no lock and will not touch the old bucket again,
 * i.e. the state satisfies the precondition this harness starts from (with the new block grow published). */
unsigned grow_calls; bucket_t* grow_bucket; bstate_t grow_state; _Bool grow_may_throw; unsigned stores_at_grow; struct pre g_pre; _Bool cut_reached;
static void vhm_grow_stub(struct vhm* self, bucket_t* bucket_p, bstate_t state) {
  grow_calls++; grow_bucket = bucket_p; grow_state = state;
  A_STORE(bucket_p->state, state, mo_relaxed);            /* grow: "release the bucket lock" */
  stores_at_grow = mon_state_stores;
  if (grow_may_throw && nondet_bool()) xv_threw = XV_EXC_std__bad_alloc;
}
static void check_unchanged(struct pre s);
static void xv_retry_cut(void) {
  XV_OBL("vhm.emplace.retry_state", grow_calls == 1 && grow_bucket == g_B && grow_state == g_pre.B0.state && !xv_threw);
  XV_OBL("vhm.emplace.retry_state", mon_state_stores == stores_at_grow);      /* the disabled unlocker does not write the bucket again */
  check_unchanged(g_pre);
  XV_OBL("vhm.emplace.retry_state", factory_calls == 0 && cb_count == 0 && new_count == 0);
#ifdef XV_MODE_T
  XV_CANARY("emplace.grow_retry");
#endif
  XV_ASSUME(0);
}
void h_emplace(void) {
  build_state(XV_L); in_op = 4;
  in_acquire = nondet_bool();
  struct pre s = snapshot(); g_pre = s;
  factory_may_throw = 1; new_may_throw = 1; gp_may_throw = 1; grow_may_throw = 1; grow_calls = 0;
  mon_on = 1; _Bool r = vhm_do_get_or_emplace(&g_map, in_acquire, in_key); mon_on = 0;
  if (xv_threw) {
    /* factory / new node / guard / grow threw: nothing inserted, nothing lost, the extension item (if one was taken) is back in its free list */
    check_unchanged(s);
    XV_OBL("vhm.emplace.iff_absent", cb_count == 0);
    /* (each reachable canary costs one satisfiable solver call; the NONTRIVIAL runs keep the ones the TRIVIAL runs cannot show) */
#ifdef XV_NODE
    if (xv_threw == XV_EXC_std__bad_alloc && !grow_calls && in_ic == NSLOT) XV_CANARY("emplace.new_threw_with_extension_item");
#endif
#ifdef XV_MODE_T
    if (xv_threw == XV_EXC_factory) XV_CANARY("emplace.factory_threw");
    if (xv_threw == XV_EXC_std__bad_alloc && grow_calls) XV_CANARY("emplace.grow_threw");
    if (factory_calls && in_n == 0 && in_ic == NSLOT) XV_CANARY("emplace.threw_with_extension_item");
#endif
    return;
  }
  XV_OBL("vhm.emplace.iff_absent", r == !s.k.found);
  struct look k1 = lookup(g_B, in_key), g1 = lookup(g_B, in_gk);
  XV_OBL("vhm.emplace.iff_absent", cb_count == 1 && factory_calls == (r ? 1u : 0u));
  XV_OBL("vhm.ops.unlock", !BS_is_locked(g_B->state) && mon_unlocks == 1 && !mon_lock_dropped);
  XV_OBL("vhm.remove.version_bumped", GUARANTEE_OK && version_delta(g_B->state) == 0);   /* an insertion needs no version bump, but must obey the guarantee */
  XV_OBL("vhm.sync.release", !mon_bad_order);
  XV_OBL("vhm.ops.frame", other_unchanged());
  /* a new extension item is made reachable exactly once, complete (key, value, next == the head it replaces), by a release store, and is not
     written afterwards; an array slot is written before the item count that makes it visible is published (slot stores after that need a marker) */
  XV_OBL("vhm.emplace.publish_order", PUBLISH_OK && mon_publications == ((r && in_ic == NSLOT) ? 1u : 0u));
  if (!r) {
    /* found: get_or_emplace hands out the existing element and changes nothing */
    check_unchanged(s);
    if (in_acquire) XV_OBL("vhm.emplace.iff_absent", ACC_NAMES(cb_acc, s.k.cell, s.k.val));
#ifndef XV_NT
    if (s.k.pos < NSLOT) XV_CANARY("emplace.found_array");
#endif
    if (s.k.pos >= NSLOT) XV_CANARY("emplace.found_chain");
    return;
  }
  /* inserted: key -> the factory's value, every other key as before, Inv_B, exactly one free extension item consumed iff the array was full */
  XV_OBL("vhm.emplace.iff_absent", k1.found && k1.val == in_value);
  if (in_gk != in_key) XV_OBL("vhm.emplace.iff_absent", look_eq(g1, s.g));
  XV_OBL("vhm.emplace.iff_absent", inv_B(g_B, XV_L + 1));
  XV_OBL("vhm.emplace.iff_absent", (int)BS_item_count(g_B->state) + chain_len(g_B, XV_L + 1) == s.size0 + 1);
  XV_OBL("vhm.emplace.iff_absent", cb_cell != 0 && item_val(*cb_cell) == in_value);     /* the callback sees the cell of the new element */
  if (in_acquire) XV_OBL("vhm.emplace.iff_absent", ACC_NAMES(cb_acc, k1.cell, in_value));
#ifdef XV_NODE
  XV_OBL("vhm.emplace.iff_absent", new_count == 1 && k1.cell == NODE_C(NN - 1));      /* exactly one node allocated, and it is the one that was stored */
#else
  XV_OBL("vhm.emplace.iff_absent", new_count == 0);
#endif
  {
    int role[POOL]; int taken = 0;
    for (int p = 0; p < POOL; ++p) { role[p] = role0[p]; if (role0[p] == R_FREE && in_chain(g_B, POOL_ITEM_C(p))) { role[p] = R_CHAIN; taken++; } }
    XV_OBL("vhm.emplace.pool", pool_ok(role) && taken == (in_ic == NSLOT ? 1 : 0));
  }
#ifndef XV_NT
  if (in_ic < NSLOT) XV_CANARY("emplace.array"); else if (in_n == 0) XV_CANARY("emplace.first_extension");
#endif
  if (in_n > 0) XV_CANARY("emplace.extension");
}

/* ------------------------------------------------------------------ allocate_extension_item / free_extension_item (real text; their contracts are the
 * stubs alloc_stub / free_stub in model.h that the writer runs use) */
hash_t in_hash; unsigned in_item;
static void check_bucket_untouched(struct pre s) {
  XV_OBL("vhm.ops.frame", g_B->state == s.B0.state && g_B->head == s.B0.head && look_eq(lookup(g_B, in_gk), s.g) && chain_len(g_B, XV_L) == (int)in_n);
}
void h_alloc(void) {
  build_state(XV_L);
  struct pre s = snapshot();
  in_hash = nondet_u64();
  extension_item* head0[XV_NEB]; _Bool any = 0; int first = -1;
  for (int b = 0; b < XV_NEB; ++b) head0[b] = g_eb[b].head;
  /* probe order of the real text: (hash + idx) & (extension_bucket_count - 1) for idx = 0, 1, ... */
  for (int idx = XV_NEB - 1; idx >= 0; --idx) if ((uint32_t)idx < in_ebc) { int b = (int)((in_hash + (hash_t)idx) & (hash_t)(in_ebc - 1)); if (head0[b]) { any = 1; first = b; } }
  extension_item* r = vhm_allocate_extension_item_real(&g_blk, in_hash);
  XV_OBL("vhm.alloc_ext.pops_free", (r != 0) == any);
  int role[POOL]; for (int p = 0; p < POOL; ++p) role[p] = role0[p];
  if (r) {
    int p = pool_index(r);
    XV_OBL("vhm.alloc_ext.pops_free", p < POOL && role0[p] == R_FREE && p / XV_EIC == first && r == head0[first]);
    for (int q = 0; q < POOL; ++q) if (q == p) role[q] = R_OTHER;
    XV_CANARY("alloc.item");
  } else { if (in_ebc == 0) XV_CANARY("alloc.no_extension_buckets"); else XV_CANARY("alloc.all_empty"); }
  XV_OBL("vhm.alloc_ext.pops_free", pool_ok(role));            /* every other item stays where it was; all extension bucket locks released */
  for (int b = 0; b < XV_NEB; ++b) if (!(r && b == first)) XV_OBL("vhm.alloc_ext.pops_free", g_eb[b].head == head0[b]);
  check_bucket_untouched(s);
}
void h_free(void) {
  build_state(XV_L);
  struct pre s = snapshot();
  in_item = nondet_uint(); XV_ASSUME(in_item < POOL && role0[in_item] == R_OTHER);      /* an item that is neither linked nor free: just unlinked by the caller */
  extension_item* x = POOL_ITEM(in_item); extension_item* head0[XV_NEB];
  for (int b = 0; b < XV_NEB; ++b) head0[b] = g_eb[b].head;
  vhm_free_extension_item_real(x);
  int role[POOL]; for (int p = 0; p < POOL; ++p) role[p] = (p == (int)in_item) ? R_FREE : role0[p];
  XV_OBL("vhm.free_ext.own_bucket", eb_at_ok);                                /* the address arithmetic lands on the start of an extension bucket ... */
  XV_OBL("vhm.free_ext.own_bucket", pool_ok(role));                           /* ... the one that contains the item; other lists and items unchanged; lock released */
  for (int b = 0; b < XV_NEB; ++b) XV_OBL("vhm.free_ext.own_bucket", b == (int)in_item / XV_EIC ? (g_eb[b].head == x && x->next == head0[b]) : g_eb[b].head == head0[b]);
  check_bucket_untouched(s);
  XV_CANARY("free.done");
}

/* ------------------------------------------------------------------ grow(bucket, state): do_grow is a contract stub here */
unsigned do_grow_calls; _Bool do_grow_may_throw; bstate_t state_at_do_grow; int resize_lock_at_do_grow;
static void do_grow_contract(struct vhm* self) {
  do_grow_calls++; state_at_do_grow = g_B->state; resize_lock_at_do_grow = self->resize_lock;
  self->resize_lock = 0;                             /* do_grow releases the resize lock on both exits (run do_grow) */
  if (do_grow_may_throw && nondet_bool()) xv_threw = XV_EXC_std__bad_alloc;
}
void h_grow(void) {
  build_state(XV_L);
  struct pre s = snapshot();
  bstate_t st = g_B->state;
  g_B->state = BS_locked(st); mon_prev_state = g_B->state;          /* the caller holds the bucket lock */
  do_grow_may_throw = 1; do_grow_calls = 0;
  mon_on = 1; vhm_grow_real(&g_map, g_B, st); mon_on = 0;
  /* SEQ: nobody else is resizing */
  XV_OBL("vhm.ops.unlock", g_B->state == st && mon_state_stores == 1 && mon_unlocks == 1);
  XV_OBL("vhm.grow.resize_lock", do_grow_calls == 1 && resize_lock_at_do_grow == 1 && state_at_do_grow == st);   /* bucket released before do_grow locks all buckets */
  XV_OBL("vhm.grow.resize_lock", g_map.resize_lock == 0);
  g_B->state = st; check_unchanged(s);
  if (xv_threw) XV_CANARY("grow.threw"); else XV_CANARY("grow.done");
}

/* ------------------------------------------------------------------ try_get_value: the lock-free reader */
accessor rd_res0; _Bool env_on;
static void rd_chain_havoc(void) {
  rd_key_item = rd_val_item = -1; rd_key_clock = nondet_u64(); rd_val_clock = nondet_u64(); rd_ptr_clock = nondet_u64(); rd_ptr_val = nondet_u64();
  rd_state_last = nondet_u32(); rd_state_last_clock = nondet_u64(); xv_clock = nondet_u64(); XV_ASSUME(xv_clock < ((uint64_t)1 << 62));
}
#ifdef XV_INT
/* environment: any number of writers.  Default rely = the type invariant only: cells hold words of their type, pointers stay inside the
 * (never deallocated while the block is guarded) extension pool, value cells of NONTRIVIAL mode name (possibly retired, but guarded) nodes. */
_Bool env_resize;
void xv_env(void) {
  if (env_resize) g_map.resize_lock = nondet_bool();       /* another thread takes / releases the resize lock */
  if (!env_on) return;
  g_B->state = nondet_u32(); g_B->head = POOL_ITEM(nondet_uint());
  for (int i = 0; i < NSLOT; ++i) { g_B->key[i] = nondet_kcell(); g_B->value[i] = nondet_vcell(); }
  for (int p = 0; p < POOL; ++p) { extension_item* x = POOL_ITEM_C(p); x->key = nondet_kcell(); x->next = POOL_ITEM(nondet_uint()); x->value = nondet_vcell(); }
}
#endif
void h_get_int(void) {
#ifdef XV_INT
  build_state(XV_L);
  accessor res = xv_acc_any(); rd_res0 = res;
  hash_t h = XV_HASH(in_key);
  rd_reset(); rd_on = 1; env_on = 1;
  _Bool r = vhm_try_get_value_int(&g_map, in_key, &res);
  env_on = 0; rd_on = 0;
  uint64_t keyword =
#ifdef XV_KEYNODE
    h;
#else
    in_key;
#endif
  if (r) {
    /* the value handed out was loaded from the value cell of an item whose key cell had matched just before ... */
    XV_OBL("vhm.get.validated", rd_val_item >= 0 && rd_key_item == rd_val_item && rd_key_val == keyword && rd_key_clock < rd_val_clock);
#if defined(XV_MN)
    XV_OBL("vhm.get.validated", res.node_guard == (struct node*)rd_val && NODE_KEY(res.node_guard) == in_key && res.value_guard == NODE_VAL(res.node_guard));
#elif defined(XV_NODE)
    XV_OBL("vhm.get.validated", res.guard == (struct node*)rd_val);
#ifdef XV_KEYNODE
    XV_OBL("vhm.get.validated", NODE_KEY(res.guard) == in_key);     /* ... the full key matched (not just the hash) ... */
#endif
#elif defined(XV_MT)
    XV_OBL("vhm.get.validated", res.guard == (struct uobj*)rd_val);
#else
    XV_OBL("vhm.get.validated", res.v == (vval_t)rd_val);
#endif
    /* ... and no removal completed or touched that slot between this iteration's first state load and a state load made after the value was read */
    XV_OBL("vhm.get.validated", rd_have_state1 && rd_state1_clock < rd_key_clock && rd_val_clock < rd_state_last_clock
                                && BS_version(rd_state_last) == BS_version(rd_state1));
    if (rd_val_item < NSLOT) XV_OBL("vhm.get.validated", (uint32_t)rd_val_item < BS_item_count(rd_state1) && BS_delete_marker(rd_state_last) != (uint32_t)rd_val_item + 1);
    else XV_OBL("vhm.get.validated", rd_ptr_seen && rd_state1_clock < rd_ptr_clock && rd_ptr_clock < rd_key_clock
                                      && (extension_item*)rd_ptr_val == POOL_ITEM((unsigned)(rd_val_item - NSLOT)));   /* the item was reached through a pointer loaded in this iteration */
    XV_OBL("vhm.sync.acquire", XV_IS_ACQUIRE(rd_state1_order) && XV_IS_ACQUIRE(rd_val_order) && (rd_val_item < NSLOT || XV_IS_ACQUIRE(rd_ptr_order)));
    if (rd_val_item < NSLOT) XV_CANARY("get_int.true_array"); else XV_CANARY("get_int.true_chain");
  } else {
    /* absent: the last shared access is a state load that still shows this iteration's version; every slot that was occupied at the
       first state load was examined and the chain was followed to its end; the caller's accessor is untouched */
    XV_OBL("vhm.get.absent_validated", rd_have_state1 && rd_state_last_clock == xv_clock && rd_state1_clock < rd_state_last_clock
                                       && BS_version(rd_state_last) == BS_version(rd_state1));
    XV_OBL("vhm.get.absent_validated", (rd_slots_seen | (~0u << BS_item_count(rd_state1))) == ~0u);
    XV_OBL("vhm.get.absent_validated", rd_ptr_seen && rd_ptr_val == 0 && rd_state1_clock < rd_ptr_clock);
    XV_OBL("vhm.get.absent_validated", ACC_EQ(res, rd_res0));
    XV_OBL("vhm.sync.acquire", XV_IS_ACQUIRE(rd_state1_order) && XV_IS_ACQUIRE(rd_ptr_order));
    XV_CANARY("get_int.false");
  }
#endif
}

/* SOLO / SEQ: no interference.  From any quiescent bucket (a writer may hold the lock; a removal may be in flight: delete marker set)
 * the reader terminates within the shape bound (unwinding assertions = vhm.get.terminates) and answers like the abstract map. */
_Bool in_midop; uint32_t in_marker;
void h_get_seq(void) {
  build_state(XV_L); in_op = 5;
  struct pre s = snapshot();
  in_midop = nondet_bool(); in_marker = nondet_u32();
  if (in_midop) { XV_ASSUME(in_marker >= 1 && in_marker <= in_ic); g_B->state = BS_set_delete_marker(BS_locked(g_B->state), in_marker); }
  else if (nondet_bool()) g_B->state = BS_locked(g_B->state);
  accessor res = xv_acc_any(), res0 = res;
  _Bool r = vhm_try_get_value(&g_map, in_key, &res);
  if (!in_midop || s.k.pos != (int)in_marker - 1) {
    XV_OBL("vhm.get.seq_lookup", r == s.k.found);
  } else XV_OBL("vhm.get.seq_lookup", !r);           /* the slot being deleted is skipped */
  if (r) {
    XV_OBL("vhm.get.seq_lookup", ACC_NAMES(res, s.k.cell, s.k.val));
    if (s.k.pos < NSLOT) XV_CANARY("get_seq.true_array"); else XV_CANARY("get_seq.true_chain");
  } else {
    XV_OBL("vhm.get.seq_lookup", ACC_EQ(res, res0));
    XV_CANARY("get_seq.false");
#ifdef XV_KEYNODE
    if (in_collide && in_n > 0) XV_CANARY("get_seq.false_collision_in_chain");
#endif
  }
  XV_OBL("vhm.ops.frame", g_B->head == s.B0.head && look_eq(lookup(g_B, in_gk), s.g) && pool_ok(role0));    /* a reader writes nothing */
}

/* ------------------------------------------------------------------ the accessor a user gets (traits::acquire, operator-> / operator*, reset, reclaim) */
void h_acc(void) {
  build_state(XV_L);
  XV_ASSUME(in_ic >= 1);                                   /* slot 0 holds an item */
  vcell_t cell = g_B->value[0]; vval_t val = item_val(cell);
  int order = nondet_bool() ? mo_acquire : mo_relaxed;
  rd_reset(); rd_on = 1;
  accessor a = TR_acquire(g_B->value[0], order);
  rd_on = 0;
  XV_OBL("vhm.acc.names_item", ACC_NAMES(a, cell, val) && rd_val_item == 0 && rd_val_order == order && g_B->value[0] == cell);
#if defined(XV_NT)
  XV_OBL("vhm.acc.names_item", nk_acc_arrow(&a) == &NODE_VAL(cell) && nk_acc_deref(&a) == &NODE_VAL(cell) && nk_acc_key(&a) == NODE_KEY(cell));
#elif defined(XV_TN)
  XV_OBL("vhm.acc.names_item", tn_acc_arrow(&a) == &NODE_VAL(cell) && tn_acc_deref(&a) == &NODE_VAL(cell));
#elif defined(XV_MT)
  XV_OBL("vhm.acc.names_item", mt_acc_arrow(&a) == val);
#elif defined(XV_MN)
  XV_OBL("vhm.acc.names_item", mn_acc_arrow(&a) == val && mn_acc_deref(&a) == val && mn_acc_key(&a) == NODE_KEY(cell));
#endif
#ifdef XV_MT
  { accessor b = a; mt_acc_reclaim(&b);                    /* accessor::reclaim(): retires the Value object once, the accessor ends empty */
    XV_OBL("vhm.acc.names_item", b.guard == 0 && uretire_count == 1 && last_uretired == val && retire_count == 0 && !reclaim_of_null); }
#endif
  TR_reset(a);
#ifndef XV_MODE_T
  { accessor e = xv_acc_empty(); XV_OBL("vhm.acc.names_item", ACC_EQ(a, e)); }
#endif
  XV_OBL("vhm.acc.names_item", g_B->value[0] == cell && item_val(cell) == val && retire_count == 0);     /* looking at an item changes nothing */
  XV_CANARY("acc.done");
}

/* ------------------------------------------------------------------ lock_bucket under interference */
unsigned lk_cas_ok_count, lk_stores; _Bool lk_on; bstate_t lk_expected, lk_desired; int lk_order;
void h_lock_int(void) {
#ifdef XV_INT
  build_state(XV_L);
  hash_t h = XV_HASH(in_key);
  guarded_block blk = 0; bstate_t st = nondet_u32();
  lk_cas_ok_count = 0; lk_stores = 0; lk_on = 1; env_on = 1;
  bucket_t* b = vhm_lock_bucket_int(&g_map, h, &blk, &st);
  env_on = 0; lk_on = 0;
  XV_OBL("vhm.lock_bucket.acquired", b == g_B && blk == &g_blk);
  XV_OBL("vhm.lock_bucket.acquired", lk_cas_ok_count == 1 && lk_stores == 0 && st == lk_expected && !BS_is_locked(lk_expected) && lk_desired == BS_locked(lk_expected));
  XV_OBL("vhm.sync.acquire", XV_IS_ACQUIRE(lk_order));
  XV_CANARY("lock_int.acquired");
#endif
}

/* ------------------------------------------------------------------ do_grow: one old block (NB buckets) is rehashed into a block of 2*NB buckets */
static _Bool new_bucket_ok(const bucket_t* B) {
  uint32_t ic = BS_item_count(B->state);
  if (BS_is_locked(B->state) || BS_delete_marker(B->state) != 0 || BS_version(B->state) != 0 || ic > NSLOT) return 0;
  if (B->head != 0 && ic != NSLOT) return 0;
  const extension_item* e = B->head;
  for (int q = 0; q < XV_L + 1; ++q) if (e) { if (q >= XV_L || pool2_index(e) >= POOL) return 0; e = e->next; }
  return 1;
}
static int bucket_size(const bucket_t* B) {
  int n = (int)BS_item_count(B->state); const extension_item* e = B->head;
  for (int q = 0; q < XV_L + 1; ++q) if (e) { n++; e = e->next; }
  return n;
}
void h_do_grow(void) {
  build_state(XV_L);
  in_ebc2 = nondet_u32(); XV_ASSUME(in_ebc2 <= XV_NEB && in_ebc2 * XV_EIC >= in_n);     /* the new pool is not smaller than what the old chains hold */
  struct pre s = snapshot();
  /* every item of the old bucket hashes to it */
  for (int i = 0; i < NSLOT; ++i) if ((uint32_t)i < in_ic) XV_ASSUME((TR_rehash(hash, g_B->key[i]) & XV_MASK) == (hash_t)(g_B - g_bk));
  for (int p = 0; p < POOL; ++p) if (chain0[p]) XV_ASSUME((TR_rehash(hash, POOL_ITEM_C(p)->key) & XV_MASK) == (hash_t)(g_B - g_bk));
  g_map.resize_lock = 1;                                  /* grow() took it */
  alloc_block_may_fail = 1; alloc_block_calls = 0; blk_retired_count = 0;
  bstate_t st0 = g_B->state;
  gw_on = 1; gw_published = 0; gw_bad = 0; gw_new_stores = 0; gw_publications = 0;
  vhm_do_grow_real(&g_map);
  gw_on = 0;
  XV_OBL("vhm.grow.resize_lock", g_map.resize_lock == 0 && alloc_block_calls == 1 && alloc_block_arg == 2 * (XV_MASK + 1));
  if (xv_threw) {
    XV_OBL("vhm.grow.conserves", xv_threw == XV_EXC_std__bad_alloc && g_map.data_block == &g_blk && blk_retired_count == 0);
    XV_OBL("vhm.grow.publish_order", gw_publications == 0 && gw_new_stores == 0);
    check_unchanged(s);
    XV_CANARY("do_grow.bad_alloc");
    return;
  }
  XV_OBL("vhm.grow.conserves", g_map.data_block == &g_blk2 && blk_retired_count == 1 && blk_retired == &g_blk);
  /* the new block is published once, by a release store, after the last store into it.  (new_bucket.head = new_extension is a plain
     assignment to an atomic in the C++ text, i.e. a seq_cst store the lowering keeps as an unmonitored assignment: the final-state
     obligations below cover its effect, its position before the data_block store is visible in the lowered text) */
  XV_OBL("vhm.grow.publish_order", gw_publications == 1 && !gw_bad && XV_IS_RELEASE(gw_publish_order) && gw_new_stores >= (unsigned)s.size0 * 3);
  /* the old bucket stays locked for ever (late lockers spin until they reload data_block) and keeps its contents */
  XV_OBL("vhm.grow.conserves", g_B->state == BS_locked(st0) && g_B->head == s.B0.head && look_eq(lookup(g_B, in_gk), s.g));
  /* an arbitrary key: it is in the new block exactly where a lookup will search it, with the value it had, and nowhere else */
  { hash_t hg =
#ifdef XV_KEYNODE
      s.g.found ? XV_HASH(in_gk) : nondet_u64();
#else
      XV_HASH(in_gk);
#endif
    int total = 0;
    for (int t = 0; t < 2 * NB; ++t) {
      struct look g1 = lookup(&g_bk2[t], in_gk);
      if ((hash_t)t == (hg & g_blk2.mask)) XV_OBL("vhm.grow.conserves", look_eq(g1, s.g)); else XV_OBL("vhm.grow.conserves", !g1.found);
      XV_OBL("vhm.grow.conserves", new_bucket_ok(&g_bk2[t]));
      total += bucket_size(&g_bk2[t]);
    }
    XV_OBL("vhm.grow.conserves", total == s.size0);
  }
  /* new pool: an item is in a chain or in its free list, never both, never twice */
  for (int p = 0; p < POOL; ++p) if ((uint32_t)(p / XV_EIC) < in_ebc2) {
    int places = 0; const extension_item* e;
    for (int t = 0; t < 2 * NB; ++t) { e = g_bk2[t].head; for (int q = 0; q < XV_L + 1; ++q) if (e) { if (e == POOL2_ITEM_C(p)) places++; e = e->next; } }
    e = g_eb2[p / XV_EIC].head; for (int q = 0; q < XV_EIC + 1; ++q) if (e) { if (e == POOL2_ITEM_C(p)) places++; e = e->next; }
    XV_OBL("vhm.grow.conserves", places == 1);
  }
  if (in_n > 0) XV_CANARY("do_grow.with_chain"); else XV_CANARY("do_grow.array_only");
}

/* grow(bucket, state) while another thread may be resizing */
void h_grow_int(void) {
#ifdef XV_INT
  build_state(XV_L);
  bstate_t st = g_B->state;
  g_B->state = BS_locked(st);
  g_map.resize_lock = nondet_bool();
  do_grow_may_throw = 1; do_grow_calls = 0; gi_xchg_count = 0; gi_bucket_stores = 0; gi_rl_load_clock = 0;
  gi_on = 1; env_resize = 1; env_on = 1;        /* (env_on: once released, the bucket belongs to everybody) */
  vhm_grow_int(&g_map, g_B, st);
  env_on = 0; env_resize = 0; gi_on = 0;
  /* the bucket is released exactly once, with the state the caller passed, after the attempt to take the resize lock */
  XV_OBL("vhm.ops.unlock", gi_bucket_stores == 1 && gi_bucket_stored == st && gi_xchg_count == 1 && gi_xchg_clock < gi_bucket_store_clock);
  /* do_grow runs iff this thread took the resize lock; otherwise grow returns only after it has seen the lock free (acquire) */
  XV_OBL("vhm.grow.resize_lock", (do_grow_calls == 1) == (gi_xchg_old == 0) && do_grow_calls <= 1);
  if (do_grow_calls == 0) {
    XV_OBL("vhm.grow.resize_lock", gi_rl_load_clock > gi_bucket_store_clock && gi_rl_load_val == 0 && XV_IS_ACQUIRE(gi_rl_load_order) && !xv_threw);
    XV_CANARY("grow_int.waited");
  } else XV_CANARY("grow_int.resized");
#endif
}
