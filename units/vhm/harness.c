/* unit vhm - vyukov_hash_map (C10): harnesses.  Types, stubs, monitors and specification functions are in model.h;
 * every function body under contract comes from lowered.h (extracted from /repo on this run). */
#include "model.h"

/* inputs (in_*: what a native replay needs to rebuild the configuration through the public API) */
kkey_t in_key, in_gk; uint32_t in_ic, in_mask, in_ebc; unsigned in_n; unsigned in_c[XV_L];
int in_kpos, in_gpos; _Bool in_collide, in_acquire;

static void xv_retry_cut(void);
#define XV_GOTO_RETRY xv_retry_cut()   /* `goto retry` after grow(): cut (ends with assume(false)), see h_emplace */
#include "lowered.h"
#include "spec.h"

/* ------------------------------------------------------------------ state builder: an arbitrary quiescent map state around bucket g_B */
enum { R_NONE = 0, R_CHAIN, R_FREE, R_OTHER };
int role0[POOL];
static void havoc_cells(kcell_t* kc, vcell_t* vc, int node, _Bool occupied) {
#ifdef XV_NT
  if (occupied) {
    /* node: constant */
    struct node* nd = NODE_C(node);
    nd->data.first = nondet_key(); nd->data.second = nondet_val(); node_retired[node] = 0;
    *vc = nd; *kc = XV_HASH(nd->data.first);
  } else { *vc = node_at(nondet_uint()); *kc = nondet_kcell(); }
#else
  *kc = nondet_kcell(); *vc = nondet_val();
#endif
}
static void build_state(int maxchain) {
  XV_ASSUME(NSLOT == bucket_item_count);
  in_key = nondet_key(); in_gk = nondet_key(); in_value = nondet_val();
  in_mask = nondet_u32(); in_ebc = nondet_u32(); in_ic = nondet_u32(); in_n = nondet_uint();
  XV_ASSUME(in_mask == XV_MASK && in_ebc <= XV_NEB && in_ic <= NSLOT && in_n <= (unsigned)maxchain);
  XV_ASSUME(in_n == 0 || in_ic == NSLOT);
  g_map.data_block = &g_blk; g_map.resize_lock = 0;
  g_blk.mask = XV_MASK; g_blk.bucket_count = XV_MASK + 1; g_blk.extension_bucket_count = in_ebc; g_blk.extension_buckets = g_eb; g_blk.bkts = g_bk;
  g_eb_base = nondet_uptr(); XV_ASSUME(g_eb_base % sizeof(extension_bucket) == 0 && g_eb_base < ((uintptr_t)1 << 62));
  for (int i = 0; i < NN; ++i) { node_retired[i] = nondet_bool(); NODE_C(i)->data.first = nondet_key(); NODE_C(i)->data.second = nondet_val(); }
  spec_ignore_retired = 0; retire_count = 0; last_retired = 0; reclaim_of_null = 0; new_count = 0; factory_calls = 0; cb_count = 0; cb_cell = 0; eb_at_ok = 1; xv_threw = 0;
  /* the bucket under test */
  hash_t h = XV_HASH(in_key);
#if XV_MASK == 0
  g_B = &g_bk[0]; g_other = 0;
#else
  if (h & 1) { g_B = &g_bk[1]; g_other = &g_bk[0]; } else { g_B = &g_bk[0]; g_other = &g_bk[1]; }
#endif
  uint32_t ver = nondet_u32(); XV_ASSUME(ver < ((uint64_t)1 << (32 - version_shift)));
  g_B->state = (in_ic << item_count_shift) | (ver << version_shift);
  for (int i = 0; i < NSLOT; ++i) havoc_cells(&g_B->key[i], &g_B->value[i], i, (uint32_t)i < in_ic);
  /* extension pool: roles, chain of g_B, free lists */
  for (int p = 0; p < POOL; ++p) {
    extension_item* x = POOL_ITEM(p);
    role0[p] = (p / XV_EIC < (int)in_ebc) ? (nondet_bool() ? R_FREE : R_OTHER) : R_NONE;
    chain0[p] = 0;
    x->next = POOL_ITEM(nondet_uint());           /* R_OTHER / R_NONE: arbitrary contents */
    havoc_cells(&x->key, &x->value, 0, 0);
  }
  g_B->head = 0;
  for (int q = XV_L - 1; q >= 0; --q) if ((unsigned)q < in_n) {
    in_c[q] = nondet_uint(); XV_ASSUME(in_c[q] < POOL && role0[in_c[q]] != R_NONE && role0[in_c[q]] != R_CHAIN);
    role0[in_c[q]] = R_CHAIN; chain0[in_c[q]] = 1;
    extension_item* x = POOL_ITEM(in_c[q]);
    havoc_cells(&x->key, &x->value, NSLOT + q, 1);
    x->next = g_B->head; g_B->head = x;
  }
  for (int b = 0; b < XV_NEB; ++b) {
    g_eb[b].lock = 0; g_eb[b].head = 0;
    _Bool rev = nondet_bool();
    for (int j = 0; j < XV_EIC; ++j) { int jj = rev ? XV_EIC - 1 - j : j; int p = b * XV_EIC + jj;
      if (role0[p] == R_FREE) { POOL_ITEM_C(p)->next = g_eb[b].head; g_eb[b].head = POOL_ITEM_C(p); } }
  }
  /* the bystander bucket: anything */
  if (g_other) {
    g_other->state = nondet_u32(); for (int i = 0; i < NSLOT; ++i) havoc_cells(&g_other->key[i], &g_other->value[i], 0, 0);
    g_other->head = POOL_ITEM(nondet_uint()); g_other0 = *g_other;
  }
  XV_ASSUME(inv_B(g_B, maxchain));
  mon_prev_state = g_B->state; mon_version0 = BS_version(g_B->state);
  mon_bad_slot_store = mon_bad_state_step = mon_bad_item_store = mon_bad_order = mon_lock_dropped = 0;
  for (int p = 0; p < POOL; ++p) mon_next_store_v0[p] = 0;
  mon_state_stores = mon_unlocks = mon_slot_stores = mon_head_stores = 0;
}
static _Bool other_unchanged(void) {
  if (!g_other) return 1;
  if (g_other->state != g_other0.state || g_other->head != g_other0.head) return 0;
  for (int i = 0; i < NSLOT; ++i) if (g_other->key[i] != g_other0.key[i] || g_other->value[i] != g_other0.value[i]) return 0;
  return 1;
}
/* pool accounting: every existing pool item is in exactly one place, and it is the expected one */
static _Bool pool_ok(const int* role) {
  for (int b = 0; b < XV_NEB; ++b) if (b < (int)g_blk.extension_bucket_count && !free_list_ok(b)) return 0;
  for (int p = 0; p < POOL; ++p) {
    extension_item* x = POOL_ITEM(p);
    if (role[p] == R_NONE) continue;
    if (in_chain(g_B, x) != (role[p] == R_CHAIN)) return 0;
    if (in_free_list(x) != (role[p] == R_FREE)) return 0;
  }
  return 1;
}
static uint32_t version_delta(bstate_t now) { return (BS_version(now) - mon_version0) & (uint32_t)((((uint64_t)1) << (32 - version_shift)) - 1); }
#define GUARANTEE_OK (!mon_bad_slot_store && !mon_bad_state_step && !mon_bad_item_store && !mon_lock_dropped)

/* ------------------------------------------------------------------ do_extract / erase / extract */
struct pre { struct look k, g; bucket_t B0; int size0; };
static struct pre snapshot(void) {
  struct pre s; s.k = lookup(g_B, in_key); s.g = lookup(g_B, in_gk); s.B0 = *g_B; s.size0 = (int)in_ic + (int)in_n;
  in_kpos = s.k.pos; in_gpos = s.g.pos;
  in_collide = 0;
#ifdef XV_NT
  { hash_t h = XV_HASH(in_key);
    for (int i = 0; i < NSLOT; ++i) if ((uint32_t)i < in_ic && g_B->key[i] == h && i != s.k.pos) in_collide = 1;
    for (int p = 0; p < POOL; ++p) if (chain0[p] && POOL_ITEM(p)->key == h && !(s.k.found && s.k.cell == POOL_ITEM(p)->value)) in_collide = 1; }
#endif
  return s;
}
/* what a successful removal of in_key must leave behind */
static void check_removed(struct pre s, int expect_role_change) {
  int role[POOL]; for (int p = 0; p < POOL; ++p) role[p] = role0[p];
  struct look k1 = lookup(g_B, in_key), g1 = lookup(g_B, in_gk);
  XV_OBL("vhm.extract.iff_present", !k1.found);
  if (in_gk != in_key) XV_OBL("vhm.extract.iff_present", look_eq(g1, s.g));
  XV_OBL("vhm.extract.iff_present", inv_B(g_B, XV_L));
  XV_OBL("vhm.extract.iff_present", (int)BS_item_count(g_B->state) + chain_len(g_B, XV_L) == s.size0 - 1);
  /* the chain lost exactly one item iff there was a chain (the found item, or the first one which moved into the array); it went to its free list */
  if (in_n > 0) {
    int lost = (s.k.pos >= NSLOT) ? (int)in_c[s.k.pos - NSLOT] : (int)in_c[0];
    for (int p = 0; p < POOL; ++p) if (p == lost) { role[p] = R_FREE; XV_OBL("vhm.remove.version_bumped", !mon_next_store_v0[p]); }
  }
  XV_OBL("vhm.extract.pool", pool_ok(role) && eb_at_ok);
  XV_OBL("vhm.remove.version_bumped", version_delta(g_B->state) >= 1 && version_delta(g_B->state) <= 2);
  XV_OBL("vhm.remove.version_bumped", GUARANTEE_OK);
  XV_OBL("vhm.ops.unlock", !BS_is_locked(g_B->state) && mon_unlocks == 1);
  XV_OBL("vhm.sync.release", !mon_bad_order && XV_IS_RELEASE(mon_last_state_order));
  XV_OBL("vhm.ops.frame", other_unchanged());
}
static void check_unchanged(struct pre s) {
  XV_OBL("vhm.ops.frame", g_B->state == s.B0.state && g_B->head == s.B0.head && other_unchanged());
  for (int i = 0; i < NSLOT; ++i) XV_OBL("vhm.ops.frame", g_B->key[i] == s.B0.key[i] && g_B->value[i] == s.B0.value[i]);
  XV_OBL("vhm.ops.frame", look_eq(lookup(g_B, in_key), s.k) && look_eq(lookup(g_B, in_gk), s.g) && inv_B(g_B, XV_L));
  XV_OBL("vhm.ops.frame", pool_ok(role0) && mon_slot_stores == 0 && mon_head_stores == 0);
  XV_OBL("vhm.ops.unlock", !BS_is_locked(g_B->state) && !mon_lock_dropped);
  XV_OBL("vhm.remove.version_bumped", GUARANTEE_OK);
}

void h_do_extract(void) {
  build_state(XV_L);
  accessor res = xv_acc_any(), res0 = res;
  struct pre s = snapshot();
  gp_may_throw = 1;
  mon_on = 1; _Bool r = vhm_do_extract_real(&g_map, in_key, &res); mon_on = 0;
  if (xv_threw) {          /* only NONTRIVIAL: the guard_ptr constructed in compare_key may throw (no free hazard pointer) */
    check_unchanged(s);
#ifdef XV_NT
    XV_CANARY("extract.threw");
#endif
    return;
  }
  XV_OBL("vhm.extract.iff_present", r == s.k.found);
  if (r) {
#ifdef XV_NT
    XV_OBL("vhm.extract.iff_present", res.guard == s.k.cell && res.guard->data.second == s.k.val && res.guard->data.first == in_key);
#else
    XV_OBL("vhm.extract.iff_present", res.v == s.k.val);
#endif
    check_removed(s, 1);
    if (s.k.pos < NSLOT && in_n > 0) XV_CANARY("extract.array_with_chain");
    if (s.k.pos < NSLOT && in_n == 0 && s.k.pos != (int)in_ic - 1) XV_CANARY("extract.array_move_last");
    if (s.k.pos < NSLOT && in_n == 0 && s.k.pos == (int)in_ic - 1) XV_CANARY("extract.array_last");
    if (s.k.pos == NSLOT) XV_CANARY("extract.chain_first");
#if XV_L >= 2
    if (s.k.pos > NSLOT) XV_CANARY("extract.chain_later");
#endif
  } else {
    check_unchanged(s);
    if (in_ic == 0) XV_CANARY("extract.empty_bucket"); else XV_CANARY("extract.absent");
#ifdef XV_NT
    if (in_collide) XV_CANARY("extract.absent_collision");
#endif
  }
}

/* erase(key) / extract(key, acc): do_extract inlined (real text), reclaim through the real traits text */
static void check_retire(struct pre s, _Bool r) {
#ifdef XV_NT
  XV_OBL("vhm.erase.retires_only_removed", !reclaim_of_null);
  XV_OBL("vhm.erase.retires_only_removed", retire_count == (r ? 1u : 0u));
  if (r) XV_OBL("vhm.erase.retires_only_removed", last_retired == s.k.cell);
  /* no node that is still linked is retired (part of inv_B), the removed node exactly once */
  XV_OBL("vhm.erase.retires_only_removed", inv_B(g_B, XV_L));
  if (r) XV_OBL("vhm.erase.retires_only_removed", node_retired[node_index(s.k.cell)] == 1);
#else
  XV_OBL("vhm.erase.retires_only_removed", retire_count == 0 && !reclaim_of_null);
#endif
}
void h_erase(void) {
  build_state(XV_L);
  struct pre s = snapshot();
  mon_on = 1; _Bool r = vhm_erase(&g_map, in_key); mon_on = 0;
  XV_OBL("vhm.extract.iff_present", r == s.k.found);
  check_retire(s, r); spec_ignore_retired = 1;
  if (r) { check_removed(s, 1); XV_CANARY("erase.removed"); }
  else {
    check_unchanged(s); XV_CANARY("erase.absent");
#ifdef XV_NT
    if (in_collide) XV_CANARY("erase.absent_collision");
#endif
  }
}
void h_extract(void) {
  build_state(XV_L);
  accessor acc = xv_acc_any();
  struct pre s = snapshot();
  mon_on = 1; _Bool r = vhm_extract(&g_map, in_key, &acc); mon_on = 0;
  XV_OBL("vhm.extract.iff_present", r == s.k.found);
  check_retire(s, r); spec_ignore_retired = 1;
  if (r) {
#ifdef XV_NT
    /* extract keeps the accessor usable: it still names the removed node, which carries the removed value */
    XV_OBL("vhm.extract.iff_present", acc.guard == s.k.cell && acc.guard->data.second == s.k.val);
#else
    XV_OBL("vhm.extract.iff_present", acc.v == s.k.val);
#endif
    check_removed(s, 1); XV_CANARY("extract_api.removed");
  } else {
    check_unchanged(s); XV_CANARY("extract_api.absent");
#ifdef XV_NT
    if (in_collide) XV_CANARY("extract_api.absent_collision");
#endif
  }
}

/* ------------------------------------------------------------------ do_get_or_emplace<AcquireAccessor>(key, factory, callback)
 * = emplace (AcquireAccessor false, callback ignores the accessor) and get_or_emplace(_lazy) (true, callback moves the accessor out).
 * grow() is a contract stub: it releases the bucket (stores `state`) - proved for the real text by run grow - and may throw bad_alloc.
 * `goto retry` after grow() is cut: at the cut the operation has changed nothing, holds no lock and will not touch the old bucket again,
 * i.e. the state satisfies the precondition this harness starts from (with the new block grow published). */
unsigned grow_calls; bucket_t* grow_bucket; bstate_t grow_state; _Bool grow_may_throw; unsigned stores_at_grow; struct pre g_pre; _Bool cut_reached;
static void vhm_grow_stub(struct vhm* self, bucket_t* bucket_p, bstate_t state) {
  grow_calls++; grow_bucket = bucket_p; grow_state = state;
  A_STORE(bucket_p->state, state, mo_relaxed);            /* grow: "release the bucket lock" */
  stores_at_grow = mon_state_stores;
  if (grow_may_throw && nondet_bool()) xv_threw = XV_EXC_std__bad_alloc;
}
static void vhm_do_grow_stub(struct vhm* self) { }
static void check_unchanged(struct pre s);
static void xv_retry_cut(void) {
  XV_OBL("vhm.emplace.retry_state", grow_calls == 1 && grow_bucket == g_B && grow_state == g_pre.B0.state && !xv_threw);
  XV_OBL("vhm.emplace.retry_state", mon_state_stores == stores_at_grow);      /* the disabled unlocker does not write the bucket again */
  check_unchanged(g_pre);
  XV_OBL("vhm.emplace.retry_state", factory_calls == 0 && cb_count == 0 && new_count == 0);
  XV_CANARY("emplace.grow_retry");
  XV_ASSUME(0);
}
void h_emplace(void) {
  build_state(XV_L);
  in_acquire = nondet_bool();
  struct pre s = snapshot(); g_pre = s;
  factory_may_throw = 1; new_may_throw = 1; gp_may_throw = 1; grow_may_throw = 1; grow_calls = 0;
  mon_on = 1; _Bool r = vhm_do_get_or_emplace(&g_map, in_acquire, in_key); mon_on = 0;
  if (xv_threw) {
    /* factory / new node / guard / grow threw: nothing inserted, nothing lost, the extension item (if one was taken) is back in its free list */
    check_unchanged(s);
    XV_OBL("vhm.emplace.iff_absent", cb_count == 0);
    if (xv_threw == XV_EXC_factory) XV_CANARY("emplace.factory_threw");
    if (xv_threw == XV_EXC_std__bad_alloc && grow_calls) XV_CANARY("emplace.grow_threw");
#ifdef XV_NT
    if (xv_threw == XV_EXC_std__bad_alloc && !grow_calls) XV_CANARY("emplace.new_threw");
#endif
    if (factory_calls && in_n == 0 && in_ic == NSLOT) XV_CANARY("emplace.threw_with_extension_item");
    return;
  }
  XV_OBL("vhm.emplace.iff_absent", r == !s.k.found);
  struct look k1 = lookup(g_B, in_key), g1 = lookup(g_B, in_gk);
  XV_OBL("vhm.emplace.iff_absent", cb_count == 1 && factory_calls == (r ? 1u : 0u));
  XV_OBL("vhm.ops.unlock", !BS_is_locked(g_B->state) && mon_unlocks == 1 && !mon_lock_dropped);
  XV_OBL("vhm.remove.version_bumped", GUARANTEE_OK && version_delta(g_B->state) == 0);   /* an insertion needs no version bump, but must obey the guarantee */
  XV_OBL("vhm.sync.release", !mon_bad_order);
  XV_OBL("vhm.ops.frame", other_unchanged());
  if (!r) {
    /* found: get_or_emplace hands out the existing element and changes nothing */
    check_unchanged(s);
#ifdef XV_NT
    if (in_acquire) XV_OBL("vhm.emplace.iff_absent", cb_acc.guard == s.k.cell);
#else
    if (in_acquire) XV_OBL("vhm.emplace.iff_absent", cb_acc.v == s.k.val);
#endif
    if (s.k.pos < NSLOT) XV_CANARY("emplace.found_array"); else XV_CANARY("emplace.found_chain");
    return;
  }
  /* inserted: key -> the factory's value, every other key as before, Inv_B, exactly one free extension item consumed iff the array was full */
  XV_OBL("vhm.emplace.iff_absent", k1.found && k1.val == in_value);
  if (in_gk != in_key) XV_OBL("vhm.emplace.iff_absent", look_eq(g1, s.g));
  XV_OBL("vhm.emplace.iff_absent", inv_B(g_B, XV_L + 1));
  XV_OBL("vhm.emplace.iff_absent", (int)BS_item_count(g_B->state) + chain_len(g_B, XV_L + 1) == s.size0 + 1);
  XV_OBL("vhm.emplace.iff_absent", cb_cell != 0 && item_val(*cb_cell) == in_value);     /* the callback sees the cell of the new element */
#ifdef XV_NT
  if (in_acquire) XV_OBL("vhm.emplace.iff_absent", cb_acc.guard == k1.cell && new_count == 1);
#else
  if (in_acquire) XV_OBL("vhm.emplace.iff_absent", cb_acc.v == in_value);
#endif
  {
    int role[POOL]; int taken = 0;
    for (int p = 0; p < POOL; ++p) { role[p] = role0[p]; if (role0[p] == R_FREE && in_chain(g_B, POOL_ITEM_C(p))) { role[p] = R_CHAIN; taken++; } }
    XV_OBL("vhm.emplace.pool", pool_ok(role) && taken == (in_ic == NSLOT ? 1 : 0));
  }
  if (in_ic < NSLOT) XV_CANARY("emplace.array"); else if (in_n == 0) XV_CANARY("emplace.first_extension"); else XV_CANARY("emplace.extension");
}
