// F13: vyukov_hash_map::erase(key) / extract(key, acc) call traits::reclaim* even when do_extract found nothing.
//  (a) non-trivial key, absent, no hash collision: the accessor is empty -> guard_ptr::reclaim() on null -> crash
//  (b) non-trivial key, absent, but a PRESENT key has the same hash: compare_key left the accessor pointing to the present key's
//      node -> that node is retired while still linked -> use-after-free on a later lookup (run under ASan, or see the value change)
//  (c) the same null dereference for an absent key in every other storage mode that has something to reclaim: `modes` runs
//      <int, std::string>, <int, managed_ptr>, <std::string, managed_ptr> each in a child process and reports which ones crash
// build: g++ -std=c++17 -g -fno-access-control -I /repo native_f13.cpp -pthread [-fsanitize=address]
// exit 0: behaves as specified; 1: defect reproduced (b); crash (SIGSEGV): defect reproduced (a)
#include <xenium/vyukov_hash_map.hpp>
#include <xenium/reclamation/generic_epoch_based.hpp>
#include <cstdio>
#include <cstring>
#include <string>
struct const_hash { std::size_t operator()(const std::string&) const { return 7; } };
static int live = 0;
struct V { int x = 0; V() { ++live; } V(int x) : x(x) { ++live; } V(const V& o) : x(o.x) { ++live; } V(V&& o) noexcept : x(o.x) { ++live; } V& operator=(const V&) = default; ~V() { --live; x = -12345; } };
using R = xenium::reclamation::epoch_based<>;
#include <sys/wait.h>
#include <unistd.h>
struct mnode : R::enable_concurrent_ptr<mnode> { int v; explicit mnode(int v) : v(v) {} };
template <class M, class K, class Val> static int child_erase_absent(const char* what, K present, K absent, Val v) {
  fflush(stdout);
  pid_t pid = fork();
  if (pid == 0) { M m(8); m.emplace(present, v); bool r = m.erase(absent); _exit(r ? 3 : 0); }
  int st = 0; waitpid(pid, &st, 0);
  bool crashed = WIFSIGNALED(st);
  printf("%-40s erase(absent): %s\n", what, crashed ? "CRASH (signal)" : (WEXITSTATUS(st) == 0 ? "returned false" : "returned true"));
  return crashed || WEXITSTATUS(st) != 0;
}
int main(int argc, char** argv) {
  const char* mode = argc > 1 ? argv[1] : "collision";
  if (!strcmp(mode, "modes")) {
    int bad = 0;
    bad += child_erase_absent<xenium::vyukov_hash_map<int, int, xenium::policy::reclaimer<R>>>("<int, int> (trivial/trivial)", 1, 2, 5);
    bad += child_erase_absent<xenium::vyukov_hash_map<int, std::string, xenium::policy::reclaimer<R>>>("<int, std::string>", 1, 2, std::string("x"));
    bad += child_erase_absent<xenium::vyukov_hash_map<std::string, int, xenium::policy::reclaimer<R>>>("<std::string, int>", std::string("a"), std::string("b"), 5);
    bad += child_erase_absent<xenium::vyukov_hash_map<int, xenium::managed_ptr<mnode, R>, xenium::policy::reclaimer<R>>>("<int, managed_ptr>", 1, 2, new mnode(1));
    bad += child_erase_absent<xenium::vyukov_hash_map<std::string, xenium::managed_ptr<mnode, R>, xenium::policy::reclaimer<R>>>("<std::string, managed_ptr>", std::string("a"), std::string("b"), new mnode(1));
    printf("%d of 5 storage modes misbehave\n", bad);
    return bad ? 1 : 0;
  }
  if (!strcmp(mode, "absent")) {
    using M = xenium::vyukov_hash_map<std::string, std::string, xenium::policy::reclaimer<R>>;
    M m(8);
    m.emplace("foo", "FOO");
    printf("erase of an absent key (no collision) ...\n"); fflush(stdout);
    bool r = m.erase("nokey");                    // F13 (a): null dereference in guard_ptr::reclaim
    printf("erase returned %d\n", r);
    M::accessor a;
    printf("extract of an absent key ...\n"); fflush(stdout);
    r = m.extract("nokey2", a);
    printf("extract returned %d\n", r);
    return r ? 1 : 0;
  }
  using M = xenium::vyukov_hash_map<std::string, V, xenium::policy::reclaimer<R>, xenium::policy::hash<const_hash>>;
  int bad = 0;
  {
    M m(8);
    m.emplace("foo", V(41));
    int live_before = live;
    bool r = m.erase("bar");                       // absent, same hash as "foo"
    printf("erase(\"bar\") = %d (expected 0)\n", r);
    // give the reclaimer the opportunity to run the deleter of whatever was retired
    for (int i = 0; i < 4000; ++i) { M::accessor a; m.try_get_value("zzz", a); }
    printf("live V objects: %d before, %d after erase of an ABSENT key (\"foo\" is still in the map)\n", live_before, live);
    if (live != live_before) { printf("DEFECT: the node of the present key \"foo\" was retired and destroyed although \"foo\" is still linked\n"); bad = 1; }
    M::accessor acc;
    bool f = m.try_get_value("foo", acc);         // heap-use-after-free under ASan
    if (!bad) printf("try_get_value(foo) = %d value %d\n", f, f ? (*acc).x : -1);
  }
  return bad;
}
