// native replay for unit vhm: rebuilds the bucket configuration cbmc found (in_ic array items, in_n extension items, the key at position
// in_kpos or absent, colliding hashes or not) on the REAL vyukov_hash_map through its public API, runs the real operation and compares with
// a sequential reference.  exit 0: property holds; 1: violation reproduced; 2: configuration cannot be represented; crash/timeout = reproduced.
#include <xenium/vyukov_hash_map.hpp>
#include <xenium/reclamation/generic_epoch_based.hpp>
#include <cstdio>
#include <cstdlib>
#include <cstring>
#include <map>
#include <string>
#include <vector>
static std::map<std::string, long long> args;
static long long arg(const char* n, long long d = 0) { auto it = args.find(n); return it == args.end() ? d : it->second; }
static bool g_collide = false;
static int live = 0;
struct V {                                   // value type whose destruction is observable
  int x = 0;
  V() { ++live; } V(int x) : x(x) { ++live; } V(const V& o) : x(o.x) { ++live; } V(V&& o) noexcept : x(o.x) { ++live; }
  V& operator=(const V&) = default; ~V() { --live; x = -777; }
};
// every test key lands in bucket 7 of a 256-bucket map (only maps with >= 128 buckets own extension buckets);
// hashes are pairwise different unless in_collide
struct thash {
  std::size_t operator()(const std::uint64_t& k) const { return g_collide ? 7 : 7 + 256 * k; }
  std::size_t operator()(const std::string& k) const { return g_collide ? 7 : 7 + 256 * std::strtoull(k.c_str() + 1, nullptr, 10); }
};
using R = xenium::reclamation::epoch_based<>;
template <bool NT> struct cfg;
template <> struct cfg<false> {
  using K = std::uint64_t; using Val = std::uint64_t;
  using M = xenium::vyukov_hash_map<K, Val, xenium::policy::reclaimer<R>, xenium::policy::hash<thash>>;
  static K key(int j) { return (K)j + 1; } static Val val(int j) { return 1000 + j; } static long long num(const Val& v) { return (long long)v; }
};
template <> struct cfg<true> {
  using K = std::string; using Val = V;
  using M = xenium::vyukov_hash_map<K, Val, xenium::policy::reclaimer<R>, xenium::policy::hash<thash>>;
  static K key(int j) { return "k" + std::to_string(j + 1); } static Val val(int j) { return V(1000 + j); } static long long num(const Val& v) { return v.x; }
};
static void flush_reclaimer() {               // let the epoch based reclaimer run the deleters of everything retired so far
  xenium::vyukov_hash_map<int, int, xenium::policy::reclaimer<R>> other(8);
  for (int i = 0; i < 5000; ++i) { other.emplace(i & 7, i); other.erase(i & 7); }
}
template <bool NT> int run() {
  using C = cfg<NT>; using M = typename C::M;
  int ic = (int)arg("in_ic"), n = (int)arg("in_n"), kpos = (int)arg("in_kpos", -1), op = (int)arg("in_op", 2);
  g_collide = arg("in_collide") != 0;
  if (ic < 0 || ic > 3 || n < 0 || n > 8 || (n > 0 && ic != 3) || kpos >= ic + n && kpos >= 0 && !(kpos >= 3 && kpos - 3 < n)) { printf("inconsistent inputs\n"); return 2; }
  // insertion order: array slots fill 0,1,2; each further key is pushed at the HEAD of the extension list, so chain position q holds insertion 3 + (n-1-q)
  int total = ic + n;
  std::vector<int> at_pos(total);             // key index stored at bucket position p (0..2 array, 3+q chain)
  for (int p = 0; p < total; ++p) at_pos[p] = p < 3 ? p : 3 + (n - 1 - (p - 3));
  M m(256);
  std::map<int, long long> ref;
  for (int j = 0; j < total; ++j) { if (!m.emplace(C::key(j), C::val(j))) { printf("setup: emplace(%d) failed\n", j); return 2; } ref[j] = 1000 + j; }
  int target = (kpos >= 0 && kpos < total) ? at_pos[kpos] : total + 5;      // index of the key the operation uses (absent: a fresh index)
  bool present = ref.count(target) != 0;
  int live_before = live, bad = 0;
  printf("%s storage, %d array items, %d extension items, key %s (position %d), hashes %s, op %d\n", NT ? "NONTRIVIAL" : "TRIVIAL", ic, n,
         present ? "present" : "absent", kpos, g_collide ? "all equal" : "pairwise different", op); fflush(stdout);
  if (op == 1 || op == 2 || op == 3) {          // 1 do_extract (via extract), 2 erase(key), 3 extract(key, acc)
    bool r; long long got = -1;
    if (op == 2) r = m.erase(C::key(target));
    else { typename M::accessor acc; r = m.extract(C::key(target), acc); if (r) got = C::num(*acc); }
    printf("returned %d (expected %d)\n", r, present); fflush(stdout);
    if (r != present) { printf("VIOLATION: result\n"); bad = 1; }
    if (r && op != 2 && got != ref[target]) { printf("VIOLATION: extracted value %lld, stored %lld\n", got, ref[target]); bad = 1; }
    ref.erase(target);
    flush_reclaimer();
    if (NT) {
      int expect = live_before - (present ? 1 : 0);
      printf("live value objects: %d, expected %d\n", live, expect);
      if (live != expect) { printf("VIOLATION: %s\n", live < expect ? "a node that is still linked was retired and destroyed" : "the removed node was not reclaimed"); bad = 1; }
    }
  } else if (op == 4) {                         // emplace / get_or_emplace
    bool r;
    if (arg("in_acquire")) { auto p = m.get_or_emplace(C::key(target), C::val(77)); r = p.second;
      long long seen = C::num(*p.first), want = present ? ref[target] : 1077;
      if (seen != want) { printf("VIOLATION: accessor shows %lld, expected %lld\n", seen, want); bad = 1; } }
    else r = m.emplace(C::key(target), C::val(77));
    printf("returned %d (expected %d)\n", r, !present);
    if (r == present) { printf("VIOLATION: result\n"); bad = 1; }
    if (!present) ref[target] = 1077;
  } else if (op == 5) {                         // try_get_value
    typename M::accessor acc;
    bool r = m.try_get_value(C::key(target), acc);
    printf("returned %d (expected %d)\n", r, present);
    if (r != present || (r && C::num(*acc) != ref[target])) { printf("VIOLATION: lookup result\n"); bad = 1; }
  } else { printf("unknown op\n"); return 2; }
  // every other key still maps to its value (presence through emplace, which takes the lock and compares full keys; values through the reader
  // where the reader is usable: it does not terminate on colliding extension items, F14)
  for (int j = 0; j < total + 8; ++j) {
    bool should = ref.count(j) != 0;
    if (!(g_collide && NT)) {
      typename M::accessor acc; bool f = m.try_get_value(C::key(j), acc);
      if (f != should || (f && C::num(*acc) != ref[j])) { printf("VIOLATION: key %d afterwards: found %d value %lld, expected found %d\n", j, f, f ? C::num(*acc) : -1, should); bad = 1; }
    } else if (should) {
      if (m.emplace(C::key(j), C::val(5))) { printf("VIOLATION: key %d was lost\n", j); bad = 1; }
    }
  }
  printf(bad ? "violation reproduced\n" : "property holds on this configuration\n");
  return bad;
}
int main(int argc, char** argv) {
  for (int i = 1; i < argc; ++i) { char* eq = strchr(argv[i], '='); if (!eq) continue; args[std::string(argv[i], eq - argv[i])] = strtoll(eq + 1, 0, 0); }
  return arg("in_nt") ? run<true>() : run<false>();
}
