/* lowering differential, C side of unit scq: the lowered text of the static leaf functions of detail/nikolaev_scq.hpp
 * (calc_remap_shift with its two utils callees, diff, remap_index) and the extracted constants, compiled natively.
 * The constructors / enqueue / dequeue of lowered.h need the ring model of harness.c and are not taken. */
/* lowerdiff-functions: is_power_of_two find_last_bit_set calc_remap_shift diff remap_index */
#include <stdint.h>
#include <stddef.h>
#include <stdbool.h>
#define XV_XASSERT(c) ((void)0)
typedef uint64_t index_t; typedef int64_t indexdiff_t; typedef uint64_t value_t;     /* as in harness.c */

#include "lowered.h"

int ld_is_power_of_two(uint64_t v) { return is_power_of_two(v); }
unsigned ld_find_last_bit_set(uint64_t v) { return find_last_bit_set(v); }
size_t ld_calc_remap_shift(size_t capacity) { return scq_calc_remap_shift(capacity); }
int64_t ld_diff(uint64_t a, uint64_t b) { return scq_diff(a, b); }
uint64_t ld_remap_index(uint64_t idx, size_t remap_shift, size_t n) { return scq_remap_index(idx, remap_shift, n); }
uint64_t ld_const(int i) { return i == 0 ? (uint64_t)cacheline_size : i == 1 ? (uint64_t)indexes_per_cacheline : i == 2 ? (uint64_t)finalized : i == 3 ? (uint64_t)index_inc : ~(uint64_t)0; }
