/* unit scq - detail/nikolaev_scq.hpp (C05 nikolaev half, C04).  Only declarations, the representation invariant Inv_S
 * (as a builder and as a checker), the abstract contract (scq_contract.h) and harnesses; all function bodies are in lowered.h */
/* sync preconditions (memory orders are data): loads of ring entries acquire-or-stronger, the entry CAS of enqueue and the entry fetch_or / CAS of dequeue release-or-stronger */
static void mon_entry_access(int kind, const void* addr, int order, _Bool ok);
#define XV_ON_LOAD(addr, val, order) mon_entry_access(0, (const void*)(addr), (order), 1)
#define XV_ON_CAS(addr, e, d, ok, order) mon_entry_access(1, (const void*)(addr), (order), (ok))
#define XV_ON_RMW(addr, oldv, newv, order) mon_entry_access(2, (const void*)(addr), (order), 1)
#include "xv.h"
int xv_threw; uint64_t xv_clock, xv_rmw_old; _Bool xv_cas_ok;
typedef uint64_t index_t; typedef int64_t indexdiff_t; typedef uint64_t value_t;
#ifndef CAP
#define CAP 2
#endif
#define N (2 * CAP)                 /* slots of the ring */
#define MASK ((uint64_t)(2 * N - 1))  /* is_safe_and_value_mask */
#ifndef Nonempty
#define Nonempty 0                  /* the library instantiates enqueue/dequeue only with Nonempty = false */
#endif
#ifndef Finalizable
#define Finalizable 0
#endif
#ifndef PopRetries
#define PopRetries 1
#endif
#ifndef G
#define G 0                         /* max number of tail tickets burnt by enqueue attempts on a finalized ring; -DGAP_ANY: any number below 2^40 */
#endif
#define MAXPOS ((uint64_t)1 << 61)
struct scq { index_t _head; int64_t _threshold; index_t _tail; uint64_t _data[N]; uint64_t xv_alloc; };
#define XV_INIT__head(self, v)      ((self)->_head = (v))
#define XV_INIT__threshold(self, v) ((self)->_threshold = (v))
#define XV_INIT__tail(self, v)      ((self)->_tail = (v))
#define XV_INIT__data(self, cnt)    ((self)->xv_alloc = (cnt))    /* number of words allocated for _data */
const struct scq* mon_scq; _Bool scq_bad_order;
static void mon_entry_access(int kind, const void* addr, int order, _Bool ok) {
  if (!mon_scq) return;
  _Bool is_entry = 0;
  for (unsigned s = 0; s < N; s++) if (addr == (const void*)&mon_scq->_data[s]) is_entry = 1;
  if (!is_entry) return;
  if (kind == 0 && !XV_IS_ACQUIRE(order)) scq_bad_order = 1;
  if (kind != 0 && ok && !XV_IS_RELEASE(order)) scq_bad_order = 1;
}
#include "scq_contract.h"
#include "lowered.h"

/* ------------------------------------------------------------------ Inv_S
 * H = _head/2, T = _tail/2 (LSB of _tail = finalized).  T = H + cnt + gap; gap = 0 unless finalized.
 * The N consecutive positions H .. H+N-1 cover every slot exactly once (scq.remap.bijective):
 *   position p = H+d, d <  cnt : slot(p) = (cycle(p), any safe bit, vals[d])
 *   position p = H+d, d >= cnt : slot(p) = (a cycle older than cycle(p) or the initial all-ones word, any safe bit, bottom)
 * threshold = 3*CAP-1 when cnt > 0, in [-1, 3*CAP-1] otherwise. */
/* number of burnt tail tickets of a finalized ring: every failed enqueue adds one, so it is not a shape.  With -DGAP_ANY it is any value below 2^40; what a
   dequeue can do with them is bounded by the threshold (each drawn head ticket costs one unit, at most 3*CAP-1): KMAX head tickets are the most one call can visit */
#ifdef GAP_ANY
#define GAPMAX ((uint64_t)1 << 40)
#define KMAX (3 * CAP)
#else
#define GAPMAX ((uint64_t)G)
#define KMAX G
#endif
unsigned in_cap, in_op, in_finalizable; uint64_t in_H; unsigned in_cnt; uint64_t in_gap; _Bool in_fin; int64_t in_th; uint64_t in_val[CAP]; uint64_t in_oc[N]; _Bool in_safe[N]; uint64_t in_v;
static size_t RS(void) { return scq_calc_remap_shift(CAP); }
static void havoc_inputs(void) {
  in_cap = CAP; in_finalizable = Finalizable;
  in_H = nondet_u64(); XV_ASSUME(in_H < MAXPOS);
  in_cnt = nondet_uint(); XV_ASSUME(in_cnt <= CAP);
  in_fin = nondet_bool(); in_gap = nondet_u64(); XV_ASSUME(in_gap <= GAPMAX); if (!in_fin) XV_ASSUME(in_gap == 0);
  if (!Finalizable) XV_ASSUME(!in_fin);        /* rings used with enqueue<.,false> are never finalized (free rings, both rings of the bounded queue) */
  in_th = (int64_t)nondet_u64(); XV_ASSUME(in_cnt > 0 ? in_th == 3 * CAP - 1 : (in_th >= -1 && in_th <= 3 * CAP - 1));
  for (unsigned i = 0; i < CAP; i++) { in_val[i] = nondet_u64(); XV_ASSUME(in_val[i] < CAP); }
  for (unsigned d = 0; d < N; d++) { in_oc[d] = nondet_u64(); in_safe[d] = nondet_bool(); }
}
/* position (mod N) that remap_index sends to slot s: found by running the real remap_index on the N concrete positions;
 * every use below re-checks remap_index(position) == s (MODEL assertion), so nothing is assumed about remap_index here */
static unsigned pos_of_slot(unsigned s) {
  size_t rs = RS();
  for (unsigned j = 0; j < N; j++) if (scq_remap_index((index_t)j << 1, rs, N) == s) return j;
  return N;
}
static void build(struct scq* q) {
  size_t rs = RS();
  q->_head = in_H << 1; q->_tail = ((in_H + in_cnt + in_gap) << 1) | (in_fin ? 1 : 0); q->_threshold = in_th; q->xv_alloc = N;
  for (unsigned s = 0; s < N; s++) {           /* slot s belongs to the position H+d, d = (pos_of_slot(s) - H) mod N */
    unsigned d = (unsigned)((pos_of_slot(s) - in_H) & (N - 1));
    index_t pos2 = (in_H + d) << 1, cyc = pos2 | MASK;
    XV_MODEL_ASSERT("build.slot", scq_remap_index(pos2, rs, N) == s);
    if (d < in_cnt) q->_data[s] = (cyc & ~MASK) | (in_safe[s] ? N : 0) | in_val[d];
    else {
      uint64_t oc = in_oc[s];
      XV_ASSUME((oc & MASK) == MASK && (oc == ~(uint64_t)0 || oc < cyc));
      q->_data[s] = in_safe[s] ? oc : (oc ^ N);
    }
  }
}
static void abs_of_inputs(struct ring_abs* a) { a->cnt = in_cnt; a->fin = in_fin; for (unsigned i = 0; i < CAP; i++) a->vals[i] = in_val[i]; }
/* checker: the concrete ring satisfies Inv_S and represents a; returns H and the gap */
static _Bool represents(const struct scq* q, const struct ring_abs* a, uint64_t* Hout, uint64_t* gapout) {   /* a->fin is checked by the callers (scq.finalized.stable) */
  size_t rs = RS();
  if (q->_head & 1) return 0;
  uint64_t H = q->_head >> 1, T = q->_tail >> 1; _Bool fin = q->_tail & 1;
  *Hout = H;
  if (a->cnt > CAP) return 0;
  if (T < H + a->cnt) return 0;
  uint64_t gap = T - H - a->cnt; *gapout = gap;
  if (!fin && gap != 0) return 0;
  if (H >= MAXPOS + 64 || gap > GAPMAX + 64) return 0;
  for (unsigned s = 0; s < N; s++) {
    unsigned d = (unsigned)((pos_of_slot(s) - H) & (N - 1));
    index_t pos2 = (H + d) << 1, cyc = pos2 | MASK;
    XV_MODEL_ASSERT("represents.slot", scq_remap_index(pos2, rs, N) == s);
    uint64_t e = q->_data[s], ec = e | MASK;
    if (d < a->cnt) { if (ec != cyc) return 0; if ((e & (N - 1)) != a->vals[d]) return 0; }
    else { if ((e & (N - 1)) != N - 1) return 0; if (!(ec == ~(uint64_t)0 || ec < cyc)) return 0; }
  }
  if (a->cnt > 0 ? q->_threshold != 3 * CAP - 1 : !(q->_threshold >= -1 && q->_threshold <= 3 * CAP - 1)) return 0;
  return 1;
}

/* ------------------------------------------------------------------ remap_index / calc_remap_shift, all capacities 2^0..2^32 */
void h_remap(void) {
  unsigned c = nondet_uint(); XV_ASSUME(c <= 32);
  size_t cap = (size_t)1 << c, n = 2 * cap;
  size_t rs = scq_calc_remap_shift(cap);
  XV_OBL("scq.remap.shift", rs == (c >= 3 ? c - 2 : 0));
  uint64_t i = nondet_u64(), j = nondet_u64(); XV_ASSUME(i < n && j < n && i != j);
  index_t ri = scq_remap_index(i << 1, rs, n), rj = scq_remap_index(j << 1, rs, n);
  XV_OBL("scq.remap.bijective", ri < n && rj < n);
  XV_OBL("scq.remap.bijective", ri != rj);
  /* the slot depends only on the position modulo n, not on the cycle and not on the finalized bit */
  uint64_t p = nondet_u64(); XV_ASSUME(p < MAXPOS);
  XV_OBL("scq.remap.bijective", scq_remap_index(p << 1, rs, n) == scq_remap_index((p & (n - 1)) << 1, rs, n));
  XV_OBL("scq.remap.bijective", scq_remap_index((p << 1) | 1, rs, n) == scq_remap_index(p << 1, rs, n));
  if (c >= 3) XV_CANARY("remap.rotating"); else XV_CANARY("remap.identity");
  if (c == 32) XV_CANARY("remap.max");
}

/* ------------------------------------------------------------------ the four initial states */
static void check_init(struct scq* q, unsigned cnt, unsigned first) {
  struct ring_abs a; a.cnt = cnt; a.fin = 0; for (unsigned i = 0; i < CAP; i++) a.vals[i] = first + i;
  uint64_t H, gap;
  XV_OBL("scq.init.inv", q->xv_alloc == N);
  XV_OBL("scq.init.inv", represents(q, &a, &H, &gap));
  XV_OBL("scq.init.inv", H == first && gap == 0 && (q->_tail & 1) == 0);
}
static void havoc_ring(struct scq* q) { q->_head = nondet_u64(); q->_tail = nondet_u64(); q->_threshold = (int64_t)nondet_u64(); q->xv_alloc = nondet_u64();
  for (unsigned d = 0; d < N; d++) q->_data[d] = nondet_u64(); }
void h_init_empty(void) { struct scq q; havoc_ring(&q); scq_ctor_empty(&q, CAP, RS()); check_init(&q, 0, 0);
  XV_OBL("scq.init.inv", q._threshold == -1); XV_CANARY("init.empty"); }
void h_init_full(void) { struct scq q; havoc_ring(&q); scq_ctor_full(&q, CAP, RS()); check_init(&q, CAP, 0); XV_CANARY("init.full"); }
void h_init_first_used(void) { struct scq q; havoc_ring(&q); scq_ctor_first_used(&q, CAP, RS()); check_init(&q, 1, 0); XV_CANARY("init.first_used"); }
void h_init_first_empty(void) { struct scq q; havoc_ring(&q); scq_ctor_first_empty(&q, CAP, RS()); check_init(&q, CAP - 1, 1); XV_CANARY("init.first_empty"); }

/* ------------------------------------------------------------------ enqueue */
void h_enq(void) {
  struct scq q; struct ring_abs a, b; havoc_ring(&q); havoc_inputs(); in_op = 0;
  XV_ASSUME(in_cnt < CAP);                      /* requires: the index being enqueued is outside the ring */
  build(&q); abs_of_inputs(&a); b = a;
  in_v = nondet_u64(); XV_ASSUME(in_v < CAP);
  mon_scq = &q; scq_bad_order = 0;
  _Bool r = scq_enqueue(&q, in_v, CAP, RS());
  mon_scq = 0; XV_OBL("scq.sync.orders", !scq_bad_order);
  _Bool ra = abs_enqueue(&b, in_v, Finalizable);
  uint64_t H, gap;
  XV_OBL("scq.enqueue.appends", r == ra);
  XV_OBL("scq.enqueue.appends", represents(&q, &b, &H, &gap));
  XV_OBL("scq.enqueue.appends", H == in_H && q.xv_alloc == N);
  if (Finalizable && in_fin) XV_OBL("scq.enqueue.finalized_fails", !r);            /* enqueue<.,true> on a finalized ring always fails ... */
  XV_OBL("scq.enqueue.finalized_fails", (q._tail & 1) == in_fin);                 /* ... and enqueue never clears (or sets) the finalized bit */
  if (r) { XV_OBL("scq.enqueue.appends", gap == in_gap); XV_CANARY("enq.appended"); if (in_cnt == CAP - 1) XV_CANARY("enq.last_free"); }
  else {
    XV_OBL("scq.enqueue.appends", gap == in_gap + 1);
#if Finalizable
    XV_CANARY("enq.finalized");
#endif
  }
}

/* ------------------------------------------------------------------ dequeue (+ catchup) */
void h_deq(void) {
  struct scq q; struct ring_abs a, b; havoc_ring(&q); havoc_inputs(); in_op = 1;
  build(&q); abs_of_inputs(&a); b = a;
  uint64_t out0 = nondet_u64(), out = out0, outa = out0;
  mon_scq = &q; scq_bad_order = 0;
  _Bool r = scq_dequeue(&q, &out, CAP, RS());
  mon_scq = 0; XV_OBL("scq.sync.orders", !scq_bad_order);
  _Bool ra = abs_dequeue(&b, &outa);
  uint64_t H, gap; _Bool rep = represents(&q, &b, &H, &gap);
  XV_OBL("scq.dequeue.empty_iff", r == ra);
  XV_OBL("scq.catchup.keeps_finalized", (q._tail & 1) == in_fin);
  if (r) {
    XV_OBL("scq.dequeue.takes_first", out == outa);
    XV_OBL("scq.dequeue.takes_first", rep && H == in_H + 1 && gap == in_gap);
    XV_CANARY("deq.took"); if (in_cnt == 1) XV_CANARY("deq.took_last");
  } else {
    XV_OBL("scq.dequeue.empty_iff", out == out0);
    /* nothing is stored, head == tail again unless tickets of a finalized ring are still ahead and the threshold ran out */
    XV_OBL("scq.inv.preserved", rep);
    XV_OBL("scq.dequeue.empty_iff", H >= in_H && H <= in_H + in_gap + 1 && (in_th < 0 ? H == in_H : H > in_H));
    XV_OBL("scq.dequeue.empty_iff", gap == 0 || (in_fin && q._threshold == -1));
    /* every ticket drawn by the failed dequeue costs one unit of threshold ... */
    XV_OBL("scq.dequeue.empty_iff", q._threshold == in_th - (int64_t)(H - in_H));
    /* ... and its slot is closed for an enqueuer that still holds the same tail ticket: the entry is no longer (older, safe, bottom) */
    for (unsigned k = 0; k <= KMAX; k++) if (in_H + k < H) {
      index_t pos2 = (in_H + k) << 1; uint64_t e = q._data[scq_remap_index(pos2, RS(), N)];
      XV_OBL("scq.dequeue.blocks_ticket", !((int64_t)((e | MASK) - (pos2 | MASK)) < 0 && (e & N) != 0));
    }
    if (in_th < 0) XV_CANARY("deq.empty_threshold"); else XV_CANARY("deq.empty_catchup");
#if Finalizable
    if (in_gap > 0 && in_th >= 0) XV_CANARY("deq.empty_gap");
#endif
  }
}

/* ------------------------------------------------------------------ finalize / set_threshold */
void h_finalize(void) {
  struct scq q; struct ring_abs a; havoc_ring(&q); havoc_inputs(); build(&q); abs_of_inputs(&a);
  scq_finalize(&q); abs_finalize(&a);
  uint64_t H, gap;
  XV_OBL("scq.finalize.sets", represents(&q, &a, &H, &gap) && H == in_H && gap == in_gap && (q._tail & 1) == 1);
  if (!in_fin) XV_CANARY("finalize.fresh");
  int64_t v = 3 * CAP - 1; scq_set_threshold(&q, v);
  XV_OBL("scq.finalize.sets", represents(&q, &a, &H, &gap) && q._threshold == v && (q._tail & 1) == 1);
}

/* ------------------------------------------------------------------ catchup on its own: tail behind head */
void h_catchup(void) {
  struct scq q; havoc_ring(&q);
  uint64_t hp = nondet_u64(), tp = nondet_u64(); _Bool fin = nondet_bool();
  XV_ASSUME(hp < MAXPOS && tp <= hp); if (!Finalizable) XV_ASSUME(!fin);
  q._head = hp << 1; q._tail = (tp << 1) | fin;
  uint64_t d0 = q._data[0], th0 = q._threshold;
  scq_catchup(&q, q._tail, q._head);
  XV_OBL("scq.catchup.restores", (q._tail >> 1) == hp && q._head == hp << 1 && q._data[0] == d0 && q._threshold == th0);
  XV_OBL("scq.catchup.keeps_finalized", (q._tail & 1) == fin);
#if Finalizable
  if (fin) XV_CANARY("catchup.finalized");
#endif
  if (!fin) XV_CANARY("catchup.plain");
}

/* ------------------------------------------------------------------ enqueue when a dequeuer has overtaken the tail.
 * Mid-operation state of an EMPTY ring: a concurrent dequeue has taken head ticket T (= tail position) and has already passed
 * slot(T) - it either lifted the bottom entry to cycle(T), or (the slot still held a value of an older cycle at that moment, consumed
 * since) could only mark it unsafe - but has not run catchup yet: head = T+1, tail = T.  The enqueuer that now draws ticket T must
 * NOT publish in slot(T) (nobody will ever look there again); it has to move on to ticket T+1.
 * This is what the strict cycle comparison and the `unsafe => head <= tail` test of enqueue are for. */
_Bool in_lifted;
void h_enq_overtaken(void) {
  struct scq q; struct ring_abs b; havoc_ring(&q); havoc_inputs(); in_op = 2;
  XV_ASSUME(in_cnt == 0 && !in_fin && in_gap == 0);
  build(&q);
  in_lifted = nondet_bool();
  { unsigned s = (unsigned)scq_remap_index(in_H << 1, RS(), N); uint64_t cycT = (in_H << 1) | MASK;
    if (in_lifted) q._data[s] = in_safe[s] ? cycT : (cycT ^ N);          /* (cycle(T), any safe bit, bottom) */
    else q._data[s] = q._data[s] & ~(uint64_t)N; }                       /* (older cycle, unsafe, bottom) */
  q._head = (in_H + 1) << 1;                                             /* the dequeuer's fetch_add */
  in_v = nondet_u64(); XV_ASSUME(in_v < CAP);
  _Bool r = scq_enqueue(&q, in_v, CAP, RS());
  b.cnt = 1; b.fin = 0; b.vals[0] = (unsigned char)in_v; for (unsigned i = 1; i < CAP; i++) b.vals[i] = 0;
  uint64_t H, gap;
  XV_OBL("scq.enqueue.skips_overtaken", r);
  XV_OBL("scq.enqueue.skips_overtaken", represents(&q, &b, &H, &gap) && H == in_H + 1 && gap == 0);   /* the value sits at position T+1 = head */
  if (in_lifted) XV_CANARY("enq_overtaken.lifted"); else XV_CANARY("enq_overtaken.unsafe");
}

/* ------------------------------------------------------------------ dequeue that overtakes an entry of the previous cycle.
 * Mid-operation state: abstractly empty at head = tail = H, but slot(H) still holds (cycle(H-N), v0): the dequeuer that owns head ticket
 * H-N has not consumed it yet.  The dequeue with ticket H must leave the value alone, clear its safe bit (so that, once v0 is consumed,
 * an enqueuer holding tail ticket H cannot publish behind the head) and report empty. */
uint64_t in_stale_v;
void h_deq_stale(void) {
  struct scq q; havoc_ring(&q); havoc_inputs(); in_op = 3;
  XV_ASSUME(in_cnt == 0 && !in_fin && in_gap == 0 && in_th >= 0 && in_H >= N);
  build(&q);
  unsigned s = (unsigned)scq_remap_index(in_H << 1, RS(), N); uint64_t v0 = in_stale_v = nondet_u64(); XV_ASSUME(v0 < CAP);
  uint64_t old = ((((in_H - N) << 1) | MASK) & ~MASK) | (in_safe[s] ? N : 0) | v0;
  q._data[s] = old;
  uint64_t out0 = nondet_u64(), out = out0;
  _Bool r = scq_dequeue(&q, &out, CAP, RS());
  XV_OBL("scq.dequeue.empty_iff", !r && out == out0 && q._head == (in_H + 1) << 1 && q._tail == (in_H + 1) << 1);
  XV_OBL("scq.dequeue.blocks_ticket", q._data[s] == (old & ~(uint64_t)N));
  XV_CANARY("deq_stale.reached"); if (in_safe[s]) XV_CANARY("deq_stale.was_safe");
}
