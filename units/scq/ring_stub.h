/* Contract stub of nikolaev_scq for the units that compose rings (nbq, nq).  The contract itself is scq_contract.h and is
 * proved for the real nikolaev_scq text by unit scq; here it is only wrapped into the call shapes the lowered callers use,
 * and the preconditions of the ring operations become obligations of the CALLER (name: RING_REQ_OBL).
 * Before including: #define CAP <ring capacity>, #define RING_REQ_OBL "<unit>.scq.requires", and provide
 * size_t xv_expected_rs (the remap shift the rings must be used with). */
#ifndef RING_STUB_H
#define RING_STUB_H
#include "scq_contract.h"
struct ring { struct ring_abs a; signed char th_set; unsigned char n_enq, n_deq; unsigned short t_enq, t_deq; };   /* t_*: event time of the last enqueue / dequeue */
extern size_t xv_expected_rs; extern unsigned short xv_ev;                 /* xv_ev: event counter shared with the element model */
enum { XV_TAG_empty = 1, XV_TAG_full = 2, XV_TAG_first_used = 3, XV_TAG_first_empty = 4 };
static void ring_args(size_t cap, size_t rs) { XV_OBL(RING_REQ_OBL, cap == CAP && rs == xv_expected_rs); }
/* scq.init.inv */
static void ring_ctor(struct ring* r, size_t cap, size_t rs, int tag) {
  ring_args(cap, rs);
  r->a.fin = 0; r->th_set = 0; r->n_enq = 0; r->n_deq = 0; r->t_enq = 0; r->t_deq = 0;
  for (unsigned i = 0; i < CAP; i++) r->a.vals[i] = nondet_uchar();
  if (tag == XV_TAG_empty) r->a.cnt = 0;
  else if (tag == XV_TAG_full) { r->a.cnt = CAP; for (unsigned i = 0; i < CAP; i++) r->a.vals[i] = i; }
  else if (tag == XV_TAG_first_used) { r->a.cnt = 1; r->a.vals[0] = 0; }
  else { r->a.cnt = CAP - 1; for (unsigned i = 0; i + 1 < CAP; i++) r->a.vals[i] = i + 1; }
}
/* scq.enqueue.appends */
static _Bool ring_enqueue(struct ring* r, uint64_t v, size_t cap, size_t rs, _Bool finalizable) {
  ring_args(cap, rs);
  XV_OBL(RING_REQ_OBL, v < CAP);                       /* xenium's own assert(value < capacity) */
  XV_OBL(RING_REQ_OBL, r->a.cnt < CAP);                /* the index is outside the ring */
  XV_OBL(RING_REQ_OBL, finalizable || !r->a.fin);      /* enqueue<.,false> only on a ring that is never finalized */
  r->n_enq++; r->t_enq = ++xv_ev;
  return abs_enqueue(&r->a, v, finalizable);
}
/* scq.dequeue.takes_first / scq.dequeue.empty_iff */
static _Bool ring_dequeue(struct ring* r, uint64_t* out, size_t cap, size_t rs) {
  ring_args(cap, rs);
  r->n_deq++; r->t_deq = ++xv_ev;
  return abs_dequeue(&r->a, out);
}
/* scq.finalize.sets */
static void ring_finalize(struct ring* r) { abs_finalize(&r->a); }
static void ring_set_threshold(struct ring* r, int64_t v) { XV_OBL(RING_REQ_OBL, v == 3 * CAP - 1); r->th_set = (signed char)v; }
static void havoc_ring_abs(struct ring* r) {
  r->a.cnt = nondet_uchar(); XV_ASSUME(r->a.cnt <= CAP); r->a.fin = nondet_bool(); r->th_set = 0; r->n_enq = 0; r->n_deq = 0; r->t_enq = 0; r->t_deq = 0;
  for (unsigned i = 0; i < CAP; i++) { r->a.vals[i] = nondet_uchar(); XV_ASSUME(r->a.vals[i] < CAP); }
}
#endif
