// lowering differential, C++ side of unit scq: the real static members of xenium::detail::nikolaev_scq (private ones reached with
// -fno-access-control) against the natively compiled lowered text.  nikolaev_scq is not a template; the asserts are compiled out on both sides.
#define NDEBUG
#include <xenium/detail/nikolaev_scq.hpp>
#include "ld_common.hpp"
extern "C" {
int ld_is_power_of_two(std::uint64_t v); unsigned ld_find_last_bit_set(std::uint64_t v);
std::size_t ld_calc_remap_shift(std::size_t capacity); std::int64_t ld_diff(std::uint64_t a, std::uint64_t b);
std::uint64_t ld_remap_index(std::uint64_t idx, std::size_t remap_shift, std::size_t n); std::uint64_t ld_const(int i);
}
using u64 = std::uint64_t; using S = xenium::detail::nikolaev_scq;
static const char* U = "scq";

int main() {
  const auto bnd = ld::boundary(64);
  ld::rng g(70);
  {
    auto& r = ld::rep(U, "constants"); r.fixed = true;
    const u64 real[4] = {S::cacheline_size, S::indexes_per_cacheline, S::finalized, S::index_inc};
    static const char* nm[4] = {"cacheline_size", "indexes_per_cacheline", "finalized", "index_inc"};
    for (int i = 0; i < 4; ++i) r.check(real[i] == ld_const(i), "%s real=%" PRIu64 " lowered=%" PRIu64, nm[i], real[i], ld_const(i));
  }
  {
    auto &rp = ld::rep(U, "is_power_of_two"), &rf = ld::rep(U, "find_last_bit_set"), &rc = ld::rep(U, "calc_remap_shift");
    auto one = [&](u64 v) {
      { bool a = xenium::utils::is_power_of_two<std::size_t>(v); int b = ld_is_power_of_two(v); rp.check(a == (b != 0), "val=%#" PRIx64 " real=%d lowered=%d", v, (int)a, b); }
      { unsigned a = xenium::utils::find_last_bit_set<std::size_t>(v), b = ld_find_last_bit_set(v); rf.check(a == b, "val=%#" PRIx64 " real=%u lowered=%u", v, a, b); }
      { std::size_t a = S::calc_remap_shift(v), b = ld_calc_remap_shift(v); rc.check(a == b, "capacity=%#" PRIx64 " real=%zu lowered=%zu", v, a, b); } };
    for (u64 v : bnd) one(v);
    for (u64 i = 0; i < ld::N_RANDOM; ++i) one(g.val());
  }
  {
    auto& r = ld::rep(U, "diff");
    auto one = [&](u64 a, u64 b) { std::int64_t x = S::diff(a, b), y = ld_diff(a, b); r.check(x == y, "a=%#" PRIx64 " b=%#" PRIx64 " real=%" PRId64 " lowered=%" PRId64, a, b, x, y); };
    for (u64 a : bnd) for (u64 b : bnd) one(a, b);
    for (u64 i = 0; i < ld::N_RANDOM; ++i) { u64 a = g.val(); one(a, g.below(2) ? g.val() : a + g.below(9) - 4); }
  }
  {
    // remap_shift < 64 (a larger shift count is undefined in C and in C++); n arbitrary, mostly 2 * capacity with its calc_remap_shift as the callers pass it
    auto& r = ld::rep(U, "remap_index");
    auto one = [&](u64 idx, std::size_t sh, std::size_t n) { u64 a = S::remap_index(idx, sh, n), b = ld_remap_index(idx, sh, n);
      r.check(a == b, "idx=%#" PRIx64 " remap_shift=%zu n=%#zx real=%#" PRIx64 " lowered=%#" PRIx64, idx, sh, n, a, b); };
    for (unsigned c = 0; c <= 62; ++c) {                      // the callers' configurations: capacity 2^c, n = 2 * capacity
      std::size_t cap = std::size_t(1) << c, n = 2 * cap, sh = S::calc_remap_shift(cap);
      for (u64 v : bnd) { one(v, sh, n); one(v & (2 * n - 1), sh, n); }
      for (u64 i = 0; i < 1500; ++i) one(g.below(2) ? g.val() : (g.val() & (4 * n - 1)), sh, n);
    }
    for (u64 v : bnd) for (std::size_t sh = 0; sh < 64; ++sh) { one(v, sh, std::size_t(8) << sh); one(~0ull, sh, v); one(v, sh, v); }
    for (u64 i = 0; i < ld::N_RANDOM; ++i) one(g.val(), g.below(64), g.below(2) ? g.val() : (std::size_t(1) << g.below(64)));
  }
  return ld::result();
}
