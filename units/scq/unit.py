S = 'xenium/detail/nikolaev_scq.hpp'
U = 'xenium/utils.hpp'
# a label must be followed by a statement in C (the C++ text has a declaration after `retry:`)
LABEL = [(r'\bretry:', 'retry:;', 'label_stmt')]
CTOR = dict(file=S, ctor=True, members=['_data'], calls={'remap_index': 'scq_remap_index'},
            post_subst=[(r'new std::atomic<index_t>\[([^\]]*)\]', r'\1', 'new_array')])
def ctor(tag, cnt_store, loops):
    return dict(CTOR, id='ctor_' + tag, sig=r'inline nikolaev_scq::nikolaev_scq\(std::size_t capacity, std::size_t remap_shift, %s_tag\)' % tag,
                c_sig='static void scq_ctor_%s(struct scq* self, size_t capacity, size_t remap_shift)' % tag,
                must_fire={'ctor_init': 4, 'A_STORE': cnt_store, 'subst:new_array': 1, 'call:remap_index': cnt_store, 'member:_data': cnt_store})
UNIT = dict(
  title='nikolaev_scq: remap_index bijection, the four initial states, enqueue / dequeue / catchup on the cycle-tagged ring (C05, C04)',
  properties=['C05', 'C04'],
  drops='template parameters Nonempty / Finalizable / PopRetries become compile-time -D values per run (the library only instantiates Nonempty=false); '
        'std::unique_ptr<std::atomic<uint64_t>[]> _data becomes an array of 2*CAP words; std::atomic cells are plain words (SEQ); '
        'by-reference result of dequeue becomes a pointer; alignas dropped',
  assumptions=['head and tail positions stay below 2^61 (2^61 operations on one ring); the signed cycle comparison of the code is only meaningful far below 2^63',
               'finalized rings: the *_f1 runs restrict the number of burnt tail tickets to G=2 (classified bounded); the *_f1_anygap runs lift that to any number below 2^40 (shape-complete: the threshold bounds what one dequeue can visit) - capacity 1 in the quick tier, capacity 2 in the thorough tier (190 s)',
               'SEQ only: the concurrent behaviour of the ring (safe bit, threshold bound 3n-1 under contention) is the composition lemma of C05/C04'],
  consts=[dict(name='cacheline_size', file=S, regex=r'static constexpr std::size_t cacheline_size = ([^;]+);'),
          dict(name='indexes_per_cacheline', file=S, regex=r'static constexpr std::size_t indexes_per_cacheline = ([^;]+);'),
          dict(name='finalized', file=S, regex=r'static constexpr index_t finalized = ([^;]+);'),
          dict(name='index_inc', file=S, regex=r'static constexpr index_t index_inc = ([^;]+);')],
  sources=[
    dict(id='is_power_of_two', file=U, sig=r'constexpr bool is_power_of_two\(T val\)',
         c_sig='static _Bool is_power_of_two(uint64_t val)', must_fire={}),
    dict(id='find_last_bit_set', file=U, sig=r'constexpr unsigned find_last_bit_set\(T val\)',
         c_sig='static unsigned find_last_bit_set(uint64_t val)', must_fire={}),
    dict(id='calc_remap_shift', file=S, sig=r'static constexpr std::size_t calc_remap_shift\(std::size_t capacity\)',
         c_sig='static size_t scq_calc_remap_shift(size_t capacity)', subst=[(r'utils::', '', 'utils_ns')],
         must_fire={'subst:utils_ns': 2}),
    dict(id='diff', file=S, sig=r'static inline indexdiff_t diff\(index_t a, index_t b\)',
         c_sig='static indexdiff_t scq_diff(index_t a, index_t b)', must_fire={'cast': 1}),
    dict(id='remap_index', file=S, sig=r'static inline index_t remap_index\(index_t idx, std::size_t remap_shift, std::size_t n\)',
         c_sig='static index_t scq_remap_index(index_t idx, size_t remap_shift, size_t n)', must_fire={}),
    ctor('empty', 1, 1), ctor('full', 2, 2), ctor('first_used', 2, 1), ctor('first_empty', 3, 2),
    dict(id='finalize', file=S, sig=r'void finalize\(\)', c_sig='static void scq_finalize(struct scq* self)', members=['_tail'],
         must_fire={'A_FOR': 1}),
    dict(id='set_threshold', file=S, sig=r'void set_threshold\(std::int64_t v\)', c_sig='static void scq_set_threshold(struct scq* self, int64_t v)',
         members=['_threshold'], must_fire={'A_STORE': 1}),
    dict(id='catchup', file=S, sig=r'inline void nikolaev_scq::catchup\(std::uint64_t tail, std::uint64_t head\)',
         c_sig='static void scq_catchup(struct scq* self, uint64_t tail, uint64_t head)',
         members=['_tail', '_head'], calls={'diff': 'scq_diff'},
         must_fire={'A_CASW': 1, 'A_LOAD': 1, 'call:diff': 1}),
    dict(id='enqueue', file=S, sig=r'inline bool nikolaev_scq::enqueue\(std::uint64_t value, std::size_t capacity, std::size_t remap_shift\)',
         c_sig='static _Bool scq_enqueue(struct scq* self, uint64_t value, size_t capacity, size_t remap_shift)',
         members=['_tail', '_head', '_data', '_threshold'], calls={'diff': 'scq_diff', 'remap_index': 'scq_remap_index'},
         post_subst=LABEL,
         must_fire={'A_FADD': 1, 'A_LOAD': 3, 'A_CASW': 1, 'A_STORE': 1, 'call:diff': 2, 'call:remap_index': 1, 'subst:label_stmt': 1}),
    dict(id='dequeue', file=S, sig=r'inline bool nikolaev_scq::dequeue\(std::uint64_t& value, std::size_t capacity, std::size_t remap_shift\)',
         c_sig='static _Bool scq_dequeue(struct scq* self, uint64_t* value_p, size_t capacity, size_t remap_shift)',
         members=['_tail', '_head', '_data', '_threshold'], calls={'diff': 'scq_diff', 'remap_index': 'scq_remap_index'},
         self_calls={'catchup': 'scq_catchup'},
         subst=[(r'\bvalue\b', '(*value_p)', 'value_ref')], post_subst=LABEL,
         must_fire={'A_FADD': 1, 'A_LOAD': 4, 'A_CASW': 1, 'A_FOR': 1, 'A_FSUB': 2, 'call:diff': 3, 'call:remap_index': 1,
                    'self_call:catchup': 1, 'subst:value_ref': 2, 'subst:label_stmt': 1}),
  ],
  runs=[
    dict(id='remap', entry='h_remap', unwindset=['find_last_bit_set.0:66'], cls='unbounded',
         note='capacity = 2^c for symbolic c in 0..32, loop-free apart from find_last_bit_set (complete at 65 iterations)'),
  ] + [dict(id='init_%s_c%d' % (t, c), entry='h_init_' + t, defs={'CAP': c}, unwind=2 * c + 2, tiers=tiers, cls='shape-complete',
            note='constructor loops run over the 2*CAP slots')
       for t in ('empty', 'full', 'first_used', 'first_empty') for c, tiers in ((1, ['quick', 'thorough']), (2, ['quick', 'thorough']), (4, ['quick', 'thorough']), (8, ['thorough']))
  ] + [dict(id='%s_c%d_f%d' % (op, c, f), entry='h_' + op, defs={'CAP': c, 'Finalizable': f, 'G': 2 if f else 0, 'PopRetries': 1},
            unwind=2 * c + 2,          # harness loops over the CAP values / 2*CAP slots
            unwindset=['scq_enqueue.0:2', 'scq_enqueue.1:2', 'scq_catchup.0:2',
                       'scq_dequeue.0:%d' % (3 if f else 2), 'scq_dequeue.1:2', 'scq_dequeue.2:%d' % (4 if f else 2)],
            tiers=tiers, cls='shape-complete' if not f else 'bounded', timeout=3000,
            note='from ANY state of Inv_S (head position < 2^61, arbitrary older cycles and safe bits); the retry loops are complete within the unwinding (unwinding assertions): '
                 'CAS-retry and do-while 1 iteration, for(;;) 1 iteration' + (' + one per burnt ticket; finalized rings: at most G=2 burnt tail tickets' if f else ''))
       for op in ('enq', 'deq') for f in (0, 1) for c, tiers in ((1, ['quick', 'thorough']), (2, ['quick', 'thorough']), (4, ['thorough']), (8, ['thorough']))
  ] + [dict(id='%s_c%d_f1_anygap' % (op, c), entry='h_' + op, defs={'CAP': c, 'Finalizable': 1, 'GAP_ANY': 1, 'PopRetries': 1}, unwind=3 * c + 2,
            unwindset=['scq_enqueue.0:2', 'scq_enqueue.1:2', 'scq_catchup.0:2', 'scq_dequeue.0:%d' % (3 * c + 1), 'scq_dequeue.1:2', 'scq_dequeue.2:%d' % (3 * c + 1)],
            tiers=tiers, cls='shape-complete', timeout=3000,
            note='finalized ring with ANY number (< 2^40) of burnt tail tickets: the retry loops of dequeue are complete within 3*CAP iterations because every drawn ticket costs one unit of threshold (unwinding assertions)')
       for op in ('enq', 'deq') for c, tiers in ((1, ['quick', 'thorough']), (2, ['thorough']))
  ] + [dict(id='deq_c1_f1_anygap_r%d' % r, entry='h_deq', defs={'CAP': 1, 'Finalizable': 1, 'GAP_ANY': 1, 'PopRetries': r}, unwind=5,
            unwindset=['scq_enqueue.0:2', 'scq_enqueue.1:2', 'scq_catchup.0:2', 'scq_dequeue.0:%d' % (4 * (r + 1)), 'scq_dequeue.1:%d' % (r + 2), 'scq_dequeue.2:%d' % (4 * (r + 1))],
            tiers=['quick', 'thorough'], cls='shape-complete', timeout=3000, unwind_obligation='scq.dequeue.retries_bounded',
            note='template parameter PopRetries = %d (the library default is 1000; the other runs use 1): a dequeue re-reads an unpublished slot at most PopRetries times per ticket and then moves on - it never waits for the enqueuer that owns the ticket (unwinding assertions)' % r)
       for r in (0, 2)
  ] + [dict(id='enq_overtaken_c%d' % c, entry='h_enq_overtaken', defs={'CAP': c, 'Finalizable': 0, 'G': 0}, unwind=2 * c + 2,
            unwindset=['scq_enqueue.0:2', 'scq_enqueue.1:3'], tiers=tiers, cls='shape-complete',
            note='mid-operation state: empty ring, a dequeuer holds head ticket T = tail and has passed slot(T)')
       for c, tiers in ((1, ['quick', 'thorough']), (2, ['quick', 'thorough']), (4, ['thorough']))
  ] + [dict(id='deq_stale_c%d' % c, entry='h_deq_stale', defs={'CAP': c, 'Finalizable': 0, 'G': 0}, unwind=2 * c + 2,
            unwindset=['scq_dequeue.0:2', 'scq_dequeue.1:2', 'scq_dequeue.2:2', 'scq_catchup.0:2'], tiers=tiers, cls='shape-complete',
            note='mid-operation state: slot(head) still holds an unconsumed value of the previous cycle')
       for c, tiers in ((1, ['quick', 'thorough']), (2, ['quick', 'thorough']), (4, ['thorough']))
  ] + [
    dict(id='finalize', entry='h_finalize', defs={'CAP': 2, 'Finalizable': 1, 'G': 2}, unwind=6, cls='shape-complete'),
    dict(id='catchup_f0', entry='h_catchup', defs={'CAP': 2, 'Finalizable': 0}, unwind=6, cls='unbounded'),
    dict(id='catchup_f1', entry='h_catchup', defs={'CAP': 2, 'Finalizable': 1}, unwind=6, cls='unbounded'),
  ],
  obligations={
    'scq.remap.shift': dict(deciding=True, text='calc_remap_shift(2^c) = max(c-2,0) for c in 0..32, and remap_index\'s own assert on (shift, n) holds'),
    'scq.remap.bijective': dict(deciding=True, text='for every capacity 2^c, c in 0..32, with its calc_remap_shift: remap_index maps positions [0,n) one-to-one into [0,n), n = 2*capacity, and depends only on the position modulo n'),
    'scq.init.inv': dict(deciding=True, text='each of the four constructors allocates 2*capacity words and establishes Inv_S with the abstract content its tag names (empty: []; full: [0..cap); first_used: [0]; first_empty: [1..cap), head at 1)'),
    'scq.enqueue.appends': dict(deciding=True, text='enqueue(v) from any Inv_S state with fewer than cap entries: returns true, content = old ++ [v], head unchanged, Inv_S holds (threshold = 3cap-1); on a finalized ring (Finalizable) returns false and only burns a tail ticket'),
    'scq.dequeue.takes_first': dict(deciding=True, text='dequeue from a non-empty Inv_S state returns the first index, content = tail(old), head advanced by one, Inv_S holds'),
    'scq.dequeue.empty_iff': dict(deciding=True, text='dequeue returns false iff the ring is abstractly empty; then the result variable is untouched and catchup has made tail == head again (or the threshold ran out on a finalized ring)'),
    'scq.dequeue.blocks_ticket': dict(deciding=True, text='a dequeue that fails on head ticket h leaves slot(h) with cycle(h) (or unsafe), so that an enqueuer still holding tail ticket h cannot publish behind the head'),
    'scq.inv.preserved': dict(deciding=True, text='a failed dequeue leaves a state of Inv_S with empty content'),
    'scq.catchup.keeps_finalized': dict(deciding=True, text='dequeue / catchup never clear the finalized bit of _tail: the tail after catchup has the same finalized bit as before (nikolaev_queue relies on it: a node, once finalized, never accepts another push)'),
    'scq.enqueue.finalized_fails': dict(deciding=True, text='enqueue<.,true> on a finalized ring always returns false, and no enqueue changes the finalized bit'),
    'scq.finalize.sets': dict(deciding=True, text='finalize sets the finalized bit and nothing else; set_threshold(3cap-1) keeps Inv_S'),
    'scq.enqueue.skips_overtaken': dict(deciding=True, text='if a dequeuer has already drawn head ticket T = tail and passed slot(T) (lifted it to cycle(T), or marked it unsafe), enqueue does not publish in slot(T) but at ticket T+1, where head is'),
    'scq.dequeue.retries_bounded': dict(deciding=True, text='[SOLO] for PopRetries = 0 and 2: dequeue re-reads the slot of its head ticket at most PopRetries times while the owner of that ticket has not published, then closes the slot and moves on; with every drawn ticket costing one unit of threshold the call returns within the unwinding bound - it never waits for another thread'),
    'scq.sync.orders': dict(deciding=True, text='sync precondition: enqueue and dequeue load ring entries with acquire-or-stronger order; the entry CAS of enqueue, and the entry fetch_or and entry CAS of dequeue are release-or-stronger (an index handed over through a ring entry carries the element it names)'),
    'scq.catchup.restores': dict(deciding=True, text='catchup(tail, head) with tail behind head moves the tail position to the head position and writes nothing else'),
  },
  replays={k: dict(src='replay_scq.cpp') for k in ('scq.enqueue.appends', 'scq.dequeue.takes_first', 'scq.dequeue.empty_iff', 'scq.inv.preserved', 'scq.catchup.keeps_finalized', 'scq.enqueue.finalized_fails', 'scq.dequeue.blocks_ticket', 'scq.enqueue.skips_overtaken')},
  canaries=['remap.rotating', 'remap.identity', 'remap.max', 'init.empty', 'init.full', 'init.first_used', 'init.first_empty',
            'enq.appended', 'enq.last_free', 'enq.finalized', 'deq.took', 'deq.took_last', 'deq.empty_threshold', 'deq.empty_catchup', 'deq.empty_gap',
            'finalize.fresh', 'enq_overtaken.lifted', 'enq_overtaken.unsafe', 'deq_stale.reached', 'deq_stale.was_safe', 'catchup.finalized', 'catchup.plain'],
)
