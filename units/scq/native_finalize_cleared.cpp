// Native demonstration (real headers, public API only, two real threads, deterministic):
// nikolaev_scq::catchup() CASes _tail from the value it read to `head`, which drops the `finalized` bit (LSB of _tail).
// In nikolaev_queue a consumer that finds the finalized node empty therefore UN-finalizes it; a producer that had
// already reserved a storage slot in that node (it is inside T's move constructor) then enqueues into the node
// successfully although the node has been unlinked from the list: push() returns, the value is never popped.
//   g++ -std=c++17 -O1 -I /repo native_finalize_cleared.cpp -pthread && ./a.out     exit 1 = value lost (defect), 0 = fine
#include <xenium/nikolaev_queue.hpp>
#include <xenium/reclamation/generic_epoch_based.hpp>
#include <atomic>
#include <cstdio>
#include <thread>

static std::atomic<int> stage{0};            // 0: idle, 1: producer P2 is inside the move constructor, 2: released
static thread_local bool armed = false;
struct Item {
  int v = 0;
  Item() = default;
  explicit Item(int x) : v(x) {}
  Item(Item&& o) noexcept : v(o.v) {
    if (armed) {                             // the placement-new of node::try_push: slot reserved, not yet published
      armed = false;
      stage.store(1);
      while (stage.load() != 2) std::this_thread::yield();
    }
  }
  Item& operator=(Item&& o) noexcept { v = o.v; return *this; }
};
using queue_t = xenium::nikolaev_queue<Item, xenium::policy::reclaimer<xenium::reclamation::epoch_based<>>,
                                       xenium::policy::entries_per_node<2>>;
int main() {
  queue_t q;
  q.push(Item(1));                           // node N: one of two slots used
  std::thread p2([&] { armed = true; q.push(Item(42)); });     // reserves the second slot of N, then stalls
  while (stage.load() != 1) std::this_thread::yield();
  q.push(Item(2));                           // N has no free slot: N is finalized, 2 goes to a new node N2
  Item r; bool ok; int got[3] = {0, 0, 0};
  ok = q.try_pop(r); got[0] = ok ? r.v : -1; // 1 (from N)
  ok = q.try_pop(r); got[1] = ok ? r.v : -1; // N is empty: catchup() runs on its finalized ring; head moves to N2; 2
  stage.store(2);                            // P2 continues: enqueue<false,true> on N must see `finalized` and roll back
  p2.join();                                 // push(42) has returned
  ok = q.try_pop(r); got[2] = ok ? r.v : -1; // must be 42
  printf("popped %d %d %d\n", got[0], got[1], got[2]);
  if (got[0] != 1 || got[1] != 2) { printf("unexpected prefix\n"); return 2; }
  if (got[2] != 42) { printf("DEFECT: push(42) returned but the value is not in the queue (it sits in the unlinked, un-finalized node)\n"); return 1; }
  printf("ok: 42 was pushed to the current tail node\n");
  return 0;
}
