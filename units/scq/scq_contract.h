/* Abstract view of one nikolaev_scq ring and the sequential contract of its operations.
 * Unit scq PROVES this contract for the real text of nikolaev_scq (harness.c: build a concrete ring from an abstract
 * state, run the lowered function, check that the result represents abs_op(abstract state));
 * units nbq and nq USE it as the stub of the ring operations.
 *
 * A ring of capacity CAP is a FIFO of at most CAP indices in [0,CAP) plus the `finalized` flag (LSB of _tail). */
#ifndef SCQ_CONTRACT_H
#define SCQ_CONTRACT_H
struct ring_abs { unsigned char cnt; unsigned char vals[CAP]; _Bool fin; };   /* narrow fields keep the SAT encodings of the composing units small; indices are < CAP <= 8 */

/* enqueue<Nonempty=false, Finalizable=F>(v): requires v < CAP, cnt < CAP (callers only enqueue an index that is outside the
 * ring, and there are CAP indices), and !fin when !F.  Finalized ring (F only): returns false, content unchanged.
 * Otherwise: returns true, content = old ++ [v]. */
static inline _Bool abs_enqueue(struct ring_abs* a, uint64_t v, _Bool finalizable) {
  if (finalizable && a->fin) return 0;
  a->vals[a->cnt] = (unsigned char)v; a->cnt++;
  return 1;
}
/* dequeue<Nonempty=false>(out): empty -> false, content and *out unchanged; else true, *out = first, content = tail(old) */
static inline _Bool abs_dequeue(struct ring_abs* a, uint64_t* out) {
  if (a->cnt == 0) return 0;
  *out = a->vals[0];
  for (unsigned i = 0; i + 1 < CAP; i++) a->vals[i] = a->vals[i + 1];
  a->cnt--;
  return 1;
}
static inline void abs_finalize(struct ring_abs* a) { a->fin = 1; }
#endif
