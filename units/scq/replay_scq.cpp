// native replay for unit scq: builds the Inv_S state described by the in_* inputs on the REAL xenium::detail::nikolaev_scq
// (private members set directly, -fno-access-control), runs the real enqueue / dequeue and checks the same contract.
// exit 0 = contract holds, 1 = violation reproduced, 2 = cannot represent the inputs
#include <xenium/detail/nikolaev_scq.hpp>
#include <cstdio>
#include <cstdlib>
#include <cstring>
#include <map>
#include <string>
#include <vector>
using scq = xenium::detail::nikolaev_scq;
static std::map<std::string, unsigned long long> args;
static unsigned long long arg(const std::string& k, unsigned long long d = 0) { auto it = args.find(k); return it == args.end() ? d : it->second; }
static unsigned long long arr(const char* name, unsigned i) { return arg(std::string(name) + "[" + std::to_string(i) + "]"); }

struct abs_t { unsigned cnt; std::vector<uint64_t> vals; bool fin; };
static uint64_t CAP, N, MASK, RS;
static unsigned pos_of_slot(unsigned s) { for (unsigned j = 0; j < N; j++) if (scq::remap_index(uint64_t(j) << 1, RS, N) == s) return j; return N; }
static bool represents(scq& q, const abs_t& a, uint64_t& H, uint64_t& gap, const char** why) {
  uint64_t head = q._head.load(), tail = q._tail.load(); int64_t th = q._threshold.load();
  if (head & 1) { *why = "head has the finalized bit"; return false; }
  H = head >> 1; uint64_t T = tail >> 1; bool fin = tail & 1;
  if (T < H + a.cnt) { *why = "tail behind head + count"; return false; }
  gap = T - H - a.cnt;
  if (!fin && gap != 0) { *why = "tail ahead of head + count on a ring that is not finalized"; return false; }
  for (unsigned s = 0; s < N; s++) {
    unsigned d = unsigned((pos_of_slot(s) - H) & (N - 1));
    uint64_t pos2 = (H + d) << 1, cyc = pos2 | MASK, e = q._data[s].load(), ec = e | MASK;
    if (d < a.cnt) { if (ec != cyc) { *why = "live slot has the wrong cycle"; return false; } if ((e & (N - 1)) != a.vals[d]) { *why = "live slot holds the wrong index"; return false; } }
    else { if ((e & (N - 1)) != N - 1) { *why = "free slot does not hold bottom"; return false; } if (!(ec == ~uint64_t(0) || ec < cyc)) { *why = "free slot is not older than its position"; return false; } }
  }
  if (a.cnt > 0 ? th != int64_t(3 * CAP - 1) : !(th >= -1 && th <= int64_t(3 * CAP - 1))) { *why = "threshold out of range"; return false; }
  return true;
}
template <bool F> static bool do_enq(scq& q, uint64_t v) { return q.enqueue<false, F>(v, CAP, RS); }

int main(int argc, char** argv) {
  for (int i = 1; i < argc; ++i) {
    char* eq = strchr(argv[i], '='); if (!eq) continue;
    std::string k(argv[i], eq - argv[i]), v(eq + 1);
    size_t b = k.find('['); if (b != std::string::npos) { size_t e = k.find(']'); std::string idx = k.substr(b + 1, e - b - 1); while (!idx.empty() && !isdigit(idx.back())) idx.pop_back(); k = k.substr(0, b) + "[" + idx + "]"; }
    if (v == "TRUE") args[k] = 1; else if (v == "FALSE") args[k] = 0; else if (v[0] == '{') continue; else args[k] = strtoull(v.c_str(), 0, 0);
  }
  CAP = arg("in_cap", 2); N = 2 * CAP; MASK = 2 * N - 1; RS = scq::calc_remap_shift(CAP);
  unsigned op = arg("in_op", 1); bool finalizable = arg("in_finalizable", 1);
  uint64_t H = arg("in_H"); unsigned cnt = arg("in_cnt"), gap = arg("in_gap"); bool fin = arg("in_fin"); int64_t th = (int64_t)arg("in_th", 3 * CAP - 1);
  if (cnt > CAP || (!fin && gap) || (H >> 61)) { printf("inputs outside Inv_S\n"); return 2; }
  scq q(CAP, RS, scq::empty_tag{});
  abs_t a; a.cnt = cnt; a.fin = fin; for (unsigned i = 0; i < CAP; i++) a.vals.push_back(arr("in_val", i) % CAP);
  q._head.store(H << 1); q._tail.store(((H + cnt + gap) << 1) | (fin ? 1 : 0)); q._threshold.store(cnt > 0 ? int64_t(3 * CAP - 1) : th);
  for (unsigned s = 0; s < N; s++) {
    unsigned d = unsigned((pos_of_slot(s) - H) & (N - 1)); uint64_t pos2 = (H + d) << 1, cyc = pos2 | MASK; bool safe = arr("in_safe", s);
    if (d < cnt) q._data[s].store((cyc & ~MASK) | (safe ? N : 0) | a.vals[d]);
    else { uint64_t oc = arr("in_oc", s) | MASK; if (!(oc == ~uint64_t(0) || oc < cyc)) oc = ~uint64_t(0); q._data[s].store(safe ? oc : (oc ^ N)); }
  }
  const char* why = ""; uint64_t H1, gap1; int bad = 0;
  if (!represents(q, a, H1, gap1, &why)) { printf("built state does not satisfy Inv_S: %s\n", why); return 2; }
  printf("state: capacity %llu, head position %llu, %u entries, %u burnt tickets, finalized=%d, threshold %lld\n", (unsigned long long)CAP, (unsigned long long)H, cnt, gap, fin, (long long)q._threshold.load());
  if (op == 2) {          // enqueue after a dequeuer has overtaken the tail ticket (h_enq_overtaken)
    if (cnt || fin || gap) return 2;
    unsigned s = scq::remap_index(H << 1, RS, N); uint64_t cycT = (H << 1) | MASK; bool safe = arr("in_safe", s);
    if (arg("in_lifted")) q._data[s].store(safe ? cycT : (cycT ^ N)); else q._data[s].store(q._data[s].load() & ~N);
    q._head.store((H + 1) << 1);
    uint64_t v = arg("in_v") % CAP; bool r = do_enq<false>(q, v);
    abs_t b = a; b.cnt = 1; b.vals[0] = v;
    if (!r) { printf("enqueue failed\n"); bad = 1; }
    if (!represents(q, b, H1, gap1, &why) || H1 != H + 1) { printf("after enqueue(%llu) behind an overtaking dequeuer: %s (the value is not at the head position)\n", (unsigned long long)v, why); bad = 1; }
  } else if (op == 3) {   // dequeue overtaking an unconsumed value of the previous cycle (h_deq_stale)
    if (cnt || fin || gap || H < N) return 2;
    unsigned s = scq::remap_index(H << 1, RS, N); bool safe = arr("in_safe", s); uint64_t v0 = arg("in_stale_v") % CAP;
    uint64_t old = ((((H - N) << 1) | MASK) & ~MASK) | (safe ? N : 0) | v0; q._data[s].store(old); if (q._threshold.load() < 0) q._threshold.store(0);
    uint64_t out = 12345; bool r = q.dequeue<false, 1>(out, CAP, RS);
    if (r || out != 12345) { printf("dequeue delivered a value of the previous cycle\n"); bad = 1; }
    if (q._data[s].load() != (old & ~N)) { printf("the overtaken entry is %llx, expected %llx (same value, safe bit cleared)\n", (unsigned long long)q._data[s].load(), (unsigned long long)(old & ~N)); bad = 1; }
  } else if (op == 0) {
    uint64_t v = arg("in_v") % CAP; if (cnt >= CAP) return 2;
    bool r = finalizable ? do_enq<true>(q, v) : do_enq<false>(q, v);
    abs_t b = a; bool ra = !(finalizable && fin); if (ra) { b.vals[b.cnt] = v; b.cnt++; }
    if (r != ra) { printf("enqueue returned %d, contract says %d\n", r, ra); bad = 1; }
    if (!represents(q, b, H1, gap1, &why)) { printf("after enqueue(%llu): %s\n", (unsigned long long)v, why); bad = 1; }
  } else {
    uint64_t out = 12345; bool r = q.dequeue<false, 1>(out, CAP, RS);
    abs_t b = a; bool ra = cnt > 0; uint64_t outa = 12345; if (ra) { outa = b.vals[0]; b.vals.erase(b.vals.begin()); b.vals.push_back(0); b.cnt--; }
    if (r != ra) { printf("dequeue returned %d, contract says %d\n", r, ra); bad = 1; }
    if (out != outa) { printf("dequeue delivered %llu, contract says %llu\n", (unsigned long long)out, (unsigned long long)outa); bad = 1; }
    if (!represents(q, b, H1, gap1, &why)) { printf("after dequeue: %s\n", why); bad = 1; }
    if (!r) for (uint64_t p = H; p < H1; p++) { uint64_t pos2 = p << 1, e = q._data[scq::remap_index(pos2, RS, N)].load();
      if (int64_t((e | MASK) - (pos2 | MASK)) < 0 && (e & N)) { printf("slot of the failed head ticket %llu is still (older, safe): an enqueuer holding that ticket could publish behind the head\n", (unsigned long long)p); bad = 1; } }
  }
  if (bool(q._tail.load() & 1) != fin) { printf("finalized bit of _tail changed: was %d, now %d (tail=%llu)\n", fin, int(q._tail.load() & 1), (unsigned long long)q._tail.load()); bad = 1; }
  printf(bad ? "VIOLATION reproduced on the real nikolaev_scq\n" : "contract holds on the real nikolaev_scq\n");
  return bad;
}
