// native replay for qsbr.free.on_reentry / qsbr.advance.all_quiescent: builds the registry cbmc found (in_n entries with
// in_e_epoch[i] / in_e_state[i], this thread = entry in_own with local epoch in_local, global epoch in_global) on the real
// quiescent_state_based, puts one marker node into every retire list, leaves the outermost region (=> quiescent_state) and
// checks which list was freed.  exit 0 holds / 1 violated / 2 cannot represent
#include <xenium/reclamation/quiescent_state_based.hpp>
#include <cstdio>
#include <cstdlib>
#include <cstring>
#include <map>
#include <string>
#include <vector>
using namespace xenium::reclamation;
using Q = quiescent_state_based;
static int deleted[8];
struct Node : Q::enable_concurrent_ptr<Node> { int id; explicit Node(int i) : id(i) {} ~Node() override { deleted[id]++; } };
static std::map<std::string, unsigned long long> args;
static unsigned long long arr(const char* name, unsigned i) {
  for (const char* suf : {"l", "", "ul", "u"}) { std::string k = std::string(name) + "[" + std::to_string(i) + suf + "]"; if (args.count(k)) return args[k]; }
  return 0;
}
int main(int argc, char** argv) {
  for (int i = 1; i < argc; ++i) { char* eq = strchr(argv[i], '='); if (!eq) continue; args[std::string(argv[i], eq - argv[i])] = strtoull(eq + 1, 0, 0); }
  const unsigned NE = Q::number_epochs;
  unsigned n = args["in_n"], own = args["in_own"], local = args["in_local"], global = args["in_global"];
  if (n < 1 || n > 8 || own >= n || local >= NE || global >= NE) { printf("inputs outside the harness preconditions\n"); return 2; }
  using list_t = decltype(Q::global_thread_block_list);
  using state_t = list_t::entry_state;
  std::vector<Q::thread_control_block*> e;
  for (unsigned i = 0; i < n; ++i) Q::global_thread_block_list.acquire_entry();       // creates n distinct entries
  for (auto it = Q::global_thread_block_list.begin(); it != Q::global_thread_block_list.end(); ++it) e.push_back(&*it);
  if (e.size() != n) { printf("registry has %zu entries\n", e.size()); return 2; }
  bool blocked = false; unsigned old = (local + NE - 1) % NE;
  for (unsigned i = 0; i < n; ++i) {
    unsigned ep = i == own ? local : (unsigned)arr("in_e_epoch", i); unsigned st = i == own ? 2 : (unsigned)arr("in_e_state", i);
    e[i]->local_epoch.store(ep); e[i]->state.store(st == 2 ? state_t::active : st == 1 ? state_t::inactive : state_t::free);
    if (st == 2 && ep == old) blocked = true;
  }
  Q::global_epoch.store(global);
  auto& td = Q::local_thread_data();
  td.control_block = e[own]; td.region_entries = 1;
  for (unsigned i = 0; i < NE; ++i) td.add_retired_node((detail::deletable_object*)(new Node((int)i)), i);   // C cast: private base
  td.leave_region();                                                                      // -> quiescent_state()
  unsigned l1 = e[own]->local_epoch.load(), g1 = Q::global_epoch.load();
  int bad = 0; unsigned ndel = 0;
  for (unsigned i = 0; i < NE; ++i) ndel += deleted[i];
  unsigned exp_l = local, exp_g = global;
  if (global == local) { if (!blocked) { exp_l = exp_g = (local + 1) % NE; } } else exp_l = global;
  if (l1 != exp_l || g1 != exp_g) { printf("VIOLATED: local %u -> %u (expected %u), global %u -> %u (expected %u), blocked=%d\n", local, l1, exp_l, global, g1, exp_g, blocked); bad++; }
  if (l1 == local) { if (ndel) { printf("VIOLATED: %u list(s) freed although the local epoch did not change\n", ndel); bad++; } }
  else {
    if (l1 != (local + 1) % NE) { printf("VIOLATED: local epoch jumped from %u to %u\n", local, l1); bad++; }
    for (unsigned i = 0; i < NE; ++i) if (deleted[i] != (i == l1 ? 1 : 0)) { printf("VIOLATED: list %u deleted %d time(s), thread entered epoch %u\n", i, deleted[i], l1); bad++; }
  }
  printf("%d violation(s): local %u->%u global %u->%u blocked=%d freed=[%d %d %d]\n", bad, local, l1, global, g1, blocked, deleted[0], deleted[1], deleted[2]);
  fflush(stdout);
  _Exit(bad ? 1 : 0);
}
