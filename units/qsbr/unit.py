import re
from xvlib import lower as L

I = 'xenium/reclamation/impl/quiescent_state_based.hpp'
H = 'xenium/reclamation/quiescent_state_based.hpp'
G = 'xenium/reclamation/detail/guard_ptr.hpp'
QG = r'quiescent_state_based::guard_ptr<T, MarkedPtr>::'

# ---------------------------------------------------------------------------------------------------------------
# unit-local mechanical rule:  std::any_of(C.begin(), C.end(), F)  ->  a loop over C that evaluates the text of the
# lambda F for every element.  F is either an inline lambda or the name of a lambda defined earlier in the same
# body with `auto F = [captures](PARAM) { stmts; return EXPR; };`.  The lambda text is taken from the source; the
# rule only gives it a loop.  Container-specific iteration (begin/end/next) is named by the unit's `anyof` table
# and defined as macros in harness.c.
LAMBDA = re.compile(r'\[[^\]]*\]\s*\(([^)]*)\)\s*\{', re.S)

def _lambda_parts(text):
    """text starts with '[': returns (param_decl, body_without_braces, end_index)"""
    m = LAMBDA.match(text)
    if not m: raise L.ExtractError('any_of: cannot parse lambda: ' + text[:60])
    b0 = m.end() - 1; b1 = L.match_brace(text, b0)
    return m.group(1).strip(), text[b0 + 1:b1], b1 + 1

def anyof_rule(table):
    def rule(s, lw):
        # 1. named lambdas:  auto NAME = [..](..) {..};   -> removed, remembered
        named = {}
        while True:
            m = re.search(r'\bauto\s+(\w+)\s*=\s*(?=\[)', s)
            if not m: break
            param, body, e = _lambda_parts(s[m.end():])
            e += m.end()
            if not re.match(r'\s*;', s[e:]): raise L.ExtractError('any_of: lambda definition not terminated by ;')
            e = s.index(';', e) + 1
            named[m.group(1)] = (param, body); s = s[:m.start()] + s[e:]; lw.fire('lambda_def')
        # 2. every std::any_of(...)
        n = 0
        while True:
            m = re.search(r'\bstd::any_of\s*\(', s)
            if not m: break
            p0 = m.end() - 1; p1 = L.match_brace(s, p0, '(', ')')
            args = L._split_args(L.toks(s[p0:p1 + 1]), 0, len(L.toks(s[p0:p1 + 1])) - 1)
            if len(args) != 3: raise L.ExtractError('any_of: expected 3 arguments')
            mb = re.match(r'(.+)\.begin\(\)$', args[0]); me = re.match(r'(.+)\.end\(\)$', args[1])
            if not mb or not me or mb.group(1) != me.group(1): raise L.ExtractError('any_of: not a whole-container range')
            cont = mb.group(1)
            if cont not in table: raise L.ExtractError('any_of: no iteration scheme for container ' + cont)
            pre = table[cont]
            if args[2].startswith('['):
                param, body, _ = _lambda_parts(args[2])
            elif args[2] in named:
                param, body = named[args[2]]
            else:
                raise L.ExtractError('any_of: unknown predicate ' + args[2])
            mr = re.match(r'(.*?)\breturn\b([^;]*);\s*$', body, re.S)
            if not mr or re.search(r'\breturn\b', mr.group(1)): raise L.ExtractError('any_of: lambda must end in its single return')
            stmts, expr = mr.group(1), mr.group(2).strip()
            mp = re.match(r'(.*?)(&?)\s*(\w+)$', param, re.S)
            pname = mp.group(3)
            if mp.group(2): bind = '\n#define %s (*xv_it%d)\n' % (pname, n); unbind = '\n#undef %s\n' % pname
            else: bind = ' __auto_type %s = (*xv_it%d);\n' % (pname, n); unbind = ''
            var = 'xv_anyof%d' % n
            loop = ('_Bool %s = 0;\n { %s_iter xv_it%d; for (xv_it%d = %s_begin(%s); xv_it%d != %s_end(%s); xv_it%d = %s_next(xv_it%d)) {%s%s if (%s) { %s = 1; break; }%s } }\n'
                    % (var, pre, n, n, pre, cont, n, pre, cont, n, pre, n, bind, stmts, expr, var, unbind))
            # hoist in front of the enclosing statement; any_of must be the first thing that statement evaluates
            k = max(s.rfind(';', 0, m.start()), s.rfind('{', 0, m.start()), s.rfind('}', 0, m.start())) + 1
            lead = s[k:m.start()]
            if not re.match(r'\s*(if\s*\(|(?:const\s+)?bool\s+\w+\s*=|return)\s*$', lead): raise L.ExtractError('any_of: unsupported context: ' + lead)
            s = s[:k] + '\n' + loop + lead + var + s[p1 + 1:]
            n += 1; lw.fire('any_of')
        return s
    return rule

ANYOF = anyof_rule({'global_thread_block_list': 'TBL', 'retire_lists': 'RL'})

TD = dict(members=['region_entries', 'control_block', 'retire_lists'],
          methods={'acquire_entry': 'TBL_acquire_entry', 'release_entry': 'TBL_release_entry',
                   'abandon_retired_nodes': 'TBL_abandon_retired_nodes', 'adopt_abandoned_retired_nodes': 'TBL_adopt_abandoned_retired_nodes',
                   'is_active': 'E_is_active'},
          calls={'detail::delete_objects': 'XV_DELETE_OBJECTS'},
          types={'detail::orphan<number_epochs>*': 'struct node*'})
def td(**kw):
    d = dict(TD); d.update(kw); return d

GP = dict(methods={'reset': 'MP_reset', 'get': 'MP_get', 'enter_region': 'TD_enter_region', 'leave_region': 'TD_leave_region',
                   'add_retired_node': 'TD_add_retired_node', 'set_deleter': 'N_set_deleter'},
          self_calls={'reset': 'qsbr_g_reset'}, deref={'this->ptr': 'GDEREF'})
def gp(**kw):
    d = dict(GP); d.update(kw); return d
P_REF = (r'\bp\b', '(*p_ref)', 'p_ref')
RET_THIS = (r'return \*this;', 'return;', 'ret_this')

UNIT = dict(
  title='quiescent_state_based: guard_ptr operations / region counting (C01 protect side, C15) and epoch / retire-list / orphan machinery (C01 reclaim side, C02, C17)',
  properties=['C01', 'C02', 'C15', 'C17'],
  drops='templates (T, MarkedPtr): marked_ptr is an opaque word with get()/mark() projections and word==0 <=> (null,0) (contract of the marked_ptr unit); '
        'thread_local thread_data is one struct passed explicitly; std::array retire_lists is a C array; std::any_of + lambda is turned into a loop '
        'around the lambda text by the unit-local rule anyof_rule (unit.py); CRTP self() is this; by-reference parameters are pointers; '
        'operator= returns void; TSAN_MEMORY_ORDER takes its non-TSan branch; ALLOCATION_COUNTER ignored',
  assumptions=[
    'stub thread_block_list::{acquire_entry,release_entry,begin/end/iterator,abandon_retired_nodes,adopt_abandoned_retired_nodes}: contracts (entry handed out is active and exclusively owned, possibly a re-used one with arbitrary left-over local_epoch; iteration visits every entry of the list; abandoned chain is returned whole, at most once) assumed here, proved in the thread_block_list unit',
    'stub detail::delete_objects: deletes every node of the list exactly once by its own deleter and nulls the list head (deletable_object unit)',
    'stub detail::orphan constructor: stores target_epoch and takes over the NE list heads; orphan::delete_self deletes their nodes (orphan / deletable_object unit)',
    'stub deletable_object_impl::set_deleter: records the deleter for the node',
    'marked_ptr: get()/reset()/operator bool/== as proved in the marked_ptr unit (word model)',
    'the registry (set of entries) does not change during one scan of try_update_epoch: an entry registered concurrently validates its local epoch against the global epoch by CAS and is therefore never at the previous epoch (composition argument, not decided here)',
    'fewer than 2^32-16 nested regions/guards per thread (region_entries does not wrap)',
    'thread_data is not used after its destructor ran (the destructor leaves the stale list heads in retire_lists; the orphan owns the nodes)',
    'INT rely for quiescent_state: while this thread is registered active with local epoch l the global epoch is l or l+1 (mod number_epochs) and other threads change it only from l to l+1; this is the invariant that qsbr.advance.keeps_invariant shows to be preserved by every advance',
  ],
  consts=[dict(name='XV_NUMBER_EPOCHS', file=H, regex=r'static constexpr unsigned number_epochs = ([^;]+);')],
  sources=[
    # ---- thread_data ----
    dict(td(), id='add_retired_node2', file=I, sig=r'void add_retired_node\(detail::deletable_object\* p, size_t epoch\)',
         c_sig='static void qsbr_add_retired_node2(struct thread_data* self, struct node* p, size_t epoch)',
         must_fire={'member:retire_lists': 2}),
    dict(td(self_calls={'add_retired_node': 'qsbr_add_retired_node2'}), id='add_retired_node1', file=I,
         sig=r'void add_retired_node\(detail::deletable_object\* p\)',
         c_sig='static void qsbr_add_retired_node1(struct thread_data* self, struct node* p)',
         must_fire={'A_LOAD': 1, 'self_call:add_retired_node': 1}),
    dict(td(self_calls={'add_retired_node': 'qsbr_add_retired_node2'}), id='adopt_orphans', file=I, sig=r'void adopt_orphans\(\)',
         c_sig='static void qsbr_adopt_orphans(struct thread_data* self)',
         subst=[(r'detail::deletable_object\*', 'struct node*', 'node_type')],
         must_fire={'method:adopt_abandoned_retired_nodes': 1, 'self_call:add_retired_node': 1, 'cast': 1}),
    dict(td(self_calls={'adopt_orphans': 'TD_adopt_orphans'}), id='try_update_epoch', file=I,
         sig=r'bool try_update_epoch\(unsigned curr_epoch, unsigned new_epoch\)',
         c_sig='static _Bool qsbr_try_update_epoch(struct thread_data* self, unsigned curr_epoch, unsigned new_epoch)',
         py_pre=ANYOF, pre_subst=[(r'\bconstexpr auto\b', 'const auto', 'constexpr_auto')],
         must_fire={'any_of': 1, 'lambda_def': 1, 'A_LOAD': 2, 'A_CAS': 1, 'method:is_active': 1, 'self_call:adopt_orphans': 1, 'subst:constexpr_auto': 1}),
    dict(td(self_calls={'try_update_epoch': 'TD_try_update_epoch'}), id='quiescent_state', file=I, sig=r'void quiescent_state\(\)',
         c_sig='static void qsbr_quiescent_state(struct thread_data* self)',
         must_fire={'A_LOAD': 2, 'A_STORE': 1, 'call:detail::delete_objects': 1, 'self_call:try_update_epoch': 1}),
    dict(td(), id='ensure_has_control_block', file=I, sig=r'void ensure_has_control_block\(\)',
         c_sig='static void qsbr_ensure_has_control_block(struct thread_data* self)',
         cut_loops={0: 'EHCB'},
         must_fire={'A_LOAD': 1, 'A_STORE': 1, 'A_CASW': 1, 'method:acquire_entry': 1, 'cut_loop': 1}),
    dict(td(self_calls={'ensure_has_control_block': 'TD_ensure_has_control_block'}), id='enter_region', file=I, sig=r'void enter_region\(\)',
         c_sig='static void qsbr_enter_region(struct thread_data* self)',
         must_fire={'self_call:ensure_has_control_block': 1, 'member:region_entries': 1}),
    dict(td(self_calls={'quiescent_state': 'TD_quiescent_state'}), id='leave_region', file=I, sig=r'void leave_region\(\)',
         c_sig='static void qsbr_leave_region(struct thread_data* self)',
         must_fire={'self_call:quiescent_state': 1, 'member:region_entries': 1}),
    dict(td(), id='dtor', file=I, sig=r'~thread_data\(\)',
         c_sig='static void qsbr_td_dtor(struct thread_data* self)',
         py_pre=ANYOF, pre_subst=[(r'new detail::orphan<number_epochs>\(', 'ORPHAN_new(', 'new_orphan')],
         must_fire={'any_of': 1, 'A_LOAD': 1, 'method:abandon_retired_nodes': 1, 'method:release_entry': 1, 'subst:new_orphan': 1}),
    # ---- region_guard ----
    dict(gp(), id='rg_ctor', file=I, sig=r'inline quiescent_state_based::region_guard::region_guard\(\) noexcept',
         c_sig='static void qsbr_rg_ctor(void)', must_fire={'method:enter_region': 1}),
    dict(gp(), id='rg_dtor', file=I, sig=r'inline quiescent_state_based::region_guard::~region_guard\(\) noexcept',
         c_sig='static void qsbr_rg_dtor(void)', must_fire={'method:leave_region': 1}),
    # ---- guard_ptr ----
    dict(gp(), id='g_reset', file=I, sig=r'void ' + QG + r'reset\(\) noexcept',
         c_sig='static void qsbr_g_reset(struct guard* self)', must_fire={'method:leave_region': 1, 'method:reset': 1}),
    dict(gp(ctor=True), id='g_ctor', file=I, sig=QG + r'guard_ptr\(const MarkedPtr& p\) noexcept',
         c_sig='static void qsbr_g_ctor(struct guard* self, mptr p)', must_fire={'ctor_init': 1, 'method:enter_region': 1}),
    dict(gp(ctor=True), id='g_copy_ctor', file=I, sig=QG + r'guard_ptr\(const guard_ptr& p\) noexcept',
         c_sig='static void qsbr_g_copy_ctor(struct guard* self, struct guard* p_ref)', post_subst=[P_REF],
         must_fire={'ctor_init': 1}),
    dict(gp(ctor=True), id='g_move_ctor', file=I, sig=QG + r'guard_ptr\(guard_ptr&& p\) noexcept',
         c_sig='static void qsbr_g_move_ctor(struct guard* self, struct guard* p_ref)', post_subst=[P_REF],
         must_fire={'ctor_init': 1, 'method:reset': 1}),
    dict(gp(), id='g_copy_assign', file=I, sig=QG + r'operator=\(const guard_ptr& p\) noexcept',
         c_sig='static void qsbr_g_copy_assign(struct guard* self, struct guard* p_ref)', subst=[P_REF, RET_THIS],
         must_fire={'self_call:reset': 1, 'method:enter_region': 1, 'subst:ret_this': 2}),
    dict(gp(), id='g_move_assign', file=I, sig=QG + r'operator=\(guard_ptr&& p\) noexcept',
         c_sig='static void qsbr_g_move_assign(struct guard* self, struct guard* p_ref)', subst=[P_REF, RET_THIS],
         must_fire={'self_call:reset': 1, 'method:reset': 1, 'subst:ret_this': 2}),
    dict(gp(), id='g_acquire', file=I, sig=r'void ' + QG + r'acquire\(const concurrent_ptr<T>& p,\s*std::memory_order order\) noexcept',
         c_sig='static void qsbr_g_acquire(struct guard* self, mptr* p_ref, int order)', subst=[P_REF],
         must_fire={'A_LOAD': 2, 'self_call:reset': 1, 'method:enter_region': 1, 'method:leave_region': 1}),
    dict(gp(), id='g_acquire_if_equal', file=I,
         sig=r'bool ' + QG + r'acquire_if_equal\(const concurrent_ptr<T>& p,\s*const MarkedPtr& expected,\s*std::memory_order order\) noexcept',
         c_sig='static _Bool qsbr_g_acquire_if_equal(struct guard* self, mptr* p_ref, mptr expected, int order)', subst=[P_REF],
         must_fire={'A_LOAD': 2, 'self_call:reset': 1, 'method:enter_region': 1, 'method:leave_region': 1, 'method:reset': 1}),
    dict(gp(), id='g_reclaim', file=I, sig=r'void ' + QG + r'reclaim\(Deleter d\) noexcept',
         c_sig='static void qsbr_g_reclaim(struct guard* self, int d)',
         must_fire={'method:set_deleter': 1, 'method:add_retired_node': 1, 'method:get': 1, 'self_call:reset': 1}),
    dict(gp(), id='g_dtor', file=G, sig=r'~guard_ptr\(\)', c_sig='static void qsbr_g_dtor(struct guard* self)',
         pre_subst=[(r'self\(\)\.', '', 'crtp_self')], must_fire={'self_call:reset': 1, 'subst:crtp_self': 1}),
    dict(gp(self_calls={'do_swap': 'G_do_swap'}), id='g_swap', file=G, sig=r'void swap\(Derived& g\) noexcept',
         c_sig='static void qsbr_g_swap(struct guard* self, struct guard* g_ref)', members=['ptr'],
         pre_subst=[(r'self\(\)\.', '', 'crtp_self'), (r'std::swap\(', 'XV_SWAP(', 'std_swap')],
         subst=[(r'\bg\b', '(*g_ref)', 'g_ref')],
         must_fire={'subst:crtp_self': 1, 'subst:std_swap': 1, 'self_call:do_swap': 1}),
  ],
  runs=[
    dict(id='epochs', entry='h_epochs', cls='unbounded'),
    dict(id='enter', entry='h_enter', cls='unbounded'),
    dict(id='leave', entry='h_leave', cls='unbounded'),
    dict(id='region_guard', entry='h_region_guard', cls='unbounded'),
    dict(id='g_ctor', entry='h_g_ctor', cls='unbounded'),
    dict(id='g_copy_ctor', entry='h_g_copy_ctor', cls='unbounded'),
    dict(id='g_move_ctor', entry='h_g_move_ctor', cls='unbounded'),
    dict(id='g_copy_assign', entry='h_g_copy_assign', cls='unbounded'),
    dict(id='g_move_assign', entry='h_g_move_assign', cls='unbounded'),
    dict(id='g_swap', entry='h_g_swap', cls='unbounded'),
    dict(id='g_reset', entry='h_g_reset', cls='unbounded'),
    dict(id='g_reclaim', entry='h_g_reclaim', cls='shape-complete', note='retire lists: any distribution of NP=4 nodes'),
    dict(id='g_reclaim6', entry='h_g_reclaim', cls='shape-complete', tiers=['thorough'], defs={'NP': 6}),
    dict(id='g_reclaim_composed', entry='h_g_reclaim_composed', cls='shape-complete', defs={'REAL_QS': 1}, unwindset=['qsbr_try_update_epoch.0:4'],
         note='reclaim() on top of the real leave_region / quiescent_state / try_update_epoch'),
    dict(id='g_acquire', entry='h_g_acquire', cls='unbounded'),
    dict(id='g_acquire_int', entry='h_g_acquire', mode='INT', cls='unbounded'),
    dict(id='g_aie', entry='h_g_acquire_if_equal', cls='unbounded'),
    dict(id='g_aie_int', entry='h_g_acquire_if_equal', mode='INT', cls='unbounded'),
    dict(id='retire', entry='h_retire', cls='shape-complete', defs={'NP': 4}, note='NP=4 nodes in any distribution over the lists'),
    dict(id='adopt', entry='h_adopt', cls='shape-complete', unwindset=['qsbr_adopt_orphans.0:%d' % (3 + 1)], defs={'L': 3, 'NP': 4}, tiers=['quick'],
         note='abandoned chain of up to L=3 orphans, NP=4 nodes in total'),
    dict(id='adopt6', entry='h_adopt', cls='shape-complete', unwindset=['qsbr_adopt_orphans.0:4'], defs={'L': 3, 'NP': 6}, tiers=['thorough'],
         note='abandoned chain of up to L=3 orphans, NP=6 nodes in total'),
    dict(id='try_update', entry='h_try_update', cls='shape-complete', unwindset=['qsbr_try_update_epoch.0:4'], note='registry of up to E=3 entries'),
    dict(id='try_update_int', entry='h_try_update_int', mode='INT', cls='shape-complete', unwindset=['qsbr_try_update_epoch.0:4']),
    dict(id='quiescent', entry='h_quiescent', cls='shape-complete', unwindset=['qsbr_try_update_epoch.0:4']),
    dict(id='quiescent_int', entry='h_quiescent_int', mode='INT', cls='shape-complete', unwindset=['qsbr_try_update_epoch.0:4']),
    dict(id='try_update_e4', entry='h_try_update', cls='shape-complete', tiers=['thorough'], defs={'E': 4}, unwindset=['qsbr_try_update_epoch.0:5'], note='registry of up to 4 entries'),
    dict(id='quiescent_e4', entry='h_quiescent', cls='shape-complete', tiers=['thorough'], defs={'E': 4}, unwindset=['qsbr_try_update_epoch.0:5']),
    dict(id='quiescent_int_e4', entry='h_quiescent_int', mode='INT', cls='shape-complete', tiers=['thorough'], defs={'E': 4}, unwindset=['qsbr_try_update_epoch.0:5']),
    dict(id='retire6', entry='h_retire', cls='shape-complete', tiers=['thorough'], defs={'NP': 6}),
    dict(id='ensure', entry='h_ensure', cls='shape-complete', defs={'REAL_EHCB': 1}, note='validate loop cut by invariant EHCB; registry of up to E=3 entries'),
    dict(id='ensure_int', entry='h_ensure', mode='INT', cls='shape-complete', defs={'REAL_EHCB': 1}),
    dict(id='dtor', entry='h_dtor', cls='shape-complete'),
  ],
  loop_obligation={'EHCB': 'qsbr.adopt.reinit'},
  obligations={
    'qsbr.guard.region_balance': dict(deciding=True, text='every guard_ptr/region_guard operation changes region_entries by (non-null guards after) - (non-null guards before), on every path; inside a region the thread is registered'),
    'qsbr.guard.algebra': dict(deciding=True, text='ctor/copy/move/assign/swap/reset/dtor/reclaim leave the guards holding exactly the words a shared-ownership pointer would hold (copy: both equal; move: source empty; self-assignment and double reset: no change), with enter_region/leave_region called exactly once per null->non-null / non-null->null transition'),
    'qsbr.leave.balanced': dict(deciding=True, text='leave_region is only called while region_entries >= 1 (no underflow)'),
    'qsbr.leave.quiescent_only_at_zero': dict(deciding=True, text='leave_region decrements by one and declares a quiescent state iff the counter reaches 0; no guard operation declares one while region_entries > 0'),
    'qsbr.enter.registers_then_counts': dict(deciding=True, text='enter_region makes sure the thread has a control block, then increments region_entries by one; it never declares a quiescent state'),
    'qsbr.acquire.snapshot': dict(deciding=True, text="[SEQ+INT] after acquire the guard holds the value returned by the last load of the source (loaded with the caller's order); without interference that is the source value and the source is unchanged"),
    'qsbr.acquire.enter_before_load': dict(deciding=True, text='[SEQ+INT] when acquire/acquire_if_equal return a non-null guard, the thread was inside a region (region_entries >= 1) when the kept load was performed and no quiescent state was declared since'),
    'qsbr.acquire_if_equal.iff': dict(deciding=True, text='[SEQ+INT] acquire_if_equal returns true iff the last snapshot of the source equals expected; then the guard equals expected, otherwise it is empty'),
    'qsbr.reclaim.retires_once': dict(deciding=True, text='reclaim(d) records deleter d on the guarded object and pushes exactly that object once onto the retire list of the current local epoch while the thread is still inside the region, then resets the guard'),
    'qsbr.retire.current_epoch': dict(deciding=True, text='add_retired_node(p) prepends p to retire_lists[local_epoch] and changes no epoch'),
    'qsbr.conserve': dict(deciding=True, text='no function loses or duplicates a retired node: every node is in exactly the list the contract names (checked for an arbitrary node / list index), nothing is deleted except through delete_objects of the entered epoch'),
    'qsbr.free.on_reentry': dict(deciding=True, text='quiescent_state calls delete_objects at most once, exactly when the local epoch changes, on retire_lists[new local epoch]; the new local epoch is old+1 (mod number_epochs) and equals the global epoch observed; so a node retired in local epoch e is freed only when the thread enters e again, number_epochs local steps and at least two global advances later'),
    'qsbr.advance.all_quiescent': dict(deciding=True, text='[SEQ+INT] try_update_epoch(curr,new) changes the global epoch only by CAS curr->new and only after every registry entry was read and found not (active and at curr-1); it returns false iff some entry was; entries of exited threads (not active) never block (C17)'),
    'qsbr.advance.keeps_invariant': dict(deciding=True, text='the algorithm invariant "global epoch in {local, local+1} for every active entry" is preserved by an epoch advance and by quiescent_state (under the rely in INT mode)'),
    'qsbr.orphans.adopt_after_advance': dict(deciding=True, text="adopt_orphans is called iff this thread's CAS advanced the global epoch, after the CAS"),
    'qsbr.orphans.target_epoch': dict(deciding=True, text='~thread_data tags its orphan with (global_epoch + number_epochs - 1) mod number_epochs of the one global epoch value it loads; adopt_orphans puts every orphan into retire_lists[target_epoch] and nowhere else'),
    'qsbr.dtor.hands_over_all': dict(deciding=True, text='~thread_data of a registered thread with pending nodes creates exactly one orphan that takes over all number_epochs list heads and abandons it exactly once; without pending nodes nothing is created; an unregistered thread does nothing'),
    'qsbr.dtor.releases_record': dict(deciding=True, text='~thread_data releases the control block exactly once (the record becomes re-usable) and forgets it (C17)'),
    'qsbr.adopt.reinit': dict(deciding=True, text='[SEQ+INT] ensure_has_control_block acquires an entry only when the thread has none; whatever the (re-used) record contained, on return local_epoch equals a global epoch value validated by a successful CAS (expected == desired) and is not rewritten afterwards'),
    'qsbr.epochs.at_least_three': dict(deciding=True, text='number_epochs extracted from the header is >= 3 (two grace periods) and equals the shape the harness was built for'),
    'qsbr.sync.orders': dict(deciding=True, text='sync precondition: local_epoch store in quiescent_state is release-or-stronger and precedes delete_objects; the epoch CASes are acq_rel; an acquire fence separates the registry scan from the advancing CAS'),
  },
  replays={'qsbr.guard.region_balance': dict(src='replay_guard.cpp'), 'qsbr.guard.algebra': dict(src='replay_guard.cpp'),
           'qsbr.free.on_reentry': dict(src='replay_epoch.cpp'), 'qsbr.advance.all_quiescent': dict(src='replay_epoch.cpp')},
  canaries=['adopt.full_chain', 'adopt.none', 'adopt.onto_nonempty', 'dtor.never_registered', 'dtor.nothing_pending', 'dtor.orphan', 'ensure.already', 'ensure.new', 'ensure.reused', 'enter.fresh', 'enter.registered', 'g_acquire.fresh', 'g_acquire.null_drop', 'g_acquire.replace', 'g_acquire.vanished', 'g_aie.changed', 'g_aie.false_drop', 'g_aie.true', 'g_aie.true_null', 'g_copy_assign.both', 'g_copy_assign.from_empty', 'g_copy_assign.into_empty', 'g_copy_assign.self', 'g_copy_ctor.nonnull', 'g_copy_ctor.null', 'g_ctor.nonnull', 'g_ctor.null', 'g_move_assign.both', 'g_move_assign.self', 'g_move_ctor.nonnull', 'g_reclaim.last', 'g_reclaim.nested', 'g_reclaim_composed.blocked', 'g_reclaim_composed.freed_next_epoch', 'g_reset.dtor_nonnull', 'g_reset.nonnull', 'g_reset.null', 'g_swap.done', 'leave.nested', 'leave.outermost', 'quiescent.advanced', 'quiescent.blocked', 'quiescent.caught_up', 'quiescent.freed_nonempty', 'quiescent_int.advanced', 'quiescent_int.blocked', 'quiescent_int.caught_up', 'quiescent_int.lost_race', 'region_guard.done', 'retire.empty', 'retire.nonempty', 'try_update.advanced', 'try_update.already', 'try_update.blocked', 'try_update.exited_ignored', 'try_update.full_registry', 'try_update_int.advanced', 'try_update_int.blocked', 'try_update_int.lost_race'],
)
