#include "xv.h"
#define XV_INV_EHCB 1
#define XV_HAVOC_EHCB control_block local_epoch epoch
#include "lowered.h"
