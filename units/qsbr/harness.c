/* unit qsbr - quiescent_state_based (C01 protect + reclaim side, C02, C15 guard algebra, C17).
 * Only declarations, contract stubs, ghost state, invariants and harness functions; function bodies come from lowered.h */
#include <stdint.h>
#include <stddef.h>
static void mon_load(void* a, uint64_t v, int o);
static void mon_store(void* a, uint64_t v, int o);
static void mon_cas(void* a, uint64_t e, uint64_t d, _Bool ok, int o);
static void mon_fence(int o);
#define XV_ON_LOAD(addr, val, order) mon_load((void*)(addr), (uint64_t)(val), (order))
#define XV_ON_STORE(addr, val, order) mon_store((void*)(addr), (uint64_t)(val), (order))
#define XV_ON_CAS(addr, e, d, ok, order) mon_cas((void*)(addr), (uint64_t)(e), (uint64_t)(d), (ok), (order))
#define XV_ON_FENCE(order) mon_fence(order)
#include "xv.h"
int xv_threw; uint64_t xv_clock, xv_rmw_old; _Bool xv_cas_ok;

#ifndef E
#define E 3            /* thread entries */
#endif
#ifndef NP
#define NP 4           /* node pool: up to NP retired nodes / orphans in total, any distribution over the lists (thorough runs: 6) */
#endif
#ifndef L
#define L 3            /* abandoned chain length bound (unwinding of adopt_orphans) */
#endif
#ifndef NE
#define NE 3           /* array shape; h_epochs checks that it equals the number_epochs extracted from the header */
#endif
#define number_epochs ((unsigned)XV_NUMBER_EPOCHS)    /* static constexpr unsigned number_epochs, extracted (used by the lowered text and the harnesses) */
#define NEU ((unsigned)NE)
#define TSAN_MEMORY_ORDER(tsan_order, normal_order) normal_order   /* port.hpp, non-TSan branch */

/* ---------------- types ---------------- */
typedef uintptr_t mptr;                      /* marked_ptr<T,N>: opaque word; word == 0 <=> (nullptr, mark 0) */
struct node { struct node* next; unsigned target_epoch; struct node* o_lists[NE]; int deleter; };   /* deletable_object (+ orphan payload) */
enum { ST_FREE = 0, ST_INACTIVE = 1, ST_ACTIVE = 2 };
struct tcb { unsigned local_epoch; int state; struct tcb* next_entry; };   /* thread_control_block : thread_block_list::entry */
struct thread_data { unsigned region_entries; struct tcb* control_block; struct node* retire_lists[NE]; };
struct guard { mptr ptr; };
struct tbl { int unused; };

/* ---------------- shared state ---------------- */
unsigned global_epoch;
struct tbl global_thread_block_list;
struct tcb entries[E]; unsigned n_entries; unsigned own;
struct node pool[NP]; struct node orphan_obj;
struct thread_data g_td;
#define local_thread_data() g_td

/* marked_ptr word model: 2 low bits = mark, rest = 1 + pool index (0 = nullptr) */
static struct node* mp_get(mptr w) { size_t k = (size_t)(w >> 2); if (k == 0) return 0; XV_MODEL_ASSERT("mptr.in_pool", k <= NP); return &pool[k - 1]; }
#define MP_get(w) mp_get(w)
#define GDEREF(w) mp_get(w)
#define MP_reset(x) ((x) = 0)
#define MarkedPtr(g) ((g).ptr)                       /* detail::guard_ptr::operator MarkedPtr() */
#define XV_INIT_base(self, v) ((self)->ptr = (v))    /* detail::guard_ptr(const MarkedPtr& p) : ptr(p) */
#define XV_INIT_guard_ptr(self, v) qsbr_g_ctor((self), (v))   /* delegating constructor */
#define XV_SWAP(a, b) do { mptr xv_t = (a); (a) = (b); (b) = xv_t; } while (0)
#define G_do_swap(self, g) ((void)0)                 /* detail::guard_ptr::do_swap: empty dummy, not overridden by this scheme */
#define N_set_deleter(n, d) ((n).deleter = (d))
static mptr nondet_word(void) { mptr w = nondet_uptr(); XV_ASSUME((w >> 2) <= NP); return w; }

/* ---------------- ghost counters / monitors ---------------- */
unsigned n_enter, n_leave, n_ensure, n_quiescent, n_delete, n_adopt, n_acquire_entry, n_release, n_abandon, n_orphan_new, n_adopt_call;
unsigned ens_entries_at_call; uint64_t adopt_clock, delete_clock, abandon_clock, release_clock;
struct node** del_arg; struct tcb* released_cb; struct node* abandoned_obj; struct node* abandoned_head;
unsigned orphan_target; struct tcb* acquired_cb;
/* loads of the guarded source */
mptr* mon_src; unsigned mon_src_loads; mptr mon_src_last; unsigned mon_src_last_entries, mon_src_last_nq; int mon_src_last_order;
/* epoch cells */
unsigned mon_g_loads, mon_g_stores, mon_g_cas; _Bool mon_g_cas_ok; unsigned mon_g_cas_exp, mon_g_cas_des; int mon_g_cas_order, mon_g_load_order; unsigned mon_g_last_load;
uint64_t mon_g_cas_clock, mon_fence_clock, mon_last_entry_read_clock, mon_own_store_clock; int mon_fence_order; unsigned n_fence;
_Bool seen_epoch_set[E], seen_active_set[E], seen_active[E]; unsigned seen_epoch[E];
_Bool mon_cas_all_examined; unsigned mon_own_stores; int mon_own_store_order; unsigned mon_own_store_val, mon_own_store_global;
unsigned mon_other_stores; _Bool mon_own_stored_any, mon_own_store_after_cas, mon_g_cas_any;

static _Bool examined_ok(unsigned i, unsigned old) {
  return seen_epoch_set[i] && (seen_epoch[i] != old || (seen_active_set[i] && !seen_active[i]));
}
static void mon_load(void* a, uint64_t v, int o) {
  if (a == (void*)mon_src) { mon_src_loads++; mon_src_last = (mptr)v; mon_src_last_entries = g_td.region_entries; mon_src_last_nq = n_quiescent; mon_src_last_order = o; }
  if (a == (void*)&global_epoch) { mon_g_loads++; mon_g_load_order = o; mon_g_last_load = (unsigned)v; }
  for (unsigned i = 0; i < E; i++) if (a == (void*)&entries[i].local_epoch) { seen_epoch_set[i] = 1; seen_epoch[i] = (unsigned)v; seen_active_set[i] = 0; mon_last_entry_read_clock = xv_clock; }
}
static void mon_store(void* a, uint64_t v, int o) {
  if (a == (void*)&global_epoch) mon_g_stores++;
  for (unsigned i = 0; i < E; i++) if (a == (void*)&entries[i].local_epoch) {
    if (&entries[i] == g_td.control_block) { mon_own_stores++; mon_own_stored_any = 1; mon_own_store_after_cas = 1; mon_own_store_order = o; mon_own_store_val = (unsigned)v; mon_own_store_global = global_epoch; mon_own_store_clock = xv_clock; }
    else mon_other_stores++;
  }
}
static void mon_cas(void* a, uint64_t e, uint64_t d, _Bool ok, int o) {
  if (a == (void*)&global_epoch) {
    mon_g_cas++; mon_g_cas_any = 1; mon_own_store_after_cas = 0; mon_g_cas_ok = ok; mon_g_cas_exp = (unsigned)e; mon_g_cas_des = (unsigned)d; mon_g_cas_order = o; mon_g_cas_clock = xv_clock;
    unsigned old = ((unsigned)e + NEU - 1) % NEU;
    mon_cas_all_examined = 1;
    for (unsigned i = 0; i < E; i++) if (i < n_entries && !examined_ok(i, old)) mon_cas_all_examined = 0;
  }
}
static void mon_fence(int o) { n_fence++; mon_fence_order = o; mon_fence_clock = xv_clock; }

/* ---------------- contract stubs ---------------- */
/* thread_block_list: iteration visits every entry (entries[0..n_entries)); acquire_entry hands out an exclusively owned active
 * entry which is either a free one (re-used, arbitrary left-over local_epoch) or a new one; release_entry makes it free */
typedef struct tcb* TBL_iter;
#define TBL_begin(l) (n_entries ? &entries[0] : (struct tcb*)0)
#define TBL_end(l) ((struct tcb*)0)
#define TBL_next(it) ((it)->next_entry)
typedef struct node** RL_iter;                       /* std::array<deletable_object*, NEU> */
#define RL_begin(a) (&(a)[0])
#define RL_end(a) (&(a)[0] + NE)
#define RL_next(it) ((it) + 1)
static _Bool e_is_active(struct tcb* e, int mo) {
  XV_ENV();
  for (unsigned i = 0; i < E; i++) if (e == &entries[i]) { seen_active_set[i] = 1; seen_active[i] = (e->state == ST_ACTIVE); mon_last_entry_read_clock = xv_clock; }
  xv_clock++;
  return e->state == ST_ACTIVE;
}
#define E_is_active(e, mo) e_is_active(&(e), (mo))
unsigned in_reuse;
static struct tcb* tbl_acquire_entry(void) {
  n_acquire_entry++;
  unsigned k = nondet_uint(); XV_ASSUME(k < E);
  if (k < n_entries) { XV_ASSUME(entries[k].state == ST_FREE); in_reuse = 1; }            /* re-use of a record left by an exited thread */
  else { XV_ASSUME(k == n_entries); n_entries++; entries[k].next_entry = 0; if (k) entries[k - 1].next_entry = &entries[k]; in_reuse = 0; }
  entries[k].state = ST_ACTIVE; acquired_cb = &entries[k];
  return &entries[k];
}
#define TBL_acquire_entry(l) tbl_acquire_entry()
static void tbl_release_entry(struct tcb* cb) { n_release++; released_cb = cb; release_clock = ++xv_clock; if (cb) cb->state = ST_FREE; }
#define TBL_release_entry(l, cb) tbl_release_entry(cb)
static void tbl_abandon(struct node* obj) { n_abandon++; abandoned_obj = obj; abandon_clock = ++xv_clock; }
#define TBL_abandon_retired_nodes(l, obj) tbl_abandon(obj)
static struct node* tbl_adopt(void) { n_adopt_call++; struct node* r = abandoned_head; abandoned_head = 0; return r; }
#define TBL_adopt_abandoned_retired_nodes(l) tbl_adopt()
static struct node* orphan_new(unsigned target, struct node** lists) {
  n_orphan_new++; orphan_target = target; orphan_obj.target_epoch = target; orphan_obj.next = 0;
  for (unsigned i = 0; i < NE; i++) orphan_obj.o_lists[i] = lists[i];
  return &orphan_obj;
}
#define ORPHAN_new(t, lists) orphan_new((t), (lists))
static void stub_delete_objects(struct node** list) { n_delete++; del_arg = list; delete_clock = ++xv_clock; *list = 0; }
#define XV_DELETE_OBJECTS(l) stub_delete_objects(&(l))

/* thread_data callees: real text or contract stub, selected per run */
static void qsbr_ensure_has_control_block(struct thread_data* self);
static void qsbr_quiescent_state(struct thread_data* self);
static void qsbr_adopt_orphans(struct thread_data* self);
static void stub_ensure(struct thread_data* self) {
  n_ensure++; ens_entries_at_call = self->region_entries;
  if (self->control_block == 0) { self->control_block = &entries[own]; entries[own].state = ST_ACTIVE; entries[own].local_epoch = global_epoch; }
}
static void stub_quiescent(struct thread_data* self) {
  n_quiescent++;
  XV_OBL("qsbr.leave.quiescent_only_at_zero", self->region_entries == 0);
}
struct node* adopt_new_head[NE]; _Bool adopt_changed[NE];
static void stub_adopt(struct thread_data* self) {
  n_adopt++; adopt_clock = ++xv_clock;
  /* contract of adopt_orphans (run 'adopt'): nodes are only added, in front of the lists */
  for (unsigned i = 0; i < NE; i++) { adopt_changed[i] = nondet_bool(); if (adopt_changed[i]) self->retire_lists[i] = &orphan_obj; adopt_new_head[i] = self->retire_lists[i]; }
}
#ifdef REAL_EHCB
#define TD_ensure_has_control_block(s) qsbr_ensure_has_control_block(s)
#else
#define TD_ensure_has_control_block(s) stub_ensure(s)
#endif
#ifdef REAL_QS
#define TD_quiescent_state(s) qsbr_quiescent_state(s)
#else
#define TD_quiescent_state(s) stub_quiescent(s)
#endif
#ifdef REAL_ADOPT
#define TD_adopt_orphans(s) qsbr_adopt_orphans(s)
#else
#define TD_adopt_orphans(s) stub_adopt(s)
#endif
#define TD_try_update_epoch(s, c, n) qsbr_try_update_epoch((s), (c), (n))
static void qsbr_enter_region(struct thread_data* self);
static void qsbr_leave_region(struct thread_data* self);
static void qsbr_add_retired_node1(struct thread_data* self, struct node* p);
unsigned n_retire; struct node* retired_node; unsigned retire_entries_at_call;
#define TD_enter_region(td) (n_enter++, qsbr_enter_region(&(td)))
#define TD_leave_region(td) (n_leave++, XV_OBL("qsbr.leave.balanced", (td).region_entries >= 1), qsbr_leave_region(&(td)))
#define TD_add_retired_node(td, p) (n_retire++, retired_node = (p), retire_entries_at_call = (td).region_entries, qsbr_add_retired_node1(&(td), (p)))

/* ---------------- environment (INT) ---------------- */
#ifdef XV_INT
int env_kind;   /* 1: guarded source cell changes arbitrarily; 2: epoch machinery, rely = see unit.py; 3: epoch machinery, rely = true */
void xv_env(void) {
  if (env_kind == 1) { *mon_src = nondet_word(); }
  if (env_kind == 2 || env_kind == 3) {
    for (unsigned i = 0; i < E; i++) if (&entries[i] != g_td.control_block) {       /* other threads' records: anything */
      entries[i].local_epoch = nondet_uint(); int s = nondet_int(); XV_ASSUME(s >= ST_FREE && s <= ST_ACTIVE); entries[i].state = s; }
    if (env_kind == 3) { global_epoch = nondet_uint(); XV_ASSUME(global_epoch < NEU); }
    else if (g_td.control_block && global_epoch == g_td.control_block->local_epoch && nondet_bool()) global_epoch = (global_epoch + 1) % NEU;
  }
}
#endif

/* ---------------- loop cut: ensure_has_control_block's validate loop ---------------- */
#ifdef XV_INT
#define XV_INV_EHCB_G 1
#else
#define XV_INV_EHCB_G (global_epoch == in_global)
#endif
#define XV_INV_EHCB (self->control_block == acquired_cb && acquired_cb != 0 && n_acquire_entry == 1 && epoch < number_epochs && mon_g_stores == 0 && mon_other_stores == 0 \
                     && self->region_entries == in_entries && global_epoch < number_epochs && XV_INV_EHCB_G)
#ifdef XV_INT
#define XV_HAVOC_EHCB_G global_epoch = nondet_uint()
#else
#define XV_HAVOC_EHCB_G ((void)0)
#endif
#define XV_HAVOC_EHCB /* global_epoch: the CAS(epoch, epoch) never changes its value; INT mode: XV_HAVOC_EHCB_G */ epoch = nondet_uint(); self->control_block->local_epoch = nondet_uint() /* local_epoch */; mon_own_stores = nondet_uint(); \
                      mon_g_cas = nondet_uint(); mon_g_cas_ok = nondet_bool(); mon_g_cas_exp = nondet_uint(); mon_g_cas_des = nondet_uint(); \
                      mon_own_stored_any = nondet_bool(); mon_own_store_after_cas = nondet_bool(); mon_g_cas_any = nondet_bool(); \
                      mon_own_store_clock = nondet_u64(); mon_g_cas_clock = nondet_u64(); xv_clock = nondet_u64(); XV_HAVOC_EHCB_G

unsigned in_entries, in_local, in_global, in_op; mptr in_self, in_src; _Bool in_same, in_has_cb;
unsigned in_e_epoch[E]; int in_e_state[E]; unsigned in_n, in_own;
#include "lowered.h"

/* ================= state construction ================= */
int home[NP];   /* -1: not in any list; 0..NE-1: retire list; NE: abandoned chain */
struct node* head0[NE + 1]; struct node* next0[NP];
static void build_lists(void) {
  struct node** tail[NE + 1];
  for (unsigned h = 0; h <= NE; h++) { head0[h] = 0; tail[h] = &head0[h]; }
  for (unsigned k = 0; k < NP; k++) {
    home[k] = nondet_int(); XV_ASSUME(home[k] >= -1 && home[k] <= (int)NE);
    pool[k].next = 0; pool[k].target_epoch = nondet_uint(); pool[k].deleter = nondet_int();
    for (unsigned i = 0; i < NE; i++) pool[k].o_lists[i] = 0;
    if (home[k] >= 0) { *tail[home[k]] = &pool[k]; tail[home[k]] = &pool[k].next; }
  }
  for (unsigned h = 0; h < NE; h++) g_td.retire_lists[h] = head0[h];
  abandoned_head = head0[NE];
  for (unsigned k = 0; k < NP; k++) next0[k] = pool[k].next;
}
/* occurrences of x in the list; -1 if the list does not end within NP+1 steps */
static int member(struct node* head, struct node* x) {
  int c = 0; struct node* p = head;
  for (unsigned s = 0; s < NP + 1; s++) { if (!p) break; if (p == x) c++; p = p->next; }
  return p ? -1 : c;
}
static void reset_ghost(void) {
  n_enter = n_leave = n_ensure = n_quiescent = n_delete = n_adopt = n_acquire_entry = n_release = n_abandon = n_orphan_new = n_adopt_call = n_retire = 0;
  mon_src_loads = 0; mon_g_loads = mon_g_stores = mon_g_cas = 0; mon_own_stores = mon_other_stores = 0; n_fence = 0; mon_cas_all_examined = 0; mon_g_cas_ok = 0; mon_own_stored_any = mon_own_store_after_cas = mon_g_cas_any = 0;
  for (unsigned i = 0; i < E; i++) { seen_epoch_set[i] = 0; seen_active_set[i] = 0; }
  del_arg = 0; released_cb = 0; abandoned_obj = 0; acquired_cb = 0; retired_node = 0; xv_clock = 1;
  mon_last_entry_read_clock = 0; mon_fence_clock = 0; mon_g_cas_clock = 0; mon_own_store_clock = 0; adopt_clock = 0; delete_clock = 0;
}
/* the registry: n entries chained in order, arbitrary states and local epochs (other threads' records are read, never assumed) */
static void havoc_entries(void) {
  in_n = nondet_uint(); XV_ASSUME(in_n <= E); n_entries = in_n;
  for (unsigned i = 0; i < E; i++) {
    in_e_epoch[i] = nondet_uint(); in_e_state[i] = nondet_int(); XV_ASSUME(in_e_state[i] >= ST_FREE && in_e_state[i] <= ST_ACTIVE);
    entries[i].local_epoch = in_e_epoch[i]; entries[i].state = in_e_state[i];
    entries[i].next_entry = (i + 1 < n_entries) ? &entries[i + 1] : 0;
  }
  in_global = nondet_uint(); XV_ASSUME(in_global < number_epochs); global_epoch = in_global;
}
/* this thread: registered (control block = entries[own], active, local epoch < NE) or not yet */
static void havoc_thread(_Bool need_cb, unsigned min_entries) {
  havoc_entries();
  in_own = nondet_uint(); own = in_own; XV_ASSUME(own < E);
  in_has_cb = nondet_bool(); if (need_cb) XV_ASSUME(in_has_cb);
  in_local = nondet_uint(); XV_ASSUME(in_local < number_epochs);
  if (in_has_cb) { XV_ASSUME(own < n_entries); entries[own].state = ST_ACTIVE; entries[own].local_epoch = in_local; in_e_state[own] = ST_ACTIVE; in_e_epoch[own] = in_local; g_td.control_block = &entries[own]; }
  else { XV_ASSUME(own >= n_entries || entries[own].state == ST_FREE); g_td.control_block = 0; }
  in_entries = nondet_uint(); XV_ASSUME(in_entries >= min_entries && in_entries < 0xFFFFFFF0u);   /* assumption: fewer than 2^32-16 nested regions/guards per thread */
  XV_ASSUME(in_entries == 0 || in_has_cb);                 /* thread invariant: inside a region => registered */
  g_td.region_entries = in_entries;
  build_lists(); reset_ghost();
}
#define NZ(w) ((w) != 0 ? 1u : 0u)
static void check_balance(unsigned before_nz, unsigned after_nz) {
  XV_OBL("qsbr.guard.region_balance", g_td.region_entries == in_entries - before_nz + after_nz);
  XV_OBL("qsbr.guard.region_balance", g_td.region_entries == 0 || g_td.control_block != 0);
}
static void check_lists_untouched(void) {
  unsigned i = nondet_uint(); XV_ASSUME(i < NE); unsigned k = nondet_uint(); XV_ASSUME(k < NP);
  XV_OBL("qsbr.conserve", g_td.retire_lists[i] == head0[i] && pool[k].next == next0[k] && n_delete == 0);
}

/* ================= protect side: region counting ================= */
void h_enter(void) {
  havoc_thread(0, 0);
  qsbr_enter_region(&g_td);
  XV_OBL("qsbr.enter.registers_then_counts", n_ensure == 1 && ens_entries_at_call == in_entries && g_td.region_entries == in_entries + 1 && g_td.control_block != 0);
  XV_OBL("qsbr.enter.registers_then_counts", n_quiescent == 0);
  check_lists_untouched();
  if (in_has_cb) XV_CANARY("enter.registered"); else XV_CANARY("enter.fresh");
}
void h_leave(void) {
  havoc_thread(1, 1);
  qsbr_leave_region(&g_td);
  XV_OBL("qsbr.leave.quiescent_only_at_zero", g_td.region_entries == in_entries - 1 && n_quiescent == (in_entries == 1 ? 1u : 0u));
  XV_OBL("qsbr.leave.quiescent_only_at_zero", g_td.control_block == &entries[own]);
  if (in_entries == 1) XV_CANARY("leave.outermost"); else XV_CANARY("leave.nested");
}
void h_region_guard(void) {
  havoc_thread(0, 0);
  qsbr_rg_ctor();
  XV_OBL("qsbr.guard.region_balance", g_td.region_entries == in_entries + 1 && n_enter == 1 && n_leave == 0 && n_quiescent == 0);
  qsbr_rg_dtor();
  XV_OBL("qsbr.guard.region_balance", g_td.region_entries == in_entries && n_enter == 1 && n_leave == 1 && n_quiescent == (in_entries == 0 ? 1u : 0u));
  XV_CANARY("region_guard.done");
}

/* ================= guard algebra (C15) with protections = region_entries ================= */
struct guard ga, gb;
static void havoc_guards(void) {
  in_self = nondet_word(); in_src = nondet_word(); ga.ptr = in_self; gb.ptr = in_src;
  havoc_thread(0, NZ(in_self) + NZ(in_src));
}
void h_g_ctor(void) {
  mptr p = nondet_word(); in_src = p; havoc_thread(0, 0); ga.ptr = nondet_word();
  qsbr_g_ctor(&ga, p);
  XV_OBL("qsbr.guard.algebra", ga.ptr == p && n_enter == NZ(p) && n_leave == 0);
  check_balance(0, NZ(p)); check_lists_untouched();
  if (p) XV_CANARY("g_ctor.nonnull"); else XV_CANARY("g_ctor.null");
}
void h_g_copy_ctor(void) {
  in_src = nondet_word(); gb.ptr = in_src; havoc_thread(0, NZ(in_src)); ga.ptr = nondet_word();
  qsbr_g_copy_ctor(&ga, &gb);
  XV_OBL("qsbr.guard.algebra", ga.ptr == in_src && gb.ptr == in_src && n_enter == NZ(in_src) && n_leave == 0);
  check_balance(NZ(in_src), 2 * NZ(in_src)); check_lists_untouched();
  if (in_src) XV_CANARY("g_copy_ctor.nonnull"); else XV_CANARY("g_copy_ctor.null");
}
void h_g_move_ctor(void) {
  in_src = nondet_word(); gb.ptr = in_src; havoc_thread(0, NZ(in_src)); ga.ptr = nondet_word();
  qsbr_g_move_ctor(&ga, &gb);
  XV_OBL("qsbr.guard.algebra", ga.ptr == in_src && gb.ptr == 0 && n_enter == 0 && n_leave == 0);
  check_balance(NZ(in_src), NZ(in_src)); check_lists_untouched();
  if (in_src) XV_CANARY("g_move_ctor.nonnull");
}
void h_g_copy_assign(void) {
  havoc_guards(); in_same = nondet_bool();
  if (in_same) {
    XV_ASSUME(in_entries >= NZ(in_self));
    qsbr_g_copy_assign(&ga, &ga);
    XV_OBL("qsbr.guard.algebra", ga.ptr == in_self && n_enter == 0 && n_leave == 0 && g_td.region_entries == in_entries);
    XV_CANARY("g_copy_assign.self");
  } else {
    qsbr_g_copy_assign(&ga, &gb);
    XV_OBL("qsbr.guard.algebra", ga.ptr == in_src && gb.ptr == in_src && n_enter == NZ(in_src) && n_leave == NZ(in_self));
    check_balance(NZ(in_self) + NZ(in_src), 2 * NZ(in_src));
    if (in_self && in_src) XV_CANARY("g_copy_assign.both"); if (!in_self && in_src) XV_CANARY("g_copy_assign.into_empty"); if (in_self && !in_src) XV_CANARY("g_copy_assign.from_empty");
  }
  check_lists_untouched();
}
void h_g_move_assign(void) {
  havoc_guards(); in_same = nondet_bool();
  if (in_same) {
    qsbr_g_move_assign(&ga, &ga);
    XV_OBL("qsbr.guard.algebra", ga.ptr == in_self && n_enter == 0 && n_leave == 0 && g_td.region_entries == in_entries);
    XV_CANARY("g_move_assign.self");
  } else {
    qsbr_g_move_assign(&ga, &gb);
    XV_OBL("qsbr.guard.algebra", ga.ptr == in_src && gb.ptr == 0 && n_enter == 0 && n_leave == NZ(in_self));
    check_balance(NZ(in_self) + NZ(in_src), NZ(in_src));
    if (in_self && in_src) XV_CANARY("g_move_assign.both");
  }
  check_lists_untouched();
}
void h_g_swap(void) {
  havoc_guards();
  qsbr_g_swap(&ga, &gb);
  XV_OBL("qsbr.guard.algebra", ga.ptr == in_src && gb.ptr == in_self && n_enter == 0 && n_leave == 0 && g_td.region_entries == in_entries);
  check_lists_untouched();
  XV_CANARY("g_swap.done");
}
void h_g_reset(void) {
  havoc_guards();
  in_op = nondet_uint(); XV_ASSUME(in_op < 2);       /* 0: reset(), 1: destructor */
  if (in_op == 0) qsbr_g_reset(&ga); else qsbr_g_dtor(&ga);
  XV_OBL("qsbr.guard.algebra", ga.ptr == 0 && gb.ptr == in_src && n_enter == 0 && n_leave == NZ(in_self));
  check_balance(NZ(in_self) + NZ(in_src), NZ(in_src));
  XV_OBL("qsbr.leave.quiescent_only_at_zero", n_quiescent == ((in_self != 0 && in_entries == 1) ? 1u : 0u));
  unsigned e1 = g_td.region_entries, l1 = n_leave;
  qsbr_g_reset(&ga);                                 /* double reset is harmless */
  XV_OBL("qsbr.guard.algebra", ga.ptr == 0 && g_td.region_entries == e1 && n_leave == l1);
  check_lists_untouched();
  if (in_self) { if (in_op) XV_CANARY("g_reset.dtor_nonnull"); else XV_CANARY("g_reset.nonnull"); } else XV_CANARY("g_reset.null");
}
void h_g_reclaim(void) {
  havoc_guards();
  int d = nondet_int();
  struct node* obj = mp_get(in_self);
  XV_ASSUME(obj != 0);                               /* requires: the guard holds an object */
  unsigned k0 = (unsigned)(obj - pool); XV_ASSUME(home[k0] == -1);    /* requires: not retired before */
  unsigned le = entries[own].local_epoch;
  qsbr_g_reclaim(&ga, d);
  XV_OBL("qsbr.reclaim.retires_once", n_retire == 1 && retired_node == obj && retire_entries_at_call == in_entries);
  XV_OBL("qsbr.reclaim.retires_once", g_td.retire_lists[le] == obj && obj->next == head0[le] && obj->deleter == d);
  unsigned i = nondet_uint(); XV_ASSUME(i < NE); unsigned k = nondet_uint(); XV_ASSUME(k < NP);
  XV_OBL("qsbr.conserve", (i == le || g_td.retire_lists[i] == head0[i]) && (k == k0 || pool[k].next == next0[k]) && n_delete == 0);
  XV_OBL("qsbr.guard.algebra", ga.ptr == 0 && gb.ptr == in_src && n_enter == 0 && n_leave == 1);
  check_balance(1 + NZ(in_src), NZ(in_src));
  if (in_entries == 1) XV_CANARY("g_reclaim.last"); else XV_CANARY("g_reclaim.nested");
}

/* acquire / acquire_if_equal: SEQ (exact) and INT (the source changes arbitrarily between any two accesses) */
mptr src_cell;
void h_g_acquire(void) {
  in_self = nondet_word(); ga.ptr = in_self; havoc_thread(0, NZ(in_self));
  src_cell = nondet_word(); in_src = src_cell; mon_src = &src_cell; int order = nondet_int();
#ifdef XV_INT
  env_kind = 1;
#endif
  qsbr_g_acquire(&ga, &src_cell, order);
#ifdef XV_INT
  env_kind = 0;
#endif
  XV_OBL("qsbr.acquire.snapshot", mon_src_loads >= 1 && ga.ptr == mon_src_last);
#ifndef XV_INT
  XV_OBL("qsbr.acquire.snapshot", ga.ptr == in_src && src_cell == in_src);
#endif
  if (ga.ptr) {
    XV_OBL("qsbr.acquire.enter_before_load", mon_src_last_entries >= 1 && mon_src_last_nq == n_quiescent && g_td.region_entries >= 1);
    XV_OBL("qsbr.acquire.snapshot", mon_src_last_order == order);
  }
  XV_OBL("qsbr.guard.region_balance", n_enter <= 1 && n_leave <= 1);
  check_balance(NZ(in_self), NZ(ga.ptr)); check_lists_untouched();
  if (ga.ptr && !in_self) XV_CANARY("g_acquire.fresh"); if (ga.ptr && in_self) XV_CANARY("g_acquire.replace");
  if (!ga.ptr && in_self) XV_CANARY("g_acquire.null_drop");
#ifdef XV_INT
  if (!ga.ptr && mon_src_loads == 2) XV_CANARY("g_acquire.vanished");
#endif
}
void h_g_acquire_if_equal(void) {
  in_self = nondet_word(); ga.ptr = in_self; havoc_thread(0, NZ(in_self));
  src_cell = nondet_word(); in_src = src_cell; mon_src = &src_cell; int order = nondet_int(); mptr expected = nondet_word();
#ifdef XV_INT
  env_kind = 1;
#endif
  _Bool r = qsbr_g_acquire_if_equal(&ga, &src_cell, expected, order);
#ifdef XV_INT
  env_kind = 0;
#endif
  XV_OBL("qsbr.acquire_if_equal.iff", mon_src_loads >= 1 && r == (mon_src_last == expected));
  XV_OBL("qsbr.acquire_if_equal.iff", r ? ga.ptr == expected : ga.ptr == 0);
#ifndef XV_INT
  XV_OBL("qsbr.acquire_if_equal.iff", r == (in_src == expected) && src_cell == in_src);
#endif
  if (ga.ptr) {
    XV_OBL("qsbr.acquire.enter_before_load", mon_src_last_entries >= 1 && mon_src_last_nq == n_quiescent && g_td.region_entries >= 1);
    XV_OBL("qsbr.acquire.snapshot", mon_src_last_order == order && ga.ptr == mon_src_last);
  }
  XV_OBL("qsbr.guard.region_balance", n_enter <= 1 && n_leave <= 1);
  check_balance(NZ(in_self), NZ(ga.ptr)); check_lists_untouched();
  if (r && ga.ptr) XV_CANARY("g_aie.true"); if (r && !ga.ptr) XV_CANARY("g_aie.true_null"); if (!r && in_self) XV_CANARY("g_aie.false_drop");
#ifdef XV_INT
  if (!r && mon_src_loads == 2) XV_CANARY("g_aie.changed");
#endif
}

/* ================= reclaim side ================= */
static _Bool blocked_by(unsigned old) {
  for (unsigned i = 0; i < E; i++) if (i < n_entries && entries[i].state == ST_ACTIVE && entries[i].local_epoch == old) return 1;
  return 0;
}
static _Bool near(unsigned local, unsigned global) { return local < number_epochs && global < number_epochs && (global == local || global == (local + 1) % number_epochs); }

void h_epochs(void) { XV_OBL("qsbr.epochs.at_least_three", number_epochs >= 3 && NE == XV_NUMBER_EPOCHS); }

/* add_retired_node(p) [+ (p, epoch)] */
void h_retire(void) {
  havoc_thread(1, 0);
  unsigned k0 = nondet_uint(); XV_ASSUME(k0 < NP && home[k0] == -1);
  unsigned le = in_local;
  qsbr_add_retired_node1(&g_td, &pool[k0]);
  XV_OBL("qsbr.retire.current_epoch", g_td.retire_lists[le] == &pool[k0] && pool[k0].next == head0[le]);
  unsigned i = nondet_uint(); XV_ASSUME(i < NE); unsigned k = nondet_uint(); XV_ASSUME(k < NP);
  XV_OBL("qsbr.conserve", (i == le || g_td.retire_lists[i] == head0[i]) && (k == k0 || pool[k].next == next0[k]) && n_delete == 0);
  XV_OBL("qsbr.conserve", member(g_td.retire_lists[i], &pool[k]) == ((k == k0 ? (int)le : home[k]) == (int)i ? 1 : 0));
  XV_OBL("qsbr.retire.current_epoch", entries[own].local_epoch == in_local && global_epoch == in_global && g_td.region_entries == in_entries);
  if (head0[le]) XV_CANARY("retire.nonempty"); else XV_CANARY("retire.empty");
}

/* adopt_orphans: every orphan of the abandoned chain ends in retire_lists[its target_epoch], nothing else moves */
void h_adopt(void) {
  havoc_thread(1, 0);
  unsigned chain = 0;
  for (unsigned k = 0; k < NP; k++) if (home[k] == (int)NE) { chain++; XV_ASSUME(pool[k].target_epoch < number_epochs); }   /* orphan ctor: target_epoch < number_epochs */
  XV_ASSUME(chain <= L);
  qsbr_adopt_orphans(&g_td);
  unsigned i = nondet_uint(); XV_ASSUME(i < NE); unsigned k = nondet_uint(); XV_ASSUME(k < NP);
  int exp = home[k] == (int)NE ? (int)pool[k].target_epoch : home[k];
  int m = member(g_td.retire_lists[i], &pool[k]);
  if (home[k] == (int)NE) XV_OBL("qsbr.orphans.target_epoch", m == (exp == (int)i ? 1 : 0));
  XV_OBL("qsbr.conserve", m == (exp == (int)i ? 1 : 0));
  XV_OBL("qsbr.conserve", n_adopt_call == 1 && abandoned_head == 0 && n_delete == 0);
  XV_OBL("qsbr.conserve", entries[own].local_epoch == in_local && global_epoch == in_global && g_td.region_entries == in_entries && g_td.control_block == &entries[own]);
  if (chain == 0) XV_CANARY("adopt.none"); if (chain == L) XV_CANARY("adopt.full_chain");
  if (chain == 2 && home[k] == (int)NE && head0[exp] != 0) XV_CANARY("adopt.onto_nonempty");
}

/* try_update_epoch(curr, new) from any registry contents */
void h_try_update(void) {
  havoc_thread(1, 0);
  unsigned curr = nondet_uint(), nw = nondet_uint(); XV_ASSUME(curr < number_epochs);
  unsigned old = (curr + number_epochs - 1) % number_epochs;
  _Bool blocked = blocked_by(old);
  unsigned j = nondet_uint(); XV_ASSUME(j < n_entries);
  _Bool j_inv = entries[j].state == ST_ACTIVE && near(entries[j].local_epoch, in_global);
  _Bool r = qsbr_try_update_epoch(&g_td, curr, nw);
  XV_OBL("qsbr.advance.all_quiescent", r == !blocked);
  XV_OBL("qsbr.advance.all_quiescent", global_epoch == ((!blocked && in_global == curr) ? nw : in_global));
  XV_OBL("qsbr.advance.all_quiescent", n_adopt == ((!blocked && in_global == curr) ? 1u : 0u) && mon_g_stores == 0);
  XV_OBL("qsbr.advance.all_quiescent", entries[j].local_epoch == in_e_epoch[j] && entries[j].state == in_e_state[j] && mon_own_stores == 0 && mon_other_stores == 0);
  if (n_adopt) XV_OBL("qsbr.orphans.adopt_after_advance", mon_g_cas_ok && adopt_clock > mon_g_cas_clock);
  /* the algorithm's invariant "global in {local, local+1} for every active entry" survives an advance curr -> curr+1 */
  if (nw == (curr + 1) % number_epochs && j_inv) XV_OBL("qsbr.advance.keeps_invariant", near(entries[j].local_epoch, global_epoch));
  if (mon_g_cas) XV_OBL("qsbr.sync.orders", mon_g_cas_order == mo_acq_rel && n_fence >= 1 && XV_IS_ACQUIRE(mon_fence_order) && mon_fence_clock > mon_last_entry_read_clock && mon_fence_clock < mon_g_cas_clock);
  XV_OBL("qsbr.conserve", n_delete == 0 && g_td.region_entries == in_entries);
  if (blocked) XV_CANARY("try_update.blocked");
  if (!blocked && in_global == curr) XV_CANARY("try_update.advanced");
  if (!blocked && in_global != curr) XV_CANARY("try_update.already");
  /* C17: a record of an exited thread standing at the old epoch does not block */
  if (!blocked && in_global == curr && entries[j].state != ST_ACTIVE && entries[j].local_epoch == old) XV_CANARY("try_update.exited_ignored");
  if (n_entries == E && r) XV_CANARY("try_update.full_registry");
}
void h_try_update_int(void) {
#ifdef XV_INT
  havoc_thread(1, 0);
  unsigned curr = nondet_uint(), nw = nondet_uint(); XV_ASSUME(curr < number_epochs);
  unsigned old = (curr + number_epochs - 1) % number_epochs;
  env_kind = 3;
  _Bool r = qsbr_try_update_epoch(&g_td, curr, nw);
  env_kind = 0;
  XV_OBL("qsbr.advance.all_quiescent", mon_g_cas <= 1 && mon_g_stores == 0);
  if (mon_g_cas) {
    XV_OBL("qsbr.advance.all_quiescent", mon_cas_all_examined && mon_g_cas_exp == curr && mon_g_cas_des == nw && r);
    XV_OBL("qsbr.sync.orders", mon_g_cas_order == mo_acq_rel && n_fence >= 1 && XV_IS_ACQUIRE(mon_fence_order) && mon_fence_clock > mon_last_entry_read_clock && mon_fence_clock < mon_g_cas_clock);
  }
  if (r) { unsigned j = nondet_uint(); XV_ASSUME(j < n_entries); XV_OBL("qsbr.advance.all_quiescent", examined_ok(j, old)); }
  else XV_OBL("qsbr.advance.all_quiescent", mon_g_cas == 0 && n_adopt == 0);
  XV_OBL("qsbr.orphans.adopt_after_advance", n_adopt == ((mon_g_cas && mon_g_cas_ok) ? 1u : 0u) && (!n_adopt || adopt_clock > mon_g_cas_clock));
  XV_OBL("qsbr.advance.all_quiescent", mon_own_stores == 0 && mon_other_stores == 0 && n_delete == 0);
  if (mon_g_cas && mon_g_cas_ok) XV_CANARY("try_update_int.advanced"); if (mon_g_cas && !mon_g_cas_ok) XV_CANARY("try_update_int.lost_race");
  if (!r) XV_CANARY("try_update_int.blocked");
#endif
}

/* quiescent_state with the real try_update_epoch; adopt_orphans and delete_objects are contract stubs */
void h_quiescent(void) {
  havoc_thread(1, 0);
  XV_ASSUME(in_entries == 0);                                   /* call site: leave_region reached 0 */
  XV_ASSUME(near(in_local, in_global));                         /* algorithm invariant for this (active) thread */
  unsigned old = (in_local + number_epochs - 1) % number_epochs, nxt = (in_local + 1) % number_epochs;
  _Bool blocked = blocked_by(old);
  unsigned j = nondet_uint(); XV_ASSUME(j < E && j != own);     /* any other record */
  unsigned i = nondet_uint(); XV_ASSUME(i < NE);
  qsbr_quiescent_state(&g_td);
  unsigned l1 = entries[own].local_epoch;
  /* the property: list e is freed only when the thread moves into epoch e, one step at a time, and that epoch is the global one */
  XV_OBL("qsbr.free.on_reentry", n_delete <= 1 && n_delete == (l1 != in_local ? 1u : 0u));
  XV_OBL("qsbr.free.on_reentry", l1 == in_local || (l1 == nxt && l1 == global_epoch && del_arg == &g_td.retire_lists[l1]));
  if (in_global == in_local) {
    if (blocked) { XV_OBL("qsbr.advance.all_quiescent", l1 == in_local && global_epoch == in_global && n_adopt == 0 && n_delete == 0 && mon_own_stores == 0); XV_CANARY("quiescent.blocked"); }
    else { XV_OBL("qsbr.advance.all_quiescent", global_epoch == nxt && l1 == nxt && n_adopt == 1 && n_delete == 1 && adopt_clock < delete_clock); XV_CANARY("quiescent.advanced"); }
  } else {
    XV_OBL("qsbr.free.on_reentry", global_epoch == in_global && l1 == in_global && n_adopt == 0 && n_delete == 1 && mon_g_cas == 0); XV_CANARY("quiescent.caught_up");
  }
  /* frame: only the entered epoch's list is emptied; the other lists are as adopt_orphans left them (or untouched) */
  if (n_delete) XV_OBL("qsbr.conserve", g_td.retire_lists[l1] == 0);
  if (!(n_delete && i == l1)) XV_OBL("qsbr.conserve", g_td.retire_lists[i] == (n_adopt ? adopt_new_head[i] : head0[i]));
  XV_OBL("qsbr.conserve", entries[j].local_epoch == in_e_epoch[j] && entries[j].state == in_e_state[j] && g_td.region_entries == 0 && g_td.control_block == &entries[own] && entries[own].state == ST_ACTIVE);
  XV_OBL("qsbr.advance.keeps_invariant", near(l1, global_epoch) && l1 < number_epochs && global_epoch < number_epochs);
  if (mon_own_stores) XV_OBL("qsbr.sync.orders", XV_IS_RELEASE(mon_own_store_order) && mon_own_stores == 1 && mon_own_store_clock < delete_clock);
  XV_OBL("qsbr.sync.orders", mon_g_loads >= 1);
  if (n_delete && i == l1 && head0[i] != 0) XV_CANARY("quiescent.freed_nonempty");
}
void h_quiescent_int(void) {
#ifdef XV_INT
  havoc_thread(1, 0);
  XV_ASSUME(in_entries == 0 && near(in_local, in_global));
  unsigned nxt = (in_local + 1) % number_epochs;
  mon_g_loads = 0;
  env_kind = 2;
  qsbr_quiescent_state(&g_td);
  env_kind = 0;
  unsigned l1 = entries[own].local_epoch;
  XV_OBL("qsbr.free.on_reentry", n_delete <= 1 && n_delete == (l1 != in_local ? 1u : 0u));
  XV_OBL("qsbr.free.on_reentry", l1 == in_local || (l1 == nxt && del_arg == &g_td.retire_lists[l1] && mon_own_stores == 1 && mon_own_store_val == nxt && mon_own_store_global == nxt));
  XV_OBL("qsbr.advance.keeps_invariant", near(l1, global_epoch));
  if (mon_g_cas) XV_OBL("qsbr.advance.all_quiescent", mon_cas_all_examined && mon_g_cas_exp == in_local && mon_g_cas_des == nxt);
  XV_OBL("qsbr.orphans.adopt_after_advance", n_adopt == ((mon_g_cas && mon_g_cas_ok) ? 1u : 0u));
  if (mon_own_stores) XV_OBL("qsbr.sync.orders", XV_IS_RELEASE(mon_own_store_order) && mon_own_store_clock < delete_clock);
  if (l1 != in_local && !mon_g_cas) XV_CANARY("quiescent_int.caught_up"); if (mon_g_cas && !mon_g_cas_ok) XV_CANARY("quiescent_int.lost_race");
  if (mon_g_cas_ok) XV_CANARY("quiescent_int.advanced"); if (l1 == in_local) XV_CANARY("quiescent_int.blocked");
#endif
}

/* ensure_has_control_block: (re-)initialisation of a record, possibly one left by an exited thread (C17) */
void h_ensure(void) {
  havoc_thread(0, 0);
#ifdef XV_INT
  env_kind = 3;
#endif
  qsbr_ensure_has_control_block(&g_td);
#ifdef XV_INT
  env_kind = 0;
#endif
  if (in_has_cb) {
    XV_OBL("qsbr.adopt.reinit", n_acquire_entry == 0 && g_td.control_block == &entries[own] && mon_own_stores == 0 && mon_g_cas == 0 && mon_g_loads == 0);
    XV_CANARY("ensure.already");
  } else {
    XV_OBL("qsbr.adopt.reinit", n_acquire_entry == 1 && g_td.control_block == acquired_cb && acquired_cb->state == ST_ACTIVE);
    /* the local epoch is a global epoch value validated by the successful CAS (global unchanged by it), and not rewritten afterwards */
    XV_OBL("qsbr.adopt.reinit", mon_g_cas_any && mon_g_cas_ok && mon_g_cas_exp == mon_g_cas_des && acquired_cb->local_epoch == mon_g_cas_exp
                                 && mon_own_stored_any && !mon_own_store_after_cas && acquired_cb->local_epoch < number_epochs);
#ifndef XV_INT
    XV_OBL("qsbr.adopt.reinit", acquired_cb->local_epoch == global_epoch && global_epoch == in_global);
#endif
    XV_OBL("qsbr.sync.orders", mon_g_cas_order == mo_acq_rel);
    XV_OBL("qsbr.adopt.reinit", mon_g_stores == 0 && mon_other_stores == 0 && g_td.region_entries == in_entries);
    if (in_reuse) XV_CANARY("ensure.reused"); else XV_CANARY("ensure.new");
  }
  check_lists_untouched();
}

/* ~thread_data: pending nodes are handed over as one orphan tagged (global-1) mod number_epochs; the record is released */
void h_dtor(void) {
  havoc_thread(0, 0);
  XV_ASSUME(in_entries == 0);                                   /* thread exit: no guard alive */
  _Bool any = 0; for (unsigned i = 0; i < NE; i++) if (head0[i]) any = 1;
  unsigned i = nondet_uint(); XV_ASSUME(i < NE); unsigned k = nondet_uint(); XV_ASSUME(k < NP);
  qsbr_td_dtor(&g_td);
  if (!in_has_cb) {
    XV_OBL("qsbr.dtor.hands_over_all", n_orphan_new == 0 && n_abandon == 0 && n_release == 0 && mon_g_loads == 0);
    XV_CANARY("dtor.never_registered");
  } else {
    XV_OBL("qsbr.dtor.releases_record", n_release == 1 && released_cb == &entries[own] && g_td.control_block == 0 && entries[own].state == ST_FREE);
    if (!any) { XV_OBL("qsbr.dtor.hands_over_all", n_orphan_new == 0 && n_abandon == 0); XV_CANARY("dtor.nothing_pending"); }
    else {
      XV_OBL("qsbr.dtor.hands_over_all", n_orphan_new == 1 && n_abandon == 1 && abandoned_obj == &orphan_obj && orphan_obj.o_lists[i] == head0[i] && orphan_obj.next == 0);
      XV_OBL("qsbr.orphans.target_epoch", orphan_target == (in_global + number_epochs - 1) % number_epochs && orphan_target < number_epochs && mon_g_loads == 1);
      XV_CANARY("dtor.orphan");
    }
  }
  XV_OBL("qsbr.conserve", pool[k].next == next0[k] && n_delete == 0 && global_epoch == in_global && mon_g_stores == 0 && mon_g_cas == 0);
}

/* composed: reclaim() on the last guard with the real leave_region -> quiescent_state -> try_update_epoch: the node retired by this very
 * call (and everything else retired in the current local epoch) is not freed by the quiescent state the call itself declares */
void h_g_reclaim_composed(void) {
  havoc_guards();
  int d = nondet_int();
  struct node* obj = mp_get(in_self);
  XV_ASSUME(obj != 0);
  unsigned k0 = (unsigned)(obj - pool); XV_ASSUME(home[k0] == -1);
  XV_ASSUME(near(in_local, in_global));
  unsigned le = in_local;
  qsbr_g_reclaim(&ga, d);
  unsigned l1 = entries[own].local_epoch;
  XV_OBL("qsbr.free.on_reentry", n_delete <= 1 && (n_delete == 0 || (del_arg == &g_td.retire_lists[l1] && l1 == (le + 1) % number_epochs)));
  XV_OBL("qsbr.free.on_reentry", n_delete == 0 || in_entries == 1);
  XV_OBL("qsbr.reclaim.retires_once", (g_td.retire_lists[le] == obj || (n_adopt && adopt_changed[le])) && obj->next == head0[le] && obj->deleter == d && n_retire == 1);
  XV_OBL("qsbr.guard.algebra", ga.ptr == 0 && gb.ptr == in_src);
  check_balance(1 + NZ(in_src), NZ(in_src));
  if (n_delete) XV_CANARY("g_reclaim_composed.freed_next_epoch"); if (in_entries == 1 && !n_delete) XV_CANARY("g_reclaim_composed.blocked");
}
