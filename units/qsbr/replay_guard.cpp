// native replay for qsbr.guard.* : runs every guard_ptr operation of the real quiescent_state_based on the words cbmc found
// (in_self / in_src: marked_ptr words of the harness model: bits 0-1 = mark, rest = 1 + object index; in_entries: nesting depth,
// in_same: self-assignment) and checks the region counter and the guard values.  exit 0 holds / 1 violated / 2 cannot represent
#include <xenium/reclamation/quiescent_state_based.hpp>
#include <cstdio>
#include <cstdlib>
#include <cstring>
#include <map>
#include <string>
#include <vector>
#include <memory>
using namespace xenium::reclamation;
struct Node : quiescent_state_based::enable_concurrent_ptr<Node, 2> { int v = 0; };
using cptr = quiescent_state_based::concurrent_ptr<Node>;
using mptr = cptr::marked_ptr;
using guard = cptr::guard_ptr;
static std::map<std::string, unsigned long long> args;
static Node nodes[8];
static int bad = 0;
static mptr word(unsigned long long w) { unsigned long long k = w >> 2; return mptr(k ? &nodes[(k - 1) % 8] : nullptr, w & 3); }
static unsigned& entries() { return quiescent_state_based::local_thread_data().region_entries; }
#define CHECK(c, what) do { if (!(c)) { printf("VIOLATED %s: %s (region_entries=%u)\n", op, what, entries()); bad++; } } while (0)
static unsigned nz(mptr p) { return p ? 1u : 0u; }

int main(int argc, char** argv) {
  for (int i = 1; i < argc; ++i) { char* eq = strchr(argv[i], '='); if (!eq) continue; args[std::string(argv[i], eq - argv[i])] = strtoull(eq + 1, 0, 0); }
  mptr a = word(args["in_self"]), b = word(args["in_src"]);
  unsigned long long want = args["in_entries"]; unsigned extra = want > nz(a) + nz(b) ? (unsigned)std::min<unsigned long long>(want - nz(a) - nz(b), 3) : 0;
  std::vector<std::unique_ptr<quiescent_state_based::region_guard>> nest;
  for (unsigned i = 0; i < extra; ++i) nest.emplace_back(new quiescent_state_based::region_guard());
  const unsigned base = entries();
  const char* op;
  { op = "ctor"; guard g(a); CHECK(entries() == base + nz(a) && mptr(g) == a, "count / value"); }
  op = "dtor"; CHECK(entries() == base, "count after destructor");
  { op = "copy ctor"; guard s(b); guard g(s); CHECK(entries() == base + 2 * nz(b) && mptr(g) == b && mptr(s) == b, "count / values"); }
  CHECK(entries() == base, "count after destructors");
  { op = "move ctor"; guard s(b); guard g(std::move(s)); CHECK(entries() == base + nz(b) && mptr(g) == b && !mptr(s), "count / values"); }
  CHECK(entries() == base, "count after destructors");
  { op = "copy assign"; guard g(a), s(b); g = s; CHECK(entries() == base + 2 * nz(b) && mptr(g) == b && mptr(s) == b, "count / values"); }
  CHECK(entries() == base, "count after destructors");
  { op = "self copy assign"; guard g(a); guard& r = g; g = r; CHECK(entries() == base + nz(a) && mptr(g) == a, "count / value"); }
  { op = "move assign"; guard g(a), s(b); g = std::move(s); CHECK(entries() == base + nz(b) && mptr(g) == b && !mptr(s), "count / values"); }
  { op = "self move assign"; guard g(a); guard& r = g; g = std::move(r); CHECK(entries() == base + nz(a) && mptr(g) == a, "count / value"); }
  { op = "swap"; guard g(a), s(b); g.swap(s); CHECK(entries() == base + nz(a) + nz(b) && mptr(g) == b && mptr(s) == a, "count / values"); }
  { op = "reset"; guard g(a); g.reset(); CHECK(entries() == base && !mptr(g), "count / value"); g.reset(); CHECK(entries() == base && !mptr(g), "double reset"); }
  { op = "acquire"; cptr src(b); guard g(a); g.acquire(src); CHECK(entries() == base + nz(b) && mptr(g) == b, "count / snapshot"); }
  CHECK(entries() == base, "count after destructors");
  { op = "acquire_if_equal(equal)"; cptr src(b); guard g(a); bool r = g.acquire_if_equal(src, b); CHECK(r && entries() == base + nz(b) && mptr(g) == b, "result / count / value"); }
  { op = "acquire_if_equal(different)"; cptr src(b); guard g(a); mptr other(b.get(), (b.mark() + 1) & 3); bool r = g.acquire_if_equal(src, other); CHECK(!r && entries() == base && !mptr(g), "result / count / value"); }
  CHECK(entries() == base, "count at the end");
  printf("%d violation(s); base nesting %u, self=%p|%lu src=%p|%lu\n", bad, base, (void*)a.get(), (unsigned long)a.mark(), (void*)b.get(), (unsigned long)b.mark());
  nest.clear();
  fflush(stdout);
  _Exit(bad ? 1 : 0);
}
