// native replay for kbq.in_valid.spec / kbq.not_in_valid.spec: calls the real predicates of kirsch_bounded_kfifo_queue on cbmc's inputs
// args: in_to=<tail_old> in_t=<tail_current> in_h=<head_current> [which=0|1]   exit 0 holds, 1 violated
#include <xenium/kirsch_bounded_kfifo_queue.hpp>
#include <cstdio>
#include <cstdlib>
#include <cstring>
#include <map>
#include <string>
int main(int argc, char** argv) {
  std::map<std::string, unsigned long long> a;
  for (int i = 1; i < argc; ++i) { char* eq = strchr(argv[i], '='); if (eq) a[std::string(argv[i], eq - argv[i])] = strtoull(eq + 1, nullptr, 0); }
  std::uint64_t to = a["in_to"], t = a["in_t"], h = a["in_h"];
  xenium::kirsch_bounded_kfifo_queue<int*> q(1, 2);
  bool in_oc = std::uint64_t(to - h) >= 1 && std::uint64_t(to - h) <= std::uint64_t(t - h);     // to in circular (h, t]
  bool in_cc = std::uint64_t(to - h) <= std::uint64_t(t - h);                                   // to in circular [h, t]
  bool r1 = q.in_valid_region(to, t, h), r2 = q.not_in_valid_region(to, t, h);
  int bad = 0;
  printf("tail_old=%llu tail=%llu head=%llu: in_valid_region=%d (circular (head,tail] says %d), not_in_valid_region=%d (outside circular [head,tail] says %d)\n",
         (unsigned long long)to, (unsigned long long)t, (unsigned long long)h, r1, in_oc, r2, !in_cc);
  if (r1 != in_oc) { printf("in_valid_region disagrees with its specification\n"); bad = 1; }
  if (r2 != !in_cc) { printf("not_in_valid_region disagrees with its specification\n"); bad = 1; }
  return bad;
}
