// native replay for the SEQ obligations of unit kbq (kbq.push.reject / kbq.push.stores / kbq.pop.empty / kbq.pop.oldest_segment / kbq.pop.k_oldest /
// kbq.inv.preserved): builds the quiescent state cbmc found on the real kirsch_bounded_kfifo_queue (k, segments, head/tail segment, slot occupancy;
// ages = segment order from head) and runs the real try_push / try_pop 200 times from that state (random() takes whatever values it takes).
// args: in_k in_s in_hs in_ts in_occ op(0 = push, 1 = pop)    exit 0 holds, 1 violated, 2 cannot represent
#include <xenium/kirsch_bounded_kfifo_queue.hpp>
#include <cstdio>
#include <cstdlib>
#include <cstring>
#include <map>
#include <string>
#include <vector>
using Q = xenium::kirsch_bounded_kfifo_queue<int*>;
static std::uint64_t k, S, size;
static std::uint64_t segoff(std::uint64_t hs, std::uint64_t slot) { return (slot / k + S - hs) % S; }
static bool inv(Q& q, std::string& why) {
  std::uint64_t h = q._head.load().get(), t = q._tail.load().get();
  if (h >= size || t >= size || h % k || t % k) { why = "head/tail not on a segment boundary"; return false; }
  std::uint64_t hs = h / k, d = (t / k + S - hs) % S;
  for (std::uint64_t i = 0; i < size; i++) {
    bool nn = q._queue[i].value.load().get() != nullptr; std::uint64_t j = segoff(hs, i);
    if (j > d && nn) { why = "value stored outside [head, tail]"; return false; }
    if (j > 0 && j < d && !nn) { why = "hole in a segment strictly between head and tail"; return false; }
  }
  return true;
}
int main(int argc, char** argv) {
  std::map<std::string, unsigned long long> a;
  for (int i = 1; i < argc; ++i) { char* eq = strchr(argv[i], '='); if (eq) a[std::string(argv[i], eq - argv[i])] = strtoull(eq + 1, nullptr, 0); }
  k = a["in_k"]; S = a["in_s"]; size = k * S; std::uint64_t hs = a["in_hs"], ts = a["in_ts"], occ = a["in_occ"]; int op = (int)a["op"];
  if (k == 0 || S == 0 || size > 64 || hs >= S || ts >= S) { printf("cannot represent k=%llu S=%llu\n", (unsigned long long)k, (unsigned long long)S); return 2; }
  static int items[64], fresh; int bad = 0;
  for (int rep = 0; rep < 200 && !bad; rep++) {
    Q q(k, S);
    q._head.store(Q::marked_idx(hs * k, 7)); q._tail.store(Q::marked_idx(ts * k, 9));
    for (std::uint64_t i = 0; i < size; i++) q._queue[i].value.store(Q::marked_value((occ >> i) & 1 ? &items[i] : nullptr, 3));
    std::string why;
    if (!inv(q, why)) { printf("inputs are not a quiescent state (%s)\n", why.c_str()); for (std::uint64_t i = 0; i < size; i++) q._queue[i].value.store(nullptr); return 2; }
    std::vector<int*> before(size); std::uint64_t n = 0;
    for (std::uint64_t i = 0; i < size; i++) { before[i] = q._queue[i].value.load().get(); n += before[i] != nullptr; }
    if (op == 0) {
      bool r = q.try_push(&fresh);
      std::uint64_t changed = 0, c = 0; for (std::uint64_t i = 0; i < size; i++) if (q._queue[i].value.load().get() != before[i]) { changed++; c = i; }
      if (!r && n < (S - 1) * k + 1) { printf("VIOLATION: try_push rejected with %llu values stored, fewer than (S-1)*k+1 = %llu\n", (unsigned long long)n, (unsigned long long)((S - 1) * k + 1)); bad = 1; }
      if (!r && changed) { printf("VIOLATION: rejected try_push modified the queue\n"); bad = 1; }
      if (r && !(changed == 1 && before[c] == nullptr && q._queue[c].value.load().get() == &fresh)) { printf("VIOLATION: successful try_push did not store the value in exactly one empty slot\n"); bad = 1; }
      if (r && changed == 1 && c / k != q._tail.load().get() / k) { printf("VIOLATION: value stored in slot %llu, which is not in the tail segment\n", (unsigned long long)c); bad = 1; }
    } else {
      int* res = nullptr; bool r = q.try_pop(res);
      std::uint64_t changed = 0, c = 0; for (std::uint64_t i = 0; i < size; i++) if (q._queue[i].value.load().get() != before[i]) { changed++; c = i; }
      if (r != (n != 0)) { printf("VIOLATION: try_pop returned %d with %llu values stored and nothing running concurrently\n", r, (unsigned long long)n); bad = 1; }
      if (r && !(changed == 1 && before[c] == res && q._queue[c].value.load().get() == nullptr)) { printf("VIOLATION: successful try_pop did not empty exactly the slot of the returned value\n"); bad = 1; }
      if (r && changed == 1) {
        std::uint64_t older = 0;
        for (std::uint64_t i = 0; i < size; i++) if (before[i] && segoff(hs, i) < segoff(hs, c)) older++;
        if (older) { printf("VIOLATION: try_pop took slot %llu although %llu values sit in older segments\n", (unsigned long long)c, (unsigned long long)older); bad = 1; }
      }
      if (!r && changed) { printf("VIOLATION: empty try_pop modified a slot\n"); bad = 1; }
    }
    if (!bad && !inv(q, why)) { printf("VIOLATION: representation invariant broken after the operation: %s\n", why.c_str()); bad = 1; }
    for (std::uint64_t i = 0; i < size; i++) q._queue[i].value.store(nullptr);     // the items are not heap objects
  }
  printf("%s from k=%llu S=%llu head segment %llu tail segment %llu occupancy 0x%llx: %s\n", op ? "try_pop" : "try_push", (unsigned long long)k, (unsigned long long)S,
         (unsigned long long)hs, (unsigned long long)ts, (unsigned long long)occ, bad ? "violated" : "holds (200 runs)");
  return bad;
}
