/* lowering differential, C side of unit kbq: the lowered text of the leaf functions of kirsch_bounded_kfifo_queue - marked_idx
 * constructor/get/mark (on the one 64-bit word, as in the unit) and the two valid-region predicates - compiled natively, together
 * with the extracted constants.  The other functions of lowered.h need the cbmc-only stubs of harness.c and are not taken. */
/* lowerdiff-functions: mi_ctor mi_get mi_mark in_valid_region not_in_valid_region */
#include <stdint.h>
#include <stddef.h>
#include <stdbool.h>
#define XV_XASSERT(c) ((void)0)
typedef uint64_t marked_idx;       /* struct marked_idx { uint64_t _val; } : its one word (as in harness.c) */
struct kbq { uint64_t _queue_size; size_t _k; marked_idx _head; marked_idx _tail; };
#define bits XV_BITS               /* marked_idx::bits / val_mask: extracted constants (as in harness.c) */
#define val_mask XV_VAL_MASK

#include "lowered.h"

uint64_t ld_mi_make(uint64_t val, uint64_t mark) { return MI_make(val, mark); }
uint64_t ld_mi_get(uint64_t w) { return MI_get(w); }
uint64_t ld_mi_mark(uint64_t w) { return MI_mark(w); }
/* the predicates do not read the object; it is filled with the given words to show exactly that */
int ld_in_valid_region(uint64_t tail_old, uint64_t tail_current, uint64_t head_current, uint64_t fill) {
  struct kbq q = { fill, (size_t)fill, fill, fill }; return kbq_in_valid_region(&q, tail_old, tail_current, head_current); }
int ld_not_in_valid_region(uint64_t tail_old, uint64_t tail_current, uint64_t head_current, uint64_t fill) {
  struct kbq q = { fill, (size_t)fill, fill, fill }; return kbq_not_in_valid_region(&q, tail_old, tail_current, head_current); }
uint64_t ld_const(int i) { return i == 0 ? (uint64_t)XV_BITS : i == 1 ? (uint64_t)XV_VAL_MASK : i == 2 ? (uint64_t)XV_MI_DEFAULT : ~(uint64_t)0; }
