/* unit kbq - kirsch_bounded_kfifo_queue (C06, ownership part of C07).  Contracts, stubs, ghost state, harnesses only;
 * every function body under contract comes from lowered.h (extracted from the repository on each run). */
#include <stdint.h>
#include <stddef.h>
static void mon_load(void* addr, uint64_t v, int o);
static void mon_cas(void* addr, uint64_t e, uint64_t d, _Bool ok, int o);
static void mon_store(void* addr, uint64_t v, int o);
#define XV_ON_LOAD(addr, val, order) mon_load((void*)(addr), (uint64_t)(val), (order))
#define XV_ON_CAS(addr, e, d, ok, order) mon_cas((void*)(addr), (uint64_t)(e), (uint64_t)(d), (ok), (order))
#define XV_ON_STORE(addr, val, order) mon_store((void*)(addr), (uint64_t)(val), (order))
#include "xv.h"
int xv_threw; uint64_t xv_clock, xv_rmw_old; _Bool xv_cas_ok;
#define XV_EXC_std__invalid_argument 1
#define XV_EXC_std__bad_alloc 2

/* ---- shapes: k in 1..KMAX, segments in 1..SMAX; one cbmc run covers every (k, S) of the box by dispatching on the two inputs ---- */
#ifndef KMAX
#define KMAX 3
#endif
#ifndef SMAX
#define SMAX 3
#endif
#define NMAX (KMAX * SMAX)

/* ---- types ---- */
typedef uint64_t marked_idx;       /* struct marked_idx { uint64_t _val; } : its one word */
typedef uint64_t marked_value;     /* marked_ptr<T,16>: contract of unit mp - 48 pointer bits, 16 mark bits on top, mark trimmed to 16 bits */
typedef uintptr_t value_type, raw_value_type;
#define PTR_BITS 48
#define PTR_MASK ((((uint64_t)1) << PTR_BITS) - 1)
static marked_value MV_make(uint64_t p, uint64_t mark) { return p | (mark << PTR_BITS); }
static uint64_t MV_get(marked_value v) { return v & PTR_MASK; }
static uint64_t MV_mark(marked_value v) { return v >> PTR_BITS; }
struct entry { marked_value value; };
struct kbq { uint64_t _queue_size; size_t _k; marked_idx _head; marked_idx _tail; struct entry _queue[NMAX]; };
#define bits XV_BITS
#define val_mask XV_VAL_MASK
#define TAG_MASK (~(uint64_t)0 >> XV_BITS)

/* ---- utils::random(): an arbitrary value on every call ---- */
static uint64_t xv_random(void) { return nondet_u64(); }

/* ---- pointer_queue_traits: ghost ownership ---- */
unsigned g_released, g_stored; raw_value_type g_track;
static raw_value_type TR_get_raw(value_type v) { return v; }
static void TR_release(value_type v) { g_released++; }
#define TR_store(target, raw) do { (target) = (raw); g_stored++; } while (0)
_Bool g_del_once, g_del_twice;   /* delete_value(nullptr) is a no-op; flags instead of counters: cheaper for the solver */
static void TR_delete_value(raw_value_type raw) { if (raw != 0 && raw == g_track) { if (g_del_once) g_del_twice = 1; g_del_once = 1; } }

/* ---- constructor pieces ---- */
#define ALLOC_MAX (((uint64_t)1) << 59)      /* operator new[] of more than 2^63 bytes fails */
uint64_t g_alloc_n; unsigned g_allocs, g_queue_inits;
static uint64_t xv_new_entries(uint64_t n) { if (n > ALLOC_MAX) { xv_threw = XV_EXC_std__bad_alloc; return 0; } g_alloc_n = n; g_allocs++; return 1; }
#define XV_NEW_ENTRIES(self, n) xv_new_entries(n)
#define XV_INIT__queue_size(self, v) ((self)->_queue_size = (v))
#define XV_INIT__k(self, v) ((self)->_k = (v))
#define XV_INIT__head(self, v) ((self)->_head = XV_MI_DEFAULT)      /* marked_idx() = default; uint64_t _val = <XV_MI_DEFAULT, read from the header> */
#define XV_INIT__tail(self, v) ((self)->_tail = XV_MI_DEFAULT)
/* a 64-bit division in the constructor (the wrap-around test of the repaired constructor): evaluated once, result remembered, so that the
 * obligation can refer to this very quotient (cbmc cannot prove facts about 64x64-bit products; see kbq.ctor.size) */
uint64_t g_div_a, g_div_b, g_div_q; unsigned g_div_n;
static uint64_t XV_UDIV(uint64_t a, uint64_t b) { g_div_a = a; g_div_b = b; g_div_q = a / b; g_div_n++; return g_div_q; }
static void xv_init_queue(uint64_t tok) { if (tok) g_queue_inits++; }
#define XV_INIT__queue(self, ...) xv_init_queue(__VA_ARGS__ + 0)      /* _queue() (empty unique_ptr) or _queue(new entry[n]()) / _queue.reset(new entry[n]()) */
#define XENIUM_VERIF_POINT(id) ((void)0)                               /* replay hook of instrumented trees: no effect */

/* ---- pop(): std::optional<value_type> is a {present, value} pair; traits::get(raw) wraps the raw pointer into a value_type (counted) ---- */
struct xv_opt { _Bool present; value_type v; };
#define XV_NULLOPT ((struct xv_opt){0, 0})
unsigned g_got;
static value_type TR_get(raw_value_type raw) { g_got++; return raw; }
static value_type kbq_opt_success(marked_value* v_p);
static struct xv_opt kbq_opt_empty(void);
/* ---- do_pop is instantiated with the two lambdas of try_pop ---- */
static _Bool kbq_pop_success(value_type* result_p, marked_value* v_p);
static _Bool kbq_pop_empty(void);
#define XV_SUCCESSFUNC(v) kbq_pop_success(result_p, &(v))
#define XV_EMPTYFUNC() kbq_pop_empty()

/* ---- callees of try_push / do_pop: the real text (default; all SEQ runs), or - XV_STUB, for the INT validation runs - a recording stub
 * that lets the environment run and returns an arbitrary answer within the callee's contract ---- */
struct kbq;
#ifdef XV_STUB
static _Bool rec_find_index_E(struct kbq* self, uint64_t start, uint64_t* idx_p, uint64_t* old_p);
static _Bool rec_find_index_N(struct kbq* self, uint64_t start, uint64_t* idx_p, uint64_t* old_p);
static _Bool rec_queue_full(struct kbq* self, uint64_t h, uint64_t t);
static _Bool rec_segment_empty(struct kbq* self, uint64_t h);
static _Bool rec_committed(struct kbq* self, uint64_t t, uint64_t v, uint64_t idx);
#define CALL_find_index_E rec_find_index_E
#define CALL_find_index_N rec_find_index_N
#define CALL_queue_full rec_queue_full
#define CALL_segment_empty rec_segment_empty
#define CALL_committed rec_committed
#else
#define CALL_find_index_E kbq_find_index_E
#define CALL_find_index_N kbq_find_index_N
#define CALL_queue_full kbq_queue_full
#define CALL_segment_empty kbq_segment_empty
#define CALL_committed kbq_committed
#endif

/* loop cut of the retry loops (INT validation runs): one arbitrary iteration; the monitors restart at the loop head */
static void iter_reset(struct kbq* self);
#define XV_INV_PUSH 1
#define XV_HAVOC_PUSH iter_reset(self) /* havocs _head, _tail, every _queue[idx].value */
#define XV_INV_POP 1
#define XV_HAVOC_POP iter_reset(self) /* havocs _head, _tail, every _queue[idx].value */

/* ---- monitors ---- */
struct kbq* mon_q;
#define NPROBE 16
unsigned mon_nprobe; uint64_t mon_probe[NPROBE];
_Bool mon_adv_ok = 1, mon_plain_store;
/* slot CAS log (last), head/tail access log */
unsigned mon_slot_cas_ok_n, mon_slot_cas_n; uint64_t mon_slot_cas_idx, mon_slot_cas_e, mon_slot_cas_d, mon_slot_cas_clock; int mon_slot_cas_order; _Bool mon_slot_cas_ok;
uint64_t mon_tail_first, mon_tail_last, mon_tail_last_clock, mon_head_first, mon_head_last, mon_head_last_clock; unsigned mon_tail_loads, mon_head_loads;
unsigned mon_tail_cas_n, mon_head_cas_n; uint64_t mon_tail_cas_e, mon_tail_cas_d, mon_tail_cas_clock, mon_head_cas_e, mon_head_cas_d; _Bool mon_head_cas_ok;
static uint64_t MI_get(marked_idx), MI_mark(marked_idx); static marked_idx MI_make(uint64_t, uint64_t);
static void env_own_cas(void* addr, uint64_t e, uint64_t d, _Bool ok);
static long slot_of(void* addr) {
  if (!__CPROVER_same_object(addr, mon_q)) return -1;
  size_t off = __CPROVER_POINTER_OFFSET(addr);
  if (off < offsetof(struct kbq, _queue)) return -1;
  return (long)((off - offsetof(struct kbq, _queue)) / sizeof(struct entry));
}
_Bool mon_probes_on, mon_log_on, mon_scan_weak;       /* which recordings a harness needs (constants: unused recordings vanish from the formula) */
unsigned e_pair_loads;       /* loads of _head/_tail seen so far (for the snapshot split of committed_int) */
static void mon_load(void* addr, uint64_t v, int o) {
  if (addr == (void*)&mon_q->_tail || addr == (void*)&mon_q->_head) e_pair_loads++;
  if (mon_probes_on) { long s = slot_of(addr); if (s >= 0) { if (!XV_IS_ACQUIRE(o)) mon_scan_weak = 1; if (mon_nprobe < NPROBE) mon_probe[mon_nprobe] = (uint64_t)s; mon_nprobe++; } }
  if (!mon_log_on) return;
  if (addr == (void*)&mon_q->_tail) { if (!mon_tail_loads) mon_tail_first = v; mon_tail_last = v; mon_tail_last_clock = xv_clock; mon_tail_loads++; }
  if (addr == (void*)&mon_q->_head) { if (!mon_head_loads) mon_head_first = v; mon_head_last = v; mon_head_last_clock = xv_clock; mon_head_loads++; }
}
static void mon_store(void* addr, uint64_t v, int o) { mon_plain_store = 1; }

#include "lowered.h"

/* kbq.advance.by_k: head/tail change only by CAS, to (index+k mod size, tag+1) or - head only, in committed - to (index, tag+1) */
static void mon_cas(void* addr, uint64_t e, uint64_t d, _Bool ok, int o) {
#ifdef XV_INT
  env_own_cas(addr, e, d, ok);
#endif
  if (addr == (void*)&mon_q->_head || addr == (void*)&mon_q->_tail) {
    uint64_t adv = MI_get(e) + mon_q->_k; if (adv >= mon_q->_queue_size) adv -= mon_q->_queue_size;
    _Bool moved = MI_get(d) == adv, bumped = MI_get(d) == MI_get(e) && addr == (void*)&mon_q->_head;
    if (!((moved || bumped) && MI_mark(d) == ((MI_mark(e) + 1) & TAG_MASK))) mon_adv_ok = 0;
  }
  if (!mon_log_on) return;
  long s = slot_of(addr);
  if (s >= 0) { mon_slot_cas_n++; if (ok) mon_slot_cas_ok_n++; mon_slot_cas_idx = (uint64_t)s; mon_slot_cas_e = e; mon_slot_cas_d = d; mon_slot_cas_ok = ok; mon_slot_cas_order = o; mon_slot_cas_clock = xv_clock; }
  if (addr == (void*)&mon_q->_tail) { mon_tail_cas_n++; mon_tail_cas_e = e; mon_tail_cas_d = d; mon_tail_cas_clock = xv_clock; }
  if (addr == (void*)&mon_q->_head) { mon_head_cas_n++; mon_head_cas_e = e; mon_head_cas_d = d; mon_head_cas_ok = ok; }
}
static void mon_reset(struct kbq* q) {
  mon_q = q; mon_probes_on = 0; mon_log_on = 0; mon_scan_weak = 0; mon_nprobe = 0; mon_adv_ok = 1; mon_plain_store = 0; mon_slot_cas_ok_n = 0; mon_slot_cas_n = 0; mon_tail_loads = 0; mon_head_loads = 0;
  mon_tail_cas_n = 0; mon_head_cas_n = 0; g_released = 0; g_stored = 0; g_del_once = 0; g_del_twice = 0; xv_threw = 0; xv_clock = 0;
}

/* =====================================================================================================
 * pure obligations: index word, valid-region predicates
 * ===================================================================================================== */
uint64_t in_v, in_m, in_k, in_s, in_to, in_t, in_h;

/* kbq.idx.roundtrip + kbq.ctor.*: run the real constructor on every (k >= 1, num_segments >= 1); if it accepts (no exception, allocation
 * possible), every index v < _queue_size - that is every value the operations can store in _head/_tail - must survive marked_idx. */
void h_ctor(void) {
  struct kbq q; mon_reset(&q); g_allocs = 0; g_queue_inits = 0; g_alloc_n = nondet_u64(); g_div_n = 0;
  q._queue_size = nondet_u64(); q._k = nondet_size(); q._head = nondet_u64(); q._tail = nondet_u64();
  in_k = nondet_u64(); in_s = nondet_u64(); in_v = nondet_u64(); in_m = nondet_u64();
  /* no precondition: k = 0 and num_segments = 0 must be REJECTED (an accepted queue without slots divides by zero in every operation) */
#ifdef XV_TRACE_SMALL
  XV_ASSUME(in_k <= 1024 && in_s <= 70000);      /* counterexample extraction only: the replay allocates the queue */
#endif
  kbq_ctor(&q, in_k, in_s);
  if (xv_threw) { XV_CANARY("ctor.rejected"); return; }
  /* _queue_size == k*num_segments without wrap-around  <=>  (k*num_segments mod 2^64) / k == num_segments; the constructor must have made exactly this test */
  XV_OBL("kbq.ctor.size", in_k >= 1 && in_s >= 1);            /* "every segment count the constructor accepts" has at least one slot */
  XV_OBL("kbq.ctor.size", q._queue_size >= 1 && g_div_n == 1 && g_div_a == q._queue_size && g_div_b == in_k && g_div_q == in_s);
  XV_OBL("kbq.ctor.state", q._k == in_k && q._head == 0 && q._tail == 0 && g_allocs == 1 && g_queue_inits == 1 && g_alloc_n == q._queue_size);
  if (in_v < q._queue_size) {
    marked_idx w = MI_make(in_v, in_m);
    XV_OBL("kbq.idx.roundtrip", MI_get(w) == in_v);
    XV_OBL("kbq.idx.roundtrip", MI_mark(w) == (in_m & TAG_MASK));
    XV_OBL("kbq.idx.roundtrip", MI_make(in_v, in_m) != MI_make(in_v, in_m + 1));
    if (in_v >= 65536) XV_CANARY("ctor.large_index");
    XV_CANARY("ctor.accepted");
  }
  if (in_k == 1 && in_s == 1) XV_CANARY("ctor.one_by_one");
}

/* circular position of x when walking forward from h on the ring of all 64-bit values (for indices below any queue size the
 * circular order of three points is the same on the ring of that size) */
static uint64_t ring_dist(uint64_t from, uint64_t x) { return x - from; }
void h_in_valid(void) {
  in_to = nondet_u64(); in_t = nondet_u64(); in_h = nondet_u64();
  _Bool r = kbq_in_valid_region((struct kbq*)0, in_to, in_t, in_h);
  _Bool spec = ring_dist(in_h, in_to) >= 1 && ring_dist(in_h, in_to) <= ring_dist(in_h, in_t);       /* to in (h, t] */
  XV_OBL("kbq.in_valid.spec", r == spec);
  if (r && in_t < in_h) XV_CANARY("in_valid.wrap_true");
  if (!r && in_t < in_h) XV_CANARY("in_valid.wrap_false");
  if (r && in_t >= in_h) XV_CANARY("in_valid.nowrap_true");
}
void h_not_in_valid(void) {
  in_to = nondet_u64(); in_t = nondet_u64(); in_h = nondet_u64();
  _Bool r = kbq_not_in_valid_region((struct kbq*)0, in_to, in_t, in_h);
  _Bool spec = !(ring_dist(in_h, in_to) <= ring_dist(in_h, in_t));                                    /* to not in [h, t] */
  XV_OBL("kbq.not_in_valid.spec", r == spec);
  if (spec && in_t < in_h) XV_CANARY("not_in_valid.wrap_outside");
  if (!spec && in_t < in_h) XV_CANARY("not_in_valid.wrap_inside");
  if (spec && in_t >= in_h) XV_CANARY("not_in_valid.nowrap_outside");
}

/* =====================================================================================================
 * shape dispatch + representation invariant of quiescent states
 * ===================================================================================================== */
#ifndef KLO
#define KLO 1
#endif
#ifndef SMASK
#define SMASK (~0u)
#endif
#define FOR_SHAPES(call) do { in_k = nondet_u64(); in_s = nondet_u64(); \
  for (unsigned k_ = KLO; k_ <= KMAX; k_++) for (unsigned S_ = 1; S_ <= SMAX; S_++) if (((SMASK >> S_) & 1) && in_k == k_ && in_s == S_) { call; } } while (0)

uint64_t g_age[NMAX], g_next_age, in_hs, in_ts, in_occ;      /* in_*: the quiescent state, for the native replay */
static void havoc_shape(struct kbq* q, uint64_t k, uint64_t S) {
  q->_k = k; q->_queue_size = k * S;
  uint64_t hs = nondet_u64(), ts = nondet_u64(); XV_ASSUME(hs < S && ts < S);
  uint64_t htag = nondet_u64(), ttag = nondet_u64(); XV_ASSUME(htag <= TAG_MASK && ttag <= TAG_MASK);
  q->_head = (hs * k) | (htag << XV_BITS); q->_tail = (ts * k) | (ttag << XV_BITS);
  for (unsigned i = 0; i < NMAX; i++) { q->_queue[i].value = nondet_u64(); g_age[i] = nondet_u64(); }
  in_hs = hs; in_ts = ts; in_occ = 0; for (unsigned i = 0; i < NMAX; i++) if (i < k * S && MV_get(q->_queue[i].value) != 0) in_occ |= ((uint64_t)1) << i;
  g_next_age = nondet_u64(); XV_ASSUME(g_next_age < (((uint64_t)1) << 63));      /* fewer than 2^63 pushes in the life of a queue (ghost counter) */
}
/* segment number of a head/tail position; S if the position is not a segment boundary inside the array */
static uint64_t seg_of_pos(uint64_t pos, uint64_t k, uint64_t S) { for (uint64_t s = 0; s < S; s++) if (pos == s * k) return s; return S; }
/* walking distance on the ring of n positions */
static uint64_t ring_off(uint64_t from, uint64_t x, uint64_t n) { return x >= from ? x - from : x + n - from; }
/* quiescent representation invariant:  head, tail on segment boundaries; with d = segments from head to tail: slots of segments beyond d are empty,
 * segments strictly between head and tail are full; ages (ghost insertion order) are distinct and increase from segment to segment */
#define RING_OFF(from, x, n) ((x) >= (from) ? (x) - (from) : (x) + (n) - (from))
static _Bool inv(struct kbq* q, uint64_t k, uint64_t S) {     /* written without branches: cheaper for symbolic execution */
  uint64_t size = k * S, hs = seg_of_pos(q->_head & XV_VAL_MASK, k, S), ts = seg_of_pos(q->_tail & XV_VAL_MASK, k, S);
  _Bool ok = (q->_k == k) & (q->_queue_size == size) & (hs < S) & (ts < S);
  uint64_t d = RING_OFF(hs, ts, S);
  for (unsigned i = 0; i < NMAX; i++) if (i < size) {
    uint64_t j = RING_OFF(hs, i / k, S); _Bool nn = (q->_queue[i].value & PTR_MASK) != 0;
    ok &= !((j > d) & nn) & !((j > 0) & (j < d) & !nn) & (!nn | (g_age[i] < g_next_age));
    for (unsigned i2 = 0; i2 < NMAX; i2++) if (i2 < size && i2 != i) {
      _Bool both = nn & ((q->_queue[i2].value & PTR_MASK) != 0); uint64_t j2 = RING_OFF(hs, i2 / k, S);
      ok &= !both | ((g_age[i] != g_age[i2]) & (!(j < j2) | (g_age[i] < g_age[i2])));
    }
  }
  return ok;
}
static unsigned count(struct kbq* q, uint64_t size) { unsigned n = 0; for (unsigned i = 0; i < NMAX; i++) if (i < size && MV_get(q->_queue[i].value) != 0) n++; return n; }

/* =====================================================================================================
 * find_index: covers the segment, finds a matching slot iff there is one
 * ===================================================================================================== */
uint64_t in_start;
static void find_index_case(uint64_t k, uint64_t S, _Bool empty) {
  struct kbq q; havoc_shape(&q, k, S); mon_reset(&q); mon_probes_on = 1;
  uint64_t size = k * S; in_start = nondet_u64(); XV_ASSUME(in_start < size);
  uint64_t idx = nondet_u64(), idx0 = idx; marked_value old = nondet_u64();
  _Bool r = empty ? kbq_find_index_E(&q, in_start, &idx, &old) : kbq_find_index_N(&q, in_start, &idx, &old);
  unsigned n = mon_nprobe;
  /* the probes: pairwise distinct, all inside [start, start+k) mod size */
  unsigned a = nondet_uint(), b = nondet_uint();
  XV_OBL("kbq.find_index.covers", n >= 1 && n <= k);
  if (a < n) XV_OBL("kbq.find_index.covers", mon_probe[a] < size && ring_off(in_start, mon_probe[a], size) < k);
  if (a < b && b < n) XV_OBL("kbq.find_index.covers", mon_probe[a] != mon_probe[b]);
  if (!r) XV_OBL("kbq.find_index.covers", n == k);
  XV_OBL("kbq.sync.scan_acquire", !mon_scan_weak);
  /* result */
  if (r) {
    XV_OBL("kbq.find_index.result", idx < size && ring_off(in_start, idx, size) < k && old == q._queue[idx].value && (MV_get(old) == 0) == empty);
    XV_CANARY("find_index.found");
    if (n == k) XV_CANARY("find_index.found_last");
  } else {
    uint64_t j = nondet_u64(); XV_ASSUME(j < k);
    uint64_t sl = in_start + j; if (sl >= size) sl -= size;
    XV_OBL("kbq.find_index.result", idx == idx0 && (MV_get(q._queue[sl].value) == 0) != empty);
    XV_CANARY("find_index.none");
  }
}
void h_find_index_E(void) { FOR_SHAPES(find_index_case(k_, S_, 1)); }
void h_find_index_N(void) { FOR_SHAPES(find_index_case(k_, S_, 0)); }


/* kbq.segment_empty.spec: true iff every slot of the head segment is empty (no interference) */
static void segment_empty_case(uint64_t k, uint64_t S) {
  struct kbq q; havoc_shape(&q, k, S); mon_reset(&q); mon_probes_on = 1;
  uint64_t size = k * S, hs = nondet_u64(), tag = nondet_u64(); XV_ASSUME(hs < S && tag <= TAG_MASK);
  marked_idx h = (hs * k) | (tag << XV_BITS);
  _Bool r = kbq_segment_empty(&q, h);
  _Bool all_empty = 1;
  for (unsigned j = 0; j < KMAX; j++) if (j < k && MV_get(q._queue[hs * k + j].value) != 0) all_empty = 0;
  XV_OBL("kbq.segment_empty.spec", r == all_empty);
  XV_OBL("kbq.sync.scan_acquire", !mon_scan_weak);
  if (r) XV_CANARY("segment_empty.true"); else XV_CANARY("segment_empty.false");
}
void h_segment_empty(void) { FOR_SHAPES(segment_empty_case(k_, S_)); }


/* =====================================================================================================
 * SEQ refinement: one operation from ANY quiescent state satisfying inv (all callees are the real text)
 * ===================================================================================================== */
uint64_t in_value;
static void snapshot(struct kbq* q, struct kbq* o) { *o = *q; }
static void push_case(uint64_t k, uint64_t S) {
  struct kbq q, o; havoc_shape(&q, k, S); mon_reset(&q); XV_ASSUME(inv(&q, k, S));
  uint64_t size = k * S; unsigned n = count(&q, size);
  in_value = nondet_u64(); XV_ASSUME(in_value != 0 && in_value <= PTR_MASK);
  snapshot(&q, &o);
  _Bool r = kbq_try_push(&q, in_value);
  XV_OBL("kbq.push.reject", !xv_threw);
  unsigned changed = 0, c = 0;
  for (unsigned i = 0; i < NMAX; i++) if (i < size && q._queue[i].value != o._queue[i].value) { changed++; c = i; }
  if (!r) {
    /* rejects only if at least (S-1)*k+1 values are stored (so never on an empty queue); nothing changes, the value stays with the caller */
    XV_OBL("kbq.push.reject", n >= (S - 1) * k + 1);
    XV_OBL("kbq.push.reject", changed == 0 && q._head == o._head && q._tail == o._tail && g_released == 0);
    XV_CANARY("push.rejected");
  } else {
    XV_OBL("kbq.push.stores", changed == 1 && MV_get(o._queue[c].value) == 0 && q._queue[c].value == MV_make(in_value, MV_mark(o._queue[c].value) + 1));
    XV_OBL("kbq.push.stores", g_released == 1);
    /* the new item sits in the (new) tail segment and is the youngest */
    uint64_t ts = seg_of_pos(q._tail & XV_VAL_MASK, k, S);
    XV_OBL("kbq.push.stores", ts < S && c / k == ts);
    g_age[c] = g_next_age; g_next_age++;
    XV_OBL("kbq.inv.preserved", inv(&q, k, S));
    if (q._tail != o._tail) XV_CANARY("push.advanced_tail");
    if (q._head != o._head && MI_get(q._head) != MI_get(o._head)) XV_CANARY("push.advanced_head");
    if (q._head != o._head && MI_get(q._head) == MI_get(o._head)) XV_CANARY("push.bumped_head");
    if (n == 0) XV_CANARY("push.on_empty");
  }
  XV_OBL("kbq.advance.by_k", mon_adv_ok && !mon_plain_store);
  XV_OBL("kbq.inv.preserved", q._k == k && q._queue_size == size);
}
void h_push(void) { FOR_SHAPES(push_case(k_, S_)); }

void h_push_null(void) {
  struct kbq q, o; in_k = nondet_u64(); in_s = nondet_u64(); XV_ASSUME(in_k >= 1 && in_k <= KMAX && in_s >= 1 && in_s <= SMAX);
  havoc_shape(&q, in_k, in_s); mon_reset(&q); mon_log_on = 1; snapshot(&q, &o);
  _Bool r = kbq_try_push(&q, 0);
  XV_OBL("kbq.push.reject", xv_threw == XV_EXC_std__invalid_argument && g_released == 0 && mon_slot_cas_n == 0 && mon_head_cas_n == 0 && mon_tail_cas_n == 0);
  XV_CANARY("push.null");
}

value_type in_res0;
static void pop_case(uint64_t k, uint64_t S) {
  struct kbq q, o; havoc_shape(&q, k, S); mon_reset(&q); XV_ASSUME(inv(&q, k, S));
  uint64_t size = k * S; unsigned n = count(&q, size);
  in_res0 = nondet_uptr(); value_type res = in_res0;
  snapshot(&q, &o);
  _Bool r = kbq_do_pop(&q, &res);
  unsigned changed = 0, c = 0;
  for (unsigned i = 0; i < NMAX; i++) if (i < size && q._queue[i].value != o._queue[i].value) { changed++; c = i; }
  XV_OBL("kbq.pop.empty", r == (n != 0));
  if (!r) {
    XV_OBL("kbq.pop.empty", changed == 0 && res == in_res0 && g_stored == 0);
    XV_CANARY("pop.empty");
    if (q._head != o._head) XV_CANARY("pop.empty_after_advancing");
  } else {
    XV_OBL("kbq.pop.oldest_segment", changed == 1 && MV_get(o._queue[c].value) != 0 && q._queue[c].value == MV_make(0, MV_mark(o._queue[c].value) + 1));
    XV_OBL("kbq.pop.oldest_segment", res == MV_get(o._queue[c].value) && g_stored == 1);
    /* c lies in the oldest non-empty segment: every segment before it (walking from the old head) was empty */
    uint64_t hs = seg_of_pos(o._head & XV_VAL_MASK, k, S), jc = ring_off(hs, c / k, S); unsigned older = 0;
    for (unsigned i = 0; i < NMAX; i++) if (i < size && MV_get(o._queue[i].value) != 0) {
      XV_OBL("kbq.pop.oldest_segment", ring_off(hs, i / k, S) >= jc);
      if (g_age[i] < g_age[c]) older++;
    }
    XV_OBL("kbq.pop.k_oldest", older < k);
    if (older > 0 || k == 1) XV_CANARY("pop.not_the_oldest");      /* k == 1: strict FIFO, nothing older can exist */
    if (q._tail != o._tail) XV_CANARY("pop.advanced_tail");
    if (q._head != o._head) XV_CANARY("pop.advanced_head");
  }
  XV_OBL("kbq.inv.preserved", inv(&q, k, S));
  XV_OBL("kbq.advance.by_k", mon_adv_ok && !mon_plain_store);
}
void h_pop(void) { FOR_SHAPES(pop_case(k_, S_)); }

/* the freshly constructed queue satisfies inv (all slots value-initialised: null) */
static void init_case(uint64_t k, uint64_t S) {
  struct kbq q; havoc_shape(&q, k, S); q._head = XV_MI_DEFAULT; q._tail = XV_MI_DEFAULT;
  for (unsigned i = 0; i < NMAX; i++) q._queue[i].value = 0;
  XV_OBL("kbq.inv.preserved", inv(&q, k, S));
  XV_CANARY("init.reached");
}
void h_init(void) { FOR_SHAPES(init_case(k_, S_)); }

/* C07: the destructor destroys every value still inside exactly once (values are distinct objects; any slot contents, inv not needed) */
static void dtor_case(uint64_t k, uint64_t S) {
  struct kbq q; havoc_shape(&q, k, S); mon_reset(&q);
  uint64_t size = k * S; g_track = nondet_uptr(); XV_ASSUME(g_track != 0);
  /* g_track is any object: either it is stored in exactly one slot j (stored values are distinct objects), or in none */
  _Bool stored = nondet_bool(); uint64_t j = nondet_u64(); XV_ASSUME(j < size);
  for (unsigned i = 0; i < NMAX; i++) if (i < size) XV_ASSUME((MV_get(q._queue[i].value) == g_track) == (stored && i == j));
  kbq_dtor(&q);
  XV_OBL("kbq.dtor.each_once", g_del_once == stored && !g_del_twice);
  if (stored) XV_CANARY("dtor.tracked"); else XV_CANARY("dtor.not_stored");
}
void h_dtor(void) { FOR_SHAPES(dtor_case(k_, S_)); }

/* =====================================================================================================
 * INT: committed() while other threads keep working  (kbq.push.commit, kbq.committed.withdrawn)
 *
 * Ghost view of the other threads (the rely, stated in unit.py): logical positions e_GH <= e_GT (multiples of k, tail at most S-1 segments
 * ahead), physical index = logical mod size; tags only grow and change whenever the index moves.  e_P/e_idx/e_item: the segment, slot and
 * word the pusher has inserted.  e_taken: some consumer has replaced the word.  e_can_adv: a head advance that scanned the head segment
 * BEFORE the item was inserted is still pending and succeeds if the head word is unchanged (this is the race committed() exists for).
 * Head leaves a segment only if its scan found the segment empty: while the item is in its slot, head may leave segment e_P only through such
 * a pending stale advance.  One environment step is the transitive closure of these moves (any number of operations of other threads).
 * ===================================================================================================== */
#ifdef XV_INT
typedef unsigned char u8;
_Bool e_on, e_arbitrary, e_taken, e_withdrawn, e_can_adv; u8 e_hs, e_ts, e_Ps, e_S; uint64_t e_htag, e_ttag, e_idx, e_k; marked_value e_item; struct kbq* e_q;
#define E_BOUND (TAG_MASK >> 1)               /* tags do not wrap during one call */
static void env_own_cas(void* addr, uint64_t e, uint64_t d, _Bool ok) {
  if (!e_on || e_arbitrary || !ok) return;
  if (addr == (void*)&e_q->_head) { e_htag = MI_mark(d); if (!e_taken && !e_withdrawn) e_can_adv = 0; }   /* the head word changed: pending stale advances now fail */
  if (addr == (void*)&e_q->_queue[e_idx].value) e_withdrawn = 1;                                            /* own CAS removed the item again */
}
void xv_env(void) {
  if (!e_on) return;
#ifdef XV_ATOMIC_SNAPSHOT
  /* run committed_int: the (tail, head) pair committed() reads is taken as an atomic snapshot: no environment step between the two loads.
   * The split-snapshot case (an environment step between them) is run committed_int_split: obligation kbq.push.commit_split_snapshot,
   * a known finding (F12b) - see known_findings.json. */
  if (e_pair_loads == 1) return;
#endif
  struct kbq* q = e_q;
  if (e_arbitrary) {            /* validation runs: no rely beyond "head and tail hold indices inside the array" */
    q->_head = nondet_u64(); q->_tail = nondet_u64(); XV_ASSUME(MI_get(q->_head) < q->_queue_size && MI_get(q->_tail) < q->_queue_size);
    for (unsigned i = 0; i < NMAX; i++) q->_queue[i].value = nondet_u64();
    return;
  }
  /* head moves a segments forward, tail b segments; only a mod S, b mod S and how often head passes segment e_Ps matter, so a < 3S loses nothing */
  u8 S = e_S, a = nondet_uchar(), b = nondet_uchar(), d = RING_OFF(e_hs, e_ts, S), off = RING_OFF(e_hs, e_Ps, S);
  uint64_t nht = nondet_u64(), ntt = nondet_u64(); _Bool ntaken = nondet_bool(), ncan = nondet_bool();
  XV_ASSUME(a < 3 * S && b < 4 * S && d + b >= a && d + b - a <= S - 1);       /* tail stays 0..S-1 segments ahead of head */
  XV_ASSUME(nht >= e_htag && ntt >= e_ttag && nht < E_BOUND && ntt < E_BOUND && (a == 0 || nht > e_htag) && (b == 0 || ntt > e_ttag));
  _Bool present = !e_taken && !e_withdrawn;
  XV_ASSUME(!e_taken || ntaken);
  if (present && !ntaken) {
    XV_ASSUME(!(a > off) || (off == 0 && e_can_adv));                           /* head leaves e_Ps only by a stale pending advance */
    XV_ASSUME(!(a > off + S));                                                  /* ... and at most once */
    _Bool hchanged = a != 0 || nht != e_htag;
    XV_ASSUME(ncan == (hchanged ? 0 : e_can_adv));
  }
  e_hs = (u8)((e_hs + a) % S); e_ts = (u8)((e_ts + b) % S); e_htag = nht; e_ttag = ntt; e_can_adv = ncan;
  q->_head = MI_make((uint64_t)e_hs * e_k, nht); q->_tail = MI_make((uint64_t)e_ts * e_k, ntt);
  /* committed() touches no other slot than e_idx: the others keep their arbitrary initial contents */
  if (present && ntaken) { marked_value nv = nondet_u64(); XV_ASSUME(nv != e_item); q->_queue[e_idx].value = nv; e_taken = 1; }
  else if (!present) { marked_value nv = nondet_u64(); XV_ASSUME(nv != e_item); q->_queue[e_idx].value = nv; }      /* marks only grow: the word does not come back */
}
static void committed_case(uint64_t k, uint64_t S) {
  struct kbq q; uint64_t size = k * S; q._k = k; q._queue_size = size; mon_reset(&q);
  e_q = &q; e_k = k; e_S = (u8)S; e_arbitrary = 0; e_withdrawn = 0;
  e_hs = nondet_uchar(); e_ts = nondet_uchar(); e_Ps = nondet_uchar(); e_htag = nondet_u64(); e_ttag = nondet_u64(); e_taken = nondet_bool(); e_can_adv = nondet_bool();
  XV_ASSUME(e_hs < S && e_ts < S && e_Ps < S && e_htag < E_BOUND && e_ttag < E_BOUND);
  q._head = MI_make(e_hs * k, e_htag); q._tail = MI_make(e_ts * k, e_ttag);
  uint64_t po = nondet_u64(), totag = nondet_u64(), v = nondet_u64(), m = nondet_u64();
  XV_ASSUME(po < k && totag <= TAG_MASK && v != 0 && v <= PTR_MASK && m <= 0xffff);
  uint64_t P = e_Ps * k; e_idx = P + po; e_item = MV_make(v, m);
  for (unsigned i = 0; i < NMAX; i++) q._queue[i].value = nondet_u64();
  if (e_taken) XV_ASSUME(q._queue[e_idx].value != e_item); else q._queue[e_idx].value = e_item;
  marked_idx tail_old = MI_make(P, totag);
  e_on = 1; e_pair_loads = 0;
  _Bool r = kbq_committed(&q, tail_old, e_item, e_idx);
  e_on = 0;
  XV_OBL("kbq.committed.withdrawn", !(e_taken && e_withdrawn));
  if (r) {
    /* true only if a consumer took the value, or the item is in its slot, its segment is inside the circular region [head, tail], and no head
     * advance that missed the item can still succeed */
    _Bool in_region = RING_OFF(e_hs, e_Ps, S) <= RING_OFF(e_hs, e_ts, S);
#ifdef XV_ATOMIC_SNAPSHOT
    XV_OBL("kbq.push.commit", e_taken || (!e_withdrawn && q._queue[e_idx].value == e_item && in_region && !(e_Ps == e_hs && e_can_adv)));
#else
    XV_OBL("kbq.push.commit_split_snapshot", e_taken || (!e_withdrawn && q._queue[e_idx].value == e_item && in_region && !(e_Ps == e_hs && e_can_adv)));
#endif
    if (e_taken) XV_CANARY("committed.taken"); else if (e_Ps == e_hs) XV_CANARY("committed.at_head"); else XV_CANARY("committed.inside");
  } else {
    /* false only after withdrawing the item itself: it was not delivered to anybody */
    XV_OBL("kbq.committed.withdrawn", e_withdrawn && !e_taken && q._queue[e_idx].value == MV_make(0, m + 1));
    XV_CANARY("committed.withdrawn");
  }
  XV_OBL("kbq.advance.by_k", mon_adv_ok && !mon_plain_store);
}
#endif
void h_committed_int(void) {
#ifdef XV_INT
  FOR_SHAPES(committed_case(k_, S_));
#endif
}

/* =====================================================================================================
 * INT: try_push / do_pop validate what they read (arbitrary environment, callees answer arbitrarily within their contracts, loop cut)
 * ===================================================================================================== */
#if defined(XV_INT) && defined(XV_STUB)
unsigned rec_fi_n, rec_qf_n, rec_se_n, rec_cm_n; uint64_t rec_fi_start, rec_fi_idx, rec_fi_old, rec_fi_clock, rec_qf_h, rec_qf_t, rec_qf_clock, rec_se_h, rec_se_clock, rec_cm_t, rec_cm_v, rec_cm_idx, rec_cm_clock;
_Bool rec_fi_ret, rec_qf_ret, rec_se_ret, rec_cm_ret;
static _Bool rec_find_index(struct kbq* self, uint64_t start, uint64_t* idx_p, uint64_t* old_p, _Bool empty) {
  xv_env();
  rec_fi_n++; rec_fi_start = start; rec_fi_ret = nondet_bool(); rec_fi_idx = nondet_u64(); rec_fi_old = nondet_u64(); rec_fi_clock = ++xv_clock;
  XV_ASSUME(rec_fi_idx < NMAX);
  if (rec_fi_ret) { XV_ASSUME((MV_get(rec_fi_old) == 0) == empty); *idx_p = rec_fi_idx; }
  *old_p = rec_fi_old;
  xv_env();
  return rec_fi_ret;
}
static _Bool rec_find_index_E(struct kbq* self, uint64_t start, uint64_t* idx_p, uint64_t* old_p) { return rec_find_index(self, start, idx_p, old_p, 1); }
static _Bool rec_find_index_N(struct kbq* self, uint64_t start, uint64_t* idx_p, uint64_t* old_p) { return rec_find_index(self, start, idx_p, old_p, 0); }
static _Bool rec_queue_full(struct kbq* self, uint64_t h, uint64_t t) { xv_env(); rec_qf_n++; rec_qf_h = h; rec_qf_t = t; rec_qf_ret = nondet_bool(); rec_qf_clock = ++xv_clock; return rec_qf_ret; }
static _Bool rec_segment_empty(struct kbq* self, uint64_t h) { xv_env(); rec_se_n++; rec_se_h = h; rec_se_ret = nondet_bool(); rec_se_clock = ++xv_clock; return rec_se_ret; }
static _Bool rec_committed(struct kbq* self, uint64_t t, uint64_t v, uint64_t idx) { xv_env(); rec_cm_n++; rec_cm_t = t; rec_cm_v = v; rec_cm_idx = idx; rec_cm_ret = nondet_bool(); rec_cm_clock = ++xv_clock; return rec_cm_ret; }
#endif
static void iter_reset(struct kbq* self) {
#if defined(XV_INT) && defined(XV_STUB)
  self->_head = nondet_u64(); self->_tail = nondet_u64(); XV_ASSUME(MI_get(self->_head) < self->_queue_size && MI_get(self->_tail) < self->_queue_size);
  for (unsigned i = 0; i < NMAX; i++) self->_queue[i].value = nondet_u64();
  uint64_t k = self->_k, size = self->_queue_size; mon_reset(self); mon_log_on = 1; self->_k = k; self->_queue_size = size;
  rec_fi_n = 0; rec_qf_n = 0; rec_se_n = 0; rec_cm_n = 0;
#endif
}
static void setup_int(struct kbq* q) {
#if defined(XV_INT) && defined(XV_STUB)
  in_k = nondet_u64(); in_s = nondet_u64(); XV_ASSUME(in_k >= 1 && in_k <= KMAX && in_s >= 1 && in_s <= SMAX);
  q->_k = in_k; q->_queue_size = in_k * in_s; iter_reset(q); e_q = q; e_arbitrary = 1; e_on = 1;
#endif
}
void h_push_int(void) {
#if defined(XV_INT) && defined(XV_STUB)
  struct kbq q; setup_int(&q);
  in_value = nondet_u64(); XV_ASSUME(in_value != 0 && in_value <= PTR_MASK);
  _Bool r = kbq_try_push_cut(&q, in_value);
  e_on = 0;
  /* every path: tail is read first, then head; the scan starts at the index of the tail word read */
  XV_OBL("kbq.push.validate", rec_fi_n == 1 && rec_fi_start == MI_get(mon_tail_first));
  if (r) {
    marked_value nv = MV_make(in_value, MV_mark(rec_fi_old) + 1);
    XV_OBL("kbq.push.validate", rec_fi_ret && mon_tail_loads == 2 && mon_tail_last == mon_tail_first && mon_tail_last_clock > rec_fi_clock);
    XV_OBL("kbq.push.validate", mon_slot_cas_n == 1 && mon_slot_cas_ok && mon_slot_cas_idx == rec_fi_idx && mon_slot_cas_e == rec_fi_old && mon_slot_cas_d == nv && mon_slot_cas_clock > mon_tail_last_clock);
    XV_OBL("kbq.push.validate", rec_cm_n == 1 && rec_cm_ret && rec_cm_t == mon_tail_first && rec_cm_v == nv && rec_cm_idx == rec_fi_idx && rec_cm_clock > mon_slot_cas_clock);
    XV_OBL("kbq.push.validate", g_released == 1 && mon_head_cas_n == 0 && mon_tail_cas_n == 0);
    XV_OBL("kbq.sync.slot_release", XV_IS_RELEASE(mon_slot_cas_order));
    XV_CANARY("push_int.true");
  } else {
    /* "full": no empty slot seen in the tail segment, tail unchanged over the scan, queue_full and a non-empty head segment observed for the head word read, head still that word; value stays with the caller */
    XV_OBL("kbq.push.validate", !rec_fi_ret && mon_tail_loads == 2 && mon_tail_last == mon_tail_first && mon_tail_last_clock > rec_fi_clock);
    XV_OBL("kbq.push.validate", rec_qf_n == 1 && rec_qf_ret && rec_qf_h == mon_head_first && rec_qf_t == mon_tail_first && rec_se_n == 1 && !rec_se_ret && rec_se_h == mon_head_first);
    XV_OBL("kbq.push.validate", mon_head_loads == 2 && mon_head_last == mon_head_first && mon_head_last_clock > rec_se_clock);
    XV_OBL("kbq.push.validate", g_released == 0 && mon_slot_cas_n == 0 && mon_head_cas_n == 0 && mon_tail_cas_n == 0 && rec_cm_n == 0);
    XV_CANARY("push_int.false");
  }
  XV_OBL("kbq.advance.by_k", mon_adv_ok && !mon_plain_store);
#endif
}
void h_pop_int(void) {
#if defined(XV_INT) && defined(XV_STUB)
  struct kbq q; setup_int(&q);
  in_res0 = nondet_uptr(); value_type res = in_res0;
  _Bool r = kbq_do_pop_cut(&q, &res);
  e_on = 0;
  XV_OBL("kbq.pop.validate", rec_fi_n == 1 && rec_fi_start == MI_get(mon_head_first));
  if (r) {
    XV_OBL("kbq.pop.validate", rec_fi_ret && mon_head_loads == 2 && mon_head_last == mon_head_first && mon_head_last_clock > rec_fi_clock);
    XV_OBL("kbq.pop.validate", mon_slot_cas_n == 1 && mon_slot_cas_ok && mon_slot_cas_idx == rec_fi_idx && mon_slot_cas_e == rec_fi_old && mon_slot_cas_d == MV_make(0, MV_mark(rec_fi_old) + 1) && mon_slot_cas_clock > mon_head_last_clock);
    XV_OBL("kbq.pop.validate", res == MV_get(rec_fi_old) && g_stored == 1 && mon_head_cas_n == 0);
    /* a consumer that takes from the segment tail still points to first moves tail on: producers must not refill a segment behind head */
    if (MI_get(mon_head_first) == MI_get(mon_tail_first)) { XV_OBL("kbq.pop.validate", mon_tail_cas_n == 1 && mon_tail_cas_e == mon_tail_first && mon_tail_cas_clock < mon_slot_cas_clock); XV_CANARY("pop_int.moved_tail"); }
    else XV_OBL("kbq.pop.validate", mon_tail_cas_n == 0);
    XV_OBL("kbq.sync.slot_release", XV_IS_RELEASE(mon_slot_cas_order));
    XV_CANARY("pop_int.true");
  } else {
    XV_OBL("kbq.pop.validate", !rec_fi_ret && mon_head_loads == 2 && mon_head_last == mon_head_first && mon_head_last_clock > rec_fi_clock);
    XV_OBL("kbq.pop.validate", MI_get(mon_head_first) == MI_get(mon_tail_first) && mon_tail_loads == 2 && mon_tail_last == mon_tail_first && mon_tail_last_clock > mon_head_last_clock);
    XV_OBL("kbq.pop.validate", res == in_res0 && g_stored == 0 && mon_slot_cas_n == 0 && mon_head_cas_n == 0 && mon_tail_cas_n == 0);
    XV_CANARY("pop_int.empty");
  }
  XV_OBL("kbq.advance.by_k", mon_adv_ok && !mon_plain_store);
#endif
}

/* static fact: the slot word keeps all pointer bits (see obligation kbq.slot.any_pointer) */
void h_slot_word(void) {
  XV_OBL("kbq.slot.any_pointer", XV_SLOT_MARK_BITS <= XV_MAX_UPPER_MARK_BITS);
  XV_CANARY("slot_word.reached");
}

/* pop(): the functors it passes to do_pop (extracted text) against the ones of try_pop; XV_POP_OPTIONAL_TARGET is the callee named in pop()'s body */
#define do_pop 7701    /* only for the comparison below: the name of the callee in pop()'s body */
void h_pop_optional(void) {
  marked_value v = nondet_u64(), v0 = v; value_type res = nondet_uptr();
  g_got = 0; g_stored = 0;
  XV_OBL("kbq.pop_optional.same_as_try_pop", XV_POP_OPTIONAL_TARGET == 7701);      /* pop() forwards to do_pop */
  value_type a = kbq_opt_success(&v);
  _Bool ok = kbq_pop_success(&res, &v);
  XV_OBL("kbq.pop_optional.same_as_try_pop", ok && a == res && a == MV_get(v0) && v == v0 && g_got == 1 && g_stored == 1);
  struct xv_opt e = kbq_opt_empty();
  XV_OBL("kbq.pop_optional.same_as_try_pop", !e.present && !kbq_pop_empty());
  XV_CANARY("pop_optional.reached");
}
#undef do_pop
